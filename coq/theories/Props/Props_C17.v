(* C17 — Output-stream messages reach their target once, in order, in a valid format.
   Statements only; every proof is [exact <lemma>].
   PARTIAL: what serde_json / csv print for a record is not modelled (a rendered
   record is the opaque symbol [SRec fmt record]); every line is parsed back by
   the correspondence harness instead. "No message can stop the target" is a
   statement about panics and is exercised by the harness; the model-level part
   is C17_file_later_messages_unaffected. *)
From Coq Require Import List NArith Bool.
From RV Require Import Targets.TargetsModel Targets.TargetsProofs.
From RV Require Ingress.IngressModel Targets.TargetsRegister.
Import ListNotations.
Local Open Scope N_scope.

(* file-out: for every history of updates, the file content is the output of
   every emitted message, once, in emission order, nothing else *)
Theorem C17_file_once_in_order : forall f us,
  file_out f us = flat_map (fun m => write_record f (m_rec m)) (messages us).
Proof. exact file_once_in_order. Qed.
Print Assumptions C17_file_once_in_order.

(* route updates, withdrawals, query results, status changes never produce output,
   wherever they are interleaved *)
Theorem C17_routes_produce_nothing : forall f us,
  (forall u, In u us -> is_output u = false) -> file_out f us = [].
Proof. exact routes_produce_nothing. Qed.
Print Assumptions C17_routes_produce_nothing.

Theorem C17_route_traffic_is_invisible : forall f us1 u us2,
  is_output u = false -> file_out f (us1 ++ u :: us2) = file_out f (us1 ++ us2).
Proof. exact file_out_insert. Qed.
Print Assumptions C17_route_traffic_is_invisible.

(* no message changes what is written for later ones *)
Theorem C17_file_later_messages_unaffected : forall f us1 us2,
  file_out f (us1 ++ us2) = file_out f us1 ++ file_out f us2.
Proof. exact file_out_app. Qed.
Print Assumptions C17_file_later_messages_unaffected.

(* the lines of the file are the lines of each message, message after message,
   and the file ends with a newline — for ALL histories *)
Theorem C17_file_lines_per_message : forall f us,
  lines_of (file_out f us) =
  (flat_map (fun r => fst (lines_of (write_record f r))) (records us), []).
Proof. exact file_lines_per_message. Qed.
Print Assumptions C17_file_lines_per_message.

(* exact number of lines for ALL histories: a record the csv serializer rejects
   gives none, custom text gives one more than it has newlines, the rest one *)
Theorem C17_file_line_count : forall f us,
  length (fst (lines_of (file_out f us))) = sum_nat (map (line_count f) (records us)) /\
  snd (lines_of (file_out f us)) = [].
Proof. exact file_line_count. Qed.
Print Assumptions C17_file_line_count.

(* one line per message that parses back to the emitted record: holds for the
   histories whose custom texts have no newline and whose routes the csv
   serializer accepts ... *)
Theorem C17_one_line_each_partial : forall f us,
  forallb (clean f) (records us) = true ->
  file_lines f us = map (expected_line f) (records us) /\
  snd (lines_of (file_out f us)) = [].
Proof. exact one_line_each_partial. Qed.
Print Assumptions C17_one_line_each_partial.

(* ... and exactly for those: any other record does not get one line *)
Theorem C17_unclean_record_not_one_line : forall f r,
  clean f r = false -> line_count f r <> 1%nat.
Proof. exact unclean_record_line. Qed.
Print Assumptions C17_unclean_record_not_one_line.

(* without the hypothesis the statement is false (known findings C17-newline, C17-csv-route) *)
Theorem C17_one_line_each_refuted :
  exists f us, file_lines f us <> map (expected_line f) (records us).
Proof. exact one_line_each_refuted_newline. Qed.
Print Assumptions C17_one_line_each_refuted.

Theorem C17_one_line_each_csv_refuted :
  exists us, file_lines FCsv us <> map (expected_line FCsv) (records us).
Proof. exact one_line_each_refuted_csv. Qed.
Print Assumptions C17_one_line_each_csv_refuted.

(* mqtt-out: for every interleaving of arriving updates, publish-loop steps,
   update_info calls on the shared ingress register, client hand-overs and
   reconfigurations in which the publish loop only runs while it has a client,
   once the queue is drained the client has been handed exactly the addressed
   messages, once, in emission order, each with the topic template and the
   ingress metadata of the moment it was emitted ([mqtt_spec]) *)
Theorem C17_mqtt_once_in_order_partial : forall c h,
  publishes_connected false h = true ->
  sent (mqtt_drain (mqtt_run c h)) = mqtt_spec c [] h.
Proof. exact mqtt_once_in_order. Qed.
Print Assumptions C17_mqtt_once_in_order_partial.

(* ... and at every moment before that, a prefix of them *)
Theorem C17_mqtt_published_is_prefix_partial : forall c h,
  publishes_connected false h = true ->
  exists rest, mqtt_spec c [] h = sent (mqtt_run c h) ++ rest.
Proof. exact mqtt_published_prefix. Qed.
Print Assumptions C17_mqtt_published_is_prefix_partial.

(* without the hypothesis it is false: what the loop takes off the queue while
   there is no client is discarded (known finding C17-mqtt-no-client) *)
Theorem C17_mqtt_once_in_order_refuted :
  exists c h, sent (mqtt_drain (mqtt_run c h)) <> mqtt_spec c [] h.
Proof. exact mqtt_publish_without_client_refuted. Qed.
Print Assumptions C17_mqtt_once_in_order_refuted.

(* whatever the client does, for EVERY history: what the client is handed is the
   demanded sequence with some messages left out - never a duplicate, never out of
   order, never a message nobody addressed to the target *)
Theorem C17_mqtt_never_duplicates_reorders_invents : forall c h,
  sub (sent (mqtt_drain (mqtt_run c h))) (mqtt_spec c [] h).
Proof. exact mqtt_published_sub_spec. Qed.
Print Assumptions C17_mqtt_never_duplicates_reorders_invents.

(* the demand, message by message: every emitted message, paired with the
   configuration and the register of its moment ... *)
Theorem C17_mqtt_spec_message_by_message : forall h c r,
  mqtt_spec c r h = flat_map demanded (stamped c r h).
Proof. exact mqtt_spec_stamped. Qed.
Print Assumptions C17_mqtt_spec_message_by_message.

(* ... where the register of its moment is what ALL the update_info calls before
   the emission, and none after it, have produced *)
Theorem C17_mqtt_stamp_is_register_at_emission : forall h1 ms h2 c r,
  stamped c r (h1 ++ MUpdate (UOutput ms) :: h2) =
  stamped c r h1 ++ map (pair (cfg_after c h1, reg_after r h1)) ms
  ++ stamped (cfg_after c h1) (reg_after r h1) h2.
Proof. exact stamped_at. Qed.
Print Assumptions C17_mqtt_stamp_is_register_at_emission.

(* EVERY history, EVERY moment, no hypothesis: whatever the client has been
   handed is an emitted message with the component's name, carrying the ingress
   metadata the register held when that message was turned into a SenderMsg
   (direct_update, before it is queued) - never an older snapshot, never a later
   state - and the topic of the template configured at that moment *)
Theorem C17_mqtt_published_metadata_is_current : forall c h p,
  In p (ms_published (mqtt_run c h)) ->
  exists h1 u h2 m,
    h = h1 ++ MUpdate u :: h2 /\ In m (msgs_of u) /\ m_name m = mc_name c /\
    p_msg p = mk_send (cfg_after c h1) (reg_after [] h1) m.
Proof. exact mqtt_published_metadata. Qed.
Print Assumptions C17_mqtt_published_metadata_is_current.

(* the target keeps no copy of the shared state: after any history its view of
   the register is the register the update_info calls made, its configuration
   the one the Reconfigure commands made *)
Theorem C17_mqtt_target_keeps_no_copy : forall h s,
  ms_reg (fold_left mqtt_step h s) = reg_after (ms_reg s) h /\
  ms_cfg (fold_left mqtt_step h s) = cfg_after (ms_cfg s) h.
Proof. exact run_shared_state. Qed.
Print Assumptions C17_mqtt_target_keeps_no_copy.

(* an update_info that no emission follows (the message is already queued, or
   published) changes nothing *)
Theorem C17_mqtt_later_update_info_invisible : forall c h1 id new h2,
  forallb (fun e => negb (is_mupdate e)) h2 = true ->
  mqtt_spec c [] (h1 ++ MInfo id new :: h2) = mqtt_spec c [] (h1 ++ h2).
Proof. exact later_update_info_invisible. Qed.
Print Assumptions C17_mqtt_later_update_info_invisible.

(* what the register holds for an id: the merge, in order, of the update_info
   calls for THAT id (None before the first: an id that is only registered has
   no metadata) ... *)
Theorem C17_register_entry_is_merge_of_its_updates : forall h r id,
  reg_get (reg_after r h) id = fold_left merge_opt (updates_for id h) (reg_get r id).
Proof. exact reg_get_after. Qed.
Print Assumptions C17_register_entry_is_merge_of_its_updates.

(* ... field by field: the last value any of them supplied for the field *)
Theorem C17_register_field_is_last_supplied : forall p, In p info_fields -> forall h id,
  fld p (reg_get (reg_after [] h) id) = fold_left upd_field (map p (updates_for id h)) None.
Proof. exact field_after. Qed.
Print Assumptions C17_register_field_is_last_supplied.

(* ... and it is the register of property C14: after every history of register()
   and update_info calls, the register this model reads answers every get like
   the model of src/ingress.rs that the C14 engine ties to the real Register *)
Theorem C17_register_is_the_C14_register : forall cs id,
  option_map TargetsRegister.to_c14 (reg_get (fold_left TargetsRegister.t_step cs []) id)
  = IngressModel.reg_get (fold_left TargetsRegister.c14_step cs IngressModel.reg_new) id.
Proof. exact TargetsRegister.registers_agree_from_new. Qed.
Print Assumptions C17_register_is_the_C14_register.

(* reconfiguration: the name the target answers to cannot change; the QoS of a
   publication is the configured one as long as no reconfiguration changes it *)
Theorem C17_mqtt_name_survives_reconfigure : forall h c, mc_name (cfg_after c h) = mc_name c.
Proof. exact cfg_after_name. Qed.
Print Assumptions C17_mqtt_name_survives_reconfigure.

Theorem C17_mqtt_qos_configured : forall c h,
  forallb (keeps_qos (mc_qos c)) h = true ->
  Forall (fun p => p_qos p = mc_qos c) (ms_published (mqtt_drain (mqtt_run c h))).
Proof. exact qos_configured. Qed.
Print Assumptions C17_mqtt_qos_configured.

(* selection: exactly the messages whose name is the component's name *)
Theorem C17_mqtt_selects_exactly : forall c r ms,
  select c r ms = map (mk_send c r) (filter (addressed c) ms).
Proof. exact select_filter. Qed.
Print Assumptions C17_mqtt_selects_exactly.

Theorem C17_mqtt_addressed_means_same_name : forall c m,
  addressed c m = true <-> m_name m = mc_name c.
Proof. exact addressed_iff. Qed.
Print Assumptions C17_mqtt_addressed_means_same_name.

Theorem C17_mqtt_ignores_route_traffic : forall c r u,
  is_output u = false -> mqtt_enqueue c r u = [].
Proof. exact mqtt_ignores_non_output. Qed.
Print Assumptions C17_mqtt_ignores_route_traffic.

(* topic: the first "{id}" of the template (and, by the same equation, every
   later one) is replaced by the message's topic, which is not rescanned *)
Theorem C17_mqtt_topic_template : forall pre post topic,
  ~ In LBRACE pre ->
  topic_of (pre ++ id_pat ++ post) topic = pre ++ topic ++ topic_of post topic.
Proof. exact topic_template. Qed.
Print Assumptions C17_mqtt_topic_template.

Theorem C17_mqtt_topic_without_placeholder : forall tpl topic,
  ~ In LBRACE tpl -> topic_of tpl topic = tpl.
Proof. exact topic_no_placeholder. Qed.
Print Assumptions C17_mqtt_topic_without_placeholder.

(* non-vacuity: a clean history with every record kind, interleaved with route
   traffic; an mqtt history where one of two messages is addressed; and one in
   which the metadata of an ingress id changes between two messages of that id
   (no entry yet, then unit + address, then the name added, another id touched, template
   and QoS reconfigured with a message still queued): each message carries the metadata
   and the template of its emission, and the QoS of its publication *)
Example C17_example :
  let e := MkEntry 5 (Some 65000) None (Some 3) 1 0 None None None None in
  let us := [USingle (MkRoute 1 true);
             UOutput [MkOsm [109] [112] (RRoute (Some (MkRoute 2 true))) None;
                      MkOsm [109] [99] (RCustom 7 9) (Some 1)];
             UWithdraw 3 None;
             UOutput [MkOsm [109] [100] (RPeerdown 4 65001) None;
                      MkOsm [109] [108] (REntry (e (Some [104; 105]))) None;
                      MkOsm [109] [108] (REntry (e None)) None]] in
  forallb (clean FCsv) (records us) = true /\
  length (file_lines FCsv us) = 5%nat /\
  nth 3 (file_lines FJsonMin us) LGarbage = LText [104; 105] /\
  let c := MkCfg [109] [114; 47; 123; 105; 100; 125] 2 in
  let addr := MkInfo (Some 1) None (Some 7) None None None None None in
  let name := MkInfo None None None None None None (Some 4) None in
  map (fun p => s_topic (p_msg p)) (mqtt_observe c [MClient true; MInfo 1 addr;
       MUpdate (UOutput [MkOsm [120] [97] (RCustom 1 1) None; MkOsm [109] [98] (RCustom 2 2) (Some 1)]);
       MPublish; MUpdate (USingle (MkRoute 1 true))]) = [[114; 47; 98]] /\
  let m k := MUpdate (UOutput [MkOsm [109] [98] (RCustom k k) (Some 1)]) in
  let h := [MClient true; m 1; MPublish; MInfo 1 addr; m 2; MInfo 1 name; MInfo 2 name; m 3; MPublish;
            MReconf [120] 1; m 4; MInfo 1 addr] in
  publishes_connected false h = true /\
  map (fun p => (s_topic (p_msg p), p_qos p, s_ing (p_msg p))) (mqtt_observe c h) =
    [([114; 47; 98], 2, None);
     ([114; 47; 98], 2, Some addr);
     ([114; 47; 98], 1, Some (MkInfo (Some 1) None (Some 7) None None None (Some 4) None));
     ([120], 1, Some (MkInfo (Some 1) None (Some 7) None None None (Some 4) None))].
Proof. vm_compute. repeat split; reflexivity. Qed.
