(* C15 - Gauges and counters always agree with what actually happened.
   State-machine level (per router): Bmp/BmpModel.v metrics. *)
From stdpp Require Import gmap.
From Coq Require Import NArith.
From RV Require Import Ingress.IngressModel Rib.RibModel Bmp.BmpModel Bmp.BmpProofs.
From RV Require Import Bmp.BmpStreamModel Bmp.BmpStreamProofs Bmp.BmpUnitProofs.
From RV Require Gate.GateModel Gate.GateProofs.
From RV Require Http.EscapeModel Bmp.BmpUnitTextModel Bmp.BmpUnitTextProofs.
Local Open Scope N_scope.

(* at every point of every message history the three peer gauges equal the
   numbers read off the peer table: peers up, EoR-capable peers up, peers up
   that still wait for an End-of-RIB *)
Theorem C15_gauges_match_state : forall ms r rid,
  let s := (sm_run r rid sm_init ms).1.2 in
  m_up (sm_metrics s) = n_up (sm_peers s) /\
  m_eorcap (sm_metrics s) = n_eorcap (sm_peers s) /\
  m_dumping (sm_metrics s) = n_dumping (sm_peers s).
Proof.
  intros ms r rid s. pose proof (run_gauges_ok ms r rid sm_init gauges_ok_init) as H.
  fold s in H. unfold gauges_ok in H. apply andb_true_iff in H as [H H3]. apply andb_true_iff in H as [H1 H2].
  apply N.eqb_eq in H1, H2, H3. auto.
Qed.
Print Assumptions C15_gauges_match_state.

(* each counter equals the number of matching events of the history *)
Theorem C15_counters_count : forall ms r rid s,
  let res := sm_run r rid s ms in
  m_unprocessable (sm_metrics res.1.2) = m_unprocessable (sm_metrics s) + sumN (map inval res.2) /\
  m_ann (sm_metrics res.1.2) = m_ann (sm_metrics s) + sumN (map anns_in res.2) /\
  m_wd (sm_metrics res.1.2) = m_wd (sm_metrics s) + sumN (map wds_in res.2) /\
  m_prefixes (sm_metrics res.1.2) = m_prefixes (sm_metrics s) + sumN (map anns_in res.2).
Proof. exact run_counters. Qed.
Print Assumptions C15_counters_count.

Theorem C15_counters_monotone : forall r rid s m,
  let s' := (sm_step r rid s m).1.2 in
  m_unprocessable (sm_metrics s) <= m_unprocessable (sm_metrics s') /\
  m_ann (sm_metrics s) <= m_ann (sm_metrics s') /\ m_wd (sm_metrics s) <= m_wd (sm_metrics s') /\
  m_prefixes (sm_metrics s) <= m_prefixes (sm_metrics s').
Proof. exact step_counters_monotone. Qed.
Print Assumptions C15_counters_monotone.

(* the exported state follows the phase once the session is initiated (before
   the Initiation message the metric set is created reading "Dumping") *)
Theorem C15_state_metric_follows_phase : forall ms r rid,
  let s := (sm_run r rid sm_init ms).1.2 in
  sm_phase s = PInit \/ m_state (sm_metrics s) = phase_idx (sm_phase s).
Proof. intros ms r rid. apply run_state_ok. left; reflexivity. Qed.
Print Assumptions C15_state_metric_follows_phase.

Example C15_example :
  let p : pph := (0, 0, 0, 0, 1, 65001, 1) in
  let q : pph := (0, 0, 0, 0, 2, 65001, 1) in
  let ms := [MInit; MPeerUp p true; MPeerUp q false; MRoute p (Some (URoutes 0 [1; 2] 7 0 [3])); MPeerDown q] in
  let s := (sm_run reg_new 5 sm_init ms).1.2 in
  (m_up (sm_metrics s), m_eorcap (sm_metrics s), m_dumping (sm_metrics s), m_ann (sm_metrics s), m_wd (sm_metrics s))
  = (1, 1, 1, 2, 1).
Proof. vm_compute. reflexivity. Qed.

(* ---- gate level: GateMetrics num_updates / num_dropped_updates (src/comms.rs, shared by a gate
   and its clones) over the interleaving model of C08 (Gate/GateModel.v): [run cf tr] executes
   ANY list of atomic actions of links, root gate, clones and publishers. *)

(* on every schedule num_updates is the number of update_data calls that have returned, and
   num_dropped_updates the number of those that nobody took: no hand-over of that update to any
   link (queued to a live receiver / direct_update called on a live target) is in the log *)
Theorem C15_gate_counters_count : forall cf tr,
  GateModel.m_upd (GateModel.run cf tr) = GateModel.n_published (GateModel.run cf tr) /\
  GateModel.m_drop (GateModel.run cf tr) = GateModel.n_dropped (GateModel.run cf tr).
Proof. exact GateProofs.gate_counters_count. Qed.
Print Assumptions C15_gate_counters_count.

(* an update is counted as dropped exactly when it was handed to nobody *)
Theorem C15_gate_dropped_iff_nobody_took_it : forall cf tr p n sn b,
  List.In (p, n, sn, b) (GateModel.completed (GateModel.run cf tr)) ->
  (b = false <-> forall x l, ~ List.In (x, l, p, n) (GateModel.delivered (GateModel.run cf tr))).
Proof. exact GateProofs.gate_dropped_iff_nobody_took_it. Qed.
Print Assumptions C15_gate_dropped_iff_nobody_took_it.

(* the same count read off the schedule: the number of enabled [AEnd] steps *)
Theorem C15_gate_num_updates_counts_trace : forall cf tr,
  GateModel.m_upd (GateModel.run cf tr) = N.of_nat (GateModel.finished_in cf GateModel.init tr).
Proof. exact GateProofs.gate_num_updates_counts_trace. Qed.
Print Assumptions C15_gate_num_updates_counts_trace.

Theorem C15_gate_counters_monotone : forall cf s a,
  GateModel.m_upd s <= GateModel.m_upd (GateModel.step cf s a) /\
  GateModel.m_drop s <= GateModel.m_drop (GateModel.step cf s a).
Proof. exact GateProofs.gate_counters_monotone. Qed.
Print Assumptions C15_gate_counters_monotone.

Example C15_gate_example :
  let cf := GateModel.MkCfg 2 false true in
  let tr := [GateModel.ASendSub 1; GateModel.ARoot; GateModel.ABegin 0; GateModel.ADeliver 0; GateModel.AEnd 0;
             GateModel.ARxDrop 0; GateModel.ABegin 0; GateModel.ADeliver 0; GateModel.AEnd 0] in
  (GateModel.m_upd (GateModel.run cf tr), GateModel.m_drop (GateModel.run cf tr)) = (2, 1).
Proof. vm_compute. reflexivity. Qed.

(* ---- unit level: the counters the connection handler itself keeps per router
   (src/units/bmp_tcp_in/metrics.rs RouterMetrics: num_bmp_messages_received[type 0..6],
   num_bmp_messages_processed, num_invalid_bmp_messages, num_receive_io_errors) and
   connection_lost_count, over the read loop of Bmp/BmpStreamModel.v (the model of C06 / C07).
   A reader is ANY script of read events [evs] (a byte arrives / a read fails once with some
   io::ErrorKind) followed by end of file or silence until unit shutdown [tl]; [parse] is routecore's
   parser - any function that never accepts a frame whose type octet is above 6 ([parse_types_ok]);
   [iters_of parse tl evs] is what the read loop met, one entry per iteration, read off the script
   alone (no session state, no counters). *)

(* for every script, from any starting state: the session ends in the cleanup, and every counter has
   grown by exactly the number of matching iterations - per type: accepted frames with that type
   octet; processed: frames handed to the state machine; invalid: InvalidMessage answers of the state
   machine run (BmpModel.sm_run) over exactly those messages; io errors: failed calls of
   BmpStream::next (failed reads, end of file, a short length field, frames the parser rejects) *)
Theorem C15_unit_counters_count : forall parse tl rid evs s u, parse_types_ok parse -> um_wf u ->
  let its := iters_of parse tl evs in
  let run := sm_run (s_reg s) rid (s_sm s) (it_msgs its) in
  exists e rest s' u',
    run_from_m parse tl rid evs s u = (Done e rest s' (cleanup rid s'), u') /\
    (forall t, (t < 7)%nat -> recv_of u' t = recv_of u t + countb (it_type (N.of_nat t)) its) /\
    rm_processed (router_metrics u') = rm_processed (router_metrics u) + N.of_nat (length (it_msgs its)) /\
    rm_invalid (router_metrics u') = rm_invalid (router_metrics u) + sumN (map inval run.2) /\
    rm_ioerr (router_metrics u') = rm_ioerr (router_metrics u) + countb it_failed its /\
    s_reg s' = run.1.1 /\ s_sm s' = run.1.2.
Proof. exact unit_counters_count. Qed.
Print Assumptions C15_unit_counters_count.

(* the loop with counters is the loop C06 and C07 are stated about *)
Theorem C15_unit_counters_same_session : forall parse tl rid evs s u, parse_types_ok parse -> um_wf u ->
  (run_from_m parse tl rid evs s u).1 = run_from parse true tl rid evs s.
Proof. exact unit_counters_same_session. Qed.
Print Assumptions C15_unit_counters_same_session.

(* a fresh connection: the counters ARE the counts; received = sum over the types = processed; the
   invalid counter equals the state machine's own unprocessable counter (C15_counters_count); when
   the session ends the lost connection is counted once and the router's series are dropped *)
Theorem C15_unit_counters_fresh_connection : forall parse tl addr evs, parse_types_ok parse ->
  let rid := (conn_init addr).1 in
  let s0 := (conn_init addr).2 in
  let its := iters_of parse tl evs in
  let run := sm_run (s_reg s0) rid sm_init (it_msgs its) in
  exists e rest s' u',
    run_from_m parse tl rid evs s0 um_init = (Done e rest s' (cleanup rid s'), u') /\
    (forall t, (t < 7)%nat -> recv_of u' t = countb (it_type (N.of_nat t)) its) /\
    rm_processed (router_metrics u') = N.of_nat (length (it_msgs its)) /\
    sumN (rm_recv (router_metrics u')) = rm_processed (router_metrics u') /\
    rm_invalid (router_metrics u') = sumN (map inval run.2) /\
    rm_invalid (router_metrics u') = m_unprocessable (sm_metrics (s_sm s')) /\
    rm_ioerr (router_metrics u') = countb it_failed its /\
    um_lost u' = 0 /\ unit_final (Done e rest s' (cleanup rid s'), u') = MkUM None 1.
Proof. exact unit_counters_fresh. Qed.
Print Assumptions C15_unit_counters_fresh_connection.

(* at any quiescent moment - the connection has handed out the first k read events and waits for
   more - the counters are the counts over the iterations completed so far *)
Theorem C15_unit_counters_at_quiescent_point : forall parse rid evs k s u sk uk, parse_types_ok parse -> um_wf u ->
  conn_at parse rid evs k s u = Some (sk, uk) ->
  let its := iters_of parse THang (take k evs) in
  let run := sm_run (s_reg s) rid (s_sm s) (it_msgs its) in
  (forall t, (t < 7)%nat -> recv_of uk t = recv_of u t + countb (it_type (N.of_nat t)) its) /\
  rm_processed (router_metrics uk) = rm_processed (router_metrics u) + N.of_nat (length (it_msgs its)) /\
  rm_invalid (router_metrics uk) = rm_invalid (router_metrics u) + sumN (map inval run.2) /\
  rm_ioerr (router_metrics uk) = rm_ioerr (router_metrics u) + countb it_failed its /\
  um_lost uk = um_lost u /\ s_sm sk = run.1.2.
Proof. exact unit_counters_at_quiescent_point. Qed.
Print Assumptions C15_unit_counters_at_quiescent_point.

(* received = sum over types: an invariant of every run *)
Theorem C15_unit_counters_received_is_sum : forall parse tl rid evs s u res u', parse_types_ok parse -> um_wf u ->
  sumN (rm_recv (router_metrics u)) = rm_processed (router_metrics u) ->
  run_from_m parse tl rid evs s u = (res, u') ->
  sumN (rm_recv (router_metrics u')) = rm_processed (router_metrics u').
Proof. exact run_received_is_sum. Qed.
Print Assumptions C15_unit_counters_received_is_sum.

(* counters never decrease: over a run from any state ... *)
Theorem C15_unit_counters_monotone : forall parse tl rid evs s u res u', parse_types_ok parse -> um_wf u ->
  run_from_m parse tl rid evs s u = (res, u') ->
  (forall t, (t < 7)%nat -> recv_of u t <= recv_of u' t) /\
  rm_processed (router_metrics u) <= rm_processed (router_metrics u') /\
  rm_invalid (router_metrics u) <= rm_invalid (router_metrics u') /\
  rm_ioerr (router_metrics u) <= rm_ioerr (router_metrics u') /\
  um_lost u <= um_lost (unit_final (res, u')).
Proof. exact run_monotone. Qed.
Print Assumptions C15_unit_counters_monotone.

(* ... and between any two quiescent moments of one connection *)
Theorem C15_unit_counters_monotone_between_reads : forall parse rid evs k1 k2 s u s1 u1 s2 u2,
  parse_types_ok parse -> um_wf u -> (k1 <= k2)%nat ->
  conn_at parse rid evs k1 s u = Some (s1, u1) -> conn_at parse rid evs k2 s u = Some (s2, u2) ->
  (forall t, (t < 7)%nat -> recv_of u1 t <= recv_of u2 t) /\
  rm_processed (router_metrics u1) <= rm_processed (router_metrics u2) /\
  rm_invalid (router_metrics u1) <= rm_invalid (router_metrics u2) /\
  rm_ioerr (router_metrics u1) <= rm_ioerr (router_metrics u2).
Proof. exact conn_at_monotone. Qed.
Print Assumptions C15_unit_counters_monotone_between_reads.

(* `num_bmp_messages_received[type octet]` has 7 slots and the octet comes from the wire: the index
   stays in range for every script because the parser never accepts a type above 6 ... *)
Theorem C15_unit_counters_index_in_range : forall parse tl rid evs s u p r s' u', parse_types_ok parse -> um_wf u ->
  run_from_m parse tl rid evs s u <> (Panic p r s', u').
Proof. exact unit_index_in_range. Qed.
Print Assumptions C15_unit_counters_index_in_range.

(* ... and only because of that: a parser that lets type 7 through makes the connection task panic
   at the index, on a six-byte frame (nothing in rotonda checks the octet) *)
Theorem C15_unit_counters_index_needs_parser_guarantee :
  (forall u code, um_wf u -> 7 <= code -> message_received u code = None) /\
  exists s u, run_from_m (fun _ => Some MInit) TEof 1 (map EByte [3; 0; 0; 0; 6; 7]) (conn_init 1).2 um_init
              = (Panic PMetricsIndex [] s, u).
Proof. exact (conj message_received_out_of_range index_needs_parser_guarantee). Qed.
Print Assumptions C15_unit_counters_index_needs_parser_guarantee.

(* an HTTP client that looks at the router's page makes the router's series appear (all zeros if
   nothing was counted yet) and changes no counter *)
Theorem C15_unit_counters_page_visit_changes_nothing : forall u,
  router_metrics (page_visit u) = router_metrics u /\ um_lost (page_visit u) = um_lost u /\
  (forall t, recv_of (page_visit u) t = recv_of u t) /\ (um_wf u -> um_wf (page_visit u)).
Proof. exact page_visit_spec. Qed.
Print Assumptions C15_unit_counters_page_visit_changes_nothing.

(* the Prometheus text of these counters: every label set of a router's series (component = unit name,
   router = format_source_id(template, _, ingress id), msg_type = one of the seven RFC 7854 names) is
   well formed and is read back exactly by a consumer of the exposition format, if the two configured
   strings are free of quote, backslash and newline (cf. C19_metrics_labels_safe: the router label never
   contains text a router sent) *)
Theorem C15_unit_counters_labels_parse : forall unit tpl id ls,
  EscapeModel.prom_value_ok unit = true -> EscapeModel.prom_value_ok tpl = true ->
  List.In ls (BmpUnitTextModel.unit_router_series unit tpl id) ->
  forallb EscapeModel.label_ok ls = true /\ EscapeModel.prom_parse (EscapeModel.prom_labels ls) = Some ls.
Proof. exact BmpUnitTextProofs.unit_series_roundtrip. Qed.
Print Assumptions C15_unit_counters_labels_parse.

(* Initiation, a frame of unknown type 9 (rejected by the parser: one io error), a read that times out
   (not fatal: one io error), Initiation again (accepted, nothing to do), a Peer Down for a peer that is
   not up (invalid), end of file (the third io error; the connection is lost) *)
Example C15_unit_counters_example :
  let parse (f : list N) : option msg :=
    match f with
    | [_; _; _; _; _; 4] => Some MInit
    | [_; _; _; _; _; 2] => Some (MPeerDown (0, 0, 0, 0, 1, 65001, 1))
    | _ => None
    end in
  let evs := map EByte [3; 0; 0; 0; 6; 4; 3; 0; 0; 0; 6; 9] ++ [EErr KTimedOut] ++ map EByte [3; 0; 0; 0; 6; 4; 3; 0; 0; 0; 6; 2] in
  let x := run_from_m parse TEof (conn_init 1).1 evs (conn_init 1).2 um_init in
  (rm_recv (router_metrics x.2), rm_processed (router_metrics x.2), rm_invalid (router_metrics x.2),
   rm_ioerr (router_metrics x.2), unit_final x)
  = ([0; 0; 1; 0; 2; 0; 0], 3, 1, 3, MkUM None 1).
Proof. vm_compute. reflexivity. Qed.

(* ---- the bgp-tcp-in unit's own counters (src/units/bgp_tcp_in/status_reporter.rs, metrics.rs) on the
   select! loop of Processor::process (Bgp/BgpSessionModel.v bm_step / bsm_loop / bsm_process; engine
   bgpend, op M) ---- *)
From RV Require Bgp.BgpSessionModel Bgp.BgpSessionProofs.

(* the loop with the counters is the loop of C02 / C07: same state, same events left over *)
Theorem C15_bgp_counters_loop_is_the_session_loop : forall id key live0 m0 evs,
  ((BgpSessionModel.bsm_process id key live0 m0 evs).1.1, (BgpSessionModel.bsm_process id key live0 m0 evs).2)
  = BgpSessionModel.bs_process id key live0 evs.
Proof. exact BgpSessionProofs.bsm_process_refines. Qed.
Print Assumptions C15_bgp_counters_loop_is_the_session_loop.

(* for every script and whatever the unit's counters were when the session started: each counter grew by
   the number of matching events among those the loop handled (ConnectionLost with or without a socket
   address; Terminate and "this peer is no longer configured") *)
Theorem C15_bgp_counters_count : forall id key live0 m0 evs,
  let taken := BgpSessionModel.bs_taken id key (BgpSessionModel.bs_init live0) evs in
  let m := (BgpSessionModel.bsm_process id key live0 m0 evs).1.2 in
  BgpSessionModel.bm_lost m = BgpSessionModel.bm_lost m0 + BgpSessionModel.bs_count BgpSessionModel.bs_is_lost taken /\
  BgpSessionModel.bm_disc m = BgpSessionModel.bm_disc m0 + BgpSessionModel.bs_count BgpSessionModel.bs_is_disc taken.
Proof. exact BgpSessionProofs.bgp_counters_count. Qed.
Print Assumptions C15_bgp_counters_count.

(* the handled events are the script minus what the loop did not get to *)
Theorem C15_bgp_taken_is_the_handled_prefix : forall id key evs s,
  BgpSessionModel.bs_taken id key s evs ++ (BgpSessionModel.bs_loop id key s evs).2 = evs.
Proof. exact BgpSessionProofs.bs_taken_prefix. Qed.
Print Assumptions C15_bgp_taken_is_the_handled_prefix.

(* connection_lost_count grows by one exactly for a session whose loop was left through the ConnectionLost
   arm - whichever side noticed the loss (Some addr: routecore's reader; None: rotonda's PDU writer task) *)
Theorem C15_bgp_lost_count_counts_every_loss : forall id key live0 m0 evs,
  BgpSessionModel.bm_lost (BgpSessionModel.bsm_process id key live0 m0 evs).1.2 =
  BgpSessionModel.bm_lost m0 + (if BgpSessionModel.bs_ended_by_loss id key live0 evs then 1 else 0).
Proof. exact BgpSessionProofs.bgp_lost_count_counts_every_loss. Qed.
Print Assumptions C15_bgp_lost_count_counts_every_loss.

(* over the sessions a unit serves on its shared counters: lost = number of sessions that ended by a lost
   connection (what `accepted - lost` needs to mean "connections still there") *)
Theorem C15_bgp_unit_lost_counts_sessions : forall id key sessions m,
  BgpSessionModel.bm_lost (BgpSessionModel.bsm_unit id key m sessions) =
  BgpSessionModel.bm_lost m +
  N.of_nat (length (List.filter (fun x => BgpSessionModel.bs_ended_by_loss id key x.1 x.2) sessions)).
Proof. exact BgpSessionProofs.bgp_unit_lost_counts_sessions. Qed.
Print Assumptions C15_bgp_unit_lost_counts_sessions.

Theorem C15_bgp_counters_monotone : forall id key live0 m0 evs,
  BgpSessionModel.bm_lost m0 <= BgpSessionModel.bm_lost (BgpSessionModel.bsm_process id key live0 m0 evs).1.2 /\
  BgpSessionModel.bm_disc m0 <= BgpSessionModel.bm_disc (BgpSessionModel.bsm_process id key live0 m0 evs).1.2.
Proof. exact BgpSessionProofs.bgp_counters_monotone. Qed.
Print Assumptions C15_bgp_counters_monotone.

(* the variant in which peer_connection_lost(None) returns before the counter (seeded change C15-c2): an
   established session ended by ConnectionLost(None) leaves the counter at 0; the model of the code counts 1 *)
Theorem C15_bgp_lost_early_return_refuted :
  BgpSessionModel.bs_ended_by_loss 7 5 ∅ BgpSessionProofs.bgp_lost_witness = true /\
  BgpSessionModel.bm_lost (BgpSessionModel.bsm_loop_with BgpSessionModel.bm_step_early_return 7 5
     (BgpSessionModel.bs_init ∅) (BgpSessionModel.MkMet 0 0) BgpSessionProofs.bgp_lost_witness) = 0 /\
  BgpSessionModel.bm_lost (BgpSessionModel.bsm_process 7 5 ∅ (BgpSessionModel.MkMet 0 0) BgpSessionProofs.bgp_lost_witness).1.2 = 1.
Proof. exact BgpSessionProofs.bgp_lost_early_return_refuted. Qed.
Print Assumptions C15_bgp_lost_early_return_refuted.

(* a session that is told to shut down (counted as a disconnect), goes on, sees its peer's entry change (no
   count), and is then lost without a socket address; the next ConnectionLost is never looked at; four sessions
   of one unit: two lost, two disconnects *)
Example C15_bgp_counters_example :
  let evs := [BgpSessionModel.BNegotiate; BgpSessionModel.BMsgNegotiated; BgpSessionModel.BTerminate; BgpSessionModel.BTick;
              BgpSessionModel.BReconf BgpSessionModel.BRPeer; BgpSessionModel.BMsgLost false; BgpSessionModel.BMsgLost true] in
  (BgpSessionModel.bsm_process 7 5 {[6]} (BgpSessionModel.MkMet 3 1) evs).1.2 = BgpSessionModel.MkMet 4 2 /\
  (BgpSessionModel.bsm_process 7 5 {[6]} (BgpSessionModel.MkMet 3 1) evs).2 = [BgpSessionModel.BMsgLost true] /\
  BgpSessionModel.bsm_unit 7 5 (BgpSessionModel.MkMet 0 0)
    [(∅, evs); (∅, [BgpSessionModel.BNegotiate; BgpSessionModel.BTickErr 0]);
     (∅, [BgpSessionModel.BReconf BgpSessionModel.BRGone]); (∅, [BgpSessionModel.BMsgLost true])] = BgpSessionModel.MkMet 2 2.
Proof. exact BgpSessionProofs.bgp_counters_example. Qed.

(* ================= the RIB unit's own metrics (src/units/rib_unit/metrics.rs, status_reporter.rs, unit.rs insert_payload) =================
   RibModel.ribm_run: the store of C01-C03 with the unit's counters carried along; RibModel.rtrace: the history as a reader
   classifies it, one class per exploded route (new prefix / prefix already held / withdrawal of a held prefix / of a prefix not held). *)
From RV Require Rib.RibMetricsProofs.
From Coq Require Import ZArith.

(* the counters run over the very store of C01-C03 *)
Theorem C15_rib_counters_same_store : forall us, (ribm_run us).1 = rib_run us.
Proof. exact RibMetricsProofs.ribm_run_rib. Qed.
Print Assumptions C15_rib_counters_same_store.

(* for every update history each counter is the number of matching routes of the history; routes_announced (a wrapping usize,
   read as a two's-complement number) is new prefixes minus withdrawals of held prefixes; the counter of withdrawals without an
   announcement is never written *)
Theorem C15_rib_counters_count : forall us,
  let m := (ribm_run us).2 in let t := rtrace us in
  rm_unique m = rcount RNew t /\ rm_items m = rcount RNew t /\ rm_hard m = rcount RWMiss t /\
  rm_announced m = (Z.of_N (rcount RNew t) - Z.of_N (rcount RWHeld t))%Z /\
  rm_modified m = rcount RMod t + rcount RWHeld t /\ rm_withdrawn m = rcount RWHeld t /\ rm_wd_noann m = 0.
Proof. exact RibMetricsProofs.rib_counters_count. Qed.
Print Assumptions C15_rib_counters_count.

(* num_unique_prefixes and num_items both are the number of (family, prefix) pairs the store holds a record for *)
Theorem C15_rib_gauges_are_sizes : forall us,
  let s := ribm_run us in
  rm_unique s.2 = N.of_nat (size (rib_pfxs s.1)) /\ rm_items s.2 = N.of_nat (size (rib_pfxs s.1)).
Proof. exact RibMetricsProofs.rib_gauges_are_sizes. Qed.
Print Assumptions C15_rib_gauges_are_sizes.

(* every counter but routes_announced only grows, update by update *)
Theorem C15_rib_counters_monotone : forall us u,
  let m := (ribm_run us).2 in let m' := (ribm_run (us ++ [u])).2 in
  rm_unique m <= rm_unique m' /\ rm_items m <= rm_items m' /\ rm_hard m <= rm_hard m' /\
  rm_modified m <= rm_modified m' /\ rm_withdrawn m <= rm_withdrawn m' /\ rm_wd_noann m <= rm_wd_noann m'.
Proof. exact RibMetricsProofs.ribm_run_monotone. Qed.
Print Assumptions C15_rib_counters_monotone.

(* known finding C15-6, four faces. num_items ("items (e.g. routes) stored") counts prefixes: two ids, one prefix, two records, 1 *)
Theorem C15_rib_items_not_routes_refuted :
  rm_items (ribm_run RibMetricsProofs.items_witness).2 = 1 /\ size (recs (ribm_run RibMetricsProofs.items_witness).1) = 2%nat.
Proof. exact RibMetricsProofs.rib_items_not_routes_witness. Qed.
Print Assumptions C15_rib_items_not_routes_refuted.

(* num_routes_announced: a route announced once and withdrawn twice leaves -1, rendered as 18446744073709551615 *)
Theorem C15_rib_announced_wraps_refuted :
  rm_announced (ribm_run RibMetricsProofs.announced_witness).2 = (-1)%Z /\ rib_n_active (ribm_run RibMetricsProofs.announced_witness).1 = 0.
Proof. exact RibMetricsProofs.rib_announced_wraps_witness. Qed.
Print Assumptions C15_rib_announced_wraps_refuted.

(* ... and a session-wide withdrawal does not touch it *)
Theorem C15_rib_announced_ignores_session_down_refuted :
  rm_announced (ribm_run RibMetricsProofs.down_witness).2 = 1%Z /\ rib_n_active (ribm_run RibMetricsProofs.down_witness).1 = 0.
Proof. exact RibMetricsProofs.rib_announced_ignores_session_down_witness. Qed.
Print Assumptions C15_rib_announced_ignores_session_down_refuted.

(* a withdrawal of a never announced route is counted as a hard insert failure; the counter made for it stays 0 *)
Theorem C15_rib_wd_without_announcement_never_written_refuted :
  rm_wd_noann (ribm_run RibMetricsProofs.wd_witness).2 = 0 /\ rm_hard (ribm_run RibMetricsProofs.wd_witness).2 = 1 /\
  rcount_wd_norec (rtrace RibMetricsProofs.wd_witness) = 1.
Proof. exact RibMetricsProofs.rib_wd_without_announcement_witness. Qed.
Print Assumptions C15_rib_wd_without_announcement_never_written_refuted.

(* the strongest agreement that does hold for num_items: it is the number of stored routes as long as no prefix is held for two ids *)
Theorem C15_rib_items_partial : forall us,
  let s := ribm_run us in
  (forall k k', is_Some (recs s.1 !! k) -> is_Some (recs s.1 !! k') -> k.1 = k'.1 -> k = k') ->
  rm_items s.2 = N.of_nat (size (recs s.1)).
Proof. exact RibMetricsProofs.rib_items_partial. Qed.
Print Assumptions C15_rib_items_partial.

(* two ids and two prefixes, an update of a held prefix, a withdrawal, a withdrawal of a prefix nobody holds, a session loss *)
Example C15_rib_counters_example :
  (ribm_run [UBulk [MkPay (0, 1, 7) true 1; MkPay (0, 2, 7) true 1]; UBulk [MkPay (0, 1, 8) true 2]; UBulk [MkPay (0, 2, 7) false 0];
             UBulk [MkPay (0, 3, 7) false 0]; UWithdraw 8 None]).2 = MkRmet 2 2 1 1%Z 2 1 0.
Proof. exact RibMetricsProofs.rib_counters_example. Qed.

(* ================= the accept loops: connection_accepted_count of bmp-tcp-in and bgp-tcp-in =================
   status_reporter.rs listener_connection_accepted, called by the accept loop of unit.rs for every connection the listener hands
   out; over the pipeline models of E2e/E2eModel.v (uc_step: BMP routers, b_step: BGP speakers; read by the e2e engine, ops M / BM) *)
From RV Require E2e.E2eModel E2e.E2eProofs E2e.E2eAcceptProofs.

(* bmp-tcp-in: for every history the counter has grown by the number of connections made *)
Theorem C15_bmp_accepted_counts_connections : forall l u,
  E2eModel.uc_accepted (E2eModel.uc_run u l) = E2eModel.uc_accepted u + E2eAcceptProofs.uc_accept_count u l.
Proof. exact E2eAcceptProofs.uc_accepted_counts_connections. Qed.
Print Assumptions C15_bmp_accepted_counts_connections.

(* ... and accepted - lost is the number of routers connected, at every point *)
Theorem C15_bmp_connected_is_accepted_minus_lost : forall l,
  E2eModel.uc_connected_spec (E2eModel.uc_run E2eModel.uc_init l) =
  E2eModel.uc_accepted (E2eModel.uc_run E2eModel.uc_init l) - E2eModel.uc_lost (E2eModel.uc_run E2eModel.uc_init l).
Proof. exact E2eProofs.uc_connected_is_accepted_minus_lost. Qed.
Print Assumptions C15_bmp_connected_is_accepted_minus_lost.

(* bgp-tcp-in: for every history of the running pipeline (traffic, edits of the peers, reloads on every schedule) the counter has
   grown by the number of connections made - whether or not the peer was configured (the handler of an unknown peer is dropped
   after the accept) *)
Theorem C15_bgp_accepted_counts_connections : forall h st,
  E2eModel.bs_accepted (E2eModel.b_run st h) = E2eModel.bs_accepted st + E2eAcceptProofs.b_accept_count st h.
Proof. exact E2eAcceptProofs.b_accepted_counts_connections. Qed.
Print Assumptions C15_bgp_accepted_counts_connections.

Theorem C15_accepted_monotone : forall l o u h bo st,
  E2eModel.uc_accepted (E2eModel.uc_run u l) <= E2eModel.uc_accepted (E2eModel.uc_run u (l ++ [o])) /\
  E2eModel.bs_accepted (E2eModel.b_run st h) <= E2eModel.bs_accepted (E2eModel.b_run st (h ++ [bo])).
Proof. exact E2eAcceptProofs.accepted_monotone. Qed.
Print Assumptions C15_accepted_monotone.

(* a configured peer, an unconfigured one, a second connection of a connected address (the engine makes none), a close, the
   address again: three connections accepted *)
Example C15_bgp_accepted_example : forall s0 n0,
  E2eAcceptProofs.b_accept_count (E2eModel.b_init s0 n0)
    [E2eModel.BOpen 0; E2eModel.BOpen 3; E2eModel.BOpen 0; E2eModel.BClose 0; E2eModel.BOpen 0; E2eModel.BOpen 9] = 3.
Proof. exact E2eAcceptProofs.b_accept_example. Qed.
