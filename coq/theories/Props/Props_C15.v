(* C15 - Gauges and counters always agree with what actually happened.
   State-machine level (per router): Bmp/BmpModel.v metrics. *)
From stdpp Require Import gmap.
From Coq Require Import NArith.
From RV Require Import Ingress.IngressModel Rib.RibModel Bmp.BmpModel Bmp.BmpProofs.
From RV Require Gate.GateModel Gate.GateProofs.
Local Open Scope N_scope.

(* at every point of every message history the three peer gauges equal the
   numbers read off the peer table: peers up, EoR-capable peers up, peers up
   that still wait for an End-of-RIB *)
Theorem C15_gauges_match_state : forall ms r rid,
  let s := (sm_run r rid sm_init ms).1.2 in
  m_up (sm_metrics s) = n_up (sm_peers s) /\
  m_eorcap (sm_metrics s) = n_eorcap (sm_peers s) /\
  m_dumping (sm_metrics s) = n_dumping (sm_peers s).
Proof.
  intros ms r rid s. pose proof (run_gauges_ok ms r rid sm_init gauges_ok_init) as H.
  fold s in H. unfold gauges_ok in H. apply andb_true_iff in H as [H H3]. apply andb_true_iff in H as [H1 H2].
  apply N.eqb_eq in H1, H2, H3. auto.
Qed.
Print Assumptions C15_gauges_match_state.

(* each counter equals the number of matching events of the history *)
Theorem C15_counters_count : forall ms r rid s,
  let res := sm_run r rid s ms in
  m_unprocessable (sm_metrics res.1.2) = m_unprocessable (sm_metrics s) + sumN (map inval res.2) /\
  m_ann (sm_metrics res.1.2) = m_ann (sm_metrics s) + sumN (map anns_in res.2) /\
  m_wd (sm_metrics res.1.2) = m_wd (sm_metrics s) + sumN (map wds_in res.2) /\
  m_prefixes (sm_metrics res.1.2) = m_prefixes (sm_metrics s) + sumN (map anns_in res.2).
Proof. exact run_counters. Qed.
Print Assumptions C15_counters_count.

Theorem C15_counters_monotone : forall r rid s m,
  let s' := (sm_step r rid s m).1.2 in
  m_unprocessable (sm_metrics s) <= m_unprocessable (sm_metrics s') /\
  m_ann (sm_metrics s) <= m_ann (sm_metrics s') /\ m_wd (sm_metrics s) <= m_wd (sm_metrics s') /\
  m_prefixes (sm_metrics s) <= m_prefixes (sm_metrics s').
Proof. exact step_counters_monotone. Qed.
Print Assumptions C15_counters_monotone.

(* the exported state follows the phase once the session is initiated (before
   the Initiation message the metric set is created reading "Dumping") *)
Theorem C15_state_metric_follows_phase : forall ms r rid,
  let s := (sm_run r rid sm_init ms).1.2 in
  sm_phase s = PInit \/ m_state (sm_metrics s) = phase_idx (sm_phase s).
Proof. intros ms r rid. apply run_state_ok. left; reflexivity. Qed.
Print Assumptions C15_state_metric_follows_phase.

Example C15_example :
  let p : pph := (0, 0, 0, 0, 1, 65001, 1) in
  let q : pph := (0, 0, 0, 0, 2, 65001, 1) in
  let ms := [MInit; MPeerUp p true; MPeerUp q false; MRoute p (Some (URoutes 0 [1; 2] 7 0 [3])); MPeerDown q] in
  let s := (sm_run reg_new 5 sm_init ms).1.2 in
  (m_up (sm_metrics s), m_eorcap (sm_metrics s), m_dumping (sm_metrics s), m_ann (sm_metrics s), m_wd (sm_metrics s))
  = (1, 1, 1, 2, 1).
Proof. vm_compute. reflexivity. Qed.

(* ---- gate level: GateMetrics num_updates / num_dropped_updates (src/comms.rs, shared by a gate
   and its clones) over the interleaving model of C08 (Gate/GateModel.v): [run cf tr] executes
   ANY list of atomic actions of links, root gate, clones and publishers. *)

(* on every schedule num_updates is the number of update_data calls that have returned, and
   num_dropped_updates the number of those that nobody took: no hand-over of that update to any
   link (queued to a live receiver / direct_update called on a live target) is in the log *)
Theorem C15_gate_counters_count : forall cf tr,
  GateModel.m_upd (GateModel.run cf tr) = GateModel.n_published (GateModel.run cf tr) /\
  GateModel.m_drop (GateModel.run cf tr) = GateModel.n_dropped (GateModel.run cf tr).
Proof. exact GateProofs.gate_counters_count. Qed.
Print Assumptions C15_gate_counters_count.

(* an update is counted as dropped exactly when it was handed to nobody *)
Theorem C15_gate_dropped_iff_nobody_took_it : forall cf tr p n sn b,
  List.In (p, n, sn, b) (GateModel.completed (GateModel.run cf tr)) ->
  (b = false <-> forall x l, ~ List.In (x, l, p, n) (GateModel.delivered (GateModel.run cf tr))).
Proof. exact GateProofs.gate_dropped_iff_nobody_took_it. Qed.
Print Assumptions C15_gate_dropped_iff_nobody_took_it.

(* the same count read off the schedule: the number of enabled [AEnd] steps *)
Theorem C15_gate_num_updates_counts_trace : forall cf tr,
  GateModel.m_upd (GateModel.run cf tr) = N.of_nat (GateModel.finished_in cf GateModel.init tr).
Proof. exact GateProofs.gate_num_updates_counts_trace. Qed.
Print Assumptions C15_gate_num_updates_counts_trace.

Theorem C15_gate_counters_monotone : forall cf s a,
  GateModel.m_upd s <= GateModel.m_upd (GateModel.step cf s a) /\
  GateModel.m_drop s <= GateModel.m_drop (GateModel.step cf s a).
Proof. exact GateProofs.gate_counters_monotone. Qed.
Print Assumptions C15_gate_counters_monotone.

Example C15_gate_example :
  let cf := GateModel.MkCfg 2 false in
  let tr := [GateModel.ASendSub 1; GateModel.ARoot; GateModel.ABegin 0; GateModel.ADeliver 0; GateModel.AEnd 0;
             GateModel.ARxDrop 0; GateModel.ABegin 0; GateModel.ADeliver 0; GateModel.AEnd 0] in
  (GateModel.m_upd (GateModel.run cf tr), GateModel.m_drop (GateModel.run cf tr)) = (2, 1).
Proof. vm_compute. reflexivity. Qed.
