(* C10 - A Roto filter's verdict is honoured and its predicates mean what they say.
   Statements only; every proof is [exact <lemma>].
   [eval k p i] = the filter function of program p (kind k) on input i, as the
   code evaluates it; [eval_spec] = as documented. [msg_site] / [rib_site] = the
   call sites (bmp-in and bgp-in / rib-in-pre) for ANY filter function, any
   unit behind them and any rendering of output entries; [rib_unit] /
   [bmp_unit] / [bgp_unit] = the call sites in front of the RIB model, the BMP
   session state machine model and the UPDATE explosion. *)
From stdpp Require Import gmap.
From Coq Require Import NArith Bool.
From RV Require Import Ingress.IngressModel Rib.RibModel Bmp.BmpModel.
From RV Require Import Filter.FilterLang Filter.FilterGlue Filter.FilterUnits Filter.FilterProofs.
From RV Require Pipe.PipeModel E2e.E2eModel E2e.E2eProofs E2e.E2eIngress.
From RV Require Import Filter.FilterFetch Filter.FilterFetchProofs.
Local Open Scope N_scope.

(* ---- the verdict decides the outcome ---- *)

(* a missing filter accepts everything: the unit behaves as the unit behind the call site *)
Theorem C10_no_filter_accepts :
  (forall (S M U O : Type) (render : M -> out -> option O) (process : S -> M -> S * list U) s m,
     msg_site None render process s m = (fst (process s m), map DUpd (snd (process s m)))) /\
  (forall lb render r ps,
     rib_unit lb render None r ps =
     (fold_left rib_insert_payload (map fp_pay ps) r, match ps with [] => [] | _ => [DUpd ps] end)).
Proof. exact (conj (@msg_no_filter) rib_unit_no_filter). Qed.
Print Assumptions C10_no_filter_accepts.

(* a rejected BMP/BGP message changes nothing and nothing but the output stream leaves the unit *)
Theorem C10_reject_is_noop :
  forall (S M U O : Type) (f : M -> bool * list out) (render : M -> out -> option O)
         (process : S -> M -> S * list U) s m,
    fst (f m) = false ->
    fst (msg_site (Some f) render process s m) = s /\
    upds_of (snd (msg_site (Some f) render process s m)) = [].
Proof. exact (@msg_reject). Qed.
Print Assumptions C10_reject_is_noop.

(* an accepted one is processed exactly as without a filter *)
Theorem C10_accept_is_unfiltered :
  forall (S M U O : Type) (f : M -> bool * list out) (render : M -> out -> option O)
         (process : S -> M -> S * list U) s m,
    fst (f m) = true ->
    fst (msg_site (Some f) render process s m) = fst (process s m) /\
    upds_of (snd (msg_site (Some f) render process s m)) = snd (process s m) /\
    fst (msg_site (Some f) render process s m) = fst (msg_site None render process s m) /\
    upds_of (snd (msg_site (Some f) render process s m)) = upds_of (snd (msg_site None render process s m)).
Proof. exact (@msg_accept). Qed.
Print Assumptions C10_accept_is_unfiltered.

(* rib-in-pre, per route: the RIB and what is forwarded are exactly those of the
   unfiltered unit given the accepted routes only, in their order *)
Theorem C10_rib_verdict_per_route :
  forall lb render p r ps,
    let acc := List.filter (fun fp => accepts lb FRib p (fp_in fp)) ps in
    fst (rib_unit lb render (Some p) r ps) = fst (rib_unit lb render None r acc) /\
    upds_of (snd (rib_unit lb render (Some p) r ps)) = upds_of (snd (rib_unit lb render None r acc)) /\
    fst (rib_unit lb render None r acc) = fold_left rib_insert_payload (map fp_pay acc) r /\
    upds_of (snd (rib_unit lb render None r acc)) = match acc with [] => [] | _ => [acc] end.
Proof. exact rib_unit_filtered. Qed.
Print Assumptions C10_rib_verdict_per_route.

Theorem C10_rib_reject_is_noop :
  forall lb render p r ps,
    Forall (fun fp => accepts lb FRib p (fp_in fp) = false) ps ->
    fst (rib_unit lb render (Some p) r ps) = r /\ upds_of (snd (rib_unit lb render (Some p) r ps)) = [].
Proof. exact rib_unit_reject. Qed.
Print Assumptions C10_rib_reject_is_noop.

(* the same over whole histories of any length: a filtered unit is the
   unfiltered unit fed with the accepted items only - same final state, same
   updates sent, in the same order - while every item's output entries are
   sent whether it was accepted or not *)
Theorem C10_filtered_session_is_unfiltered_on_accepted :
  forall (S M U O : Type) (f : M -> bool * list out) (render : M -> out -> option O)
         (process : S -> M -> S * list U) ms s,
    let acc := List.filter (fun m => fst (f m)) ms in
    fst (msg_run (Some f) render process s ms) = fst (msg_run None render process s acc) /\
    upds_of (snd (msg_run (Some f) render process s ms)) = upds_of (snd (msg_run None render process s acc)) /\
    outs_of (snd (msg_run (Some f) render process s ms)) = flat_map (fun m => omap (render m) (snd (f m))) ms /\
    outs_of (snd (msg_run None render process s acc)) = [].
Proof. exact (@msg_run_history). Qed.
Print Assumptions C10_filtered_session_is_unfiltered_on_accepted.

Theorem C10_filtered_rib_is_unfiltered_on_accepted :
  forall (R P O : Type) (f : P -> bool * list out) (render : P -> out -> option O) (insert : R -> P -> R) us r,
    let acc := map (List.filter (fun p => fst (f p))) us in
    fst (rib_run_site (Some f) render insert r us) = fst (rib_run_site None render insert r acc) /\
    upds_of (snd (rib_run_site (Some f) render insert r us)) = upds_of (snd (rib_run_site None render insert r acc)) /\
    outs_of (snd (rib_run_site (Some f) render insert r us)) =
      flat_map (fun ps => flat_map (fun p => omap (render p) (snd (f p))) ps) us.
Proof. exact (@rib_run_history). Qed.
Print Assumptions C10_filtered_rib_is_unfiltered_on_accepted.

(* bmp-in in front of the session state machine; bgp-in in front of the explosion *)
Theorem C10_bmp_verdict :
  forall lb render p rid st m,
    (accepts lb FBmp p (snd m) = false ->
       fst (bmp_unit lb render (Some p) rid st m) = st /\
       upds_of (snd (bmp_unit lb render (Some p) rid st m)) = []) /\
    (accepts lb FBmp p (snd m) = true ->
       fst (bmp_unit lb render (Some p) rid st m) = fst (bmp_unit lb render None rid st m) /\
       upds_of (snd (bmp_unit lb render (Some p) rid st m)) = upds_of (snd (bmp_unit lb render None rid st m))).
Proof. exact (fun lb render p rid st m => conj (bmp_unit_reject lb render p rid st m) (bmp_unit_accept lb render p rid st m)). Qed.
Print Assumptions C10_bmp_verdict.

Theorem C10_bgp_verdict :
  forall lb render p id m,
    upds_of (bgp_unit lb render (Some p) id m) =
      (if accepts lb FBgp p (snd m) then [UBulk (payloads_of id (fst m))] else []) /\
    upds_of (bgp_unit lb render None id m) = [UBulk (payloads_of id (fst m))] /\
    outs_of (bgp_unit lb render (Some p) id m) = omap (render (snd m)) (snd (eval_gen lb FBgp p (snd m))).
Proof. exact bgp_unit_verdict. Qed.
Print Assumptions C10_bgp_verdict.

(* ---- output calls ---- *)

(* whatever the verdict, the messages leaving the unit are the rendered entries
   of the call, once each, in call order, ahead of anything the message causes *)
Theorem C10_outputs_once_in_order :
  forall (S M U O : Type) (f : M -> bool * list out) (render : M -> out -> option O)
         (process : S -> M -> S * list U) s m,
    outs_of (snd (msg_site (Some f) render process s m)) = omap (render m) (snd (f m)) /\
    exists us, snd (msg_site (Some f) render process s m) = drain render m (snd (f m)) ++ map DUpd us.
Proof. exact (@msg_outputs). Qed.
Print Assumptions C10_outputs_once_in_order.

Theorem C10_rib_outputs_once_in_order :
  forall lb render p r ps,
    outs_of (snd (rib_unit lb render (Some p) r ps)) =
    flat_map (fun fp => omap (render (fp_in fp)) (snd (eval_gen lb FRib p (fp_in fp)))) ps.
Proof. exact rib_unit_outputs. Qed.
Print Assumptions C10_rib_outputs_once_in_order.

(* the entries of a run are the output calls on the path taken: at most the
   calls of the text (none runs twice), straight-line code emits all of them in
   order, and an if sits between what precedes and what follows it *)
Theorem C10_entries_are_the_calls :
  (forall lb k p e i, (length (snd (exec lb k e i p)) <= out_calls p)%nat) /\
  (forall lb k e i os b, exec lb k e i (straight os b) = (Some b, map (eval_out e) os)) /\
  (forall lb k e i c th el r,
     let br := if eval_cond lb k e i c then th else el in
     snd (exec lb k e i (PIf c th el r)) =
     snd (exec lb k e i br) ++ match fst (exec lb k e i br) with Some _ => [] | None => snd (exec lb k e i r) end).
Proof. exact (conj exec_out_bound (conj exec_straight exec_if_order)). Qed.
Print Assumptions C10_entries_are_the_calls.

(* with the renderers of the code, every entry becomes a message at all three
   call sites - for scripts that do not call log_peer_down *)
Theorem C10_every_entry_is_sent_partial :
  forall lb k p i,
    calls_peer_down p = false ->
    omap (render_rib i) (snd (eval_gen lb k p i)) = omap (render_spec (Some (in_pfx i)) i) (snd (eval_gen lb k p i)) /\
    omap (render_bgp i) (snd (eval_gen lb k p i)) = omap (render_spec None i) (snd (eval_gen lb k p i)) /\
    omap (render_bmp i) (snd (eval_gen lb k p i)) = omap (render_spec None i) (snd (eval_gen lb k p i)) /\
    length (omap (render_spec None i) (snd (eval_gen lb k p i))) = length (snd (eval_gen lb k p i)).
Proof. exact rendered_as_spec_without_peer_down. Qed.
Print Assumptions C10_every_entry_is_sent_partial.

(* ... and log_peer_down is lost at the rib unit (also at bgp-in, and at bmp-in
   on anything but a Peer Down Notification) *)
Theorem C10_peer_down_entry_dropped_refuted :
  let f := eval FRib peer_down_witness_prog in
  let i := peer_down_witness_input in
  snd (f i) = [EPeerDown; ECustom 1 2] /\
  outs_of (snd (rib_site (Some f) render_rib (fun (r : list input) p => r ++ [p]) [] [i])) = [OsmCustom 1 2 7] /\
  outs_of (snd (rib_site (Some f) (render_spec (Some 42)) (fun (r : list input) p => r ++ [p]) [] [i]))
    = [OsmPeerDown 65000 7; OsmCustom 1 2 7].
Proof. exact peer_down_dropped_refuted. Qed.
Print Assumptions C10_peer_down_entry_dropped_refuted.

(* ---- the predicates mean what they say ---- *)

Theorem C10_aspath_contains : forall lb k e i a,
  eval_pred lb k e i (PAspathContains a) = true <->
  is_rm k i = true /\ In (HAsn (eval_arg e a)) (seen_hops lb k i).
Proof. exact pred_aspath_contains. Qed.
Print Assumptions C10_aspath_contains.

(* origin = the last hop, and only if it is an AS number (not an AS_SET) *)
Theorem C10_aspath_origin : forall lb k e i a,
  eval_pred lb k e i (PAspathOrigin a) = true <->
  is_rm k i = true /\ last (seen_hops lb k i) = Some (HAsn (eval_arg e a)).
Proof. exact pred_aspath_origin. Qed.
Print Assumptions C10_aspath_origin.

Theorem C10_aspath_is_wire_order : forall (l : list N) a,
  hops_of (MkAttrs (Some [(false, l)]) [] [] []) = map HAsn l /\ (In (HAsn a) (map HAsn l) <-> In a l).
Proof. exact hops_single_sequence. Qed.
Print Assumptions C10_aspath_is_wire_order.

Theorem C10_community : forall lb k e i a,
  eval_pred lb k e i (PCommunity a) = true <-> is_rm k i = true /\ In (eval_arg e a) (seen_comms i).
Proof. exact pred_community. Qed.
Print Assumptions C10_community.

Theorem C10_has_attribute : forall lb k e i a,
  eval_pred lb k e i (PHasAttr a) = true <-> is_rm k i = true /\ In (eval_arg e a) (seen_types i).
Proof. exact pred_has_attr. Qed.
Print Assumptions C10_has_attribute.

Theorem C10_prefix_equality : forall lb k e i a,
  eval_pred lb k e i (PPrefixIs a) = true <-> in_pfx i = eval_arg e a.
Proof. exact pred_prefix. Qed.
Print Assumptions C10_prefix_equality.

Theorem C10_message_type : forall lb k e i,
  (eval_pred lb k e i PIsRouteMon = true <-> in_kind i = K_RM) /\
  (eval_pred lb k e i PIsPeerDown = true <-> in_kind i = K_PEERDOWN).
Proof. exact pred_msg_type. Qed.
Print Assumptions C10_message_type.

Theorem C10_peer_as : forall lb k e i a,
  (eval_pred lb k e i (PPeerAsn a) = true <-> in_peer_asn i = eval_arg e a) /\
  (eval_pred lb k e i (PIsIbgp a) = true <-> in_pph_asn i = Some (eval_arg e a)).
Proof. exact pred_peer_as. Qed.
Print Assumptions C10_peer_as.

Theorem C10_comparisons : forall c x y,
  eval_cmp c x y = true <->
  match c with CEq => x = y | CNe => x <> y | CLt => x < y | CLe => x <= y | CGt => y < x | CGe => y <= x end.
Proof. exact cmp_meaning. Qed.
Print Assumptions C10_comparisons.

Theorem C10_connectives : forall lb k e i c1 c2,
  eval_cond lb k e i (CNot c1) = negb (eval_cond lb k e i c1) /\
  eval_cond lb k e i (CAnd c1 c2) = (eval_cond lb k e i c1 && eval_cond lb k e i c2) /\
  eval_cond lb k e i (COr c1 c2) = (eval_cond lb k e i c1 || eval_cond lb k e i c2).
Proof. exact cond_connectives. Qed.
Print Assumptions C10_connectives.

Theorem C10_let_binds : forall lb k e i ty n r,
  exec lb k e i (PLet ty n r) = exec lb k (e ++ [n]) i r /\
  eval_arg (e ++ [n]) (AVar (length e)) = n /\
  (forall j, (j < length e)%nat -> eval_arg (e ++ [n]) (AVar j) = eval_arg e (AVar j)).
Proof. exact let_binds. Qed.
Print Assumptions C10_let_binds.

(* a well-formed filter body always reaches an accept or a reject *)
Theorem C10_verdict_total : forall lb k p e i,
  returns p = true -> exists b, fst (exec lb k e i p) = Some b.
Proof. exact (fun lb k p e i => exec_returns lb k p e i). Qed.
Print Assumptions C10_verdict_total.

(* the code evaluates every predicate as documented, except AS-path predicates
   of a bmp-in or bgp-in filter on a message of a peer that uses 2-octet AS numbers *)
Theorem C10_predicates_as_documented_partial : forall k p i,
  k = FRib \/ in_legacy_as i = false -> eval k p i = eval_spec k p i.
Proof. exact eval_meets_spec_partial. Qed.
Print Assumptions C10_predicates_as_documented_partial.

Theorem C10_bmp_legacy_aspath_refuted :
  eval FBmp legacy_witness_prog legacy_witness_input = (true, []) /\
  eval_spec FBmp legacy_witness_prog legacy_witness_input = (false, []).
Proof. exact eval_legacy_refuted. Qed.
Print Assumptions C10_bmp_legacy_aspath_refuted.

(* the same at bgp-in on a session whose peer did not send the 4-octet AS number capability *)
Theorem C10_bgp_legacy_aspath_refuted :
  eval FBgp legacy_witness_prog bgp_legacy_witness_input = (true, []) /\
  eval_spec FBgp legacy_witness_prog bgp_legacy_witness_input = (false, []).
Proof. exact eval_bgp_legacy_refuted. Qed.
Print Assumptions C10_bgp_legacy_aspath_refuted.

(* ---- the provenance a filter is handed (round 4) ----
   [bmsg] = every BMP message type of RFC 7854 (the six of the session state machine model + Route Mirroring);
   [bmp_prov c b] = the Provenance process_msg hands the bmp-in filter for message b on a connection whose own
   provenance is c ([conn_prov rid addr]: the router's ingress id and address, AS0); [bmp_view] = the filter input. *)

(* which messages carry a per-peer header: all but Initiation and Termination *)
Theorem C10_bmp_header_kinds : forall b,
  (bmsg_pph b = None <-> bmsg_kind b = K_INIT \/ bmsg_kind b = K_TERM) /\
  (is_Some (bmsg_pph b) <->
   bmsg_kind b = K_RM \/ bmsg_kind b = K_STATS \/ bmsg_kind b = K_PEERDOWN \/ bmsg_kind b = K_PEERUP \/ bmsg_kind b = K_MIRROR) /\
  bmsg_kind b < 7.
Proof. exact bmsg_pph_kinds. Qed.
Print Assumptions C10_bmp_header_kinds.

(* the provenance a bmp-in filter sees is that of the message's per-peer header whenever it has one (peer address
   and peer AS; the ingress id stays the connection's), else the connection's own (router address, AS0) *)
Theorem C10_bmp_filter_sees_header_provenance : forall rid addr b a lg,
  let i := bmp_view (conn_prov rid addr) b a lg in
  (forall p, bmsg_pph b = Some p ->
     bmp_prov (conn_prov rid addr) b = MkProv rid (ph_addr p) (ph_asn p) /\ in_peer_asn i = ph_asn p) /\
  (bmsg_pph b = None -> bmp_prov (conn_prov rid addr) b = conn_prov rid addr /\ in_peer_asn i = 0) /\
  in_ingress i = rid.
Proof. exact bmp_filter_sees_header_provenance. Qed.
Print Assumptions C10_bmp_filter_sees_header_provenance.

(* a filter on peer_asn (a program whose conditions read nothing but prov.peer_asn()) gives the same verdict and
   the same output entries to every message type about the same peer; to the header-less messages what it gives AS0;
   at bgp-in to every UPDATE of the session *)
Theorem C10_peer_asn_filter_uniform :
  (forall lb p c b1 b2 q1 q2 a1 a2 l1 l2,
     prov_only p = true -> bmsg_pph b1 = Some q1 -> bmsg_pph b2 = Some q2 -> ph_asn q1 = ph_asn q2 ->
     eval_gen lb FBmp p (bmp_view c b1 a1 l1) = eval_gen lb FBmp p (bmp_view c b2 a2 l2)) /\
  (forall lb p rid addr b1 b2 a1 a2 l1 l2,
     prov_only p = true -> bmsg_pph b1 = None -> bmsg_pph b2 = None ->
     eval_gen lb FBmp p (bmp_view (conn_prov rid addr) b1 a1 l1) = eval_gen lb FBmp p (bmp_view (conn_prov rid addr) b2 a2 l2)) /\
  (forall lb p pv u1 u2 a1 a2 l1 l2,
     prov_only p = true -> eval_gen lb FBgp p (bgp_view pv u1 a1 l1) = eval_gen lb FBgp p (bgp_view pv u2 a2 l2)) /\
  (forall lb k p i1 i2, prov_only p = true -> in_peer_asn i1 = in_peer_asn i2 -> eval_gen lb k p i1 = eval_gen lb k p i2).
Proof. exact (conj bmp_peer_filter_uniform (conj bmp_peer_filter_headerless (conj bgp_peer_filter_uniform eval_prov_only))). Qed.
Print Assumptions C10_peer_asn_filter_uniform.

(* hence: a peer_asn filter that rejects one message about a peer keeps EVERY message about that peer - Statistics
   Report and Route Mirroring included - from the state machine: state untouched, not counted as processed, no
   update, and the same output entries leave the unit *)
Theorem C10_bmp_peer_filter_rejects_every_type : forall lb render p rid st c cn b0 b q0 q a0 a l0 l,
  prov_only p = true ->
  bmsg_pph b0 = Some q0 -> bmsg_pph b = Some q -> ph_asn q0 = ph_asn q ->
  fst (eval_gen lb FBmp p (bmp_view cn b0 a0 l0)) = false ->
  let m := (b, bmp_view cn b a l) in
  let res := bmp_unit_cnt lb render (Some p) rid (st, c) m in
  fst (fst res) = st /\ bc_proc (snd (fst res)) = bc_proc c /\ bc_inval (snd (fst res)) = bc_inval c /\
  upds_of (snd res) = [] /\
  outs_of (snd res) = omap (render (snd m)) (snd (eval_gen lb FBmp p (bmp_view cn b0 a0 l0))).
Proof. exact bmp_peer_filter_rejects_all. Qed.
Print Assumptions C10_bmp_peer_filter_rejects_every_type.

(* the counters of the connection handler over a whole connection of any length: the state machine has seen exactly
   the messages the filter let through, in order; processed = their number; invalid = those of them the state
   machine refused; received = every message, by RFC 7854 type, whatever the verdict *)
Theorem C10_bmp_counters_follow_verdicts : forall lb render flt rid ms st c,
  let res := bmp_run_cnt lb render flt rid (st, c) ms in
  let acc := List.filter (bmp_lets_through lb flt) ms in
  let smr := sm_run (fst st) rid (snd st) (map (fun m : bmsg * input => bmsg_sm (fst m)) acc) in
  fst (fst res) = (fst (fst smr), snd (fst smr)) /\
  bc_proc (snd (fst res)) = bc_proc c + N.of_nat (length acc) /\
  bc_inval (snd (fst res)) = bc_inval c + count_invalid (snd smr) /\
  (forall j, bc_recv (snd (fst res)) j = bc_recv c j + count_kind j ms).
Proof. exact bmp_run_cnt_counts. Qed.
Print Assumptions C10_bmp_counters_follow_verdicts.

(* bgp-in and rib-in-pre: the UPDATE (whatever it carries) is judged with the session's provenance; the id on an
   output message of the rib unit is the one of the provenance in the payload's context, Fresh and Mrt alike *)
Theorem C10_other_sites_provenance :
  (forall pv u a lg, in_peer_asn (bgp_view pv u a lg) = pv_asn pv /\ in_ingress (bgp_view pv u a lg) = pv_ingress pv) /\
  (forall c k a, in_ingress (rib_view_ctx c k a) = k_mui k /\ in_peer_asn (rib_view_ctx c k a) = 0).
Proof. exact (conj bgp_view_fields rib_view_ingress). Qed.
Print Assumptions C10_other_sites_provenance.

(* non-vacuity: "reject and log everything about AS12345" *)
Example C10_provenance_example :
  let q : pph := (0, 0, 0, 0, 1, 12345, 1) in
  let q' : pph := (0, 0, 0, 0, 2, 54321, 2) in
  let cn := conn_prov 1 99 in
  let na := MkAttrs None [] [] [] in
  let v b := bmp_view cn b na false in
  let ms := [(BMsg MInit, v (BMsg MInit)); (BMsg (MPeerDown q), v (BMsg (MPeerDown q)));
             (BMsg (MStats q), v (BMsg (MStats q))); (BMirror q, v (BMirror q)); (BMsg (MStats q'), v (BMsg (MStats q')))] in
  let res := bmp_run_cnt true render_bmp (Some prov_witness_prog) 1 ((IngressModel.reg_new, sm_init), cnt0) ms in
  prov_only prov_witness_prog = true /\ returns prov_witness_prog = true /\
  map (bmp_lets_through true (Some prov_witness_prog)) ms = [true; false; false; false; true] /\
  bc_proc (snd (fst res)) = 2 /\ map (bc_recv (snd (fst res))) [0; 1; 2; 3; 4; 5; 6] = [0; 2; 1; 0; 1; 0; 1] /\
  outs_of (snd res) = [OsmTopic 2 None 1; OsmTopic 2 None 1; OsmTopic 2 None 1].
Proof. exact prov_witness. Qed.

(* ---- which script a unit's filter comes from (E2e/E2eModel.v; tied to the code by the `e2e` engine: a real
   pipeline started with a roto_script, the script edited / renamed / removed, reloads that start a second RIB
   unit) ----
   [e_run lg (e_init s0) h] = the running pipeline after start-up with the script s0 and the history h of traffic,
   edits and reloads ([lg] = true: the code before compile_roto_script forgot a script that is no longer
   configured); [scripts_named s0 h] = the script the configuration named at each reload of h. *)

(* the filter of every RIB unit is the rib-in-pre of the script that the configuration named when the unit was
   started: a unit started by a reload follows the script of THAT reload, not the start-up script *)
Theorem C10_unit_filter_is_script_of_its_load : forall s0 h,
  let st := E2eModel.e_run false (E2eModel.e_init s0) h in
  let named := s0 :: E2eModel.scripts_named s0 h in
  named !! E2eModel.ru_born (E2eModel.es_rib st) = Some (E2eModel.ru_filter (E2eModel.es_rib st)) /\
  forall r, E2eModel.es_rib2 st = Some r -> named !! E2eModel.ru_born r = Some (E2eModel.ru_filter r).
Proof. exact E2eProofs.unit_filter_is_script_of_its_load. Qed.
Print Assumptions C10_unit_filter_is_script_of_its_load.

(* the ingress units' own filters (E2e/E2eIngress.v): the bmp-in filter a bmp-tcp-in unit holds and the bgp-in filter
   a bgp-tcp-in unit holds are those of the script that the configuration named when the unit was started, whatever
   was edited and loaded since *)
Theorem C10_ingress_filter_is_script_of_its_load : forall s0 n0 f0 h,
  let st := E2eIngress.g_run (E2eIngress.g_init s0 n0 f0) h in
  let named := f0 :: E2eIngress.g_named f0 h in
  named !! (E2eIngress.ig_bmp (E2eIngress.g_ig st)).2 = Some (E2eIngress.ig_bmp (E2eIngress.g_ig st)).1 /\
  named !! (E2eIngress.ig_bgp (E2eIngress.g_ig st)).2 = Some (E2eIngress.ig_bgp (E2eIngress.g_ig st)).1.
Proof. exact E2eIngress.ingress_filter_is_script_of_its_load. Qed.
Print Assumptions C10_ingress_filter_is_script_of_its_load.

(* ... also for a bmp-tcp-in unit that a reload takes out and a later one starts again (and the one next to it) *)
Theorem C10_restarted_ingress_filter_is_script_of_its_load : forall s0 n0 f0 h,
  let st := E2eIngress.j_run (E2eIngress.j_init s0 n0 f0) h in
  let named := f0 :: E2eIngress.j_named f0 h in
  named !! (E2eIngress.ig_bmp (E2eIngress.j_ig st)).2 = Some (E2eIngress.ig_bmp (E2eIngress.j_ig st)).1 /\
  named !! (E2eIngress.ig_bmp2 (E2eIngress.j_ig st)).2 = Some (E2eIngress.ig_bmp2 (E2eIngress.j_ig st)).1.
Proof. exact E2eIngress.j_ingress_filter_is_script_of_its_load. Qed.
Print Assumptions C10_restarted_ingress_filter_is_script_of_its_load.

Theorem C10_reload_starts_ingress_unit_with_new_script : forall st,
  E2eModel.is_run (E2eIngress.j_i st) = false -> E2eModel.is_want (E2eIngress.j_i st) = true ->
  E2eIngress.ig_bmp (E2eIngress.j_ig (E2eIngress.j_step st (E2eIngress.JI (E2eModel.IE E2eModel.EReload)))) =
    (E2eIngress.ig_file (E2eIngress.j_ig st), length (E2eIngress.ig_named (E2eIngress.j_ig st))) /\
  E2eModel.is_run (E2eIngress.j_i (E2eIngress.j_step st (E2eIngress.JI (E2eModel.IE E2eModel.EReload)))) = true.
Proof. exact E2eIngress.reload_starts_ingress_unit_with_new_script. Qed.
Print Assumptions C10_reload_starts_ingress_unit_with_new_script.

(* a message the unit's filter rejects is no operation end to end: sessions, register, RIB units, counters and the
   property's reading are what they would be had it never been sent *)
Theorem C10_ingress_rejected_is_noop : forall st o h,
  E2eIngress.g_rejected (E2eIngress.g_ig st) o = true ->
  E2eIngress.g_run st (E2eIngress.GB o :: h) = E2eIngress.g_run st h.
Proof. exact E2eIngress.rejected_is_noop. Qed.
Print Assumptions C10_ingress_rejected_is_noop.

(* ... for whole histories: the pipeline behind the start-up script's ingress filters is the pipeline model on the
   history without the messages those filters reject - whatever the later loads name (the units are not restarted) *)
Theorem C10_ingress_filtered_run_is_run_of_survivors : forall s0 n0 f0 h,
  E2eIngress.g_b (E2eIngress.g_run (E2eIngress.g_init s0 n0 f0) h) =
  E2eModel.b_run (E2eModel.b_init s0 n0) (omap (E2eIngress.g_survives f0) h).
Proof. exact E2eIngress.filtered_run_is_run_of_survivors. Qed.
Print Assumptions C10_ingress_filtered_run_is_run_of_survivors.

(* a unit that runs since start-up filters with the start-up script whatever is edited and reloaded later *)
Theorem C10_first_unit_keeps_startup_filter : forall lg s0 h,
  E2eModel.ru_filter (E2eModel.es_rib (E2eModel.e_run lg (E2eModel.e_init s0) h)) = s0.
Proof. exact E2eProofs.first_unit_keeps_startup_filter. Qed.
Print Assumptions C10_first_unit_keeps_startup_filter.

(* a missing filter accepts everything, end to end: without a script, or with a script that has no rib-in-pre
   filter, the RIB unit holds exactly the RIB of the pipeline model (Pipe/PipeModel.v), after every history *)
Theorem C10_no_filter_is_pipeline_model : forall lg s0 h,
  s0 = E2eModel.SNone \/ s0 = E2eModel.SNoRibFilter ->
  E2eModel.ru_rib (E2eModel.es_rib (E2eModel.e_run lg (E2eModel.e_init s0) h)) =
  PipeModel.w_rib (E2eModel.es_w (E2eModel.e_run lg (E2eModel.e_init s0) h)).
Proof. exact E2eProofs.no_filter_is_pipeline_model. Qed.
Print Assumptions C10_no_filter_is_pipeline_model.

(* a rejected route changes nothing in the RIB, end to end: after every history no RIB unit holds a record - active
   or withdrawn - for a prefix its filter rejects *)
Theorem C10_rejected_prefix_never_stored : forall lg s0 h,
  let st := E2eModel.e_run lg (E2eModel.e_init s0) h in
  (forall k, is_Some (recs (E2eModel.ru_rib (E2eModel.es_rib st)) !! k) ->
     E2eModel.script_rejects (E2eModel.ru_filter (E2eModel.es_rib st)) (k_pfx k) = false) /\
  (forall r k, E2eModel.es_rib2 st = Some r -> is_Some (recs (E2eModel.ru_rib r) !! k) ->
     E2eModel.script_rejects (E2eModel.ru_filter r) (k_pfx k) = false).
Proof. exact E2eProofs.rejected_prefix_never_stored. Qed.
Print Assumptions C10_rejected_prefix_never_stored.

(* ---- how a unit gets its filter (Filter/FilterFetch.v): the units of one load fetch their function by name from
   the one mutex-protected compiled script; [frun false look (finit names) sched] = the code (lock()), k units wanting
   the functions [names], under the schedule [sched] of unit moves and of moves of anything else that may hold the
   mutex; [frun true ..] = the try_lock().ok()? variant. Tied to the code by the `e2e` engine (op FH: a thread of the
   harness holds the real mutex while the manager starts the units of a load). ---- *)

(* every unit whose configuration names a filter ends up with that filter, whatever the interleaving: a unit that
   has finished fetching holds exactly what the script has under its name - never "no filter" when there is one *)
Theorem C10_unit_gets_its_filter_whatever_the_interleaving :
  forall (F : Type) (look : N -> option F) names sched i n f,
    fs_units (frun false look (finit names) sched) !! i = Some (UDone n f) ->
    names !! i = Some n /\ f = look n.
Proof. exact (@fetch_safe). Qed.
Print Assumptions C10_unit_gets_its_filter_whatever_the_interleaving.

(* and every unit gets there: no move lengthens what is left, and unless everybody has finished or something else
   holds the mutex some unit can move and strictly shortens it (no deadlock; any fair schedule finishes) *)
Theorem C10_fetch_no_deadlock :
  forall (F : Type) (look : N -> option F) (s : fetchst F),
    (forall x, (fmeasure (fstep false look s x) <= fmeasure s)%nat) /\
    (fs_ext s = false -> ~ all_done s -> exists i, (fmeasure (fstep false look s (SUnit i)) < fmeasure s)%nat) /\
    (fmeasure s = 0%nat -> all_done s).
Proof. exact (fun F look s => conj (fstep_le look s) (conj (fetch_progress look s) (measure_done s))). Qed.
Print Assumptions C10_fetch_no_deadlock.

(* with try_lock().ok()? a unit that looks while another one - or anything else - holds the mutex runs without a
   filter although its script has one; alone it is indistinguishable from lock() *)
Theorem C10_try_lock_fetch_refuted :
  let look : N -> option N := fun n => Some (n + 100) in
  fs_units (frun true look (finit [1; 2]) [SUnit 0; SUnit 1; SUnit 0; SUnit 1]) = [UDone 1 (Some 101); UDone 2 None] /\
  fs_units (frun true look (finit [3]) [SExtTake; SUnit 0; SExtRelease; SUnit 0]) = [UDone 3 None] /\
  fs_units (frun false look (finit [3]) [SExtTake; SUnit 0; SExtRelease; SUnit 0; SUnit 0]) = [UDone 3 (Some 103)] /\
  (forall n, fs_units (frun true look (finit [n]) [SUnit 0; SUnit 0]) = [UDone n (look n)]).
Proof.
  exact (conj (proj1 try_lock_refuted) (conj (proj1 try_lock_refuted_ext) (conj (proj2 try_lock_refuted_ext)
         (try_lock_alone (fun n => Some (n + 100)))))).
Qed.
Print Assumptions C10_try_lock_fetch_refuted.

(* non-vacuity: started with a script that rejects prefix 7; the operator edits it to reject prefix 8 and adds a
   second RIB unit; after the reload the new unit filters with the new script, the first one with the old one *)
Example C10_script_example :
  let st := E2eModel.e_run false (E2eModel.e_init (E2eModel.SRejectPfx 7))
              [E2eModel.EScript (E2eModel.SRejectPfx 8); E2eModel.EUnit 1; E2eModel.EReload] in
  E2eModel.ru_filter (E2eModel.es_rib st) = E2eModel.SRejectPfx 7 /\
  option_map E2eModel.ru_filter (E2eModel.es_rib2 st) = Some (E2eModel.SRejectPfx 8) /\
  option_map E2eModel.ru_born (E2eModel.es_rib2 st) = Some 1%nat /\
  E2eModel.es_scripts st = [E2eModel.SRejectPfx 7; E2eModel.SRejectPfx 8].
Proof. exact E2eProofs.e2e_example. Qed.

(* non-vacuity: the packaged example's rib-in-pre filter on two routes, one
   accepted (has OTC) and logged, one rejected, in front of the RIB model *)
Example C10_example :
  let pfx := 3106999808 * 64 + 24 in   (* 185.49.141.0/24 *)
  let p := PLet 0 35 (PLet 4 pfx
             (PIf (CPred (PPrefixIs (AVar 1))) (POut (OPrefix (AVar 1)) PEnd) PEnd
             (PIf (CPred (PHasAttr (AVar 0))) (PRet true) (PRet false) PEnd))) in
  let a := MkAttrs (Some [(false, [65001; 65002])]) [7] [] [35] in
  let i1 := MkIn K_RM pfx (Some a) 1 0 None 65000 7 false in
  let i2 := MkIn K_RM 99 (Some (MkAttrs (Some [(false, [65001])]) [] [] [])) 1 0 None 65000 7 false in
  let ps := [MkFPay (MkPay (0, pfx, 7) true 1) i1; MkFPay (MkPay (0, 99, 7) true 2) i2] in
  returns p = true /\
  eval FRib p i1 = (true, [EPrefix pfx]) /\ eval FRib p i2 = (false, []) /\
  rib_lookup (fst (rib_unit true render_rib (Some p) rib_empty ps)) (0, pfx, 7) = Some (true, 1) /\
  rib_lookup (fst (rib_unit true render_rib (Some p) rib_empty ps)) (0, 99, 7) = None /\
  outs_of (snd (rib_unit true render_rib (Some p) rib_empty ps)) = [OsmTopic 0 (Some pfx) 7] /\
  length (upds_of (snd (rib_unit true render_rib (Some p) rib_empty ps))) = 1%nat.
Proof. vm_compute. repeat split; reflexivity. Qed.
