(* C09 - Concurrent sessions never lose, corrupt or stall each other's RIB updates.
   Statements only; every proof is [exact <lemma>].

   [run ser (init progs) s]: T = length progs writer threads, thread t executing
   the Updates progs[t] (Bulk / Single / Withdraw / WithdrawBulk) on one RIB;
   s is ANY schedule: a list of thread numbers, one entry = one atomic store
   call or one shared-memory access of the store's bitmap loop by that thread.
   [ser = true] is the tree with the repair (withdraw_for_ingress serialised by
   a mutex of the Rib), [ser = false] the code as it was.
   An Update::Withdraw(id, Some family) for a family withdraw_for_ingress has no
   arm for (anything but IPv4/IPv6 unicast/multicast, [unsupported]) takes the
   mutex and panics: that call's outcome is the panic ([c_panics]), the mutex is
   poisoned ([c_poison]) and - as the code recovers a poisoned mutex - taken by
   every later call all the same. [effective p] is p with those requests
   replaced by no-ops: what p does to the RIB. *)
From stdpp Require Import gmap.
From Coq Require Import NArith.
From RV Require Import Rib.RibModel Rib.RibProofs Rib.RibConc Rib.RibConcProofs.

(* After ANY interleaving in which every writer has finished, each
   (family, prefix, id) holds exactly what the owner of the id, run alone on an
   empty RIB, would have left there: the last value that peer wrote. Holds with
   and without the mutex (correctness never depended on it). *)
Theorem C09_last_write_wins : forall (ser : bool) progs s t p k,
  disjoint_ids progs -> progs !! t = Some p -> In (k_mui k) (prog_muis p) ->
  all_done (run ser (init progs) s) = true ->
  rib_lookup (c_rib (run ser (init progs) s)) k = rib_lookup (rib_run (effective p)) k.
Proof. exact last_write_wins. Qed.
Print Assumptions C09_last_write_wins.

(* ... which is the last announce / withdraw / session loss of that id for that
   prefix (the property's own reading), outside the recorded sequential class C03-1 *)
Theorem C09_last_write_is_last_event : forall (ser : bool) progs s t p k,
  disjoint_ids progs -> progs !! t = Some p -> In (k_mui k) (prog_muis p) ->
  all_done (run ser (init progs) s) = true ->
  known_c03 (evs_of (effective p)) k = false ->
  rib_lookup (c_rib (run ser (init progs) s)) k = spec_lookup (evs_of (effective p)) k.
Proof. exact last_write_is_last_event. Qed.
Print Assumptions C09_last_write_is_last_event.

(* The whole final RIB, key by key, is the one the writers would have produced
   one after the other: no interleaving loses or corrupts anything - and a
   request that panicked (one session's fault) has left nothing behind and has
   taken nothing from the others. *)
Theorem C09_interleaving_equals_sequential : forall (ser : bool) progs s k,
  disjoint_ids progs -> all_done (run ser (init progs) s) = true ->
  rib_lookup (c_rib (run ser (init progs) s)) k = rib_lookup (rib_run (effective (concat progs))) k.
Proof. exact final_lookup_sequential. Qed.
Print Assumptions C09_interleaving_equals_sequential.

(* a program none of whose requests is unsupported is its own effect (the
   three statements above then read as they did before such requests were modelled) *)
Theorem C09_effective_without_unsupported : forall p,
  (forall m fo, In (UWithdraw m fo) p -> unsupported fo = None) -> effective p = p.
Proof. exact effective_id. Qed.
Print Assumptions C09_effective_without_unsupported.

Theorem C09_unowned_absent : forall (ser : bool) progs s k,
  (forall t p, progs !! t = Some p -> ~ In (k_mui k) (prog_muis p)) ->
  rib_lookup (c_rib (run ser (init progs) s)) k = None.
Proof. exact unowned_absent. Qed.
Print Assumptions C09_unowned_absent.

(* Concurrent readers: at ANY moment of ANY interleaving a key shows the state
   after some prefix of its owner's own store-level actions (all of them once
   the owner is done) - never a value nobody wrote. *)
Theorem C09_reader_sees_owner_prefix : forall (ser : bool) progs s t p k,
  disjoint_ids progs -> progs !! t = Some p -> In (k_mui k) (prog_muis p) ->
  exists pre rest, pre ++ rest = micro_evs p /\
    (done_at (run ser (init progs) s) t = true -> rest = []) /\
    rib_lookup (c_rib (run ser (init progs) s)) k = rib_lookup (fold_left rib_ev pre rib_empty) k.
Proof. exact reader_sees_owner_prefix. Qed.
Print Assumptions C09_reader_sees_owner_prefix.

(* Every session-wide withdrawal (Withdraw of all families or of one of the
   four, WithdrawBulk) of a writer that has finished has taken effect, whatever
   the others are doing meanwhile - and whatever panicked before: no hypothesis
   about the other requests, the mutex may be poisoned. *)
Theorem C09_withdraw_all_effective : forall (ser : bool) progs s t p m fo k,
  progs !! t = Some p -> withdraws p m fo ->
  done_at (run ser (init progs) s) t = true ->
  down_hits m fo k = true ->
  match rib_lookup (c_rib (run ser (init progs) s)) k with Some (st, _) => st = false | None => True end.
Proof. exact withdraw_all_effective. Qed.
Print Assumptions C09_withdraw_all_effective.

(* Bounded completion on the repaired code (programs with unsupported requests
   included: the panic ends the call, a poisoned mutex is taken like a healthy
   one - [step] never reads [c_poison]): under any schedule made of blocks
   in each of which every writer gets at least one turn, work(init) blocks
   suffice for every writer to finish all its Updates (work = 1 per route,
   2 + 2 x bitmaps per session-wide withdrawal). *)
Theorem C09_terminates : forall progs blocks,
  Forall (covers (length progs)) blocks -> work (init progs) <= length blocks ->
  all_done (run true (init progs) (concat blocks)) = true.
Proof. exact fair_terminates. Qed.
Print Assumptions C09_terminates.

Theorem C09_work_bound : forall progs,
  work (init progs) = nsum (map (fun p => nsum (map upd_cost p)) progs).
Proof. exact work_init. Qed.
Print Assumptions C09_work_bound.

(* ... and no deadlock: in every reachable state with unfinished work some
   writer can take a step, and that step brings the end one step closer. *)
Theorem C09_no_deadlock : forall progs s,
  all_done (run true (init progs) s) = false ->
  exists t, t < length progs /\ enabled (run true (init progs) s) t = true /\
            work (step true (run true (init progs) s) t) + 1 = work (run true (init progs) s).
Proof. exact no_deadlock. Qed.
Print Assumptions C09_no_deadlock.

(* Under the mutex the store's retry branch is dead code. *)
Theorem C09_serialised_cas_never_fails : forall progs s, c_fail (run true (init progs) s) = 0%N.
Proof. exact serialised_cas_never_fails. Qed.
Print Assumptions C09_serialised_cas_never_fails.

(* REFUTATION for the code as it was (no mutex): two sessions are lost at the
   same moment (Update::Withdraw for ids 1 and 2). After six shared-memory
   accesses the second writer never finishes, under EVERY continuation of the
   schedule - the store's loop retries against a `current` it never refreshes. *)
Theorem C09_cas_livelock_refuted : forall s,
  done_at (run false (init livelock_progs) (livelock_prefix ++ s)) 1 = false /\
  all_done (run false (init livelock_progs) (livelock_prefix ++ s)) = false.
Proof. exact cas_livelock. Qed.
Print Assumptions C09_cas_livelock_refuted.

(* ... and in general, for ANY writers and ANY schedule of the code as it was:
   one failed compare-and-swap is fatal - from then on some writer never
   finishes, whatever happens next. (The six-step prefix above has c_fail = 1.) *)
Theorem C09_cas_failure_is_fatal : forall progs s s',
  c_fail (run false (init progs) s) <> 0%N ->
  all_done (run false (init progs) (s ++ s')) = false.
Proof. exact cas_failure_is_fatal. Qed.
Print Assumptions C09_cas_failure_is_fatal.

(* ---- requests for a family the RIB cannot withdraw: panic!("no support ..") ---- *)

(* The calls of writer t that ended in a panic are, in program order, exactly
   its requests for an unsupported family: at any moment of any interleaving a
   prefix of them, all of them once t is done. No other call of t panics
   (in particular none because an earlier panic poisoned the mutex). *)
Theorem C09_panics_are_the_unsupported_requests : forall (ser : bool) progs s t p,
  progs !! t = Some p ->
  exists rest, pans_of t (c_panics (run ser (init progs) s)) ++ rest = flat_map upd_pans p /\
    (done_at (run ser (init progs) s) t = true -> rest = []).
Proof. exact panics_exact. Qed.
Print Assumptions C09_panics_are_the_unsupported_requests.

(* ... and every panic in the log, whoever raised it, is such a request of its own thread *)
Theorem C09_only_unsupported_requests_panic : forall (ser : bool) progs s t x,
  In (t, x) (c_panics (run ser (init progs) s)) ->
  exists p m f, progs !! t = Some p /\ x = PUnsup m f /\ In (UWithdraw m (Some f)) p /\ fam_supported f = false.
Proof. exact only_unsupported_requests_panic. Qed.
Print Assumptions C09_only_unsupported_requests_panic.

(* The mutex really is poisoned from the first such panic on (std::sync::Mutex
   never clears the flag). C09_terminates / C09_no_deadlock / C09_withdraw_all_effective /
   C09_interleaving_equals_sequential hold for these runs: every later call
   completes and takes effect. *)
Theorem C09_poisoned_iff_panicked : forall progs s,
  c_poison (run true (init progs) s) = true <-> c_panics (run true (init progs) s) <> [].
Proof. exact poisoned_iff_panicked. Qed.
Print Assumptions C09_poisoned_iff_panicked.

(* REFUTATION for the usual idiom `.lock().unwrap()` in place of the recovery
   (NOT the code; [step_strict]): session 1 asks for FlowSpec (family 9) and
   panics under the guard; the session-wide withdrawals of sessions 2 and 3 that
   follow panic on the PoisonError before they have marked anything; all writers
   finish and the routes of 2 and 3 are still active, whatever comes next. *)
Theorem C09_unwrap_on_poison_refuted : forall s,
  let c := run_strict (init poison_progs) (poison_sched ++ s) in
  all_done c = true /\
  c_panics c = [(0, PUnsup 1%N 9%N); (1, PPoison 2%N); (2, PPoison 3%N)] /\
  rib_lookup (c_rib c) (ex_key 0 7 2) = Some (true, 3%N) /\
  rib_lookup (c_rib c) (ex_key 1 7 3) = Some (true, 4%N) /\
  rib_lookup (c_rib c) (ex_key 2 8 3) = Some (true, 4%N).
Proof. exact unwrap_on_poison_loses_withdrawals. Qed.
Print Assumptions C09_unwrap_on_poison_refuted.

(* non-vacuity: three writers sharing prefix 7 (and 8), Bulk with a withdrawal,
   session-wide withdrawals with and without family, an adversarial schedule;
   the hypotheses hold, the run finishes, and the final answers for prefix 7 are
   each owner's last write *)
Example C09_example :
  let c := run true (init example_progs) example_sched in
  disjoint_idsb example_progs = true /\ work (init example_progs) = 32 /\ all_done c = true /\
  rib_entries (c_rib c) 0 7 = [(3, false, 4); (1, true, 6); (2, false, 3)]%N /\
  rib_lookup (c_rib c) (ex_key 0 8 1) = Some (false, 5%N) /\
  rib_lookup (c_rib c) (ex_key 1 7 2) = Some (true, 3%N) /\
  rib_lookup (c_rib c) (ex_key 2 7 4) = Some (false, 9%N) /\
  all_done (run true (init example_progs) (firstn 20 example_sched)) = false /\
  c_fail (run false (init livelock_progs) livelock_prefix) = 1%N.
Proof. vm_compute. repeat split; reflexivity. Qed.

(* the same for a run with an unsupported request: the code as it is finishes
   with the mutex poisoned, one panic (the FlowSpec request's), session 1's route
   untouched, sessions 2 and 3 withdrawn *)
Example C09_example_poisoned :
  let c := run true (init poison_progs) poison_sched in
  disjoint_idsb poison_progs = true /\ work (init poison_progs) = 26 /\
  all_done c = true /\ c_poison c = true /\ c_panics c = [(0, PUnsup 1%N 9%N)] /\
  rib_lookup (c_rib c) (ex_key 0 7 1) = Some (true, 5%N) /\
  rib_lookup (c_rib c) (ex_key 0 7 2) = Some (false, 3%N) /\
  rib_lookup (c_rib c) (ex_key 1 7 3) = Some (false, 4%N) /\
  rib_lookup (c_rib c) (ex_key 2 8 3) = Some (false, 4%N).
Proof. vm_compute. repeat split; reflexivity. Qed.
