(* Proofs about the model of the MRT queue endpoint (PathConfModel.v). *)
From Coq Require Import NArith List Bool Lia.
From RV Require Import PathConf.PathConfModel.
Import ListNotations.
Local Open Scope N_scope.

(* ---------------------------------------------------------------- equality tests *)
Lemma pc_bytes_eqb_eq : forall a b, pc_bytes_eqb a b = true <-> a = b.
Proof.
  induction a as [|x a IH]; destruct b as [|y b]; cbn; split; intro H; try reflexivity; try discriminate.
  - apply andb_true_iff in H as [Hxy Hab]. apply N.eqb_eq in Hxy. apply IH in Hab. now subst.
  - injection H as -> ->. apply andb_true_iff; split; [apply N.eqb_refl | now apply IH].
Qed.

Lemma pc_path_eqb_eq : forall a b, pc_path_eqb a b = true <-> a = b.
Proof.
  induction a as [|x a IH]; destruct b as [|y b]; cbn; split; intro H; try reflexivity; try discriminate.
  - apply andb_true_iff in H as [Hxy Hab]. apply pc_bytes_eqb_eq in Hxy. apply IH in Hab. now subst.
  - injection H as -> ->. apply andb_true_iff; split; [now apply pc_bytes_eqb_eq | now apply IH].
Qed.

(* ---------------------------------------------------------------- ancestors = component prefixes *)
Lemma pc_anc_rev_spec : forall r d, In d (pc_anc_rev r) <-> exists k, rev r = d ++ k.
Proof.
  induction r as [|x r IH]; intro d; cbn [pc_anc_rev rev].
  - split.
    + intros [H | []]. exists []. now rewrite <- H.
    + intros [k Hk]. left. symmetry in Hk. apply app_eq_nil in Hk as [Hd _]. now subst.
  - split.
    + intros [H | H].
      * exists []. now rewrite app_nil_r.
      * apply IH in H as [k Hk]. exists (k ++ [x]). now rewrite Hk, app_assoc.
    + intros [k Hk]. destruct (rev k) as [|y k'] eqn:Ek.
      * left. apply (f_equal (@rev _)) in Ek. rewrite rev_involutive in Ek. cbn in Ek. subst k.
        now rewrite app_nil_r in Hk.
      * right. apply IH. apply (f_equal (@rev _)) in Ek. rewrite rev_involutive in Ek. cbn in Ek. subst k.
        rewrite app_assoc in Hk. apply app_inj_tail in Hk as [Hk _]. now exists (rev k').
Qed.

Lemma pc_ancestors_prefix : forall d p, In d (pc_ancestors p) <-> exists k, p = d ++ k.
Proof.
  intros d p. unfold pc_ancestors. rewrite pc_anc_rev_spec, rev_involutive. reflexivity.
Qed.

Lemma pc_anc_check : forall dir full,
  existsb (fun a => pc_path_eqb a dir) (pc_ancestors full) = true <-> exists k, full = dir ++ k.
Proof.
  intros dir full. rewrite existsb_exists. split.
  - intros [a [Hin Heq]]. apply pc_path_eqb_eq in Heq. subst a. now apply pc_ancestors_prefix.
  - intros H. exists dir. split; [now apply pc_ancestors_prefix | now apply pc_path_eqb_eq].
Qed.

(* ---------------------------------------------------------------- descending the tree *)
Lemma pc_descend_app : forall p q n,
  pc_descend n (p ++ q) = match pc_descend n p with Some m => pc_descend m q | None => None end.
Proof.
  induction p as [|c p IH]; intros q n; cbn; [reflexivity|].
  destruct n as [es| |t]; try reflexivity.
  destruct (pc_assoc c es) as [n'|]; [apply IH | reflexivity].
Qed.

Lemma pc_dir_at_physical : forall root p, pc_dir_at root p -> pc_physical root p.
Proof. intros root p [es H]. exists (PDir es). now split. Qed.

Lemma pc_descend_one_dir : forall m c n, pc_descend m [c] = Some n -> exists es, m = PDir es.
Proof. intros m c n H. destruct m as [es| |t]; cbn in H; try discriminate. now exists es. Qed.

Lemma pc_dir_at_removelast : forall root cur, pc_dir_at root cur -> pc_dir_at root (removelast cur).
Proof.
  intros root cur [es H]. destruct cur as [|c cur']; [now exists es|].
  remember (c :: cur') as cur eqn:E.
  assert (Hne : cur <> []) by (rewrite E; intro X; discriminate X).
  rewrite (app_removelast_last [] Hne) in H. rewrite pc_descend_app in H.
  match type of H with match ?x with _ => _ end = _ => destruct x as [m|] eqn:Em end; [|discriminate H].
  apply pc_descend_one_dir in H as [es' ->]. now exists es'.
Qed.

(* ---------------------------------------------------------------- realpath: unfolding *)
Lemma pc_walk_nil : forall root b cur, pc_walk root b [] cur = inr cur.
Proof. intros root b cur. destruct b; reflexivity. Qed.

Lemma pc_walk_cons : forall root b c rest cur,
  pc_walk root b (c :: rest) cur =
    if pc_is_dot c then pc_walk root b rest cur
    else if pc_is_dotdot c then pc_walk root b rest (removelast cur)
    else match pc_descend root (cur ++ [c]) with
         | None => inl ENOENT
         | Some (PDir _) => pc_walk root b rest (cur ++ [c])
         | Some PFile => match rest with [] => inr (cur ++ [c]) | _ => inl ENOTDIR end
         | Some (PLink t) =>
           match b with
           | O => inl ELOOP
           | S b' => pc_walk root b' (pc_comps t ++ rest) (if pc_is_abs t then [] else cur)
           end
         end.
Proof. intros root b c rest cur. destruct b; reflexivity. Qed.

(* ---------------------------------------------------------------- realpath returns physical paths *)
Lemma pc_walk_physical : forall root, pc_dir_at root [] ->
  forall b todo cur p, pc_dir_at root cur -> pc_walk root b todo cur = inr p -> pc_physical root p.
Proof.
  intros root Hroot. induction b as [|b IHb].
  - induction todo as [|c rest IHt]; intros cur p Hcur H.
    + rewrite pc_walk_nil in H. injection H as <-. now apply pc_dir_at_physical.
    + rewrite pc_walk_cons in H.
      destruct (pc_is_dot c); [now apply (IHt cur)|].
      destruct (pc_is_dotdot c); [apply (IHt (removelast cur)); [now apply pc_dir_at_removelast | exact H]|].
      destruct (pc_descend root (cur ++ [c])) as [[es| |t]|] eqn:Ed; try discriminate H.
      * apply (IHt (cur ++ [c])); [now exists es | exact H].
      * destruct rest; [|discriminate H]. injection H as <-. exists PFile. now split.
  - induction todo as [|c rest IHt]; intros cur p Hcur H.
    + rewrite pc_walk_nil in H. injection H as <-. now apply pc_dir_at_physical.
    + rewrite pc_walk_cons in H.
      destruct (pc_is_dot c); [now apply (IHt cur)|].
      destruct (pc_is_dotdot c); [apply (IHt (removelast cur)); [now apply pc_dir_at_removelast | exact H]|].
      destruct (pc_descend root (cur ++ [c])) as [[es| |t]|] eqn:Ed; try discriminate H.
      * apply (IHt (cur ++ [c])); [now exists es | exact H].
      * destruct rest; [|discriminate H]. injection H as <-. exists PFile. now split.
      * apply (IHb (pc_comps t ++ rest) (if pc_is_abs t then [] else cur)); [|exact H].
        destruct (pc_is_abs t); assumption.
Qed.

Lemma pc_canon_physical : forall root cwd s p,
  pc_dir_at root [] -> pc_dir_at root cwd -> pc_canon root cwd s = inr p -> pc_physical root p.
Proof.
  intros root cwd s p Hroot Hcwd H. unfold pc_canon in H.
  destruct (existsb (N.eqb 0) s); [discriminate H|]. destruct s as [|c s']; [discriminate H|].
  eapply pc_walk_physical; [exact Hroot | | exact H]. destruct (pc_is_abs (c :: s')); assumption.
Qed.

(* ---------------------------------------------------------------- the decision of Processor::queue *)
Lemma pc_decide_accept_iff : forall root cwd upd prm full,
  pc_decide root cwd upd prm = PAccept full <->
  exists d f dir k,
    upd = Some d /\ prm = PExact f /\ pc_is_abs f = false /\
    pc_canon root cwd d = inr dir /\
    pc_canon root cwd (pc_push (pc_render dir) f) = inr full /\
    full = dir ++ k.
Proof.
  intros root cwd upd prm full. unfold pc_decide. split.
  - destruct upd as [d|]; [|discriminate].
    destruct (pc_canon root cwd d) as [e|dir] eqn:Ed; [discriminate|].
    destruct prm as [| |f]; try discriminate.
    destruct (pc_is_abs f) eqn:Ea; [discriminate|].
    destruct (pc_canon root cwd (pc_push (pc_render dir) f)) as [e|full'] eqn:Ef; [discriminate|].
    destruct (existsb _ _) eqn:Ex; [|discriminate].
    intro H. injection H as <-. apply pc_anc_check in Ex as [k Hk].
    exists d, f, dir, k. repeat split; assumption.
  - intros (d & f & dir & k & -> & -> & Ha & Hd & Hf & Hk).
    rewrite Hd, Ha, Hf.
    assert (Ex : existsb (fun a => pc_path_eqb a dir) (pc_ancestors full) = true) by (apply pc_anc_check; now exists k).
    now rewrite Ex.
Qed.

Lemma pc_decide_confined : forall root cwd d prm full,
  pc_decide root cwd (Some d) prm = PAccept full ->
  exists dir f k, prm = PExact f /\ pc_canon root cwd d = inr dir /\
    pc_canon root cwd (pc_push (pc_render dir) f) = inr full /\ full = dir ++ k.
Proof.
  intros root cwd d prm full H. apply pc_decide_accept_iff in H as (d' & f & dir & k & Hu & Hp & _ & Hd & Hf & Hk).
  injection Hu as <-. exists dir, f, k. repeat split; assumption.
Qed.

(* semantic confinement: the enqueued location is a node of the tree below the
   node of the resolved update directory, reached from it through real
   directory entries only; neither is a symbolic link *)
Lemma pc_decide_confined_physical : forall root cwd d prm full,
  pc_dir_at root [] -> pc_dir_at root cwd ->
  pc_decide root cwd (Some d) prm = PAccept full ->
  exists dir k nd n,
    pc_canon root cwd d = inr dir /\ full = dir ++ k /\
    pc_descend root dir = Some nd /\ pc_is_link nd = false /\
    pc_descend nd k = Some n /\ pc_is_link n = false.
Proof.
  intros root cwd d prm full Hroot Hcwd H.
  apply pc_decide_confined in H as (dir & f & k & _ & Hd & Hf & Hk).
  apply pc_canon_physical in Hd as Hpd; try assumption. destruct Hpd as (nd & Hnd & Hlnd).
  apply pc_canon_physical in Hf as Hpf; try assumption. destruct Hpf as (n & Hn & Hln).
  exists dir, k, nd, n. subst full. rewrite pc_descend_app, Hnd in Hn. repeat split; assumption.
Qed.

Lemma pc_decide_reject_cases : forall root cwd upd prm,
  (upd = None \/
   (exists d e, upd = Some d /\ pc_canon root cwd d = inl e) \/
   prm = PNone \/ prm = PFamily \/
   (exists f, prm = PExact f /\ pc_is_abs f = true) \/
   (exists d dir f e, upd = Some d /\ pc_canon root cwd d = inr dir /\ prm = PExact f /\
                      pc_canon root cwd (pc_push (pc_render dir) f) = inl e) \/
   (exists d dir f full, upd = Some d /\ pc_canon root cwd d = inr dir /\ prm = PExact f /\
                      pc_canon root cwd (pc_push (pc_render dir) f) = inr full /\
                      ~ (exists k, full = dir ++ k))) ->
  exists why, pc_decide root cwd upd prm = PReject why.
Proof.
  intros root cwd upd prm H.
  destruct (pc_decide root cwd upd prm) as [why|full] eqn:E; [now exists why|].
  exfalso. apply pc_decide_accept_iff in E as (d & f & dir & k & Hu & Hp & Ha & Hd & Hf & Hk).
  destruct H as [H | [H | [H | [H | [H | [H | H]]]]]].
  - congruence.
  - destruct H as (d' & e & Hu' & He). congruence.
  - congruence.
  - congruence.
  - destruct H as (f' & Hp' & Ha'). congruence.
  - destruct H as (d' & dir' & f' & e & Hu' & Hd' & Hp' & He).
    assert (d' = d) by congruence. subst d'. assert (dir' = dir) by congruence. subst dir'.
    assert (f' = f) by congruence. subst f'. congruence.
  - destruct H as (d' & dir' & f' & full' & Hu' & Hd' & Hp' & Hf' & Hn).
    assert (d' = d) by congruence. subst d'. assert (dir' = dir) by congruence. subst dir'.
    assert (f' = f) by congruence. subst f'. assert (full' = full) by congruence. subst full'.
    apply Hn. now exists k.
Qed.

(* the HTTP level: whatever is rejected is a 400 with nothing enqueued, and the
   only thing ever enqueued is the accepted resolved path, once *)
Lemma pc_handle_reject : forall root cwd api upd rq st enq why,
  pc_handle root cwd api upd rq = Some (st, enq) ->
  pc_decide root cwd upd (pc_get_file (rq_query rq)) = PReject why ->
  st = 400 /\ enq = [].
Proof.
  intros root cwd api upd rq st enq why H Hd. unfold pc_handle in H.
  destruct (negb (rq_get rq)); [discriminate H|].
  destruct (pc_strip_prefix api (pc_pct (rq_path rq))) as [action|]; [|discriminate H].
  destruct (pc_strip_prefix pc_queue_kw action); [|discriminate H].
  unfold pc_queue in H. rewrite Hd in H. injection H as <- <-. now split.
Qed.

Lemma pc_handle_enqueued : forall root cwd api upd rq st enq p,
  pc_handle root cwd api upd rq = Some (st, enq) -> In p enq ->
  enq = [p] /\ pc_decide root cwd upd (pc_get_file (rq_query rq)) = PAccept p.
Proof.
  intros root cwd api upd rq st enq p H Hin. unfold pc_handle in H.
  destruct (negb (rq_get rq)); [discriminate H|].
  destruct (pc_strip_prefix api (pc_pct (rq_path rq))) as [action|]; [|discriminate H].
  destruct (pc_strip_prefix pc_queue_kw action); [|discriminate H].
  unfold pc_queue in H.
  destruct (pc_decide root cwd upd (pc_get_file (rq_query rq))) as [why|full]; injection H as <- <-.
  - destruct Hin.
  - destruct Hin as [<- | []]. now split.
Qed.

Lemma pc_handle_no_dir : forall root cwd api rq st enq,
  pc_handle root cwd api None rq = Some (st, enq) -> st = 400 /\ enq = [].
Proof.
  intros root cwd api rq st enq H. eapply pc_handle_reject; [exact H | reflexivity].
Qed.

(* ---------------------------------------------------------------- canonical paths are fixed points of realpath *)

Lemma pc_descend_nondir : forall n c q, pc_is_dir n = false -> pc_descend n (c :: q) = None.
Proof. intros n c q H. destruct n; [discriminate H | reflexivity | reflexivity]. Qed.

Lemma pc_walk_fixed : forall root b q cur n,
  Forall pc_plain q -> pc_descend root (cur ++ q) = Some n -> pc_is_link n = false ->
  pc_walk root b q cur = inr (cur ++ q).
Proof.
  intros root b. induction q as [|c q IH]; intros cur n Hq Hd Hl.
  - now rewrite pc_walk_nil, app_nil_r.
  - rewrite pc_walk_cons. inversion Hq as [|c' q' [Hdot Hdd] Hq']. subst c' q'. rewrite Hdot, Hdd.
    replace (cur ++ c :: q) with ((cur ++ [c]) ++ q) in * by (now rewrite <- app_assoc).
    rewrite pc_descend_app in Hd.
    destruct (pc_descend root (cur ++ [c])) as [m|] eqn:Em; [|discriminate Hd].
    destruct m as [es| |t].
    + apply (IH (cur ++ [c]) n); [exact Hq' | rewrite pc_descend_app, Em; exact Hd | exact Hl].
    + destruct q as [|c2 q]; [now rewrite app_nil_r | discriminate Hd].
    + destruct q as [|c2 q]; [|discriminate Hd]. cbn in Hd. injection Hd as <-. discriminate Hl.
Qed.

(* ---------------------------------------------------------------- splitting *)
Lemma pc_split_pieces : forall sep s, Forall (fun c => ~ In sep c) (pc_split sep s).
Proof.
  intros sep. induction s as [|x s IH]; cbn.
  - constructor; [intros [] | constructor].
  - destruct (x =? sep) eqn:Ex.
    + constructor; [intros [] | exact IH].
    + destruct (pc_split sep s) as [|h t]; constructor.
      * intros [H | []]. subst. now rewrite N.eqb_refl in Ex.
      * constructor.
      * inversion IH as [|? ? Hh Ht]. subst. intros [H | H]; [subst; now rewrite N.eqb_refl in Ex | now apply Hh].
      * now inversion IH.
Qed.

Lemma pc_comps_ok : forall s, Forall pc_piece_ok (pc_comps s).
Proof.
  intro s. unfold pc_comps. apply Forall_app. split.
  - apply Forall_forall. intros c Hc. apply filter_In in Hc as [Hin Hne]. split.
    + intro E. subst c. discriminate Hne.
    + pose proof (pc_split_pieces c_slash s) as H. rewrite Forall_forall in H. now apply H.
  - destruct (pc_ends_slash s); constructor; [|constructor]. split; [discriminate|].
    intros [H | []]. discriminate H.
Qed.

Lemma pc_split_app : forall sep c r, ~ In sep c -> pc_split sep (c ++ sep :: r) = c :: pc_split sep r.
Proof.
  intros sep. induction c as [|x c IH]; intros r Hc; cbn.
  - now rewrite N.eqb_refl.
  - destruct (x =? sep) eqn:Ex.
    + apply N.eqb_eq in Ex. subst. exfalso. apply Hc. now left.
    + rewrite IH; [reflexivity | intro H; apply Hc; now right].
Qed.

Lemma pc_split_head : forall sep r, pc_split sep (sep :: r) = [] :: pc_split sep r.
Proof. intros sep r. cbn. now rewrite N.eqb_refl. Qed.

Lemma pc_split_none : forall sep c, ~ In sep c -> pc_split sep c = [c].
Proof.
  intros sep. induction c as [|x c IH]; intros Hc; cbn; [reflexivity|].
  destruct (x =? sep) eqn:Ex.
  - apply N.eqb_eq in Ex. subst. exfalso. apply Hc. now left.
  - rewrite IH; [reflexivity | intro H; apply Hc; now right].
Qed.

Lemma pc_split_flat : forall p c, ~ In c_slash c -> Forall (fun d => ~ In c_slash d) p ->
  pc_split c_slash (c ++ flat_map (fun d => c_slash :: d) p) = c :: p.
Proof.
  induction p as [|d p IH]; intros c Hc Hp; cbn [flat_map].
  - rewrite app_nil_r. now apply pc_split_none.
  - inversion Hp as [|? ? Hd Hp']. subst. cbn [app]. rewrite pc_split_app by exact Hc. now rewrite IH.
Qed.

Lemma pc_filter_all : forall (p : list (list N)), Forall (fun c => c <> []) p -> filter pc_nonempty p = p.
Proof.
  induction p as [|c p IH]; intro H; cbn; [reflexivity|]. inversion H as [|? ? Hc Hp]. subst.
  destruct c; [now contradiction Hc|]. cbn. now rewrite IH.
Qed.

Lemma pc_render_ends : forall p, p <> [] -> Forall pc_piece_ok p -> pc_ends_slash (pc_render p) = false.
Proof.
  intros p Hne Hp. destruct (exists_last Hne) as (p0 & c & ->).
  apply Forall_app in Hp as [_ Hc]. inversion Hc as [|? ? [Hcne Hcs] _]. subst.
  unfold pc_render. destruct (p0 ++ [c]) eqn:E; [now destruct p0|]. rewrite <- E. clear E.
  rewrite flat_map_app. cbn [flat_map]. rewrite app_nil_r. unfold pc_ends_slash.
  destruct (exists_last Hcne) as (c0 & y & ->).
  rewrite rev_app_distr. cbn [rev]. rewrite rev_app_distr. cbn.
  destruct (y =? c_slash) eqn:Ey; [|reflexivity].
  apply N.eqb_eq in Ey. subst y. exfalso. apply Hcs. apply in_or_app. right. now left.
Qed.

Lemma pc_comps_render : forall p, p <> [] -> Forall pc_piece_ok p -> pc_comps (pc_render p) = p.
Proof.
  intros p Hne Hp. unfold pc_comps. rewrite pc_render_ends by assumption. rewrite app_nil_r.
  destruct p as [|c p]; [now contradiction Hne|]. unfold pc_render. cbn [flat_map].
  rewrite <- app_comm_cons. rewrite pc_split_head.
  inversion Hp as [|? ? [Hcne Hcs] Hp']. subst.
  rewrite pc_split_flat; [| exact Hcs | eapply Forall_impl; [|exact Hp']; intros a [_ Ha]; exact Ha].
  change (filter pc_nonempty ([] :: c :: p)) with (filter pc_nonempty (c :: p)). rewrite pc_filter_all; [reflexivity|].
  constructor; [exact Hcne | eapply Forall_impl; [|exact Hp']; intros a [Ha _]; exact Ha].
Qed.

(* ---------------------------------------------------------------- realpath results consist of proper names *)
Lemma pc_removelast_Forall : forall (P : pc_name -> Prop) l, Forall P l -> Forall P (removelast l).
Proof.
  intros P l H. destruct l as [|x l]; [constructor|].
  assert (Hne : x :: l <> []) by discriminate.
  rewrite (app_removelast_last [] Hne) in H. now apply Forall_app in H as [H _].
Qed.

Lemma pc_walk_names : forall root b todo cur p,
  Forall pc_piece_ok todo -> Forall pc_name_ok cur -> pc_walk root b todo cur = inr p -> Forall pc_name_ok p.
Proof.
  intros root. induction b as [|b IHb].
  - induction todo as [|c rest IHt]; intros cur p Ht Hc H.
    + rewrite pc_walk_nil in H. now injection H as <-.
    + rewrite pc_walk_cons in H. inversion Ht as [|? ? Hcok Hrest]. subst.
      destruct (pc_is_dot c) eqn:Edot; [now apply (IHt cur)|].
      destruct (pc_is_dotdot c) eqn:Edd; [apply (IHt (removelast cur)); [assumption | now apply pc_removelast_Forall | exact H]|].
      assert (Hpush : Forall pc_name_ok (cur ++ [c])).
      { apply Forall_app. split; [assumption|]. constructor; [|constructor]. split; [assumption | now split]. }
      destruct (pc_descend root (cur ++ [c])) as [[es| |t]|]; try discriminate H.
      * now apply (IHt (cur ++ [c])).
      * destruct rest; [|discriminate H]. now injection H as <-.
  - induction todo as [|c rest IHt]; intros cur p Ht Hc H.
    + rewrite pc_walk_nil in H. now injection H as <-.
    + rewrite pc_walk_cons in H. inversion Ht as [|? ? Hcok Hrest]. subst.
      destruct (pc_is_dot c) eqn:Edot; [now apply (IHt cur)|].
      destruct (pc_is_dotdot c) eqn:Edd; [apply (IHt (removelast cur)); [assumption | now apply pc_removelast_Forall | exact H]|].
      assert (Hpush : Forall pc_name_ok (cur ++ [c])).
      { apply Forall_app. split; [assumption|]. constructor; [|constructor]. split; [assumption | now split]. }
      destruct (pc_descend root (cur ++ [c])) as [[es| |t]|]; try discriminate H.
      * now apply (IHt (cur ++ [c])).
      * destruct rest; [|discriminate H]. now injection H as <-.
      * apply (IHb (pc_comps t ++ rest) (if pc_is_abs t then [] else cur)); [| |exact H].
        -- apply Forall_app. split; [apply pc_comps_ok | assumption].
        -- destruct (pc_is_abs t); [constructor | assumption].
Qed.

(* ---------------------------------------------------------------- NUL *)

Lemma pc_existsb_nul : forall s, ~ In 0 s -> existsb (N.eqb 0) s = false.
Proof.
  induction s as [|x s IH]; intro H; cbn [existsb]; [reflexivity|].
  destruct (0 =? x) eqn:E; [apply N.eqb_eq in E; subst; exfalso; apply H; now left|].
  cbn [orb]. apply IH. intro Hin. apply H. now right.
Qed.

Lemma pc_render_nonul : forall p, Forall (fun c => ~ In 0 c) p -> ~ In 0 (pc_render p).
Proof.
  intros p Hp. unfold pc_render. destruct p as [|c p]; [intros [H | []]; discriminate H|].
  remember (c :: p) as l eqn:E. clear E. induction Hp as [|d l Hd Hl IH]; cbn [flat_map]; [intros []|].
  intros [H | H]; [discriminate H|]. apply in_app_or in H as [H | H]; [now apply Hd | now apply IH].
Qed.

Lemma pc_render_abs : forall p, pc_is_abs (pc_render p) = true.
Proof. intros [|c p]; reflexivity. Qed.

(* the canonical text of a canonical path resolves to itself, without using any symlink budget *)
Lemma pc_canon_render : forall root cwd p,
  pc_nonul_names root -> pc_physical root p -> Forall pc_name_ok p ->
  pc_canon root cwd (pc_render p) = inr p.
Proof.
  intros root cwd p Hnul (n & Hn & Hl) Hok. unfold pc_canon.
  rewrite pc_existsb_nul by (apply pc_render_nonul; now apply (Hnul p n)).
  rewrite pc_render_abs.
  destruct p as [|c p]; [reflexivity|].
  remember (c :: p) as l eqn:E. assert (Hne : l <> []) by (rewrite E; intro X; discriminate X).
  destruct (pc_render l) eqn:Er; [subst l; discriminate Er|]. rewrite <- Er.
  rewrite pc_comps_render; [| exact Hne | eapply Forall_impl; [|exact Hok]; intros a [Ha _]; exact Ha].
  apply (pc_walk_fixed root pc_symlink_budget l [] n); [|exact Hn|exact Hl].
  eapply Forall_impl; [|exact Hok]. intros a [_ Ha]. exact Ha.
Qed.

Lemma pc_push_abs : forall base f, pc_is_abs base = true -> pc_is_abs f = false -> pc_is_abs (pc_push base f) = true.
Proof.
  intros base f Hb Hf. unfold pc_push. rewrite Hf. destruct base as [|x base]; [discriminate Hb|].
  destruct (pc_need_sep (x :: base)); exact Hb.
Qed.

Lemma pc_canon_abs_names : forall root cwd s p,
  pc_is_abs s = true -> pc_canon root cwd s = inr p -> Forall pc_name_ok p.
Proof.
  intros root cwd s p Ha H. unfold pc_canon in H.
  destruct (existsb (N.eqb 0) s); [discriminate H|]. destruct s as [|x s]; [discriminate H|].
  rewrite Ha in H. eapply pc_walk_names; [apply pc_comps_ok | constructor | exact H].
Qed.

Lemma pc_decide_enqueued_canonical : forall root cwd d prm full,
  pc_dir_at root [] -> pc_dir_at root cwd -> pc_nonul_names root ->
  pc_decide root cwd (Some d) prm = PAccept full ->
  pc_canon root cwd (pc_render full) = inr full.
Proof.
  intros root cwd d prm full Hroot Hcwd Hnul H.
  apply pc_decide_accept_iff in H as (d' & f & dir & k & _ & _ & Hf & _ & Hfull & _).
  apply pc_canon_render; [exact Hnul | now apply (pc_canon_physical root cwd _ full Hroot Hcwd Hfull) |].
  eapply pc_canon_abs_names; [|exact Hfull]. apply pc_push_abs; [apply pc_render_abs | exact Hf].
Qed.

(* ---------------------------------------------------------------- every byte string can be sent *)

Lemma pc_nibble_cases : forall n, n < 16 ->
  n = 0 \/ n = 1 \/ n = 2 \/ n = 3 \/ n = 4 \/ n = 5 \/ n = 6 \/ n = 7 \/
  n = 8 \/ n = 9 \/ n = 10 \/ n = 11 \/ n = 12 \/ n = 13 \/ n = 14 \/ n = 15.
Proof. intros n H. lia. Qed.

Lemma pc_hexdigit_ok : forall n, n < 16 ->
  pc_hexval (pc_hexdigit n) = Some n /\ (pc_hexdigit n =? 43) = false /\ (pc_hexdigit n =? 38) = false.
Proof.
  intros n H. apply pc_nibble_cases in H.
  repeat (destruct H as [-> | H]; [vm_compute; repeat split; reflexivity|]). subst. vm_compute. repeat split; reflexivity.
Qed.

Lemma pc_form_decode_enc : forall s, Forall (fun b => b < 256) s -> pc_form_decode (pc_enc s) = s.
Proof.
  unfold pc_form_decode. induction s as [|b s IH]; intro H; [reflexivity|].
  inversion H as [|? ? Hb Hs]. subst. specialize (IH Hs).
  assert (Hh : b / 16 < 16) by (apply N.div_lt_upper_bound; lia).
  assert (Hl : b mod 16 < 16) by (apply N.mod_lt; lia).
  destruct (pc_hexdigit_ok _ Hh) as (Hh1 & Hh2 & _). destruct (pc_hexdigit_ok _ Hl) as (Hl1 & Hl2 & _).
  unfold pc_enc. cbn [flat_map pc_enc_byte app map]. rewrite Hh2, Hl2.
  change (37 =? 43) with false. cbv iota. cbn [pc_pct]. change (37 =? 37) with true. cbv iota.
  rewrite Hh1, Hl1. fold (pc_enc s). rewrite IH. f_equal.
  rewrite N.mul_comm. symmetry. apply N.div_mod. lia.
Qed.

Lemma pc_enc_no_amp : forall s, Forall (fun b => b < 256) s -> ~ In 38 (pc_enc s).
Proof.
  induction s as [|b s IH]; intro H; [intros []|]. inversion H as [|? ? Hb Hs]. subst.
  assert (Hh : b / 16 < 16) by (apply N.div_lt_upper_bound; lia).
  assert (Hl : b mod 16 < 16) by (apply N.mod_lt; lia).
  destruct (pc_hexdigit_ok _ Hh) as (_ & _ & Hh3). destruct (pc_hexdigit_ok _ Hl) as (_ & _ & Hl3).
  unfold pc_enc. cbn [flat_map pc_enc_byte app]. fold (pc_enc s).
  intros [X | [X | [X | X]]].
  - discriminate X.
  - rewrite X in Hh3. discriminate Hh3.
  - rewrite X in Hl3. discriminate Hl3.
  - now apply IH.
Qed.

Lemma pc_find_file_exact : forall v r, pc_find_file ((pc_file_kw ++ 61 :: v) :: r) = PExact (pc_form_decode v).
Proof. intros v r. reflexivity. Qed.

(* whatever bytes f consists of, "file=<every byte of f percent-encoded>" delivers exactly f to the decision *)
Lemma pc_get_file_enc : forall f, Forall (fun b => b < 256) f ->
  pc_get_file (Some (pc_file_kw ++ 61 :: pc_enc f)) = PExact f.
Proof.
  intros f Hf. unfold pc_get_file.
  rewrite pc_split_none.
  - change (filter pc_nonempty [pc_file_kw ++ 61 :: pc_enc f]) with [pc_file_kw ++ 61 :: pc_enc f].
    rewrite pc_find_file_exact. now rewrite pc_form_decode_enc.
  - cbn [pc_file_kw app]. intros [X | [X | [X | [X | [X | X]]]]]; try discriminate X. now apply (pc_enc_no_amp f Hf).
Qed.

(* ---------------------------------------------------------------- the property, end to end *)
Lemma pc_handle_confined : forall root cwd api upd rq st enq p,
  pc_dir_at root [] -> pc_dir_at root cwd ->
  pc_handle root cwd api upd rq = Some (st, enq) -> In p enq ->
  exists d dir k nd n,
    upd = Some d /\ pc_canon root cwd d = inr dir /\ p = dir ++ k /\
    pc_descend root dir = Some nd /\ pc_is_link nd = false /\
    pc_descend nd k = Some n /\ pc_is_link n = false.
Proof.
  intros root cwd api upd rq st enq p Hroot Hcwd H Hin.
  destruct (pc_handle_enqueued _ _ _ _ _ _ _ _ H Hin) as [_ Hacc].
  destruct upd as [d|]; [|discriminate Hacc].
  destruct (pc_decide_confined_physical _ _ _ _ _ Hroot Hcwd Hacc) as (dir & k & nd & n & H1 & H2 & H3 & H4 & H5 & H6).
  exists d, dir, k, nd, n. repeat split; assumption.
Qed.

(* ---------------------------------------------------------------- the TEXT on the queue is canonical *)
(* a canonical text is the rendering of a physical path: every component is a real
   directory entry, none is a symbolic link, "." or ".." play no role *)
Lemma pc_text_canonical_physical : forall root cwd s,
  pc_dir_at root [] -> pc_dir_at root cwd ->
  pc_text_canonical root cwd s = true ->
  exists p, s = pc_render p /\ pc_canon root cwd s = inr p /\ pc_physical root p.
Proof.
  intros root cwd s Hroot Hcwd H. unfold pc_text_canonical in H.
  destruct (pc_canon root cwd s) as [e|p] eqn:Hc; [discriminate H|].
  apply pc_bytes_eqb_eq in H. exists p. split; [symmetry; exact H|]. split; [reflexivity|].
  eapply pc_canon_physical; eassumption.
Qed.

(* whatever a request puts on the queue: its text resolves to the checked location
   and is canonical *)
Lemma pc_handle_enqueued_text_canonical : forall root cwd api upd rq st enq p,
  pc_dir_at root [] -> pc_dir_at root cwd -> pc_nonul_names root ->
  pc_handle root cwd api upd rq = Some (st, enq) -> In p enq ->
  pc_observe root cwd p = (inr p, true).
Proof.
  intros root cwd api upd rq st enq p Hroot Hcwd Hnul H Hin.
  destruct (pc_handle_enqueued _ _ _ _ _ _ _ _ H Hin) as [_ Hacc].
  destruct upd as [d|]; [|discriminate Hacc].
  pose proof (pc_decide_enqueued_canonical _ _ _ _ _ Hroot Hcwd Hnul Hacc) as Hc.
  unfold pc_observe, pc_text_canonical, pc_entry_text. rewrite Hc. f_equal.
  apply pc_bytes_eqb_eq. reflexivity.
Qed.
