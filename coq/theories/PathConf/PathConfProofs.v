(* Proofs about the model of the MRT queue endpoint (PathConfModel.v). *)
From Coq Require Import NArith List Bool Lia.
From RV Require Import PathConf.PathConfModel.
Import ListNotations.
Local Open Scope N_scope.

(* ---------------------------------------------------------------- equality tests *)
Lemma pc_bytes_eqb_eq : forall a b, pc_bytes_eqb a b = true <-> a = b.
Proof.
  induction a as [|x a IH]; destruct b as [|y b]; cbn; split; intro H; try reflexivity; try discriminate.
  - apply andb_true_iff in H as [Hxy Hab]. apply N.eqb_eq in Hxy. apply IH in Hab. now subst.
  - injection H as -> ->. apply andb_true_iff; split; [apply N.eqb_refl | now apply IH].
Qed.

Lemma pc_path_eqb_eq : forall a b, pc_path_eqb a b = true <-> a = b.
Proof.
  induction a as [|x a IH]; destruct b as [|y b]; cbn; split; intro H; try reflexivity; try discriminate.
  - apply andb_true_iff in H as [Hxy Hab]. apply pc_bytes_eqb_eq in Hxy. apply IH in Hab. now subst.
  - injection H as -> ->. apply andb_true_iff; split; [now apply pc_bytes_eqb_eq | now apply IH].
Qed.

(* ---------------------------------------------------------------- ancestors = component prefixes *)
Lemma pc_anc_rev_spec : forall r d, In d (pc_anc_rev r) <-> exists k, rev r = d ++ k.
Proof.
  induction r as [|x r IH]; intro d; cbn [pc_anc_rev rev].
  - split.
    + intros [H | []]. exists []. now rewrite <- H.
    + intros [k Hk]. left. symmetry in Hk. apply app_eq_nil in Hk as [Hd _]. now subst.
  - split.
    + intros [H | H].
      * exists []. now rewrite app_nil_r.
      * apply IH in H as [k Hk]. exists (k ++ [x]). now rewrite Hk, app_assoc.
    + intros [k Hk]. destruct (rev k) as [|y k'] eqn:Ek.
      * left. apply (f_equal (@rev _)) in Ek. rewrite rev_involutive in Ek. cbn in Ek. subst k.
        now rewrite app_nil_r in Hk.
      * right. apply IH. apply (f_equal (@rev _)) in Ek. rewrite rev_involutive in Ek. cbn in Ek. subst k.
        rewrite app_assoc in Hk. apply app_inj_tail in Hk as [Hk _]. now exists (rev k').
Qed.

Lemma pc_ancestors_prefix : forall d p, In d (pc_ancestors p) <-> exists k, p = d ++ k.
Proof.
  intros d p. unfold pc_ancestors. rewrite pc_anc_rev_spec, rev_involutive. reflexivity.
Qed.

Lemma pc_anc_check : forall dir full,
  existsb (fun a => pc_path_eqb a dir) (pc_ancestors full) = true <-> exists k, full = dir ++ k.
Proof.
  intros dir full. rewrite existsb_exists. split.
  - intros [a [Hin Heq]]. apply pc_path_eqb_eq in Heq. subst a. now apply pc_ancestors_prefix.
  - intros H. exists dir. split; [now apply pc_ancestors_prefix | now apply pc_path_eqb_eq].
Qed.

(* ---------------------------------------------------------------- descending the tree *)
Lemma pc_descend_app : forall p q n,
  pc_descend n (p ++ q) = match pc_descend n p with Some m => pc_descend m q | None => None end.
Proof.
  induction p as [|c p IH]; intros q n; cbn; [reflexivity|].
  destruct n as [es| |t]; try reflexivity.
  destruct (pc_assoc c es) as [n'|]; [apply IH | reflexivity].
Qed.

Lemma pc_dir_at_physical : forall root p, pc_dir_at root p -> pc_physical root p.
Proof. intros root p [es H]. exists (PDir es). now split. Qed.

Lemma pc_descend_one_dir : forall m c n, pc_descend m [c] = Some n -> exists es, m = PDir es.
Proof. intros m c n H. destruct m as [es| |t]; cbn in H; try discriminate. now exists es. Qed.

Lemma pc_dir_at_removelast : forall root cur, pc_dir_at root cur -> pc_dir_at root (removelast cur).
Proof.
  intros root cur [es H]. destruct cur as [|c cur']; [now exists es|].
  remember (c :: cur') as cur eqn:E.
  assert (Hne : cur <> []) by (rewrite E; intro X; discriminate X).
  rewrite (app_removelast_last [] Hne) in H. rewrite pc_descend_app in H.
  match type of H with match ?x with _ => _ end = _ => destruct x as [m|] eqn:Em end; [|discriminate H].
  apply pc_descend_one_dir in H as [es' ->]. now exists es'.
Qed.

(* ---------------------------------------------------------------- realpath: unfolding *)
Lemma pc_walk_nil : forall root b cur, pc_walk root b [] cur = inr cur.
Proof. intros root b cur. destruct b; reflexivity. Qed.

Lemma pc_walk_cons : forall root b c rest cur,
  pc_walk root b (c :: rest) cur =
    if pc_is_dot c then pc_walk root b rest cur
    else if pc_is_dotdot c then pc_walk root b rest (removelast cur)
    else match pc_descend root (cur ++ [c]) with
         | None => inl ENOENT
         | Some (PDir _) => pc_walk root b rest (cur ++ [c])
         | Some PFile => match rest with [] => inr (cur ++ [c]) | _ => inl ENOTDIR end
         | Some (PLink t) =>
           match b with
           | O => inl ELOOP
           | S b' => pc_walk root b' (pc_comps t ++ rest) (if pc_is_abs t then [] else cur)
           end
         end.
Proof. intros root b c rest cur. destruct b; reflexivity. Qed.

(* ---------------------------------------------------------------- realpath returns physical paths *)
Lemma pc_walk_physical : forall root, pc_dir_at root [] ->
  forall b todo cur p, pc_dir_at root cur -> pc_walk root b todo cur = inr p -> pc_physical root p.
Proof.
  intros root Hroot. induction b as [|b IHb].
  - induction todo as [|c rest IHt]; intros cur p Hcur H.
    + rewrite pc_walk_nil in H. injection H as <-. now apply pc_dir_at_physical.
    + rewrite pc_walk_cons in H.
      destruct (pc_is_dot c); [now apply (IHt cur)|].
      destruct (pc_is_dotdot c); [apply (IHt (removelast cur)); [now apply pc_dir_at_removelast | exact H]|].
      destruct (pc_descend root (cur ++ [c])) as [[es| |t]|] eqn:Ed; try discriminate H.
      * apply (IHt (cur ++ [c])); [now exists es | exact H].
      * destruct rest; [|discriminate H]. injection H as <-. exists PFile. now split.
  - induction todo as [|c rest IHt]; intros cur p Hcur H.
    + rewrite pc_walk_nil in H. injection H as <-. now apply pc_dir_at_physical.
    + rewrite pc_walk_cons in H.
      destruct (pc_is_dot c); [now apply (IHt cur)|].
      destruct (pc_is_dotdot c); [apply (IHt (removelast cur)); [now apply pc_dir_at_removelast | exact H]|].
      destruct (pc_descend root (cur ++ [c])) as [[es| |t]|] eqn:Ed; try discriminate H.
      * apply (IHt (cur ++ [c])); [now exists es | exact H].
      * destruct rest; [|discriminate H]. injection H as <-. exists PFile. now split.
      * apply (IHb (pc_comps t ++ rest) (if pc_is_abs t then [] else cur)); [|exact H].
        destruct (pc_is_abs t); assumption.
Qed.

Lemma pc_canon_physical : forall root cwd s p,
  pc_dir_at root [] -> pc_dir_at root cwd -> pc_canon root cwd s = inr p -> pc_physical root p.
Proof.
  intros root cwd s p Hroot Hcwd H. unfold pc_canon in H.
  destruct (existsb (N.eqb 0) s); [discriminate H|]. destruct s as [|c s']; [discriminate H|].
  eapply pc_walk_physical; [exact Hroot | | exact H]. destruct (pc_is_abs (c :: s')); assumption.
Qed.

(* ---------------------------------------------------------------- the decision of Processor::queue *)
Lemma pc_decide_accept_iff : forall root cwd upd prm full,
  pc_decide root cwd upd prm = PAccept full <->
  exists d f dir k,
    upd = Some d /\ prm = PExact f /\ pc_is_abs f = false /\
    pc_canon root cwd d = inr dir /\
    pc_canon root cwd (pc_push (pc_render dir) f) = inr full /\
    full = dir ++ k.
Proof.
  intros root cwd upd prm full. unfold pc_decide. split.
  - destruct upd as [d|]; [|discriminate].
    destruct (pc_canon root cwd d) as [e|dir] eqn:Ed; [discriminate|].
    destruct prm as [| |f]; try discriminate.
    destruct (pc_is_abs f) eqn:Ea; [discriminate|].
    destruct (pc_canon root cwd (pc_push (pc_render dir) f)) as [e|full'] eqn:Ef; [discriminate|].
    destruct (existsb _ _) eqn:Ex; [|discriminate].
    intro H. injection H as <-. apply pc_anc_check in Ex as [k Hk].
    exists d, f, dir, k. repeat split; assumption.
  - intros (d & f & dir & k & -> & -> & Ha & Hd & Hf & Hk).
    rewrite Hd, Ha, Hf.
    assert (Ex : existsb (fun a => pc_path_eqb a dir) (pc_ancestors full) = true) by (apply pc_anc_check; now exists k).
    now rewrite Ex.
Qed.

Lemma pc_decide_confined : forall root cwd d prm full,
  pc_decide root cwd (Some d) prm = PAccept full ->
  exists dir f k, prm = PExact f /\ pc_canon root cwd d = inr dir /\
    pc_canon root cwd (pc_push (pc_render dir) f) = inr full /\ full = dir ++ k.
Proof.
  intros root cwd d prm full H. apply pc_decide_accept_iff in H as (d' & f & dir & k & Hu & Hp & _ & Hd & Hf & Hk).
  injection Hu as <-. exists dir, f, k. repeat split; assumption.
Qed.

(* semantic confinement: the enqueued location is a node of the tree below the
   node of the resolved update directory, reached from it through real
   directory entries only; neither is a symbolic link *)
Lemma pc_decide_confined_physical : forall root cwd d prm full,
  pc_dir_at root [] -> pc_dir_at root cwd ->
  pc_decide root cwd (Some d) prm = PAccept full ->
  exists dir k nd n,
    pc_canon root cwd d = inr dir /\ full = dir ++ k /\
    pc_descend root dir = Some nd /\ pc_is_link nd = false /\
    pc_descend nd k = Some n /\ pc_is_link n = false.
Proof.
  intros root cwd d prm full Hroot Hcwd H.
  apply pc_decide_confined in H as (dir & f & k & _ & Hd & Hf & Hk).
  apply pc_canon_physical in Hd as Hpd; try assumption. destruct Hpd as (nd & Hnd & Hlnd).
  apply pc_canon_physical in Hf as Hpf; try assumption. destruct Hpf as (n & Hn & Hln).
  exists dir, k, nd, n. subst full. rewrite pc_descend_app, Hnd in Hn. repeat split; assumption.
Qed.

Lemma pc_decide_reject_cases : forall root cwd upd prm,
  (upd = None \/
   (exists d e, upd = Some d /\ pc_canon root cwd d = inl e) \/
   prm = PNone \/ prm = PFamily \/
   (exists f, prm = PExact f /\ pc_is_abs f = true) \/
   (exists d dir f e, upd = Some d /\ pc_canon root cwd d = inr dir /\ prm = PExact f /\
                      pc_canon root cwd (pc_push (pc_render dir) f) = inl e) \/
   (exists d dir f full, upd = Some d /\ pc_canon root cwd d = inr dir /\ prm = PExact f /\
                      pc_canon root cwd (pc_push (pc_render dir) f) = inr full /\
                      ~ (exists k, full = dir ++ k))) ->
  exists why, pc_decide root cwd upd prm = PReject why.
Proof.
  intros root cwd upd prm H.
  destruct (pc_decide root cwd upd prm) as [why|full] eqn:E; [now exists why|].
  exfalso. apply pc_decide_accept_iff in E as (d & f & dir & k & Hu & Hp & Ha & Hd & Hf & Hk).
  destruct H as [H | [H | [H | [H | [H | [H | H]]]]]].
  - congruence.
  - destruct H as (d' & e & Hu' & He). congruence.
  - congruence.
  - congruence.
  - destruct H as (f' & Hp' & Ha'). congruence.
  - destruct H as (d' & dir' & f' & e & Hu' & Hd' & Hp' & He).
    assert (d' = d) by congruence. subst d'. assert (dir' = dir) by congruence. subst dir'.
    assert (f' = f) by congruence. subst f'. congruence.
  - destruct H as (d' & dir' & f' & full' & Hu' & Hd' & Hp' & Hf' & Hn).
    assert (d' = d) by congruence. subst d'. assert (dir' = dir) by congruence. subst dir'.
    assert (f' = f) by congruence. subst f'. assert (full' = full) by congruence. subst full'.
    apply Hn. now exists k.
Qed.

(* the HTTP level: whatever is rejected is a 400 with nothing enqueued, and the
   only thing ever enqueued is the accepted resolved path, once *)
Lemma pc_handle_reject : forall root cwd api upd rq st enq why,
  pc_handle root cwd api upd rq = Some (st, enq) ->
  pc_decide root cwd upd (pc_get_file (rq_query rq)) = PReject why ->
  st = 400 /\ enq = [].
Proof.
  intros root cwd api upd rq st enq why H Hd. unfold pc_handle in H.
  destruct (negb (rq_get rq)); [discriminate H|].
  destruct (pc_strip_prefix api (pc_pct (rq_path rq))) as [action|]; [|discriminate H].
  destruct (pc_strip_prefix pc_queue_kw action); [|discriminate H].
  unfold pc_queue in H. rewrite Hd in H. injection H as <- <-. now split.
Qed.

Lemma pc_handle_enqueued : forall root cwd api upd rq st enq p,
  pc_handle root cwd api upd rq = Some (st, enq) -> In p enq ->
  enq = [p] /\ pc_decide root cwd upd (pc_get_file (rq_query rq)) = PAccept p.
Proof.
  intros root cwd api upd rq st enq p H Hin. unfold pc_handle in H.
  destruct (negb (rq_get rq)); [discriminate H|].
  destruct (pc_strip_prefix api (pc_pct (rq_path rq))) as [action|]; [|discriminate H].
  destruct (pc_strip_prefix pc_queue_kw action); [|discriminate H].
  unfold pc_queue in H.
  destruct (pc_decide root cwd upd (pc_get_file (rq_query rq))) as [why|full]; injection H as <- <-.
  - destruct Hin.
  - destruct Hin as [<- | []]. now split.
Qed.

Lemma pc_handle_no_dir : forall root cwd api rq st enq,
  pc_handle root cwd api None rq = Some (st, enq) -> st = 400 /\ enq = [].
Proof.
  intros root cwd api rq st enq H. eapply pc_handle_reject; [exact H | reflexivity].
Qed.

(* ---------------------------------------------------------------- canonical paths are fixed points of realpath *)

Lemma pc_descend_nondir : forall n c q, pc_is_dir n = false -> pc_descend n (c :: q) = None.
Proof. intros n c q H. destruct n; [discriminate H | reflexivity | reflexivity]. Qed.

Lemma pc_walk_fixed : forall root b q cur n,
  Forall pc_plain q -> pc_descend root (cur ++ q) = Some n -> pc_is_link n = false ->
  pc_walk root b q cur = inr (cur ++ q).
Proof.
  intros root b. induction q as [|c q IH]; intros cur n Hq Hd Hl.
  - now rewrite pc_walk_nil, app_nil_r.
  - rewrite pc_walk_cons. inversion Hq as [|c' q' [Hdot Hdd] Hq']. subst c' q'. rewrite Hdot, Hdd.
    replace (cur ++ c :: q) with ((cur ++ [c]) ++ q) in * by (now rewrite <- app_assoc).
    rewrite pc_descend_app in Hd.
    destruct (pc_descend root (cur ++ [c])) as [m|] eqn:Em; [|discriminate Hd].
    destruct m as [es| |t].
    + apply (IH (cur ++ [c]) n); [exact Hq' | rewrite pc_descend_app, Em; exact Hd | exact Hl].
    + destruct q as [|c2 q]; [now rewrite app_nil_r | discriminate Hd].
    + destruct q as [|c2 q]; [|discriminate Hd]. cbn in Hd. injection Hd as <-. discriminate Hl.
Qed.

(* ---------------------------------------------------------------- splitting *)
Lemma pc_split_pieces : forall sep s, Forall (fun c => ~ In sep c) (pc_split sep s).
Proof.
  intros sep. induction s as [|x s IH]; cbn.
  - constructor; [intros [] | constructor].
  - destruct (x =? sep) eqn:Ex.
    + constructor; [intros [] | exact IH].
    + destruct (pc_split sep s) as [|h t]; constructor.
      * intros [H | []]. subst. now rewrite N.eqb_refl in Ex.
      * constructor.
      * inversion IH as [|? ? Hh Ht]. subst. intros [H | H]; [subst; now rewrite N.eqb_refl in Ex | now apply Hh].
      * now inversion IH.
Qed.

Lemma pc_comps_ok : forall s, Forall pc_piece_ok (pc_comps s).
Proof.
  intro s. unfold pc_comps. apply Forall_app. split.
  - apply Forall_forall. intros c Hc. apply filter_In in Hc as [Hin Hne]. split.
    + intro E. subst c. discriminate Hne.
    + pose proof (pc_split_pieces c_slash s) as H. rewrite Forall_forall in H. now apply H.
  - destruct (pc_ends_slash s); constructor; [|constructor]. split; [discriminate|].
    intros [H | []]. discriminate H.
Qed.

Lemma pc_split_app : forall sep c r, ~ In sep c -> pc_split sep (c ++ sep :: r) = c :: pc_split sep r.
Proof.
  intros sep. induction c as [|x c IH]; intros r Hc; cbn.
  - now rewrite N.eqb_refl.
  - destruct (x =? sep) eqn:Ex.
    + apply N.eqb_eq in Ex. subst. exfalso. apply Hc. now left.
    + rewrite IH; [reflexivity | intro H; apply Hc; now right].
Qed.

Lemma pc_split_head : forall sep r, pc_split sep (sep :: r) = [] :: pc_split sep r.
Proof. intros sep r. cbn. now rewrite N.eqb_refl. Qed.

Lemma pc_split_none : forall sep c, ~ In sep c -> pc_split sep c = [c].
Proof.
  intros sep. induction c as [|x c IH]; intros Hc; cbn; [reflexivity|].
  destruct (x =? sep) eqn:Ex.
  - apply N.eqb_eq in Ex. subst. exfalso. apply Hc. now left.
  - rewrite IH; [reflexivity | intro H; apply Hc; now right].
Qed.

Lemma pc_split_flat : forall p c, ~ In c_slash c -> Forall (fun d => ~ In c_slash d) p ->
  pc_split c_slash (c ++ flat_map (fun d => c_slash :: d) p) = c :: p.
Proof.
  induction p as [|d p IH]; intros c Hc Hp; cbn [flat_map].
  - rewrite app_nil_r. now apply pc_split_none.
  - inversion Hp as [|? ? Hd Hp']. subst. cbn [app]. rewrite pc_split_app by exact Hc. now rewrite IH.
Qed.

Lemma pc_filter_all : forall (p : list (list N)), Forall (fun c => c <> []) p -> filter pc_nonempty p = p.
Proof.
  induction p as [|c p IH]; intro H; cbn; [reflexivity|]. inversion H as [|? ? Hc Hp]. subst.
  destruct c; [now contradiction Hc|]. cbn. now rewrite IH.
Qed.

Lemma pc_render_ends : forall p, p <> [] -> Forall pc_piece_ok p -> pc_ends_slash (pc_render p) = false.
Proof.
  intros p Hne Hp. destruct (exists_last Hne) as (p0 & c & ->).
  apply Forall_app in Hp as [_ Hc]. inversion Hc as [|? ? [Hcne Hcs] _]. subst.
  unfold pc_render. destruct (p0 ++ [c]) eqn:E; [now destruct p0|]. rewrite <- E. clear E.
  rewrite flat_map_app. cbn [flat_map]. rewrite app_nil_r. unfold pc_ends_slash.
  destruct (exists_last Hcne) as (c0 & y & ->).
  rewrite rev_app_distr. cbn [rev]. rewrite rev_app_distr. cbn.
  destruct (y =? c_slash) eqn:Ey; [|reflexivity].
  apply N.eqb_eq in Ey. subst y. exfalso. apply Hcs. apply in_or_app. right. now left.
Qed.

Lemma pc_comps_render : forall p, p <> [] -> Forall pc_piece_ok p -> pc_comps (pc_render p) = p.
Proof.
  intros p Hne Hp. unfold pc_comps. rewrite pc_render_ends by assumption. rewrite app_nil_r.
  destruct p as [|c p]; [now contradiction Hne|]. unfold pc_render. cbn [flat_map].
  rewrite <- app_comm_cons. rewrite pc_split_head.
  inversion Hp as [|? ? [Hcne Hcs] Hp']. subst.
  rewrite pc_split_flat; [| exact Hcs | eapply Forall_impl; [|exact Hp']; intros a [_ Ha]; exact Ha].
  change (filter pc_nonempty ([] :: c :: p)) with (filter pc_nonempty (c :: p)). rewrite pc_filter_all; [reflexivity|].
  constructor; [exact Hcne | eapply Forall_impl; [|exact Hp']; intros a [Ha _]; exact Ha].
Qed.

(* ---------------------------------------------------------------- realpath results consist of proper names *)
Lemma pc_removelast_Forall : forall (P : pc_name -> Prop) l, Forall P l -> Forall P (removelast l).
Proof.
  intros P l H. destruct l as [|x l]; [constructor|].
  assert (Hne : x :: l <> []) by discriminate.
  rewrite (app_removelast_last [] Hne) in H. now apply Forall_app in H as [H _].
Qed.

Lemma pc_walk_names : forall root b todo cur p,
  Forall pc_piece_ok todo -> Forall pc_name_ok cur -> pc_walk root b todo cur = inr p -> Forall pc_name_ok p.
Proof.
  intros root. induction b as [|b IHb].
  - induction todo as [|c rest IHt]; intros cur p Ht Hc H.
    + rewrite pc_walk_nil in H. now injection H as <-.
    + rewrite pc_walk_cons in H. inversion Ht as [|? ? Hcok Hrest]. subst.
      destruct (pc_is_dot c) eqn:Edot; [now apply (IHt cur)|].
      destruct (pc_is_dotdot c) eqn:Edd; [apply (IHt (removelast cur)); [assumption | now apply pc_removelast_Forall | exact H]|].
      assert (Hpush : Forall pc_name_ok (cur ++ [c])).
      { apply Forall_app. split; [assumption|]. constructor; [|constructor]. split; [assumption | now split]. }
      destruct (pc_descend root (cur ++ [c])) as [[es| |t]|]; try discriminate H.
      * now apply (IHt (cur ++ [c])).
      * destruct rest; [|discriminate H]. now injection H as <-.
  - induction todo as [|c rest IHt]; intros cur p Ht Hc H.
    + rewrite pc_walk_nil in H. now injection H as <-.
    + rewrite pc_walk_cons in H. inversion Ht as [|? ? Hcok Hrest]. subst.
      destruct (pc_is_dot c) eqn:Edot; [now apply (IHt cur)|].
      destruct (pc_is_dotdot c) eqn:Edd; [apply (IHt (removelast cur)); [assumption | now apply pc_removelast_Forall | exact H]|].
      assert (Hpush : Forall pc_name_ok (cur ++ [c])).
      { apply Forall_app. split; [assumption|]. constructor; [|constructor]. split; [assumption | now split]. }
      destruct (pc_descend root (cur ++ [c])) as [[es| |t]|]; try discriminate H.
      * now apply (IHt (cur ++ [c])).
      * destruct rest; [|discriminate H]. now injection H as <-.
      * apply (IHb (pc_comps t ++ rest) (if pc_is_abs t then [] else cur)); [| |exact H].
        -- apply Forall_app. split; [apply pc_comps_ok | assumption].
        -- destruct (pc_is_abs t); [constructor | assumption].
Qed.

(* ---------------------------------------------------------------- NUL *)

Lemma pc_existsb_nul : forall s, ~ In 0 s -> existsb (N.eqb 0) s = false.
Proof.
  induction s as [|x s IH]; intro H; cbn [existsb]; [reflexivity|].
  destruct (0 =? x) eqn:E; [apply N.eqb_eq in E; subst; exfalso; apply H; now left|].
  cbn [orb]. apply IH. intro Hin. apply H. now right.
Qed.

Lemma pc_render_nonul : forall p, Forall (fun c => ~ In 0 c) p -> ~ In 0 (pc_render p).
Proof.
  intros p Hp. unfold pc_render. destruct p as [|c p]; [intros [H | []]; discriminate H|].
  remember (c :: p) as l eqn:E. clear E. induction Hp as [|d l Hd Hl IH]; cbn [flat_map]; [intros []|].
  intros [H | H]; [discriminate H|]. apply in_app_or in H as [H | H]; [now apply Hd | now apply IH].
Qed.

Lemma pc_render_abs : forall p, pc_is_abs (pc_render p) = true.
Proof. intros [|c p]; reflexivity. Qed.

(* the canonical text of a canonical path resolves to itself, without using any symlink budget *)
Lemma pc_canon_render : forall root cwd p,
  pc_nonul_names root -> pc_physical root p -> Forall pc_name_ok p ->
  pc_canon root cwd (pc_render p) = inr p.
Proof.
  intros root cwd p Hnul (n & Hn & Hl) Hok. unfold pc_canon.
  rewrite pc_existsb_nul by (apply pc_render_nonul; now apply (Hnul p n)).
  rewrite pc_render_abs.
  destruct p as [|c p]; [reflexivity|].
  remember (c :: p) as l eqn:E. assert (Hne : l <> []) by (rewrite E; intro X; discriminate X).
  destruct (pc_render l) eqn:Er; [subst l; discriminate Er|]. rewrite <- Er.
  rewrite pc_comps_render; [| exact Hne | eapply Forall_impl; [|exact Hok]; intros a [Ha _]; exact Ha].
  apply (pc_walk_fixed root pc_symlink_budget l [] n); [|exact Hn|exact Hl].
  eapply Forall_impl; [|exact Hok]. intros a [_ Ha]. exact Ha.
Qed.

Lemma pc_push_abs : forall base f, pc_is_abs base = true -> pc_is_abs f = false -> pc_is_abs (pc_push base f) = true.
Proof.
  intros base f Hb Hf. unfold pc_push. rewrite Hf. destruct base as [|x base]; [discriminate Hb|].
  destruct (pc_need_sep (x :: base)); exact Hb.
Qed.

Lemma pc_canon_abs_names : forall root cwd s p,
  pc_is_abs s = true -> pc_canon root cwd s = inr p -> Forall pc_name_ok p.
Proof.
  intros root cwd s p Ha H. unfold pc_canon in H.
  destruct (existsb (N.eqb 0) s); [discriminate H|]. destruct s as [|x s]; [discriminate H|].
  rewrite Ha in H. eapply pc_walk_names; [apply pc_comps_ok | constructor | exact H].
Qed.

Lemma pc_decide_enqueued_canonical : forall root cwd d prm full,
  pc_dir_at root [] -> pc_dir_at root cwd -> pc_nonul_names root ->
  pc_decide root cwd (Some d) prm = PAccept full ->
  pc_canon root cwd (pc_render full) = inr full.
Proof.
  intros root cwd d prm full Hroot Hcwd Hnul H.
  apply pc_decide_accept_iff in H as (d' & f & dir & k & _ & _ & Hf & _ & Hfull & _).
  apply pc_canon_render; [exact Hnul | now apply (pc_canon_physical root cwd _ full Hroot Hcwd Hfull) |].
  eapply pc_canon_abs_names; [|exact Hfull]. apply pc_push_abs; [apply pc_render_abs | exact Hf].
Qed.

(* ---------------------------------------------------------------- every byte string can be sent *)

Lemma pc_nibble_cases : forall n, n < 16 ->
  n = 0 \/ n = 1 \/ n = 2 \/ n = 3 \/ n = 4 \/ n = 5 \/ n = 6 \/ n = 7 \/
  n = 8 \/ n = 9 \/ n = 10 \/ n = 11 \/ n = 12 \/ n = 13 \/ n = 14 \/ n = 15.
Proof. intros n H. lia. Qed.

Lemma pc_hexdigit_ok : forall n, n < 16 ->
  pc_hexval (pc_hexdigit n) = Some n /\ (pc_hexdigit n =? 43) = false /\ (pc_hexdigit n =? 38) = false.
Proof.
  intros n H. apply pc_nibble_cases in H.
  repeat (destruct H as [-> | H]; [vm_compute; repeat split; reflexivity|]). subst. vm_compute. repeat split; reflexivity.
Qed.

Lemma pc_pct_plus_enc : forall s, Forall (fun b => b < 256) s ->
  pc_pct (map (fun c => if c =? 43 then 32 else c) (pc_enc s)) = s.
Proof.
  induction s as [|b s IH]; intro H; [reflexivity|].
  inversion H as [|? ? Hb Hs]. subst. specialize (IH Hs).
  assert (Hh : b / 16 < 16) by (apply N.div_lt_upper_bound; lia).
  assert (Hl : b mod 16 < 16) by (apply N.mod_lt; lia).
  destruct (pc_hexdigit_ok _ Hh) as (Hh1 & Hh2 & _). destruct (pc_hexdigit_ok _ Hl) as (Hl1 & Hl2 & _).
  unfold pc_enc. cbn [flat_map pc_enc_byte app map]. rewrite Hh2, Hl2.
  change (37 =? 43) with false. cbv iota. cbn [pc_pct]. change (37 =? 37) with true. cbv iota.
  rewrite Hh1, Hl1. fold (pc_enc s). rewrite IH. f_equal.
  rewrite N.mul_comm. symmetry. apply N.div_mod. lia.
Qed.

(* the percent-encoding of f delivers the lossy UTF-8 reading of f, f itself when it is UTF-8 *)
Lemma pc_form_decode_enc : forall s, Forall (fun b => b < 256) s -> pc_form_decode (pc_enc s) = pc_utf8_lossy s.
Proof. intros s H. unfold pc_form_decode. now rewrite pc_pct_plus_enc. Qed.

Lemma pc_utf8_lossy_ascii : forall s, Forall (fun b => b < 128) s -> pc_utf8_lossy s = s.
Proof.
  induction s as [|b s IH]; intro H; [reflexivity|]. inversion H as [|? ? Hb Hs]. subst.
  cbn [pc_utf8_lossy]. apply N.ltb_lt in Hb. rewrite Hb. now rewrite IH.
Qed.

Lemma pc_enc_no_amp : forall s, Forall (fun b => b < 256) s -> ~ In 38 (pc_enc s).
Proof.
  induction s as [|b s IH]; intro H; [intros []|]. inversion H as [|? ? Hb Hs]. subst.
  assert (Hh : b / 16 < 16) by (apply N.div_lt_upper_bound; lia).
  assert (Hl : b mod 16 < 16) by (apply N.mod_lt; lia).
  destruct (pc_hexdigit_ok _ Hh) as (_ & _ & Hh3). destruct (pc_hexdigit_ok _ Hl) as (_ & _ & Hl3).
  unfold pc_enc. cbn [flat_map pc_enc_byte app]. fold (pc_enc s).
  intros [X | [X | [X | X]]].
  - discriminate X.
  - rewrite X in Hh3. discriminate Hh3.
  - rewrite X in Hl3. discriminate Hl3.
  - now apply IH.
Qed.

Lemma pc_find_file_exact : forall v r, pc_find_file ((pc_file_kw ++ 61 :: v) :: r) = PExact (pc_form_decode v).
Proof. intros v r. reflexivity. Qed.

(* whatever bytes f consists of, "file=<every byte of f percent-encoded>" delivers exactly f to the decision *)
Lemma pc_get_file_enc : forall f, Forall (fun b => b < 256) f ->
  pc_get_file (Some (pc_file_kw ++ 61 :: pc_enc f)) = PExact (pc_utf8_lossy f).
Proof.
  intros f Hf. unfold pc_get_file.
  rewrite pc_split_none.
  - change (filter pc_nonempty [pc_file_kw ++ 61 :: pc_enc f]) with [pc_file_kw ++ 61 :: pc_enc f].
    rewrite pc_find_file_exact. now rewrite pc_form_decode_enc.
  - cbn [pc_file_kw app]. intros [X | [X | [X | [X | [X | X]]]]]; try discriminate X. now apply (pc_enc_no_amp f Hf).
Qed.

(* ---------------------------------------------------------------- the property, end to end *)
Lemma pc_handle_confined : forall root cwd api upd rq st enq p,
  pc_dir_at root [] -> pc_dir_at root cwd ->
  pc_handle root cwd api upd rq = Some (st, enq) -> In p enq ->
  exists d dir k nd n,
    upd = Some d /\ pc_canon root cwd d = inr dir /\ p = dir ++ k /\
    pc_descend root dir = Some nd /\ pc_is_link nd = false /\
    pc_descend nd k = Some n /\ pc_is_link n = false.
Proof.
  intros root cwd api upd rq st enq p Hroot Hcwd H Hin.
  destruct (pc_handle_enqueued _ _ _ _ _ _ _ _ H Hin) as [_ Hacc].
  destruct upd as [d|]; [|discriminate Hacc].
  destruct (pc_decide_confined_physical _ _ _ _ _ Hroot Hcwd Hacc) as (dir & k & nd & n & H1 & H2 & H3 & H4 & H5 & H6).
  exists d, dir, k, nd, n. repeat split; assumption.
Qed.

(* ---------------------------------------------------------------- the TEXT on the queue is canonical *)
(* a canonical text is the rendering of a physical path: every component is a real
   directory entry, none is a symbolic link, "." or ".." play no role *)
Lemma pc_text_canonical_physical : forall root cwd s,
  pc_dir_at root [] -> pc_dir_at root cwd ->
  pc_text_canonical root cwd s = true ->
  exists p, s = pc_render p /\ pc_canon root cwd s = inr p /\ pc_physical root p.
Proof.
  intros root cwd s Hroot Hcwd H. unfold pc_text_canonical in H.
  destruct (pc_canon root cwd s) as [e|p] eqn:Hc; [discriminate H|].
  apply pc_bytes_eqb_eq in H. exists p. split; [symmetry; exact H|]. split; [reflexivity|].
  eapply pc_canon_physical; eassumption.
Qed.

(* whatever a request puts on the queue: its text resolves to the checked location
   and is canonical *)
Lemma pc_handle_enqueued_text_canonical : forall root cwd api upd rq st enq p,
  pc_dir_at root [] -> pc_dir_at root cwd -> pc_nonul_names root ->
  pc_handle root cwd api upd rq = Some (st, enq) -> In p enq ->
  pc_observe root cwd p = (inr p, true).
Proof.
  intros root cwd api upd rq st enq p Hroot Hcwd Hnul H Hin.
  destruct (pc_handle_enqueued _ _ _ _ _ _ _ _ H Hin) as [_ Hacc].
  destruct upd as [d|]; [|discriminate Hacc].
  pose proof (pc_decide_enqueued_canonical _ _ _ _ _ Hroot Hcwd Hnul Hacc) as Hc.
  unfold pc_observe, pc_text_canonical, pc_entry_text. rewrite Hc. f_equal.
  apply pc_bytes_eqb_eq. reflexivity.
Qed.

(* ================================================================ the file system as a state *)

Lemma pc_bytes_eqb_refl : forall c, pc_bytes_eqb c c = true.
Proof. intro c. now apply pc_bytes_eqb_eq. Qed.

Lemma pc_bytes_eqb_false : forall a b, pc_bytes_eqb a b = false <-> a <> b.
Proof.
  intros a b. split.
  - intros H E. subst. rewrite pc_bytes_eqb_refl in H. discriminate H.
  - intro H. destruct (pc_bytes_eqb a b) eqn:E; [|reflexivity]. apply pc_bytes_eqb_eq in E. contradiction.
Qed.

Lemma pc_assoc_put_same : forall c x es, pc_assoc c (pc_put c x es) = Some x.
Proof.
  intros c x. induction es as [|[k n] es IH]; cbn.
  - now rewrite pc_bytes_eqb_refl.
  - destruct (pc_bytes_eqb k c) eqn:E; cbn; rewrite E; [reflexivity | exact IH].
Qed.

Lemma pc_assoc_put_other : forall c d x es, c <> d -> pc_assoc d (pc_put c x es) = pc_assoc d es.
Proof.
  intros c d x es Hcd. induction es as [|[k n] es IH]; cbn.
  - apply pc_bytes_eqb_false in Hcd. now rewrite Hcd.
  - destruct (pc_bytes_eqb k c) eqn:E; cbn.
    + apply pc_bytes_eqb_eq in E. subst k. apply pc_bytes_eqb_false in Hcd. now rewrite Hcd.
    + now rewrite IH.
Qed.

Lemma pc_assoc_del_same : forall c es, pc_assoc c (pc_del c es) = None.
Proof.
  intros c. induction es as [|[k n] es IH]; cbn; [reflexivity|].
  destruct (pc_bytes_eqb k c) eqn:E; cbn; [exact IH | now rewrite E].
Qed.

Lemma pc_assoc_del_other : forall c d es, c <> d -> pc_assoc d (pc_del c es) = pc_assoc d es.
Proof.
  intros c d es Hcd. induction es as [|[k n] es IH]; cbn; [reflexivity|].
  destruct (pc_bytes_eqb k c) eqn:E; cbn.
  - apply pc_bytes_eqb_eq in E. subst k. apply pc_bytes_eqb_false in Hcd. now rewrite Hcd.
  - now rewrite IH.
Qed.

(* one unfolding of pc_update on a directory *)
Lemma pc_update_dir : forall c r v es,
  pc_update (c :: r) v (PDir es) =
  match r with
  | [] => PDir (match v with Some x => pc_put c x es | None => pc_del c es end)
  | _ => match pc_assoc c es with
         | Some m => PDir (pc_put c (pc_update r v m) es)
         | None => PDir es
         end
  end.
Proof. intros c r v es. destruct r; reflexivity. Qed.

Lemma pc_update_is_dir : forall c r v es, exists es', pc_update (c :: r) v (PDir es) = PDir es'.
Proof.
  intros c r v es. rewrite pc_update_dir. destruct r as [|c2 r].
  - eexists; reflexivity.
  - destruct (pc_assoc c es); eexists; reflexivity.
Qed.

(* what pc_update does to the entry list of the directory it starts in *)
Lemma pc_update_assoc_other : forall c r v es es' d,
  pc_update (c :: r) v (PDir es) = PDir es' -> c <> d -> pc_assoc d es' = pc_assoc d es.
Proof.
  intros c r v es es' d H Hcd. rewrite pc_update_dir in H. destruct r as [|c2 r].
  - injection H as <-. destruct v; [now apply pc_assoc_put_other | now apply pc_assoc_del_other].
  - destruct (pc_assoc c es); injection H as <-; [now apply pc_assoc_put_other | reflexivity].
Qed.

(* a change at p leaves every directory that p is not a prefix of - in particular
   p's own ancestors - a directory *)
Lemma pc_update_spares : forall p v fs cwd,
  pc_is_prefix p cwd = false -> pc_dir_at fs cwd -> pc_dir_at (pc_update p v fs) cwd.
Proof.
  induction p as [|c r IH]; intros v fs cwd Hp [es0 Hd]; [discriminate Hp|].
  destruct cwd as [|d cw].
  - cbn in Hd. injection Hd as ->. destruct (pc_update_is_dir c r v es0) as [es' ->]. now exists es'.
  - destruct fs as [es| |t]; try discriminate Hd. cbn [pc_descend] in Hd.
    destruct (pc_assoc d es) as [m|] eqn:Em; [|discriminate Hd].
    cbn [pc_is_prefix] in Hp.
    destruct (pc_bytes_eqb c d) eqn:Ecd.
    + apply pc_bytes_eqb_eq in Ecd. subst d. cbn [andb] in Hp.
      rewrite pc_update_dir. destruct r as [|c2 r]; [discriminate Hp|].
      rewrite Em. unfold pc_dir_at. cbn [pc_descend]. rewrite pc_assoc_put_same.
      apply (IH v m cw Hp). now exists es0.
    + apply pc_bytes_eqb_false in Ecd.
      destruct (pc_update_is_dir c r v es) as [es' He]. rewrite He.
      unfold pc_dir_at. cbn [pc_descend]. rewrite (pc_update_assoc_other _ _ _ _ _ d He Ecd), Em.
      now exists es0.
Qed.

Lemma pc_path_valid_nonempty : forall p, pc_path_valid p = true -> p <> [].
Proof. intros [|c p] H; [discriminate H | discriminate]. Qed.

Lemma pc_prefix_of_nil : forall p, p <> [] -> pc_is_prefix p [] = false.
Proof. intros [|c p] H; [contradiction | reflexivity]. Qed.

Lemma pc_apply_spares : forall o fs cwd,
  pc_op_spares cwd o -> pc_dir_at fs cwd -> pc_dir_at (pc_apply o fs) cwd.
Proof.
  intros o fs cwd Hs Hd. destruct o as [p k|p|p q|p t]; cbn [pc_apply pc_op_spares] in *.
  - destruct (_ && _); [now apply pc_update_spares | exact Hd].
  - destruct (_ && _); [now apply pc_update_spares | exact Hd].
  - destruct Hs as [Hp Hq]. destruct (_ && _); [|exact Hd].
    destruct (pc_descend fs p); [|exact Hd]. apply pc_update_spares; [exact Hq|]. now apply pc_update_spares.
  - destruct (_ && _); [|exact Hd]. destruct (pc_descend fs p) as [[| |t0]|]; try exact Hd. now apply pc_update_spares.
Qed.

(* the root stays a directory whatever the operation (no operation has the empty path) *)
Lemma pc_apply_root : forall o fs, pc_dir_at fs [] -> pc_dir_at (pc_apply o fs) [].
Proof.
  intros o fs Hd. destruct o as [p k|p|p q|p t]; cbn [pc_apply].
  - destruct (pc_path_valid p) eqn:Ep; [|exact Hd]. cbn [andb].
    destruct (_ && _); [|exact Hd]. apply pc_update_spares; [|exact Hd]. apply pc_prefix_of_nil. now apply pc_path_valid_nonempty.
  - destruct (pc_path_valid p) eqn:Ep; [|exact Hd]. cbn [andb].
    destruct (pc_exists fs p); [|exact Hd]. apply pc_update_spares; [|exact Hd]. apply pc_prefix_of_nil. now apply pc_path_valid_nonempty.
  - destruct (pc_path_valid p) eqn:Ep; [|exact Hd]. destruct (pc_path_valid q) eqn:Eq; [|exact Hd]. cbn [andb].
    destruct (_ && _); [|exact Hd]. destruct (pc_descend fs p); [|exact Hd].
    apply pc_update_spares; [apply pc_prefix_of_nil; now apply pc_path_valid_nonempty|].
    apply pc_update_spares; [apply pc_prefix_of_nil; now apply pc_path_valid_nonempty | exact Hd].
  - destruct (pc_path_valid p) eqn:Ep; [|exact Hd]. cbn [andb]. destruct (pc_target_valid t); [|exact Hd].
    destruct (pc_descend fs p) as [[| |t0]|]; try exact Hd.
    apply pc_update_spares; [|exact Hd]. apply pc_prefix_of_nil. now apply pc_path_valid_nonempty.
Qed.

Lemma pc_apply_dirs : forall o fs cwd,
  pc_op_spares cwd o -> pc_dir_at fs [] -> pc_dir_at fs cwd ->
  pc_dir_at (pc_apply o fs) [] /\ pc_dir_at (pc_apply o fs) cwd.
Proof. intros o fs cwd Hs Hr Hc. split; [exact (pc_apply_root o fs Hr) | exact (pc_apply_spares o fs cwd Hs Hc)]. Qed.

Lemma pc_after_dirs : forall cwd pre fs upd,
  pc_dir_at fs [] -> pc_dir_at fs cwd -> Forall (pc_ev_spares cwd) pre ->
  pc_dir_at (fst (pc_after (fs, upd) pre)) [] /\ pc_dir_at (fst (pc_after (fs, upd) pre)) cwd.
Proof.
  intros cwd. induction pre as [|e pre IH]; intros fs upd Hr Hc Hs; [now split|].
  inversion Hs as [|? ? He Hpre]. subst. destruct e as [o|u|rq]; cbn [pc_after fst snd].
  - apply IH; [now apply pc_apply_root | now apply pc_apply_spares | exact Hpre].
  - now apply IH.
  - now apply IH.
Qed.

(* ---------------------------------------------------------------- histories *)
Lemma pc_run_app : forall cwd api pre post s,
  pc_run cwd api s (pre ++ post) = pc_run cwd api s pre ++ pc_run cwd api (pc_after s pre) post.
Proof.
  intros cwd api. induction pre as [|e pre IH]; intros post s; [reflexivity|].
  destruct e as [o|u|rq]; cbn [app pc_run pc_step pc_after]; rewrite IH; reflexivity.
Qed.

Lemma pc_run_length : forall cwd api pre s, length (pc_run cwd api s pre) = pc_requests pre.
Proof.
  intros cwd api. induction pre as [|e pre IH]; intro s; [reflexivity|].
  destruct e as [o|u|rq]; cbn [pc_run pc_step pc_requests length]; now rewrite IH.
Qed.

(* every answer of a history is the answer of Processor::process_request in the
   tree, and with the configuration, that the events before it have led to *)
Lemma pc_run_answer : forall cwd api s pre rq post,
  pc_run cwd api s (pre ++ EReq rq :: post) =
  pc_run cwd api s pre
  ++ pc_handle (fst (pc_after s pre)) cwd api (snd (pc_after s pre)) rq
  :: pc_run cwd api (pc_after s pre) post.
Proof. intros. rewrite pc_run_app. reflexivity. Qed.

Lemma pc_run_nth : forall cwd api s pre rq post,
  nth_error (pc_run cwd api s (pre ++ EReq rq :: post)) (pc_requests pre) =
  Some (pc_handle (fst (pc_after s pre)) cwd api (snd (pc_after s pre)) rq).
Proof.
  intros. rewrite pc_run_answer, <- (pc_run_length cwd api pre s).
  rewrite nth_error_app2 by apply le_n. now rewrite PeanoNat.Nat.sub_diag.
Qed.

(* two histories that lead to the same tree and the same configuration get the same answer *)
Lemma pc_run_only_current : forall cwd api s1 s2 pre1 pre2 rq post1 post2,
  pc_after s1 pre1 = pc_after s2 pre2 ->
  nth_error (pc_run cwd api s1 (pre1 ++ EReq rq :: post1)) (pc_requests pre1) =
  nth_error (pc_run cwd api s2 (pre2 ++ EReq rq :: post2)) (pc_requests pre2).
Proof. intros. rewrite !pc_run_nth. now rewrite H. Qed.

Lemma pc_history_confined : forall cwd api fs0 upd0 pre rq post st enq p,
  pc_dir_at fs0 [] -> pc_dir_at fs0 cwd -> Forall (pc_ev_spares cwd) pre ->
  nth_error (pc_run cwd api (fs0, upd0) (pre ++ EReq rq :: post)) (pc_requests pre) = Some (Some (st, enq)) ->
  In p enq ->
  exists d dir k nd n,
    snd (pc_after (fs0, upd0) pre) = Some d /\
    pc_canon (fst (pc_after (fs0, upd0) pre)) cwd d = inr dir /\ p = dir ++ k /\
    pc_descend (fst (pc_after (fs0, upd0) pre)) dir = Some nd /\ pc_is_link nd = false /\
    pc_descend nd k = Some n /\ pc_is_link n = false.
Proof.
  intros cwd api fs0 upd0 pre rq post st enq p Hr Hc Hs H Hin.
  rewrite pc_run_nth in H. injection H as H.
  destruct (pc_after_dirs cwd pre fs0 upd0 Hr Hc Hs) as [Hr' Hc'].
  exact (pc_handle_confined _ _ _ _ _ _ _ _ Hr' Hc' H Hin).
Qed.

Lemma pc_handle_to_queue : forall root cwd api upd rq,
  pc_to_queue api rq -> pc_handle root cwd api upd rq = Some (pc_queue root cwd upd rq).
Proof.
  intros root cwd api upd rq [Hg (action & rest & Ha & Hq)]. unfold pc_handle. now rewrite Hg, Ha, Hq.
Qed.

(* a name inside what the configured directory resolves to NOW is accepted ... *)
Lemma pc_history_inside_accepted : forall cwd api s pre rq post d f dir k,
  pc_to_queue api rq ->
  snd (pc_after s pre) = Some d ->
  pc_get_file (rq_query rq) = PExact f -> pc_is_abs f = false ->
  pc_canon (fst (pc_after s pre)) cwd d = inr dir ->
  pc_canon (fst (pc_after s pre)) cwd (pc_push (pc_render dir) f) = inr (dir ++ k) ->
  nth_error (pc_run cwd api s (pre ++ EReq rq :: post)) (pc_requests pre) =
  Some (Some (pc_status (rq_mode rq), [dir ++ k])).
Proof.
  intros cwd api s pre rq post d f dir k Hq Hu Hf Ha Hd Hfull.
  rewrite pc_run_nth, (pc_handle_to_queue _ _ _ _ _ Hq). unfold pc_queue.
  assert (E : pc_decide (fst (pc_after s pre)) cwd (snd (pc_after s pre)) (pc_get_file (rq_query rq)) = PAccept (dir ++ k)).
  { apply pc_decide_accept_iff. exists d, f, dir, k. repeat split; assumption. }
  rewrite E. unfold pc_status. reflexivity.
Qed.

(* ... and one that resolves outside it, or not at all, is answered 400 with nothing enqueued *)
Lemma pc_history_outside_rejected : forall cwd api s pre rq post d f dir,
  pc_to_queue api rq ->
  snd (pc_after s pre) = Some d ->
  pc_get_file (rq_query rq) = PExact f ->
  pc_canon (fst (pc_after s pre)) cwd d = inr dir ->
  (forall full, pc_canon (fst (pc_after s pre)) cwd (pc_push (pc_render dir) f) = inr full -> ~ exists k, full = dir ++ k) ->
  nth_error (pc_run cwd api s (pre ++ EReq rq :: post)) (pc_requests pre) = Some (Some (400, [])).
Proof.
  intros cwd api s pre rq post d f dir Hq Hu Hf Hd Hout.
  rewrite pc_run_nth, (pc_handle_to_queue _ _ _ _ _ Hq). unfold pc_queue.
  destruct (pc_decide _ cwd _ _) as [why|full] eqn:E; [reflexivity|]. exfalso.
  apply pc_decide_accept_iff in E as (d' & f' & dir' & k & Hu' & Hf' & _ & Hd' & Hfull & Hk).
  rewrite Hu in Hu'. injection Hu' as <-. rewrite Hf in Hf'. injection Hf' as <-.
  rewrite Hd in Hd'. injection Hd' as <-. apply (Hout full Hfull). now exists k.
Qed.

(* ---------------------------------------------------------------- no operation brings a NUL byte into a name *)
Lemma pc_nonul_subtree : forall fs p n, pc_nonul_names fs -> pc_descend fs p = Some n -> pc_nonul_names n.
Proof.
  intros fs p n Hfs Hp q m Hq.
  assert (H : pc_descend fs (p ++ q) = Some m) by (now rewrite pc_descend_app, Hp).
  apply Hfs in H. now apply Forall_app in H as [_ H].
Qed.

Lemma pc_nonul_dir : forall es,
  (forall c n, pc_assoc c es = Some n -> ~ In 0 c /\ pc_nonul_names n) -> pc_nonul_names (PDir es).
Proof.
  intros es H q m Hq. destruct q as [|c q]; [constructor|]. cbn [pc_descend] in Hq.
  destruct (pc_assoc c es) as [n|] eqn:E; [|discriminate Hq]. destruct (H c n E) as [Hc Hn].
  constructor; [exact Hc | now apply (Hn q m)].
Qed.

Lemma pc_nonul_entry : forall es c n, pc_nonul_names (PDir es) -> pc_assoc c es = Some n -> ~ In 0 c /\ pc_nonul_names n.
Proof.
  intros es c n H E. split.
  - assert (Hd : pc_descend (PDir es) [c] = Some n) by (cbn; now rewrite E).
    apply H in Hd. now inversion Hd.
  - apply (pc_nonul_subtree (PDir es) [c] n H). cbn. now rewrite E.
Qed.

Lemma pc_update_nonul : forall p v fs,
  Forall (fun c => ~ In 0 c) p -> (forall x, v = Some x -> pc_nonul_names x) ->
  pc_nonul_names fs -> pc_nonul_names (pc_update p v fs).
Proof.
  induction p as [|c r IH]; intros v fs Hp Hv Hfs.
  - cbn. destruct v as [x|]; [now apply Hv | exact Hfs].
  - inversion Hp as [|? ? Hc Hr]. subst.
    destruct fs as [es| |t]; try exact Hfs. rewrite pc_update_dir.
    assert (Hput : forall x, pc_nonul_names x -> pc_nonul_names (PDir (pc_put c x es))).
    { intros x Hx. apply pc_nonul_dir. intros d n E.
      destruct (pc_bytes_eqb c d) eqn:Ecd.
      - apply pc_bytes_eqb_eq in Ecd. subst d. rewrite pc_assoc_put_same in E. injection E as <-. now split.
      - apply pc_bytes_eqb_false in Ecd. rewrite pc_assoc_put_other in E by exact Ecd. now apply (pc_nonul_entry es). }
    destruct r as [|c2 r].
    + destruct v as [x|]; [apply Hput; now apply Hv|].
      apply pc_nonul_dir. intros d n E.
      destruct (pc_bytes_eqb c d) eqn:Ecd.
      * apply pc_bytes_eqb_eq in Ecd. subst d. rewrite pc_assoc_del_same in E. discriminate E.
      * apply pc_bytes_eqb_false in Ecd. rewrite pc_assoc_del_other in E by exact Ecd. now apply (pc_nonul_entry es).
    + destruct (pc_assoc c es) as [m|] eqn:Em; [|exact Hfs].
      apply Hput. apply IH; [exact Hr | exact Hv |]. now apply (pc_nonul_entry es c m).
Qed.

Lemma pc_name_valid_nonul : forall c, pc_name_valid c = true -> ~ In 0 c.
Proof.
  intros c H Hin. unfold pc_name_valid in H.
  repeat (apply andb_true_iff in H as [H ?]).
  match goal with X : negb (existsb (N.eqb 0) c) = true |- _ => apply negb_true_iff in X; rename X into Hz end.
  assert (Ht : existsb (N.eqb 0) c = true) by (apply existsb_exists; exists 0; split; [exact Hin | reflexivity]).
  rewrite Ht in Hz. discriminate Hz.
Qed.

Lemma pc_path_valid_nonul : forall p, pc_path_valid p = true -> Forall (fun c => ~ In 0 c) p.
Proof.
  intros p H. destruct p as [|c p]; [discriminate H|]. unfold pc_path_valid in H.
  apply Forall_forall. intros d Hd. apply pc_name_valid_nonul. rewrite forallb_forall in H. now apply H.
Qed.

Lemma pc_nonul_leaf : forall n, (forall es, n <> PDir es) -> pc_nonul_names n.
Proof.
  intros n Hn q m Hq. destruct q as [|c q]; [constructor|].
  destruct n as [es| |t]; [now contradiction (Hn es) | discriminate Hq | discriminate Hq].
Qed.

Lemma pc_nonul_of_kind : forall k, pc_nonul_names (pc_node_of_kind k).
Proof.
  intros [| |t]; cbn.
  - apply pc_nonul_dir. intros c n E. discriminate E.
  - apply pc_nonul_leaf. intros es E. discriminate E.
  - apply pc_nonul_leaf. intros es E. discriminate E.
Qed.

Lemma pc_apply_nonul : forall o fs, pc_nonul_names fs -> pc_nonul_names (pc_apply o fs).
Proof.
  intros o fs Hfs. destruct o as [p k|p|p q|p t]; cbn [pc_apply].
  - destruct (pc_path_valid p) eqn:Ep; [|exact Hfs]. cbn [andb]. destruct (_ && _); [|exact Hfs].
    apply pc_update_nonul; [now apply pc_path_valid_nonul | | exact Hfs].
    intros x E. injection E as <-. apply pc_nonul_of_kind.
  - destruct (pc_path_valid p) eqn:Ep; [|exact Hfs]. cbn [andb]. destruct (pc_exists fs p); [|exact Hfs].
    apply pc_update_nonul; [now apply pc_path_valid_nonul | discriminate | exact Hfs].
  - destruct (pc_path_valid p) eqn:Ep; [|exact Hfs]. destruct (pc_path_valid q) eqn:Eq; [|exact Hfs]. cbn [andb].
    destruct (_ && _); [|exact Hfs]. destruct (pc_descend fs p) as [n|] eqn:En; [|exact Hfs].
    apply pc_update_nonul; [now apply pc_path_valid_nonul | |].
    + intros x E. injection E as <-. now apply (pc_nonul_subtree fs p n).
    + apply pc_update_nonul; [now apply pc_path_valid_nonul | discriminate | exact Hfs].
  - destruct (pc_path_valid p) eqn:Ep; [|exact Hfs]. cbn [andb]. destruct (pc_target_valid t); [|exact Hfs].
    destruct (pc_descend fs p) as [[| |t0]|]; try exact Hfs.
    apply pc_update_nonul; [now apply pc_path_valid_nonul | | exact Hfs].
    intros x E. injection E as <-. apply pc_nonul_leaf. intros es E. discriminate E.
Qed.

Lemma pc_after_nonul : forall pre fs upd, pc_nonul_names fs -> pc_nonul_names (fst (pc_after (fs, upd) pre)).
Proof.
  induction pre as [|e pre IH]; intros fs upd H; [exact H|].
  destruct e as [o|u|rq]; cbn [pc_after fst snd]; apply IH; [now apply pc_apply_nonul | exact H | exact H].
Qed.

(* whatever the tree has gone through: the text put on the queue is canonical in the tree of the moment *)
Lemma pc_history_text_canonical : forall cwd api fs0 upd0 pre rq post st enq p,
  pc_dir_at fs0 [] -> pc_dir_at fs0 cwd -> pc_nonul_names fs0 -> Forall (pc_ev_spares cwd) pre ->
  nth_error (pc_run cwd api (fs0, upd0) (pre ++ EReq rq :: post)) (pc_requests pre) = Some (Some (st, enq)) ->
  In p enq ->
  pc_observe (fst (pc_after (fs0, upd0) pre)) cwd p = (inr p, true).
Proof.
  intros cwd api fs0 upd0 pre rq post st enq p Hr Hc Hn Hs H Hin.
  rewrite pc_run_nth in H. injection H as H.
  destruct (pc_after_dirs cwd pre fs0 upd0 Hr Hc Hs) as [Hr' Hc'].
  exact (pc_handle_enqueued_text_canonical _ _ _ _ _ _ _ _ Hr' Hc' (pc_after_nonul pre fs0 upd0 Hn) H Hin).
Qed.

(* ---------------------------------------------------------------- what the operations do *)
Lemma pc_descend_parent : forall fs p n, p <> [] -> pc_descend fs p = Some n -> pc_parent_is_dir fs p = true.
Proof.
  intros fs p n Hne H. rewrite (app_removelast_last [] Hne) in H. rewrite pc_descend_app in H.
  match type of H with match ?x with _ => _ end = _ => destruct x as [m|] eqn:Em end; [|discriminate H].
  apply pc_descend_one_dir in H as [es ->]. unfold pc_parent_is_dir.
  change (pc_descend fs (removelast p)) with (pc_descend fs (@removelast pc_name p)) in Em. now rewrite Em.
Qed.

Lemma pc_update_at : forall p v fs, p <> [] -> pc_parent_is_dir fs p = true -> pc_descend (pc_update p v fs) p = v.
Proof.
  induction p as [|c r IH]; intros v fs Hne Hpar; [contradiction|].
  unfold pc_parent_is_dir in Hpar. destruct r as [|c2 r].
  - cbn in Hpar. destruct fs as [es| |t]; try discriminate Hpar. rewrite pc_update_dir. cbn [pc_descend].
    destruct v as [x|]; [now rewrite pc_assoc_put_same | now rewrite pc_assoc_del_same].
  - change (removelast (c :: c2 :: r)) with (c :: removelast (c2 :: r)) in Hpar.
    destruct fs as [es| |t]; try discriminate Hpar. cbn [pc_descend] in Hpar.
    destruct (pc_assoc c es) as [m|] eqn:Em; [|discriminate Hpar].
    rewrite pc_update_dir, Em. cbn [pc_descend]. rewrite pc_assoc_put_same.
    apply IH; [discriminate|]. unfold pc_parent_is_dir. exact Hpar.
Qed.

(* a change at p is invisible at every path that is neither above nor below p *)
Lemma pc_update_frame : forall p v fs q,
  pc_is_prefix p q = false -> pc_is_prefix q p = false -> pc_descend (pc_update p v fs) q = pc_descend fs q.
Proof.
  induction p as [|c r IH]; intros v fs q Hpq Hqp; [discriminate Hpq|].
  destruct q as [|d q]; [discriminate Hqp|].
  destruct fs as [es| |t]; try reflexivity.
  cbn [pc_is_prefix] in Hpq, Hqp.
  destruct (pc_bytes_eqb c d) eqn:Ecd.
  - apply pc_bytes_eqb_eq in Ecd. subst d. rewrite pc_bytes_eqb_refl in Hqp. cbn [andb] in Hpq, Hqp.
    rewrite pc_update_dir. destruct r as [|c2 r]; [discriminate Hpq|].
    destruct (pc_assoc c es) as [m|] eqn:Em; [|reflexivity].
    cbn [pc_descend]. rewrite pc_assoc_put_same, Em. now apply IH.
  - apply pc_bytes_eqb_false in Ecd.
    destruct (pc_update_is_dir c r v es) as [es' He]. rewrite He. cbn [pc_descend].
    now rewrite (pc_update_assoc_other _ _ _ _ _ d He Ecd).
Qed.

Lemma pc_is_prefix_app : forall a b, pc_is_prefix a b = true -> exists k, b = a ++ k.
Proof.
  induction a as [|x a IH]; intros b H; [now exists b|].
  destruct b as [|y b]; [discriminate H|]. cbn in H. apply andb_true_iff in H as [Hxy H].
  apply pc_bytes_eqb_eq in Hxy. subst y. destruct (IH b H) as [k ->]. now exists k.
Qed.

Lemma pc_is_prefix_removelast : forall p q, q <> [] -> pc_is_prefix p q = false -> pc_is_prefix p (removelast q) = false.
Proof.
  induction p as [|c p IH]; intros q Hne H; [discriminate H|].
  destruct q as [|d q]; [contradiction|]. destruct q as [|d2 q]; [reflexivity|].
  change (removelast (d :: d2 :: q)) with (d :: removelast (d2 :: q)). cbn [pc_is_prefix] in *.
  destruct (pc_bytes_eqb c d); [|reflexivity]. cbn [andb] in *. apply IH; [discriminate | exact H].
Qed.

Lemma pc_apply_create : forall fs p k,
  pc_path_valid p = true -> pc_kind_valid k = true -> pc_parent_is_dir fs p = true -> pc_descend fs p = None ->
  pc_descend (pc_apply (OCreate p k) fs) p = Some (pc_node_of_kind k) /\
  forall q, pc_is_prefix p q = false -> pc_is_prefix q p = false ->
            pc_descend (pc_apply (OCreate p k) fs) q = pc_descend fs q.
Proof.
  intros fs p k Hp Hk Hpar Hno. cbn [pc_apply]. unfold pc_exists. rewrite Hp, Hk, Hpar, Hno. cbn [andb negb]. split.
  - apply pc_update_at; [now apply pc_path_valid_nonempty | exact Hpar].
  - intros q H1 H2. now apply pc_update_frame.
Qed.

Lemma pc_apply_remove : forall fs p n,
  pc_path_valid p = true -> pc_descend fs p = Some n ->
  pc_descend (pc_apply (ORemove p) fs) p = None /\
  forall q, pc_is_prefix p q = false -> pc_is_prefix q p = false ->
            pc_descend (pc_apply (ORemove p) fs) q = pc_descend fs q.
Proof.
  intros fs p n Hp Hn. cbn [pc_apply]. unfold pc_exists. rewrite Hp, Hn. cbn [andb]. split.
  - apply pc_update_at; [now apply pc_path_valid_nonempty |].
    apply (pc_descend_parent fs p n); [now apply pc_path_valid_nonempty | exact Hn].
  - intros q H1 H2. now apply pc_update_frame.
Qed.

Lemma pc_apply_repoint : forall fs p t0 t,
  pc_path_valid p = true -> pc_target_valid t = true -> pc_descend fs p = Some (PLink t0) ->
  pc_descend (pc_apply (ORepoint p t) fs) p = Some (PLink t) /\
  forall q, pc_is_prefix p q = false -> pc_is_prefix q p = false ->
            pc_descend (pc_apply (ORepoint p t) fs) q = pc_descend fs q.
Proof.
  intros fs p t0 t Hp Ht Hn. cbn [pc_apply]. rewrite Hp, Ht, Hn. cbn [andb]. split.
  - apply pc_update_at; [now apply pc_path_valid_nonempty |].
    apply (pc_descend_parent fs p (PLink t0)); [now apply pc_path_valid_nonempty | exact Hn].
  - intros q H1 H2. now apply pc_update_frame.
Qed.

Lemma pc_apply_rename : forall fs p q n,
  pc_path_valid p = true -> pc_path_valid q = true -> pc_is_prefix p q = false ->
  pc_parent_is_dir fs q = true -> pc_descend fs q = None -> pc_descend fs p = Some n ->
  pc_descend (pc_apply (ORename p q) fs) q = Some n /\
  pc_descend (pc_apply (ORename p q) fs) p = None /\
  forall r, pc_is_prefix p r = false -> pc_is_prefix r p = false ->
            pc_is_prefix q r = false -> pc_is_prefix r q = false ->
            pc_descend (pc_apply (ORename p q) fs) r = pc_descend fs r.
Proof.
  intros fs p q n Hp Hq Hpq Hpar Hno Hn. cbn [pc_apply]. unfold pc_exists. rewrite Hp, Hq, Hpq, Hpar, Hno, Hn. cbn [andb negb].
  assert (Hpne : p <> []) by now apply pc_path_valid_nonempty.
  assert (Hqne : q <> []) by now apply pc_path_valid_nonempty.
  assert (Hpar' : pc_parent_is_dir (pc_update p None fs) q = true).
  { unfold pc_parent_is_dir in *. destruct (pc_descend fs (removelast q)) as [[es| |]|] eqn:E; try discriminate Hpar.
    destruct (pc_update_spares p None fs (removelast q)) as [es' ->]; [now apply pc_is_prefix_removelast | now exists es | reflexivity]. }
  assert (Hqp : pc_is_prefix q p = false).
  { destruct (pc_is_prefix q p) eqn:E; [|reflexivity]. apply pc_is_prefix_app in E as [k ->].
    rewrite pc_descend_app, Hno in Hn. discriminate Hn. }
  split; [|split].
  - now apply pc_update_at.
  - rewrite pc_update_frame by assumption. apply pc_update_at; [exact Hpne|]. now apply (pc_descend_parent fs p n).
  - intros r H1 H2 H3 H4. rewrite pc_update_frame by assumption. now apply pc_update_frame.
Qed.

(* ---------------------------------------------------------------- resolving once is not enough *)
Lemma pc_resolve_once_refuted :
  exists cwd api fs0 upd0 pre rq post st p dir,
    pc_dir_at fs0 [] /\ pc_dir_at fs0 cwd /\ Forall (pc_ev_spares cwd) pre /\
    nth_error (pc_run_once cwd api fs0 (pc_new_once fs0 cwd upd0) (pre ++ EReq rq :: post)) (pc_requests pre)
      = Some (Some (st, [p])) /\
    (exists d, snd (pc_after (fs0, upd0) pre) = Some d /\ pc_canon (fst (pc_after (fs0, upd0) pre)) cwd d = inr dir) /\
    ~ (exists k, p = dir ++ k) /\
    nth_error (pc_run cwd api (fs0, upd0) (pre ++ EReq rq :: post)) (pc_requests pre) = Some (Some (400, [])).
Proof.
  exists [], pc_wit_api, pc_wit_fs, pc_wit_upd, pc_wit_pre, pc_wit_one, pc_wit_post, 200, pc_wit_day1_one, pc_wit_day2.
  split; [eexists; reflexivity|]. split; [eexists; reflexivity|].
  split; [repeat constructor|].
  split; [vm_compute; reflexivity|].
  split; [eexists; split; vm_compute; reflexivity|].
  split; [|vm_compute; reflexivity].
  intros [k Hk]. vm_compute in Hk. discriminate Hk.
Qed.

(* ---------------------------------------------------------------- names that are not UTF-8 *)
(* the text of a path carries every component's octets as they are *)
Lemma pc_render_component : forall p c, In c p -> exists a b, pc_render p = a ++ c_slash :: c ++ b.
Proof.
  intros p c Hin. apply in_split in Hin as (l1 & l2 & ->).
  exists (flat_map (fun d => c_slash :: d) l1), (flat_map (fun d => c_slash :: d) l2).
  unfold pc_render. destruct (l1 ++ c :: l2) eqn:E; [now destruct l1|]. rewrite <- E.
  rewrite flat_map_app. reflexivity.
Qed.

(* A request whose RESOLVED location has a component that is not UTF-8 (reached
   through a link, or because the update directory itself resolves to such a
   name), inside the directory: answered like any other accepted request, the
   path put on the queue carries the octets of that component as the file
   system has them; what is shown of it is the lossy text. *)
Lemma pc_non_utf8_target_answered : forall cwd api s pre rq post d f dir k c,
  pc_to_queue api rq ->
  snd (pc_after s pre) = Some d ->
  pc_get_file (rq_query rq) = PExact f -> pc_is_abs f = false ->
  pc_canon (fst (pc_after s pre)) cwd d = inr dir ->
  pc_canon (fst (pc_after s pre)) cwd (pc_push (pc_render dir) f) = inr (dir ++ k) ->
  In c (dir ++ k) -> ~ pc_is_utf8 c ->
  nth_error (pc_run cwd api s (pre ++ EReq rq :: post)) (pc_requests pre) =
    Some (Some (pc_status (rq_mode rq), [dir ++ k])) /\
  (exists a b, pc_entry_text (dir ++ k) = a ++ c_slash :: c ++ b) /\
  pc_shown (dir ++ k) = pc_utf8_lossy (pc_entry_text (dir ++ k)).
Proof.
  intros cwd api s pre rq post d f dir k c Hq Hu Hf Ha Hd Hfull Hin _.
  split; [now apply (pc_history_inside_accepted cwd api s pre rq post d f dir k)|].
  split; [now apply pc_render_component | reflexivity].
Qed.
