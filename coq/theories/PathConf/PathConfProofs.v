(* Proofs about the model of the MRT queue endpoint (PathConfModel.v). *)
From Coq Require Import NArith List Bool Lia.
From RV Require Import PathConf.PathConfModel.
Import ListNotations.
Local Open Scope N_scope.

(* ---------------------------------------------------------------- equality tests *)
Lemma pc_bytes_eqb_eq : forall a b, pc_bytes_eqb a b = true <-> a = b.
Proof.
  induction a as [|x a IH]; destruct b as [|y b]; cbn; split; intro H; try reflexivity; try discriminate.
  - apply andb_true_iff in H as [Hxy Hab]. apply N.eqb_eq in Hxy. apply IH in Hab. now subst.
  - injection H as -> ->. apply andb_true_iff; split; [apply N.eqb_refl | now apply IH].
Qed.

Lemma pc_path_eqb_eq : forall a b, pc_path_eqb a b = true <-> a = b.
Proof.
  induction a as [|x a IH]; destruct b as [|y b]; cbn; split; intro H; try reflexivity; try discriminate.
  - apply andb_true_iff in H as [Hxy Hab]. apply pc_bytes_eqb_eq in Hxy. apply IH in Hab. now subst.
  - injection H as -> ->. apply andb_true_iff; split; [now apply pc_bytes_eqb_eq | now apply IH].
Qed.

(* ---------------------------------------------------------------- ancestors = component prefixes *)
Lemma pc_anc_rev_spec : forall r d, In d (pc_anc_rev r) <-> exists k, rev r = d ++ k.
Proof.
  induction r as [|x r IH]; intro d; cbn [pc_anc_rev rev].
  - split.
    + intros [H | []]. exists []. now rewrite <- H.
    + intros [k Hk]. left. symmetry in Hk. apply app_eq_nil in Hk as [Hd _]. now subst.
  - split.
    + intros [H | H].
      * exists []. now rewrite app_nil_r.
      * apply IH in H as [k Hk]. exists (k ++ [x]). now rewrite Hk, app_assoc.
    + intros [k Hk]. destruct (rev k) as [|y k'] eqn:Ek.
      * left. apply (f_equal (@rev _)) in Ek. rewrite rev_involutive in Ek. cbn in Ek. subst k.
        now rewrite app_nil_r in Hk.
      * right. apply IH. apply (f_equal (@rev _)) in Ek. rewrite rev_involutive in Ek. cbn in Ek. subst k.
        rewrite app_assoc in Hk. apply app_inj_tail in Hk as [Hk _]. now exists (rev k').
Qed.

Lemma pc_ancestors_prefix : forall d p, In d (pc_ancestors p) <-> exists k, p = d ++ k.
Proof.
  intros d p. unfold pc_ancestors. rewrite pc_anc_rev_spec, rev_involutive. reflexivity.
Qed.

Lemma pc_anc_check : forall dir full,
  existsb (fun a => pc_path_eqb a dir) (pc_ancestors full) = true <-> exists k, full = dir ++ k.
Proof.
  intros dir full. rewrite existsb_exists. split.
  - intros [a [Hin Heq]]. apply pc_path_eqb_eq in Heq. subst a. now apply pc_ancestors_prefix.
  - intros H. exists dir. split; [now apply pc_ancestors_prefix | now apply pc_path_eqb_eq].
Qed.

(* ---------------------------------------------------------------- descending the tree *)
Lemma pc_descend_app : forall p q n,
  pc_descend n (p ++ q) = match pc_descend n p with Some m => pc_descend m q | None => None end.
Proof.
  induction p as [|c p IH]; intros q n; cbn; [reflexivity|].
  destruct n as [es| |t]; try reflexivity.
  destruct (pc_assoc c es) as [n'|]; [apply IH | reflexivity].
Qed.

Definition pc_dir_at (root : pc_node) (p : pc_path) : Prop := exists es, pc_descend root p = Some (PDir es).

(* a path that names an existing node that is not a symbolic link, reached through real directories only *)
Definition pc_physical (root : pc_node) (p : pc_path) : Prop :=
  exists n, pc_descend root p = Some n /\ pc_is_link n = false.

Lemma pc_dir_at_physical : forall root p, pc_dir_at root p -> pc_physical root p.
Proof. intros root p [es H]. exists (PDir es). now split. Qed.

Lemma pc_descend_one_dir : forall m c n, pc_descend m [c] = Some n -> exists es, m = PDir es.
Proof. intros m c n H. destruct m as [es| |t]; cbn in H; try discriminate. now exists es. Qed.

Lemma pc_dir_at_removelast : forall root cur, pc_dir_at root cur -> pc_dir_at root (removelast cur).
Proof.
  intros root cur [es H]. destruct cur as [|c cur']; [now exists es|].
  remember (c :: cur') as cur eqn:E.
  assert (Hne : cur <> []) by (rewrite E; intro X; discriminate X).
  rewrite (app_removelast_last [] Hne) in H. rewrite pc_descend_app in H.
  match type of H with match ?x with _ => _ end = _ => destruct x as [m|] eqn:Em end; [|discriminate H].
  apply pc_descend_one_dir in H as [es' ->]. now exists es'.
Qed.

(* ---------------------------------------------------------------- realpath: unfolding *)
Lemma pc_walk_nil : forall root b cur, pc_walk root b [] cur = inr cur.
Proof. intros root b cur. destruct b; reflexivity. Qed.

Lemma pc_walk_cons : forall root b c rest cur,
  pc_walk root b (c :: rest) cur =
    if pc_is_dot c then pc_walk root b rest cur
    else if pc_is_dotdot c then pc_walk root b rest (removelast cur)
    else match pc_descend root (cur ++ [c]) with
         | None => inl ENOENT
         | Some (PDir _) => pc_walk root b rest (cur ++ [c])
         | Some PFile => match rest with [] => inr (cur ++ [c]) | _ => inl ENOTDIR end
         | Some (PLink t) =>
           match b with
           | O => inl ELOOP
           | S b' => pc_walk root b' (pc_comps t ++ rest) (if pc_is_abs t then [] else cur)
           end
         end.
Proof. intros root b c rest cur. destruct b; reflexivity. Qed.

(* ---------------------------------------------------------------- realpath returns physical paths *)
Lemma pc_walk_physical : forall root, pc_dir_at root [] ->
  forall b todo cur p, pc_dir_at root cur -> pc_walk root b todo cur = inr p -> pc_physical root p.
Proof.
  intros root Hroot. induction b as [|b IHb].
  - induction todo as [|c rest IHt]; intros cur p Hcur H.
    + rewrite pc_walk_nil in H. injection H as <-. now apply pc_dir_at_physical.
    + rewrite pc_walk_cons in H.
      destruct (pc_is_dot c); [now apply (IHt cur)|].
      destruct (pc_is_dotdot c); [apply (IHt (removelast cur)); [now apply pc_dir_at_removelast | exact H]|].
      destruct (pc_descend root (cur ++ [c])) as [[es| |t]|] eqn:Ed; try discriminate H.
      * apply (IHt (cur ++ [c])); [now exists es | exact H].
      * destruct rest; [|discriminate H]. injection H as <-. exists PFile. now split.
  - induction todo as [|c rest IHt]; intros cur p Hcur H.
    + rewrite pc_walk_nil in H. injection H as <-. now apply pc_dir_at_physical.
    + rewrite pc_walk_cons in H.
      destruct (pc_is_dot c); [now apply (IHt cur)|].
      destruct (pc_is_dotdot c); [apply (IHt (removelast cur)); [now apply pc_dir_at_removelast | exact H]|].
      destruct (pc_descend root (cur ++ [c])) as [[es| |t]|] eqn:Ed; try discriminate H.
      * apply (IHt (cur ++ [c])); [now exists es | exact H].
      * destruct rest; [|discriminate H]. injection H as <-. exists PFile. now split.
      * apply (IHb (pc_comps t ++ rest) (if pc_is_abs t then [] else cur)); [|exact H].
        destruct (pc_is_abs t); assumption.
Qed.

Lemma pc_canon_physical : forall root cwd s p,
  pc_dir_at root [] -> pc_dir_at root cwd -> pc_canon root cwd s = inr p -> pc_physical root p.
Proof.
  intros root cwd s p Hroot Hcwd H. unfold pc_canon in H.
  destruct (existsb (N.eqb 0) s); [discriminate H|]. destruct s as [|c s']; [discriminate H|].
  eapply pc_walk_physical; [exact Hroot | | exact H]. destruct (pc_is_abs (c :: s')); assumption.
Qed.

(* ---------------------------------------------------------------- the decision of Processor::queue *)
Lemma pc_decide_accept_iff : forall root cwd upd prm full,
  pc_decide root cwd upd prm = PAccept full <->
  exists d f dir k,
    upd = Some d /\ prm = PExact f /\ pc_is_abs f = false /\
    pc_canon root cwd d = inr dir /\
    pc_canon root cwd (pc_push (pc_render dir) f) = inr full /\
    full = dir ++ k.
Proof.
  intros root cwd upd prm full. unfold pc_decide. split.
  - destruct upd as [d|]; [|discriminate].
    destruct (pc_canon root cwd d) as [e|dir] eqn:Ed; [discriminate|].
    destruct prm as [| |f]; try discriminate.
    destruct (pc_is_abs f) eqn:Ea; [discriminate|].
    destruct (pc_canon root cwd (pc_push (pc_render dir) f)) as [e|full'] eqn:Ef; [discriminate|].
    destruct (existsb _ _) eqn:Ex; [|discriminate].
    intro H. injection H as <-. apply pc_anc_check in Ex as [k Hk].
    exists d, f, dir, k. repeat split; assumption.
  - intros (d & f & dir & k & -> & -> & Ha & Hd & Hf & Hk).
    rewrite Hd, Ha, Hf.
    assert (Ex : existsb (fun a => pc_path_eqb a dir) (pc_ancestors full) = true) by (apply pc_anc_check; now exists k).
    now rewrite Ex.
Qed.

Lemma pc_decide_confined : forall root cwd d prm full,
  pc_decide root cwd (Some d) prm = PAccept full ->
  exists dir f k, prm = PExact f /\ pc_canon root cwd d = inr dir /\
    pc_canon root cwd (pc_push (pc_render dir) f) = inr full /\ full = dir ++ k.
Proof.
  intros root cwd d prm full H. apply pc_decide_accept_iff in H as (d' & f & dir & k & Hu & Hp & _ & Hd & Hf & Hk).
  injection Hu as <-. exists dir, f, k. repeat split; assumption.
Qed.

(* semantic confinement: the enqueued location is a node of the tree below the
   node of the resolved update directory, reached from it through real
   directory entries only; neither is a symbolic link *)
Lemma pc_decide_confined_physical : forall root cwd d prm full,
  pc_dir_at root [] -> pc_dir_at root cwd ->
  pc_decide root cwd (Some d) prm = PAccept full ->
  exists dir k nd n,
    pc_canon root cwd d = inr dir /\ full = dir ++ k /\
    pc_descend root dir = Some nd /\ pc_is_link nd = false /\
    pc_descend nd k = Some n /\ pc_is_link n = false.
Proof.
  intros root cwd d prm full Hroot Hcwd H.
  apply pc_decide_confined in H as (dir & f & k & _ & Hd & Hf & Hk).
  apply pc_canon_physical in Hd as Hpd; try assumption. destruct Hpd as (nd & Hnd & Hlnd).
  apply pc_canon_physical in Hf as Hpf; try assumption. destruct Hpf as (n & Hn & Hln).
  exists dir, k, nd, n. subst full. rewrite pc_descend_app, Hnd in Hn. repeat split; assumption.
Qed.

Lemma pc_decide_reject_cases : forall root cwd upd prm,
  (upd = None \/
   (exists d e, upd = Some d /\ pc_canon root cwd d = inl e) \/
   prm = PNone \/ prm = PFamily \/
   (exists f, prm = PExact f /\ pc_is_abs f = true) \/
   (exists d dir f e, upd = Some d /\ pc_canon root cwd d = inr dir /\ prm = PExact f /\
                      pc_canon root cwd (pc_push (pc_render dir) f) = inl e) \/
   (exists d dir f full, upd = Some d /\ pc_canon root cwd d = inr dir /\ prm = PExact f /\
                      pc_canon root cwd (pc_push (pc_render dir) f) = inr full /\
                      ~ (exists k, full = dir ++ k))) ->
  exists why, pc_decide root cwd upd prm = PReject why.
Proof.
  intros root cwd upd prm H.
  destruct (pc_decide root cwd upd prm) as [why|full] eqn:E; [now exists why|].
  exfalso. apply pc_decide_accept_iff in E as (d & f & dir & k & Hu & Hp & Ha & Hd & Hf & Hk).
  destruct H as [H | [H | [H | [H | [H | [H | H]]]]]].
  - congruence.
  - destruct H as (d' & e & Hu' & He). congruence.
  - congruence.
  - congruence.
  - destruct H as (f' & Hp' & Ha'). congruence.
  - destruct H as (d' & dir' & f' & e & Hu' & Hd' & Hp' & He).
    assert (d' = d) by congruence. subst d'. assert (dir' = dir) by congruence. subst dir'.
    assert (f' = f) by congruence. subst f'. congruence.
  - destruct H as (d' & dir' & f' & full' & Hu' & Hd' & Hp' & Hf' & Hn).
    assert (d' = d) by congruence. subst d'. assert (dir' = dir) by congruence. subst dir'.
    assert (f' = f) by congruence. subst f'. assert (full' = full) by congruence. subst full'.
    apply Hn. now exists k.
Qed.

(* the HTTP level: whatever is rejected is a 400 with nothing enqueued, and the
   only thing ever enqueued is the accepted resolved path, once *)
Lemma pc_handle_reject : forall root cwd api upd rq st enq why,
  pc_handle root cwd api upd rq = Some (st, enq) ->
  pc_decide root cwd upd (pc_get_file (rq_query rq)) = PReject why ->
  st = 400 /\ enq = [].
Proof.
  intros root cwd api upd rq st enq why H Hd. unfold pc_handle in H.
  destruct (negb (rq_get rq)); [discriminate H|].
  destruct (pc_strip_prefix api (pc_pct (rq_path rq))) as [action|]; [|discriminate H].
  destruct (pc_strip_prefix pc_queue_kw action); [|discriminate H].
  unfold pc_queue in H. rewrite Hd in H. injection H as <- <-. now split.
Qed.

Lemma pc_handle_enqueued : forall root cwd api upd rq st enq p,
  pc_handle root cwd api upd rq = Some (st, enq) -> In p enq ->
  enq = [p] /\ pc_decide root cwd upd (pc_get_file (rq_query rq)) = PAccept p.
Proof.
  intros root cwd api upd rq st enq p H Hin. unfold pc_handle in H.
  destruct (negb (rq_get rq)); [discriminate H|].
  destruct (pc_strip_prefix api (pc_pct (rq_path rq))) as [action|]; [|discriminate H].
  destruct (pc_strip_prefix pc_queue_kw action); [|discriminate H].
  unfold pc_queue in H.
  destruct (pc_decide root cwd upd (pc_get_file (rq_query rq))) as [why|full]; injection H as <- <-.
  - destruct Hin.
  - destruct Hin as [<- | []]. now split.
Qed.

Lemma pc_handle_no_dir : forall root cwd api rq st enq,
  pc_handle root cwd api None rq = Some (st, enq) -> st = 400 /\ enq = [].
Proof.
  intros root cwd api rq st enq H. eapply pc_handle_reject; [exact H | reflexivity].
Qed.
