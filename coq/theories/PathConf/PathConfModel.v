(* Model of src/units/mrt_file_in/api.rs (Processor::process_request / queue),
   of the pieces of src/http.rs it uses (extract_params / get_param /
   decoded_path) and of what stands behind std::fs::canonicalize on Linux:
   glibc realpath(3) over a file-system tree with directories, regular files
   and symbolic links.
   Definitions only; proofs are in PathConfProofs.v.

   Bytes are N. A name is a non-empty byte list without '/'; a (physical) path
   is the list of names from the root. *)
From Coq Require Import NArith List Bool String Ascii.
Import ListNotations.
Local Open Scope N_scope.

Definition pc_name := list N.
Definition pc_path := list pc_name.

(* ---------------------------------------------------------------- file system *)
Inductive pc_node :=
| PDir (entries : list (pc_name * pc_node))
| PFile
| PLink (target : list N).

Fixpoint pc_bytes_eqb (a b : list N) : bool :=
  match a, b with
  | [], [] => true
  | x :: a', y :: b' => (x =? y) && pc_bytes_eqb a' b'
  | _, _ => false
  end.

Fixpoint pc_path_eqb (a b : pc_path) : bool :=
  match a, b with
  | [], [] => true
  | x :: a', y :: b' => pc_bytes_eqb x y && pc_path_eqb a' b'
  | _, _ => false
  end.

Fixpoint pc_assoc (c : pc_name) (es : list (pc_name * pc_node)) : option pc_node :=
  match es with
  | [] => None
  | (k, n) :: r => if pc_bytes_eqb k c then Some n else pc_assoc c r
  end.

(* Follow REAL directory entries only: no symlink is ever crossed. *)
Fixpoint pc_descend (n : pc_node) (p : pc_path) : option pc_node :=
  match p with
  | [] => Some n
  | c :: r =>
    match n with
    | PDir es => match pc_assoc c es with Some n' => pc_descend n' r | None => None end
    | _ => None
    end
  end.

Definition pc_is_link (n : pc_node) : bool := match n with PLink _ => true | _ => false end.
Definition pc_is_dir (n : pc_node) : bool := match n with PDir _ => true | _ => false end.

(* ---------------------------------------------------------------- path strings *)
Definition c_slash : N := 47.
Definition c_dot : N := 46.

(* split on a separator, empty pieces kept *)
Fixpoint pc_split (sep : N) (s : list N) : list (list N) :=
  match s with
  | [] => [[]]
  | c :: r =>
    if c =? sep then [] :: pc_split sep r
    else match pc_split sep r with
         | [] => [[c]]
         | h :: t => (c :: h) :: t
         end
  end.

Definition pc_nonempty (s : list N) : bool := match s with [] => false | _ => true end.
Definition pc_is_abs (s : list N) : bool := match s with c :: _ => c =? c_slash | [] => false end.
Definition pc_ends_slash (s : list N) : bool := match rev s with c :: _ => c =? c_slash | [] => false end.

(* Components of a path string. Repeated slashes vanish; a trailing slash is
   resolved as if "." were appended (POSIX 4.13), which is how realpath
   demands a directory there. *)
Definition pc_comps (s : list N) : list pc_name :=
  filter pc_nonempty (pc_split c_slash s) ++ (if pc_ends_slash s then [[c_dot]] else []).

Definition pc_is_dot (c : pc_name) : bool := pc_bytes_eqb c [c_dot].
Definition pc_is_dotdot (c : pc_name) : bool := pc_bytes_eqb c [c_dot; c_dot].

Definition pc_render (p : pc_path) : list N :=
  match p with [] => [c_slash] | _ => flat_map (fun c => c_slash :: c) p end.

(* ---------------------------------------------------------------- realpath(3) *)
Inductive pc_err := ENOENT | ENOTDIR | ELOOP | EINVAL.

(* glibc stdlib/canonicalize.c: the resolved prefix [cur] is always a physical
   directory; components are consumed left to right; "." is skipped, ".." pops
   the resolved prefix (and stays at the root); any other component must exist
   below [cur]; a symbolic link is replaced by its target text followed by the
   rest (restarting from the root when the target is absolute) and costs one
   unit of the budget [b] (ELOOP when the 41st link is met); a regular file is
   only allowed as the very last component. *)
Fixpoint pc_walk (root : pc_node) (b : nat) {struct b} : list pc_name -> pc_path -> pc_err + pc_path :=
  fix go (todo : list pc_name) (cur : pc_path) {struct todo} : pc_err + pc_path :=
    match todo with
    | [] => inr cur
    | c :: rest =>
      if pc_is_dot c then go rest cur
      else if pc_is_dotdot c then go rest (removelast cur)
      else match pc_descend root (cur ++ [c]) with
           | None => inl ENOENT
           | Some (PDir _) => go rest (cur ++ [c])
           | Some PFile => match rest with [] => inr (cur ++ [c]) | _ => inl ENOTDIR end
           | Some (PLink t) =>
             match b with
             | O => inl ELOOP
             | S b' => pc_walk root b' (pc_comps t ++ rest) (if pc_is_abs t then [] else cur)
             end
           end
    end.

Definition pc_symlink_budget : nat := 40.  (* __eloop_threshold () on Linux *)

(* std::fs::canonicalize: CString conversion fails on an interior NUL
   (InvalidInput), realpath("") is ENOENT, relative paths start at the
   working directory. *)
Definition pc_canon (root : pc_node) (cwd : pc_path) (s : list N) : pc_err + pc_path :=
  if existsb (N.eqb 0) s then inl EINVAL
  else match s with
       | [] => inl ENOENT
       | _ => pc_walk root pc_symlink_budget (pc_comps s) (if pc_is_abs s then [] else cwd)
       end.

(* ---------------------------------------------------------------- PathBuf::push, Path::ancestors *)
Definition pc_need_sep (base : list N) : bool :=
  match rev base with c :: _ => negb (c =? c_slash) | [] => false end.

Definition pc_push (base f : list N) : list N :=
  if pc_is_abs f then f
  else if pc_need_sep base then base ++ c_slash :: f else base ++ f.

Fixpoint pc_anc_rev (r : pc_path) : list pc_path :=
  rev r :: match r with [] => [] | _ :: r' => pc_anc_rev r' end.

(* Path::ancestors(): the path itself, its parent, ..., the root *)
Definition pc_ancestors (p : pc_path) : list pc_path := pc_anc_rev (rev p).

(* ---------------------------------------------------------------- query string (http.rs, form_urlencoded) *)
Definition pc_hexval (c : N) : option N :=
  if (48 <=? c) && (c <=? 57) then Some (c - 48)
  else if (65 <=? c) && (c <=? 70) then Some (c - 55)
  else if (97 <=? c) && (c <=? 102) then Some (c - 87)
  else None.

(* percent_encoding::percent_decode: "%" followed by two hex digits is one
   byte, any other "%" is literal. (The lossy UTF-8 conversion that follows in
   the code never creates or removes an ASCII byte; see the assumptions.) *)
Fixpoint pc_pct (s : list N) : list N :=
  match s with
  | [] => []
  | c :: t =>
    if c =? 37 then
      match t with
      | h :: l :: r =>
        match pc_hexval h, pc_hexval l with
        | Some a, Some b => (a * 16 + b) :: pc_pct r
        | _, _ => c :: pc_pct t
        end
      | _ => c :: pc_pct t
      end
    else c :: pc_pct t
  end.

(* String::from_utf8_lossy (core::str::lossy::Utf8Chunks): valid UTF-8 is kept;
   every maximal invalid piece - a byte that cannot start a character (80..C1,
   F5..FF), or a lead byte with the continuation bytes that still fit it, cut
   where the first byte that does not fit stands (that byte starts the next
   piece) - becomes ONE U+FFFD (EF BF BD). Second bytes are restricted as in
   the Unicode table (no overlong forms, no surrogates, nothing above 10FFFF). *)
Definition pc_cont (b : N) : bool := (128 <=? b) && (b <=? 191).
Definition pc_repl : list N := [239; 191; 189].
Definition pc_second3 (b c : N) : bool :=
  if b =? 224 then (160 <=? c) && (c <=? 191)
  else if b =? 237 then (128 <=? c) && (c <=? 159)
  else pc_cont c.
Definition pc_second4 (b c : N) : bool :=
  if b =? 240 then (144 <=? c) && (c <=? 191)
  else if b =? 244 then (128 <=? c) && (c <=? 143)
  else pc_cont c.

Fixpoint pc_utf8_lossy (s : list N) : list N :=
  match s with
  | [] => []
  | b :: r =>
    if b <? 128 then b :: pc_utf8_lossy r
    else if (194 <=? b) && (b <=? 223) then
      match r with
      | c1 :: r1 => if pc_cont c1 then b :: c1 :: pc_utf8_lossy r1 else pc_repl ++ pc_utf8_lossy r
      | [] => pc_repl
      end
    else if (224 <=? b) && (b <=? 239) then
      match r with
      | c1 :: r1 =>
        if pc_second3 b c1 then
          match r1 with
          | c2 :: r2 => if pc_cont c2 then b :: c1 :: c2 :: pc_utf8_lossy r2 else pc_repl ++ pc_utf8_lossy r1
          | [] => pc_repl
          end
        else pc_repl ++ pc_utf8_lossy r
      | [] => pc_repl
      end
    else if (240 <=? b) && (b <=? 244) then
      match r with
      | c1 :: r1 =>
        if pc_second4 b c1 then
          match r1 with
          | c2 :: r2 =>
            if pc_cont c2 then
              match r2 with
              | c3 :: r3 => if pc_cont c3 then b :: c1 :: c2 :: c3 :: pc_utf8_lossy r3 else pc_repl ++ pc_utf8_lossy r2
              | [] => pc_repl
              end
            else pc_repl ++ pc_utf8_lossy r1
          | [] => pc_repl
          end
        else pc_repl ++ pc_utf8_lossy r
      | [] => pc_repl
      end
    else pc_repl ++ pc_utf8_lossy r
  end.

(* a byte string that is UTF-8: the lossy conversion leaves it alone *)
Definition pc_is_utf8 (s : list N) : Prop := pc_utf8_lossy s = s.

(* form_urlencoded::decode: '+' means space, then percent-decoding, then the
   LOSSY conversion to a String: what reaches the handler as a parameter name
   or value is always UTF-8. Names in the tree are any octets (no '/', no NUL):
   one that is not UTF-8 cannot be asked for by name - the request carries
   U+FFFD where the odd bytes were - but can be reached through a link. *)
Definition pc_form_decode (s : list N) : list N :=
  pc_utf8_lossy (pc_pct (map (fun c => if c =? 43 then 32 else c) s)).

(* cut at the first byte satisfying [f]: (before, found?, after) *)
Fixpoint pc_cut (f : N -> bool) (s : list N) : list N * bool * list N :=
  match s with
  | [] => ([], false, [])
  | c :: r => if f c then ([], true, r)
              else match pc_cut f r with (a, fd, b) => (c :: a, fd, b) end
  end.

Inductive pc_param := PNone | PFamily | PExact (v : list N).

Definition pc_file_kw : list N := [102; 105; 108; 101].   (* "file" *)

(* extract_params + get_param(.., "file"): pieces between '&' (empty ones
   skipped), name/value at the first '=', both decoded; the first parameter
   whose name up to the first '[' or ']' is "file" decides: Exact without
   bracket, Family with. *)
Fixpoint pc_find_file (pieces : list (list N)) : pc_param :=
  match pieces with
  | [] => PNone
  | pc :: r =>
    match pc_cut (N.eqb 61) pc with (rawname, _, rawvalue) =>
      match pc_cut (fun c => (c =? 91) || (c =? 93)) (pc_form_decode rawname) with (k, bracket, _) =>
        if pc_bytes_eqb k pc_file_kw
        then (if bracket then PFamily else PExact (pc_form_decode rawvalue))
        else pc_find_file r
      end
    end
  end.

Definition pc_get_file (query : option (list N)) : pc_param :=
  match query with
  | None => PNone
  | Some q => pc_find_file (filter pc_nonempty (pc_split 38 q))
  end.

(* ---------------------------------------------------------------- Processor::queue *)
Inductive pc_reason := RNoDir | RBadDir (e : pc_err) | RBadParam | RNotRelative | RBadFile (e : pc_err) | ROutside.
Inductive pc_outcome := PReject (why : pc_reason) | PAccept (full : pc_path).

Definition pc_decide (root : pc_node) (cwd : pc_path) (upd : option (list N)) (prm : pc_param) : pc_outcome :=
  match upd with
  | None => PReject RNoDir
  | Some d =>
    match pc_canon root cwd d with
    | inl e => PReject (RBadDir e)
    | inr dir =>
      match prm with
      | PNone | PFamily => PReject RBadParam
      | PExact f =>
        if pc_is_abs f then PReject RNotRelative
        else match pc_canon root cwd (pc_push (pc_render dir) f) with
             | inl e => PReject (RBadFile e)
             | inr full =>
               if existsb (fun a => pc_path_eqb a dir) (pc_ancestors full)
               then PAccept full else PReject ROutside
             end
      end
    end
  end.

(* what the unit does with the oneshot sender that comes with a queue entry *)
Inductive pc_mode := MOk | MErr | MDrop | MSilent.

Record pc_req := MkReq { rq_get : bool; rq_path : list N; rq_query : option (list N); rq_mode : pc_mode }.

Fixpoint pc_strip_prefix (pre s : list N) : option (list N) :=
  match pre with
  | [] => Some s
  | p :: pre' => match s with c :: s' => if c =? p then pc_strip_prefix pre' s' else None | [] => None end
  end.

Definition pc_queue_kw : list N := [113; 117; 101; 117; 101].   (* "queue" *)

(* (status, entries sent to the unit's queue) *)
Definition pc_queue (root : pc_node) (cwd : pc_path) (upd : option (list N)) (rq : pc_req) : N * list pc_path :=
  match pc_decide root cwd upd (pc_get_file (rq_query rq)) with
  | PReject _ => (400, [])
  | PAccept full => (match rq_mode rq with MOk | MSilent => 200 | MErr | MDrop => 400 end, [full])
  end.

(* process_request: None = "not mine" (the server then answers 404) *)
Definition pc_handle (root : pc_node) (cwd : pc_path) (api : list N) (upd : option (list N)) (rq : pc_req)
  : option (N * list pc_path) :=
  if negb (rq_get rq) then None
  else match pc_strip_prefix api (pc_pct (rq_path rq)) with
       | None => None
       | Some action =>
         match pc_strip_prefix pc_queue_kw action with
         | Some _ => Some (pc_queue root cwd upd rq)
         | None => None
         end
       end.

(* What travels on the queue is a PathBuf, i.e. TEXT: `queue_tx.send((full_path.clone(), ..))`
   where `full_path` is (after the shadowing `let full_path = match full_path.canonicalize()`)
   the canonical path. The unit resolves that text again later (File::open, and once
   more for the sha256), so besides WHERE the text resolves it matters whether the text
   is itself canonical: a text with a symbolic link, "." or ".." in it names a location
   that can move between the endpoint's check and the unit's use. *)
Definition pc_entry_text (full : pc_path) : list N := pc_render full.

(* ... and it is the PathBuf itself, octets as the file system has them, that is
   sent. What the endpoint SHOWS of it (debug line, "queued .. for processing",
   "processed ..: ..") is `full_path.to_string_lossy()`: total, U+FFFD where the
   octets are not UTF-8. *)
Definition pc_shown (full : pc_path) : list N := pc_utf8_lossy (pc_render full).

(* the text equals its own canonicalisation (byte for byte) *)
Definition pc_text_canonical (root : pc_node) (cwd : pc_path) (s : list N) : bool :=
  match pc_canon root cwd s with
  | inr p => pc_bytes_eqb (pc_render p) s
  | inl _ => false
  end.

(* the observation of one queue entry: where its text resolves (what File::open
   would open) and whether the text is canonical *)
Definition pc_observe (root : pc_node) (cwd : pc_path) (full : pc_path) : (pc_err + pc_path) * bool :=
  (pc_canon root cwd (pc_entry_text full), pc_text_canonical root cwd (pc_entry_text full)).

(* the reason as a small number, for the driver's diagnostics *)
Definition pc_why (root : pc_node) (cwd : pc_path) (upd : option (list N)) (rq : pc_req) : N :=
  match pc_decide root cwd upd (pc_get_file (rq_query rq)) with
  | PAccept _ => 0
  | PReject RNoDir => 1
  | PReject (RBadDir _) => 2
  | PReject RBadParam => 3
  | PReject RNotRelative => 4
  | PReject (RBadFile ENOENT) => 5
  | PReject (RBadFile ENOTDIR) => 6
  | PReject (RBadFile ELOOP) => 7
  | PReject (RBadFile EINVAL) => 8
  | PReject ROutside => 9
  end.

(* ---------------------------------------------------------------- specification vocabulary (used by the theorems) *)
Definition pc_dir_at (root : pc_node) (p : pc_path) : Prop := exists es, pc_descend root p = Some (PDir es).

(* a path that names an existing node that is not a symbolic link, reached
   through real directory entries only *)
Definition pc_physical (root : pc_node) (p : pc_path) : Prop :=
  exists n, pc_descend root p = Some n /\ pc_is_link n = false.

Definition pc_plain (c : pc_name) : Prop := pc_is_dot c = false /\ pc_is_dotdot c = false.
Definition pc_piece_ok (c : pc_name) : Prop := c <> [] /\ ~ In c_slash c.
Definition pc_name_ok (c : pc_name) : Prop := pc_piece_ok c /\ pc_plain c.

(* no name in the tree contains a NUL byte (true of every real file system) *)
Definition pc_nonul_names (root : pc_node) : Prop :=
  forall p n, pc_descend root p = Some n -> Forall (fun c => ~ In 0 c) p.

(* the percent-encoding of every byte: "%XY" with upper-case hex digits *)
Definition pc_hexdigit (n : N) : N := if n <? 10 then 48 + n else 55 + n.
Definition pc_enc_byte (b : N) : list N := [37; pc_hexdigit (b / 16); pc_hexdigit (b mod 16)].
Definition pc_enc (s : list N) : list N := flat_map pc_enc_byte s.

(* ================================================================ the file system as a STATE
   The unit runs for a long time; the directory tree changes under it (the
   `current -> 2024-10-01` link is re-pointed, a directory is moved away and a
   new one put in its place, files and links come and go). Processor::new only
   STORES the configured update_path text; Processor::queue resolves it on every
   request, in the tree as it is then. A history is a list of events: a change
   of the tree, a (re)build of the processor with an update_path, a request. *)

Inductive pc_kind := KDir | KFile | KLink (t : list N).

(* changes of the tree; every path is a PHYSICAL path from the root (real
   directory entries only, as [pc_descend] follows them) *)
Inductive pc_fsop :=
| OCreate (p : pc_path) (k : pc_kind)     (* mkdir / creat / symlink *)
| ORemove (p : pc_path)                   (* unlink, or remove a directory with all below it *)
| ORename (p q : pc_path)                 (* rename(2) onto a name that does not exist *)
| ORepoint (p : pc_path) (t : list N).    (* replace the symbolic link at p by one with target t *)

(* what a file system accepts as a name / a link target *)
Definition pc_name_valid (c : pc_name) : bool :=
  pc_nonempty c && negb (existsb (N.eqb c_slash) c) && negb (existsb (N.eqb 0) c)
  && negb (pc_is_dot c) && negb (pc_is_dotdot c).
Definition pc_path_valid (p : pc_path) : bool :=
  match p with [] => false | _ => forallb pc_name_valid p end.
Definition pc_target_valid (t : list N) : bool := pc_nonempty t && negb (existsb (N.eqb 0) t).
Definition pc_kind_valid (k : pc_kind) : bool := match k with KLink t => pc_target_valid t | _ => true end.
Definition pc_node_of_kind (k : pc_kind) : pc_node :=
  match k with KDir => PDir [] | KFile => PFile | KLink t => PLink t end.

(* set / delete one directory entry (the first with that name, which is the one [pc_assoc] sees) *)
Fixpoint pc_put (c : pc_name) (x : pc_node) (es : list (pc_name * pc_node)) : list (pc_name * pc_node) :=
  match es with
  | [] => [(c, x)]
  | (k, n) :: r => if pc_bytes_eqb k c then (k, x) :: r else (k, n) :: pc_put c x r
  end.
Fixpoint pc_del (c : pc_name) (es : list (pc_name * pc_node)) : list (pc_name * pc_node) :=
  match es with
  | [] => []
  | (k, n) :: r => if pc_bytes_eqb k c then pc_del c r else (k, n) :: pc_del c r
  end.

(* the tree with the node at the physical path p set to x (Some) or removed
   (None); unchanged when the way to p's parent does not exist *)
Fixpoint pc_update (p : pc_path) (v : option pc_node) (n : pc_node) {struct p} : pc_node :=
  match p with
  | [] => match v with Some x => x | None => n end
  | c :: r =>
    match n with
    | PDir es =>
      match r with
      | [] => PDir (match v with Some x => pc_put c x es | None => pc_del c es end)
      | _ => match pc_assoc c es with
             | Some m => PDir (pc_put c (pc_update r v m) es)
             | None => n
             end
      end
    | _ => n
    end
  end.

Definition pc_parent_is_dir (fs : pc_node) (p : pc_path) : bool :=
  match pc_descend fs (removelast p) with Some (PDir _) => true | _ => false end.
Definition pc_exists (fs : pc_node) (p : pc_path) : bool :=
  match pc_descend fs p with Some _ => true | None => false end.
Fixpoint pc_is_prefix (a b : pc_path) : bool :=
  match a, b with
  | [], _ => true
  | x :: a', y :: b' => pc_bytes_eqb x y && pc_is_prefix a' b'
  | _ :: _, [] => false
  end.

(* An operation that the file system would refuse (EEXIST, ENOENT, ENOTDIR,
   EINVAL: parent missing or not a real directory, name taken, name absent,
   a directory moved into itself, not a link) leaves the tree as it is. *)
Definition pc_apply (o : pc_fsop) (fs : pc_node) : pc_node :=
  match o with
  | OCreate p k =>
    if pc_path_valid p && pc_kind_valid k && pc_parent_is_dir fs p && negb (pc_exists fs p)
    then pc_update p (Some (pc_node_of_kind k)) fs else fs
  | ORemove p =>
    if pc_path_valid p && pc_exists fs p then pc_update p None fs else fs
  | ORename p q =>
    if pc_path_valid p && pc_path_valid q && negb (pc_is_prefix p q)
       && pc_parent_is_dir fs q && negb (pc_exists fs q)
    then match pc_descend fs p with
         | Some n => pc_update q (Some n) (pc_update p None fs)
         | None => fs
         end
    else fs
  | ORepoint p t =>
    if pc_path_valid p && pc_target_valid t
    then match pc_descend fs p with
         | Some (PLink _) => pc_update p (Some (PLink t)) fs
         | _ => fs
         end
    else fs
  end.

Inductive pc_ev :=
| EFs (o : pc_fsop)                   (* the tree changes *)
| ENew (upd : option (list N))        (* Processor::new: the unit is (re)started with this update_path *)
| EReq (rq : pc_req).                 (* one HTTP request *)

(* the tree, and what the processor holds: the update_path TEXT as configured *)
Definition pc_state := (pc_node * option (list N))%type.

(* One request is ONE step: both canonicalize calls of Processor::queue, and the
   look the observation takes at the entry, see the same tree. A change that
   lands between them (the time-of-check/time-of-use window inside a request)
   is outside this model. *)
Definition pc_step (cwd : pc_path) (api : list N) (s : pc_state) (e : pc_ev)
  : pc_state * option (option (N * list pc_path)) :=
  match e with
  | EFs o => ((pc_apply o (fst s), snd s), None)
  | ENew u => ((fst s, u), None)
  | EReq rq => (s, Some (pc_handle (fst s) cwd api (snd s) rq))
  end.

(* the answers to the requests of a history, in order *)
Fixpoint pc_run (cwd : pc_path) (api : list N) (s : pc_state) (evs : list pc_ev)
  : list (option (N * list pc_path)) :=
  match evs with
  | [] => []
  | e :: r =>
    match pc_step cwd api s e with
    | (s', Some a) => a :: pc_run cwd api s' r
    | (s', None) => pc_run cwd api s' r
    end
  end.

(* the state a history leads to (requests do not change it) *)
Fixpoint pc_after (s : pc_state) (evs : list pc_ev) : pc_state :=
  match evs with
  | [] => s
  | EFs o :: r => pc_after (pc_apply o (fst s), snd s) r
  | ENew u :: r => pc_after (fst s, u) r
  | EReq _ :: r => pc_after s r
  end.

Fixpoint pc_requests (evs : list pc_ev) : nat :=
  match evs with
  | [] => O
  | EReq _ :: r => S (pc_requests r)
  | _ :: r => pc_requests r
  end.

(* The model of realpath starts relative names at [cwd] and takes for granted
   that it is a directory: the working directory of the process and its
   ancestors are not renamed, removed or replaced while the unit runs. *)
Definition pc_op_spares (cwd : pc_path) (o : pc_fsop) : Prop :=
  match o with
  | OCreate p _ | ORemove p | ORepoint p _ => pc_is_prefix p cwd = false
  | ORename p q => pc_is_prefix p cwd = false /\ pc_is_prefix q cwd = false
  end.
Definition pc_ev_spares (cwd : pc_path) (e : pc_ev) : Prop :=
  match e with EFs o => pc_op_spares cwd o | _ => True end.

(* a request that is addressed to the queue endpoint *)
Definition pc_to_queue (api : list N) (rq : pc_req) : Prop :=
  rq_get rq = true /\
  exists action rest, pc_strip_prefix api (pc_pct (rq_path rq)) = Some action /\
                      pc_strip_prefix pc_queue_kw action = Some rest.

Definition pc_status (m : pc_mode) : N := match m with MOk | MSilent => 200 | MErr | MDrop => 400 end.

(* ---------------------------------------------------------------- the counterfactual: resolve ONCE
   A processor that canonicalises update_path when it is built and afterwards
   joins every name onto, and checks it against, that stored resolution. (If the
   path did not resolve when the processor was built, it refuses everything.)
   Not the code that exists: it is here to be refuted. *)
Definition pc_decide_once (root : pc_node) (cwd : pc_path) (stored : option (pc_err + pc_path)) (prm : pc_param) : pc_outcome :=
  match stored with
  | None => PReject RNoDir
  | Some (inl e) => PReject (RBadDir e)
  | Some (inr dir) =>
    match pc_canon root cwd (pc_render dir) with     (* `path.is_dir()` on the stored path *)
    | inl e => PReject (RBadDir e)
    | inr now =>
      match pc_descend root now with
      | Some (PDir _) =>
        match prm with
        | PNone | PFamily => PReject RBadParam
        | PExact f =>
          if pc_is_abs f then PReject RNotRelative
          else match pc_canon root cwd (pc_push (pc_render dir) f) with
               | inl e => PReject (RBadFile e)
               | inr full =>
                 if existsb (fun a => pc_path_eqb a dir) (pc_ancestors full)
                 then PAccept full else PReject ROutside
               end
        end
      | _ => PReject (RBadDir ENOTDIR)
      end
    end
  end.

Definition pc_handle_once (root : pc_node) (cwd : pc_path) (api : list N) (stored : option (pc_err + pc_path)) (rq : pc_req)
  : option (N * list pc_path) :=
  if negb (rq_get rq) then None
  else match pc_strip_prefix api (pc_pct (rq_path rq)) with
       | None => None
       | Some action =>
         match pc_strip_prefix pc_queue_kw action with
         | Some _ =>
           Some (match pc_decide_once root cwd stored (pc_get_file (rq_query rq)) with
                 | PReject _ => (400, [])
                 | PAccept full => (pc_status (rq_mode rq), [full])
                 end)
         | None => None
         end
       end.

Definition pc_new_once (root : pc_node) (cwd : pc_path) (upd : option (list N)) : option (pc_err + pc_path) :=
  match upd with None => None | Some d => Some (pc_canon root cwd d) end.

Fixpoint pc_run_once (cwd : pc_path) (api : list N) (fs : pc_node) (stored : option (pc_err + pc_path)) (evs : list pc_ev)
  : list (option (N * list pc_path)) :=
  match evs with
  | [] => []
  | EFs o :: r => pc_run_once cwd api (pc_apply o fs) stored r
  | ENew u :: r => pc_run_once cwd api fs (pc_new_once fs cwd u) r
  | EReq rq :: r => pc_handle_once fs cwd api stored rq :: pc_run_once cwd api fs stored r
  end.

(* ---------------------------------------------------------------- the witness: `current -> day1` re-pointed to `day2`
   /day1/one.mrt, /day2/two.mrt, /current -> day1; update_path = /current. *)
Definition pc_b (s : string) : list N := map N_of_ascii (list_ascii_of_string s).

Definition pc_wit_fs : pc_node :=
  PDir [(pc_b "day1", PDir [(pc_b "one.mrt", PFile)]);
        (pc_b "day2", PDir [(pc_b "two.mrt", PFile)]);
        (pc_b "current", PLink (pc_b "day1"))].
Definition pc_wit_api : list N := pc_b "/mrt/u/".
Definition pc_wit_upd : option (list N) := Some (pc_b "/current").
Definition pc_wit_rq (q : string) : pc_req := MkReq true (pc_b "/mrt/u/queue") (Some (pc_b q)) MOk.
Definition pc_wit_one : pc_req := pc_wit_rq "file=one.mrt".
Definition pc_wit_day1_one : pc_path := [pc_b "day1"; pc_b "one.mrt"].
Definition pc_wit_day2 : pc_path := [pc_b "day2"].
Definition pc_wit_pre : list pc_ev :=
  [EReq (pc_wit_rq "file=one.mrt"); EReq (pc_wit_rq "file=two.mrt"); EFs (ORepoint [pc_b "current"] (pc_b "day2"))].
Definition pc_wit_post : list pc_ev :=
  [EReq (pc_wit_rq "file=../day1/one.mrt"); EReq (pc_wit_rq "file=two.mrt")].
