(* The pipeline fed with UPDATEs as they are on the wire: the octets of a BGP UPDATE
   handed to a BMP peer (inside a Route Monitoring message) or to a BGP session are
   interpreted through the independent codec of C04 (Bgp/BgpModel.v: decode, then the
   route events) and become an ordinary operation of PipeModel. Definitions only.

   - An UPDATE that does not decode is [MRoute p None] / [WBgpUpdate b None]: the
     no-op of C01_parse_failure_is_noop - all or nothing.
   - One that decodes becomes the general form [UGen] of BmpModel.upd: every route
     event of the UPDATE is one payload, withdrawals first.
   - RibModel's opaque prefix ids are given by an injective numbering of C04's wire
     prefixes (length, octets), the four families by RibModel's family numbers, an
     attribute list by the numbering of its encoding. *)
From stdpp Require Import gmap.
From Coq Require Import NArith.
From RV Require Import Ingress.IngressModel Rib.RibModel Bmp.BmpModel Pipe.PipeModel.
From RV Require Bgp.BgpModel.

Local Open Scope N_scope.

(* RibModel: 0 = IPv4 unicast, 1 = IPv6 unicast, 2 = IPv4 multicast, 3 = IPv6 multicast *)
Definition fam_code (f : BgpModel.fam) : N :=
  match f with BgpModel.F4U => 0 | BgpModel.F6U => 1 | BgpModel.F4M => 2 | BgpModel.F6M => 3 end.

(* a list of octets as one number: little endian, closed by a 1 so that leading zeros count *)
Fixpoint bytes_code (bs : list N) : N :=
  match bs with
  | [] => 1
  | b :: r => b + 256 * bytes_code r
  end.

Definition pfx_code (p : BgpModel.pfx) : N := BgpModel.p_len p + 256 * bytes_code (BgpModel.p_bytes p).
Definition attrs_code (l : list BgpModel.attr) : N := bytes_code (BgpModel.enc_attrs l).

(* a family the state machine only ever compares (pending End-of-RIB markers) *)
Definition afisafi_code (afi safi : N) : N :=
  match BgpModel.fam_of afi safi with Some f => fam_code f | None => 1000 + afi * 256 + safi end.
Definition mp_fam_code (n : BgpModel.mpnlri) : N := afisafi_code (BgpModel.mp_afi n) (BgpModel.mp_safi n).

Definition route_code (fp : BgpModel.fam * BgpModel.pfx) : N * N := (fam_code fp.1, pfx_code fp.2).

(* the routes of an UPDATE as the decoder walks it (BgpModel.events): the first MP attribute, then the conventional field *)
Definition ann_routes (u : BgpModel.update) : list (BgpModel.fam * BgpModel.pfx) :=
  BgpModel.opt_routes (BgpModel.first_reach (BgpModel.u_attrs u)) ++ map (pair BgpModel.F4U) (BgpModel.u_nlri u).
Definition wd_routes (u : BgpModel.update) : list (BgpModel.fam * BgpModel.pfx) :=
  BgpModel.opt_routes (BgpModel.first_unreach (BgpModel.u_attrs u)) ++ map (pair BgpModel.F4U) (BgpModel.u_wd u).

(* routecore UpdateMessage::is_eor(): the UPDATE of 23 octets (IPv4 unicast), or the first
   MP_UNREACH_NLRI yields no NLRI (its family) - BgpModel.lax_eor with the family it names *)
Definition lax_eor_fam (u : BgpModel.update) : option N :=
  match u with
  | BgpModel.MkUpd [] [] [] => Some 0
  | _ => match BgpModel.first_unreach (BgpModel.u_attrs u) with
         | Some n => match BgpModel.mp_routes n with [] => Some (mp_fam_code n) | _ => None end
         | None => None
         end
  end.

(* announcements_vec(): the conventional NLRI come first there *)
Definition first_fam (u : BgpModel.update) : N :=
  match BgpModel.u_nlri u with
  | _ :: _ => 0
  | [] => match BgpModel.first_reach (BgpModel.u_attrs u) with Some n => mp_fam_code n | None => 0 end
  end.

Definition upd_of_update (u : BgpModel.update) : upd :=
  UGen (lax_eor_fam u) (BgpModel.carries_routes u) (first_fam u)
       (map route_code (ann_routes u)) (attrs_code (BgpModel.u_attrs u)) (map route_code (wd_routes u)).

(* the implementation's decoder mode (BgpModel.Code): where it is known to differ from the RFCs
   (C04's two findings in routecore) is C04's business; here the UPDATE is what the code sees *)
Definition raw_upd (bytes : list N) : option upd :=
  match BgpModel.decode BgpModel.Code bytes with Some u => Some (upd_of_update u) | None => None end.

Definition raw_bmp (k : N) (p : pph) (bytes : list N) : wop := WMsg k (MRoute p (raw_upd bytes)).
Definition raw_bgp (b : N) (bytes : list N) : wop := WBgpUpdate b (raw_upd bytes).

(* one route event of C04 as the payload that reaches the RIB *)
Definition pay_of_ev (id : N) (e : BgpModel.ev) : payload :=
  match e with
  | BgpModel.EvA f p attrs => MkPay (fam_code f, pfx_code p, id) true (attrs_code attrs)
  | BgpModel.EvW f p => MkPay (fam_code f, pfx_code p, id) false 0
  end.
Definition is_evw (e : BgpModel.ev) : bool := match e with BgpModel.EvW _ _ => true | BgpModel.EvA _ _ _ => false end.

(* named values of Props_C01.v: 10.9.0.0/16 announced for IPv4 multicast in an MP_REACH_NLRI, then
   withdrawn by an MP_UNREACH_NLRI of the same family; a third UPDATE whose MP_UNREACH_NLRI holds
   a good prefix followed by one of 200 bits *)
Definition raw_mc_attrs : list BgpModel.attr :=
  [BgpModel.AGen 64 1 [0]; BgpModel.AGen 64 2 [];
   BgpModel.AReach 128 [10;0;0;1] 0 (BgpModel.MpPfx BgpModel.F4M [BgpModel.MkPfx 16 [10;9]])].
Definition raw_mc_announce : list N := BgpModel.encode (BgpModel.MkUpd [] raw_mc_attrs []).
Definition raw_mc_withdraw : list N :=
  BgpModel.encode (BgpModel.MkUpd [] [BgpModel.AUnreach 128 (BgpModel.MpPfx BgpModel.F4M [BgpModel.MkPfx 16 [10;9]])] []).
Definition raw_bad_tail : list N :=
  BgpModel.hex_pdu ([0;0; 0;10] ++ [128; 15; 7; 0;1;2; 16;10;9; 200]).
Definition pfx_10_9 : N := pfx_code (BgpModel.MkPfx 16 [10;9]).
