(* The pipeline fed with BMP traffic AS OCTETS: the composition of the wire layer (Bmp/BmpWire.v:
   framing `stream`, the RFC 7854 codec `decode`; Bmp/BmpWireAbs.v: `abstract`, what the session
   state machine reads of a decoded message) with the pipeline (Pipe/PipeModel.v, PipeCompose.v).
   Definitions only; proofs are in PipeWireProofs.v.

   A history on the wire is a list of [xop]: an ordinary operation of the world (connect, disconnect,
   BGP sessions, queries, also BMP messages given as MODEL messages), or [XOctets k bs] - router k's
   connection delivers the octets bs. The octets may be anything (encodings, malformed, cut) and the
   deliveries may be cut anywhere (TCP segment boundaries do not respect message boundaries): what is
   left of an incomplete message stays pending for that connection and is put in front of the next
   delivery (io.rs bmp_read blocks in read_exact until the message is complete).

   What a delivery becomes (function [deliver]):
     - the pending octets followed by the new ones are cut into frames by BmpWire.stream
       (the length field of the common header, as bmp_read does);
     - a frame that decodes becomes the world operation [WMsg k (abstract m)];
     - a frame that does not decode is what the model calls unparsable (BmpWireAbs.wire_msg = None):
       the state machine is not entered, NO world operation, the read loop goes on;
     - a length field below 5 (BmpWire.SShort) ends the connection: [WDisconnect k], and whatever
       follows in the buffer is never read;
     - octets that end inside a message (BmpWire.SCut) are kept pending.
   A new connection of router k (WConnect k) or its end (WDisconnect k) discards what was pending.

   A WIRE IDENTITY at the octet level is (router key k, BmpWireAbs.ident p) for a per-peer header p:
   the fields routecore's PartialEq for PerPeerHeader compares - peer type, the whole flags octet,
   distinguisher, the address as address() reads it (4 octets when V = 0, 16 when V = 1), AS, BGP id;
   never the timestamp. In the model it is the pair (k, abs_pph p) : PipeModel.wid, and the two agree
   (PipeWireProofs.wire_identity, from C05_wire_peer_identity). *)
From stdpp Require Import gmap.
From Coq Require Import NArith.
From RV Require Import Ingress.IngressModel Rib.RibModel Bmp.BmpModel Pipe.PipeModel Pipe.PipeRaw Bmp.BmpWireAbs.
From RV Require Bgp.BgpModel Bmp.BmpWire Pipe.PipeCompose.

Local Open Scope N_scope.

(* ---------- what is left of a buffer after the complete frames: the octets of the incomplete message ---------- *)
(* the same walk as BmpWire.dec_stream; nothing is left after a length field below 5 (the connection is given up) *)
Fixpoint rest_stream (fuel : nat) (b : list N) : list N :=
  match fuel with
  | O => b
  | S fuel' =>
      match b with
      | [] => []
      | _ :: l3 :: l2 :: l1 :: l0 :: _ =>
          let len := BmpWire.u32 l3 l2 l1 l0 in
          if len <? 5 then []
          else if BgpModel.lenN b <? len then b
          else match BgpModel.take_n len b with
               | Some (_, rest) => rest_stream fuel' rest
               | None => b
               end
      | _ => b
      end
  end.
Definition leftover (b : list N) : list N := rest_stream (S (length b)) b.

(* ---------- one delivery ---------- *)
Definition item_ops (k : N) (i : BmpWire.sitem) : list wop :=
  match i with BmpWire.SMsg m => [WMsg k (abstract m)] | BmpWire.SBad _ => [] end.
Definition end_ops (k : N) (e : BmpWire.send) : list wop :=
  match e with BmpWire.SShort => [WDisconnect k] | _ => [] end.

(* the buffer of router k's connection (pending octets ++ new octets) -> world operations, octets left pending *)
Definition deliver (k : N) (buf : list N) : list wop * list N :=
  let '(items, e) := BmpWire.stream buf in
  (flat_map (item_ops k) items ++ end_ops k e, leftover buf).

(* ---------- histories on the wire ---------- *)
Inductive xop :=
| XOp (o : wop)                      (* an operation of PipeModel as it is *)
| XOctets (k : N) (bs : list N).     (* router k's connection delivers these octets *)

Definition pend := N -> list N.      (* router key -> octets of an incomplete message *)
Definition pend_none : pend := fun _ => [].
Definition pend_set (pd : pend) (k : N) (v : list N) : pend := fun j => if N.eqb j k then v else pd j.

Definition xstep (pd : pend) (x : xop) : pend * list wop :=
  match x with
  | XOp o => (match o with WConnect k | WDisconnect k => pend_set pd k [] | _ => pd end, [o])
  | XOctets k bs => let '(ops, rest) := deliver k (pd k ++ bs) in (pend_set pd k rest, ops)
  end.

Fixpoint wire_run (pd : pend) (h : list xop) : list wop :=
  match h with
  | [] => []
  | x :: h' => let '(pd', ops) := xstep pd x in ops ++ wire_run pd' h'
  end.

(* the message history the octets decode to *)
Definition wire_ops (h : list xop) : list wop := wire_run pend_none h.

(* the premises of the pipeline theorems, asked of the operations that are NOT octets only: whatever
   comes from octets meets them by construction (PipeWireProofs.wire_ops_disciplined, wire_ops_fams_ok) *)
Definition xdisciplined (h : list xop) : bool :=
  forallb (fun x => match x with XOp o => PipeCompose.op_ok o | XOctets _ _ => true end) h.
Definition xfams_ok (h : list xop) : bool :=
  forallb (fun x => match x with XOp o => PipeCompose.op_fams_ok o | XOctets _ _ => true end) h.

(* the per-peer header of a message, if its type has one *)
Definition msg_pph (m : BmpWire.wmsg) : option BmpWire.wpph :=
  match m with
  | BmpWire.WRoute p _ | BmpWire.WStats p _ _ | BmpWire.WPeerDown p _ _ | BmpWire.WPeerUp p _ _ _ _ _ _
  | BmpWire.WMirror p _ => Some p
  | BmpWire.WInit _ | BmpWire.WTerm _ => None
  end.

(* ---------- histories of wire MESSAGES, and their encoding ---------- *)
Inductive mop :=
| MOp (o : wop)
| MMsgs (k : N) (ms : list BmpWire.wmsg).   (* router k sends these messages *)

Definition enc_hist (h : list mop) : list xop :=
  map (fun x => match x with MOp o => XOp o | MMsgs k ms => XOctets k (concat (map BmpWire.encode ms)) end) h.
Definition abs_hist (h : list mop) : list wop :=
  flat_map (fun x => match x with MOp o => [o] | MMsgs k ms => map (fun m => WMsg k (abstract m)) ms end) h.
Definition mwf (h : list mop) : bool :=
  forallb (fun x => match x with MOp _ => true | MMsgs _ ms => forallb BmpWire.wf ms end) h.
Definition mdisciplined (h : list mop) : bool :=
  forallb (fun x => match x with MOp o => PipeCompose.op_ok o | MMsgs _ _ => true end) h.
Definition mfams_ok (h : list mop) : bool :=
  forallb (fun x => match x with MOp o => PipeCompose.op_fams_ok o | MMsgs _ _ => true end) h.

(* ---------- named values of Props_C01.v ---------- *)
(* Initiation, Peer Up, a route for 10.9.0.0/16 *)
Definition wire_ex_msgs : list BmpWire.wmsg :=
  [BmpWire.WInit [BmpWire.MkTlv 2 [114]];
   BmpWire.WPeerUp (ex_pph 0 1) [0;0;0;0;0;0;0;0;0;0;0;0;10;0;0;2] 179 4567 ex_open_plain ex_open_gr [];
   BmpWire.WRoute (ex_pph 0 2) ex_update].
Definition wire_ex_octets : list N := concat (map BmpWire.encode wire_ex_msgs).
(* the connection: the first ten octets (the delivery ends inside the Initiation message); the rest followed by a
   frame of type 9 (refused); a query; five octets whose length field says 4 (the connection is given up); a query *)
Definition wire_ex_hist : list xop :=
  [XOp (WConnect 0);
   XOctets 0 (take 10%nat wire_ex_octets);
   XOctets 0 (drop 10%nat wire_ex_octets ++ [3;0;0;0;6;9]);
   XOp (WQuery 0 pfx_10_9);
   XOctets 0 [3;0;0;0;4];
   XOp (WQuery 0 pfx_10_9)].
