(* Proofs about the pipeline fed with BMP octet streams (PipeWire.v): whatever the octets are, the
   operations they decode to meet the premises of the pipeline theorems by construction, so the end-to-end
   refinement of PipeCompose.v holds for histories given as octets; streams that are encodings decode to
   the messages that were encoded (round trip); how the octets are cut into deliveries does not matter. *)
From stdpp Require Import gmap.
From Coq Require Import NArith Lia.
From RV Require Import Ingress.IngressModel Rib.RibModel Rib.RibProofs Bmp.BmpModel Bmp.BmpProofs
  Pipe.PipeModel Pipe.PipeProofs Pipe.PipeCompose Pipe.PipeRaw Pipe.PipeRawProofs
  Bmp.BmpWireAbs Bmp.BmpWireAbsProofs Pipe.PipeWire.
From RV Require Bgp.BgpModel Bgp.BgpProofs Bmp.BmpWire Bmp.BmpWireProofs.

Local Open Scope N_scope.

(* ---------- a frame that decodes is BmpWireAbs.wire_bmp's operation, one that does not is no operation ---------- *)
Lemma item_ops_wire_bmp k fr :
  item_ops k (match BmpWire.decode fr with Some m => BmpWire.SMsg m | None => BmpWire.SBad fr end) =
  match wire_bmp k fr with Some o => [o] | None => [] end.
Proof. unfold wire_bmp, wire_msg. destruct (BmpWire.decode fr); reflexivity. Qed.

(* ---------- what comes from octets meets the premises of the pipeline theorems ---------- *)
Lemma abstract_fams_ok k m : op_fams_ok (WMsg k (abstract m)) = true.
Proof.
  destruct m; cbn [abstract op_fams_ok]; try reflexivity.
  unfold route_upd, raw_upd. destruct (route_pdu data); [|reflexivity].
  destruct (BgpModel.decode BgpModel.Code l); [apply raw_fams_ok|reflexivity].
Qed.

Lemma deliver_forall (P : wop -> bool) k buf :
  (forall m, P (WMsg k (abstract m)) = true) -> P (WDisconnect k) = true ->
  List.forallb P (deliver k buf).1 = true.
Proof.
  intros Hm Hd. unfold deliver. destruct (BmpWire.stream buf) as [items e]. cbn [fst].
  rewrite List.forallb_app. apply andb_true_intro. split.
  - induction items as [|[m|fr] items IH]; cbn [flat_map item_ops app List.forallb]; [reflexivity|rewrite Hm; exact IH|exact IH].
  - destruct e; cbn [end_ops List.forallb]; [reflexivity|rewrite Hd; reflexivity|reflexivity].
Qed.

Lemma wire_run_forall (P : wop -> bool) :
  (forall k m, P (WMsg k (abstract m)) = true) -> (forall k, P (WDisconnect k) = true) ->
  forall h pd, List.forallb (fun x => match x with XOp o => P o | XOctets _ _ => true end) h = true ->
  List.forallb P (wire_run pd h) = true.
Proof.
  intros Hm Hd. induction h as [|x h IH]; intros pd H; [reflexivity|].
  cbn [List.forallb] in H. apply andb_prop in H as [Hx Hh]. cbn [wire_run].
  destruct x as [o|k bs]; cbn [xstep].
  - cbn [app List.forallb]. rewrite Hx. apply IH, Hh.
  - pose proof (deliver_forall P k (pd k ++ bs) (Hm k) (Hd k)) as Hdl.
    destruct (deliver k (pd k ++ bs)) as [ops rest]. cbn [fst] in Hdl.
    rewrite List.forallb_app, Hdl. apply IH, Hh.
Qed.

Theorem wire_ops_disciplined h : xdisciplined h = true -> disciplined (wire_ops h) = true.
Proof. intros H. apply (wire_run_forall op_ok (fun _ _ => eq_refl) (fun _ => eq_refl) h pend_none H). Qed.

Theorem wire_ops_fams_ok h : xfams_ok h = true -> fams_ok (wire_ops h) = true.
Proof. intros H. apply (wire_run_forall op_fams_ok abstract_fams_ok (fun _ => eq_refl) h pend_none H). Qed.

Theorem wire_ops_premises h :
  (xdisciplined h = true -> disciplined (wire_ops h) = true) /\ (xfams_ok h = true -> fams_ok (wire_ops h) = true).
Proof. split; [apply wire_ops_disciplined|apply wire_ops_fams_ok]. Qed.

(* the pipeline is handed exactly the messages C05's session over the same octets (BmpWireAbs.wire_session) steps through *)
Lemma omap_id_fmap {A B} (f : A -> option B) l : omap id (map f l) = omap f l.
Proof. induction l as [|a l IH]; [reflexivity|]. cbn [map omap list_omap]. unfold id at 1. destruct (f a); rewrite IH; reflexivity. Qed.

Theorem deliver_session k octets :
  (deliver k octets).1 = map (WMsg k) (omap item_msg (BmpWire.stream octets).1) ++ end_ops k (BmpWire.stream octets).2 /\
  forall r rid s, (wire_session r rid s octets).1 = (sm_run r rid s (omap item_msg (BmpWire.stream octets).1)).1.
Proof.
  split.
  - unfold deliver. destruct (BmpWire.stream octets) as [items e]. cbn [fst snd]. f_equal.
    induction items as [|[m|fr] items IH]; [reflexivity|..]; cbn [flat_map item_ops app omap list_omap item_msg map]; rewrite IH; reflexivity.
  - intros r rid s. unfold wire_session. rewrite sess_run_state, omap_id_fmap. reflexivity.
Qed.

(* ---------- the composition ---------- *)
Theorem wire_stream_rib_answer h x i f p :
  xdisciplined h = true -> xfams_ok h = true -> N.of_nat (length (wire_ops h)) < two32 - 2 ->
  NoShare (w_ids (run_world (wire_ops h)).1) ->
  id_of (w_ids (run_world (wire_ops h)).1) x = Some i ->
  rib_lookup (w_rib (run_world (wire_ops h)).1) (f, p, i) =
  match s_rib (run_sworld (wire_ops h)).1 !! (f, p, x) with
  | Some (s, a) => Some (s && negb (downed (evs_of (world_updates (wire_ops h))) (f, p, i)), a)
  | None => None
  end.
Proof.
  intros Hd Hf Hl Hn Hi. apply pipe_rib_answer_all; auto using wire_ops_disciplined, wire_ops_fams_ok.
Qed.

Theorem wire_stream_ideal_is_replay h x i f p :
  xdisciplined h = true -> xfams_ok h = true -> N.of_nat (length (wire_ops h)) < two32 - 2 ->
  NoShare (w_ids (run_world (wire_ops h)).1) ->
  id_of (w_ids (run_world (wire_ops h)).1) x = Some i ->
  s_rib (run_sworld (wire_ops h)).1 !! (f, p, x) = spec_lookup (evs_of (world_updates (wire_ops h))) (f, p, i).
Proof.
  intros Hd Hf Hl Hn Hi. apply pipe_refines_ideal_all; auto using wire_ops_disciplined, wire_ops_fams_ok.
Qed.

(* ---------- the wire identity ---------- *)
Theorem wire_identity k k' p q : BmpWire.pph_wf p = true -> BmpWire.pph_wf q = true ->
  (((k, abs_pph p) : wid) = (k', abs_pph q) <-> k = k' /\ ident p = ident q).
Proof.
  intros Hp Hq. split.
  - intros E. assert (Ek : k = k') by exact (f_equal fst E). assert (H : abs_pph p = abs_pph q) by exact (f_equal snd E).
    split; [exact Ek|]. apply (abs_pph_ident p q Hp Hq), H.
  - intros [-> H]. apply (abs_pph_ident p q Hp Hq) in H. rewrite H. reflexivity.
Qed.

(* every per-peer header the decoder yields is well-formed: [wire_identity] speaks about all of them *)
Lemma u32_lt a b c d : a < 256 -> b < 256 -> c < 256 -> d < 256 -> BmpWire.u32 a b c d < 4294967296.
Proof. unfold BmpWire.u32. lia. Qed.

Lemma dec_pph_wf b p r : BmpWire.dec_pph b = Some (p, r) -> BgpModel.bytes_ok b = true -> BmpWire.pph_wf p = true.
Proof.
  unfold BmpWire.dec_pph. destruct b as [|ty [|fl r0]]; try discriminate.
  destruct (ty <=? 3) eqn:Ety; [|discriminate].
  destruct (BgpModel.take_n 8 r0) as [[d r1]|] eqn:H8; [|discriminate].
  destruct (BgpModel.take_n 16 r1) as [[a [|a3 [|a2 [|a1 [|a0 r2]]]]]|] eqn:H16; try discriminate.
  destruct (BgpModel.take_n 4 r2) as [[id [|s3 [|s2 [|s1 [|s0 [|u3 [|u2 [|u1 [|u0 rest]]]]]]]]]|] eqn:H4; try discriminate.
  intros [= <- <-] Hb.
  apply BgpProofs.take_n_inv in H8 as [-> L8]. apply BgpProofs.take_n_inv in H16 as [-> L16].
  apply BgpProofs.take_n_inv in H4 as [-> L4].
  repeat (rewrite ?BmpWireProofs.bytes_ok_cons_eq, ?BgpProofs.bytes_ok_app, ?andb_true_iff in Hb).
  destruct Hb as (Hty & Hfl & Hd & Ha & Ha3 & Ha2 & Ha1 & Ha0 & Hid & Hs3 & Hs2 & Hs1 & Hs0 & Hu3 & Hu2 & Hu1 & Hu0 & _).
  unfold BmpWire.pph_wf, BgpModel.byte_ok in *.
  cbn [BmpWire.wp_type BmpWire.wp_flags BmpWire.wp_dist BmpWire.wp_addr BmpWire.wp_as BmpWire.wp_id BmpWire.wp_sec BmpWire.wp_usec].
  rewrite !andb_true_iff, !N.ltb_lt, !N.eqb_eq, N.leb_le. rewrite N.ltb_lt in *. apply N.leb_le in Ety.
  repeat split; try assumption; apply u32_lt; assumption.
Qed.

Theorem decode_pph_wf b m p : BmpWire.decode b = Some m -> msg_pph m = Some p -> BmpWire.pph_wf p = true.
Proof.
  unfold BmpWire.decode. destruct b as [|ver [|l3 [|l2 [|l1 [|l0 [|ty body]]]]]]; try discriminate.
  destruct (_ && _) eqn:Ec; [|discriminate]. apply andb_prop in Ec as [_ Hb].
  do 6 (rewrite BmpWireProofs.bytes_ok_cons_eq in Hb; apply andb_prop in Hb as [_ Hb]).
  unfold BmpWire.dec_body.
  destruct ty as [|q]; [|do 3 (try destruct q as [q|q|])];
    try (destruct (BmpWire.dec_tlvs _ _); [intros [= <-]|]; discriminate);
    (destruct (BmpWire.dec_pph body) as [[p' r]|] eqn:Hp; [|discriminate]);
    pose proof (dec_pph_wf body p' r Hp Hb) as Hw;
    repeat match goal with
           | |- context [match ?x with _ => _ end] => destruct x eqn:?
           end; try discriminate; intros [= <-]; intros [= <-]; exact Hw.
Qed.

(* ---------- streams that are encodings ---------- *)
Lemma rest_stream_frame fuel fr rest v l3 l2 l1 l0 r :
  fr = v :: l3 :: l2 :: l1 :: l0 :: r -> BmpWire.u32 l3 l2 l1 l0 = BgpModel.lenN fr ->
  rest_stream (S fuel) (fr ++ rest) = rest_stream fuel rest.
Proof.
  intros Hfr Hu. assert (Hge : 5 <= BgpModel.lenN fr) by (rewrite Hfr, !BgpProofs.lenN_cons; lia).
  cbn [rest_stream]. remember (fr ++ rest) as b eqn:Eb. pose proof Eb as Eb'. rewrite Hfr in Eb. cbn [app] in Eb.
  rewrite Eb at 1. rewrite Hu. replace (BgpModel.lenN fr <? 5) with false by (symmetry; apply N.ltb_ge; lia).
  rewrite Eb'. replace (BgpModel.lenN (fr ++ rest) <? BgpModel.lenN fr) with false
    by (symmetry; apply N.ltb_ge; rewrite BgpProofs.lenN_app; lia).
  rewrite BgpProofs.take_n_app. reflexivity.
Qed.

Lemma rest_stream_encodings ms : forall fuel,
  (length (List.concat (List.map BmpWire.encode ms)) < fuel)%nat ->
  rest_stream fuel (List.concat (List.map BmpWire.encode ms)) = [].
Proof.
  induction ms as [|m ms IH]; intros fuel Hf; [destruct fuel; [inversion Hf|reflexivity]|].
  cbn [List.map] in *. rewrite BmpWireProofs.length_concat_cons in Hf.
  destruct fuel as [|fuel]; [inversion Hf|]. cbn [List.concat].
  destruct (BmpWireProofs.encode_shape m) as (a & b & c & d & He & Hu & Hl).
  rewrite (rest_stream_frame fuel (BmpWire.encode m) _ 3 a b c d (BmpWire.msg_code m :: BmpWire.enc_body m) He Hu).
  apply IH. pose proof (BmpWireProofs.encode_len_ge m) as Hge.
  assert (6 <= length (BmpWire.encode m))%nat by (unfold BgpModel.lenN in Hge; lia). lia.
Qed.

Lemma flat_map_item_ops_msgs k ms :
  flat_map (item_ops k) (List.map BmpWire.SMsg ms) = List.map (fun m => WMsg k (abstract m)) ms.
Proof. induction ms as [|m ms IH]; [reflexivity|]. cbn [List.map flat_map item_ops app]. rewrite IH. reflexivity. Qed.

Lemma deliver_encodings k ms : List.forallb BmpWire.wf ms = true ->
  deliver k (List.concat (List.map BmpWire.encode ms)) = (List.map (fun m => WMsg k (abstract m)) ms, []).
Proof.
  intros H. unfold deliver. rewrite BmpWireProofs.stream_of_encodings by exact H.
  unfold leftover. rewrite rest_stream_encodings by lia. cbn [end_ops]. rewrite app_nil_r, flat_map_item_ops_msgs. reflexivity.
Qed.

Lemma wire_run_encoded h : forall pd, (forall k, pd k = []) -> mwf h = true -> wire_run pd (enc_hist h) = abs_hist h.
Proof.
  unfold mwf, enc_hist, abs_hist.
  induction h as [|x h IH]; intros pd Hpd Hw; [reflexivity|].
  cbn [List.forallb] in Hw. apply andb_prop in Hw as [Hx Hh].
  cbn [List.map wire_run flat_map]. destruct x as [o|k ms]; cbn [xstep].
  - f_equal. apply IH; [|exact Hh]. intros k.
    destruct o; try apply Hpd; unfold pend_set; destruct (N.eqb k _); auto.
  - rewrite Hpd. cbn [app]. rewrite deliver_encodings by exact Hx. f_equal. apply IH; [|exact Hh].
    intros j. unfold pend_set. destruct (N.eqb j k); auto.
Qed.

Theorem wire_ops_encoded h : mwf h = true -> wire_ops (enc_hist h) = abs_hist h.
Proof. apply wire_run_encoded. reflexivity. Qed.

Lemma xdisciplined_enc h : xdisciplined (enc_hist h) = mdisciplined h.
Proof.
  unfold xdisciplined, mdisciplined, enc_hist. induction h as [|[o|k ms] h IH]; [reflexivity|..]; cbn [List.map List.forallb]; rewrite IH; reflexivity.
Qed.
Lemma xfams_ok_enc h : xfams_ok (enc_hist h) = mfams_ok h.
Proof.
  unfold xfams_ok, mfams_ok, enc_hist. induction h as [|[o|k ms] h IH]; [reflexivity|..]; cbn [List.map List.forallb]; rewrite IH; reflexivity.
Qed.

(* round trip: for streams that are encodings of well-formed wire messages, the code's RIB (fed with the OCTETS)
   answers as the ideal RIB of the messages that were encoded *)
Theorem wire_stream_roundtrip h x i f p :
  mwf h = true -> mdisciplined h = true -> mfams_ok h = true -> N.of_nat (length (abs_hist h)) < two32 - 2 ->
  NoShare (w_ids (run_world (abs_hist h)).1) ->
  id_of (w_ids (run_world (abs_hist h)).1) x = Some i ->
  rib_lookup (w_rib (run_world (wire_ops (enc_hist h))).1) (f, p, i) =
  match s_rib (run_sworld (abs_hist h)).1 !! (f, p, x) with
  | Some (s, a) => Some (s && negb (downed (evs_of (world_updates (abs_hist h))) (f, p, i)), a)
  | None => None
  end.
Proof.
  intros Hw Hd Hf Hl Hn Hi. pose proof (wire_ops_encoded h Hw) as E.
  pose proof (wire_stream_rib_answer (enc_hist h) x i f p) as A. rewrite E in A.
  rewrite E. apply A; try assumption; [rewrite xdisciplined_enc|rewrite xfams_ok_enc]; assumption.
Qed.

(* ---------- how the octets are cut into deliveries does not matter ---------- *)
Lemma fuel_irrelevant fuel : forall fuel' b, (length b < fuel)%nat -> (length b < fuel')%nat ->
  BmpWire.dec_stream fuel b = BmpWire.dec_stream fuel' b /\ rest_stream fuel b = rest_stream fuel' b.
Proof.
  induction fuel as [|fuel IH]; intros fuel' b H H'; [lia|]. destruct fuel' as [|fuel']; [lia|].
  cbn [BmpWire.dec_stream rest_stream].
  destruct b as [|v [|l3 [|l2 [|l1 [|l0 r]]]]]; try (split; reflexivity).
  destruct (BmpWire.u32 l3 l2 l1 l0 <? 5) eqn:E5; [split; reflexivity|].
  destruct (BgpModel.lenN (v :: l3 :: l2 :: l1 :: l0 :: r) <? BmpWire.u32 l3 l2 l1 l0); [split; reflexivity|].
  destruct (BgpModel.take_n _ _) as [[fr rest]|] eqn:Ht; [|split; reflexivity].
  apply BgpProofs.take_n_inv in Ht as [Hb Hl]. apply N.ltb_ge in E5.
  assert (Hr : (length rest + 5 <= length (v :: l3 :: l2 :: l1 :: l0 :: r))%nat).
  { rewrite Hb, app_length. unfold BgpModel.lenN in Hl. lia. }
  destruct (IH fuel' rest) as [-> ->]; [lia..|]. split; reflexivity.
Qed.

Lemma stream_app_gen fuel : forall a b, (length a < fuel)%nat ->
  (BmpWire.stream (a ++ b), leftover (a ++ b)) =
  let '(i1, e1) := BmpWire.dec_stream fuel a in
  match e1 with
  | BmpWire.SShort => ((i1, BmpWire.SShort), [])
  | _ => let '(i2, e2) := BmpWire.stream (rest_stream fuel a ++ b) in
         ((i1 ++ i2, e2), leftover (rest_stream fuel a ++ b))
  end.
Proof.
  induction fuel as [|fuel IH]; intros a b Hf; [lia|].
  destruct a as [|v [|l3 [|l2 [|l1 [|l0 r]]]]]; cbn [BmpWire.dec_stream rest_stream app].
  1-5: destruct (BmpWire.stream _) as [i2 e2]; reflexivity.
  destruct (BmpWire.u32 l3 l2 l1 l0 <? 5) eqn:E5.
  { rewrite BmpWireProofs.stream_short_length by (apply N.ltb_lt, E5).
    unfold leftover. cbn [length rest_stream]. rewrite E5. reflexivity. }
  destruct (BgpModel.lenN (v :: l3 :: l2 :: l1 :: l0 :: r) <? BmpWire.u32 l3 l2 l1 l0) eqn:Ecut.
  { destruct (BmpWire.stream _) as [i2 e2]. reflexivity. }
  destruct (BgpModel.take_n _ _) as [[fr rest]|] eqn:Ht.
  2: { destruct (BmpWire.stream _) as [i2 e2]. reflexivity. }
  apply BgpProofs.take_n_inv in Ht as [Ha Hl]. apply N.ltb_ge in E5.
  assert (exists r', fr = v :: l3 :: l2 :: l1 :: l0 :: r') as [r' Hfr].
  { unfold BgpModel.lenN in Hl. destruct fr as [|x0 [|x1 [|x2 [|x3 [|x4 r']]]]]; cbn [length] in Hl; try lia.
    cbn [app] in Ha. injection Ha as -> -> -> -> -> _. eexists; reflexivity. }
  assert (Hu : BmpWire.u32 l3 l2 l1 l0 = BgpModel.lenN fr) by (symmetry; exact Hl).
  assert (H5 : (5 <= length fr)%nat) by (unfold BgpModel.lenN in Hl; lia).
  assert (Hlen : (length (v :: l3 :: l2 :: l1 :: l0 :: r) = length fr + length rest)%nat) by (rewrite Ha; apply app_length).
  replace (v :: l3 :: l2 :: l1 :: l0 :: r ++ b) with (fr ++ (rest ++ b)) by (rewrite app_assoc, <- Ha; reflexivity).
  unfold BmpWire.stream at 1, leftover at 1.
  rewrite (BmpWireProofs.dec_stream_frame _ fr (rest ++ b) v l3 l2 l1 l0 r' Hfr Hu).
  rewrite (rest_stream_frame _ fr (rest ++ b) v l3 l2 l1 l0 r' Hfr Hu).
  assert (E1 : BmpWire.dec_stream (length (fr ++ rest ++ b)) (rest ++ b) = BmpWire.stream (rest ++ b)).
  { unfold BmpWire.stream. apply fuel_irrelevant; rewrite !app_length; lia. }
  assert (E2 : rest_stream (length (fr ++ rest ++ b)) (rest ++ b) = leftover (rest ++ b)).
  { unfold leftover. apply fuel_irrelevant; rewrite !app_length; lia. }
  rewrite E1, E2. pose proof (IH rest b ltac:(lia)) as IHr.
  destruct (BmpWire.dec_stream fuel rest) as [i1 e1].
  destruct e1; [destruct (BmpWire.stream (rest_stream fuel rest ++ b)) as [i2 e2]| |
                destruct (BmpWire.stream (rest_stream fuel rest ++ b)) as [i2 e2]];
    injection IHr as -> ->; reflexivity.
Qed.

(* one delivery of a ++ b = the delivery of a, then the delivery of what a left pending followed by b *)
Theorem deliver_app k a b : (BmpWire.stream a).2 <> BmpWire.SShort ->
  deliver k (a ++ b) = ((deliver k a).1 ++ (deliver k ((deliver k a).2 ++ b)).1, (deliver k ((deliver k a).2 ++ b)).2).
Proof.
  intros Hs. pose proof (stream_app_gen (S (length a)) a b ltac:(lia)) as H.
  unfold deliver. fold (BmpWire.stream a) in H. fold (leftover a) in H.
  destruct (BmpWire.stream a) as [i1 e1]. cbn [fst snd] in *.
  destruct e1; [|congruence|]; destruct (BmpWire.stream (leftover a ++ b)) as [i2 e2];
    injection H as -> ->; cbn [end_ops fst snd]; rewrite flat_map_app, app_nil_r, app_assoc; reflexivity.
Qed.

(* a length field below 5 ends the connection whatever follows *)
Theorem deliver_short k a b : (BmpWire.stream a).2 = BmpWire.SShort -> deliver k (a ++ b) = deliver k a.
Proof.
  intros Hs. pose proof (stream_app_gen (S (length a)) a b ltac:(lia)) as H.
  pose proof (stream_app_gen (S (length a)) a [] ltac:(lia)) as H0. rewrite app_nil_r in H0.
  unfold deliver. fold (BmpWire.stream a) in H, H0.
  destruct (BmpWire.stream a) as [i1 e1]. cbn [snd] in Hs. subst e1.
  injection H as -> ->. injection H0 as ->. reflexivity.
Qed.

Lemma wire_run_ext h : forall pd pd', (forall k, pd k = pd' k) -> wire_run pd h = wire_run pd' h.
Proof.
  induction h as [|x h IH]; intros pd pd' E; [reflexivity|]. cbn [wire_run].
  destruct x as [o|k bs]; cbn [xstep].
  - f_equal. apply IH. intros k. destruct o; try apply E; unfold pend_set; destruct (N.eqb k _); auto.
  - rewrite (E k). destruct (deliver k (pd' k ++ bs)) as [ops rest]. f_equal. apply IH.
    intros j. unfold pend_set. destruct (N.eqb j k); auto.
Qed.

(* two consecutive deliveries of one connection are the delivery of their concatenation: the decoded history
   does not depend on where the octets are cut (TCP segmentation) *)
Theorem deliveries_join pd k a b h : (BmpWire.stream (pd k ++ a)).2 <> BmpWire.SShort ->
  wire_run pd (XOctets k a :: XOctets k b :: h) = wire_run pd (XOctets k (a ++ b) :: h).
Proof.
  intros Hs. cbn [wire_run xstep]. rewrite (app_assoc (pd k) a b), (deliver_app k (pd k ++ a) b Hs).
  destruct (deliver k (pd k ++ a)) as [ops1 r1]. cbn [fst snd].
  assert (Ek : pend_set pd k r1 k = r1) by (unfold pend_set; rewrite N.eqb_refl; reflexivity). rewrite Ek.
  destruct (deliver k (r1 ++ b)) as [ops2 r2]. cbn [fst snd]. rewrite <- app_assoc. do 2 f_equal.
  apply wire_run_ext. intros j. unfold pend_set. destruct (N.eqb j k); reflexivity.
Qed.

(* ---------- the concrete history of Props_C01.v ---------- *)
Lemma wire_example_ok :
  xdisciplined wire_ex_hist = true /\ xfams_ok wire_ex_hist = true /\
  (exists u, wire_ops wire_ex_hist =
     [WConnect 0; WMsg 0 MInit; WMsg 0 (MPeerUp (abs_pph (ex_pph 0 1)) true); WMsg 0 (MRoute (abs_pph (ex_pph 0 2)) (Some u));
      WQuery 0 pfx_10_9; WDisconnect 0; WQuery 0 pfx_10_9]) /\
  abs_pph (ex_pph 0 1) = abs_pph (ex_pph 0 2) /\
  NoShare (w_ids (run_world (wire_ops wire_ex_hist)).1) /\
  id_of (w_ids (run_world (wire_ops wire_ex_hist)).1) (0, abs_pph (ex_pph 0 1)) = Some 3 /\
  (exists a, nth_error (run_world (wire_ops wire_ex_hist)).2 4%nat = Some (WoEntries [(3, true, a)]) /\
             last (run_world (wire_ops wire_ex_hist)).2 = Some (WoEntries [(3, false, a)]) /\
             last (run_sworld (wire_ops wire_ex_hist)).2 = Some (SoEntries [((0, abs_pph (ex_pph 0 1)), false, a)])).
Proof.
  split; [vm_compute; reflexivity|]. split; [vm_compute; reflexivity|].
  split; [eexists; vm_compute; reflexivity|]. split; [reflexivity|].
  split; [apply NoShare_dec; vm_compute; reflexivity|]. split; [vm_compute; reflexivity|].
  eexists. repeat split; vm_compute; reflexivity.
Qed.
