(* Composition theorem of the ingest pipeline: what the pipeline's RIB holds per
   ingress id, read back per WIRE IDENTITY, is the ideal RIB of the property
   (PipeModel.sworld), for every history of operations. The two recorded finding
   classes stay outside on purpose:
     K2 (known finding C02-1): two wire identities were given one ingress id - excluded
        by the premise that the identity asked about is the sole owner of its id;
     K3 (known finding C03-1): a session-wide withdrawal is sticky - it is exactly the
        difference between rib_lookup and spec_lookup (RibProofs.rib_lookup_spec).
   The proof is a simulation invariant between world and sworld, kept by every wstep/sstep pair. *)
From stdpp Require Import gmap.
From Coq Require Import NArith Lia.
From RV Require Import Ingress.IngressModel Ingress.IngressProofs Rib.RibModel Rib.RibProofs
  Bmp.BmpModel Bmp.BmpProofs Pipe.PipeModel Pipe.PipeProofs.

Local Open Scope N_scope.

(* ================================================================== *)
(* 1. the updates the pipeline applied to its RIB                      *)
(* ================================================================== *)

Definition out_updates (x : wout) : list update :=
  match x with WoStep (OUpdate u) _ => [u] | _ => [] end.

(* the Updates applied to w_rib, in order: read off the outputs of the run *)
Definition world_updates (ops : list wop) : list update :=
  flat_map out_updates (run_world ops).2.

Lemma run_world_snoc ops o :
  run_world (ops ++ [o]) =
  ((wstep (run_world ops).1 o).1, (run_world ops).2 ++ [(wstep (run_world ops).1 o).2]).
Proof.
  unfold run_world. rewrite fold_left_app. cbn [fold_left].
  destruct (fold_left _ ops (world_init, [])) as [w outs]. cbn [fst snd].
  destruct (wstep w o) as [w' x]. reflexivity.
Qed.

Lemma run_sworld_snoc ops o :
  run_sworld (ops ++ [o]) =
  ((sstep (run_sworld ops).1 o).1, (run_sworld ops).2 ++ [(sstep (run_sworld ops).1 o).2]).
Proof.
  unfold run_sworld. rewrite fold_left_app. cbn [fold_left].
  destruct (fold_left _ ops (sworld_init, [])) as [w outs]. cbn [fst snd].
  destruct (sstep w o) as [w' x]. reflexivity.
Qed.

Lemma flat_map_snoc {A B} (f : A -> list B) l x : flat_map f (l ++ [x]) = flat_map f l ++ f x.
Proof. rewrite flat_map_app. cbn. rewrite app_nil_r. reflexivity. Qed.

Lemma world_updates_snoc ops o :
  world_updates (ops ++ [o]) = world_updates ops ++ out_updates (wstep (run_world ops).1 o).2.
Proof. unfold world_updates. rewrite run_world_snoc. cbn [snd]. apply flat_map_snoc. Qed.

Lemma rib_run_app us vs : rib_run (us ++ vs) = fold_left rib_apply vs (rib_run us).
Proof. unfold rib_run. apply fold_left_app. Qed.

(* one step changes the RIB by exactly the updates it reports *)
Lemma wstep_rib w o :
  w_rib (wstep w o).1 = fold_left rib_apply (out_updates (wstep w o).2) (w_rib w).
Proof.
  destruct o as [k|k m|k|b|b u|b|af pfx|k]; cbn [wstep].
  - destruct (find_or_register _ _ _) as [rid r']. reflexivity.
  - destruct (w_routers w !! k) as [[rid s]|]; [|reflexivity].
    destruct (sm_step (w_reg w) rid s m) as [[r' s'] out]. cbn [fst snd w_rib out_updates].
    destruct out; reflexivity.
  - destruct (w_routers w !! k) as [[rid s]|]; reflexivity.
  - destruct (reg_register (w_reg w)) as [id r']. reflexivity.
  - destruct (w_bgp w !! b) as [[id c]|]; [|reflexivity]. destruct u; reflexivity.
  - destruct (w_bgp w !! b) as [[id c]|]; reflexivity.
  - reflexivity.
  - reflexivity.
Qed.

Theorem world_rib_is_run ops : w_rib (run_world ops).1 = rib_run (world_updates ops).
Proof.
  induction ops as [|o ops IH] using rev_ind; [reflexivity|].
  rewrite world_updates_snoc, rib_run_app, <- IH, run_world_snoc. cbn [fst]. apply wstep_rib.
Qed.

(* ================================================================== *)
(* 2. which id a wire identity was given                               *)
(* ================================================================== *)

Lemma id_of_nil x : id_of [] x = None. Proof. reflexivity. Qed.

Lemma id_of_cons y i l x :
  id_of ((y, i) :: l) x = if decide (y = x) then Some i else id_of l x.
Proof.
  unfold id_of. cbn [list_find]. cbn [fst].
  destruct (decide (y = x)) as [E|E]; [reflexivity|].
  destruct (list_find (fun z : wid * N => z.1 = x) l) as [[n [z j]]|]; reflexivity.
Qed.

Lemma id_of_app l1 l2 x :
  id_of (l1 ++ l2) x = match id_of l1 x with Some i => Some i | None => id_of l2 x end.
Proof.
  induction l1 as [|[y i] l1 IH]; [reflexivity|]. rewrite <- app_comm_cons, !id_of_cons.
  destruct (decide (y = x)); [reflexivity|exact IH].
Qed.

Lemma id_of_elem l x i : id_of l x = Some i -> (x, i) ∈ l.
Proof.
  induction l as [|[y j] l IH]; [discriminate|]. rewrite id_of_cons.
  destruct (decide (y = x)) as [->|Hne]; [intros [= ->]; left|intros H; right; apply IH, H].
Qed.

Lemma note_id_test l x :
  existsb (fun z : wid * N => bool_decide (z.1 = x)) l = match id_of l x with Some _ => true | None => false end.
Proof.
  induction l as [|[y j] l IH]; [reflexivity|]. cbn [existsb fst]. rewrite id_of_cons, IH.
  destruct (decide (y = x)) as [E|E]; [rewrite bool_decide_true by exact E|rewrite bool_decide_false by exact E]; reflexivity.
Qed.

Lemma note_id_old l x i j : id_of l x = Some j -> note_id l x i = l.
Proof. intros H. unfold note_id. rewrite note_id_test, H. reflexivity. Qed.

Lemma note_id_new l x i : id_of l x = None -> note_id l x i = l ++ [(x, i)].
Proof. intros H. unfold note_id. rewrite note_id_test, H. reflexivity. Qed.

Lemma id_of_snoc l x i y :
  id_of (l ++ [(x, i)]) y = match id_of l y with Some j => Some j | None => if decide (x = y) then Some i else None end.
Proof. rewrite id_of_app, id_of_cons, id_of_nil. reflexivity. Qed.

(* the identity asked about is the only one that was given this id *)
Definition sole (ids : list (wid * N)) (x : wid) (i : N) : Prop :=
  forall x', id_of ids x' = Some i -> x' = x.

Definition NoShare (ids : list (wid * N)) : Prop :=
  forall w1 w2 i, (w1, i) ∈ ids -> (w2, i) ∈ ids -> w1 = w2.

Lemma NoShare_sole ids x i : NoShare ids -> id_of ids x = Some i -> sole ids x i.
Proof. intros HN Hx x' Hx'. apply (HN x' x i); apply id_of_elem; assumption. Qed.

Lemma sole_snoc l x0 i0 x i : id_of l x = Some i -> sole (l ++ [(x0, i0)]) x i -> sole l x i.
Proof. intros Hx HS x' Hx'. apply HS. rewrite id_of_snoc, Hx'. reflexivity. Qed.

(* ================================================================== *)
(* 3. the ideal RIB and the last-event reading, pointwise              *)
(* ================================================================== *)

Notation irib := (gmap (N * N * wid) (bool * N)).
Definition wdn (v : option (bool * N)) : option (bool * N) :=
  match v with Some (_, a) => Some (false, a) | None => None end.

Lemma ideal_ann_lookup (rb : irib) w f p a key :
  ideal_ann rb w f p a !! key = if decide (key = (f, p, w)) then Some (true, a) else rb !! key.
Proof.
  unfold ideal_ann. destruct (decide (key = (f, p, w))) as [->|Hne];
    [apply lookup_insert|apply lookup_insert_ne; congruence].
Qed.

Lemma ideal_wd_lookup (rb : irib) w f p key :
  ideal_wd rb w f p !! key = if decide (key = (f, p, w)) then wdn (rb !! key) else rb !! key.
Proof.
  unfold ideal_wd. destruct (decide (key = (f, p, w))) as [->|Hne].
  - destruct (rb !! (f, p, w)) as [[s a]|] eqn:E; cbn [wdn]; [apply lookup_insert|exact E].
  - destruct (rb !! (f, p, w)) as [[s a]|]; [apply lookup_insert_ne; congruence|reflexivity].
Qed.

Lemma ideal_down_lookup (rb : irib) ws key :
  ideal_down rb ws !! key = if ws key.2 then wdn (rb !! key) else rb !! key.
Proof.
  unfold ideal_down. rewrite map_lookup_imap.
  destruct (rb !! key) as [[s a]|]; cbn; destruct (ws key.2); reflexivity.
Qed.

(* withdrawals then announcements of one UPDATE, seen at one key *)
Lemma fold_wd_lookup wd : forall (rb : irib) w wf key,
  fold_left (fun rb q => ideal_wd rb w wf q) wd rb !! key =
  fold_left (fun acc q => if decide (key = (wf, q, w)) then wdn acc else acc) wd (rb !! key).
Proof.
  induction wd as [|q wd IH]; intros rb w wf key; cbn [fold_left]; [reflexivity|].
  rewrite IH, ideal_wd_lookup. reflexivity.
Qed.

Lemma fold_ann_lookup ann : forall (rb : irib) w af a key,
  fold_left (fun rb q => ideal_ann rb w af q a) ann rb !! key =
  fold_left (fun acc q => if decide (key = (af, q, w)) then Some (true, a) else acc) ann (rb !! key).
Proof.
  induction ann as [|q ann IH]; intros rb w af a key; cbn [fold_left]; [reflexivity|].
  rewrite IH, ideal_ann_lookup. reflexivity.
Qed.

Lemma fold_spec_wd wd : forall wf i k acc,
  fold_left (spec_step k) (map (fun q => EWdr (wf, q, i)) wd) acc =
  fold_left (fun acc q => if decide ((wf, q, i) = k) then wdn acc else acc) wd acc.
Proof.
  induction wd as [|q wd IH]; intros wf i k acc; cbn [fold_left map]; [reflexivity|].
  rewrite IH. f_equal. cbn [spec_step]. unfold wdn.
  destruct (decide ((wf, q, i) = k)) as [E|E];
    [rewrite bool_decide_true by exact E|rewrite bool_decide_false by exact E]; reflexivity.
Qed.

Lemma fold_spec_ann ann : forall af a i k acc,
  fold_left (spec_step k) (map (fun q => EAnn (af, q, i) a) ann) acc =
  fold_left (fun acc q => if decide ((af, q, i) = k) then Some (true, a) else acc) ann acc.
Proof.
  induction ann as [|q ann IH]; intros af a i k acc; cbn [fold_left map]; [reflexivity|].
  rewrite IH. f_equal. cbn [spec_step].
  destruct (decide ((af, q, i) = k)) as [E|E];
    [rewrite bool_decide_true by exact E|rewrite bool_decide_false by exact E]; reflexivity.
Qed.

(* the same four for the general form: (family, prefix) pairs *)
Lemma fold_wd_lookup_g (wd : list (N * N)) : forall (rb : irib) w key,
  fold_left (fun rb (q : N * N) => ideal_wd rb w q.1 q.2) wd rb !! key =
  fold_left (fun acc (q : N * N) => if decide (key = (q.1, q.2, w)) then wdn acc else acc) wd (rb !! key).
Proof.
  induction wd as [|q wd IH]; intros rb w key; cbn [fold_left]; [reflexivity|].
  rewrite IH, ideal_wd_lookup. reflexivity.
Qed.

Lemma fold_ann_lookup_g (ann : list (N * N)) : forall (rb : irib) w a key,
  fold_left (fun rb (q : N * N) => ideal_ann rb w q.1 q.2 a) ann rb !! key =
  fold_left (fun acc (q : N * N) => if decide (key = (q.1, q.2, w)) then Some (true, a) else acc) ann (rb !! key).
Proof.
  induction ann as [|q ann IH]; intros rb w a key; cbn [fold_left]; [reflexivity|].
  rewrite IH, ideal_ann_lookup. reflexivity.
Qed.

Lemma fold_spec_wd_g (wd : list (N * N)) : forall i k acc,
  fold_left (spec_step k) (map (fun q : N * N => EWdr (q.1, q.2, i)) wd) acc =
  fold_left (fun acc (q : N * N) => if decide ((q.1, q.2, i) = k) then wdn acc else acc) wd acc.
Proof.
  induction wd as [|q wd IH]; intros i k acc; cbn [fold_left map]; [reflexivity|].
  rewrite IH. f_equal. cbn [spec_step]. unfold wdn.
  destruct (decide ((q.1, q.2, i) = k)) as [E|E];
    [rewrite bool_decide_true by exact E|rewrite bool_decide_false by exact E]; reflexivity.
Qed.

Lemma fold_spec_ann_g (ann : list (N * N)) : forall a i k acc,
  fold_left (spec_step k) (map (fun q : N * N => EAnn (q.1, q.2, i) a) ann) acc =
  fold_left (fun acc (q : N * N) => if decide ((q.1, q.2, i) = k) then Some (true, a) else acc) ann acc.
Proof.
  induction ann as [|q ann IH]; intros a i k acc; cbn [fold_left map]; [reflexivity|].
  rewrite IH. f_equal. cbn [spec_step].
  destruct (decide ((q.1, q.2, i) = k)) as [E|E];
    [rewrite bool_decide_true by exact E|rewrite bool_decide_false by exact E]; reflexivity.
Qed.

Lemma fold_ext {A B} (f g : A -> B -> A) l : (forall a b, f a b = g a b) -> forall a, fold_left f l a = fold_left g l a.
Proof. intros H. induction l as [|b l IH]; intros a; cbn [fold_left]; [reflexivity|]. rewrite H. apply IH. Qed.

Definition upd_evs (i : N) (u : upd) : list ev := map ev_of_payload (payloads_of i u).

(* same identity: the ideal update and the event replay do the same thing *)
Lemma ideal_update_same (rb : irib) x i u f p :
  fold_left (spec_step (f, p, i)) (upd_evs i u) (rb !! (f, p, x)) = ideal_update rb x u !! (f, p, x).
Proof.
  unfold upd_evs. destruct u as [fam|af ann a wf wd|lax c ff ann a wd]; cbn [payloads_of ideal_update map fold_left]; [reflexivity| |].
  - rewrite map_app, fold_left_app, !map_map. cbn [ev_of_payload p_active p_key p_attrs].
    rewrite fold_spec_ann, fold_spec_wd, fold_ann_lookup, fold_wd_lookup.
    set (acc := rb !! (f, p, x)). generalize acc. clear acc. intros acc.
    rewrite (fold_ext (fun acc q => if decide ((wf, q, i) = (f, p, i)) then wdn acc else acc)
                      (fun acc q => if decide ((f, p, x) = (wf, q, x)) then wdn acc else acc)).
    2:{ intros c0 q. destruct (decide ((wf, q, i) = (f, p, i))) as [E|E], (decide ((f, p, x) = (wf, q, x))) as [E'|E'];
          try reflexivity; exfalso; [apply E'|apply E]; congruence. }
    apply fold_ext. intros c0 q.
    destruct (decide ((af, q, i) = (f, p, i))) as [E|E], (decide ((f, p, x) = (af, q, x))) as [E'|E'];
      try reflexivity; exfalso; [apply E'|apply E]; congruence.
  - rewrite map_app, fold_left_app, !map_map. cbn [ev_of_payload p_active p_key p_attrs].
    rewrite fold_spec_ann_g, fold_spec_wd_g, fold_ann_lookup_g, fold_wd_lookup_g.
    set (acc := rb !! (f, p, x)). generalize acc. clear acc. intros acc.
    rewrite (fold_ext (fun acc (q : N * N) => if decide ((q.1, q.2, i) = (f, p, i)) then wdn acc else acc)
                      (fun acc (q : N * N) => if decide ((f, p, x) = (q.1, q.2, x)) then wdn acc else acc)).
    2:{ intros c0 q. destruct (decide ((q.1, q.2, i) = (f, p, i))) as [E|E], (decide ((f, p, x) = (q.1, q.2, x))) as [E'|E'];
          try reflexivity; exfalso; [apply E'|apply E]; congruence. }
    apply fold_ext. intros c0 q.
    destruct (decide ((q.1, q.2, i) = (f, p, i))) as [E|E], (decide ((f, p, x) = (q.1, q.2, x))) as [E'|E'];
      try reflexivity; exfalso; [apply E'|apply E]; congruence.
Qed.

Lemma fold_const {A B} (l : list B) (a : A) : fold_left (fun acc _ => acc) l a = a.
Proof. induction l; cbn; auto. Qed.

(* another identity: the ideal update does not touch it *)
Lemma ideal_update_other (rb : irib) x0 u f p x : x <> x0 -> ideal_update rb x0 u !! (f, p, x) = rb !! (f, p, x).
Proof.
  intros Hne. destruct u as [fam|af ann a wf wd|lax c ff ann a wd]; cbn [ideal_update]; [reflexivity| |].
  - rewrite fold_ann_lookup, fold_wd_lookup.
    rewrite (fold_ext _ (fun acc _ => acc)), fold_const.
    2:{ intros c0 q. destruct (decide ((f, p, x) = (af, q, x0))); [congruence|reflexivity]. }
    rewrite (fold_ext _ (fun acc _ => acc)), fold_const; [reflexivity|].
    intros c0 q. destruct (decide ((f, p, x) = (wf, q, x0))); [congruence|reflexivity].
  - rewrite fold_ann_lookup_g, fold_wd_lookup_g.
    rewrite (fold_ext _ (fun acc _ => acc)), fold_const.
    2:{ intros c0 q. destruct (decide ((f, p, x) = (q.1, q.2, x0))); [congruence|reflexivity]. }
    rewrite (fold_ext _ (fun acc _ => acc)), fold_const; [reflexivity|].
    intros c0 q. destruct (decide ((f, p, x) = (q.1, q.2, x0))); [congruence|reflexivity].
Qed.

(* another id: the events of the update do not touch its keys *)
Lemma upd_evs_other i0 u k acc : k_mui k <> i0 -> fold_left (spec_step k) (upd_evs i0 u) acc = acc.
Proof.
  intros Hne. apply fold_spec_other. intros e He. unfold upd_evs in He.
  apply elem_of_list_fmap in He as (pl & -> & Hpl). pose proof (payloads_of_mui _ _ _ Hpl) as Hm.
  unfold ev_of_payload. destruct (p_active pl); intros E; rewrite E in Hm; contradiction.
Qed.

Lemma spec_step_some k acc e : spec_step k acc e <> None -> acc <> None \/ exists a, e = EAnn k a.
Proof.
  destruct e as [k' a|k'|m fo]; cbn [spec_step].
  - destruct (decide (k' = k)) as [->|E]; [right; eauto|rewrite bool_decide_false by exact E; auto].
  - destruct (bool_decide (k' = k)); [|auto]. destruct acc as [[? ?]|]; [left; discriminate|congruence].
  - destruct (down_hits m fo k); [|auto]. destruct acc as [[? ?]|]; [left; discriminate|congruence].
Qed.

Lemma fold_spec_some k l : forall acc, fold_left (spec_step k) l acc <> None -> acc <> None \/ exists a, EAnn k a ∈ l.
Proof.
  induction l as [|e l IH]; intros acc H; cbn [fold_left] in H; [auto|].
  destruct (IH _ H) as [H1|[a Ha]]; [|right; exists a; right; exact Ha].
  destruct (spec_step_some _ _ _ H1) as [H2|[a ->]]; [auto|right; exists a; left].
Qed.

(* a list of session-wide withdrawals, seen at one key of a family below 4 *)
Lemma fold_spec_downs ms : forall f p i acc, f < 4 ->
  fold_left (spec_step (f, p, i)) (map (fun m => EDown m None) ms) acc =
  if bool_decide (i ∈ ms) then wdn acc else acc.
Proof.
  induction ms as [|m ms IH]; intros f p i acc Hf; cbn [map fold_left].
  - rewrite bool_decide_false by (intros H; inversion H). reflexivity.
  - rewrite IH by exact Hf. cbn [spec_step]. unfold down_hits, k_mui, k_fam. cbn [fst snd].
    rewrite (bool_decide_true (f < 4)) by exact Hf. rewrite andb_true_r.
    destruct (decide (i = m)) as [->|Hne].
    + rewrite (bool_decide_true (m = m)) by reflexivity. rewrite (bool_decide_true (m ∈ m :: ms)) by left.
      destruct (bool_decide (m ∈ ms)); destruct acc as [[? ?]|]; reflexivity.
    + rewrite (bool_decide_false (i = m)) by exact Hne.
      destruct (decide (i ∈ ms)) as [Hin|Hin].
      * rewrite !bool_decide_true; [reflexivity|right; exact Hin|exact Hin].
      * rewrite !bool_decide_false; [reflexivity| |exact Hin].
        intros [?|?]%elem_of_cons; contradiction.
Qed.

Lemma fold_spec_downs_none ms k : fold_left (spec_step k) (map (fun m => EDown m None) ms) None = None.
Proof. induction ms as [|m ms IH]; cbn [map fold_left spec_step]; [reflexivity|]. destruct (down_hits m None k); exact IH. Qed.

(* ---- the RIB half of the simulation invariant ---- *)
Record RibOK (ids : list (wid * N)) (rb : irib) (L : rkey -> option (bool * N)) : Prop := {
  rk_rib : forall x i f p, f < 4 -> id_of ids x = Some i -> sole ids x i -> rb !! (f, p, x) = L (f, p, i);
  rk_none : forall x f p, id_of ids x = None -> rb !! (f, p, x) = None;
  rk_L : forall f p i, L (f, p, i) <> None -> exists x, id_of ids x = Some i }.

Lemma RibOK_ext ids rb L L' : RibOK ids rb L -> (forall k, L' k = L k) -> RibOK ids rb L'.
Proof.
  intros [A B C] HL. split.
  - intros x i f p Hf Hx Hs. rewrite HL. apply A; assumption.
  - exact B.
  - intros f p i H. rewrite HL in H. apply C in H. exact H.
Qed.

(* a wire identity is given an id for the first time *)
Lemma RibOK_note ids rb L x0 i0 : RibOK ids rb L -> RibOK (note_id ids x0 i0) rb L.
Proof.
  intros [A B C]. destruct (id_of ids x0) as [j|] eqn:E0; [rewrite (note_id_old _ _ _ _ E0); split; assumption|].
  rewrite (note_id_new _ _ _ E0). split.
  - intros x i f p Hf Hx Hs. destruct (id_of ids x) as [j|] eqn:Ex.
    + rewrite id_of_snoc, Ex in Hx. injection Hx as ->. apply A; [exact Hf|exact Ex|]. eapply sole_snoc; eassumption.
    + rewrite id_of_snoc, Ex in Hx. destruct (decide (x0 = x)) as [->|]; [|discriminate]. injection Hx as ->.
      rewrite B by exact Ex. destruct (L (f, p, i)) as [v|] eqn:EL; [|reflexivity]. exfalso.
      destruct (C f p i) as [x1 Hx1]; [congruence|].
      assert (x1 = x) as -> by (apply Hs; rewrite id_of_snoc, Hx1; reflexivity). congruence.
  - intros x f p Hx. apply B. rewrite id_of_snoc in Hx. destruct (id_of ids x); [discriminate|reflexivity].
  - intros f p i H. destruct (C f p i H) as [x Hx]. exists x. rewrite id_of_snoc, Hx. reflexivity.
Qed.

(* a session-ending op: the ideal RIB withdraws the identities ws names, the pipeline the ids ms *)
Lemma RibOK_down ids rb L ws ms L' :
  RibOK ids rb L ->
  (forall x i, id_of ids x = Some i -> sole ids x i -> (ws x = true <-> i ∈ ms)) ->
  (forall k, L' k = fold_left (spec_step k) (map (fun m => EDown m None) ms) (L k)) ->
  RibOK ids (ideal_down rb ws) L'.
Proof.
  intros [A B C] Hws HL. split.
  - intros x i f p Hf Hx Hs. rewrite ideal_down_lookup, HL, fold_spec_downs by exact Hf. cbn [snd].
    rewrite (A x i f p Hf Hx Hs). specialize (Hws x i Hx Hs).
    destruct (ws x).
    + rewrite bool_decide_true by (apply Hws; reflexivity). reflexivity.
    + rewrite bool_decide_false; [reflexivity|]. intros H. apply Hws in H. discriminate.
  - intros x f p Hx. rewrite ideal_down_lookup, (B x f p Hx). destruct (ws _); reflexivity.
  - intros f p i H. rewrite HL in H. apply fold_spec_some in H as [H|[a Ha]]; [apply (C f p i H)|].
    apply elem_of_list_fmap in Ha as (? & ? & _). discriminate.
Qed.

(* a routing update of the session with wire identity x0, which holds id i0 *)
Lemma RibOK_update ids rb L x0 i0 u L' :
  RibOK ids rb L -> id_of ids x0 = Some i0 ->
  (forall k, L' k = fold_left (spec_step k) (upd_evs i0 u) (L k)) ->
  RibOK ids (ideal_update rb x0 u) L'.
Proof.
  intros [A B C] H0 HL. split.
  - intros x i f p Hf Hx Hs. rewrite HL. destruct (decide (x = x0)) as [->|Hne].
    + assert (i = i0) as -> by congruence. rewrite <- (A x0 i0 f p Hf Hx Hs). symmetry. apply ideal_update_same.
    + rewrite ideal_update_other by exact Hne. rewrite upd_evs_other; [apply A; assumption|].
      cbn. intros ->. apply Hne. symmetry. apply Hs, H0.
  - intros x f p Hx. rewrite ideal_update_other by congruence. apply B, Hx.
  - intros f p i H. rewrite HL in H. apply fold_spec_some in H as [H|[a Ha]]; [apply (C f p i H)|].
    unfold upd_evs in Ha. apply elem_of_list_fmap in Ha as (pl & Hpl & Hin).
    apply payloads_of_mui in Hin. exists x0. rewrite H0. f_equal.
    unfold ev_of_payload in Hpl. destruct (p_active pl); [|discriminate]. injection Hpl as Hk _. rewrite <- Hk in Hin. exact (eq_sym Hin).
Qed.

(* ================================================================== *)
(* 4. the register as the pipeline uses it                              *)
(* ================================================================== *)

(* the only questions the pipeline asks: a router under the unit, a peer under a registered router *)
Definition vq (r : reg) (uid : N) (q : info) : Prop :=
  (exists k, q = router_query uid k) \/
  (exists rid k p, q = peer_query rid p /\ infos r !! rid = Some (router_query uid k)).

Record RegOK (r : reg) (uid : N) : Prop := {
  ro_uid_lt : uid < serial r;
  ro_uid_none : infos r !! uid = None;
  ro_below : forall id inf, infos r !! id = Some inf -> id < serial r;
  ro_shape : forall id inf, infos r !! id = Some inf -> vq r uid inf;
  ro_inj : forall id1 id2 inf, infos r !! id1 = Some inf -> infos r !! id2 = Some inf -> id1 = id2 }.

Lemma router_match_eq r uid k inf :
  RegOK r uid -> vq r uid inf -> (router_match (router_query uid k) inf = true <-> inf = router_query uid k).
Proof.
  intros HR Hv. rewrite router_match_spec. destruct Hv as [[k' ->]|(rid & k' & p & -> & Hrid)]; cbn.
  - split; [intros (_ & _ & [= ->]); reflexivity|intros [= ->]; eauto 10].
  - split; [|discriminate]. intros (_ & [= ->] & _). rewrite (ro_uid_none _ _ HR) in Hrid. discriminate.
Qed.

Lemma peer_match_eq r uid rid p inf :
  vq r uid inf -> (peer_match (peer_query rid p) inf = true <-> inf = peer_query rid p).
Proof.
  intros Hv. rewrite peer_match_spec. destruct Hv as [[k' ->]|(rid' & k' & p' & -> & Hrid)]; cbn.
  - split; [|discriminate]. intros ((? & ? & ? & _ & _ & ?) & _). discriminate.
  - unfold peer_query. split; [intros (_ & [= ->] & [= ->] & [= ->] & [= ->]); reflexivity|].
    intros [= -> -> -> ->]. eauto 12.
Qed.

Definition reg_add (r : reg) (q : info) : reg := MkReg ((serial r + 1) mod two32) (<[serial r := q]> (infos r)).

Lemma for_spec m r uid q :
  RegOK r uid -> (forall inf, vq r uid inf -> (m q inf = true <-> inf = q)) -> vq r uid q ->
  (exists id, infos r !! id = Some q /\ find_or_register m r q = (id, r)) \/
  ((forall id, infos r !! id <> Some q) /\ find_or_register m r q = (serial r, reg_add r q)).
Proof.
  intros HR Hm Hq. unfold find_or_register. destruct (reg_find_all m r q) as [|id l] eqn:Ef.
  - right. split.
    + intros id Hid. assert (id ∈ reg_find_all m r q) as Hin.
      { apply elem_of_find_all. exists q. split; [exact Hid|]. apply Hm; [exact Hq|reflexivity]. }
      rewrite Ef in Hin. inversion Hin.
    + cbn [reg_register]. unfold reg_update_info, reg_add. cbn [infos serial].
      destruct (infos r !! serial r) as [old|] eqn:E; [|reflexivity].
      apply (ro_below _ _ HR) in E. lia.
  - left. exists id. split; [|reflexivity].
    assert (id ∈ reg_find_all m r q) as Hin by (rewrite Ef; left).
    apply elem_of_find_all in Hin as (i & Hi & Hmi). apply Hm in Hmi; [congruence|]. eapply ro_shape; eassumption.
Qed.

(* r' knows everything r knows, under the same ids *)
Definition reg_le (r r' : reg) : Prop :=
  serial r <= serial r' /\ forall id, id < serial r -> infos r' !! id = infos r !! id.

Lemma reg_le_refl r : reg_le r r. Proof. split; [lia|reflexivity]. Qed.

Lemma reg_le_some r uid r' id inf : RegOK r uid -> reg_le r r' -> infos r !! id = Some inf -> infos r' !! id = Some inf.
Proof. intros HR [_ H] Hi. rewrite H; [exact Hi|]. eapply ro_below; eassumption. Qed.

Lemma vq_le r uid r' q : RegOK r uid -> reg_le r r' -> vq r uid q -> vq r' uid q.
Proof.
  intros HR Hle [H|(rid & k & p & -> & Hrid)]; [left; exact H|right].
  exists rid, k, p. split; [reflexivity|]. eapply reg_le_some; eassumption.
Qed.

Lemma reg_le_add r q : serial r + 1 < two32 -> reg_le r (reg_add r q).
Proof.
  intros Hlt. unfold reg_add. split; cbn [serial infos]; [rewrite N.mod_small; lia|].
  intros id Hid. apply lookup_insert_ne. lia.
Qed.

Lemma RegOK_add r uid q :
  RegOK r uid -> vq r uid q -> (forall id, infos r !! id <> Some q) -> serial r + 1 < two32 -> RegOK (reg_add r q) uid.
Proof.
  intros HR Hq Hnew Hlt. pose proof (reg_le_add r q Hlt) as Hle. destruct HR as [A B C D E].
  assert (HR : RegOK r uid) by (split; assumption).
  unfold reg_add in *. split; cbn [serial infos].
  - rewrite N.mod_small by lia. lia.
  - rewrite lookup_insert_ne by lia. exact B.
  - intros id inf. rewrite N.mod_small by lia. destruct (decide (id = serial r)) as [->|Hne]; [lia|].
    rewrite lookup_insert_ne by congruence. intros H. apply C in H. lia.
  - intros id inf. destruct (decide (id = serial r)) as [->|Hne].
    + rewrite lookup_insert. intros [= <-]. eapply vq_le; eassumption.
    + rewrite lookup_insert_ne by congruence. intros H. eapply vq_le; [exact HR|exact Hle|]. eapply D, H.
  - intros id1 id2 inf. destruct (decide (id1 = serial r)) as [->|H1], (decide (id2 = serial r)) as [->|H2];
      rewrite ?lookup_insert, ?lookup_insert_ne by congruence.
    + reflexivity.
    + intros [= <-] H. exfalso. apply (Hnew _ H).
    + intros H [= <-]. exfalso. apply (Hnew _ H).
    + apply E.
Qed.

Lemma RegOK_register r uid : RegOK r uid -> serial r + 1 < two32 -> RegOK (reg_register r).2 uid /\ reg_le r (reg_register r).2.
Proof.
  intros [A B C D E] Hlt. cbn [reg_register snd]. split; [split; cbn [serial infos]|].
  - rewrite N.mod_small by lia. lia.
  - exact B.
  - intros id inf H. apply C in H. rewrite N.mod_small by lia. lia.
  - exact D.
  - exact E.
  - split; cbn [serial infos]; [rewrite N.mod_small; lia|reflexivity].
Qed.

(* find-or-register in one statement: the register stays well-formed, only grows, and the id answers q *)
Lemma for_ext m r uid q :
  RegOK r uid -> (forall inf, vq r uid inf -> (m q inf = true <-> inf = q)) -> vq r uid q -> serial r + 1 < two32 ->
  let res := find_or_register m r q in
  RegOK res.2 uid /\ reg_le r res.2 /\ serial res.2 <= serial r + 1 /\ infos res.2 !! res.1 = Some q.
Proof.
  intros HR Hm Hq Hlt. destruct (for_spec m r uid q HR Hm Hq) as [(id & Hid & ->)|(Hnew & ->)]; cbn [fst snd].
  - split; [exact HR|]. split; [apply reg_le_refl|]. split; [lia|exact Hid].
  - split; [apply RegOK_add; assumption|]. split; [apply reg_le_add, Hlt|].
    unfold reg_add. cbn [serial infos]. rewrite N.mod_small by lia. split; [lia|apply lookup_insert].
Qed.

(* ================================================================== *)
(* 5. one BMP message: the session machine next to the ideal session    *)
(* ================================================================== *)

Definition coarse (ph : phase) : phase := match ph with PUpd => PDump | x => x end.

Definition out_evs (o : outcome) : list ev := match o with OUpdate u => evs_of_update u | _ => [] end.

(* what sstep does to one session and the ideal RIB on a message *)
Definition istep (k : N) (ph : phase) (up : gset pph) (rb : irib) (m : msg) : phase * gset pph * irib :=
  match ph, m with
  | PInit, MInit => (PDump, up, rb)
  | (PDump | PUpd), MPeerUp p _ => if bool_decide (p ∈ up) then (ph, up, rb) else (ph, {[p]} ∪ up, rb)
  | (PDump | PUpd), MPeerDown p =>
      if bool_decide (p ∈ up) then (ph, up ∖ {[p]}, ideal_down rb (fun x => bool_decide (x = (k, p)))) else (ph, up, rb)
  | (PDump | PUpd), MRoute p (Some u) =>
      if bool_decide (p ∈ up) then (ph, up, ideal_update rb (k, p) u) else (ph, up, rb)
  | (PDump | PUpd), MTerm => (PTerm, ∅, ideal_down rb (fun x => bool_decide (x.1 = k /\ x.2 ∈ up)))
  | _, _ => (ph, up, rb)
  end.

Lemma sstep_msg sw k m ph up ever :
  s_sess sw !! k = Some (ph, up, ever) ->
  let sw' := (sstep sw (WMsg k m)).1 in
  (exists ever', s_sess sw' !! k = Some ((istep k ph up (s_rib sw) m).1, ever')) /\
  (forall k', k' <> k -> s_sess sw' !! k' = s_sess sw !! k') /\
  s_rib sw' = (istep k ph up (s_rib sw) m).2 /\ s_bgp sw' = s_bgp sw /\ s_bgp_conns sw' = s_bgp_conns sw.
Proof.
  intros Hs. cbn [sstep]. rewrite Hs. unfold istep.
  destruct ph, m as [| |p|p e|p|p [u|]]; try destruct (bool_decide _); cbn [fst snd s_sess s_rib s_bgp s_bgp_conns];
    (split; [rewrite ?lookup_insert; eauto|]);
    (split; [intros k' Hk'; rewrite ?lookup_insert_ne by congruence; reflexivity|]); auto.
Qed.

Lemma id_table_lookup s p : id_table s !! p = pe_id <$> (sm_peers s !! p).
Proof. unfold id_table. apply lookup_fmap. Qed.

Lemma id_table_mk ph ps mt : id_table (MkSm ph ps mt) = pe_id <$> ps.
Proof. reflexivity. Qed.

(* Route Monitoring never touches the register, the set of up peers or their ids *)
Lemma rm_sim r s p u :
  let res := route_monitoring r s p u in
  res.1.1 = r /\ id_table res.1.2 = id_table s /\ coarse (sm_phase res.1.2) = coarse (sm_phase s) /\
  out_evs res.2 = match sm_peers s !! p, u with Some pe, Some u' => upd_evs (pe_id pe) u' | _, _ => [] end.
Proof.
  unfold route_monitoring. destruct (sm_peers s !! p) as [pe|] eqn:E; [|cbn; auto].
  destruct u as [u|]; [|cbn; auto]. cbv zeta.
  assert (Hp : id_table s !! p = Some (pe_id pe)) by (rewrite id_table_lookup, E; reflexivity).
  remember (sm_phase s) as ph eqn:Eph.
  assert (H1 : forall o : option N,
             pe_id <$> (match o with Some f => <[p := MkPeer (pe_eor pe) (pe_pending pe ∖ {[f]}) (pe_id pe)]> (sm_peers s) | None => sm_peers s end)
             = id_table s).
  { intros [f|]; [|reflexivity]. rewrite fmap_insert. cbn [pe_id]. apply insert_id, Hp. }
  assert (Hgen : forall ps1 : gmap pph peer, pe_id <$> ps1 = id_table s ->
            let pe1 := match ps1 !! p with Some x => x | None => pe end in
            pe_id <$> (match first_ann_fam u with
                       | Some f => if pe_eor pe1 then <[p := MkPeer (pe_eor pe1) ({[f]} ∪ pe_pending pe1) (pe_id pe1)]> ps1 else ps1
                       | None => ps1 end) = id_table s).
  { intros ps1 Hps1 pe1.
    assert (Hpe1 : pe_id pe1 = pe_id pe).
    { subst pe1. assert (Hl : (pe_id <$> ps1) !! p = Some (pe_id pe)) by (rewrite Hps1; exact Hp).
      rewrite lookup_fmap in Hl. destruct (ps1 !! p); [injection Hl as ->|]; reflexivity. }
    destruct (first_ann_fam u); [|exact Hps1]. destruct (pe_eor pe1); [|exact Hps1].
    rewrite fmap_insert. cbn [pe_id]. rewrite Hps1, Hpe1. apply insert_id, Hp. }
  specialize (Hgen _ (H1 (eor_in ph u))). cbv zeta in Hgen.
  destruct ph; cbn [fst snd sm_phase out_evs evs_of_update]; rewrite ?id_table_mk;
    try (repeat split; try assumption; try exact (H1 _); reflexivity).
  destruct (eor_in PDump u) as [f|] eqn:He.
  - destruct (all_pending_empty _); cbn [fst snd sm_phase out_evs evs_of_update]; rewrite ?id_table_mk;
      repeat split; try assumption; try exact (H1 (Some f)); try reflexivity.
    unfold upd_evs. rewrite (payloads_eor (pe_id pe) u) by (rewrite He; eauto). reflexivity.
  - cbn [fst snd sm_phase out_evs evs_of_update]; rewrite ?id_table_mk; repeat split; try assumption; reflexivity.
Qed.

Lemma elem_of_term_ids s i :
  i ∈ map (fun kv : pph * peer => pe_id kv.2) (map_to_list (sm_peers s)) <-> exists p, id_table s !! p = Some i.
Proof.
  rewrite elem_of_list_fmap. split.
  - intros ([p pe] & -> & Hin). apply elem_of_map_to_list in Hin. exists p. rewrite id_table_lookup, Hin. reflexivity.
  - intros [p Hp]. rewrite id_table_lookup in Hp. destruct (sm_peers s !! p) as [pe|] eqn:E; [|discriminate].
    injection Hp as <-. exists (p, pe). split; [reflexivity|]. apply elem_of_map_to_list, E.
Qed.

(* the five ways a message moves the pair (session machine, ideal RIB) *)
Inductive msim (r : reg) (rid : N) (s : sm) (m : msg) (k : N) (rb : irib) : reg * sm * outcome -> irib -> Prop :=
| ms_quiet s' o : id_table s' = id_table s -> out_evs o = [] -> msim r rid s m k rb (r, s', o) rb
| ms_up p e id r' s' o : m = MPeerUp p e -> find_or_register peer_match r (peer_query rid p) = (id, r') -> out_evs o = [] ->
    (id_table s' = id_table s /\ is_Some (id_table s !! p) \/ id_table s' = <[p := id]> (id_table s) /\ id_table s !! p = None) ->
    msim r rid s m k rb (r', s', o) rb
| ms_down p i s' o : id_table s !! p = Some i -> id_table s' = delete p (id_table s) -> out_evs o = [EDown i None] ->
    msim r rid s m k rb (r, s', o) (ideal_down rb (fun x => bool_decide (x = (k, p))))
| ms_route p i u s' o : id_table s !! p = Some i -> id_table s' = id_table s -> out_evs o = upd_evs i u ->
    msim r rid s m k rb (r, s', o) (ideal_update rb (k, p) u)
| ms_term ms s' o : id_table s' = ∅ -> out_evs o = map (fun i => EDown i None) ms ->
    (forall i, i ∈ ms <-> exists p, id_table s !! p = Some i) ->
    msim r rid s m k rb (r, s', o) (ideal_down rb (fun x => bool_decide (x.1 = k /\ x.2 ∈ dom (id_table s)))).

Lemma sm_istep r rid s m k rb :
  let res := sm_step r rid s m in
  let ir := istep k (coarse (sm_phase s)) (dom (id_table s)) rb m in
  ir.1.1 = coarse (sm_phase res.1.2) /\ ir.1.2 = dom (id_table res.1.2) /\ msim r rid s m k rb res ir.2.
Proof.
  cbv zeta. destruct (sm_phase s) eqn:Eph.
  - (* before Initiation *)
    unfold sm_step. rewrite Eph. destruct m; cbn [coarse istep invalid with_metrics fst snd sm_phase]; rewrite ?Eph;
      (split; [reflexivity|]); (split; [reflexivity|]); apply ms_quiet; reflexivity.
  - (* Dumping *)
    assert (Hl : live s) by (left; exact Eph). rewrite sm_step_live by exact Hl. cbn [coarse].
    destruct m as [| |p|p e|p|p u]; cbn [live_step istep].
    + cbn. rewrite Eph. repeat split. apply ms_quiet; reflexivity.
    + destruct (terminate r s) as [[r' s'] o] eqn:Et. unfold terminate in Et. injection Et as <- <- <-. cbn [fst snd sm_phase coarse].
      rewrite id_table_mk, fmap_empty, dom_empty_L. repeat split.
      apply (ms_term _ _ _ _ _ _ (map (fun kv : pph * peer => pe_id kv.2) (map_to_list (sm_peers s)))).
      * rewrite id_table_mk. apply fmap_empty.
      * destruct (map _ (map_to_list (sm_peers s))); reflexivity.
      * apply elem_of_term_ids.
    + cbn. rewrite Eph. repeat split. apply ms_quiet; reflexivity.
    + destruct (peer_up_spec r rid s p e) as [pe id r' E Ef|id r' E Ef].
      * rewrite bool_decide_true by (apply elem_of_dom; rewrite id_table_lookup, E; eauto).
        cbn. rewrite Eph. repeat split. eapply ms_up; [reflexivity|exact Ef|reflexivity|].
        left. split; [reflexivity|]. rewrite id_table_lookup, E. eauto.
      * assert (Hn : id_table s !! p = None) by (rewrite id_table_lookup, E; reflexivity).
        rewrite bool_decide_false by (rewrite elem_of_dom, Hn; intros [? ?]; discriminate).
        cbn [fst snd sm_phase]. rewrite Eph, id_table_mk, fmap_insert. cbn [pe_id coarse].
        split; [reflexivity|]. split; [rewrite dom_insert_L; reflexivity|].
        eapply ms_up; [reflexivity|exact Ef|reflexivity|]. right. split; [|exact Hn]. rewrite id_table_mk, fmap_insert. reflexivity.
    + destruct (peer_down_spec r s p) as [pe E|E].
      * assert (Hp : id_table s !! p = Some (pe_id pe)) by (rewrite id_table_lookup, E; reflexivity).
        rewrite bool_decide_true by (apply elem_of_dom; eauto).
        cbn [fst snd sm_phase]. rewrite Eph, id_table_mk, fmap_delete. cbn [coarse].
        split; [reflexivity|]. split; [rewrite dom_delete_L; reflexivity|].
        eapply ms_down; [exact Hp|rewrite id_table_mk, fmap_delete; reflexivity|reflexivity].
      * assert (Hn : id_table s !! p = None) by (rewrite id_table_lookup, E; reflexivity).
        rewrite bool_decide_false by (rewrite elem_of_dom, Hn; intros [? ?]; discriminate).
        cbn. rewrite Eph. repeat split. apply ms_quiet; reflexivity.
    + destruct (rm_sim r s p u) as (Hr & Ht & Hph & Ho). rewrite Eph in Hph. cbn [coarse] in Hph.
      destruct (route_monitoring r s p u) as [[r' s'] o]. cbn [fst snd] in *. subst r'.
      destruct (sm_peers s !! p) as [pe|] eqn:E.
      * assert (Hp : id_table s !! p = Some (pe_id pe)) by (rewrite id_table_lookup, E; reflexivity).
        destruct u as [u|].
        -- rewrite bool_decide_true by (apply elem_of_dom; eauto). cbn [fst snd]. rewrite Ht, Hph. repeat split.
           eapply ms_route; eassumption.
        -- cbn [fst snd]. rewrite Ht, Hph. repeat split. apply ms_quiet; assumption.
      * assert (Hn : id_table s !! p = None) by (rewrite id_table_lookup, E; reflexivity).
        assert (Ho' : out_evs o = []) by (destruct u; exact Ho).
        destruct u as [u|]; [rewrite bool_decide_false by (rewrite elem_of_dom, Hn; intros [? ?]; discriminate)|];
          cbn [fst snd]; rewrite Ht, Hph; repeat split; apply ms_quiet; assumption.
  - (* Updating: as Dumping *)
    assert (Hl : live s) by (right; exact Eph). rewrite sm_step_live by exact Hl. cbn [coarse].
    destruct m as [| |p|p e|p|p u]; cbn [live_step istep].
    + cbn. rewrite Eph. repeat split. apply ms_quiet; reflexivity.
    + destruct (terminate r s) as [[r' s'] o] eqn:Et. unfold terminate in Et. injection Et as <- <- <-. cbn [fst snd sm_phase coarse].
      rewrite id_table_mk, fmap_empty, dom_empty_L. repeat split.
      apply (ms_term _ _ _ _ _ _ (map (fun kv : pph * peer => pe_id kv.2) (map_to_list (sm_peers s)))).
      * rewrite id_table_mk. apply fmap_empty.
      * destruct (map _ (map_to_list (sm_peers s))); reflexivity.
      * apply elem_of_term_ids.
    + cbn. rewrite Eph. repeat split. apply ms_quiet; reflexivity.
    + destruct (peer_up_spec r rid s p e) as [pe id r' E Ef|id r' E Ef].
      * rewrite bool_decide_true by (apply elem_of_dom; rewrite id_table_lookup, E; eauto).
        cbn. rewrite Eph. repeat split. eapply ms_up; [reflexivity|exact Ef|reflexivity|].
        left. split; [reflexivity|]. rewrite id_table_lookup, E. eauto.
      * assert (Hn : id_table s !! p = None) by (rewrite id_table_lookup, E; reflexivity).
        rewrite bool_decide_false by (rewrite elem_of_dom, Hn; intros [? ?]; discriminate).
        cbn [fst snd sm_phase]. rewrite Eph, id_table_mk, fmap_insert. cbn [pe_id coarse].
        split; [reflexivity|]. split; [rewrite dom_insert_L; reflexivity|].
        eapply ms_up; [reflexivity|exact Ef|reflexivity|]. right. split; [|exact Hn]. rewrite id_table_mk, fmap_insert. reflexivity.
    + destruct (peer_down_spec r s p) as [pe E|E].
      * assert (Hp : id_table s !! p = Some (pe_id pe)) by (rewrite id_table_lookup, E; reflexivity).
        rewrite bool_decide_true by (apply elem_of_dom; eauto).
        cbn [fst snd sm_phase]. rewrite Eph, id_table_mk, fmap_delete. cbn [coarse].
        split; [reflexivity|]. split; [rewrite dom_delete_L; reflexivity|].
        eapply ms_down; [exact Hp|rewrite id_table_mk, fmap_delete; reflexivity|reflexivity].
      * assert (Hn : id_table s !! p = None) by (rewrite id_table_lookup, E; reflexivity).
        rewrite bool_decide_false by (rewrite elem_of_dom, Hn; intros [? ?]; discriminate).
        cbn. rewrite Eph. repeat split. apply ms_quiet; reflexivity.
    + destruct (rm_sim r s p u) as (Hr & Ht & Hph & Ho). rewrite Eph in Hph. cbn [coarse] in Hph.
      destruct (route_monitoring r s p u) as [[r' s'] o]. cbn [fst snd] in *. subst r'.
      destruct (sm_peers s !! p) as [pe|] eqn:E.
      * assert (Hp : id_table s !! p = Some (pe_id pe)) by (rewrite id_table_lookup, E; reflexivity).
        destruct u as [u|].
        -- rewrite bool_decide_true by (apply elem_of_dom; eauto). cbn [fst snd]. rewrite Ht, Hph. repeat split.
           eapply ms_route; eassumption.
        -- cbn [fst snd]. rewrite Ht, Hph. repeat split. apply ms_quiet; assumption.
      * assert (Hn : id_table s !! p = None) by (rewrite id_table_lookup, E; reflexivity).
        assert (Ho' : out_evs o = []) by (destruct u; exact Ho).
        destruct u as [u|]; [rewrite bool_decide_false by (rewrite elem_of_dom, Hn; intros [? ?]; discriminate)|];
          cbn [fst snd]; rewrite Ht, Hph; repeat split; apply ms_quiet; assumption.
  - (* after Termination *)
    unfold sm_step. rewrite Eph. destruct m; cbn [coarse istep invalid with_metrics fst snd sm_phase]; rewrite ?Eph;
      (split; [reflexivity|]); (split; [reflexivity|]); apply ms_quiet; reflexivity.
Qed.

(* ================================================================== *)
(* 6. the control half of the simulation invariant                      *)
(* ================================================================== *)

(* an id recorded for a BMP wire identity (k, p): the peer entry under router k's entry *)
Definition bmp_id_ok (r : reg) (uid : N) (x : wid) (i : N) : Prop :=
  x.1 < 1000 /\ exists rid, infos r !! rid = Some (router_query uid x.1) /\ infos r !! i = Some (peer_query rid x.2).
(* an id recorded for a BGP connection: a bare registration, of a connection ordinal already used *)
Definition bgp_id_ok (r : reg) (conns : gmap N N) (x : wid) (i : N) : Prop :=
  exists b c c', x = bgp_wid b c /\ infos r !! i = None /\ i < serial r /\ conns !! b = Some c' /\ c <= c'.

Record CtlOK (bd : N) (w : world) (sw : sworld) : Prop := {
  c_reg : RegOK (w_reg w) (w_unit w);
  c_ser : serial (w_reg w) <= bd;
  c_sess_none : forall k, w_routers w !! k = None -> s_sess sw !! k = None;
  c_sess_some : forall k rid s, w_routers w !! k = Some (rid, s) ->
      exists ever, s_sess sw !! k = Some (coarse (sm_phase s), dom (id_table s), ever);
  c_rtr : forall k rid s, w_routers w !! k = Some (rid, s) ->
      k < 1000 /\ infos (w_reg w) !! rid = Some (router_query (w_unit w) k);
  c_peer : forall k rid s p i, w_routers w !! k = Some (rid, s) -> id_table s !! p = Some i -> id_of (w_ids w) (k, p) = Some i;
  c_ids : forall x i, id_of (w_ids w) x = Some i ->
      bmp_id_ok (w_reg w) (w_unit w) x i \/ bgp_id_ok (w_reg w) (w_bgp_conns w) x i;
  c_bgp : forall b id c, w_bgp w !! b = Some (id, c) -> id_of (w_ids w) (bgp_wid b c) = Some id;
  c_sbgp : forall b, s_bgp sw !! b = snd <$> (w_bgp w !! b);
  c_conns : s_bgp_conns sw = w_bgp_conns w }.

Ltac wproj := cbn [w_reg w_unit w_routers w_rib w_bgp w_bgp_conns w_ids s_sess s_rib s_bgp s_bgp_conns fst snd].
Ltac wproj_in H := cbn [w_reg w_unit w_routers w_rib w_bgp w_bgp_conns w_ids s_sess s_rib s_bgp s_bgp_conns fst snd] in H.

Lemma CtlOK_mono bd bd' w sw : CtlOK bd w sw -> bd <= bd' -> CtlOK bd' w sw.
Proof. intros [A B C D E F G H I J] Hle. split; try assumption. lia. Qed.

Lemma bmp_id_ok_le r uid r' x i : RegOK r uid -> reg_le r r' -> bmp_id_ok r uid x i -> bmp_id_ok r' uid x i.
Proof.
  intros HR Hle (Hk & rid & H1 & H2). split; [exact Hk|]. exists rid. split; eapply reg_le_some; eassumption.
Qed.

Lemma bgp_id_ok_le r r' conns x i : reg_le r r' -> bgp_id_ok r conns x i -> bgp_id_ok r' conns x i.
Proof.
  intros [Hs Hle] (b & c & c' & -> & Hn & Hlt & Hc & Hcc). exists b, c, c'. repeat split; try assumption; [|lia].
  rewrite Hle by exact Hlt. exact Hn.
Qed.

Lemma bgp_wid_inj b c b' c' : bgp_wid b c = bgp_wid b' c' -> b = b' /\ c = c'.
Proof. unfold bgp_wid. intros [= H1 H2]. split; [lia|exact H2]. Qed.

(* a BMP wire identity (router key below 1000) never carries a BGP connection's id record *)
Lemma ids_bmp bd w sw k p i : CtlOK bd w sw -> k < 1000 -> id_of (w_ids w) (k, p) = Some i ->
  exists rid, infos (w_reg w) !! rid = Some (router_query (w_unit w) k) /\ infos (w_reg w) !! i = Some (peer_query rid p).
Proof.
  intros H Hk Hi. destruct (c_ids _ _ _ H _ _ Hi) as [(_ & rid & H1 & H2)|(b & c & c' & Hx & _)]; [eauto|].
  unfold bgp_wid in Hx. injection Hx as Hx _. lia.
Qed.

Lemma note_id_ext ids x0 i0 x i : id_of ids x = Some i -> id_of (note_id ids x0 i0) x = Some i.
Proof.
  intros H. destruct (id_of ids x0) as [j|] eqn:E0; [rewrite (note_id_old _ _ _ _ E0); exact H|].
  rewrite (note_id_new _ _ _ E0), id_of_snoc, H. reflexivity.
Qed.

Lemma note_id_inv ids x0 i0 x i : id_of (note_id ids x0 i0) x = Some i ->
  id_of ids x = Some i \/ (x = x0 /\ i = i0 /\ id_of ids x0 = None).
Proof.
  destruct (id_of ids x0) as [j|] eqn:E0; [rewrite (note_id_old _ _ _ _ E0); auto|].
  rewrite (note_id_new _ _ _ E0), id_of_snoc. destruct (id_of ids x) as [j|]; [auto|].
  destruct (decide (x0 = x)) as [->|]; [|discriminate]. intros [= ->]. auto.
Qed.

(* replace (or create) the session of router k; register and id record may have grown *)
Lemma ctl_session bd w sw k rid s' bd' r' ids' rib' sess' srib' :
  CtlOK bd w sw ->
  RegOK r' (w_unit w) -> reg_le (w_reg w) r' -> serial r' <= bd' ->
  (forall x i, id_of (w_ids w) x = Some i -> id_of ids' x = Some i) ->
  (forall x i, id_of ids' x = Some i -> id_of (w_ids w) x = Some i \/ bmp_id_ok r' (w_unit w) x i) ->
  k < 1000 -> infos r' !! rid = Some (router_query (w_unit w) k) ->
  (forall p i, id_table s' !! p = Some i -> id_of ids' (k, p) = Some i) ->
  (exists ever, sess' !! k = Some (coarse (sm_phase s'), dom (id_table s'), ever)) ->
  (forall k', k' <> k -> sess' !! k' = s_sess sw !! k') ->
  CtlOK bd' (MkWorld r' (w_unit w) (<[k := (rid, s')]> (w_routers w)) rib' (w_bgp w) (w_bgp_conns w) ids')
            (MkSWorld sess' srib' (s_bgp sw) (s_bgp_conns sw)).
Proof.
  intros H HR' Hle Hser Hext Hinv Hk Hrid Hpeers Hsk Hso.
  pose proof (c_reg _ _ _ H) as HR.
  split; wproj.
  - exact HR'.
  - exact Hser.
  - intros k0 H0. apply lookup_insert_None in H0 as [H0 Hne]. rewrite Hso by congruence. apply (c_sess_none _ _ _ H), H0.
  - intros k0 rid0 s0 H0. apply lookup_insert_Some in H0 as [[<- [= <- <-]]|[Hne H0]]; [exact Hsk|].
    rewrite Hso by congruence. eapply (c_sess_some _ _ _ H), H0.
  - intros k0 rid0 s0 H0. apply lookup_insert_Some in H0 as [[<- [= <- <-]]|[Hne H0]]; [auto|].
    destruct (c_rtr _ _ _ H _ _ _ H0) as [A B]. split; [exact A|]. eapply reg_le_some; eassumption.
  - intros k0 rid0 s0 p i H0 Hp. apply lookup_insert_Some in H0 as [[<- [= <- <-]]|[Hne H0]]; [auto|].
    apply Hext. eapply (c_peer _ _ _ H); eassumption.
  - intros x i Hx. destruct (Hinv _ _ Hx) as [Hx'|Hx']; [|left; exact Hx'].
    destruct (c_ids _ _ _ H _ _ Hx') as [Hb|Hb]; [left; eapply bmp_id_ok_le; eassumption|right; eapply bgp_id_ok_le; eassumption].
  - intros b id c Hb. apply Hext. eapply (c_bgp _ _ _ H), Hb.
  - apply (c_sbgp _ _ _ H).
  - apply (c_conns _ _ _ H).
Qed.

Definition step_evs (x : wout) : list ev := concat (map evs_of_update (out_updates x)).

Lemma step_evs_step o ph : step_evs (WoStep o ph) = out_evs o.
Proof. unfold step_evs. destruct o; cbn; rewrite ?app_nil_r; reflexivity. Qed.

Definition note_of (ids : list (wid * N)) (k : N) (m : msg) (s' : sm) : list (wid * N) :=
  match m with
  | MPeerUp p _ => match sm_peers s' !! p with Some pe => note_id ids (k, p) (pe_id pe) | None => ids end
  | _ => ids
  end.

Lemma wstep_msg w k m rid s : w_routers w !! k = Some (rid, s) ->
  wstep w (WMsg k m) =
  let res := sm_step (w_reg w) rid s m in
  (MkWorld res.1.1 (w_unit w) (<[k := (rid, res.1.2)]> (w_routers w)) (apply_outcome (w_rib w) res.2) (w_bgp w) (w_bgp_conns w)
           (note_of (w_ids w) k m res.1.2), WoStep res.2 (phase_idx (sm_phase res.1.2))).
Proof. intros H. cbn [wstep]. rewrite H. destruct (sm_step (w_reg w) rid s m) as [[r' s'] o]. reflexivity. Qed.

(* nothing to note when every up peer's id is on record already *)
Lemma note_of_quiet ids k m s' : (forall p i, id_table s' !! p = Some i -> id_of ids (k, p) = Some i) -> note_of ids k m s' = ids.
Proof.
  intros H. destruct m as [| |p|p e|p|p u]; try reflexivity. cbn [note_of].
  destruct (sm_peers s' !! p) as [pe|] eqn:E; [|reflexivity].
  eapply note_id_old, (H p). rewrite id_table_lookup, E. reflexivity.
Qed.

Definition Lstep (L : rkey -> option (bool * N)) (evs : list ev) : rkey -> option (bool * N) :=
  fun key => fold_left (spec_step key) evs (L key).

Lemma msg_ctl_same bd w sw k rid s s' rib' sess' srib' ever' :
  CtlOK bd w sw -> w_routers w !! k = Some (rid, s) ->
  (forall p i, id_table s' !! p = Some i -> id_table s !! p = Some i) ->
  sess' !! k = Some (coarse (sm_phase s'), dom (id_table s'), ever') ->
  (forall k', k' <> k -> sess' !! k' = s_sess sw !! k') ->
  CtlOK (bd + 1) (MkWorld (w_reg w) (w_unit w) (<[k := (rid, s')]> (w_routers w)) rib' (w_bgp w) (w_bgp_conns w) (w_ids w))
                 (MkSWorld sess' srib' (s_bgp sw) (s_bgp_conns sw)).
Proof.
  intros H Hr Hsub Hsk Hso. destruct (c_rtr _ _ _ H _ _ _ Hr) as [Hk Hrid].
  eapply ctl_session; try eassumption.
  - apply (c_reg _ _ _ H).
  - apply reg_le_refl.
  - pose proof (c_ser _ _ _ H). lia.
  - auto.
  - auto.
  - intros p i Hp. eapply (c_peer _ _ _ H); [exact Hr|]. apply Hsub, Hp.
  - eauto.
Qed.

Lemma step_msg bd w sw L k m :
  CtlOK bd w sw -> RibOK (w_ids w) (s_rib sw) L -> bd + 1 < two32 ->
  CtlOK (bd + 1) (wstep w (WMsg k m)).1 (sstep sw (WMsg k m)).1 /\
  RibOK (w_ids (wstep w (WMsg k m)).1) (s_rib (sstep sw (WMsg k m)).1) (Lstep L (step_evs (wstep w (WMsg k m)).2)).
Proof.
  intros H HRib Hbd.
  destruct (w_routers w !! k) as [[rid s]|] eqn:Hr.
  2:{ cbn [wstep sstep]. rewrite Hr, (c_sess_none _ _ _ H _ Hr). cbn [fst snd]. split; [eapply CtlOK_mono; [exact H|lia]|].
      eapply RibOK_ext; [exact HRib|reflexivity]. }
  destruct (c_sess_some _ _ _ H _ _ _ Hr) as [ever Hs].
  destruct (c_rtr _ _ _ H _ _ _ Hr) as [Hk Hrid].
  pose proof (c_reg _ _ _ H) as HR. pose proof (c_ser _ _ _ H) as Hser.
  assert (Hpeer : forall p i, id_table s !! p = Some i -> id_of (w_ids w) (k, p) = Some i)
    by (intros p i; apply (c_peer _ _ _ H _ _ _ _ _ Hr)).
  destruct (sstep_msg sw k m _ _ _ Hs) as ([ever' Hsk] & Hso & Hsrib & Hsbgp & Hsconns).
  destruct (sm_istep (w_reg w) rid s m k (s_rib sw)) as (Hph & Hup & Hsim).
  rewrite (wstep_msg _ _ _ _ _ Hr). cbv zeta. cbn [fst snd]. wproj. rewrite step_evs_step.
  destruct (sstep sw (WMsg k m)) as [[sess' srib' sbgp' sconns'] so]. cbn [fst snd s_sess s_rib s_bgp s_bgp_conns] in *.
  destruct (sm_step (w_reg w) rid s m) as [[r' s'] out]. cbn [fst snd] in *.
  destruct (istep k (coarse (sm_phase s)) (dom (id_table s)) (s_rib sw) m) as [[ph' up'] rb']. cbn [fst snd] in *.
  subst ph' up' srib' sbgp' sconns'.
  inversion Hsim as [s0 o0 Ht Ho|p e id r0 s0 o0 Hm Hf Ho Hcase|p i s0 o0 Hp Ht Ho|p i u s0 o0 Hp Ht Ho|ms s0 o0 Ht Ho Hms]; subst.
  - (* quiet *)
    assert (Hsub : forall p i, id_table s' !! p = Some i -> id_table s !! p = Some i) by (rewrite Ht; auto).
    rewrite note_of_quiet by (intros p i Hp; apply Hpeer, Hsub, Hp). split.
    + eapply msg_ctl_same; eassumption.
    + eapply RibOK_ext; [exact HRib|]. intros key. unfold Lstep. rewrite Ho. reflexivity.
  - (* Peer Up *)
    assert (Hvq : vq (w_reg w) (w_unit w) (peer_query rid p)) by (right; eauto).
    destruct (for_ext peer_match (w_reg w) (w_unit w) (peer_query rid p) HR) as (HR' & Hle & Hser' & Hid);
      [intros inf Hinf; eapply peer_match_eq; exact Hinf|exact Hvq|lia|].
    rewrite Hf in HR', Hle, Hser', Hid. cbn [fst snd] in HR', Hle, Hser', Hid.
    assert (HRibL : RibOK (w_ids w) (s_rib sw) (Lstep L (out_evs out))).
    { eapply RibOK_ext; [exact HRib|]. intros key. unfold Lstep. rewrite Ho. reflexivity. }
    destruct Hcase as [[Ht Hup]|[Ht Hnone]].
    + assert (Hsub : forall q i, id_table s' !! q = Some i -> id_table s !! q = Some i) by (rewrite Ht; auto).
      rewrite note_of_quiet by (intros q i Hq; apply Hpeer, Hsub, Hq). split; [|exact HRibL].
      eapply ctl_session; try eassumption; [lia|auto|auto|exact (reg_le_some _ _ _ _ _ HR Hle Hrid)| |eauto].
      intros q i Hq. apply Hpeer, Hsub, Hq.
    + cbn [note_of]. assert (Hsp : id_table s' !! p = Some id) by (rewrite Ht; apply lookup_insert).
      rewrite id_table_lookup in Hsp. destruct (sm_peers s' !! p) as [pe|]; [|discriminate]. injection Hsp as Hpe. rewrite Hpe. clear Hpe pe.
      assert (Hrid' : infos r' !! rid = Some (router_query (w_unit w) k)) by exact (reg_le_some _ _ _ _ _ HR Hle Hrid).
      assert (Hnew : forall j, id_of (w_ids w) (k, p) = Some j -> j = id).
      { intros j Hj. destruct (ids_bmp _ _ _ _ _ _ H Hk Hj) as (rid0 & H1 & H2).
        assert (rid0 = rid) as -> by (eapply (ro_inj _ _ HR); eassumption).
        eapply (ro_inj _ _ HR'); [|exact Hid]. exact (reg_le_some _ _ _ _ _ HR Hle H2). }
      split; [|apply RibOK_note, HRibL].
      eapply ctl_session; try eassumption.
      * lia.
      * intros x i. apply note_id_ext.
      * intros x i Hx. apply note_id_inv in Hx as [Hx|(-> & -> & _)]; [auto|right].
        split; [exact Hk|]. exists rid. split; assumption.
      * intros q i Hq. rewrite Ht in Hq. apply lookup_insert_Some in Hq as [[<- <-]|[Hne Hq]].
        -- destruct (id_of (w_ids w) (k, p)) as [j|] eqn:Ej.
           ++ rewrite (note_id_old _ _ _ _ Ej), Ej. f_equal. apply Hnew. reflexivity.
           ++ rewrite (note_id_new _ _ _ Ej), id_of_snoc, Ej. rewrite decide_True by reflexivity. reflexivity.
        -- apply note_id_ext, Hpeer, Hq.
      * eauto.
  - (* Peer Down *)
    assert (Hsub : forall q j, id_table s' !! q = Some j -> id_table s !! q = Some j).
    { rewrite Ht. intros q j Hq. apply lookup_delete_Some in Hq as [_ Hq]. exact Hq. }
    rewrite note_of_quiet by (intros q j Hq; apply Hpeer, Hsub, Hq). split.
    + eapply msg_ctl_same; eassumption.
    + eapply (RibOK_down _ _ _ _ [i]); [exact HRib| |intros key; unfold Lstep; rewrite Ho; reflexivity].
      intros x i0 Hx Hsole. rewrite bool_decide_eq_true, elem_of_list_singleton. split.
      * intros ->. rewrite (Hpeer _ _ Hp) in Hx. congruence.
      * intros ->. symmetry. apply Hsole, Hpeer, Hp.
  - (* Route Monitoring *)
    assert (Hsub : forall q j, id_table s' !! q = Some j -> id_table s !! q = Some j) by (rewrite Ht; auto).
    rewrite note_of_quiet by (intros q j Hq; apply Hpeer, Hsub, Hq). split.
    + eapply msg_ctl_same; eassumption.
    + eapply RibOK_update; [exact HRib|apply Hpeer, Hp|intros key; unfold Lstep; rewrite Ho; reflexivity].
  - (* Termination *)
    assert (Hsub : forall q j, id_table s' !! q = Some j -> id_table s !! q = Some j).
    { rewrite Ht. intros q j Hq. rewrite lookup_empty in Hq. discriminate. }
    rewrite note_of_quiet by (intros q j Hq; apply Hpeer, Hsub, Hq). split.
    + eapply msg_ctl_same; eassumption.
    + eapply (RibOK_down _ _ _ _ ms); [exact HRib| |intros key; unfold Lstep; rewrite Ho; reflexivity].
      intros x i0 Hx Hsole. rewrite bool_decide_eq_true, Hms. split.
      * intros [Hx1 Hx2]. apply elem_of_dom in Hx2 as [j Hj]. exists x.2. rewrite Hj. f_equal.
        apply Hpeer in Hj. rewrite <- Hx1 in Hj. rewrite <- surjective_pairing in Hj. congruence.
      * intros [q Hq]. assert (x = (k, q)) as -> by (symmetry; apply Hsole, Hpeer, Hq).
        cbn [fst snd]. split; [reflexivity|]. apply elem_of_dom. eauto.
Qed.

(* ---- the other operations ---- *)
Lemma CtlOK_rib bd w sw rib' srib' : CtlOK bd w sw ->
  CtlOK bd (MkWorld (w_reg w) (w_unit w) (w_routers w) rib' (w_bgp w) (w_bgp_conns w) (w_ids w))
           (MkSWorld (s_sess sw) srib' (s_bgp sw) (s_bgp_conns sw)).
Proof. intros [A B C D E F G H I J]. split; assumption. Qed.

Lemma Lstep_nil L key : Lstep L [] key = L key. Proof. reflexivity. Qed.

Lemma id_table_init : id_table sm_init = ∅. Proof. unfold id_table. cbn. apply fmap_empty. Qed.

Lemma step_connect bd w sw L k :
  CtlOK bd w sw -> RibOK (w_ids w) (s_rib sw) L -> k < 1000 -> bd + 1 < two32 ->
  CtlOK (bd + 1) (wstep w (WConnect k)).1 (sstep sw (WConnect k)).1 /\
  RibOK (w_ids (wstep w (WConnect k)).1) (s_rib (sstep sw (WConnect k)).1) (Lstep L (step_evs (wstep w (WConnect k)).2)).
Proof.
  intros H HRib Hk Hbd. pose proof (c_reg _ _ _ H) as HR. pose proof (c_ser _ _ _ H) as Hser.
  destruct (for_ext router_match (w_reg w) (w_unit w) (router_query (w_unit w) k) HR) as (HR' & Hle & Hser' & Hid);
    [intros inf Hinf; eapply router_match_eq; eassumption|left; eauto|lia|].
  cbn [wstep sstep]. destruct (find_or_register router_match (w_reg w) (router_query (w_unit w) k)) as [rid r'].
  cbn [fst snd] in *. wproj. split; [|eapply RibOK_ext; [exact HRib|reflexivity]].
  eapply ctl_session; try eassumption.
  - lia.
  - auto.
  - auto.
  - intros p i Hp. rewrite id_table_init, lookup_empty in Hp. discriminate.
  - exists ∅. rewrite lookup_insert, id_table_init, dom_empty_L. reflexivity.
  - intros k' Hk'. apply lookup_insert_ne. congruence.
Qed.

Lemma step_disconnect bd w sw L k :
  CtlOK bd w sw -> RibOK (w_ids w) (s_rib sw) L ->
  CtlOK bd (wstep w (WDisconnect k)).1 (sstep sw (WDisconnect k)).1 /\
  RibOK (w_ids (wstep w (WDisconnect k)).1) (s_rib (sstep sw (WDisconnect k)).1) (Lstep L (step_evs (wstep w (WDisconnect k)).2)).
Proof.
  intros H HRib. cbn [wstep sstep]. destruct (w_routers w !! k) as [[rid s]|] eqn:Hr.
  2:{ rewrite (c_sess_none _ _ _ H _ Hr). cbn [fst snd]. split; [exact H|]. eapply RibOK_ext; [exact HRib|reflexivity]. }
  destruct (c_sess_some _ _ _ H _ _ _ Hr) as [ever Hs]. rewrite Hs. cbn [fst snd]. wproj.
  destruct (c_rtr _ _ _ H _ _ _ Hr) as [Hk Hrid]. pose proof (c_reg _ _ _ H) as HR.
  split.
  - split; wproj.
    + exact HR.
    + apply (c_ser _ _ _ H).
    + intros k0 H0. destruct (decide (k0 = k)) as [->|Hne]; [apply lookup_delete|].
      rewrite lookup_delete_ne in H0 by congruence. rewrite lookup_delete_ne by congruence. apply (c_sess_none _ _ _ H), H0.
    + intros k0 rid0 s0 H0. apply lookup_delete_Some in H0 as [Hne H0]. rewrite lookup_delete_ne by congruence.
      eapply (c_sess_some _ _ _ H), H0.
    + intros k0 rid0 s0 H0. apply lookup_delete_Some in H0 as [Hne H0]. eapply (c_rtr _ _ _ H), H0.
    + intros k0 rid0 s0 p i H0. apply lookup_delete_Some in H0 as [Hne H0]. eapply (c_peer _ _ _ H), H0.
    + apply (c_ids _ _ _ H).
    + apply (c_bgp _ _ _ H).
    + apply (c_sbgp _ _ _ H).
    + apply (c_conns _ _ _ H).
  - rewrite step_evs_step. cbn [out_evs evs_of_update].
    eapply (RibOK_down _ _ _ _ (reg_ids_for_parent (w_reg w) rid)); [exact HRib| |reflexivity].
    intros x i Hx Hsole. rewrite bool_decide_eq_true, elem_of_ids_for_parent. split.
    + intros Hxk. destruct x as [k0 p]. cbn [fst] in Hxk. subst k0.
      destruct (ids_bmp _ _ _ _ _ _ H Hk Hx) as (rid0 & H1 & H2).
      assert (rid0 = rid) as -> by (eapply (ro_inj _ _ HR); eassumption).
      eexists. split; [exact H2|reflexivity].
    + intros (inf & Hinf & Hpar).
      destruct (c_ids _ _ _ H _ _ Hx) as [(_ & rid0 & H1 & H2)|(b & c & c' & _ & Hn & _)]; [|congruence].
      rewrite Hinf in H2. injection H2 as ->. cbn in Hpar. injection Hpar as ->.
      rewrite Hrid in H1. injection H1 as H1. symmetry. exact H1.
Qed.

Lemma step_bgp_open bd w sw L b :
  CtlOK bd w sw -> RibOK (w_ids w) (s_rib sw) L -> bd + 1 < two32 ->
  CtlOK (bd + 1) (wstep w (WBgpOpen b)).1 (sstep sw (WBgpOpen b)).1 /\
  RibOK (w_ids (wstep w (WBgpOpen b)).1) (s_rib (sstep sw (WBgpOpen b)).1) (Lstep L (step_evs (wstep w (WBgpOpen b)).2)).
Proof.
  intros H HRib Hbd. pose proof (c_reg _ _ _ H) as HR. pose proof (c_ser _ _ _ H) as Hser.
  destruct (RegOK_register _ _ HR) as [HR' Hle]; [lia|].
  cbn [wstep sstep]. rewrite (c_conns _ _ _ H).
  set (c := match w_bgp_conns w !! b with Some c => c + 1 | None => 0 end).
  cbn [reg_register] in *. cbn [fst snd] in *. wproj.
  set (r' := MkReg ((serial (w_reg w) + 1) mod two32) (infos (w_reg w))) in *.
  assert (Hs' : serial r' = serial (w_reg w) + 1) by (subst r'; cbn [serial]; apply N.mod_small; lia).
  assert (Hfresh : id_of (w_ids w) (bgp_wid b c) = None).
  { destruct (id_of (w_ids w) (bgp_wid b c)) as [j|] eqn:Ej; [exfalso|reflexivity].
    destruct (c_ids _ _ _ H _ _ Ej) as [(Hlt & _)|(b1 & c1 & c1' & Hx & _ & _ & Hc & Hcc)]; [cbn in Hlt; lia|].
    apply bgp_wid_inj in Hx as [<- <-]. subst c. rewrite Hc in Hcc. lia. }
  split; [|apply RibOK_note; eapply RibOK_ext; [exact HRib|reflexivity]].
  split; wproj.
  - exact HR'.
  - lia.
  - apply (c_sess_none _ _ _ H).
  - apply (c_sess_some _ _ _ H).
  - intros k rid s Hr. destruct (c_rtr _ _ _ H _ _ _ Hr) as [A B]. split; [exact A|]. exact (reg_le_some _ _ _ _ _ HR Hle B).
  - intros k rid s p i Hr Hp. apply note_id_ext. eapply (c_peer _ _ _ H); eassumption.
  - intros x i Hx. apply note_id_inv in Hx as [Hx|(-> & -> & _)].
    + destruct (c_ids _ _ _ H _ _ Hx) as [Hb|Hb]; [left; exact (bmp_id_ok_le _ _ _ _ _ HR Hle Hb)|right].
      apply (bgp_id_ok_le _ r') in Hb; [|exact Hle]. destruct Hb as (b0 & c0 & c0' & -> & Hn & Hlt & Hc & Hcc).
      destruct (decide (b0 = b)) as [->|Hne].
      * exists b, c0, c. repeat split; try assumption; [apply lookup_insert|]. subst c. rewrite Hc. lia.
      * exists b0, c0, c0'. repeat split; try assumption. rewrite lookup_insert_ne by congruence. exact Hc.
    + right. exists b, c, c. repeat split; [| |apply lookup_insert|lia].
      * subst r'. cbn [infos]. destruct (infos (w_reg w) !! serial (w_reg w)) as [inf|] eqn:E; [|reflexivity].
        apply (ro_below _ _ HR) in E. lia.
      * lia.
  - intros b0 id0 c0 Hb. apply lookup_insert_Some in Hb as [[<- [= <- <-]]|[Hne Hb]].
    + rewrite (note_id_new _ _ _ Hfresh), id_of_snoc, Hfresh. rewrite decide_True by reflexivity. reflexivity.
    + apply note_id_ext. eapply (c_bgp _ _ _ H), Hb.
  - intros b0. destruct (decide (b0 = b)) as [->|Hne].
    + rewrite !lookup_insert. reflexivity.
    + rewrite !lookup_insert_ne by congruence. apply (c_sbgp _ _ _ H).
  - rewrite ?(c_conns _ _ _ H). reflexivity.
Qed.

Lemma step_bgp_update bd w sw L b u :
  CtlOK bd w sw -> RibOK (w_ids w) (s_rib sw) L ->
  CtlOK bd (wstep w (WBgpUpdate b u)).1 (sstep sw (WBgpUpdate b u)).1 /\
  RibOK (w_ids (wstep w (WBgpUpdate b u)).1) (s_rib (sstep sw (WBgpUpdate b u)).1) (Lstep L (step_evs (wstep w (WBgpUpdate b u)).2)).
Proof.
  intros H HRib. cbn [wstep sstep]. rewrite (c_sbgp _ _ _ H).
  destruct (w_bgp w !! b) as [[id c]|] eqn:Hb; cbn [fmap option_fmap option_map snd].
  2:{ cbn [fst snd]. split; [exact H|]. eapply RibOK_ext; [exact HRib|reflexivity]. }
  destruct u as [u|].
  2:{ cbn [fst snd]. split; [exact H|]. eapply RibOK_ext; [exact HRib|reflexivity]. }
  cbn [fst snd]. wproj. split; [apply CtlOK_rib, H|].
  rewrite step_evs_step. eapply RibOK_update; [exact HRib|eapply (c_bgp _ _ _ H), Hb|reflexivity].
Qed.

Lemma step_bgp_close bd w sw L b :
  CtlOK bd w sw -> RibOK (w_ids w) (s_rib sw) L ->
  CtlOK bd (wstep w (WBgpClose b)).1 (sstep sw (WBgpClose b)).1 /\
  RibOK (w_ids (wstep w (WBgpClose b)).1) (s_rib (sstep sw (WBgpClose b)).1) (Lstep L (step_evs (wstep w (WBgpClose b)).2)).
Proof.
  intros H HRib. cbn [wstep sstep]. rewrite (c_sbgp _ _ _ H).
  destruct (w_bgp w !! b) as [[id c]|] eqn:Hb; cbn [fmap option_fmap option_map snd].
  2:{ cbn [fst snd]. split; [exact H|]. eapply RibOK_ext; [exact HRib|reflexivity]. }
  cbn [fst snd]. wproj. pose proof (c_bgp _ _ _ H _ _ _ Hb) as Hid. split.
  - destruct H as [A B C D E F G I J K]. split; wproj; try assumption.
    + intros b0 id0 c0 H0. apply lookup_delete_Some in H0 as [_ H0]. eapply I, H0.
    + intros b0. destruct (decide (b0 = b)) as [->|Hne]; [rewrite !lookup_delete; reflexivity|].
      rewrite !lookup_delete_ne by congruence. apply J.
  - rewrite step_evs_step. cbn [out_evs evs_of_update].
    eapply (RibOK_down _ _ _ _ [id]); [exact HRib| |reflexivity].
    intros x i Hx Hsole. rewrite bool_decide_eq_true, elem_of_list_singleton. split.
    + intros ->. congruence.
    + intros ->. symmetry. apply Hsole, Hid.
Qed.

(* the discipline the composition needs of a history: BMP router keys stay below the
   range reserved for BGP sessions in the wire-identity encoding (bgp_wid) *)
Definition op_ok (o : wop) : bool := match o with WConnect k => k <? 1000 | _ => true end.

Theorem step_inv bd w sw L o :
  CtlOK bd w sw -> RibOK (w_ids w) (s_rib sw) L -> op_ok o = true -> bd + 1 < two32 ->
  CtlOK (bd + 1) (wstep w o).1 (sstep sw o).1 /\
  RibOK (w_ids (wstep w o).1) (s_rib (sstep sw o).1) (Lstep L (step_evs (wstep w o).2)).
Proof.
  intros H HRib Hok Hbd.
  assert (Hm : forall w' sw', CtlOK bd w' sw' -> CtlOK (bd + 1) w' sw') by (intros; eapply CtlOK_mono; [eassumption|lia]).
  destruct o as [k|k m|k|b|b u|b|af pfx|k].
  - apply step_connect; try assumption. cbn in Hok. apply N.ltb_lt, Hok.
  - apply step_msg; assumption.
  - destruct (step_disconnect bd w sw L k H HRib) as [A B]. split; [apply Hm, A|exact B].
  - apply step_bgp_open; assumption.
  - destruct (step_bgp_update bd w sw L b u H HRib) as [A B]. split; [apply Hm, A|exact B].
  - destruct (step_bgp_close bd w sw L b H HRib) as [A B]. split; [apply Hm, A|exact B].
  - cbn [wstep sstep fst snd]. split; [apply Hm, H|]. eapply RibOK_ext; [exact HRib|reflexivity].
  - cbn [wstep sstep fst snd]. split; [apply Hm, H|]. eapply RibOK_ext; [exact HRib|reflexivity].
Qed.

(* ================================================================== *)
(* 7. all histories                                                    *)
(* ================================================================== *)

Definition disciplined (ops : list wop) : bool := forallb op_ok ops.

Lemma world_init_eq : world_init = MkWorld (MkReg 2 ∅) 1 ∅ rib_empty ∅ ∅ [].
Proof. reflexivity. Qed.

Lemma inv_init : CtlOK 2 world_init sworld_init /\ RibOK (w_ids world_init) (s_rib sworld_init) (fun _ => None).
Proof.
  rewrite world_init_eq. unfold sworld_init. split; split; wproj; cbn [serial infos].
  - split; cbn [serial infos]; try (intros *; rewrite lookup_empty; discriminate); [lia|apply lookup_empty].
  - lia.
  - intros k _. apply lookup_empty.
  - intros k rid s Hk. rewrite lookup_empty in Hk. discriminate.
  - intros k rid s Hk. rewrite lookup_empty in Hk. discriminate.
  - intros k rid s p i Hk. rewrite lookup_empty in Hk. discriminate.
  - intros x i Hx. discriminate.
  - intros b id c Hb. rewrite lookup_empty in Hb. discriminate.
  - intros b. rewrite !lookup_empty. reflexivity.
  - reflexivity.
  - intros x i f p _ Hx. discriminate.
  - intros x f p _. apply lookup_empty.
  - intros f p i Hn. congruence.
Qed.

Lemma evs_of_app us vs : evs_of (us ++ vs) = evs_of us ++ evs_of vs.
Proof. unfold evs_of. rewrite map_app, concat_app. reflexivity. Qed.

Lemma spec_lookup_snoc ops o key :
  spec_lookup (evs_of (world_updates (ops ++ [o]))) key =
  Lstep (spec_lookup (evs_of (world_updates ops))) (step_evs (wstep (run_world ops).1 o).2) key.
Proof. rewrite world_updates_snoc, evs_of_app. unfold spec_lookup, Lstep. apply fold_left_app. Qed.

(* the simulation invariant holds after every disciplined history short of the u32 wrap *)
Theorem run_inv ops :
  disciplined ops = true -> N.of_nat (length ops) < two32 - 2 ->
  CtlOK (2 + N.of_nat (length ops)) (run_world ops).1 (run_sworld ops).1 /\
  RibOK (w_ids (run_world ops).1) (s_rib (run_sworld ops).1) (spec_lookup (evs_of (world_updates ops))).
Proof.
  pose proof two32_val as H32. induction ops as [|o ops IH] using rev_ind; intros Hd Hlen.
  - destruct inv_init as [A B]. split; [exact A|]. eapply RibOK_ext; [exact B|reflexivity].
  - unfold disciplined in *. rewrite forallb_app in Hd. apply andb_true_iff in Hd as [Hd Ho].
    cbn [forallb] in Ho. rewrite andb_true_r in Ho.
    rewrite app_length in *. cbn [length] in *. rewrite Nat.add_1_r, Nat2N.inj_succ in *.
    destruct IH as [A B]; [exact Hd|lia|].
    rewrite run_world_snoc, run_sworld_snoc. cbn [fst snd].
    destruct (step_inv _ _ _ _ o A B Ho) as [A' B']; [lia|]. split.
    + eapply CtlOK_mono; [exact A'|lia].
    + eapply RibOK_ext; [exact B'|]. intros key. apply spec_lookup_snoc.
Qed.

(* THE REFINEMENT. For every disciplined history, every wire identity x that was given
   ingress id i and is the only one that was, and every (family, prefix): the ideal RIB's
   entry for x is the last-event reading of the updates the pipeline applied, at id i. *)
Theorem pipe_refines_ideal_sole ops x i f p :
  disciplined ops = true -> N.of_nat (length ops) < two32 - 2 -> f < 4 ->
  id_of (w_ids (run_world ops).1) x = Some i -> sole (w_ids (run_world ops).1) x i ->
  s_rib (run_sworld ops).1 !! (f, p, x) = spec_lookup (evs_of (world_updates ops)) (f, p, i).
Proof. intros Hd Hlen Hf Hx Hs. destruct (run_inv ops Hd Hlen) as [_ B]. apply (rk_rib _ _ _ B); assumption. Qed.

Theorem pipe_refines_ideal ops x i f p :
  disciplined ops = true -> N.of_nat (length ops) < two32 - 2 -> f < 4 ->
  NoShare (w_ids (run_world ops).1) ->
  id_of (w_ids (run_world ops).1) x = Some i ->
  s_rib (run_sworld ops).1 !! (f, p, x) = spec_lookup (evs_of (world_updates ops)) (f, p, i).
Proof. intros Hd Hlen Hf HN Hx. apply pipe_refines_ideal_sole; try assumption. apply NoShare_sole; assumption. Qed.

(* companion: a wire identity that never got an id has no entry in the ideal RIB *)
Theorem pipe_no_id_no_entry ops x f p :
  disciplined ops = true -> N.of_nat (length ops) < two32 - 2 ->
  id_of (w_ids (run_world ops).1) x = None -> s_rib (run_sworld ops).1 !! (f, p, x) = None.
Proof. intros Hd Hlen Hx. destruct (run_inv ops Hd Hlen) as [_ B]. apply (rk_none _ _ _ B), Hx. Qed.

(* and an id nobody was given has no route in the pipeline's RIB *)
Theorem pipe_no_owner_no_route ops f p i :
  disciplined ops = true -> N.of_nat (length ops) < two32 - 2 ->
  (forall x, id_of (w_ids (run_world ops).1) x <> Some i) ->
  rib_lookup (w_rib (run_world ops).1) (f, p, i) = None.
Proof.
  intros Hd Hlen Hno. destruct (run_inv ops Hd Hlen) as [_ B].
  rewrite world_rib_is_run, rib_lookup_spec.
  destruct (spec_lookup (evs_of (world_updates ops)) (f, p, i)) as [[s a]|] eqn:E; [exfalso|reflexivity].
  destruct (rk_L _ _ _ B f p i) as [x Hx]; [congruence|]. apply (Hno x Hx).
Qed.

(* COROLLARY: the code's RIB shows for every wire identity exactly the property's answer,
   except that once a session-wide withdrawal hit (family, id) the entry stays withdrawn
   (class K3 = known finding C03-1). *)
Theorem pipe_rib_answer_sole ops x i f p :
  disciplined ops = true -> N.of_nat (length ops) < two32 - 2 -> f < 4 ->
  id_of (w_ids (run_world ops).1) x = Some i -> sole (w_ids (run_world ops).1) x i ->
  rib_lookup (w_rib (run_world ops).1) (f, p, i) =
  match s_rib (run_sworld ops).1 !! (f, p, x) with
  | Some (s, a) => Some (s && negb (downed (evs_of (world_updates ops)) (f, p, i)), a)
  | None => None
  end.
Proof.
  intros Hd Hlen Hf Hx Hs. rewrite (pipe_refines_ideal_sole ops x i f p Hd Hlen Hf Hx Hs), world_rib_is_run.
  apply rib_lookup_spec.
Qed.

Theorem pipe_rib_answer ops x i f p :
  disciplined ops = true -> N.of_nat (length ops) < two32 - 2 -> f < 4 ->
  NoShare (w_ids (run_world ops).1) ->
  id_of (w_ids (run_world ops).1) x = Some i ->
  rib_lookup (w_rib (run_world ops).1) (f, p, i) =
  match s_rib (run_sworld ops).1 !! (f, p, x) with
  | Some (s, a) => Some (s && negb (downed (evs_of (world_updates ops)) (f, p, i)), a)
  | None => None
  end.
Proof. intros Hd Hlen Hf HN Hx. apply pipe_rib_answer_sole; try assumption. apply NoShare_sole; assumption. Qed.

(* where no session-wide withdrawal ever hit (family, id) the two RIBs agree outright *)
Corollary pipe_rib_exact ops x i f p :
  disciplined ops = true -> N.of_nat (length ops) < two32 - 2 -> f < 4 ->
  NoShare (w_ids (run_world ops).1) ->
  id_of (w_ids (run_world ops).1) x = Some i ->
  downed (evs_of (world_updates ops)) (f, p, i) = false ->
  rib_lookup (w_rib (run_world ops).1) (f, p, i) = s_rib (run_sworld ops).1 !! (f, p, x).
Proof.
  intros Hd Hlen Hf HN Hx Hdn. rewrite (pipe_rib_answer ops x i f p Hd Hlen Hf HN Hx), Hdn.
  destruct (s_rib (run_sworld ops).1 !! (f, p, x)) as [[s a]|]; [rewrite andb_true_r|]; reflexivity.
Qed.

(* ================================================================== *)
(* 8. families: with announcements confined to the four families the RIB knows,
      the premise f < 4 on the key asked about can be dropped              *)
(* ================================================================== *)

Definition upd_fams_ok (u : upd) : bool :=
  match u with
  | UEor _ => true
  | URoutes af _ _ _ _ => af <? 4
  | UGen _ _ _ ann _ _ => forallb (fun fp : N * N => fp.1 <? 4) ann
  end.
Definition op_fams_ok (o : wop) : bool :=
  match o with
  | WMsg _ (MRoute _ (Some u)) | WBgpUpdate _ (Some u) => upd_fams_ok u
  | _ => true
  end.
Definition fams_ok (ops : list wop) : bool := forallb op_fams_ok ops.

Definition rib_fams (rb : irib) : Prop := forall f p x, rb !! (f, p, x) <> None -> f < 4.

Lemma ideal_down_fams rb ws : rib_fams rb -> rib_fams (ideal_down rb ws).
Proof.
  intros H f p x Hn. apply (H f p x). rewrite ideal_down_lookup in Hn. intros E. rewrite E in Hn.
  destruct (ws _); exact (Hn eq_refl).
Qed.

Lemma ideal_update_fams rb x0 u : upd_fams_ok u = true -> rib_fams rb -> rib_fams (ideal_update rb x0 u).
Proof.
  intros Hu H f p x Hn. destruct u as [fam|af ann a wf wd|lax c ff ann a wd]; cbn [ideal_update] in Hn; [apply (H f p x Hn)| |].
  - cbn [upd_fams_ok] in Hu. apply N.ltb_lt in Hu.
    destruct (decide (f = af)) as [->|Hne]; [exact Hu|]. apply (H f p x). intros E. apply Hn.
    rewrite fold_ann_lookup, fold_wd_lookup, E.
    rewrite (fold_ext _ (fun acc _ => acc)), fold_const.
    2:{ intros c0 q. destruct (decide ((f, p, x) = (af, q, x0))); [congruence|reflexivity]. }
    clear Hn. induction wd as [|q wd IH]; cbn [fold_left]; [reflexivity|]. destruct (decide _); exact IH.
  - cbn [upd_fams_ok] in Hu.
    destruct (decide (f < 4)) as [Hlt|Hge]; [exact Hlt|]. apply (H f p x). intros E. apply Hn.
    rewrite fold_ann_lookup_g, fold_wd_lookup_g, E.
    assert (Hw : fold_left (fun acc (q : N * N) => if decide ((f, p, x) = (q.1, q.2, x0)) then wdn acc else acc) wd None = None).
    { clear. induction wd as [|q wd IH]; cbn [fold_left]; [reflexivity|]. destruct (decide _); exact IH. }
    rewrite Hw. clear Hn Hw. induction ann as [|q ann IH]; cbn [fold_left]; [reflexivity|].
    cbn [forallb] in Hu. apply andb_true_iff in Hu as [Hq Hu]. apply N.ltb_lt in Hq.
    destruct (decide ((f, p, x) = (q.1, q.2, x0))) as [Eq|_]; [exfalso; apply Hge; injection Eq as -> _ _; exact Hq|].
    apply IH, Hu.
Qed.

Lemma sstep_fams sw o : op_fams_ok o = true -> rib_fams (s_rib sw) -> rib_fams (s_rib (sstep sw o).1).
Proof.
  intros Ho H. destruct o as [k|k m|k|b|b u|b|af pfx|k]; try exact H.
  - destruct (s_sess sw !! k) as [[[ph up] ever]|] eqn:Hs; [|cbn [sstep]; rewrite Hs; exact H].
    destruct (sstep_msg sw k m _ _ _ Hs) as (_ & _ & Hr & _). rewrite Hr. unfold istep.
    destruct ph, m as [| |q|q e|q|q [u|]]; try destruct (bool_decide _); cbn [snd]; try exact H;
      try (apply ideal_down_fams, H); (apply ideal_update_fams; [exact Ho|exact H]).
  - cbn [sstep]. destruct (s_sess sw !! k); [|exact H]. apply ideal_down_fams, H.
  - cbn [sstep]. destruct (s_bgp sw !! b) as [c|]; [|exact H]. destruct u as [u|]; [|exact H]. apply ideal_update_fams; [exact Ho|exact H].
  - cbn [sstep]. destruct (s_bgp sw !! b) as [c|]; [|exact H]. apply ideal_down_fams, H.
Qed.

Lemma run_sworld_fams ops : fams_ok ops = true -> rib_fams (s_rib (run_sworld ops).1).
Proof.
  induction ops as [|o ops IH] using rev_ind; intros Hd.
  - intros f p x Hn. exfalso. apply Hn. apply lookup_empty.
  - unfold fams_ok in *. rewrite forallb_app in Hd. apply andb_true_iff in Hd as [Hd Ho].
    cbn [forallb] in Ho. rewrite andb_true_r in Ho. rewrite run_sworld_snoc. cbn [fst]. apply sstep_fams; auto.
Qed.

Lemma upd_evs_ann_fam id u key a : upd_fams_ok u = true -> EAnn key a ∈ upd_evs id u -> k_fam key < 4.
Proof.
  intros Hu Hin. unfold upd_evs in Hin. apply elem_of_list_fmap in Hin as (pl & Hpl & Hin).
  destruct u as [fam|af ann a' wf wd|lax c ff ann a' wd]; cbn [payloads_of] in Hin; [inversion Hin| |].
  - cbn [upd_fams_ok] in Hu. apply N.ltb_lt in Hu.
    apply elem_of_app in Hin as [Hin|Hin]; apply elem_of_list_fmap in Hin as (q & -> & _); cbn in Hpl; [discriminate|].
    injection Hpl as -> _. exact Hu.
  - cbn [upd_fams_ok] in Hu.
    apply elem_of_app in Hin as [Hin|Hin]; apply elem_of_list_fmap in Hin as (q & -> & Hq); cbn in Hpl; [discriminate|].
    injection Hpl as -> _. cbn [k_fam fst].
    rewrite forallb_forall in Hu. apply N.ltb_lt, Hu, elem_of_list_In, Hq.
Qed.

Lemma wstep_ann_fam w o key a : op_fams_ok o = true -> EAnn key a ∈ step_evs (wstep w o).2 -> k_fam key < 4.
Proof.
  intros Ho Hin. destruct o as [k|k m|k|b|b u|b|af pfx|k]; cbn [wstep] in Hin.
  - destruct (find_or_register _ _ _) as [rid r']. inversion Hin.
  - destruct (w_routers w !! k) as [[rid s]|] eqn:Hr; [|inversion Hin].
    pose proof (step_routes_from_up_peer (w_reg w) rid s m) as Hps.
    destruct (sm_step (w_reg w) rid s m) as [[r' s'] out]. cbn [fst snd] in *. rewrite step_evs_step in Hin.
    destruct out as [| | |[ps|i fo|ms|]]; cbn [out_evs evs_of_update] in Hin; try (inversion Hin; fail).
    + destruct (Hps ps eq_refl) as (q & u & pe & -> & _ & -> & _). eapply upd_evs_ann_fam; [exact Ho|exact Hin].
    + apply elem_of_list_singleton in Hin. discriminate.
    + apply elem_of_list_fmap in Hin as (? & ? & _). discriminate.
  - destruct (w_routers w !! k) as [[rid s]|]; [|inversion Hin]. cbn [snd] in Hin. rewrite step_evs_step in Hin.
    apply elem_of_list_fmap in Hin as (? & ? & _). discriminate.
  - destruct (reg_register (w_reg w)) as [id r']. inversion Hin.
  - destruct (w_bgp w !! b) as [[id c]|]; [|inversion Hin]. destruct u as [u|]; [|inversion Hin].
    cbn [snd] in Hin. rewrite step_evs_step in Hin. eapply upd_evs_ann_fam; [exact Ho|exact Hin].
  - destruct (w_bgp w !! b) as [[id c]|]; [|inversion Hin]. cbn [snd] in Hin. rewrite step_evs_step in Hin.
    apply elem_of_list_singleton in Hin. discriminate.
  - inversion Hin.
  - inversion Hin.
Qed.

Lemma world_ann_fam ops key a : fams_ok ops = true -> EAnn key a ∈ evs_of (world_updates ops) -> k_fam key < 4.
Proof.
  induction ops as [|o ops IH] using rev_ind; intros Hd Hin; [inversion Hin|].
  unfold fams_ok in *. rewrite forallb_app in Hd. apply andb_true_iff in Hd as [Hd Ho].
  cbn [forallb] in Ho. rewrite andb_true_r in Ho.
  rewrite world_updates_snoc, evs_of_app in Hin. apply elem_of_app in Hin as [Hin|Hin]; [apply IH; assumption|].
  eapply wstep_ann_fam; [exact Ho|exact Hin].
Qed.

Lemma world_spec_fam ops f p i : fams_ok ops = true -> spec_lookup (evs_of (world_updates ops)) (f, p, i) <> None -> f < 4.
Proof.
  intros Hd Hn. unfold spec_lookup in Hn. apply fold_spec_some in Hn as [Hn|[a Ha]]; [congruence|].
  apply (world_ann_fam ops _ _ Hd Ha).
Qed.

(* the refinement exactly as the property reads, for every (family, prefix) *)
Theorem pipe_refines_ideal_all ops x i f p :
  disciplined ops = true -> fams_ok ops = true -> N.of_nat (length ops) < two32 - 2 ->
  NoShare (w_ids (run_world ops).1) ->
  id_of (w_ids (run_world ops).1) x = Some i ->
  s_rib (run_sworld ops).1 !! (f, p, x) = spec_lookup (evs_of (world_updates ops)) (f, p, i).
Proof.
  intros Hd Hf Hlen HN Hx. destruct (N.lt_ge_cases f 4) as [Hlt|Hge]; [apply pipe_refines_ideal; assumption|].
  destruct (s_rib (run_sworld ops).1 !! (f, p, x)) as [v|] eqn:E1.
  - pose proof (run_sworld_fams ops Hf f p x) as H. rewrite E1 in H. specialize (H ltac:(discriminate)). lia.
  - destruct (spec_lookup (evs_of (world_updates ops)) (f, p, i)) as [v|] eqn:E2; [|reflexivity].
    pose proof (world_spec_fam ops f p i Hf) as H. rewrite E2 in H. specialize (H ltac:(discriminate)). lia.
Qed.

Theorem pipe_rib_answer_all ops x i f p :
  disciplined ops = true -> fams_ok ops = true -> N.of_nat (length ops) < two32 - 2 ->
  NoShare (w_ids (run_world ops).1) ->
  id_of (w_ids (run_world ops).1) x = Some i ->
  rib_lookup (w_rib (run_world ops).1) (f, p, i) =
  match s_rib (run_sworld ops).1 !! (f, p, x) with
  | Some (s, a) => Some (s && negb (downed (evs_of (world_updates ops)) (f, p, i)), a)
  | None => None
  end.
Proof.
  intros Hd Hf Hlen HN Hx. rewrite (pipe_refines_ideal_all ops x i f p Hd Hf Hlen HN Hx), world_rib_is_run.
  apply rib_lookup_spec.
Qed.

(* ================================================================== *)
(* 9. isolation by wire identity (C02)                                  *)
(* ================================================================== *)

Definition ends_session (o : wop) : bool :=
  match o with
  | WDisconnect _ | WBgpClose _ | WMsg _ (MPeerDown _) | WMsg _ MTerm => true
  | _ => false
  end.

(* the wire identities a session-ending op names, given which sessions are live *)
Definition named (sw : sworld) (o : wop) (x : wid) : bool :=
  match o with
  | WDisconnect k => bool_decide (is_Some (s_sess sw !! k)) && bool_decide (x.1 = k)
  | WBgpClose b => match s_bgp sw !! b with Some c => bool_decide (x = bgp_wid b c) | None => false end
  | WMsg k (MPeerDown p) =>
      match s_sess sw !! k with
      | Some ((PDump | PUpd), up, _) => bool_decide (p ∈ up) && bool_decide (x = (k, p))
      | _ => false
      end
  | WMsg k MTerm =>
      match s_sess sw !! k with
      | Some ((PDump | PUpd), up, _) => bool_decide (x.1 = k /\ x.2 ∈ up)
      | _ => false
      end
  | _ => false
  end.

(* ideal RIB: a session-ending op turns exactly the entries of the identities it names to
   withdrawn (attributes kept) and leaves every other entry as it was *)
Theorem session_end_exact sw o f p x :
  ends_session o = true ->
  s_rib (sstep sw o).1 !! (f, p, x) =
  if named sw o x then wdn (s_rib sw !! (f, p, x)) else s_rib sw !! (f, p, x).
Proof.
  intros He. destruct o as [k|k m|k|b|b u|b|af pfx|k]; try discriminate; cbn [sstep named].
  - destruct m as [| |q|q e|q|q u]; try discriminate.
    + destruct (s_sess sw !! k) as [[[ph up] ever]|]; [|reflexivity].
      destruct ph; cbn [fst s_rib]; rewrite ?ideal_down_lookup; reflexivity.
    + destruct (s_sess sw !! k) as [[[ph up] ever]|]; [|reflexivity].
      destruct ph; cbn [fst s_rib]; try reflexivity;
        (destruct (bool_decide (q ∈ up)); cbn [fst s_rib andb]; rewrite ?ideal_down_lookup; reflexivity).
  - destruct (s_sess sw !! k) as [st|]; cbn [fst s_rib].
    + rewrite bool_decide_true by eauto. rewrite ideal_down_lookup. reflexivity.
    + rewrite bool_decide_false by (intros [? ?]; discriminate). reflexivity.
  - destruct (s_bgp sw !! b) as [c|]; cbn [fst s_rib]; rewrite ?ideal_down_lookup; reflexivity.
Qed.

Lemma ends_keep_ids w o : ends_session o = true -> w_ids (wstep w o).1 = w_ids w.
Proof.
  intros He. destruct o as [k|k m|k|b|b u|b|af pfx|k]; try discriminate; cbn [wstep].
  - destruct (w_routers w !! k) as [[rid s]|]; [|reflexivity].
    destruct (sm_step (w_reg w) rid s m) as [[r' s'] out]. destruct m; try discriminate; reflexivity.
  - destruct (w_routers w !! k) as [[rid s]|]; reflexivity.
  - destruct (w_bgp w !! b) as [[id c]|]; reflexivity.
Qed.

(* pipeline: read per ingress id, the updates a session-ending op sends to the RIB withdraw
   exactly the routes of the wire identities the op names - unless ids are shared (K2) *)
Theorem pipe_session_end_isolated ops o x i f p :
  disciplined (ops ++ [o]) = true -> N.of_nat (length (ops ++ [o])) < two32 - 2 -> f < 4 ->
  ends_session o = true ->
  NoShare (w_ids (run_world ops).1) -> id_of (w_ids (run_world ops).1) x = Some i ->
  spec_lookup (evs_of (world_updates (ops ++ [o]))) (f, p, i) =
  if named (run_sworld ops).1 o x then wdn (spec_lookup (evs_of (world_updates ops)) (f, p, i))
  else spec_lookup (evs_of (world_updates ops)) (f, p, i).
Proof.
  intros Hd Hlen Hf He HN Hx.
  assert (Hids : w_ids (run_world (ops ++ [o])).1 = w_ids (run_world ops).1)
    by (rewrite run_world_snoc; cbn [fst]; apply ends_keep_ids, He).
  assert (Hd0 : disciplined ops = true).
  { unfold disciplined in *. rewrite forallb_app in Hd. apply andb_true_iff in Hd as [Hd _]. exact Hd. }
  assert (Hlen0 : N.of_nat (length ops) < two32 - 2) by (rewrite app_length in Hlen; cbn [length] in Hlen; lia).
  rewrite <- (pipe_refines_ideal (ops ++ [o]) x i f p Hd Hlen Hf) by (rewrite Hids; assumption).
  rewrite <- (pipe_refines_ideal ops x i f p Hd0 Hlen0 Hf HN Hx).
  rewrite run_sworld_snoc. cbn [fst]. apply session_end_exact, He.
Qed.

(* ---- a non-trivial history that meets every premise ---- *)
Definition compose_example : list wop :=
  [WConnect 0; WMsg 0 MInit; WMsg 0 (MPeerUp pA false);
   WMsg 0 (MRoute pA (Some (URoutes 0 [1; 2] 3 0 [])));
   WBgpOpen 0; WBgpUpdate 0 (Some (URoutes 0 [1] 4 0 []));
   WMsg 0 (MPeerDown pA); WBgpClose 0; WBgpOpen 0; WBgpUpdate 0 (Some (URoutes 0 [2] 5 0 [1]));
   WDisconnect 0; WConnect 0; WMsg 0 MInit; WMsg 0 (MPeerUp pA false);
   WMsg 0 (MRoute pA (Some (URoutes 0 [1] 6 0 [])))].

Lemma NoShare_dec ids :
  forallb (fun a : wid * N => forallb (fun b : wid * N => implb (N.eqb a.2 b.2) (bool_decide (a.1 = b.1))) ids) ids = true ->
  NoShare ids.
Proof.
  intros H w1 w2 i H1 H2. rewrite forallb_forall in H.
  apply elem_of_list_In in H1, H2. specialize (H _ H1). rewrite forallb_forall in H. specialize (H _ H2).
  cbn [fst snd] in H. rewrite N.eqb_refl in H. cbn [implb] in H. apply bool_decide_eq_true in H. exact H.
Qed.

Lemma compose_example_ok :
  disciplined compose_example = true /\ fams_ok compose_example = true /\
  N.of_nat (length compose_example) < two32 - 2 /\
  NoShare (w_ids (run_world compose_example).1) /\
  w_ids (run_world compose_example).1 = [((0, pA), 3); (bgp_wid 0 0, 4); (bgp_wid 0 1, 5)] /\
  s_rib (run_sworld compose_example).1 !! (0, 1, (0, pA)) = Some (true, 6) /\
  rib_lookup (w_rib (run_world compose_example).1) (0, 1, 3) = Some (false, 6) /\
  s_rib (run_sworld compose_example).1 !! (0, 2, bgp_wid 0 1) = Some (true, 5) /\
  rib_lookup (w_rib (run_world compose_example).1) (0, 2, 5) = Some (true, 5).
Proof.
  split; [reflexivity|]. split; [reflexivity|]. split; [vm_compute; reflexivity|].
  split; [apply NoShare_dec; vm_compute; reflexivity|].
  split; [vm_compute; reflexivity|]. repeat split; vm_compute; reflexivity.
Qed.

(* ---- the same isolation read off the code's RIB ---- *)
Lemma ends_evs w o : ends_session o = true -> exists ms, step_evs (wstep w o).2 = map (fun m => EDown m None) ms.
Proof.
  intros He. destruct o as [k|k m|k|b|b u|b|af pfx|k]; try discriminate; cbn [wstep].
  - destruct (w_routers w !! k) as [[rid s]|]; [|exists []; reflexivity].
    destruct (sm_step (w_reg w) rid s m) as [[r' s'] out] eqn:Est. cbn [snd]. rewrite step_evs_step.
    assert (Ho : out = (sm_step (w_reg w) rid s m).2) by (rewrite Est; reflexivity). clear Est. subst out.
    destruct (sm_phase s) eqn:Eph.
    + exists []. unfold sm_step. rewrite Eph. destruct m; try discriminate; reflexivity.
    + rewrite sm_step_live by (left; exact Eph). destruct m as [| |q|q e|q|q u]; try discriminate; cbn [live_step].
      * unfold terminate. cbn [snd]. exists (map (fun kv : pph * peer => pe_id kv.2) (map_to_list (sm_peers s))).
        destruct (map _ (map_to_list (sm_peers s))); reflexivity.
      * destruct (peer_down_spec (w_reg w) s q) as [pe E|E]; [exists [pe_id pe]|exists []]; reflexivity.
    + rewrite sm_step_live by (right; exact Eph). destruct m as [| |q|q e|q|q u]; try discriminate; cbn [live_step].
      * unfold terminate. cbn [snd]. exists (map (fun kv : pph * peer => pe_id kv.2) (map_to_list (sm_peers s))).
        destruct (map _ (map_to_list (sm_peers s))); reflexivity.
      * destruct (peer_down_spec (w_reg w) s q) as [pe E|E]; [exists [pe_id pe]|exists []]; reflexivity.
    + exists []. unfold sm_step. rewrite Eph. destruct m; try discriminate; reflexivity.
  - destruct (w_routers w !! k) as [[rid s]|]; [|exists []; reflexivity]. cbn [snd]. rewrite step_evs_step. eexists. reflexivity.
  - destruct (w_bgp w !! b) as [[id c]|]; [|exists []; reflexivity]. cbn [snd]. rewrite step_evs_step. exists [id]. reflexivity.
Qed.

Lemma downed_downs h ms f p i : f < 4 ->
  downed (h ++ map (fun m => EDown m None) ms) (f, p, i) = downed h (f, p, i) || bool_decide (i ∈ ms).
Proof.
  intros Hf. unfold downed. rewrite existsb_app. f_equal.
  induction ms as [|m ms IH]; cbn [map existsb].
  - rewrite bool_decide_false; [reflexivity|]. intros H. inversion H.
  - rewrite IH. unfold down_hits, k_mui, k_fam. cbn [fst snd]. rewrite (bool_decide_true (f < 4)) by exact Hf. rewrite andb_true_r.
    apply bool_ext_iff. rewrite orb_true_iff, !bool_decide_eq_true, elem_of_cons. reflexivity.
Qed.

Theorem pipe_session_end_rib ops o x i f p :
  disciplined (ops ++ [o]) = true -> N.of_nat (length (ops ++ [o])) < two32 - 2 -> f < 4 ->
  ends_session o = true ->
  NoShare (w_ids (run_world ops).1) -> id_of (w_ids (run_world ops).1) x = Some i ->
  rib_lookup (w_rib (run_world (ops ++ [o])).1) (f, p, i) =
  if named (run_sworld ops).1 o x then wdn (rib_lookup (w_rib (run_world ops).1) (f, p, i))
  else rib_lookup (w_rib (run_world ops).1) (f, p, i).
Proof.
  intros Hd Hlen Hf He HN Hx.
  pose proof (pipe_session_end_isolated ops o x i f p Hd Hlen Hf He HN Hx) as Hiso.
  rewrite !world_rib_is_run, !rib_lookup_spec, Hiso.
  destruct (ends_evs (run_world ops).1 o He) as [ms Hms].
  assert (Hh : evs_of (world_updates (ops ++ [o])) = evs_of (world_updates ops) ++ map (fun m => EDown m None) ms).
  { rewrite world_updates_snoc, evs_of_app. f_equal. exact Hms. }
  assert (Hsp : spec_lookup (evs_of (world_updates (ops ++ [o]))) (f, p, i) =
                if bool_decide (i ∈ ms) then wdn (spec_lookup (evs_of (world_updates ops)) (f, p, i))
                else spec_lookup (evs_of (world_updates ops)) (f, p, i)).
  { rewrite Hh. unfold spec_lookup. rewrite fold_left_app. apply fold_spec_downs, Hf. }
  rewrite Hh, downed_downs by exact Hf. rewrite Hiso in Hsp.
  set (sp := spec_lookup (evs_of (world_updates ops)) (f, p, i)) in *.
  set (dn := downed (evs_of (world_updates ops)) (f, p, i)).
  destruct (named (run_sworld ops).1 o x).
  - destruct sp as [[s a]|]; reflexivity.
  - destruct sp as [[s a]|]; [|reflexivity]. destruct (bool_decide (i ∈ ms)).
    + cbn [wdn] in Hsp. injection Hsp as ->. reflexivity.
    + rewrite orb_false_r. reflexivity.
Qed.
