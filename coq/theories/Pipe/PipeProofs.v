From stdpp Require Import gmap.
From Coq Require Import NArith Lia.
From RV Require Import Ingress.IngressModel Ingress.IngressProofs Rib.RibModel Rib.RibProofs
  Bmp.BmpModel Bmp.BmpProofs Pipe.PipeModel.

(* ---- an UPDATE that does not parse sends nothing downstream and changes no session state ---- *)
Lemma unparsable_route_is_invalid r rid s p : (sm_step r rid s (MRoute p None)).2 = OInvalid.
Proof.
  apply step_invalid_iff. unfold violates. destruct (sm_phase s); try reflexivity; apply orb_true_r.
Qed.

Lemma unparsable_route_noop r rid s p rb :
  apply_outcome rb (sm_step r rid s (MRoute p None)).2 = rb /\
  sm_phase (sm_step r rid s (MRoute p None)).1.2 = sm_phase s /\
  sm_peers (sm_step r rid s (MRoute p None)).1.2 = sm_peers s.
Proof.
  pose proof (unparsable_route_is_invalid r rid s p) as H. rewrite H. split; [reflexivity|].
  apply step_invalid_noop, H.
Qed.

(* ---- a prefix both withdrawn and announced in one UPDATE ends up announced ---- *)
Lemma fold_spec_other k acc l :
  (forall e, e ∈ l -> match e with EAnn k' _ | EWdr k' => k' <> k | EDown _ _ => False end) ->
  fold_left (spec_step k) l acc = acc.
Proof.
  revert acc. induction l as [|e l IH]; intros acc H; [reflexivity|]. cbn [fold_left].
  rewrite IH by (intros e' He'; apply H; right; exact He').
  specialize (H e (elem_of_list_here _ _)). destruct e as [k' a|k'|m f]; cbn [spec_step];
    [rewrite bool_decide_false by exact H; reflexivity..|contradiction].
Qed.

Lemma fold_spec_anns f id a ann p : forall acc, p ∈ ann ->
  fold_left (spec_step (f, p, id)) (map (fun q => EAnn (f, q, id) a) ann) acc = Some (true, a).
Proof.
  induction ann as [|q ann IH]; intros acc Hin; [inversion Hin|]. cbn [map fold_left spec_step].
  destruct (decide (p ∈ ann)) as [Hp|Hp]; [apply IH, Hp|].
  apply elem_of_cons in Hin as [->|Hin]; [|contradiction].
  rewrite bool_decide_true by reflexivity.
  apply fold_spec_other. intros e He. apply elem_of_list_fmap in He as (x & -> & Hx).
  intros [= ->]. contradiction.
Qed.

Lemma overlap_ends_announced us id f ann a wf wd p :
  p ∈ ann ->
  spec_lookup (evs_of (us ++ [UBulk (payloads_of id (URoutes f ann a wf wd))])) (f, p, id) = Some (true, a).
Proof.
  intros Hin. unfold spec_lookup, evs_of. rewrite map_app, concat_app, fold_left_app. cbn [map concat evs_of_update].
  rewrite app_nil_r. cbn [payloads_of]. rewrite map_app, fold_left_app.
  rewrite !map_map. cbn [ev_of_payload p_active p_key p_attrs].
  apply fold_spec_anns, Hin.
Qed.

(* ---- an ingress id answers the queries of one identity only ---- *)
Lemma id_answers_one_identity r q1 q2 x :
  x ∈ reg_find_peers r q1 -> x ∈ reg_find_peers r q2 ->
  i_parent q1 = i_parent q2 /\ i_addr q1 = i_addr q2 /\ i_asn q1 = i_asn q2 /\ i_rib q1 = i_rib q2.
Proof.
  unfold reg_find_peers. rewrite !elem_of_find_all.
  intros (i1 & H1 & M1) (i2 & H2 & M2). rewrite H1 in H2. injection H2 as <-.
  apply peer_match_spec in M1 as (_ & A1 & B1 & C1 & D1).
  apply peer_match_spec in M2 as (_ & A2 & B2 & C2 & D2). repeat split; congruence.
Qed.

(* peers whose (address, AS, RIB view) agree ask the register the same question: that is all it keys on *)
Lemma same_query_iff rid p1 p2 :
  peer_query rid p1 = peer_query rid p2 <->
  ph_addr p1 = ph_addr p2 /\ ph_asn p1 = ph_asn p2 /\ ph_rib_type p1 = ph_rib_type p2.
Proof. unfold peer_query. split; [intros [= -> -> ->]; auto|intros (-> & -> & ->); reflexivity]. Qed.

(* ---- refutations, computed on the pipeline model ---- *)
Definition run_world (ops : list wop) : world * list wout :=
  fold_left (fun acc o => let '(w, outs) := acc in let '(w', x) := wstep w o in (w', outs ++ [x])) ops (world_init, []).
Definition run_sworld (ops : list wop) : sworld * list sout :=
  fold_left (fun acc o => let '(w, outs) := acc in let '(w', x) := sstep w o in (w', outs ++ [x])) ops (sworld_init, []).

Definition pA : pph := (0, 0, 0, 0, 1, 65001, 1)%N.
Definition pB : pph := (0, 0, 0, 0, 1, 65001, 2)%N.   (* same peer address and AS, another BGP id *)

(* C02: two peers that differ in their BGP id only share an ingress id; the
   Peer Down of one withdraws the other's route *)
Definition c02_witness : list wop :=
  [WConnect 0; WMsg 0 MInit; WMsg 0 (MPeerUp pA false); WMsg 0 (MPeerUp pB false);
   WMsg 0 (MRoute pA (Some (URoutes 0 [1%N] 3 0 []))); WMsg 0 (MPeerDown pB); WQuery 0 1].

Lemma c02_shared_id_witness :
  (exists id, w_ids (run_world c02_witness).1 = [((0%N, pA), id); ((0%N, pB), id)]) /\
  last (run_world c02_witness).2 = Some (WoEntries [(3%N, false, 3%N)]) /\
  last (run_sworld c02_witness).2 = Some (SoEntries [((0%N, pA), true, 3%N)]).
Proof. vm_compute. split; [eexists; reflexivity|split; reflexivity]. Qed.

(* C03: a route announced after its session came back is still reported withdrawn *)
Definition c03_witness : list update :=
  [UBulk [MkPay (0, 1, 7)%N true 3]; UWithdraw 7 None; UBulk [MkPay (0, 1, 7)%N true 4]].
Lemma c03_flap_witness :
  rib_lookup (rib_run c03_witness) (0, 1, 7)%N = Some (false, 4%N) /\
  spec_lookup (evs_of c03_witness) (0, 1, 7)%N = Some (true, 4%N).
Proof. vm_compute. split; reflexivity. Qed.
