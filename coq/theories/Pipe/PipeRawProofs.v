(* Proofs about the wire-level feeding of the pipeline (PipeRaw.v). *)
From stdpp Require Import gmap.
From Coq Require Import NArith Lia.
From RV Require Import Ingress.IngressModel Rib.RibModel Bmp.BmpModel Bmp.BmpProofs Pipe.PipeModel Pipe.PipeProofs Pipe.PipeCompose Pipe.PipeRaw.
From RV Require Bgp.BgpModel Bgp.BgpProofs.

Local Open Scope N_scope.

(* ---------- the numbering of octet strings is injective ---------- *)
Lemma bytes_code_pos bs : 1 <= bytes_code bs.
Proof. induction bs as [|b r IH]; cbn [bytes_code]; lia. Qed.

Lemma bytes_code_inj x : forall y,
  BgpModel.bytes_ok x = true -> BgpModel.bytes_ok y = true -> bytes_code x = bytes_code y -> x = y.
Proof.
  induction x as [|a x IH]; intros [|b y] Hx Hy Hc; cbn [bytes_code] in Hc.
  - reflexivity.
  - pose proof (bytes_code_pos y). lia.
  - pose proof (bytes_code_pos x). lia.
  - apply BgpProofs.bytes_ok_cons in Hx as [Ha Hx]. apply BgpProofs.bytes_ok_cons in Hy as [Hb Hy].
    assert (a = b) as -> by lia. f_equal. apply IH; [assumption..|lia].
Qed.

(* ---------- prefixes ---------- *)
Lemma pfx_code_inj p q :
  BgpModel.p_len p < 256 -> BgpModel.p_len q < 256 ->
  BgpModel.bytes_ok (BgpModel.p_bytes p) = true -> BgpModel.bytes_ok (BgpModel.p_bytes q) = true ->
  pfx_code p = pfx_code q -> p = q.
Proof.
  destruct p as [lp bp], q as [lq bq]. unfold pfx_code. cbn [BgpModel.p_len BgpModel.p_bytes].
  intros Hlp Hlq Hbp Hbq Hc. assert (lp = lq) as -> by lia. f_equal. apply bytes_code_inj; [assumption..|lia].
Qed.

Lemma pfx_wf_code_inj m m' p q : m < 256 -> m' < 256 ->
  BgpModel.pfx_wf m p = true -> BgpModel.pfx_wf m' q = true -> pfx_code p = pfx_code q -> p = q.
Proof.
  intros Hm Hm' Hp Hq. apply BgpProofs.pfx_wf_inv in Hp as (Hlp & _ & Hbp & _). apply BgpProofs.pfx_wf_inv in Hq as (Hlq & _ & Hbq & _).
  apply pfx_code_inj; [lia|lia|assumption..].
Qed.

Lemma fam_code_inj f g : fam_code f = fam_code g -> f = g.
Proof. destruct f, g; cbn; intros H; try reflexivity; discriminate. Qed.

Lemma fam_code_lt f : fam_code f < 4.
Proof. destruct f; cbn; lia. Qed.

Definition route_wf (fp : BgpModel.fam * BgpModel.pfx) : Prop := BgpModel.pfx_wf (BgpModel.fam_maxlen fp.1) fp.2 = true.

Lemma route_code_inj r r' : route_wf r -> route_wf r' -> route_code r = route_code r' -> r = r'.
Proof.
  destruct r as [f p], r' as [g q]. unfold route_wf, route_code. cbn [fst snd]. intros Hp Hq [= Hf Hc].
  apply fam_code_inj in Hf as ->. f_equal.
  eapply pfx_wf_code_inj; [apply BgpProofs.fam_maxlen_lt|apply BgpProofs.fam_maxlen_lt|eassumption..].
Qed.

(* the routes of a well-formed UPDATE are well-formed prefixes of their family *)
Lemma mp_routes_wf n : BgpModel.mpnlri_wf n = true -> Forall route_wf (BgpModel.mp_routes n).
Proof.
  destruct n as [f ps|a s raw]; cbn [BgpModel.mp_routes BgpModel.mpnlri_wf]; [|constructor].
  intros H. apply Forall_forall. intros x Hx. apply elem_of_list_fmap in Hx as (p & -> & Hp).
  unfold route_wf. cbn [fst snd]. rewrite List.forallb_forall in H. apply H. apply elem_of_list_In, Hp.
Qed.

Lemma first_reach_wf l : List.forallb BgpModel.attr_wf l = true -> Forall route_wf (BgpModel.opt_routes (BgpModel.first_reach l)).
Proof.
  induction l as [|a l IH]; cbn [List.forallb BgpModel.first_reach BgpModel.opt_routes]; [constructor|].
  intros H. apply andb_prop in H as [Ha Hl]. destruct a as [fl ty v|fl nh rsv n|fl n]; try (apply IH, Hl).
  cbn [BgpModel.opt_routes]. apply BgpProofs.attr_wf_inv in Ha as (_ & _ & _ & _ & _ & Hn). apply mp_routes_wf, Hn.
Qed.

Lemma first_unreach_wf l : List.forallb BgpModel.attr_wf l = true -> Forall route_wf (BgpModel.opt_routes (BgpModel.first_unreach l)).
Proof.
  induction l as [|a l IH]; cbn [List.forallb BgpModel.first_unreach BgpModel.opt_routes]; [constructor|].
  intros H. apply andb_prop in H as [Ha Hl]. destruct a as [fl ty v|fl nh rsv n|fl n]; try (apply IH, Hl).
  cbn [BgpModel.opt_routes]. apply BgpProofs.attr_wf_inv in Ha as (_ & _ & _ & _ & Hn). apply mp_routes_wf, Hn.
Qed.

Lemma conv_routes_wf ps : List.forallb (BgpModel.pfx_wf 32) ps = true -> Forall route_wf (map (pair BgpModel.F4U) ps).
Proof.
  intros H. apply Forall_forall. intros x Hx. apply elem_of_list_fmap in Hx as (p & -> & Hp).
  unfold route_wf. cbn [fst snd BgpModel.fam_maxlen]. rewrite List.forallb_forall in H. apply H, elem_of_list_In, Hp.
Qed.

Lemma wf_routes u : BgpModel.wf u = true -> Forall route_wf (ann_routes u ++ wd_routes u).
Proof.
  intros H. apply BgpProofs.wf_inv in H as (Hw & Ha & Hn & _).
  unfold ann_routes, wd_routes. repeat apply Forall_app_2;
    [apply first_reach_wf, Ha|apply conv_routes_wf, Hn|apply first_unreach_wf, Ha|apply conv_routes_wf, Hw].
Qed.

(* the translation of prefixes is injective over everything well-formed UPDATEs can name *)
Lemma raw_route_code_inj u u' r r' : BgpModel.wf u = true -> BgpModel.wf u' = true ->
  r ∈ ann_routes u ++ wd_routes u -> r' ∈ ann_routes u' ++ wd_routes u' -> route_code r = route_code r' -> r = r'.
Proof.
  intros Hu Hu' Hr Hr'. apply route_code_inj.
  - pose proof (wf_routes u Hu) as H. rewrite Forall_forall in H. apply H, Hr.
  - pose proof (wf_routes u' Hu') as H. rewrite Forall_forall in H. apply H, Hr'.
Qed.

(* ---------- attribute lists ---------- *)
Lemma mp_unique_okc l : BgpModel.mp_unique l = true ->
  BgpProofs.okc false (BgpModel.count_if BgpModel.is_reach l) /\ BgpProofs.okc false (BgpModel.count_if BgpModel.is_unreach l).
Proof. unfold BgpModel.mp_unique. rewrite andb_true_iff, !Nat.leb_le. unfold BgpProofs.okc. auto. Qed.

Lemma enc_attrs_inj l l' :
  List.forallb BgpModel.attr_wf l = true -> BgpModel.mp_unique l = true ->
  List.forallb BgpModel.attr_wf l' = true -> BgpModel.mp_unique l' = true ->
  BgpModel.enc_attrs l = BgpModel.enc_attrs l' -> l = l'.
Proof.
  intros Hl Hu Hl' Hu' He. apply mp_unique_okc in Hu as [H1 H2]. apply mp_unique_okc in Hu' as [H1' H2'].
  pose proof (BgpProofs.dec_enc_attrs BgpModel.Code l false false (length (BgpModel.enc_attrs l)) Hl H1 H2 (Nat.le_refl _)) as D.
  pose proof (BgpProofs.dec_enc_attrs BgpModel.Code l' false false (length (BgpModel.enc_attrs l)) Hl' H1' H2') as D'.
  rewrite He in D. rewrite He in D'. specialize (D' (Nat.le_refl _)). rewrite D in D'. injection D' as ->. reflexivity.
Qed.

Lemma attrs_code_inj u u' : BgpModel.wf u = true -> BgpModel.wf u' = true ->
  attrs_code (BgpModel.u_attrs u) = attrs_code (BgpModel.u_attrs u') -> BgpModel.u_attrs u = BgpModel.u_attrs u'.
Proof.
  intros H H' Hc. apply BgpProofs.wf_inv in H as (_ & Ha & _ & Hu & _). apply BgpProofs.wf_inv in H' as (_ & Ha' & _ & Hu' & _).
  apply enc_attrs_inj; try assumption. apply bytes_code_inj; [apply BgpProofs.bytes_ok_enc_attrs, Ha|apply BgpProofs.bytes_ok_enc_attrs, Ha'|exact Hc].
Qed.

(* ---------- the Bulk of a decoded UPDATE = its route events, withdrawals first ---------- *)
Lemma filter_map_true {A B} (f : A -> B) (P : B -> bool) l : (forall x, P (f x) = true) -> List.filter P (map f l) = map f l.
Proof. intros H. induction l as [|x l IH]; [reflexivity|]. cbn [map List.filter]. rewrite H, IH. reflexivity. Qed.
Lemma filter_map_false {A B} (f : A -> B) (P : B -> bool) l : (forall x, P (f x) = false) -> List.filter P (map f l) = [].
Proof. intros H. induction l as [|x l IH]; [reflexivity|]. cbn [map List.filter]. rewrite H, IH. reflexivity. Qed.

Lemma events_split u :
  List.filter is_evw (BgpModel.events u) = map (fun fp => BgpModel.EvW fp.1 fp.2) (wd_routes u) /\
  List.filter (fun e => negb (is_evw e)) (BgpModel.events u) = map (fun fp => BgpModel.EvA fp.1 fp.2 (BgpModel.u_attrs u)) (ann_routes u).
Proof.
  unfold BgpModel.events. fold (ann_routes u). fold (wd_routes u). rewrite !List.filter_app. split.
  - rewrite filter_map_false, filter_map_true by reflexivity. reflexivity.
  - rewrite filter_map_true, filter_map_false by reflexivity. rewrite app_nil_r. reflexivity.
Qed.

Lemma raw_payloads id u :
  payloads_of id (upd_of_update u) =
  map (pay_of_ev id) (List.filter is_evw (BgpModel.events u) ++ List.filter (fun e => negb (is_evw e)) (BgpModel.events u)).
Proof.
  destruct (events_split u) as [-> ->]. unfold upd_of_update. cbn [payloads_of].
  rewrite map_app, !map_map. reflexivity.
Qed.

(* every route event of the UPDATE is one payload, and nothing else is *)
Lemma raw_payloads_perm id u : payloads_of id (upd_of_update u) ≡ₚ map (pay_of_ev id) (BgpModel.events u).
Proof.
  rewrite raw_payloads. apply fmap_Permutation.
  induction (BgpModel.events u) as [|e l IH]; [reflexivity|]. cbn [List.filter].
  destruct (is_evw e); cbn [negb app].
  - apply Permutation_skip, IH.
  - rewrite <- Permutation_middle. apply Permutation_skip, IH.
Qed.

Lemma raw_counts u :
  n_ann (upd_of_update u) = N.of_nat (length (ann_routes u)) /\ n_wd (upd_of_update u) = N.of_nat (length (wd_routes u)).
Proof. unfold upd_of_update. cbn [n_ann n_wd]. rewrite !map_length. auto. Qed.

(* families: every announcement of a decoded UPDATE names one of the four families the RIB has *)
Lemma raw_fams_ok u : upd_fams_ok (upd_of_update u) = true.
Proof.
  unfold upd_of_update. cbn [upd_fams_ok]. apply List.forallb_forall. intros x Hx.
  apply elem_of_list_In, elem_of_list_fmap in Hx as (r & -> & _). cbn [route_code fst]. apply N.ltb_lt, fam_code_lt.
Qed.
Lemma raw_ops_fams_ok k p b bytes : op_fams_ok (raw_bmp k p bytes) = true /\ op_fams_ok (raw_bgp b bytes) = true.
Proof. unfold raw_bmp, raw_bgp, raw_upd. cbn [op_fams_ok]. destruct (BgpModel.decode _ _); auto using raw_fams_ok. Qed.

(* ---------- End-of-RIB: the general form agrees with C04's reading ---------- *)
Lemma lax_eor_fam_aux l :
  is_Some (match BgpModel.first_unreach l with
           | Some n => match BgpModel.mp_routes n with [] => Some (mp_fam_code n) | _ => None end
           | None => None end) <-> BgpModel.no_unreach_routes l = true.
Proof.
  unfold BgpModel.no_unreach_routes. destruct (BgpModel.first_unreach l) as [n|].
  - destruct (BgpModel.mp_routes n); split; eauto; try discriminate. intros [? ?]. discriminate.
  - split; [intros [? ?]; discriminate|discriminate].
Qed.

Lemma lax_eor_fam_some u : is_Some (lax_eor_fam u) <-> BgpModel.lax_eor u = true.
Proof.
  destruct u as [wd attrs nlri]. unfold lax_eor_fam, BgpModel.lax_eor. cbn [BgpModel.u_attrs].
  destruct wd, attrs, nlri; try apply lax_eor_fam_aux. split; eauto.
Qed.

Lemma raw_eor_upd u : eor_in PUpd (upd_of_update u) = lax_eor_fam u.
Proof. reflexivity. Qed.

Lemma raw_eor_dump u : eor_in PDump (upd_of_update u) = if BgpModel.carries_routes u then None else lax_eor_fam u.
Proof.
  unfold upd_of_update. cbn [eor_in]. destruct (BgpModel.carries_routes u) eqn:Ec; [reflexivity|].
  destruct (lax_eor_fam u) as [f|] eqn:El; [|destruct (_ || _); reflexivity].
  assert (He : BgpModel.events u = []) by (apply BgpProofs.guarded_eor_drops_nothing; [exact Ec|apply lax_eor_fam_some; rewrite El; eauto]).
  unfold BgpModel.events in He. fold (ann_routes u) in He. fold (wd_routes u) in He.
  apply app_eq_nil in He as [H1 H2]. apply fmap_nil_inv in H1. apply fmap_nil_inv in H2. rewrite H1, H2. reflexivity.
Qed.

(* ---------- an UPDATE that does not decode: all or nothing ---------- *)
Lemma raw_unparsable bytes : BgpModel.decode BgpModel.Code bytes = None ->
  forall k p b, raw_bmp k p bytes = WMsg k (MRoute p None) /\ raw_bgp b bytes = WBgpUpdate b None.
Proof. intros H k p b. unfold raw_bmp, raw_bgp, raw_upd. rewrite H. auto. Qed.

Lemma wstep_unparsable_bmp w k p :
  w_rib (wstep w (WMsg k (MRoute p None))).1 = w_rib w /\
  w_ids (wstep w (WMsg k (MRoute p None))).1 = w_ids w /\
  w_bgp (wstep w (WMsg k (MRoute p None))).1 = w_bgp w /\
  (forall k' rid s, w_routers (wstep w (WMsg k (MRoute p None))).1 !! k' = Some (rid, s) ->
      exists s0, w_routers w !! k' = Some (rid, s0) /\ sm_phase s = sm_phase s0 /\ sm_peers s = sm_peers s0).
Proof.
  cbn [wstep]. destruct (w_routers w !! k) as [[rid s]|] eqn:Hr; [|cbn; repeat split; eauto].
  pose proof (unparsable_route_noop (w_reg w) rid s p (w_rib w)) as (H1 & H2 & H3).
  destruct (sm_step (w_reg w) rid s (MRoute p None)) as [[r' s'] out]. cbn [fst snd w_rib w_ids w_bgp w_routers] in *.
  repeat split; try assumption.
  intros k' rid' s1. destruct (decide (k' = k)) as [->|Hne].
  - rewrite lookup_insert. intros [= <- <-]. eauto.
  - rewrite lookup_insert_ne by congruence. eauto.
Qed.

Lemma sstep_unparsable_bmp sw k p : (sstep sw (WMsg k (MRoute p None))).1 = sw.
Proof. cbn [sstep]. destruct (s_sess sw !! k) as [[[ph up] ever]|]; [|reflexivity]. destruct ph; reflexivity. Qed.

Lemma raw_unparsable_noop bytes : BgpModel.decode BgpModel.Code bytes = None ->
  (forall w k p, w_rib (wstep w (raw_bmp k p bytes)).1 = w_rib w /\ w_ids (wstep w (raw_bmp k p bytes)).1 = w_ids w) /\
  (forall w b, (wstep w (raw_bgp b bytes)).1 = w) /\
  (forall sw k p, (sstep sw (raw_bmp k p bytes)).1 = sw) /\
  (forall sw b, (sstep sw (raw_bgp b bytes)).1 = sw).
Proof.
  intros H. repeat split; intros.
  - rewrite (proj1 (raw_unparsable bytes H k p 0)). apply wstep_unparsable_bmp.
  - rewrite (proj1 (raw_unparsable bytes H k p 0)). apply wstep_unparsable_bmp.
  - rewrite (proj2 (raw_unparsable bytes H 0 (0,0,0,0,0,0,0) b)). cbn [wstep]. destruct (w_bgp w !! b) as [[? ?]|]; reflexivity.
  - rewrite (proj1 (raw_unparsable bytes H k p 0)). apply sstep_unparsable_bmp.
  - rewrite (proj2 (raw_unparsable bytes H 0 (0,0,0,0,0,0,0) b)). cbn [sstep]. destruct (s_bgp sw !! b); reflexivity.
Qed.

(* ---------- a concrete history on the wire ---------- *)
Definition raw_example : list wop :=
  [WConnect 0; WMsg 0 MInit; WMsg 0 (MPeerUp pA false);
   raw_bmp 0 pA raw_mc_announce; raw_bmp 0 pA raw_bad_tail; WQuery 0 pfx_10_9;
   raw_bmp 0 pA raw_mc_withdraw; WQuery 0 pfx_10_9].

Lemma raw_example_ok :
  BgpModel.decode BgpModel.Code raw_bad_tail = None /\
  (exists a, raw_upd raw_mc_withdraw = Some (UGen None false 0 [] a [(2, pfx_10_9)])) /\
  nth_error (run_world raw_example).2 5%nat = Some (WoEntries [(3, true, attrs_code raw_mc_attrs)]) /\
  (exists a, last (run_world raw_example).2 = Some (WoEntries [(3, false, a)]) /\
             last (run_sworld raw_example).2 = Some (SoEntries [((0, pA), false, a)])).
Proof. vm_compute. repeat split; try reflexivity; eexists; try split; reflexivity. Qed.
