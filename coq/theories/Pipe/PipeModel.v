(* The ingest pipeline as one executable model: BMP sessions (BmpModel) and BGP
   sessions feeding one RIB (RibModel) through the shared ingress register
   (IngressModel) - and, next to it, the PROPERTY's reading of the same
   history: an ideal RIB keyed by what is distinct on the wire. Definitions only. *)
From stdpp Require Import gmap.
From Coq Require Import NArith.
From RV Require Import Ingress.IngressModel Rib.RibModel Bmp.BmpModel.

(* a source as it is distinct on the wire: (router key, per-peer header) for a
   BMP-monitored peer; (1000 + session key, connection ordinal) for a BGP session *)
Definition wid := (N * pph)%type.

Inductive wop :=
| WConnect (k : N)                 (* BMP router with address k connects (bmp unit.rs accept loop) *)
| WMsg (k : N) (m : msg)           (* a BMP message on router k's session *)
| WDisconnect (k : N)              (* connection lost / closed: router_handler.rs post-loop cleanup *)
| WBgpOpen (b : N)                 (* BGP session b established: fresh ingress id per connection *)
| WBgpUpdate (b : N) (u : option upd)
| WBgpClose (b : N)
| WQuery (af pfx : N)
| WMetrics (k : N).                (* read router k's state machine metrics (GET /metrics) *)

Record world := MkWorld {
  w_reg : reg;
  w_unit : N;                                  (* ingress id of the bmp-tcp-in unit *)
  w_routers : gmap N (N * sm);                 (* live sessions: router key -> (router ingress id, state machine) *)
  w_rib : rib;
  w_bgp : gmap N (N * N);                      (* live BGP sessions: key -> (ingress id, connection ordinal) *)
  w_bgp_conns : gmap N N;                      (* connections seen per BGP session key *)
  w_ids : list (wid * N) }.                    (* which wire identity was given which ingress id (first first) *)

Definition world_init : world :=
  let '(uid, r) := reg_register reg_new in
  MkWorld r uid ∅ rib_empty ∅ ∅ [].

Definition router_query (uid k : N) : info :=
  MkInfo None (Some uid) (Some k) None None None None None.

Inductive wout :=
| WoNone
| WoStep (o : outcome) (ph : N)             (* outcome, phase index after the step *)
| WoMetrics (m : option metrics)
| WoEntries (l : list (N * bool * N)).       (* (ingress id, active, attrs) *)

Definition apply_outcome (rb : rib) (o : outcome) : rib :=
  match o with OUpdate u => rib_apply rb u | _ => rb end.

Definition note_id (ids : list (wid * N)) (w : wid) (id : N) : list (wid * N) :=
  if existsb (fun x : wid * N => bool_decide (x.1 = w)) ids then ids else ids ++ [(w, id)].

Definition bgp_wid (b c : N) : wid := (1000 + b, (c, 0, 0, 0, 0, 0, 0))%N.

Definition wstep (w : world) (o : wop) : world * wout :=
  match o with
  | WConnect k =>
      let '(rid, r') := find_or_register router_match (w_reg w) (router_query (w_unit w) k) in
      (MkWorld r' (w_unit w) (<[k := (rid, sm_init)]> (w_routers w)) (w_rib w) (w_bgp w) (w_bgp_conns w) (w_ids w), WoNone)
  | WMsg k m =>
      match w_routers w !! k with
      | None => (w, WoNone)
      | Some (rid, s) =>
          let '(r', s', out) := sm_step (w_reg w) rid s m in
          let ids := match m with
                     | MPeerUp p _ => match sm_peers s' !! p with
                                      | Some pe => note_id (w_ids w) (k, p) (pe_id pe)
                                      | None => w_ids w end
                     | _ => w_ids w end in
          (MkWorld r' (w_unit w) (<[k := (rid, s')]> (w_routers w)) (apply_outcome (w_rib w) out)
                   (w_bgp w) (w_bgp_conns w) ids, WoStep out (phase_idx (sm_phase s')))
      end
  | WDisconnect k =>
      match w_routers w !! k with
      | None => (w, WoNone)
      | Some (rid, s) =>
          let ids := reg_ids_for_parent (w_reg w) rid in
          (MkWorld (w_reg w) (w_unit w) (delete k (w_routers w)) (rib_apply (w_rib w) (UWithdrawBulk ids))
                   (w_bgp w) (w_bgp_conns w) (w_ids w), WoStep (OUpdate (UWithdrawBulk ids)) 9)
      end
  | WBgpOpen b =>
      let '(id, r') := reg_register (w_reg w) in
      let c := match w_bgp_conns w !! b with Some c => (c + 1)%N | None => 0%N end in
      (MkWorld r' (w_unit w) (w_routers w) (w_rib w) (<[b := (id, c)]> (w_bgp w)) (<[b := c]> (w_bgp_conns w))
               (note_id (w_ids w) (bgp_wid b c) id), WoNone)
  | WBgpUpdate b u =>
      match w_bgp w !! b, u with
      | Some (id, _), Some u =>
          let up := UBulk (payloads_of id u) in
          (MkWorld (w_reg w) (w_unit w) (w_routers w) (rib_apply (w_rib w) up) (w_bgp w) (w_bgp_conns w) (w_ids w),
           WoStep (OUpdate up) 9)
      | _, _ => (w, WoNone)
      end
  | WBgpClose b =>
      match w_bgp w !! b with
      | Some (id, _) =>
          (MkWorld (w_reg w) (w_unit w) (w_routers w) (rib_apply (w_rib w) (UWithdraw id None)) (delete b (w_bgp w))
                   (w_bgp_conns w) (w_ids w), WoStep (OUpdate (UWithdraw id None)) 9)
      | None => (w, WoNone)
      end
  | WQuery af pfx => (w, WoEntries (rib_query (w_rib w) af pfx))
  | WMetrics k => (w, WoMetrics (match w_routers w !! k with Some (_, s) => Some (sm_metrics s) | None => None end))
  end.

(* ------------------------------------------------------------------ *)
(* The property's reading. Sessions follow the same lifecycle rules (which
   messages are accepted is C05's business and is shared), but routes are
   attributed to the wire identity and a returning source starts afresh. *)

Record sworld := MkSWorld {
  s_sess : gmap N (phase * gset pph * gset pph);   (* router key -> phase, peers up, peers ever up *)
  s_rib : gmap (N * N * wid) (bool * N);            (* (family, prefix, wire id) -> (active, attrs) *)
  s_bgp : gmap N N;                                 (* live BGP sessions -> connection ordinal *)
  s_bgp_conns : gmap N N }.

Definition sworld_init : sworld := MkSWorld ∅ ∅ ∅ ∅.

Definition ideal_ann (rb : gmap (N * N * wid) (bool * N)) (w : wid) (f p a : N) := <[ (f, p, w) := (true, a) ]> rb.
Definition ideal_wd (rb : gmap (N * N * wid) (bool * N)) (w : wid) (f p : N) :=
  match rb !! (f, p, w) with Some (_, a) => <[ (f, p, w) := (false, a) ]> rb | None => rb end.
Definition ideal_down (rb : gmap (N * N * wid) (bool * N)) (ws : wid -> bool) : gmap (N * N * wid) (bool * N) :=
  map_imap (fun k v => if ws k.2 then Some (false, v.2) else Some v) rb.

(* RFC 4271 4.3: withdrawn routes are processed before the NLRI, so a prefix in both ends up announced *)
Definition ideal_update (rb : gmap (N * N * wid) (bool * N)) (w : wid) (u : upd) :=
  match u with
  | UEor _ => rb
  | URoutes af ann a wf wd =>
      fold_left (fun rb p => ideal_ann rb w af p a) ann (fold_left (fun rb p => ideal_wd rb w wf p) wd rb)
  | UGen _ _ _ ann a wd =>
      fold_left (fun rb (fp : N * N) => ideal_ann rb w fp.1 fp.2 a) ann (fold_left (fun rb (fp : N * N) => ideal_wd rb w fp.1 fp.2) wd rb)
  end.

Definition ideal_entries (rb : gmap (N * N * wid) (bool * N)) (fam pfx : N) : list (wid * bool * N) :=
  omap (fun kv : (N * N * wid) * (bool * N) =>
          if bool_decide (kv.1.1.1 = fam /\ kv.1.1.2 = pfx) then Some (kv.1.2, kv.2.1, kv.2.2) else None)
       (map_to_list rb).
Definition ideal_query rb (af pfx : N) :=
  match ideal_entries rb af pfx with [] => ideal_entries rb (af + 2)%N pfx | l => l end.

Inductive sout := SoNone | SoEntries (l : list (wid * bool * N)).

Definition sstep (w : sworld) (o : wop) : sworld * sout :=
  match o with
  | WConnect k => (MkSWorld (<[k := (PInit, ∅, ∅)]> (s_sess w)) (s_rib w) (s_bgp w) (s_bgp_conns w), SoNone)
  | WMsg k m =>
      match s_sess w !! k with
      | None => (w, SoNone)
      | Some (ph, up, ever) =>
          match ph, m with
          | PInit, MInit => (MkSWorld (<[k := (PDump, up, ever)]> (s_sess w)) (s_rib w) (s_bgp w) (s_bgp_conns w), SoNone)
          | (PDump | PUpd), MPeerUp p _ =>
              if bool_decide (p ∈ up) then (w, SoNone)
              else (MkSWorld (<[k := (ph, {[p]} ∪ up, {[p]} ∪ ever)]> (s_sess w)) (s_rib w) (s_bgp w) (s_bgp_conns w), SoNone)
          | (PDump | PUpd), MPeerDown p =>
              if bool_decide (p ∈ up)
              then (MkSWorld (<[k := (ph, up ∖ {[p]}, ever)]> (s_sess w))
                             (ideal_down (s_rib w) (fun x => bool_decide (x = (k, p)))) (s_bgp w) (s_bgp_conns w), SoNone)
              else (w, SoNone)
          | (PDump | PUpd), MRoute p (Some u) =>
              if bool_decide (p ∈ up)
              then (MkSWorld (s_sess w) (ideal_update (s_rib w) (k, p) u) (s_bgp w) (s_bgp_conns w), SoNone)
              else (w, SoNone)
          | (PDump | PUpd), MTerm =>
              (MkSWorld (<[k := (PTerm, ∅, ever)]> (s_sess w))
                        (ideal_down (s_rib w) (fun x => bool_decide (x.1 = k /\ x.2 ∈ up))) (s_bgp w) (s_bgp_conns w), SoNone)
          | _, _ => (w, SoNone)
          end
      end
  | WDisconnect k =>
      match s_sess w !! k with
      | None => (w, SoNone)
      | Some _ => (MkSWorld (delete k (s_sess w)) (ideal_down (s_rib w) (fun x => bool_decide (x.1 = k))) (s_bgp w) (s_bgp_conns w), SoNone)
      end
  | WBgpOpen b =>
      let c := match s_bgp_conns w !! b with Some c => (c + 1)%N | None => 0%N end in
      (MkSWorld (s_sess w) (s_rib w) (<[b := c]> (s_bgp w)) (<[b := c]> (s_bgp_conns w)), SoNone)
  | WBgpUpdate b u =>
      match s_bgp w !! b, u with
      | Some c, Some u => (MkSWorld (s_sess w) (ideal_update (s_rib w) (bgp_wid b c) u) (s_bgp w) (s_bgp_conns w), SoNone)
      | _, _ => (w, SoNone)
      end
  | WBgpClose b =>
      match s_bgp w !! b with
      | Some c => (MkSWorld (s_sess w) (ideal_down (s_rib w) (fun x => bool_decide (x = bgp_wid b c))) (delete b (s_bgp w)) (s_bgp_conns w), SoNone)
      | None => (w, SoNone)
      end
  | WQuery af pfx => (w, SoEntries (ideal_query (s_rib w) af pfx))
  | WMetrics _ => (w, SoNone)
  end.

(* the implementation's answer re-expressed per wire identity: an entry under
   ingress id i is shown for every wire identity that was given id i *)
Definition expand (ids : list (wid * N)) (l : list (N * bool * N)) : list (wid * bool * N) :=
  flat_map (fun e : N * bool * N =>
              map (fun x : wid * N => (x.1, e.1.2, e.2))
                  (filter (fun x : wid * N => x.2 = e.1.1) ids)) l.

(* known finding C02-1: two sources that are distinct on the wire were given one ingress id *)
Definition shares_id (ids : list (wid * N)) (w : wid) : bool :=
  match list_find (fun x : wid * N => x.1 = w) ids with
  | Some (_, (_, i)) => existsb (fun x : wid * N => bool_decide (x.2 = i /\ x.1 <> w)) ids
  | None => false
  end.
Definition id_of (ids : list (wid * N)) (w : wid) : option N :=
  match list_find (fun x : wid * N => x.1 = w) ids with Some (_, (_, i)) => Some i | None => None end.
