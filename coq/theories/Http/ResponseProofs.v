(* C19 - every response of the router list / router info endpoints: reflected
   request text is either escaped or served as text/plain. *)
From Coq Require Import NArith List Bool String Ascii Lia.
From RV Require Import Http.EscapeModel Http.EscapeProofs Http.PagesProofs Http.ResponseModel.
Import ListNotations.
Local Open Scope N_scope.

Lemma untag_tag_page : forall t, untag (tag_page t) = t.
Proof.
  intro t. unfold untag, tag_page. rewrite map_map. rewrite <- (map_id t) at 2. apply map_ext.
  intros [s|n|k v]; try reflexivity. destruct k; reflexivity.
Qed.

(* a template that passes [tpl_ok] has no raw field at all *)
Lemma tpl_ok_from_no_raw : forall t st v, tpl_ok_from st t = true -> ~ In (Fld KRaw v) t.
Proof.
  induction t as [|s t IH]; intros st v H Hin; [exact Hin|].
  destruct Hin as [->|Hin].
  - cbn [tpl_ok_from] in H. apply andb_true_iff in H. destruct H as [H _].
    destruct (t_mode st); discriminate.
  - destruct s as [l|n|k w]; cbn [tpl_ok_from] in H.
    + exact (IH _ v H Hin).
    + apply andb_true_iff in H. exact (IH _ v (proj2 H) Hin).
    + apply andb_true_iff in H. exact (IH _ v (proj2 H) Hin).
Qed.

Theorem reflected_escaped_or_plain : forall r, resp_safe r = true ->
  forall k v, In (FromRequest, Fld k v) (rs_body r) -> rs_ctype r = CtPlain \/ k <> KRaw.
Proof.
  intros r H k v Hin. unfold resp_safe in H. apply orb_true_iff in H. destruct H as [H|H].
  - left. destruct (rs_ctype r); try discriminate. reflexivity.
  - right. intros ->. apply (tpl_ok_from_no_raw _ _ v H).
    unfold untag. change (Fld KRaw v) with (snd (FromRequest, Fld KRaw v)). now apply in_map.
Qed.

(* ... and then no value of any field changes the structure of what the client may render *)
Theorem safe_markup_structure : forall r t2, resp_safe r = true -> sniffable (rs_ctype r) = true ->
  same_shape (untag (rs_body r)) t2 = true -> page_skeleton (untag (rs_body r)) = page_skeleton t2.
Proof.
  intros r t2 H Hs Hsh. unfold resp_safe in H. rewrite Hs in H. cbn [negb orb] in H.
  now apply page_structure_preserved.
Qed.

Lemma page_safe : forall t, tpl_ok t = true -> resp_safe (MkResp 200 CtHtml (tag_page t)) = true.
Proof. intros t H. unfold resp_safe. cbn [rs_ctype rs_body sniffable negb orb]. now rewrite untag_tag_page. Qed.

Theorem list_response_safe : forall api rs path params r,
  list_response api rs path params = Some r -> resp_safe r = true.
Proof.
  intros api rs path params r. unfold list_response, list_response_gen.
  destruct (str_eqb path api); [|discriminate].
  assert (Hpage : resp_safe (MkResp 200 CtHtml (tag_page (list_page api rs))) = true).
  { apply page_safe. apply list_page_ok. }
  destruct (match get_param _ params with Some v => _ | None => None end) as [v|].
  - intros [= <-]. reflexivity.
  - destruct (get_param _ params) as [v|]; [destruct (existsb _ sort_order_keys)|]; intros [= <-]; try exact Hpage. reflexivity.
Qed.

Lemma info_request_ok : forall api tpl req rt t, info_request api tpl req rt = Some t -> tpl_ok t = true.
Proof.
  intros api tpl req rt t. unfold info_request, info_request_gen.
  destruct (info_route api tpl req rt) as [[base focus]|]; [|discriminate].
  intros H. injection H as <-. apply info_page_ok.
Qed.

Theorem info_response_safe : forall api tpl req rt r,
  info_response api tpl req rt = Some r -> resp_safe r = true.
Proof.
  intros api tpl req rt r. unfold info_response.
  destruct (info_request api tpl req rt) as [t|] eqn:E; [|discriminate].
  intros H. injection H as <-. apply page_safe. exact (info_request_ok _ _ _ _ _ E).
Qed.

(* the status of every answer of the list endpoint, and that the 400 does reflect request text *)
Theorem list_response_status : forall api rs path params r,
  list_response api rs path params = Some r ->
  (rs_status r = 200 /\ rs_ctype r = CtHtml) \/
  (rs_status r = 400 /\ rs_ctype r = CtPlain /\ exists v, reflected r = [(KRaw, v)]).
Proof.
  intros api rs path params r. unfold list_response, list_response_gen.
  destruct (str_eqb path api); [|discriminate].
  destruct (match get_param _ params with Some v => _ | None => None end) as [v|].
  - intros [= <-]. right. repeat split. exists v. reflexivity.
  - destruct (get_param _ params) as [v|]; [destruct (existsb _ sort_order_keys)|]; intros [= <-];
      try (left; split; reflexivity). right. repeat split. exists v. reflexivity.
Qed.

(* seeded change C19-c2: the same body as text/html *)
Definition all_html_witness : Prop :=
  match list_response_all_html ($ "/routers/") [] ($ "/routers/") [($ "sort_by", hostile)],
        list_response_all_html ($ "/routers/") [] ($ "/routers/") [($ "sort_by", $ "x")] with
  | Some r1, Some r2 =>
      resp_safe r1 = false /\ reflected r1 = [(KRaw, hostile)] /\
      same_shape (untag (rs_body r1)) (untag (rs_body r2)) = true /\
      page_skeleton (untag (rs_body r1)) <> page_skeleton (untag (rs_body r2)) /\
      (* with the reflected value escaped the structure is that of the harmless request *)
      page_skeleton (untag (escape_reflected (rs_body r1))) = page_skeleton (untag (rs_body r2))
  | _, _ => False
  end.

Lemma all_html_refuted : all_html_witness.
Proof. vm_compute. repeat split; try reflexivity. discriminate. Qed.

Definition plain_witness : Prop :=
  match list_response ($ "/routers/") [] ($ "/routers/") [($ "sort_order", hostile)] with
  | Some r => rs_status r = 400 /\ rs_ctype r = CtPlain /\ resp_safe r = true /\ reflected r = [(KRaw, hostile)] /\
              contains hostile (body_text r) = true
  | None => False
  end.

Lemma plain_is_safe_example : plain_witness.
Proof. vm_compute. repeat split; reflexivity. Qed.
