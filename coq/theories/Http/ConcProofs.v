(* C12, concurrency part - proofs about Http/ConcModel.v. *)
From Coq Require Import Arith PeanoNat NArith List Bool Lia.
From RV Require Import Http.DispatchText Http.DispatchModel Http.DispatchProofs Http.ConcModel.
Import ListNotations.
Local Open Scope N_scope.
Local Notation length := List.length.

(* ---------------------------------------------------------------- lists *)
Lemma nth_upd_same : forall {A} (l : list A) t x y, nth_error l t = Some y -> nth_error (upd l t x) t = Some x.
Proof.
  intros A. induction l as [|a r IH]; intros [|t] x y H; cbn in *; try discriminate; [reflexivity|].
  eapply IH; eauto.
Qed.

Lemma nth_upd_other : forall {A} (l : list A) t u x, t <> u -> nth_error (upd l t x) u = nth_error l u.
Proof.
  intros A. induction l as [|a r IH]; intros [|t] [|u] x H; cbn; try reflexivity; try congruence.
  apply IH. congruence.
Qed.

Lemma nth_upd_cases : forall {A} (l : list A) t u x y z,
  nth_error l t = Some y -> nth_error (upd l t x) u = Some z ->
  (u = t /\ z = x) \/ (u <> t /\ nth_error l u = Some z).
Proof.
  intros A l t u x y z Hy Hz. destruct (Nat.eq_dec u t) as [->|Hne].
  - rewrite (nth_upd_same _ _ _ _ Hy) in Hz. left. split; congruence.
  - right. split; [exact Hne|]. rewrite nth_upd_other in Hz by congruence. exact Hz.
Qed.

Lemma memN_In : forall x l, memN x l = true <-> In x l.
Proof.
  intros x l. unfold memN. rewrite existsb_exists. split.
  - intros [y [Hy E]]. apply N.eqb_eq in E. subst. exact Hy.
  - intros H. exists x. split; [exact H|apply N.eqb_refl].
Qed.

Lemma memN_false : forall x l, memN x l = false <-> ~ In x l.
Proof.
  intros x l. rewrite <- memN_In. destruct (memN x l); split; intro H; congruence.
Qed.

(* ================================================================ Part 2: the state-machine lock *)

Definition holds (th : sthread) : bool :=
  match th with
  | THandler _ pc _ =>
      match pc with
      | HIdle => false
      | HTaken _ _ _ h => h
      | _ => true
      end
  | TInfo _ QLocked => true
  | TList LLocked => true
  | _ => false
  end.

(* what a thread may look like in a run of the code as it is *)
Definition wf_thread (base : bytes) (names : list bytes) (th : sthread) : Prop :=
  match th with
  | THandler prog pc pan =>
      pan = false /\ no_abort th = true /\
      match pc with
      | HLocked _ ab => ab = false
      | HTaken _ _ ab h => ab = false /\ h = true
      | _ => True
      end
  | TInfo r (QDone x) => x = info_process base names r
  | TList (LDone b) => b = true
  | _ => True
  end.

Record linv (base : bytes) (names : list bytes) (s : lstate) : Prop := MkLinv {
  li_owner : forall t th, nth_error (ls_thr s) t = Some th -> holds th = true -> ls_owner s = Some t;
  li_taken : ls_val s = None ->
             exists t prog st w pan, ls_owner s = Some t /\
                                     nth_error (ls_thr s) t = Some (THandler prog (HTaken st w false true) pan);
  li_wf : forall t th, nth_error (ls_thr s) t = Some th -> wf_thread base names th;
  li_holder : forall t, ls_owner s = Some t -> exists th, nth_error (ls_thr s) t = Some th /\ holds th = true }.

Lemma info_process_locked_some : forall st base names r,
  info_process_locked (Some st) base names r = info_process base names r.
Proof.
  intros st base names r. unfold info_process_locked, info_process.
  destruct (strip_pfx base (decode_path (rq_path r))) as [[|b router]|]; reflexivity.
Qed.

Lemma linv_init : forall base names st0 thr,
  forallb fresh_thread thr = true -> forallb no_abort thr = true -> linv base names (linit st0 thr).
Proof.
  intros base names st0 thr Hf Ha. rewrite forallb_forall in Hf, Ha. split; cbn.
  - intros t th Ht Hh. apply nth_error_In in Ht. specialize (Hf _ Ht).
    destruct th as [prog [] []|r []|[]]; cbn in *; discriminate.
  - discriminate.
  - intros t th Ht. apply nth_error_In in Ht. pose proof (Hf _ Ht) as F. pose proof (Ha _ Ht) as A.
    destruct th as [prog [] []|r []|[]]; cbn in *; try discriminate; auto.
  - discriminate.
Qed.

(* nobody else holds the lock while t does *)
Lemma others_do_not_hold : forall base names s t u th,
  linv base names s -> ls_owner s = Some t -> u <> t -> nth_error (ls_thr s) u = Some th -> holds th = false.
Proof.
  intros base names s t u th I Ho Hne Hu. destruct (holds th) eqn:E; [|reflexivity].
  pose proof (li_owner _ _ _ I _ _ Hu E) as H. congruence.
Qed.

Lemma free_nobody_holds : forall base names s u th,
  linv base names s -> ls_owner s = None -> nth_error (ls_thr s) u = Some th -> holds th = false.
Proof.
  intros base names s u th I Ho Hu. destruct (holds th) eqn:E; [|reflexivity].
  pose proof (li_owner _ _ _ I _ _ Hu E) as H. congruence.
Qed.

(* a holder that is not inside process_msg sees the state *)
Lemma holder_sees_state : forall base names s t th,
  linv base names s -> nth_error (ls_thr s) t = Some th -> holds th = true ->
  (forall prog st w ab h pan, th <> THandler prog (HTaken st w ab h) pan) ->
  exists st, ls_val s = Some st.
Proof.
  intros base names s t th I Ht Hh Hn. destruct (ls_val s) as [st|] eqn:E; [eauto|].
  destruct (li_taken _ _ _ I E) as (t' & prog & st & w & pan & Ho & Ht').
  pose proof (li_owner _ _ _ I _ _ Ht Hh) as Ho'. assert (t' = t) by congruence. subst.
  rewrite Ht in Ht'. inversion Ht'. subst. exfalso. eapply Hn. reflexivity.
Qed.

Ltac lsimp := cbn [ls_owner ls_val ls_thr lset lown lval] in *.
Ltac solve_holder Ht Ho :=
  let t' := fresh "t'" in let H := fresh "H" in
  intros t' H; try rewrite Ho in H;
  first [ discriminate H
        | inversion H; subst; eexists; split; [eapply nth_upd_same; exact Ht | reflexivity] ].

(* the frame: a step of thread t that leaves lock and value alone and keeps t a non-holder / same holder *)
Lemma linv_step : forall base names s t,
  linv base names s -> linv base names (lstep HoldLock base names s t).
Proof.
  intros base names s t I. unfold lstep.
  destruct (nth_error (ls_thr s) t) as [th|] eqn:Ht; [|exact I].
  pose proof (li_wf _ _ _ I _ _ Ht) as W.
  destruct th as [prog pc pan|r pc|pc].
  - (* the connection task *)
    destruct W as (Hpan & Hna & Wpc). subst pan.
    destruct pc as [|w ab|st w ab h|st| |].
    + (* HIdle: lock().await *)
      destruct prog as [|m rest]; [exact I|]. destruct (ls_owner s) as [o|] eqn:Ho; [destruct m; exact I|].
      assert (Hv : exists st, ls_val s = Some st).
      { destruct (ls_val s) eqn:E; [eauto|]. destruct (li_taken _ _ _ I E) as (t' & ? & ? & ? & ? & Ho' & _). congruence. }
      destruct Hv as [st Hv].
      assert (Hrest : forallb (fun m => match m with MAbort => false | _ => true end) rest = true).
      { cbn in Hna. apply andb_true_iff in Hna. tauto. }
      destruct m as [w| |]; [| cbn in Hna; discriminate |].
      * split; lsimp; [ | | | solve_holder Ht Ho ].
        -- intros u th Hu Hh. destruct (nth_upd_cases _ _ _ _ _ _ Ht Hu) as [[-> ->]|[Hne Hu']]; [reflexivity|].
           rewrite (free_nobody_holds _ _ _ _ _ I Ho Hu') in Hh. discriminate.
        -- congruence.
        -- intros u th Hu. destruct (nth_upd_cases _ _ _ _ _ _ Ht Hu) as [[-> ->]|[Hne Hu']]; [cbn; auto|].
           exact (li_wf _ _ _ I _ _ Hu').
      * split; lsimp; [ | | | solve_holder Ht Ho ].
        -- intros u th Hu Hh. destruct (nth_upd_cases _ _ _ _ _ _ Ht Hu) as [[-> ->]|[Hne Hu']]; [reflexivity|].
           rewrite (free_nobody_holds _ _ _ _ _ I Ho Hu') in Hh. discriminate.
        -- congruence.
        -- intros u th Hu. destruct (nth_upd_cases _ _ _ _ _ _ Ht Hu) as [[-> ->]|[Hne Hu']]; [cbn; auto|].
           exact (li_wf _ _ _ I _ _ Hu').
    + (* HLocked: take *)
      subst ab. pose proof (li_owner _ _ _ I _ _ Ht eq_refl) as Ho.
      destruct (holder_sees_state _ _ _ _ _ I Ht eq_refl) as [st Hv]; [intros; discriminate|].
      rewrite Hv. split; lsimp; [ | | | solve_holder Ht Ho ].
      * intros u th Hu Hh. destruct (nth_upd_cases _ _ _ _ _ _ Ht Hu) as [[-> ->]|[Hne Hu']]; [exact Ho|].
        rewrite (others_do_not_hold _ _ _ _ _ _ I Ho Hne Hu') in Hh. discriminate.
      * intros _. exists t, prog, st, w, false. split; [exact Ho|]. eapply nth_upd_same; eauto.
      * intros u th Hu. destruct (nth_upd_cases _ _ _ _ _ _ Ht Hu) as [[-> ->]|[Hne Hu']]; [cbn; auto|].
        exact (li_wf _ _ _ I _ _ Hu').
    + (* HTaken *)
      destruct Wpc as [-> ->]. pose proof (li_owner _ _ _ I _ _ Ht eq_refl) as Ho.
      destruct w as [|w].
      * (* put *)
        split; lsimp; [ | | | solve_holder Ht Ho ].
        -- intros u th Hu Hh. destruct (nth_upd_cases _ _ _ _ _ _ Ht Hu) as [[-> ->]|[Hne Hu']]; [exact Ho|].
           rewrite (others_do_not_hold _ _ _ _ _ _ I Ho Hne Hu') in Hh. discriminate.
        -- discriminate.
        -- intros u th Hu. destruct (nth_upd_cases _ _ _ _ _ _ Ht Hu) as [[-> ->]|[Hne Hu']]; [cbn; auto|].
           exact (li_wf _ _ _ I _ _ Hu').
      * (* an await point while the state is out *)
        split; lsimp; [ | | | solve_holder Ht Ho ].
        -- intros u th Hu Hh. destruct (nth_upd_cases _ _ _ _ _ _ Ht Hu) as [[-> ->]|[Hne Hu']]; [exact Ho|].
           rewrite (others_do_not_hold _ _ _ _ _ _ I Ho Hne Hu') in Hh. discriminate.
        -- intros _. exists t, prog, st, w, false. split; [exact Ho|]. eapply nth_upd_same; eauto.
        -- intros u th Hu. destruct (nth_upd_cases _ _ _ _ _ _ Ht Hu) as [[-> ->]|[Hne Hu']]; [cbn; auto|].
           exact (li_wf _ _ _ I _ _ Hu').
    + (* HWait: does not occur under HoldLock, harmless *)
      pose proof (li_owner _ _ _ I _ _ Ht eq_refl) as Ho. split; lsimp; [ | | | solve_holder Ht Ho ].
      * intros u th Hu Hh. destruct (nth_upd_cases _ _ _ _ _ _ Ht Hu) as [[-> ->]|[Hne Hu']]; [exact Ho|].
        rewrite (others_do_not_hold _ _ _ _ _ _ I Ho Hne Hu') in Hh. discriminate.
      * discriminate.
      * intros u th Hu. destruct (nth_upd_cases _ _ _ _ _ _ Ht Hu) as [[-> ->]|[Hne Hu']]; [cbn; auto|].
        exact (li_wf _ _ _ I _ _ Hu').
    + (* HPut: the guard is dropped *)
      pose proof (li_owner _ _ _ I _ _ Ht eq_refl) as Ho.
      destruct (holder_sees_state _ _ _ _ _ I Ht eq_refl) as [st Hv]; [intros; discriminate|].
      split; lsimp; [ | | | solve_holder Ht Ho ].
      * intros u th Hu Hh. destruct (nth_upd_cases _ _ _ _ _ _ Ht Hu) as [[-> ->]|[Hne Hu']]; [discriminate|].
        rewrite (others_do_not_hold _ _ _ _ _ _ I Ho Hne Hu') in Hh. discriminate.
      * congruence.
      * intros u th Hu. destruct (nth_upd_cases _ _ _ _ _ _ Ht Hu) as [[-> ->]|[Hne Hu']]; [cbn; auto|].
        exact (li_wf _ _ _ I _ _ Hu').
    + (* HPeeking *)
      pose proof (li_owner _ _ _ I _ _ Ht eq_refl) as Ho.
      destruct (holder_sees_state _ _ _ _ _ I Ht eq_refl) as [st Hv]; [intros; discriminate|].
      rewrite Hv. split; lsimp; [ | | | solve_holder Ht Ho ].
      * intros u th Hu Hh. destruct (nth_upd_cases _ _ _ _ _ _ Ht Hu) as [[-> ->]|[Hne Hu']]; [discriminate|].
        rewrite (others_do_not_hold _ _ _ _ _ _ I Ho Hne Hu') in Hh. discriminate.
      * congruence.
      * intros u th Hu. destruct (nth_upd_cases _ _ _ _ _ _ Ht Hu) as [[-> ->]|[Hne Hu']]; [cbn; auto|].
        exact (li_wf _ _ _ I _ _ Hu').
  - (* a request on the router-info endpoint *)
    destruct pc as [| |x]; [| |exact I].
    + destruct (ls_owner s) as [o|] eqn:Ho; [exact I|].
      split; lsimp; [ | | | solve_holder Ht Ho ].
      * intros u th Hu Hh. destruct (nth_upd_cases _ _ _ _ _ _ Ht Hu) as [[-> ->]|[Hne Hu']]; [reflexivity|].
        rewrite (free_nobody_holds _ _ _ _ _ I Ho Hu') in Hh. discriminate.
      * intros E. destruct (li_taken _ _ _ I E) as (t' & ? & ? & ? & ? & Ho' & _). congruence.
      * intros u th Hu. destruct (nth_upd_cases _ _ _ _ _ _ Ht Hu) as [[-> ->]|[Hne Hu']]; [cbn; auto|].
        exact (li_wf _ _ _ I _ _ Hu').
    + pose proof (li_owner _ _ _ I _ _ Ht eq_refl) as Ho.
      destruct (holder_sees_state _ _ _ _ _ I Ht eq_refl) as [st Hv]; [intros; discriminate|].
      split; lsimp; [ | | | solve_holder Ht Ho ].
      * intros u th Hu Hh. destruct (nth_upd_cases _ _ _ _ _ _ Ht Hu) as [[-> ->]|[Hne Hu']]; [discriminate|].
        rewrite (others_do_not_hold _ _ _ _ _ _ I Ho Hne Hu') in Hh. discriminate.
      * congruence.
      * intros u th Hu. destruct (nth_upd_cases _ _ _ _ _ _ Ht Hu) as [[-> ->]|[Hne Hu']].
        -- cbn. rewrite Hv. apply info_process_locked_some.
        -- exact (li_wf _ _ _ I _ _ Hu').
  - (* the router list looking at this router *)
    destruct pc as [| |x]; [| |exact I].
    + destruct (ls_owner s) as [o|] eqn:Ho; [exact I|].
      split; lsimp; [ | | | solve_holder Ht Ho ].
      * intros u th Hu Hh. destruct (nth_upd_cases _ _ _ _ _ _ Ht Hu) as [[-> ->]|[Hne Hu']]; [reflexivity|].
        rewrite (free_nobody_holds _ _ _ _ _ I Ho Hu') in Hh. discriminate.
      * intros E. destruct (li_taken _ _ _ I E) as (t' & ? & ? & ? & ? & Ho' & _). congruence.
      * intros u th Hu. destruct (nth_upd_cases _ _ _ _ _ _ Ht Hu) as [[-> ->]|[Hne Hu']]; [cbn; auto|].
        exact (li_wf _ _ _ I _ _ Hu').
    + pose proof (li_owner _ _ _ I _ _ Ht eq_refl) as Ho.
      destruct (holder_sees_state _ _ _ _ _ I Ht eq_refl) as [st Hv]; [intros; discriminate|].
      split; lsimp; [ | | | solve_holder Ht Ho ].
      * intros u th Hu Hh. destruct (nth_upd_cases _ _ _ _ _ _ Ht Hu) as [[-> ->]|[Hne Hu']]; [discriminate|].
        rewrite (others_do_not_hold _ _ _ _ _ _ I Ho Hne Hu') in Hh. discriminate.
      * congruence.
      * intros u th Hu. destruct (nth_upd_cases _ _ _ _ _ _ Ht Hu) as [[-> ->]|[Hne Hu']].
        -- cbn. rewrite Hv. reflexivity.
        -- exact (li_wf _ _ _ I _ _ Hu').
Qed.

Lemma linv_run : forall base names sched s,
  linv base names s -> linv base names (lrun HoldLock base names s sched).
Proof.
  intros base names. induction sched as [|t r IH]; intros s I; [exact I|].
  cbn. apply IH. apply linv_step. exact I.
Qed.


(* --- what the invariant gives, for every set of threads and every schedule *)
Theorem statelock_some_when_free : forall base names st0 thr sched,
  forallb fresh_thread thr = true -> forallb no_abort thr = true ->
  ls_owner (lrun HoldLock base names (linit st0 thr) sched) = None ->
  ls_val (lrun HoldLock base names (linit st0 thr) sched) <> None.
Proof.
  intros base names st0 thr sched Hf Ha Ho E.
  pose proof (linv_run base names sched _ (linv_init base names st0 thr Hf Ha)) as I.
  destruct (li_taken _ _ _ I E) as (t & ? & ? & ? & ? & Ho' & _). congruence.
Qed.

(* every answered request on the router-info endpoint got the sequential model's answer: never a panic *)
Theorem statelock_info_answers : forall base names st0 thr sched t r x,
  forallb fresh_thread thr = true -> forallb no_abort thr = true ->
  nth_error (ls_thr (lrun HoldLock base names (linit st0 thr) sched)) t = Some (TInfo r (QDone x)) ->
  x = info_process base names r /\ x <> PPanic.
Proof.
  intros base names st0 thr sched t r x Hf Ha Ht.
  pose proof (linv_run base names sched _ (linv_init base names st0 thr Hf Ha)) as I.
  pose proof (li_wf _ _ _ I _ _ Ht) as W. cbn in W. split; [exact W|].
  subst x. pose proof (info_process_ok base names r) as H. intro E. rewrite E in H. exact H.
Qed.

(* the router list never finds the state gone, the connection task never panics on its own state *)
Theorem statelock_list_and_handler : forall base names st0 thr sched t,
  forallb fresh_thread thr = true -> forallb no_abort thr = true ->
  (forall b, nth_error (ls_thr (lrun HoldLock base names (linit st0 thr) sched)) t = Some (TList (LDone b)) -> b = true) /\
  (forall prog pc pan, nth_error (ls_thr (lrun HoldLock base names (linit st0 thr) sched)) t = Some (THandler prog pc pan) -> pan = false).
Proof.
  intros base names st0 thr sched t Hf Ha.
  pose proof (linv_run base names sched _ (linv_init base names st0 thr Hf Ha)) as I. split.
  - intros b Ht. exact (li_wf _ _ _ I _ _ Ht).
  - intros prog pc pan Ht. pose proof (li_wf _ _ _ I _ _ Ht) as W. cbn in W. tauto.
Qed.

(* nobody waits for ever for the lock of the code as it is: whoever holds it is a thread that is not
   itself waiting for it - its next step is enabled and changes its program counter *)
Theorem statelock_holder_runs : forall base names st0 thr sched t,
  forallb fresh_thread thr = true -> forallb no_abort thr = true ->
  ls_owner (lrun HoldLock base names (linit st0 thr) sched) = Some t ->
  exists th, nth_error (ls_thr (lrun HoldLock base names (linit st0 thr) sched)) t = Some th /\ holds th = true /\
             nth_error (ls_thr (lstep HoldLock base names (lrun HoldLock base names (linit st0 thr) sched) t)) t <> Some th.
Proof.
  intros base names st0 thr sched t Hf Ha Ho.
  pose proof (linv_run base names sched _ (linv_init base names st0 thr Hf Ha)) as I.
  set (s := lrun HoldLock base names (linit st0 thr) sched) in *.
  destruct (li_holder _ _ _ I _ Ho) as (th & Ht & Hh). exists th. split; [exact Ht|]. split; [exact Hh|].
  pose proof (li_wf _ _ _ I _ _ Ht) as W.
  unfold lstep. rewrite Ht.
  destruct th as [prog pc pan|r pc|pc].
  - destruct W as (_ & _ & Wpc). destruct pc as [|w ab|st w ab h|st| |]; cbn in Hh; try discriminate.
    + destruct (holder_sees_state _ _ _ _ _ I Ht eq_refl) as [st Hv]; [intros; discriminate|]. rewrite Hv.
      lsimp. rewrite (nth_upd_same _ _ _ _ Ht). congruence.
    + destruct Wpc as [-> ->]. destruct w; lsimp; rewrite (nth_upd_same _ _ _ _ Ht); [congruence|].
      intro E. inversion E as [E']. revert E'. clear. intro E'. induction w; [discriminate|]. inversion E'. auto.
    + lsimp. rewrite (nth_upd_same _ _ _ _ Ht). congruence.
    + lsimp. rewrite (nth_upd_same _ _ _ _ Ht). congruence.
    + destruct (ls_val s); lsimp; rewrite (nth_upd_same _ _ _ _ Ht); congruence.
  - destruct pc; cbn in Hh; try discriminate. lsimp. rewrite (nth_upd_same _ _ _ _ Ht). congruence.
  - destruct pc; cbn in Hh; try discriminate. lsimp. rewrite (nth_upd_same _ _ _ _ Ht). congruence.
Qed.


(* --- the variant that releases the lock while the message is processed *)
Theorem statelock_release_refuted :
  let s1 := lrun ReleaseLock k_routers [k_one] (linit 0 w_threads) (firstn 2 w_lsched) in
  let s := lrun ReleaseLock k_routers [k_one] (linit 0 w_threads) w_lsched in
  (* after the take the lock is free and the Option is None *)
  ls_owner s1 = None /\ ls_val s1 = None /\
  (* the info request that gets the lock then panics, the router list skips the router *)
  nth_error (ls_thr s) 1 = Some (TInfo w_info_req (QDone PPanic)) /\
  nth_error (ls_thr s) 2 = Some (TList (LDone false)) /\
  (* the same schedule on the code as it is: both wait for the lock and are served *)
  let s' := lrun HoldLock k_routers [k_one] (linit 0 w_threads) w_lsched in
  nth_error (ls_thr s') 1 = Some (TInfo w_info_req (QDone (PResp 200))) /\
  nth_error (ls_thr s') 2 = Some (TList (LDone true)) /\
  forallb fresh_thread w_threads = true /\ forallb no_abort w_threads = true.
Proof. vm_compute. repeat split; reflexivity. Qed.

(* the Aborted arm of process_msg would break the invariant (it is dead code: hypothesis no_abort) *)
Theorem statelock_abort_refuted :
  let thr := [THandler [MAbort; MPeek] HIdle false] in
  let s1 := lrun HoldLock k_routers [k_one] (linit 0 thr) [0; 0; 0]%nat in
  let s := lrun HoldLock k_routers [k_one] (linit 0 thr) [0; 0; 0; 0; 0]%nat in
  ls_owner s1 = None /\ ls_val s1 = None /\ nth_error (ls_thr s) 0 = Some (THandler [] HIdle true).
Proof. vm_compute. repeat split; reflexivity. Qed.

(* ================================================================ Part 1: Resources::register *)
Lemma seq_run_snoc : forall srcs ops o, seq_run srcs (ops ++ [o]) = apply_op (seq_run srcs ops) o.
Proof. intros. unfold seq_run. rewrite fold_left_app. reflexivity. Qed.

Lemma filter_idem : forall {A} (f : A -> bool) l, filter f (filter f l) = filter f l.
Proof.
  intros A f. induction l as [|a t IH]; [reflexivity|]. cbn. destruct (f a) eqn:E; cbn; rewrite ?E, IH; reflexivity.
Qed.

Lemma live_app : forall d a b, live d (a ++ b) = live d a ++ live d b.
Proof. intros. unfold live, mark. rewrite map_app, filter_app. reflexivity. Qed.

Lemma live_cons : forall d a l,
  live d (a :: l) = if memN (src_id a) d then live d l else MkSrc (src_id a) (src_proc a) (src_sub a) true :: live d l.
Proof. intros. unfold live, mark. cbn. destruct (memN (src_id a) d); reflexivity. Qed.

(* entries that were dead when the snapshot was copied are dead now *)
Lemma live_idem : forall d dead l, incl d dead -> live dead (filter src_alive (mark d l)) = live dead l.
Proof.
  intros d dead l Hi. induction l as [|a t IH]; [reflexivity|].
  rewrite live_cons. unfold mark at 1. cbn [map filter src_alive]. fold (mark d t).
  destruct (memN (src_id a) d) eqn:Ed; cbn [negb].
  - apply memN_In in Ed. apply Hi in Ed. apply memN_In in Ed. rewrite Ed. exact IH.
  - rewrite live_cons. cbn [src_id src_proc src_sub]. rewrite IH. reflexivity.
Qed.

Lemma live_build : forall d dead cur n,
  incl d dead -> ~ In (src_id n) dead -> src_alive n = true ->
  live dead (build d cur n) = if src_sub n then n :: live dead cur else live dead cur ++ [n].
Proof.
  intros d dead cur [i p sub al] Hi Hn Ha. cbn in *. subst al. apply memN_false in Hn.
  unfold build, register. cbn [src_id src_proc src_sub]. destruct sub.
  - rewrite live_cons. cbn [src_id src_proc src_sub]. rewrite Hn. rewrite live_idem by exact Hi. reflexivity.
  - rewrite live_app, live_idem by exact Hi. f_equal. rewrite live_cons. cbn [src_id src_proc src_sub]. rewrite Hn. reflexivity.
Qed.

Lemma filter_alive_register : forall l id p sub,
  filter src_alive (register l id p sub) =
  if sub then MkSrc id p sub true :: filter src_alive l else filter src_alive l ++ [MkSrc id p sub true].
Proof.
  intros l id p sub. unfold register. destruct sub.
  - cbn. rewrite filter_idem. reflexivity.
  - rewrite filter_app, filter_idem. reflexivity.
Qed.

Lemma live_drop : forall id dead cur,
  live (id :: dead) cur = filter (fun s => negb (src_id s =? id)) (live dead cur).
Proof.
  intros id dead. induction cur as [|a t IH]; [reflexivity|].
  rewrite !live_cons. unfold memN at 1. cbn [existsb]. fold (memN (src_id a) dead).
  destruct (src_id a =? id) eqn:E; cbn [orb].
  - destruct (memN (src_id a) dead); [exact IH|]. cbn [filter src_id]. rewrite E. cbn [negb]. exact IH.
  - destruct (memN (src_id a) dead); [exact IH|]. cbn [filter src_id]. rewrite E. cbn [negb]. rewrite IH. reflexivity.
Qed.

Lemma alive_drop_src : forall l id,
  filter src_alive (drop_src l id) = filter (fun s => negb (src_id s =? id)) (filter src_alive l).
Proof.
  intros l id. induction l as [|a t IH]; [reflexivity|]. unfold drop_src in *. cbn [map filter].
  destruct (src_id a =? id) eqn:E; destruct (src_alive a) eqn:A; cbn [src_alive filter]; rewrite ?A, ?E; cbn [negb]; rewrite IH; reflexivity.
Qed.

(* --- the sequential history keeps what was registered and not dropped *)
Lemma seq_keeps : forall ops srcs e,
  In e srcs -> src_alive e = true -> ~ In (ODrop (src_id e)) ops -> In e (seq_run srcs ops).
Proof.
  induction ops as [|o t IH]; intros srcs e He Ha Hn; [exact He|].
  cbn [seq_run fold_left]. apply IH; [|exact Ha|intro H; apply Hn; right; exact H].
  destruct o as [b|n|id p sub|id|r]; cbn [apply_op]; try exact He.
  - unfold register. assert (Hf : In e (filter src_alive srcs)) by (apply filter_In; auto).
    destruct sub; [right; exact Hf|apply in_or_app; left; exact Hf].
  - unfold drop_src. apply in_map_iff. exists e. split; [|exact He].
    destruct (src_id e =? id) eqn:E; [|reflexivity]. apply N.eqb_eq in E. subst. exfalso. apply Hn. left. reflexivity.
Qed.

Lemma seq_present : forall ops srcs id p sub,
  In (OReg id p sub) ops -> ~ In (ODrop id) ops -> In (MkSrc id p sub true) (seq_run srcs ops).
Proof.
  induction ops as [|o t IH]; intros srcs id p sub Hi Hn; [destruct Hi|].
  cbn [seq_run fold_left]. destruct Hi as [->|Hi].
  - apply seq_keeps; [|reflexivity|intro H; apply Hn; right; exact H].
    cbn [apply_op]. unfold register. destruct sub; [left; reflexivity|apply in_or_app; right; left; reflexivity].
  - apply IH; [exact Hi|intro H; apply Hn; right; exact H].
Qed.

(* --- requests only ever see the live entries *)
Lemma process_all_live : forall vr lv n srcs r,
  process_all vr lv n srcs r = process_all vr lv n (filter src_alive srcs) r.
Proof.
  intros vr lv n srcs r. induction srcs as [|a t IH]; [reflexivity|]. cbn [process_all filter].
  destruct (src_alive a) eqn:A; cbn [process_all]; rewrite ?A, IH; reflexivity.
Qed.

Lemma handle_v_live : forall vr lv c n srcs srcs' r,
  filter src_alive srcs = filter src_alive srcs' ->
  handle_v vr lv (MkCfg c n srcs) r = handle_v vr lv (MkCfg c n srcs') r.
Proof.
  intros vr lv c n srcs srcs' r H. unfold handle_v. cbn [cf_sources cf_nodes cf_compress].
  rewrite (process_all_live vr lv n srcs), H, <- process_all_live. reflexivity.
Qed.

(* --- the invariant of the code as it is (mutex around load .. store) *)
Definition fresh_ent (next : N) (done : list N) (n : source) : Prop :=
  src_id n < next /\ ~ In (src_id n) done /\ src_alive n = true.

Definition pc_ok (next : N) (done : list N) (cur : list source) (dead : list N) (log : list op) (pc : rpc) : Prop :=
  match pc with
  | RIdle => True
  | RHeld n => fresh_ent next done n
  | RLoaded n snap => fresh_ent next done n /\ snap = cur
  | RBuilt n new => fresh_ent next done n /\ exists d, incl d dead /\ new = build d cur n
  | RReady _ _ => False
  | RStored n => In (OReg (src_id n) (src_proc n) (src_sub n)) log
  end.

Record rinv (init : list source) (s : rstate) : Prop := MkRinv {
  ri_owner : forall t th, nth_error (rs_thr s) t = Some th -> rt_pc th <> RIdle -> rs_owner s = Some t;
  ri_done : Forall (fun i => i < rs_next s) (rs_done s);
  ri_dead : incl (rs_dead s) (rs_done s);
  ri_pc : forall t th, nth_error (rs_thr s) t = Some th ->
                       pc_ok (rs_next s) (rs_done s) (rs_cur s) (rs_dead s) (rs_log s) (rt_pc th);
  ri_exact : live (rs_dead s) (rs_cur s) = filter src_alive (seq_run init (rs_log s));
  ri_ret : forall t th id r, nth_error (rs_thr s) t = Some th -> In (id, r) (rt_ret th) ->
                             In (OReg id (rr_proc r) (rr_sub r)) (rs_log s);
  ri_drops : forall id, In (ODrop id) (rs_log s) -> In id (rs_dead s) }.

Lemma next0_bound : forall init s, In s init -> src_id s < next0 init.
Proof.
  induction init as [|a t IH]; intros s H; [destruct H|].
  unfold next0 in *. cbn [fold_right]. destruct H as [<-|H]; [lia|]. specialize (IH _ H). lia.
Qed.

Lemma mark_nil_alive : forall l, forallb src_alive l = true -> mark [] l = l.
Proof.
  induction l as [|[i p sb al] t IH]; intro H; [reflexivity|]. cbn in H. apply andb_true_iff in H as [-> Ht].
  change (mark [] (MkSrc i p sb true :: t)) with (MkSrc i p sb true :: mark [] t). rewrite IH by exact Ht. reflexivity.
Qed.

Lemma filter_all : forall {A} (f : A -> bool) l, forallb f l = true -> filter f l = l.
Proof.
  intros A f. induction l as [|a t IH]; intro H; [reflexivity|]. cbn in *. apply andb_true_iff in H as [-> Ht].
  rewrite IH by exact Ht. reflexivity.
Qed.

Lemma rinv_init : forall init progs, forallb src_alive init = true -> rinv init (rinit init progs).
Proof.
  intros init progs Ha. split; unfold rinit; cbn [rs_cur rs_owner rs_next rs_dead rs_done rs_thr rs_log].
  - intros t th Ht Hpc. apply nth_error_In in Ht. apply in_map_iff in Ht as (p & <- & _). cbn in Hpc. congruence.
  - apply Forall_forall. intros i Hi. apply in_map_iff in Hi as (s & <- & Hs). apply next0_bound. exact Hs.
  - intros x [].
  - intros t th Ht. apply nth_error_In in Ht. apply in_map_iff in Ht as (p & <- & _). exact I.
  - unfold live. rewrite mark_nil_alive by exact Ha. reflexivity.
  - intros t th id r Ht Hr. apply nth_error_In in Ht. apply in_map_iff in Ht as (p & <- & _). destruct Hr.
  - intros id [].
Qed.

Ltac rsimp := cbn [rs_cur rs_owner rs_next rs_dead rs_done rs_thr rs_log set_thr set_owner bump_next do_store rt_pc rt_prog rt_ret] in *.

Lemma rinv_step : forall init s e, rinv init s -> rinv init (rstep LockAll s e).
Proof.
  intros init s e I. destruct e as [t|id]; cbn [rstep].
  2:{ destruct (memN id (rs_done s)) eqn:Hd; [|exact I]. apply memN_In in Hd. split; rsimp.
      - exact (ri_owner _ _ I).
      - exact (ri_done _ _ I).
      - intros x [<-|Hx]; [exact Hd|exact (ri_dead _ _ I _ Hx)].
      - intros t th Ht. pose proof (ri_pc _ _ I _ _ Ht) as P. destruct (rt_pc th); cbn [pc_ok] in *; auto.
        + destruct P as [F (d & Hi & E)]. split; [exact F|]. exists d. split; [|exact E]. intros x Hx. right. auto.
        + apply in_or_app. left. exact P.
      - rewrite live_drop, seq_run_snoc. cbn [apply_op]. rewrite alive_drop_src. f_equal. exact (ri_exact _ _ I).
      - intros t th i r Ht Hr. apply in_or_app. left. eapply ri_ret; eauto.
      - intros i Hi. apply in_app_or in Hi as [Hi|[E|[]]]; [right; eapply ri_drops; eauto|]. inversion E. left. reflexivity. }
  destruct (nth_error (rs_thr s) t) as [th|] eqn:Ht; [|exact I].
  pose proof (ri_pc _ _ I _ _ Ht) as P.
  destruct th as [prog pc ret]. rsimp. destruct pc as [|n|n snap|n new|n new|n]; cbn [pc_ok] in P.
  - (* the call starts: lock() *)
    destruct prog as [|r rest]; [exact I|]. destruct (rs_owner s) eqn:Ho; [exact I|].
    assert (Hidle : forall u thu, u <> t -> nth_error (rs_thr s) u = Some thu -> rt_pc thu = RIdle).
    { intros u thu _ Hu. destruct (rt_pc thu) eqn:E; try reflexivity;
        (assert (X : rs_owner s = Some u) by (eapply ri_owner; eauto; congruence); congruence). }
    split; rsimp.
    + intros u thu Hu Hpc. destruct (nth_upd_cases _ _ _ _ _ _ Ht Hu) as [[-> ->]|[Hne Hu']]; [reflexivity|].
      rewrite (Hidle _ _ Hne Hu') in Hpc. congruence.
    + eapply Forall_impl; [|exact (ri_done _ _ I)]. cbn. intros; lia.
    + exact (ri_dead _ _ I).
    + intros u thu Hu. destruct (nth_upd_cases _ _ _ _ _ _ Ht Hu) as [[-> ->]|[Hne Hu']].
      * cbn [pc_ok rt_pc]. unfold fresh_ent. cbn [src_id src_alive]. split; [lia|]. split; [|reflexivity]. intro Hin.
        pose proof (proj1 (Forall_forall _ _) (ri_done _ _ I) _ Hin) as L. cbn in L. lia.
      * rewrite (Hidle _ _ Hne Hu'). exact Logic.I.
    + exact (ri_exact _ _ I).
    + intros u thu i q Hu Hr. destruct (nth_upd_cases _ _ _ _ _ _ Ht Hu) as [[-> ->]|[Hne Hu']].
      * eapply (ri_ret _ _ I); [exact Ht|exact Hr].
      * eapply (ri_ret _ _ I); eauto.
    + exact (ri_drops _ _ I).
  - (* load *)
    pose proof (ri_owner _ _ I _ _ Ht ltac:(cbn; congruence)) as Ho.
    split; rsimp.
    + intros u thu Hu Hpc. destruct (nth_upd_cases _ _ _ _ _ _ Ht Hu) as [[-> ->]|[Hne Hu']]; [exact Ho|].
      eapply ri_owner; eauto.
    + exact (ri_done _ _ I).
    + exact (ri_dead _ _ I).
    + intros u thu Hu. destruct (nth_upd_cases _ _ _ _ _ _ Ht Hu) as [[-> ->]|[Hne Hu']]; [cbn; auto|].
      exact (ri_pc _ _ I _ _ Hu').
    + exact (ri_exact _ _ I).
    + intros u thu i q Hu Hr. destruct (nth_upd_cases _ _ _ _ _ _ Ht Hu) as [[-> ->]|[Hne Hu']].
      * eapply (ri_ret _ _ I); [exact Ht|exact Hr].
      * eapply (ri_ret _ _ I); eauto.
    + exact (ri_drops _ _ I).
  - (* build *)
    destruct P as [F ->]. pose proof (ri_owner _ _ I _ _ Ht ltac:(cbn; congruence)) as Ho.
    split; rsimp.
    + intros u thu Hu Hpc. destruct (nth_upd_cases _ _ _ _ _ _ Ht Hu) as [[-> ->]|[Hne Hu']]; [exact Ho|].
      eapply ri_owner; eauto.
    + exact (ri_done _ _ I).
    + exact (ri_dead _ _ I).
    + intros u thu Hu. destruct (nth_upd_cases _ _ _ _ _ _ Ht Hu) as [[-> ->]|[Hne Hu']].
      * cbn. split; [exact F|]. exists (rs_dead s). split; [apply incl_refl|reflexivity].
      * exact (ri_pc _ _ I _ _ Hu').
    + exact (ri_exact _ _ I).
    + intros u thu i q Hu Hr. destruct (nth_upd_cases _ _ _ _ _ _ Ht Hu) as [[-> ->]|[Hne Hu']].
      * eapply (ri_ret _ _ I); [exact Ht|exact Hr].
      * eapply (ri_ret _ _ I); eauto.
    + exact (ri_drops _ _ I).
  - (* store *)
    destruct P as [(Flt & Fnd & Fal) (d & Hd & ->)].
    pose proof (ri_owner _ _ I _ _ Ht ltac:(cbn; congruence)) as Ho.
    assert (Hidle : forall u thu, u <> t -> nth_error (rs_thr s) u = Some thu -> rt_pc thu = RIdle).
    { intros u thu Hne Hu. destruct (rt_pc thu) eqn:E; try reflexivity;
        (assert (X : rs_owner s = Some u) by (eapply ri_owner; eauto; congruence); congruence). }
    split; rsimp.
    + intros u thu Hu Hpc. destruct (nth_upd_cases _ _ _ _ _ _ Ht Hu) as [[-> ->]|[Hne Hu']]; [exact Ho|].
      eapply ri_owner; eauto.
    + constructor; [exact Flt|exact (ri_done _ _ I)].
    + intros x Hx. right. exact (ri_dead _ _ I _ Hx).
    + intros u thu Hu. destruct (nth_upd_cases _ _ _ _ _ _ Ht Hu) as [[-> ->]|[Hne Hu']].
      * cbn. apply in_or_app. right. left. reflexivity.
      * rewrite (Hidle _ _ Hne Hu'). exact Logic.I.
    + rewrite seq_run_snoc. cbn [apply_op]. rewrite filter_alive_register.
      rewrite live_build; [|exact Hd|intro H; apply Fnd; exact (ri_dead _ _ I _ H)|exact Fal].
      rewrite (ri_exact _ _ I). destruct n as [i p sb al]. cbn in Fal. subst al. reflexivity.
    + intros u thu i q Hu Hr. apply in_or_app. left.
      destruct (nth_upd_cases _ _ _ _ _ _ Ht Hu) as [[-> ->]|[Hne Hu']].
      * eapply (ri_ret _ _ I); [exact Ht|exact Hr].
      * eapply (ri_ret _ _ I); eauto.
    + intros i Hi. apply in_app_or in Hi as [Hi|[E|[]]]; [eapply ri_drops; eauto|inversion E].
  - destruct P.
  - (* the guard is dropped, the call returns *)
    pose proof (ri_owner _ _ I _ _ Ht ltac:(cbn; congruence)) as Ho.
    split; rsimp.
    + intros u thu Hu Hpc. destruct (nth_upd_cases _ _ _ _ _ _ Ht Hu) as [[-> ->]|[Hne Hu']]; [cbn in Hpc; congruence|].
      assert (X : rs_owner s = Some u) by (eapply ri_owner; eauto). congruence.
    + exact (ri_done _ _ I).
    + exact (ri_dead _ _ I).
    + intros u thu Hu. destruct (nth_upd_cases _ _ _ _ _ _ Ht Hu) as [[-> ->]|[Hne Hu']]; [exact Logic.I|].
      exact (ri_pc _ _ I _ _ Hu').
    + exact (ri_exact _ _ I).
    + intros u thu i q Hu Hr. destruct (nth_upd_cases _ _ _ _ _ _ Ht Hu) as [[-> ->]|[Hne Hu']].
      * cbn in Hr. apply in_app_or in Hr as [Hr|[E|[]]].
        -- eapply (ri_ret _ _ I); [exact Ht|exact Hr].
        -- inversion E. subst. exact P.
      * eapply (ri_ret _ _ I); eauto.
    + exact (ri_drops _ _ I).
Qed.

Lemma rinv_run : forall init sched s, rinv init s -> rinv init (rrun LockAll s sched).
Proof.
  intros init. induction sched as [|e r IH]; intros s I; [exact I|]. cbn. apply IH. apply rinv_step. exact I.
Qed.

(* --- with the mutex: every interleaving is a sequential history *)
Theorem reg_conc_is_sequential : forall init progs sched,
  forallb src_alive init = true ->
  live (rs_dead (rrun LockAll (rinit init progs) sched)) (rs_cur (rrun LockAll (rinit init progs) sched))
  = filter src_alive (seq_run init (rs_log (rrun LockAll (rinit init progs) sched))).
Proof.
  intros init progs sched Ha. exact (ri_exact _ _ (rinv_run init sched _ (rinv_init init progs Ha))).
Qed.

(* ... so no request can tell the concurrent history from the sequential one: every theorem about
   [run] / [handle] over registration histories applies to concurrently registering components *)
Theorem reg_conc_requests_as_sequential : forall vr lv c n init progs sched r,
  forallb src_alive init = true ->
  handle_v vr lv (conc_config c n (rrun LockAll (rinit init progs) sched)) r
  = handle_v vr lv (MkCfg c n (seq_run init (rs_log (rrun LockAll (rinit init progs) sched)))) r.
Proof.
  intros vr lv c n init progs sched r Ha. unfold conc_config. apply handle_v_live.
  exact (reg_conc_is_sequential init progs sched Ha).
Qed.

Lemma seq_run_is_run : forall lv ops c, cf_sources (fst (run lv c ops)) = seq_run (cf_sources c) ops.
Proof.
  intros lv. induction ops as [|o t IH]; intros c; [reflexivity|].
  rewrite run_fst_cons, IH. cbn [seq_run fold_left]. f_equal. destruct o; reflexivity.
Qed.

(* every call that has returned left its endpoint in the collection, for as long as its owner lives *)
Theorem reg_conc_all_present : forall init progs sched t th id r,
  forallb src_alive init = true ->
  nth_error (rs_thr (rrun LockAll (rinit init progs) sched)) t = Some th ->
  In (id, r) (rt_ret th) ->
  ~ In id (rs_dead (rrun LockAll (rinit init progs) sched)) ->
  exists e, In e (rs_cur (rrun LockAll (rinit init progs) sched)) /\
            src_id e = id /\ src_proc e = rr_proc r /\ src_sub e = rr_sub r.
Proof.
  intros init progs sched t th id r Ha Ht Hr Hnd.
  pose proof (rinv_run init sched _ (rinv_init init progs Ha)) as I.
  set (s := rrun LockAll (rinit init progs) sched) in *.
  pose proof (ri_ret _ _ I _ _ _ _ Ht Hr) as Hlog.
  assert (Hno : ~ In (ODrop id) (rs_log s)) by (intro H; apply Hnd; exact (ri_drops _ _ I _ H)).
  pose proof (seq_present (rs_log s) init id (rr_proc r) (rr_sub r) Hlog Hno) as Hp.
  assert (Hl : In (MkSrc id (rr_proc r) (rr_sub r) true) (live (rs_dead s) (rs_cur s))).
  { rewrite (ri_exact _ _ I). apply filter_In. split; [exact Hp|reflexivity]. }
  unfold live in Hl. apply filter_In in Hl as [Hl _]. unfold mark in Hl. apply in_map_iff in Hl as (e & E & He).
  exists e. inversion E. auto.
Qed.

(* --- the calls of every thread are accounted for (any variant) *)
Lemma map_upd_same : forall {A B} (f : A -> B) l t x y,
  nth_error l t = Some x -> f y = f x -> map f (upd l t y) = map f l.
Proof.
  intros A B f. induction l as [|a r IH]; intros [|t] x y H E; cbn in *; try discriminate; try reflexivity.
  - inversion H. subst. rewrite E. reflexivity.
  - f_equal. eapply IH; eauto.
Qed.

Lemma reqof_new : forall i r, reqof (MkSrc i (rr_proc r) (rr_sub r) true) = r.
Proof. intros i [p sb]. reflexivity. Qed.

Lemma calls_step : forall v s e, map calls (rs_thr (rstep v s e)) = map calls (rs_thr s).
Proof.
  intros v s e. destruct e as [t|id]; cbn [rstep]; [|destruct (memN id (rs_done s)); reflexivity].
  destruct (nth_error (rs_thr s) t) as [th|] eqn:Ht; [|reflexivity].
  destruct th as [prog pc ret]. cbn [rt_pc rt_prog rt_ret].
  destruct pc as [|n|n snap|n new|n new|n].
  - destruct prog as [|r rest]; [reflexivity|].
    destruct v; [destruct (rs_owner s); [reflexivity|]| |]; cbn [rs_thr set_thr set_owner bump_next];
      (eapply map_upd_same; [exact Ht|]); unfold calls; cbn [rt_ret rt_pc rt_prog inflight]; rewrite reqof_new; reflexivity.
  - cbn [rs_thr set_thr]. eapply map_upd_same; [exact Ht|reflexivity].
  - cbn [rs_thr set_thr]. eapply map_upd_same; [exact Ht|reflexivity].
  - destruct v; [| destruct (rs_owner s); [reflexivity|] |]; cbn [rs_thr set_thr set_owner do_store];
      (eapply map_upd_same; [exact Ht|]); unfold calls; cbn [rt_ret rt_pc rt_prog inflight]; rewrite ?map_app, <- ?app_assoc; reflexivity.
  - cbn [rs_thr set_thr do_store]. eapply map_upd_same; [exact Ht|reflexivity].
  - cbn [rs_thr set_thr set_owner]. eapply map_upd_same; [exact Ht|].
    unfold calls. cbn [rt_ret rt_pc rt_prog inflight]. rewrite map_app, <- app_assoc. reflexivity.
Qed.

Lemma calls_run : forall v sched s, map calls (rs_thr (rrun v s sched)) = map calls (rs_thr s).
Proof.
  intros v. induction sched as [|e r IH]; intros s; [reflexivity|].
  change (rrun v s (e :: r)) with (rrun v (rstep v s e) r). rewrite IH. apply calls_step.
Qed.

Theorem reg_conc_calls_accounted : forall v init progs sched,
  map calls (rs_thr (rrun v (rinit init progs) sched)) = progs.
Proof.
  intros v init progs sched. rewrite calls_run. cbn. rewrite map_map. unfold calls. cbn. apply map_id.
Qed.

(* when every thread is done, what has returned is exactly what the programs asked for *)
Theorem reg_conc_all_returned : forall v init progs sched,
  all_returned (rrun v (rinit init progs) sched) = true ->
  map (fun th => map snd (rt_ret th)) (rs_thr (rrun v (rinit init progs) sched)) = progs.
Proof.
  intros v init progs sched H. rewrite <- (reg_conc_calls_accounted v init progs sched) at 2.
  unfold all_returned in H. rewrite forallb_forall in H. apply map_ext_in. intros th Hth.
  specialize (H _ Hth). unfold thread_idle in H. unfold calls.
  destruct (rt_pc th); try discriminate. destruct (rt_prog th); try discriminate. cbn. rewrite app_nil_r. reflexivity.
Qed.

(* --- the order invariant needs no mutex: every vec that is stored was built from a loaded vec *)
Definition pc_sorted (pc : rpc) : Prop :=
  match pc with
  | RLoaded _ l | RBuilt _ l | RReady _ l => subs_first l = true
  | _ => True
  end.

Lemma subs_first_mark : forall d l, subs_first (mark d l) = subs_first l.
Proof.
  intros d. induction l as [|a t IH]; [reflexivity|]. unfold mark in *. cbn [map subs_first src_sub]. rewrite IH. f_equal. f_equal.
  clear. induction t as [|b t IH]; [reflexivity|]. cbn [map forallb src_sub]. rewrite IH. reflexivity.
Qed.

Lemma subs_first_build : forall d l n, subs_first l = true -> subs_first (build d l n) = true.
Proof. intros d l n H. unfold build. apply subs_first_register. rewrite subs_first_mark. exact H. Qed.

Record oinv (s : rstate) : Prop := MkOinv {
  oi_cur : subs_first (rs_cur s) = true;
  oi_pc : forall t th, nth_error (rs_thr s) t = Some th -> pc_sorted (rt_pc th) }.

Lemma oinv_step : forall v s e, oinv s -> oinv (rstep v s e).
Proof.
  intros v s e I. destruct e as [t|id]; cbn [rstep].
  2:{ destruct (memN id (rs_done s)); [|exact I]. split; [exact (oi_cur _ I)|exact (oi_pc _ I)]. }
  destruct (nth_error (rs_thr s) t) as [th|] eqn:Ht; [|exact I].
  pose proof (oi_pc _ I _ _ Ht) as P. destruct th as [prog pc ret]. rsimp.
  assert (Frame : forall s' th', rs_cur s' = rs_cur s -> rs_thr s' = upd (rs_thr s) t th' -> pc_sorted (rt_pc th') -> oinv s').
  { intros s' th' Ec Et Hp. split; [rewrite Ec; exact (oi_cur _ I)|].
    intros u thu Hu. rewrite Et in Hu. destruct (nth_upd_cases _ _ _ _ _ _ Ht Hu) as [[-> ->]|[Hne Hu']]; [exact Hp|].
    exact (oi_pc _ I _ _ Hu'). }
  assert (Store : forall s' th' new, rs_cur s' = new -> subs_first new = true -> rs_thr s' = upd (rs_thr s) t th' ->
                                     pc_sorted (rt_pc th') -> oinv s').
  { intros s' th' new Ec Hn Et Hp. split; [rewrite Ec; exact Hn|].
    intros u thu Hu. rewrite Et in Hu. destruct (nth_upd_cases _ _ _ _ _ _ Ht Hu) as [[-> ->]|[Hne Hu']]; [exact Hp|].
    exact (oi_pc _ I _ _ Hu'). }
  destruct pc as [|n|n snap|n new|n new|n]; cbn [pc_sorted] in P.
  - destruct prog as [|r rest]; [exact I|].
    destruct v; [destruct (rs_owner s); [exact I|]| |]; (eapply Frame; [reflexivity|reflexivity|]); cbn; auto; exact (oi_cur _ I).
  - eapply Frame; [reflexivity|reflexivity|]. cbn. exact (oi_cur _ I).
  - eapply Frame; [reflexivity|reflexivity|]. cbn. apply subs_first_build. exact P.
  - destruct v; [| destruct (rs_owner s); [exact I|] |].
    + eapply Store; [reflexivity|exact P|reflexivity|exact Logic.I].
    + eapply Frame; [reflexivity|reflexivity|exact P].
    + eapply Store; [reflexivity|exact P|reflexivity|exact Logic.I].
  - eapply Store; [reflexivity|exact P|reflexivity|exact Logic.I].
  - eapply Frame; [reflexivity|reflexivity|exact Logic.I].
Qed.

Lemma oinv_run : forall v sched s, oinv s -> oinv (rrun v s sched).
Proof.
  intros v. induction sched as [|e r IH]; intros s I; [exact I|]. cbn. apply IH. apply oinv_step. exact I.
Qed.

Theorem reg_conc_subs_first : forall v init progs sched a b pre mid post,
  subs_first init = true ->
  rs_cur (rrun v (rinit init progs) sched) = pre ++ a :: mid ++ b :: post ->
  src_sub b = true -> src_sub a = true.
Proof.
  intros v init progs sched a b pre mid post Hi E Hb.
  assert (I : oinv (rrun v (rinit init progs) sched)).
  { assert (I0 : oinv (rinit init progs)).
    { split; [exact Hi|]. intros t th Ht. cbn in Ht. apply nth_error_In in Ht. apply in_map_iff in Ht as (p & <- & _). exact Logic.I. }
    apply oinv_run. exact I0. }
  exact (subs_first_spec _ a b pre mid post (oi_cur _ I) E Hb).
Qed.

(* --- without the mutex around load .. store an endpoint is lost *)
Definition lost_endpoint (v : lockvar) : Prop :=
  let s := rrun v (rinit [] w_progs) w_sched in
  (* both calls have returned, nobody dropped anything *)
  all_returned s = true /\ rs_dead s = [] /\
  map rt_ret (rs_thr s) = [[(0, MkRq (PStub k_a 200) false)]; [(1, MkRq (PStub k_b 200) false)]] /\
  (* the first component's endpoint is not in the collection: its requests fall through to 404 *)
  rs_cur s = [MkSrc 1 (PStub k_b 200) false true] /\
  handle lv0 (conc_config false 0 s) w_req_a = Resp 404 false /\
  handle lv0 (conc_config false 0 s) w_req_b = Resp 200 false.

Theorem reg_conc_lock_store_only_refuted : lost_endpoint LockStore.
Proof. vm_compute. repeat split; reflexivity. Qed.

Theorem reg_conc_no_lock_refuted : lost_endpoint LockNone.
Proof. vm_compute. repeat split; reflexivity. Qed.

(* the same schedule on the code as it is: the second component waits for the mutex, both are served *)
Theorem reg_conc_example :
  let s := rrun LockAll (rinit [] w_progs) w_sched in
  all_returned s = true /\
  rs_cur s = [MkSrc 0 (PStub k_a 200) false true; MkSrc 1 (PStub k_b 200) false true] /\
  handle lv0 (conc_config false 0 s) w_req_a = Resp 200 false /\
  handle lv0 (conc_config false 0 s) w_req_b = Resp 200 false /\
  request_ok w_req_a = true /\ request_ok w_req_b = true.
Proof. vm_compute. repeat split; reflexivity. Qed.

(* the same, against the sequential engine's own [run] *)
Theorem reg_conc_requests_as_run : forall vr lv c n init progs sched r,
  forallb src_alive init = true ->
  handle_v vr lv (conc_config c n (rrun LockAll (rinit init progs) sched)) r
  = handle_v vr lv (MkCfg c n (cf_sources (fst (run lv (MkCfg c n init) (rs_log (rrun LockAll (rinit init progs) sched)))))) r.
Proof.
  intros vr lv c n init progs sched r Ha. rewrite seq_run_is_run. cbn [cf_sources].
  apply reg_conc_requests_as_sequential. exact Ha.
Qed.
