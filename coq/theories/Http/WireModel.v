(* C12, wire level - what the HTTP/1 server in front of rotonda's handler makes of
   the BYTES a client sends (definitions only; proofs are in WireProofs.v).

   Server::single_listener (src/http.rs) serves every connection with
   hyper 0.14 (`hyper::Server::builder(..).serve(make_service)`, default
   settings). What is re-stated here, as far as the OUTCOME of a request head
   is concerned (delivered to Server::handle_request as which request / answered
   by hyper itself with which status / more bytes needed):
     httparse 1.10  Request::parse_with_uninit_headers   -> [skip_empty] [parse_method] [parse_target]
                                                             [parse_version] [parse_newline] [parse_headers]
     hyper 0.14     proto::h1::role::Server::parse       -> [hyper_accept] [framing]
     hyper 0.14     Server::on_error                     -> the codes in [WBad]
     http 0.2       Method::from_bytes                   -> [method_char]
     http 0.2       Uri::from_shared, parse_full, Scheme2::parse, Authority::parse,
                    PathAndQuery::from_shared, Uri::path, Uri::query   -> [uri_parse]
     hyper 0.14     headers::{connection_has, is_chunked_, content_length_parse} -> [conn_has] [te_chunked] [from_digits]
   and, per connection, the sequence of such outcomes ([wire_stream]): requests are
   taken one after the other, a refused head ends the connection, so does a
   delivered request without keep-alive.

   Not modelled (the outcome [EOpaque] says "from here on nothing is claimed"):
   what follows a request that announces a body (rotonda never reads request
   bodies; whether hyper can go on depends on when the body bytes arrive), the
   HTTP/2 connection preface. *)
From Coq Require Import NArith List Bool String.
From RV Require Import Http.DispatchText Http.DispatchModel.
Import ListNotations.
Local Open Scope N_scope.
Local Notation length := List.length.

Definition k_http11 : bytes := Eval vm_compute in bs "HTTP/1.1".
Definition k_http10 : bytes := Eval vm_compute in bs "HTTP/1.0".
Definition k_http1dot : bytes := Eval vm_compute in bs "HTTP/1.".
Definition k_get : bytes := Eval vm_compute in bs "GET".
Definition k_head : bytes := Eval vm_compute in bs "HEAD".
Definition k_slash : bytes := Eval vm_compute in bs "/".
Definition k_http_scheme : bytes := Eval vm_compute in bs "http://".
Definition k_https_scheme : bytes := Eval vm_compute in bs "https://".
Definition k_slashslash : bytes := Eval vm_compute in bs "//".
Definition k_transfer_encoding : bytes := Eval vm_compute in bs "transfer-encoding".
Definition k_content_length : bytes := Eval vm_compute in bs "content-length".
Definition k_connection : bytes := Eval vm_compute in bs "connection".
Definition k_chunked : bytes := Eval vm_compute in bs "chunked".
Definition k_close : bytes := Eval vm_compute in bs "close".
Definition k_keep_alive : bytes := Eval vm_compute in bs "keep-alive".
(* "PRI * HTTP/2.0\r\n\r\nSM\r\n\r\n" *)
Definition k_h2_preface : bytes :=
  Eval vm_compute in (bs "PRI * HTTP/2.0" ++ [13; 10; 13; 10] ++ bs "SM" ++ [13; 10; 13; 10]).

Definition blen (l : bytes) : N := N.of_nat (length l).

(* ---------------------------------------------------------------- byte classes *)
(* httparse TOKEN_MAP (method and header-name bytes): RFC 7230 tchar *)
Definition tchar (b : N) : bool :=
  in_rng 65 90 b || in_rng 97 122 b || in_rng 48 57 b ||
  (b =? 33) || in_rng 35 39 b || (b =? 42) || (b =? 43) || (b =? 45) || (b =? 46) ||
  (b =? 94) || (b =? 95) || (b =? 96) || (b =? 124) || (b =? 126).
(* httparse URI_MAP *)
Definition uri_tok (b : N) : bool := in_rng 33 126 b || in_rng 128 255 b.
(* httparse HEADER_VALUE_MAP *)
Definition hval_tok (b : N) : bool := (b =? 9) || in_rng 32 126 b || in_rng 128 255 b.
Definition is_ws (b : N) : bool := (b =? 32) || (b =? 9).
(* http METHOD_CHARS: narrower than tchar (no # $ % & ') *)
Definition method_char (b : N) : bool :=
  in_rng 65 90 b || in_rng 97 122 b || in_rng 48 57 b ||
  (b =? 33) || (b =? 42) || (b =? 43) || (b =? 45) || (b =? 46) ||
  (b =? 94) || (b =? 95) || (b =? 96) || (b =? 124) || (b =? 126).
(* http SCHEME_CHARS without ':' *)
Definition scheme_char (b : N) : bool :=
  in_rng 65 90 b || in_rng 97 122 b || in_rng 48 57 b || (b =? 43) || (b =? 45) || (b =? 46) || (b =? 126).
(* http URI_CHARS (non-zero entries) *)
Definition uri_char (b : N) : bool :=
  (b =? 33) || in_rng 35 36 b || in_rng 38 59 b || (b =? 61) || in_rng 63 91 b || (b =? 93) || (b =? 95) ||
  in_rng 97 122 b || (b =? 126).

Definition utf8_valid (s : bytes) : bool := beqb (utf8_lossy s) s.

Fixpoint span (f : N -> bool) (l : bytes) : bytes * bytes :=
  match l with
  | [] => ([], [])
  | b :: t => if f b then let '(a, r) := span f t in (b :: a, r) else ([], l)
  end.

Fixpoint drop_while (f : N -> bool) (l : bytes) : bytes :=
  match l with
  | [] => []
  | b :: t => if f b then drop_while f t else l
  end.

(* trailing SP / HTAB removed (one pass: List.rev is quadratic and header values can be long) *)
Fixpoint rtrim_ws (v : bytes) : bytes :=
  match v with
  | [] => []
  | b :: t => match rtrim_ws t with
              | [] => if is_ws b then [] else [b]
              | t' => b :: t'
              end
  end.

(* ---------------------------------------------------------------- httparse *)
(* result of a parsing step: value and unread rest / more bytes needed / refused with the status hyper answers *)
Inductive pr (A : Type) :=
| WOk (a : A) (rest : bytes)
| WMore
| WBad (code : N).
Arguments WOk {A} a rest.
Arguments WMore {A}.
Arguments WBad {A} code.

(* skip_empty_lines: CRLF and bare LF in front of the request line *)
Fixpoint skip_empty (l : bytes) : pr unit :=
  match l with
  | [] => WMore
  | b :: t =>
      if b =? 13 then
        match t with
        | [] => WMore
        | c :: t' => if c =? 10 then skip_empty t' else WBad 400
        end
      else if b =? 10 then skip_empty t
      else WOk tt l
  end.

(* parse_method / parse_token: 1*tchar SP *)
Definition parse_method (l : bytes) : pr bytes :=
  let '(m, r) := span tchar l in
  match m with
  | [] => match l with [] => WMore | _ => WBad 400 end
  | _ => match r with
         | [] => WMore
         | b :: r' => if b =? 32 then WOk m r' else WBad 400
         end
  end.

(* parse_uri: 1*(%x21-7E / %x80-FF) SP, and the bytes are UTF-8 *)
Definition parse_target (l : bytes) : pr bytes :=
  let '(u, r) := span uri_tok l in
  match r with
  | [] => WMore
  | b :: r' =>
      if (b =? 32) && negb (match u with [] => true | _ => false end) && utf8_valid u then WOk u r' else WBad 400
  end.

(* parse_version: "HTTP/1.0" / "HTTP/1.1"; with fewer than 8 bytes at hand the part that is there is checked *)
Definition parse_version (l : bytes) : pr bool :=
  if (8 <=? blen l) then
    if starts_with k_http11 l then WOk true (skipn 8 l)
    else if starts_with k_http10 l then WOk false (skipn 8 l)
    else WBad 400
  else if starts_with (firstn 7 l) k_http1dot then WMore else WBad 400.

(* newline!: CRLF or bare LF *)
Definition parse_newline (l : bytes) : pr unit :=
  match l with
  | [] => WMore
  | b :: t =>
      if b =? 13 then
        match t with
        | [] => WMore
        | c :: t' => if c =? 10 then WOk tt t' else WBad 400
        end
      else if b =? 10 then WOk tt t
      else WBad 400
  end.

(* one header line, its first byte being a tchar: name ":" OWS value OWS EOL;
   no whitespace before the colon, no obsolete line folding *)
Definition parse_header_line (l : bytes) : pr (bytes * bytes) :=
  let '(name, r) := span tchar l in
  match r with
  | [] => WMore
  | b :: r1 =>
      if negb (b =? 58) then WBad 400 else
      let r2 := drop_while is_ws r1 in
      match r2 with
      | [] => WMore
      | c :: r3 =>
          if hval_tok c then
            let '(v, r4) := span hval_tok r2 in
            match r4 with
            | [] => WMore
            | d :: r5 =>
                if d =? 13 then
                  match r5 with
                  | [] => WMore
                  | e :: r6 => if e =? 10 then WOk (name, rtrim_ws v) r6 else WBad 400
                  end
                else if d =? 10 then WOk (name, rtrim_ws v) r5
                else WBad 400
            end
          else if c =? 13 then
            match r3 with
            | [] => WMore
            | e :: r6 => if e =? 10 then WOk (name, []) r6 else WBad 400
            end
          else if c =? 10 then WOk (name, []) r3
          else WBad 400
      end
  end.

Definition max_headers : N := 100.

(* parse_headers_iter_uninit: header lines up to the empty line; [n] = lines taken so far.
   The 101st complete line is TooManyHeaders (hyper: 431). [fuel]: every line takes at least a byte. *)
Fixpoint parse_headers (fuel : nat) (n : N) (l : bytes) : pr (list (bytes * bytes)) :=
  match fuel with
  | O => WMore
  | S fuel' =>
      match l with
      | [] => WMore
      | b :: t =>
          if b =? 13 then
            match t with
            | [] => WMore
            | c :: t' => if c =? 10 then WOk [] t' else WBad 400
            end
          else if b =? 10 then WOk [] t
          else if negb (tchar b) then WBad 400
          else match parse_header_line l with
               | WOk h r =>
                   if max_headers <=? n then WBad 431
                   else match parse_headers fuel' (n + 1) r with
                        | WOk hs r' => WOk (h :: hs) r'
                        | WMore => WMore
                        | WBad c => WBad c
                        end
               | WMore => WMore
               | WBad c => WBad c
               end
      end
  end.

Record rawhead := MkRaw { rh_method : bytes; rh_target : bytes; rh_v11 : bool; rh_headers : list (bytes * bytes) }.

(* Request::parse_with_uninit_headers *)
Definition parse_head (l : bytes) : pr rawhead :=
  match skip_empty l with
  | WOk _ l1 =>
    match parse_method l1 with
    | WOk m l2 =>
      match parse_target l2 with
      | WOk u l3 =>
        match parse_version l3 with
        | WOk v l4 =>
          match parse_newline l4 with
          | WOk _ l5 =>
            match parse_headers (S (length l5)) 0 l5 with
            | WOk hs l6 => WOk (MkRaw m u v hs) l6
            | WMore => WMore
            | WBad c => WBad c
            end
          | WMore => WMore
          | WBad c => WBad c
          end
        | WMore => WMore
        | WBad c => WBad c
        end
      | WMore => WMore
      | WBad c => WBad c
      end
    | WMore => WMore
    | WBad c => WBad c
    end
  | WMore => WMore
  | WBad c => WBad c
  end.

(* ---------------------------------------------------------------- http::Uri *)
(* PathAndQuery::from_shared: path up to '?' or '#', query up to '#', fragment dropped *)
Fixpoint pq_query (l : bytes) : option bytes :=
  match l with
  | [] => Some []
  | b :: t =>
      if b =? 35 then Some []
      else if query_byte_ok b then match pq_query t with Some q => Some (b :: q) | None => None end
      else None
  end.

Fixpoint pq_parse (l : bytes) : option (bytes * option bytes) :=
  match l with
  | [] => Some ([], None)
  | b :: t =>
      if b =? 63 then match pq_query t with Some q => Some ([], Some q) | None => None end
      else if b =? 35 then Some ([], None)
      else if path_byte_ok b then match pq_parse t with Some (p, q) => Some (b :: p, q) | None => None end
      else None
  end.

(* PathAndQuery::path: an empty path reads "/" *)
Definition pq_path (p : bytes) : bytes := match p with [] => k_slash | _ => p end.

(* Authority::parse: index of the end of the authority, or an error *)
Record auth_st := MkAu { au_colons : N; au_open : bool; au_close : bool; au_pct : bool; au_at_last : bool (* the byte before the current position is the last '@' seen *) }.

Fixpoint auth_scan (l : bytes) (st : auth_st) (pos : nat) : option (nat * auth_st) :=
  match l with
  | [] => Some (pos, st)
  | b :: t =>
      if (b =? 47) || (b =? 63) || (b =? 35) then Some (pos, st)
      else if b =? 58 then
        if 8 <=? au_colons st then None
        else auth_scan t (MkAu (au_colons st + 1) (au_open st) (au_close st) (au_pct st) false) (S pos)
      else if b =? 91 then
        if au_pct st || au_open st then None
        else auth_scan t (MkAu (au_colons st) true (au_close st) (au_pct st) false) (S pos)
      else if b =? 93 then
        if negb (au_open st) || au_close st then None
        else auth_scan t (MkAu 0 (au_open st) true false false) (S pos)
      else if b =? 64 then auth_scan t (MkAu 0 (au_open st) (au_close st) false true) (S pos)
      else if b =? 37 then auth_scan t (MkAu (au_colons st) (au_open st) (au_close st) true false) (S pos)
      else if uri_char b then auth_scan t (MkAu (au_colons st) (au_open st) (au_close st) (au_pct st) false) (S pos)
      else None
  end.

Definition auth_end (l : bytes) : option nat :=
  match auth_scan l (MkAu 0 false false false false) O with
  | None => None
  | Some (e, st) =>
      if xorb (au_open st) (au_close st) then None
      else if 1 <? au_colons st then None
      else if au_at_last st then None       (* nothing after an '@' *)
      else if au_pct st then None
      else Some e
  end.

(* Scheme2::parse: number of bytes in front of the authority ("scheme://"), 0 = no scheme; None = SchemeTooLong *)
Fixpoint scheme_scan (l : bytes) (i : nat) : option nat :=
  match l with
  | [] => Some O
  | b :: t =>
      if b =? 58 then
        if starts_with k_slashslash t then (if Nat.ltb 64 i then None else Some (i + 3)%nat) else Some O
      else if scheme_char b then scheme_scan t (S i)
      else Some O
  end.

Definition scheme_len (l : bytes) : option nat :=
  if starts_with k_http_scheme (map lower (firstn 7 l)) then Some 7%nat
  else if starts_with k_https_scheme (map lower (firstn 8 l)) then Some 8%nat
  else if (3 <? blen l) then scheme_scan l O
  else Some O.

(* Uri::from_shared, then Uri::path() and Uri::query() *)
Definition uri_parse (u : bytes) : option (bytes * option bytes) :=
  match u with
  | [] => None
  | b :: t =>
      if b =? 47 then
        match pq_parse u with Some (p, q) => Some (pq_path p, q) | None => None end
      else if (b =? 42) && (match t with [] => true | _ => false end) then Some (k_star, None)
      else
        match scheme_len u with
        | None => None
        | Some O =>
            (* authority-form: everything is the authority, no path *)
            match auth_end u with
            | Some e => if Nat.eqb e (length u) then Some ([], None) else None
            | None => None
            end
        | Some n =>
            let rest := skipn n u in
            match auth_end rest with
            | Some O => None
            | Some e => match pq_parse (skipn e rest) with Some (p, q) => Some (pq_path p, q) | None => None end
            | None => None
            end
        end
  end.

(* ---------------------------------------------------------------- hyper Server::parse *)
Definition max_uri_len : N := 65534.
Definition u64_max : N := 18446744073709551615.

Definition from_digits (v : bytes) : option N :=
  match v with
  | [] => None
  | _ => match parse_digits 0 v with
         | Some n => if n <=? u64_max then Some n else None
         | None => None
         end
  end.

(* headers::connection_has: a visible-ASCII value with [needle] among its comma-separated, trimmed, case-folded items *)
Definition conn_has (needle v : bytes) : bool :=
  hv_to_str_ok v && existsb (fun item => beqb_nocase (trim item) needle) (split_on is_comma v).

(* headers::is_chunked_: the LAST item is "chunked" *)
Definition te_chunked (v : bytes) : bool :=
  hv_to_str_ok v && beqb_nocase (trim (last (split_on is_comma v) [])) k_chunked.

Record fr := MkFr { fr_te : bool; fr_chunked : bool; fr_len : option N; fr_keep : bool }.

(* the header loop of Server::parse: Transfer-Encoding, Content-Length, Connection; code 0 = no error *)
Fixpoint framing (v11 : bool) (hs : list (bytes * bytes)) (st : fr) : N * fr :=
  match hs with
  | [] => (if fr_te st && negb (fr_chunked st) then 400 else 0, st)
  | (n, v) :: t =>
      if beqb_nocase n k_transfer_encoding then
        if negb v11 then (400, st)
        else framing v11 t (MkFr true (te_chunked v) (fr_len st) (fr_keep st))
      else if beqb_nocase n k_content_length then
        if fr_te st then framing v11 t st
        else match from_digits v with
             | None => (400, st)
             | Some len =>
                 match fr_len st with
                 | Some prev => if prev =? len then framing v11 t st else (400, st)
                 | None => if (u64_max - 2) <? len then (431, st)
                           else framing v11 t (MkFr (fr_te st) (fr_chunked st) (Some len) (fr_keep st))
                 end
             end
      else if beqb_nocase n k_connection then
        framing v11 t (MkFr (fr_te st) (fr_chunked st) (fr_len st)
                            (if fr_keep st then negb (conn_has k_close v) else conn_has k_keep_alive v))
      else framing v11 t st
  end.

(* a request as hyper hands it to the service: the request of the dispatch model (method 0 = GET),
   its method token, keep-alive, and whether a body was announced *)
Record delivered := MkDel { dl_method : bytes; dl_req : request; dl_keep : bool; dl_body : bool }.

Definition hyper_accept (h : rawhead) : N + delivered :=
  if max_uri_len <? blen (rh_target h) then inl 414
  else if negb (forallb method_char (rh_method h)) then inl 400
  else match uri_parse (rh_target h) with
       | None => inl 400
       | Some (p, q) =>
           if existsb (fun nv => 65536 <=? blen (fst nv)) (rh_headers h) then inl 431
           else
             let '(code, st) := framing (rh_v11 h) (rh_headers h) (MkFr false false None (rh_v11 h)) in
             if negb (code =? 0) then inl code
             else inr (MkDel (rh_method h)
                             (MkReq (if beqb (rh_method h) k_get then 0 else 1) p q (rh_headers h))
                             (fr_keep st)
                             (fr_chunked st || match fr_len st with Some n => negb (n =? 0) | None => false end))
       end.

(* one request head off the front of the bytes received so far *)
Definition wire_parse (l : bytes) : pr delivered :=
  match parse_head l with
  | WOk h rest => match hyper_accept h with inl c => WBad c | inr d => WOk d rest end
  | WMore => WMore
  | WBad c => WBad c
  end.

(* ---------------------------------------------------------------- a connection *)
(* hyper's read buffer: 8192 + 4096 * 100; a head that is still incomplete when that many bytes are buffered is refused with 431 *)
Definition max_buf : N := 417792.

(* hyper's is_complete_fast: CR LF CR LF or LF LF somewhere *)
Fixpoint has_head_end (l : bytes) : bool :=
  match l with
  | [] => false
  | b :: t =>
      ((b =? 13) && starts_with [10; 13; 10] t) || ((b =? 10) && starts_with [10] t) || has_head_end t
  end.

Inductive wevent :=
| EDeliver (d : delivered)      (* handed to Server::handle_request *)
| EBig (d : delivered)          (* a complete head longer than the read buffer: delivered, or 431 when it arrives piecemeal *)
| ERefuse (code : N) (sure : bool)   (* hyper answers itself and closes. [sure]: the end of a head is among the bytes, so hyper
                                   parses at the latest when that arrives; without it (a head that is malformed AND cut) hyper
                                   only notices if the malformed part is in what its first read returns *)
| EBigRefuse (code : N)         (* a malformed head, more bytes than the read buffer holds: that code or 431 *)
| EClosed                       (* the server closes the connection *)
| EWait                         (* the server waits for (the rest of) a request head; it closes when the client does *)
| EOpaque.                      (* not modelled from here on *)

(* everything a client sends on one connection -> what happens, request by request *)
Fixpoint wire_stream (fuel : nat) (l : bytes) : list wevent :=
  match fuel with
  | O => [EWait]
  | S fuel' =>
      if starts_with k_h2_preface l then [EOpaque] else
      match wire_parse l with
      | WMore => if (max_buf <=? blen l) then [ERefuse 431 true] else [EWait]
      | WBad c => if (max_buf <? blen l) then [EBigRefuse c] else [ERefuse c (has_head_end l)]
      | WOk d rest =>
          let ev := if max_buf <? (blen l - blen rest) then EBig d else EDeliver d in
          if dl_body d then [ev; EOpaque]
          else if dl_keep d then ev :: wire_stream fuel' rest
          else [ev; EClosed]
      end
  end.

Definition wire_conn (l : bytes) : list wevent := wire_stream (S (length l)) l.

(* ---------------------------------------------------------------- what the client sees *)
(* the answer to one event under a handler configuration *)
Inductive wanswer :=
| AResp (o : outcome)           (* rotonda's handler answered *)
| AHyper (code : N)             (* hyper's own error response *)
| AHyper2 (code code' : N)      (* one of two *)
| AEither (o : outcome) (code : N)
| ANone                         (* connection closed *)
| AUnknown.

Definition answer_of (lv : leaves) (c : config) (e : wevent) : wanswer :=
  match e with
  | EDeliver d => AResp (handle lv c (dl_req d))
  | EBig d => AEither (handle lv c (dl_req d)) 431
  | ERefuse code _ => AHyper code
  | EBigRefuse code => AHyper2 code 431
  | EClosed => ANone
  | EWait => ANone
  | EOpaque => AUnknown
  end.

(* what the request line of an origin-form request looks like on the wire *)
Definition render_origin (m p : bytes) (q : option bytes) : bytes :=
  m ++ [32] ++ p ++ (match q with Some q => 63 :: q | None => [] end) ++ [32] ++ k_http11 ++ [13; 10].

(* the follow-up request of every case: GET /status on a new connection *)
Definition status_request : bytes := Eval vm_compute in (bs "GET /status HTTP/1.1" ++ [13; 10; 13; 10]).

(* two pipelined requests: a GET with a query for the rib endpoint, then a request line with a space in the target *)
Definition example_conn : bytes :=
  Eval vm_compute in (bs "GET /prefixes/1.2.3.0/24?include=x HTTP/1.1" ++ [13; 10; 13; 10] ++ bs "GET /no pe HTTP/1.1" ++ [13; 10; 13; 10]).
