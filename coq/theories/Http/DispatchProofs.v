(* C12 - proofs about the dispatch model (DispatchModel.v / DispatchText.v). *)
From Coq Require Import Arith PeanoNat NArith List Bool Lia.
From RV Require Import Http.DispatchText Http.DispatchModel.
Import ListNotations.
Local Open Scope N_scope.
Local Notation length := List.length.

(* ---------------------------------------------------------------- byte strings *)
Lemma beqb_eq : forall a b, beqb a b = true <-> a = b.
Proof.
  induction a as [|x a IH]; destruct b as [|y b]; cbn; split; intro H; try congruence; try discriminate.
  - apply andb_true_iff in H as [H1 H2]. apply N.eqb_eq in H1. apply IH in H2. congruence.
  - inversion H; subst. rewrite N.eqb_refl. cbn. apply IH. reflexivity.
Qed.

Lemma beqb_refl : forall a, beqb a a = true.
Proof. intro a. apply beqb_eq. reflexivity. Qed.

Lemma starts_with_refl : forall a, starts_with a a = true.
Proof. induction a as [|x a IH]; cbn; [reflexivity|]. rewrite N.eqb_refl. exact IH. Qed.

Lemma starts_with_app : forall p s, starts_with p (p ++ s) = true.
Proof. induction p as [|x p IH]; intro s; cbn; [reflexivity|]. rewrite N.eqb_refl. apply IH. Qed.

Lemma strip_pfx_starts : forall p s, strip_pfx p s = None <-> starts_with p s = false.
Proof.
  induction p as [|x p IH]; intros [|y s]; cbn; try (split; congruence).
  destruct (x =? y); cbn; [apply IH|split; congruence].
Qed.

Lemma strip_pfx_some : forall p s r, strip_pfx p s = Some r -> s = p ++ r.
Proof.
  induction p as [|x p IH]; intros [|y s] r H; cbn in *; try congruence.
  destruct (x =? y) eqn:E; [|discriminate]. apply N.eqb_eq in E. subst. f_equal. apply IH. exact H.
Qed.

Lemma strip_pfx_app : forall p r, strip_pfx p (p ++ r) = Some r.
Proof. induction p as [|x p IH]; intro r; cbn; [reflexivity|]. rewrite N.eqb_refl. apply IH. Qed.

Lemma strip_pfx_none_of_starts : forall p s, starts_with p s = false -> strip_pfx p s = None.
Proof. intros p s H. apply strip_pfx_starts. exact H. Qed.

Lemma beqb_starts : forall a b, beqb a b = true -> starts_with b a = true.
Proof. intros a b H. apply beqb_eq in H. subst. apply starts_with_refl. Qed.

(* ---------------------------------------------------------------- ASCII strings have a boundary everywhere *)
Lemma is_ascii_nth : forall s i, is_ascii s = true -> (i < length s)%nat -> nth i s 0 <? 128 = true.
Proof.
  intros s i H Hi. unfold is_ascii in H. rewrite forallb_forall in H. apply H. apply nth_In. exact Hi.
Qed.

Lemma ascii_boundary : forall s i, is_ascii s = true -> (i <= length s)%nat -> char_boundary s i = true.
Proof.
  intros s i H Hi. unfold char_boundary. destruct i as [|i]; [reflexivity|].
  destruct (Nat.compare (S i) (length s)) eqn:E.
  - reflexivity.
  - apply Nat.compare_lt_iff in E. pose proof (is_ascii_nth s (S i) H E) as Hn.
    apply N.ltb_lt in Hn. unfold is_cont, in_rng.
    destruct (128 <=? nth (S i) s 0) eqn:E2; [apply N.leb_le in E2; lia|reflexivity].
  - apply Nat.compare_gt_iff in E. lia.
Qed.

Lemma is_ascii_app : forall a b, is_ascii (a ++ b) = true -> is_ascii a = true /\ is_ascii b = true.
Proof. intros a b H. unfold is_ascii in *. rewrite forallb_app in H. apply andb_true_iff in H. exact H. Qed.

Lemma is_ascii_strip : forall p s r, strip_pfx p s = Some r -> is_ascii s = true -> is_ascii r = true.
Proof. intros p s r H Hs. apply strip_pfx_some in H. subst. apply is_ascii_app in Hs. tauto. Qed.

Lemma split_on_ascii : forall c s, is_ascii s = true -> Forall (fun p => is_ascii p = true) (split_on c s).
Proof.
  intros c. induction s as [|b t IH]; intro H; cbn.
  - constructor; [reflexivity|constructor].
  - cbn in H. apply andb_true_iff in H as [Hb Ht]. specialize (IH Ht).
    destruct (c b).
    + constructor; [reflexivity|exact IH].
    + destruct (split_on c t) as [|p ps] eqn:E.
      * constructor; [cbn; rewrite Hb; reflexivity|constructor].
      * inversion IH; subst. constructor; [cbn; rewrite Hb; assumption|assumption].
Qed.

(* ---------------------------------------------------------------- the leaf parsers do not panic on ASCII *)
Lemma asn_ascii_no_panic : forall s, is_ascii s = true -> asn_from_str s <> LPanic.
Proof.
  intros s H. unfold asn_from_str.
  destruct (2 <? N.of_nat (length s)) eqn:E.
  - rewrite ascii_boundary; [|exact H|apply N.ltb_lt in E; lia]. cbn.
    destruct (parse_uint _ _); discriminate.
  - destruct (parse_uint _ _); discriminate.
Qed.

Lemma asn_list_no_panic : forall l, Forall (fun p => is_ascii p = true) l -> asn_list l <> LPanic.
Proof.
  induction l as [|i t IH]; intro H; cbn; [discriminate|].
  inversion H; subst. destruct (asn_from_str i) eqn:E; try discriminate.
  - apply IH. assumption.
  - exfalso. eapply asn_ascii_no_panic; eauto.
Qed.

Lemma comm_ascii_no_panic : forall s, is_ascii s = true -> comm_panics s = false.
Proof.
  intros s H. unfold comm_panics. destruct (strip_pfx k_0x s) as [h|] eqn:E; [|reflexivity].
  pose proof (is_ascii_strip _ _ _ E H) as Hh.
  destruct (Nat.eqb (length h) 40) eqn:L; [|reflexivity]. apply Nat.eqb_eq in L.
  rewrite (ascii_boundary h 16 Hh) by lia. rewrite (ascii_boundary h 32 Hh) by lia.
  cbn. rewrite andb_false_r. reflexivity.
Qed.

Lemma filter_kind_raw_ascii : forall lv m, is_ascii (m_value m) = true -> filter_kind_raw lv m <> LPanic.
Proof.
  intros lv [v|fam v] H; cbn in *; [discriminate|].
  destruct (beqb fam k_as_path); [apply asn_list_no_panic, split_on_ascii, H|].
  destruct (beqb fam k_peer_as); [apply asn_ascii_no_panic, H|].
  destruct (beqb fam k_community); [|discriminate].
  unfold comm_from_str. rewrite comm_ascii_no_panic by exact H. destruct (lf_comm lv v); discriminate.
Qed.

Lemma filter_kind_repaired : forall lv m, filter_kind repaired lv m <> LPanic.
Proof.
  intros lv m. unfold filter_kind. cbn.
  destruct (is_ascii (m_value m)) eqn:E; cbn; [apply filter_kind_raw_ascii; exact E|discriminate].
Qed.

Lemma filter_kinds_repaired : forall lv ms, filter_kinds repaired lv ms <> LPanic.
Proof.
  intros lv. induction ms as [|m t IH]; cbn; [discriminate|].
  destruct (filter_kind repaired lv m) eqn:E; try discriminate; [exact IH|].
  exfalso. eapply filter_kind_repaired; eauto.
Qed.

(* ---------------------------------------------------------------- processors: classified results *)
(* a processor result is fine w.r.t. a list of allowed codes *)
Definition res_in (codes : list N) (x : presult) : Prop :=
  match x with PNone => True | PResp c => In c codes | PPanic => False end.

Lemma res_in_mono : forall a b x, incl a b -> res_in a x -> res_in b x.
Proof. intros a b [| c |] Hi H; cbn in *; auto. Qed.

Ltac break_match :=
  match goal with
  | |- context [match ?x with _ => _ end] => destruct x eqn:?
  | |- context [if ?x then _ else _] => destruct x eqn:?
  end.

Lemma rib_prefix_query_ok : forall lv rest q, res_in [200; 400] (rib_prefix_query repaired lv rest q).
Proof.
  intros lv rest q. unfold rib_prefix_query.
  destruct (parse_prefix rest); [|cbn; auto].
  destruct (get_param k_include _) as [inc ps1].
  destruct (negb (include_ok inc p)); [cbn; auto|].
  destruct (get_param k_details ps1) as [det ps2].
  destruct (negb (details_ok det)); [cbn; auto|].
  destruct (get_all_params k_select ps2) as [sel ps3].
  destruct (filter_kinds repaired lv sel) eqn:E1; [| cbn; auto | exfalso; eapply filter_kinds_repaired; eauto].
  destruct (get_all_params k_discard ps3) as [dis ps4].
  destruct (filter_kinds repaired lv dis) eqn:E2; [| cbn; auto | exfalso; eapply filter_kinds_repaired; eauto].
  destruct (get_param k_filter_op ps4) as [fop ps5].
  destruct (negb (filter_op_ok fop)); [cbn; auto|].
  destruct (get_param k_sort ps5) as [srt ps6].
  destruct (get_param k_format ps6) as [fmt ps7].
  destruct (existsb _ ps7); [cbn; auto|].
  destruct fmt as [m|]; [destruct (beqb (m_value m) k_dump)|]; cbn; auto.
Qed.

Lemma rib_process_ok : forall lv base r, res_in [200; 400] (rib_process repaired lv base r).
Proof.
  intros lv base r. unfold rib_process.
  destruct (strip_pfx base _); [|exact I].
  destruct (Nat.eqb _ 3); [|apply rib_prefix_query_ok].
  unfold rib_ingress_query. destruct (parse_uint _ _); cbn; auto.
Qed.

Lemma routers_process_ok : forall base r, res_in [200; 400] (routers_process base r).
Proof.
  intros base r. unfold routers_process. destruct (beqb _ base); [|exact I].
  destruct (get_param k_sort_by _) as [sb ps1]. destruct (get_param k_sort_order ps1) as [so ps2].
  match goal with |- context [if ?c then _ else _] => destruct c end; cbn; auto.
Qed.

Lemma mrt_process_ok : forall base r, res_in [200; 400] (mrt_process base r).
Proof.
  intros base r. unfold mrt_process. destruct (strip_pfx base _); [|exact I].
  destruct (starts_with k_queue _); cbn; auto.
Qed.

Lemma info_process_ok : forall base names r, res_in [200; 400] (info_process base names r).
Proof.
  intros base names r. unfold info_process. destruct (strip_pfx base _) as [[|b t]|]; try exact I.
  destruct (existsb _ names); cbn; auto.
Qed.

Lemma graph_process_ok : forall n r, res_in [200; 400] (graph_process repaired n r).
Proof.
  intros n r. unfold graph_process. destruct (strip_pfx graph_base _); [|exact I]. cbn. auto.
Qed.

Lemma tracer_process_ok : forall r, res_in [200; 400] (tracer_process r).
Proof. intro r. unfold tracer_process. destruct (beqb _ _); cbn; auto. Qed.

(* the status codes configured for stub processors *)
Fixpoint stub_codes (srcs : list source) : list N :=
  match srcs with
  | [] => []
  | s :: t => match src_proc s with PStub _ c => c :: stub_codes t | _ => stub_codes t end
  end.

Lemma proc_run_ok : forall lv n s r,
  res_in (200 :: 400 :: match src_proc s with PStub _ c => [c] | _ => [] end) (proc_run repaired lv n (src_proc s) r).
Proof.
  intros lv n s r. destruct (src_proc s) as [| |base|base|base|base names|pfx code]; cbn [proc_run].
  - eapply res_in_mono; [|apply graph_process_ok]. intros x Hx; exact Hx.
  - eapply res_in_mono; [|apply tracer_process_ok]. intros x Hx; exact Hx.
  - eapply res_in_mono; [|apply rib_process_ok]. intros x Hx; exact Hx.
  - eapply res_in_mono; [|apply routers_process_ok]. intros x Hx; exact Hx.
  - eapply res_in_mono; [|apply mrt_process_ok]. intros x Hx; exact Hx.
  - eapply res_in_mono; [|apply info_process_ok]. intros x Hx; exact Hx.
  - destruct (starts_with pfx _); cbn; auto.
Qed.

Lemma process_all_ok : forall lv n srcs r,
  res_in (200 :: 400 :: stub_codes srcs) (process_all repaired lv n srcs r).
Proof.
  intros lv n srcs r. induction srcs as [|s t IH]; cbn [process_all]; [exact I|].
  assert (Ht : res_in (200 :: 400 :: stub_codes (s :: t)) (process_all repaired lv n t r)).
  { eapply res_in_mono; [|exact IH]. intros x Hx. cbn [stub_codes]. destruct Hx as [Hx|[Hx|Hx]]; [left; exact Hx|right; left; exact Hx|].
    right; right. destruct (src_proc s); try exact Hx. right. exact Hx. }
  destruct (src_alive s); [|exact Ht].
  pose proof (proc_run_ok lv n s r) as Hp.
  destruct (proc_run repaired lv n (src_proc s) r) eqn:E; [exact Ht| |exact Hp].
  cbn in Hp |- *. cbn [stub_codes]. destruct Hp as [Hp|[Hp|Hp]]; [left; exact Hp|right; left; exact Hp|].
  destruct (src_proc s); cbn in Hp; try contradiction. destruct Hp as [Hp|[]]. right; right; left. exact Hp.
Qed.

(* ---------------------------------------------------------------- the handler *)
Lemma gzip_decision_lenient : forall cmp hs, exists g, gzip_decision false cmp hs = Some g.
Proof.
  intros cmp hs. unfold gzip_decision. destruct cmp; [|eauto].
  destruct (header_get ae_name hs) as [v|]; [|eauto]. destruct (hv_to_str_ok v); eauto.
Qed.

(* C12_total_and_classified *)
Theorem handle_total_classified : forall lv c r,
  request_ok r = true ->
  exists code gz, handle lv c r = Resp code gz /\
                  In code (200 :: 400 :: 404 :: 405 :: stub_codes (cf_sources c)).
Proof.
  intros lv c r Hok. unfold handle, handle_v. rewrite Hok. cbn [negb].
  destruct (negb (rq_method r =? 0)).
  - exists 405, false. split; [reflexivity|cbn; auto].
  - cbn [v_ae_strict repaired].
    destruct (gzip_decision_lenient (cf_compress c) (rq_headers r)) as [g Hg]. rewrite Hg.
    destruct (beqb (decode_path (rq_path r)) k_metrics); [exists 200, g; split; [reflexivity|cbn; auto]|].
    destruct (beqb (decode_path (rq_path r)) k_status); [exists 200, g; split; [reflexivity|cbn; auto]|].
    pose proof (process_all_ok lv (cf_nodes c) (cf_sources c) r) as Hp.
    destruct (process_all repaired lv (cf_nodes c) (cf_sources c) r) as [|code|] eqn:E.
    + exists 404, g. split; [reflexivity|cbn; auto].
    + exists code, g. split; [reflexivity|]. cbn in Hp.
      destruct Hp as [Hp|[Hp|Hp]]; [left; exact Hp|right; left; exact Hp|do 4 right; exact Hp].
    + contradiction.
Qed.

(* no input at all - acceptable to the http crate or not - makes the repaired handler panic *)
Theorem handle_never_panics : forall lv c r, handle lv c r <> Panic.
Proof.
  intros lv c r. destruct (request_ok r) eqn:Hok.
  - destruct (handle_total_classified lv c r Hok) as (code & gz & H & _). rewrite H. discriminate.
  - unfold handle, handle_v. rewrite Hok. discriminate.
Qed.

(* C12_method_gate *)
Theorem method_gate : forall lv c r,
  request_ok r = true -> rq_method r <> 0 -> handle lv c r = Resp 405 false.
Proof.
  intros lv c r Hok Hm. unfold handle, handle_v. rewrite Hok. cbn [negb].
  apply N.eqb_neq in Hm. rewrite Hm. reflexivity.
Qed.

(* only GET reaches a processor or a fixed path: anything but 405 was a GET *)
Theorem non_405_is_get : forall lv c r code gz,
  handle lv c r = Resp code gz -> code <> 405 -> rq_method r = 0.
Proof.
  intros lv c r code gz H Hc. unfold handle, handle_v in H.
  destruct (negb (request_ok r)); [discriminate|].
  destruct (rq_method r =? 0) eqn:E; [apply N.eqb_eq; exact E|].
  cbn in H. inversion H; subst. congruence.
Qed.

(* ---------------------------------------------------------------- unknown paths *)
(* the path prefix below which a processor may answer *)
Definition proc_base (p : proc) : bytes :=
  match p with
  | PGraph => graph_base
  | PTracer => k_status_traces
  | PRib b | PRouters b | PMrt b | PInfo b _ => b
  | PStub pfx _ => pfx
  end.

Lemma proc_none_outside_base : forall vr lv n p r,
  starts_with (proc_base p) (decode_path (rq_path r)) = false -> proc_run vr lv n p r = PNone.
Proof.
  intros vr lv n p r H. destruct p as [| |base|base|base|base names|pfx code]; cbn [proc_run proc_base] in *.
  - unfold graph_process. rewrite strip_pfx_none_of_starts by exact H. reflexivity.
  - unfold tracer_process. destruct (beqb _ _) eqn:E; [|reflexivity]. apply beqb_starts in E. congruence.
  - unfold rib_process. rewrite strip_pfx_none_of_starts by exact H. reflexivity.
  - unfold routers_process. destruct (beqb _ _) eqn:E; [|reflexivity]. apply beqb_starts in E. congruence.
  - unfold mrt_process. rewrite strip_pfx_none_of_starts by exact H. reflexivity.
  - unfold info_process. rewrite strip_pfx_none_of_starts by exact H. reflexivity.
  - rewrite H. reflexivity.
Qed.

Lemma process_all_none : forall vr lv n srcs r,
  (forall s, In s srcs -> src_alive s = true ->
             starts_with (proc_base (src_proc s)) (decode_path (rq_path r)) = false) ->
  process_all vr lv n srcs r = PNone.
Proof.
  intros vr lv n srcs r. induction srcs as [|s t IH]; intro H; cbn [process_all]; [reflexivity|].
  destruct (src_alive s) eqn:A.
  - rewrite proc_none_outside_base by (apply H; [left; reflexivity|exact A]).
    apply IH. intros s' Hin. apply H. right. exact Hin.
  - apply IH. intros s' Hin. apply H. right. exact Hin.
Qed.

(* C12_unknown_path_404 *)
Theorem unknown_path_404 : forall lv c r,
  request_ok r = true -> rq_method r = 0 ->
  decode_path (rq_path r) <> k_metrics -> decode_path (rq_path r) <> k_status ->
  (forall s, In s (cf_sources c) -> src_alive s = true ->
             starts_with (proc_base (src_proc s)) (decode_path (rq_path r)) = false) ->
  exists gz, handle lv c r = Resp 404 gz.
Proof.
  intros lv c r Hok Hm H1 H2 Hs. unfold handle, handle_v. rewrite Hok, Hm. cbn [negb N.eqb].
  destruct (beqb _ k_metrics) eqn:E1; [apply beqb_eq in E1; contradiction|].
  destruct (beqb _ k_status) eqn:E2; [apply beqb_eq in E2; contradiction|].
  rewrite process_all_none by exact Hs.
  destruct (gzip_decision_lenient (cf_compress c) (rq_headers r)) as [g Hg].
  cbn [v_ae_strict repaired]. rewrite Hg. exists g. reflexivity.
Qed.

(* ---------------------------------------------------------------- first live processor that answers wins *)
Theorem first_answer_wins : forall vr lv n dead s t r x,
  Forall (fun d => src_alive d = false \/ proc_run vr lv n (src_proc d) r = PNone) dead ->
  src_alive s = true -> proc_run vr lv n (src_proc s) r = x -> x <> PNone ->
  process_all vr lv n (dead ++ s :: t) r = x.
Proof.
  intros vr lv n dead s t r x Hd Ha Hx Hn. induction dead as [|d ds IH]; cbn [app process_all].
  - rewrite Ha, Hx. destruct x; congruence.
  - inversion Hd as [|? ? [Hdead|Hnone] Hrest]; subst.
    + rewrite Hdead. apply IH. exact Hrest.
    + destruct (src_alive d); [rewrite Hnone|]; apply IH; exact Hrest.
Qed.

(* ---------------------------------------------------------------- rib: malformed prefixes and parameters *)
Theorem rib_bad_prefix_400 : forall vr lv base r rest,
  strip_pfx base (decode_path (rq_path r)) = Some rest ->
  length (split_on is_slash (rq_path r)) <> 3%nat ->
  parse_prefix rest = None ->
  rib_process vr lv base r = PResp 400.
Proof.
  intros vr lv base r rest Hs Hc Hp. unfold rib_process. rewrite Hs.
  apply Nat.eqb_neq in Hc. rewrite Hc. unfold rib_prefix_query. rewrite Hp. reflexivity.
Qed.

Theorem rib_bad_ingress_id_400 : forall vr lv base r rest,
  strip_pfx base (decode_path (rq_path r)) = Some rest ->
  length (split_on is_slash (rq_path r)) = 3%nat ->
  parse_uint u32_max rest = None ->
  rib_process vr lv base r = PResp 400.
Proof.
  intros vr lv base r rest Hs Hc Hp. unfold rib_process. rewrite Hs, Hc. cbn.
  unfold rib_ingress_query. rewrite Hp. reflexivity.
Qed.

(* a parameter nobody consumes stays unused ... *)
Definition known_needles : list bytes :=
  [k_include; k_details; k_select; k_discard; k_filter_op; k_sort; k_format].

Definition foreign (p : param) : Prop :=
  forall n, In n known_needles -> mp_parse n p = None.

Lemma get_param_keeps : forall needle ps p,
  In p ps -> mp_parse needle p = None -> In p (snd (get_param needle ps)).
Proof.
  intros needle. induction ps as [|a t IH]; intros p Hin Hp; [contradiction|]. cbn.
  destruct (mp_parse needle a) eqn:E.
  - cbn. destruct Hin as [->|Hin]; [congruence|right; exact Hin].
  - destruct (get_param needle t) as [r t'] eqn:G. cbn. destruct Hin as [->|Hin]; [left; reflexivity|].
    right. exact (IH p Hin Hp).
Qed.

Lemma get_all_keeps : forall needle ps p,
  In p ps -> mp_parse needle p = None -> In p (snd (get_all_params needle ps)).
Proof.
  intros needle. induction ps as [|a t IH]; intros p Hin Hp; [contradiction|]. cbn.
  destruct (get_all_params needle t) as [r t'] eqn:G.
  destruct Hin as [->|Hin].
  - rewrite Hp. left. reflexivity.
  - specialize (IH p Hin Hp). cbn [snd] in IH. destruct (mp_parse needle a); right; exact IH.
Qed.

(* ... so a request carrying one is never answered 200 by the prefix query *)
Theorem rib_unknown_param_not_200 : forall vr lv rest q p,
  In p (params_of q) -> pm_used p = false -> foreign p ->
  rib_prefix_query vr lv rest q <> PResp 200.
Proof.
  intros vr lv rest q p Hin Hu Hf. unfold rib_prefix_query.
  assert (F : forall n, In n known_needles -> mp_parse n p = None) by exact Hf.
  destruct (parse_prefix rest); [|discriminate].
  pose proof (get_param_keeps k_include _ p Hin (F _ (or_introl eq_refl))) as H1.
  destruct (get_param k_include _) as [inc ps1]. cbn [snd] in H1.
  destruct (negb (include_ok inc p0)); [discriminate|].
  pose proof (get_param_keeps k_details _ p H1 (F _ (or_intror (or_introl eq_refl)))) as H2.
  destruct (get_param k_details ps1) as [det ps2]. cbn [snd] in H2.
  destruct (negb (details_ok det)); [discriminate|].
  pose proof (get_all_keeps k_select _ p H2 (F k_select ltac:(cbn; tauto))) as H3.
  destruct (get_all_params k_select ps2) as [sel ps3]. cbn [snd] in H3.
  destruct (filter_kinds vr lv sel); try discriminate.
  pose proof (get_all_keeps k_discard _ p H3 (F k_discard ltac:(cbn; tauto))) as H4.
  destruct (get_all_params k_discard ps3) as [dis ps4]. cbn [snd] in H4.
  destruct (filter_kinds vr lv dis); try discriminate.
  pose proof (get_param_keeps k_filter_op _ p H4 (F k_filter_op ltac:(cbn; tauto))) as H5.
  destruct (get_param k_filter_op ps4) as [fop ps5]. cbn [snd] in H5.
  destruct (negb (filter_op_ok fop)); [discriminate|].
  pose proof (get_param_keeps k_sort _ p H5 (F k_sort ltac:(cbn; tauto))) as H6.
  destruct (get_param k_sort ps5) as [srt ps6]. cbn [snd] in H6.
  pose proof (get_param_keeps k_format _ p H6 (F k_format ltac:(cbn; tauto))) as H7.
  destruct (get_param k_format ps6) as [fmt ps7]. cbn [snd] in H7.
  assert (E : existsb (fun p => negb (pm_used p)) ps7 = true).
  { apply existsb_exists. exists p. split; [exact H7|rewrite Hu; reflexivity]. }
  rewrite E. discriminate.
Qed.

(* ---------------------------------------------------------------- gzip *)
(* C12_gzip_only_if_named (the part of "only when the client accepts it" that holds) *)
Theorem gzip_only_if_named : forall lv c r code,
  handle lv c r = Resp code true ->
  cf_compress c = true /\ rq_method r = 0 /\
  exists v, header_get ae_name (rq_headers r) = Some v /\ hv_to_str_ok v = true /\ contains k_gzip v = true.
Proof.
  intros lv c r code H. unfold handle, handle_v in H.
  destruct (negb (request_ok r)); [discriminate|].
  destruct (rq_method r =? 0) eqn:M; [|discriminate]. cbn [negb] in H.
  match type of H with (match ?res with _ => _ end) = _ => destruct res as [|code'|]; try discriminate end.
  cbn [v_ae_strict repaired] in H. unfold gzip_decision in H.
  destruct (cf_compress c); [|discriminate].
  destruct (header_get ae_name (rq_headers r)) as [v|]; [|discriminate].
  destruct (hv_to_str_ok v) eqn:E; [|discriminate].
  injection H as _ H2. split; [reflexivity|]. split; [apply N.eqb_eq; exact M|].
  exists v. repeat split; assumption.
Qed.

(* ---------------------------------------------------------------- plain paths decode to themselves *)
Lemma utf8_lossy_ascii : forall s, is_ascii s = true -> utf8_lossy s = s.
Proof.
  induction s as [|b t IH]; intro H; [reflexivity|]. cbn in H. apply andb_true_iff in H as [Hb Ht].
  cbn [utf8_lossy]. rewrite Hb. f_equal. apply IH. exact Ht.
Qed.

Lemma pct_decode_plain : forall s, forallb (fun b => negb (b =? 37)) s = true -> pct_decode s = s.
Proof.
  induction s as [|b t IH]; intro H; [reflexivity|]. cbn in H. apply andb_true_iff in H as [Hb Ht].
  cbn [pct_decode]. apply negb_true_iff in Hb. rewrite Hb. f_equal. apply IH. exact Ht.
Qed.

Theorem decode_path_plain : forall s,
  is_ascii s = true -> forallb (fun b => negb (b =? 37)) s = true -> decode_path s = s.
Proof. intros s Ha Hp. unfold decode_path. rewrite pct_decode_plain by exact Hp. apply utf8_lossy_ascii. exact Ha. Qed.

(* ---------------------------------------------------------------- Resources: sub-resources first *)
Fixpoint subs_first (l : list source) : bool :=
  match l with
  | [] => true
  | s :: t => (src_sub s || forallb (fun x => negb (src_sub x)) t) && subs_first t
  end.

Lemma forallb_filter : forall {A} (f g : A -> bool) l, forallb f l = true -> forallb f (filter g l) = true.
Proof.
  intros A f g. induction l as [|a t IH]; intro H; [reflexivity|]. cbn in *.
  apply andb_true_iff in H as [Ha Ht]. destruct (g a); cbn; [rewrite Ha|]; auto.
Qed.

Lemma subs_first_filter : forall g l, subs_first l = true -> subs_first (filter g l) = true.
Proof.
  intros g. induction l as [|a t IH]; intro H; [reflexivity|]. cbn in *.
  apply andb_true_iff in H as [Ha Ht]. destruct (g a); cbn; [|auto].
  rewrite IH by exact Ht. rewrite andb_true_r.
  apply orb_true_iff in Ha as [Ha|Ha]; [rewrite Ha; reflexivity|].
  rewrite (forallb_filter _ g t Ha). apply orb_true_r.
Qed.

Lemma subs_first_snoc : forall l n, src_sub n = false -> subs_first l = true -> subs_first (l ++ [n]) = true.
Proof.
  induction l as [|a t IH]; intros n Hn H; cbn.
  - rewrite Hn. reflexivity.
  - cbn in H. apply andb_true_iff in H as [Ha Ht]. rewrite IH by assumption. rewrite andb_true_r.
    apply orb_true_iff in Ha as [Ha|Ha]; [rewrite Ha; reflexivity|].
    rewrite forallb_app, Ha. cbn. rewrite Hn. cbn. apply orb_true_r.
Qed.

Lemma subs_first_register : forall l id p sub, subs_first l = true -> subs_first (register l id p sub) = true.
Proof.
  intros l id p sub H. unfold register. destruct sub.
  - cbn. apply subs_first_filter. exact H.
  - apply subs_first_snoc; [reflexivity|apply subs_first_filter; exact H].
Qed.

Lemma subs_first_drop : forall l id, subs_first (drop_src l id) = subs_first l.
Proof.
  intros l id. induction l as [|a t IH]; [reflexivity|]. cbn [drop_src map subs_first].
  fold (drop_src t id). rewrite IH. f_equal.
  assert (E : src_sub (if src_id a =? id then MkSrc (src_id a) (src_proc a) (src_sub a) false else a) = src_sub a)
    by (destruct (src_id a =? id); reflexivity).
  rewrite E. f_equal. clear. induction t as [|b t IH]; [reflexivity|]. cbn [drop_src map forallb].
  fold (drop_src t id). rewrite IH. destruct (src_id b =? id); reflexivity.
Qed.

Lemma step_subs_first : forall lv c o,
  subs_first (cf_sources c) = true -> subs_first (cf_sources (fst (step lv c o))) = true.
Proof.
  intros lv c [b|n|id p sub|id|r] H; cbn; try exact H.
  - apply subs_first_register. exact H.
  - rewrite subs_first_drop. exact H.
Qed.

Lemma run_fst_cons : forall lv c o t, fst (run lv c (o :: t)) = fst (run lv (fst (step lv c o)) t).
Proof.
  intros lv c o t. cbn [run]. destruct (step lv c o) as [c1 x]. cbn [fst]. destruct (run lv c1 t) as [c2 xs]. reflexivity.
Qed.

(* C12_sub_resources_first: whatever is registered and dropped, in whatever order *)
Theorem run_subs_first : forall lv ops c,
  subs_first (cf_sources c) = true -> subs_first (cf_sources (fst (run lv c ops))) = true.
Proof.
  intros lv. induction ops as [|o t IH]; intros c H; [exact H|].
  rewrite run_fst_cons. apply IH. apply step_subs_first. exact H.
Qed.

Theorem run_subs_first_init : forall lv ops, subs_first (cf_sources (fst (run lv cfg_init ops))) = true.
Proof. intros lv ops. apply run_subs_first. reflexivity. Qed.

(* what [subs_first] means *)
Lemma subs_first_spec : forall l a b pre mid post,
  subs_first l = true -> l = pre ++ a :: mid ++ b :: post -> src_sub b = true -> src_sub a = true.
Proof.
  induction l as [|x t IH]; intros a b pre mid post H E Hb.
  - destruct pre; discriminate.
  - cbn in H. apply andb_true_iff in H as [Hx Ht]. destruct pre as [|y pre]; cbn in E; inversion E; subst.
    + apply orb_true_iff in Hx as [Hx|Hx]; [exact Hx|].
      rewrite forallb_app in Hx. apply andb_true_iff in Hx as [_ Hx]. cbn in Hx. rewrite Hb in Hx. discriminate.
    + eapply IH; eauto.
Qed.

(* ---------------------------------------------------------------- the server keeps answering *)
Lemma status_request_ok : forall hs,
  forallb (fun h => forallb hv_byte_ok (snd h)) hs = true -> request_ok (MkReq 0 k_status None hs) = true.
Proof. intros hs H. unfold request_ok. cbn [rq_path rq_query rq_headers]. rewrite H. reflexivity. Qed.

Theorem status_answers_in_any_config : forall lv c hs,
  forallb (fun h => forallb hv_byte_ok (snd h)) hs = true ->
  exists gz, handle lv c (MkReq 0 k_status None hs) = Resp 200 gz.
Proof.
  intros lv c hs H. unfold handle, handle_v. rewrite status_request_ok by exact H.
  cbn [negb rq_method rq_path rq_headers N.eqb].
  destruct (gzip_decision_lenient (cf_compress c) hs) as [g Hg]. cbn [v_ae_strict repaired]. rewrite Hg.
  exists g. reflexivity.
Qed.

(* C12_keeps_answering: after ANY history of registrations, drops and requests *)
Theorem status_answers_after_any_history : forall lv c ops hs,
  forallb (fun h => forallb hv_byte_ok (snd h)) hs = true ->
  exists gz, handle lv (fst (run lv c ops)) (MkReq 0 k_status None hs) = Resp 200 gz.
Proof. intros. apply status_answers_in_any_config. assumption. Qed.

(* and no request of a history is answered by a panic *)
Theorem run_never_panics : forall lv ops c, ~ In Panic (snd (run lv c ops)).
Proof.
  intros lv. induction ops as [|o t IH]; intros c; cbn [run]; [intros []|].
  destruct (step lv c o) as [c1 x] eqn:S. specialize (IH c1). destruct (run lv c1 t) as [c2 xs]. cbn [snd] in *.
  destruct x as [y|]; [|exact IH]. intros [Hy|Hin]; [|exact (IH Hin)].
  destruct o; cbn in S; inversion S; subst. eapply handle_never_panics; eauto.
Qed.

(* ---------------------------------------------------------------- the code as found: witnesses *)
Definition lv0 : leaves := MkLeaves (fun _ => false).
Definition e_acute : bytes := [37; 67; 51; 37; 65; 57].        (* "%C3%A9" *)
Definition p_1_2_3_0_24 : bytes := [49; 46; 50; 46; 51; 46; 48; 47; 50; 52].   (* "1.2.3.0/24" *)
Definition cfg_rib : config := MkCfg true 2 (register (cf_sources cfg_init) 2 (PRib k_prefixes) false).

Definition w_ae : request := MkReq 0 k_status None [(k_accept_encoding, [103; 195; 169])].
Definition w_slice : request :=
  MkReq 0 (k_status_graph ++ [97; 97; 97; 97; 97; 97; 97] ++ e_acute ++ k_traces_seg_ ++ [49]) None [].
Definition w_empty : request := MkReq 0 k_status_graph None [].
Definition w_asn : request :=
  MkReq 0 (k_prefixes ++ p_1_2_3_0_24) (Some (k_select ++ [91] ++ k_peer_as ++ [93; 61; 97] ++ e_acute)) [].
Definition w_comm : request :=
  MkReq 0 (k_prefixes ++ p_1_2_3_0_24)
        (Some (k_select ++ [91] ++ k_community ++ [93; 61] ++ k_0x ++ repeat 48 15 ++ e_acute ++ repeat 48 23)) [].
Definition w_q0 : request := MkReq 0 k_status None [(k_accept_encoding, k_gzip ++ [59; 113; 61; 48])].   (* gzip;q=0 *)

Theorem original_accept_encoding_panics :
  request_ok w_ae = true /\ handle_v original lv0 cfg_rib w_ae = Panic /\ handle lv0 cfg_rib w_ae = Resp 200 false.
Proof. vm_compute. repeat split; reflexivity. Qed.

Theorem original_graph_slice_panics :
  request_ok w_slice = true /\ handle_v original lv0 cfg_rib w_slice = Panic /\ handle lv0 cfg_rib w_slice = Resp 200 false.
Proof. vm_compute. repeat split; reflexivity. Qed.

Theorem original_graph_empty_panics :
  request_ok w_empty = true /\ handle_v original lv0 cfg_init w_empty = Panic /\ handle lv0 cfg_init w_empty = Resp 200 false.
Proof. vm_compute. repeat split; reflexivity. Qed.

Theorem original_filter_panics :
  request_ok w_asn = true /\ handle_v original lv0 cfg_rib w_asn = Panic /\ handle lv0 cfg_rib w_asn = Resp 400 false /\
  request_ok w_comm = true /\ handle_v original lv0 cfg_rib w_comm = Panic /\ handle lv0 cfg_rib w_comm = Resp 400 false.
Proof. vm_compute. repeat split; reflexivity. Qed.

(* "gzip only when the client accepts it" fails for the substring test, also after the repairs *)
Theorem gzip_q0_refuted :
  request_ok w_q0 = true /\ handle lv0 cfg_rib w_q0 = Resp 200 true /\ ae_accepts_gzip (rq_headers w_q0) = false.
Proof. vm_compute. repeat split; reflexivity. Qed.

(* non-vacuity: one history through every kind of answer *)
Definition ex_ops : list op :=
  [OCompress true; OGraph 2; OReg 2 (PRib k_prefixes) false; OReg 3 (PStub [47; 120] 418) false; OReg 4 (PStub [47; 120] 200) true;
   OReq (MkReq 1 k_status None []);
   OReq (MkReq 0 [47; 110; 111; 112; 101] None []);
   OReq (MkReq 0 (k_prefixes ++ p_1_2_3_0_24) None [(k_accept_encoding, k_gzip)]);
   OReq (MkReq 0 (k_prefixes ++ [120]) None []);
   OReq (MkReq 0 [47; 120; 47; 121] None []);
   ODrop 4;
   OReq (MkReq 0 [47; 120; 47; 121] None []);
   OReq w_asn;
   OReq (MkReq 0 k_status None [])].

Theorem sub_resources_first_init : forall lv ops a b pre mid post,
  cf_sources (fst (run lv cfg_init ops)) = pre ++ a :: mid ++ b :: post ->
  src_sub b = true -> src_sub a = true.
Proof.
  intros lv ops a b pre mid post E Hb.
  exact (subs_first_spec _ a b pre mid post (run_subs_first_init lv ops) E Hb).
Qed.
