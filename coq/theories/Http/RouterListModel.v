(* C12 - the request space of the BMP unit's router list (definitions only).

   Mirrors src/units/bmp_tcp_in/http/router_list/request.rs:
     RouterListApi::process_request   path test, sort_by / sort_order extraction  -> [routers_process_st]
     RouterListApi::sort_routers      the three families of sort keys, the order  -> [sort_routers], [sort_value]
   and src/units/bmp_tcp_in/util.rs calc_u8_pc (the two percentage keys), over an
   explicit population of monitored routers ([rstate]): DispatchModel.routers_process
   answers for a unit "with some routers"; here the routers are a parameter and the
   theorems (RouterListProofs.v) say the answer does not depend on them.

   A router is what the list can see of its BmpState machine and of the per-router
   metrics the status reporter keeps (state_machine/status_reporter.rs: peer_up,
   peer_down, pending_eors_update, bgp_update_parse_{soft,hard}_fail). [rl_apply]
   is the effect of one BMP message on those numbers; it is what the engine c12rl
   feeds to the REAL state machine. A message about a peer that is not up (and a
   second Peer Up of one that is) is counted as unprocessable ("hard" failure) and
   changes nothing else - observed on the real state machine; the generator does
   not produce such messages, the case shrinker does. *)
From Coq Require Import NArith List Bool.
From RV Require Import Http.DispatchText Http.DispatchModel.
Import ListNotations.
Local Open Scope N_scope.
Local Notation length := List.length.

(* one peer of a monitored router that is up *)
Record rpeer := MkPeer {
  pr_id : N;           (* which per-peer header *)
  pr_eor : bool;       (* advertised graceful restart in its OPEN: "EoR capable" *)
  pr_pending : bool }. (* has announced routes and not sent its End-of-RIB yet: "dumping" *)

Inductive rstate :=
| RInitiating                                    (* connected, no Initiation message yet: no sysName *)
| RUp (peers : list rpeer) (soft hard : N).      (* Dumping / Updating: sysName known, per-router metrics exist *)

(* BMP messages as far as the list's numbers go *)
Inductive revent :=
| EvInit                        (* Initiation *)
| EvPeerUp (i : N) (eor : bool) (* Peer Up Notification *)
| EvAnnounce (i : N)            (* Route Monitoring with at least one valid announcement *)
| EvEor (i : N)                 (* Route Monitoring: End-of-RIB for the announced address family *)
| EvPeerDown (i : N)            (* Peer Down Notification *)
| EvSoft | EvHard.              (* a BGP UPDATE that had to be re-parsed / could not be parsed *)

Definition has_peer (i : N) (ps : list rpeer) : bool := existsb (fun p => pr_id p =? i) ps.

Definition rl_apply (st : rstate) (e : revent) : rstate :=
  match st, e with
  | RInitiating, EvInit => RUp [] 0 0
  | RInitiating, _ => RInitiating
  | RUp ps s h, EvInit => RUp ps s h
  | RUp ps s h, EvPeerUp i eor => if has_peer i ps then RUp ps s (h + 1) else RUp (ps ++ [MkPeer i eor false]) s h
  | RUp ps s h, EvAnnounce i =>
      if has_peer i ps then
        RUp (map (fun p => if (pr_id p =? i) && pr_eor p then MkPeer (pr_id p) true true else p) ps) s h
      else RUp ps s (h + 1)
  | RUp ps s h, EvEor i =>
      if has_peer i ps then
        RUp (map (fun p => if pr_id p =? i then MkPeer (pr_id p) (pr_eor p) false else p) ps) s h
      else RUp ps s (h + 1)
  | RUp ps s h, EvPeerDown i =>
      if has_peer i ps then RUp (filter (fun p => negb (pr_id p =? i)) ps) s h else RUp ps s (h + 1)
  | RUp ps s h, EvSoft => RUp ps (s + 1) h
  | RUp ps s h, EvHard => RUp ps s (h + 1)
  end.

Definition rl_run (evs : list revent) : rstate := fold_left rl_apply evs RInitiating.

Definition n_up (ps : list rpeer) : N := N.of_nat (length ps).
Definition n_eor (ps : list rpeer) : N := N.of_nat (length (filter pr_eor ps)).
Definition n_dumping (ps : list rpeer) : N := N.of_nat (length (filter pr_pending ps)).

(* util.rs calc_u8_pc: `if total > 0 { (100.0 * (v as f64 / total as f64)) as u8 } else { 0 }`.
   The float expression equals floor(100 v / total) for every total <= 40 (checked
   numerically; the engine's populations have at most 10 peers); `as u8` saturates. *)
Definition calc_u8_pc (total v : N) : N :=
  if total =? 0 then 0 else N.min 255 (100 * v / total).

(* the percentage sort keys. [guarded] = the code as it is (calc_u8_pc);
   [negb guarded] = `v * 10_000 / total`: integer division, panics on total = 0
   (seeded change C12-c2). None = panic. *)
Definition pc_key (guarded : bool) (total v : N) : option N :=
  if guarded then Some (calc_u8_pc total v)
  else if total =? 0 then None else Some (v * 10000 / total).

Definition numeric_keys : list bytes :=
  [k_state; k_peers_up; k_peers_up_eor_capable; k_peers_up_dumping; k_peers_up_eor_capable_pc;
   k_peers_up_dumping_pc; k_invalid_messages; k_soft_parse_errors; k_hard_parse_errors].

(* the value a router is sorted on under a numeric key ([phase]: the state
   machine's state index, any number). A router without sysName sorts as 0. *)
Definition sort_value (guarded : bool) (key : bytes) (st : rstate) : option N :=
  match st with
  | RInitiating => Some 0
  | RUp ps soft hard =>
      if beqb key k_state then Some 1
      else if beqb key k_peers_up then Some (n_up ps)
      else if beqb key k_peers_up_eor_capable then Some (n_eor ps)
      else if beqb key k_peers_up_dumping then Some (n_dumping ps)
      else if beqb key k_peers_up_eor_capable_pc then pc_key guarded (n_up ps) (n_eor ps)
      else if beqb key k_peers_up_dumping_pc then pc_key guarded (n_eor ps) (n_dumping ps)
      else if beqb key k_invalid_messages then Some 0
      else if beqb key k_soft_parse_errors then Some soft
      else if beqb key k_hard_parse_errors then Some hard
      else Some 0
  end.

(* the loop over router_states: Some values, or None as soon as one panics *)
Fixpoint sort_values (guarded : bool) (key : bytes) (rs : list rstate) : option (list N) :=
  match rs with
  | [] => Some []
  | st :: t => match sort_value guarded key st with
               | None => None
               | Some v => match sort_values guarded key t with
                           | None => None
                           | Some vs => Some (v :: vs)
                           end
               end
  end.

Inductive rl_result :=
| RLRows (n : N)        (* Ok(keys): the page lists n routers *)
| RLErr (which : N)     (* Err: 0 = unknown sort_by, 1 = unknown sort_order *)
| RLPanic.

(* sort_routers: first the keys (this is where a sort value is computed), then
   the order. Which permutation of the routers comes out is not modelled - the
   page lists every one of them. *)
Definition sort_routers (guarded : bool) (sort_by sort_order : option bytes) (rs : list rstate) : rl_result :=
  let n := N.of_nat (length rs) in
  let keys :=
    match sort_by with
    | None => RLRows n
    | Some k =>
        if beqb k k_addr then RLRows n
        else if beqb k k_sys_name || beqb k k_sys_desc then RLRows n
        else if existsb (beqb k) numeric_keys then
          match sort_values guarded k rs with Some vs => RLRows (N.of_nat (length vs)) | None => RLPanic end
        else RLErr 0
    end in
  match keys with
  | RLRows m =>
      match sort_order with
      | None => RLRows m
      | Some o => if beqb o k_asc || beqb o k_desc then RLRows m else RLErr 1
      end
  | x => x
  end.

Definition rl_status (x : rl_result) : presult :=
  match x with RLRows _ => PResp 200 | RLErr _ => PResp 400 | RLPanic => PPanic end.

(* RouterListApi::process_request over a population *)
Definition routers_request_st (guarded : bool) (base : bytes) (rs : list rstate) (r : request) : option rl_result :=
  if beqb (decode_path (rq_path r)) base then
    let ps := params_of (rq_query r) in
    let '(sb, ps1) := get_param k_sort_by ps in
    let '(so, _) := get_param k_sort_order ps1 in
    Some (sort_routers guarded (option_map m_value sb) (option_map m_value so) rs)
  else None.

Definition routers_process_st (guarded : bool) (base : bytes) (rs : list rstate) (r : request) : presult :=
  match routers_request_st guarded base rs r with Some x => rl_status x | None => PNone end.

(* the cell "# Peers Up/EoR Capable/Dumping" of a router's row, as numbers *)
Definition rl_cell (st : rstate) : option (N * N * N * N * N) :=
  match st with
  | RInitiating => None
  | RUp ps _ _ => Some (n_up ps, n_eor ps, calc_u8_pc (n_up ps) (n_eor ps), n_dumping ps, calc_u8_pc (n_eor ps) (n_dumping ps))
  end.

(* ---------------------------------------------------------------- the request space, explicitly *)
Definition k_bogus : bytes := [98; 111; 103; 117; 115].   (* "bogus" *)

Definition rl_sort_bys : list (option bytes) := None :: map Some sort_by_values ++ [Some k_bogus; Some []].
Definition rl_sort_orders : list (option bytes) := [None; Some k_asc; Some k_desc; Some k_bogus; Some []].

(* the router states the task names: still initiating / no peer up / peers up,
   none EoR capable / all dumping / mixed *)
Definition st_initiating : rstate := RInitiating.
Definition st_no_peers : rstate := rl_run [EvInit].
Definition st_none_eor : rstate := rl_run [EvInit; EvPeerUp 0 false; EvPeerUp 5 false].
Definition st_all_dumping : rstate := rl_run [EvInit; EvPeerUp 0 true; EvPeerUp 5 true; EvAnnounce 0; EvAnnounce 5].
Definition st_mixed : rstate :=
  rl_run [EvInit; EvPeerUp 0 true; EvPeerUp 5 false; EvPeerUp 6 true; EvAnnounce 0; EvAnnounce 6; EvEor 6; EvSoft; EvHard].
Definition st_all_down : rstate := rl_run [EvInit; EvPeerUp 0 true; EvAnnounce 0; EvPeerDown 0].

Definition rl_named_states : list rstate :=
  [st_initiating; st_no_peers; st_none_eor; st_all_dumping; st_mixed; st_all_down].

Fixpoint sublists {A} (l : list A) : list (list A) :=
  match l with
  | [] => [[]]
  | x :: t => let s := sublists t in s ++ map (cons x) s
  end.

(* every combination of named states as a population (64 of them) *)
Definition rl_populations : list (list rstate) := sublists rl_named_states.

Definition expected_result (sb so : option bytes) (n : N) : rl_result :=
  let sb_ok := match sb with None => true | Some k => existsb (beqb k) sort_by_values end in
  let so_ok := match so with None => true | Some o => beqb o k_asc || beqb o k_desc end in
  if negb sb_ok then RLErr 0 else if negb so_ok then RLErr 1 else RLRows n.

Definition rl_result_eqb (a b : rl_result) : bool :=
  match a, b with
  | RLRows x, RLRows y => x =? y
  | RLErr x, RLErr y => x =? y
  | RLPanic, RLPanic => true
  | _, _ => false
  end.

(* the whole space, swept *)
Definition rl_space_ok (guarded : bool) : bool :=
  forallb (fun rs => forallb (fun sb => forallb (fun so =>
    rl_result_eqb (sort_routers guarded sb so rs) (expected_result sb so (N.of_nat (length rs))))
    rl_sort_orders) rl_sort_bys) rl_populations.

(* ---------------------------------------------------------------- the ORDER of the rows *)
(* a router with the two strings the list can sort on (sysName, sysDesc of its Initiation) *)
Record rrouter := MkRR { rr_state : rstate; rr_name : bytes; rr_desc : bytes }.

(* what a row is sorted on: a number (the nine numeric keys) or a string
   (sys_name / sys_desc: Rust's String ordering = bytes, lexicographic) *)
Inductive skey := SNum (n : N) | SStr (s : bytes).

Fixpoint bytes_le (a b : bytes) : bool :=
  match a, b with
  | [], _ => true
  | _ :: _, [] => false
  | x :: a', y :: b' => if x <? y then true else if y <? x then false else bytes_le a' b'
  end.

Definition skey_le (a b : skey) : bool :=
  match a, b with
  | SNum x, SNum y => x <=? y
  | SStr x, SStr y => bytes_le x y
  | _, _ => true
  end.

Definition k_dash : bytes := [45].   (* "-": `map_or_else(|| "-", ..)` for a router without TLVs *)

(* the key of one row. No sort_by / "addr": the iteration order of router_info
   (a hash map) - every order is acceptable, all rows carry the same key. *)
Definition row_key (guarded : bool) (sort_by : option bytes) (r : rrouter) : option skey :=
  match sort_by with
  | None => Some (SNum 0)
  | Some k =>
      if beqb k k_addr then Some (SNum 0)
      else if beqb k k_sys_name then
        Some (SStr (match rr_state r with RInitiating => k_dash | RUp _ _ _ => rr_name r end))
      else if beqb k k_sys_desc then
        Some (SStr (match rr_state r with RInitiating => k_dash | RUp _ _ _ => rr_desc r end))
      else match sort_value guarded k (rr_state r) with Some v => Some (SNum v) | None => None end
  end.

(* (key, index of the router in the population), for every router; None = a key panicked *)
Fixpoint keyed_from (guarded : bool) (sort_by : option bytes) (i : N) (rs : list rrouter) : option (list (skey * N)) :=
  match rs with
  | [] => Some []
  | r :: t => match row_key guarded sort_by r, keyed_from guarded sort_by (i + 1) t with
              | Some k, Some l => Some ((k, i) :: l)
              | _, _ => None
              end
  end.

(* sort_unstable_by on the key: modelled by insertion sort - one of the orders
   sort_unstable may produce; rows with equal keys may come in any order *)
Fixpoint ins_row (x : skey * N) (l : list (skey * N)) : list (skey * N) :=
  match l with
  | [] => [x]
  | y :: t => if skey_le (fst x) (fst y) then x :: l else y :: ins_row x t
  end.
Fixpoint sort_rows (l : list (skey * N)) : list (skey * N) :=
  match l with [] => [] | x :: t => ins_row x (sort_rows t) end.

Definition is_desc (sort_order : option bytes) : bool :=
  match sort_order with Some o => beqb o k_desc | None => false end.

(* the rows of the page, top to bottom (for requests that are answered 200) *)
Definition page_rows (guarded : bool) (sort_by sort_order : option bytes) (rs : list rrouter) : option (list (skey * N)) :=
  match keyed_from guarded sort_by 0 rs with
  | Some l => let s := sort_rows l in Some (if is_desc sort_order then rev s else s)
  | None => None
  end.

Fixpoint sortedb (l : list skey) : bool :=
  match l with
  | x :: (y :: _) as t => skey_le x y && sortedb t
  | _ => true
  end.

(* reading direction in which the keys must be non-decreasing *)
Definition in_reading_order (sort_order : option bytes) (l : list skey) : list skey :=
  if is_desc sort_order then rev l else l.

(* the two sort parameters of a request, as process_request extracts them *)
Definition request_sort_params (r : request) : option bytes * option bytes :=
  let ps := params_of (rq_query r) in
  let '(sb, ps1) := get_param k_sort_by ps in
  let '(so, _) := get_param k_sort_order ps1 in
  (option_map m_value sb, option_map m_value so).

(* a population in which every pair of judged sort keys orders some pair of routers differently *)
Definition mk_peers (up eor dump : nat) : list rpeer :=
  map (fun i => MkPeer (N.of_nat i) (Nat.ltb i eor) (Nat.ltb i dump)) (seq 0 up).
Definition rl_discriminating : list rrouter :=
  [MkRR (RUp (mk_peers 3 1 1) 0 2) [98] [121]; MkRR (RUp (mk_peers 2 2 2) 1 0) [97] [122];
   MkRR (RUp (mk_peers 1 0 0) 2 1) [99] [120]; MkRR (RUp (mk_peers 4 3 1) 0 0) [100] [119];
   MkRR (RUp (mk_peers 5 4 2) 3 3) [101] [118]; MkRR RInitiating [] []; MkRR (RUp (mk_peers 1 1 0) 1 1) [102] [117]].

Definition judged_keys : list bytes :=
  [k_sys_name; k_sys_desc; k_peers_up; k_peers_up_eor_capable; k_peers_up_dumping; k_peers_up_eor_capable_pc;
   k_peers_up_dumping_pc; k_soft_parse_errors; k_hard_parse_errors].

(* sorting by [k2] leaves the [k1] column out of order *)
Definition keys_disagree (rs : list rrouter) (k1 k2 : bytes) : bool :=
  match page_rows true (Some k2) None rs with
  | Some rows =>
      let col := map (fun row => match nth_error rs (N.to_nat (snd row)) with
                                 | Some r => match row_key true (Some k1) r with Some k => k | None => SNum 0 end
                                 | None => SNum 0 end) rows in
      negb (sortedb col)
  | None => false
  end.
Definition all_keys_disagree (rs : list rrouter) : bool :=
  forallb (fun k1 => forallb (fun k2 => beqb k1 k2 || keys_disagree rs k1 k2) judged_keys) judged_keys.
