(* C12, concurrency part (definitions only; proofs are in ConcProofs.v).

   Part 1 - src/http.rs  Resources::register  as threads run it.
     pub fn register(&self, process: Weak<..>, .., is_sub_resource) {
         let lock = self.register.lock().unwrap();        -- acquire   (Mutex<()>, guards no data)
         let old_sources = self.sources.load();           -- load      (ArcSwap)
         let mut new_sources = Vec::new();
         for item in old_sources.iter() {                 -- build     (reads the strong counts
             if item.processor.strong_count() > 0 { new_sources.push(item.clone()) } }    of the processors)
         .. insert(0, new) / push(new) ..
         self.sources.store(new_sources.into());          -- store
         drop(lock);                                      -- release
     }
   One scheduler step of a thread = one of these accesses to shared state
   (mutex, ArcSwap, strong counts) together with the thread-local code up to
   the next one. The sequential effect of a whole call is DispatchModel.register
   ("the atomic read-modify-write it must be"); whether a processor is alive is
   global state (the strong count of its Arc), not part of a loaded snapshot, so
   the cell holds entries and [rs_dead] holds the identities whose owner dropped
   the Arc; [mark] is the view of a list under the current strong counts.
   The identity of a registration is the allocation of its processor: a fresh
   number taken from [rs_next] when the call starts.
   [lockvar]: LockAll = the code as it is (mutex around load..store);
              LockStore = mutex taken only around the store;
              LockNone  = no mutex.

   Part 2 - the connection's  tokio::sync::Mutex<Option<BmpState>>
     src/units/bmp_tcp_in/router_handler.rs  process_msg:
         let mut lock = self.state_machine.lock().await;     -- acquire
         let bmp_state = lock.take().unwrap();               -- take
         .. roto filter, state machine, gate.update_data(..).await ..   -- work (await points)
         *lock = Some(next_state);                           -- put
         Ok(())                                              -- release (guard dropped)
       (the arm MessageType::Aborted returns Err without putting the state back;
        no state of the machine produces it: BmpState::_Aborted is never constructed)
     read_from_router (io error arm, post-loop cleanup): lock; as_ref().unwrap(); unlock
     src/units/bmp_tcp_in/http/router_info/request.rs:
         let lock = state_machine.lock().await; let sm = lock.as_ref().unwrap();
     src/units/bmp_tcp_in/http/router_list/{request,response}.rs:
         if let Some(sm) = state_machine.lock().await.as_ref() { .. } else { skipped / no sysName }
   [holdvar]: HoldLock = the code as it is (take and put in ONE critical section);
              ReleaseLock = the guard is a temporary: take, release, process, acquire, put. *)
From Coq Require Import NArith List Bool.
From RV Require Import Http.DispatchText Http.DispatchModel.
Import ListNotations.
Local Open Scope N_scope.
Local Notation length := List.length.

(* ---------------------------------------------------------------- generic *)
Fixpoint upd {A} (l : list A) (t : nat) (x : A) : list A :=
  match l, t with
  | [], _ => []
  | _ :: r, O => x :: r
  | a :: r, S t' => a :: upd r t' x
  end.

Definition memN (x : N) (l : list N) : bool := existsb (N.eqb x) l.

(* ================================================================ Part 1: Resources::register *)
Inductive lockvar := LockAll | LockStore | LockNone.

Record regreq := MkRq { rr_proc : proc; rr_sub : bool }.

(* a list of entries as the strong counts make it look right now *)
Definition mark (dead : list N) (srcs : list source) : list source :=
  map (fun s => MkSrc (src_id s) (src_proc s) (src_sub s) (negb (memN (src_id s) dead))) srcs.

(* the live entries, in order: all that Resources::process_request ever consults *)
Definition live (dead : list N) (srcs : list source) : list source := filter src_alive (mark dead srcs).

(* the loop + insert/push of register over a loaded snapshot *)
Definition build (dead : list N) (snap : list source) (n : source) : list source :=
  register (mark dead snap) (src_id n) (src_proc n) (src_sub n).

Inductive rpc :=
| RIdle
| RHeld (n : source)                          (* LockAll: has the mutex, nothing loaded yet *)
| RLoaded (n : source) (snap : list source)   (* old_sources loaded *)
| RBuilt (n : source) (new : list source)     (* new_sources complete *)
| RReady (n : source) (new : list source)     (* LockStore: has the mutex, about to store *)
| RStored (n : source).                       (* stored, still holding the mutex *)

(* rt_ret: the calls of this thread that have returned (identity, request) *)
Record rthread := MkRT { rt_prog : list regreq; rt_pc : rpc; rt_ret : list (N * regreq) }.

Record rstate := MkRS {
  rs_cur : list source;      (* the vec inside the ArcSwap *)
  rs_owner : option nat;     (* who holds the register mutex *)
  rs_next : N;               (* next allocation identity *)
  rs_dead : list N;          (* processors whose owner has dropped the Arc *)
  rs_done : list N;          (* registrations that have stored *)
  rs_thr : list rthread;
  rs_log : list op }.        (* OReg at the store, ODrop at the drop: the sequential history *)

(* a scheduler event: thread t takes its next step, or the owner of a registered processor drops it *)
Inductive sev := SRun (t : nat) | SDrop (id : N).

Definition next0 (init : list source) : N := fold_right (fun s m => N.max (N.succ (src_id s)) m) 0 init.

Definition rinit (init : list source) (progs : list (list regreq)) : rstate :=
  MkRS init None (next0 init) [] (map src_id init) (map (fun p => MkRT p RIdle []) progs) [].

Definition set_thr (s : rstate) (t : nat) (th : rthread) : rstate :=
  MkRS (rs_cur s) (rs_owner s) (rs_next s) (rs_dead s) (rs_done s) (upd (rs_thr s) t th) (rs_log s).
Definition set_owner (s : rstate) (o : option nat) : rstate :=
  MkRS (rs_cur s) o (rs_next s) (rs_dead s) (rs_done s) (rs_thr s) (rs_log s).
Definition bump_next (s : rstate) : rstate :=
  MkRS (rs_cur s) (rs_owner s) (N.succ (rs_next s)) (rs_dead s) (rs_done s) (rs_thr s) (rs_log s).
(* self.sources.store(new) by a call with entry n *)
Definition do_store (s : rstate) (n : source) (new : list source) : rstate :=
  MkRS new (rs_owner s) (rs_next s) (rs_dead s) (src_id n :: rs_done s) (rs_thr s)
       (rs_log s ++ [OReg (src_id n) (src_proc n) (src_sub n)]).

Definition reqof (n : source) : regreq := MkRq (src_proc n) (src_sub n).

Definition rstep (v : lockvar) (s : rstate) (e : sev) : rstate :=
  match e with
  | SDrop id =>
      if memN id (rs_done s)
      then MkRS (rs_cur s) (rs_owner s) (rs_next s) (id :: rs_dead s) (rs_done s) (rs_thr s) (rs_log s ++ [ODrop id])
      else s
  | SRun t =>
      match nth_error (rs_thr s) t with
      | None => s
      | Some th =>
          match rt_pc th with
          | RIdle =>
              match rt_prog th with
              | [] => s
              | r :: rest =>
                  let n := MkSrc (rs_next s) (rr_proc r) (rr_sub r) true in
                  match v with
                  | LockAll =>
                      match rs_owner s with
                      | None => set_thr (set_owner (bump_next s) (Some t)) t (MkRT rest (RHeld n) (rt_ret th))
                      | Some _ => s                                  (* blocked on the mutex *)
                      end
                  | _ => set_thr (bump_next s) t (MkRT rest (RLoaded n (rs_cur s)) (rt_ret th))
                  end
              end
          | RHeld n => set_thr s t (MkRT (rt_prog th) (RLoaded n (rs_cur s)) (rt_ret th))
          | RLoaded n snap => set_thr s t (MkRT (rt_prog th) (RBuilt n (build (rs_dead s) snap n)) (rt_ret th))
          | RBuilt n new =>
              match v with
              | LockAll => set_thr (do_store s n new) t (MkRT (rt_prog th) (RStored n) (rt_ret th))
              | LockStore =>
                  match rs_owner s with
                  | None => set_thr (set_owner s (Some t)) t (MkRT (rt_prog th) (RReady n new) (rt_ret th))
                  | Some _ => s
                  end
              | LockNone => set_thr (do_store s n new) t (MkRT (rt_prog th) RIdle (rt_ret th ++ [(src_id n, reqof n)]))
              end
          | RReady n new => set_thr (do_store s n new) t (MkRT (rt_prog th) (RStored n) (rt_ret th))
          | RStored n => set_thr (set_owner s None) t (MkRT (rt_prog th) RIdle (rt_ret th ++ [(src_id n, reqof n)]))
          end
      end
  end.

Definition rrun (v : lockvar) (s : rstate) (sched : list sev) : rstate := fold_left (rstep v) sched s.

(* the sequential history the log stands for: DispatchModel's register / drop_src *)
Definition apply_op (srcs : list source) (o : op) : list source :=
  match o with
  | OReg id p sub => register srcs id p sub
  | ODrop id => drop_src srcs id
  | _ => srcs
  end.
Definition seq_run (srcs : list source) (ops : list op) : list source := fold_left apply_op ops srcs.

(* the calls of a thread: returned, in flight, still to come *)
Definition inflight (pc : rpc) : list regreq :=
  match pc with
  | RIdle => []
  | RHeld n | RLoaded n _ | RBuilt n _ | RReady n _ | RStored n => [reqof n]
  end.
Definition calls (th : rthread) : list regreq := map snd (rt_ret th) ++ inflight (rt_pc th) ++ rt_prog th.

Definition thread_idle (th : rthread) : bool :=
  match rt_pc th, rt_prog th with RIdle, [] => true | _, _ => false end.
Definition all_returned (s : rstate) : bool := forallb thread_idle (rs_thr s).

(* what a client sees: the Server's answer over the entries as the strong counts make them look *)
Definition conc_config (compress : bool) (nodes : N) (s : rstate) : config :=
  MkCfg compress nodes (mark (rs_dead s) (rs_cur s)).

(* --- witnesses for the refutations: two components register one endpoint each, at the same moment *)
Definition k_a : bytes := [47; 97].   (* "/a" *)
Definition k_b : bytes := [47; 98].   (* "/b" *)
Definition w_progs : list (list regreq) := [[MkRq (PStub k_a 200) false]; [MkRq (PStub k_b 200) false]].
(* both load, both build, then each stores (taking the mutex for the store where there is one) *)
Definition w_sched : list sev :=
  [SRun 0; SRun 1; SRun 0; SRun 1; SRun 0; SRun 0; SRun 0; SRun 1; SRun 1; SRun 1; SRun 1; SRun 1]%nat.
Definition w_req_a : request := MkReq 0 k_a None [].
Definition w_req_b : request := MkReq 0 k_b None [].

(* ================================================================ Part 2: Mutex<Option<BmpState>> *)
Inductive holdvar := HoldLock | ReleaseLock.

(* one thing the connection task does with the lock *)
Inductive hmsg :=
| MMsg (work : nat)     (* process_msg of a message whose processing passes [work] await points *)
| MAbort                (* process_msg taking the MessageType::Aborted arm (dead code: no state yields it) *)
| MPeek.                (* read_from_router: lock, as_ref().unwrap(), unlock *)

Inductive hpc :=
| HIdle
| HLocked (work : nat) (abort : bool)        (* has the lock, state not taken yet *)
| HTaken (st : N) (work : nat) (abort : bool) (holding : bool)   (* state in a local variable *)
| HWait (st : N)                              (* ReleaseLock: processing done, lock re-acquired, about to put *)
| HPut                                        (* state put back, still holding the lock *)
| HPeeking.                                   (* has the lock, about to look at the state *)

Inductive qpc := QIdle | QLocked | QDone (answer : presult).
Inductive lpc := LIdle | LLocked | LDone (listed : bool).

Inductive sthread :=
| THandler (prog : list hmsg) (pc : hpc) (panicked : bool)
| TInfo (r : request) (pc : qpc)              (* GET on the router-info endpoint *)
| TList (pc : lpc).                           (* the router list looking at this router *)

Record lstate := MkLS {
  ls_owner : option nat;     (* who holds the tokio mutex *)
  ls_val : option N;         (* the Option<BmpState> inside; the state is abstracted to a number *)
  ls_thr : list sthread }.

(* RouterInfoApi::process_request with the state it finds under the lock *)
Definition info_process_locked (val : option N) (base : bytes) (names : list bytes) (r : request) : presult :=
  match strip_pfx base (decode_path (rq_path r)) with
  | Some (_ :: _) =>
      match val with
      | None => PPanic                         (* lock.as_ref().unwrap() *)
      | Some _ => info_process base names r
      end
  | _ => PNone
  end.

Definition lset (s : lstate) (t : nat) (th : sthread) : lstate := MkLS (ls_owner s) (ls_val s) (upd (ls_thr s) t th).
Definition lown (s : lstate) (o : option nat) : lstate := MkLS o (ls_val s) (ls_thr s).
Definition lval (s : lstate) (x : option N) : lstate := MkLS (ls_owner s) x (ls_thr s).

Definition lstep (v : holdvar) (base : bytes) (names : list bytes) (s : lstate) (t : nat) : lstate :=
  match nth_error (ls_thr s) t with
  | None => s
  | Some (THandler prog pc pan) =>
      match pc with
      | HIdle =>
          match prog, ls_owner s with
          | [], _ => s
          | _ :: _, Some _ => s                                            (* lock().await pending *)
          | MMsg w :: rest, None => lset (lown s (Some t)) t (THandler rest (HLocked w false) pan)
          | MAbort :: rest, None => lset (lown s (Some t)) t (THandler rest (HLocked O true) pan)
          | MPeek :: rest, None => lset (lown s (Some t)) t (THandler rest HPeeking pan)
          end
      | HLocked w ab =>
          match ls_val s with
          | Some st =>
              match v with
              | HoldLock => lset (lval s None) t (THandler prog (HTaken st w ab true) pan)
              | ReleaseLock => lset (lown (lval s None) None) t (THandler prog (HTaken st w ab false) pan)
              end
          | None => lset (lown s None) t (THandler [] HIdle true)          (* take().unwrap() panics; the task dies *)
          end
      | HTaken st (S w) ab h => lset s t (THandler prog (HTaken st w ab h) pan)      (* an await point inside *)
      | HTaken st O true h =>
          (* Err(..) returned, the state is dropped with the frame *)
          if h then lset (lown s None) t (THandler prog HIdle pan) else lset s t (THandler prog HIdle pan)
      | HTaken st O false true => lset (lval s (Some (N.succ st))) t (THandler prog HPut pan)
      | HTaken st O false false =>
          match ls_owner s with
          | None => lset (lown s (Some t)) t (THandler prog (HWait st) pan)
          | Some _ => s
          end
      | HWait st => lset (lval s (Some (N.succ st))) t (THandler prog HPut pan)
      | HPut => lset (lown s None) t (THandler prog HIdle pan)
      | HPeeking =>
          match ls_val s with
          | Some _ => lset (lown s None) t (THandler prog HIdle pan)
          | None => lset (lown s None) t (THandler [] HIdle true)
          end
      end
  | Some (TInfo r pc) =>
      match pc with
      | QIdle => match ls_owner s with
                 | None => lset (lown s (Some t)) t (TInfo r QLocked)
                 | Some _ => s
                 end
      | QLocked => lset (lown s None) t (TInfo r (QDone (info_process_locked (ls_val s) base names r)))
      | QDone _ => s
      end
  | Some (TList pc) =>
      match pc with
      | LIdle => match ls_owner s with
                 | None => lset (lown s (Some t)) t (TList LLocked)
                 | Some _ => s
                 end
      | LLocked => lset (lown s None) t (TList (LDone (match ls_val s with Some _ => true | None => false end)))
      | LDone _ => s
      end
  end.

Definition lrun (v : holdvar) (base : bytes) (names : list bytes) (s : lstate) (sched : list nat) : lstate :=
  fold_left (lstep v base names) sched s.

Definition fresh_thread (th : sthread) : bool :=
  match th with
  | THandler _ HIdle false => true
  | TInfo _ QIdle => true
  | TList LIdle => true
  | _ => false
  end.

Definition no_abort (th : sthread) : bool :=
  match th with
  | THandler prog _ _ => forallb (fun m => match m with MAbort => false | _ => true end) prog
  | _ => true
  end.

Definition linit (st0 : N) (thr : list sthread) : lstate := MkLS None (Some st0) thr.

(* --- witnesses: a router that is sending while its info page and the router list are requested *)
Definition k_routers : bytes := [47; 114; 47].    (* "/r/" *)
Definition k_one : bytes := [49].                   (* "1" *)
Definition w_info_req : request := MkReq 0 (k_routers ++ k_one) None [].
Definition w_threads : list sthread := [THandler [MMsg 1] HIdle false; TInfo w_info_req QIdle; TList LIdle].
(* the handler takes the state; then the info request and the list get the lock *)
(* ... and once the message is done, everybody runs to completion *)
Definition w_lsched : list nat := [0; 0; 1; 1; 2; 2; 0; 0; 0; 0; 1; 1; 2; 2]%nat.
