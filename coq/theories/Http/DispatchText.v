(* C12 - byte-string functions the HTTP handlers of rotonda lean on, re-stated
   as executable Gallina (definitions only; proofs are in DispatchProofs.v).

   A string is a [list N] of bytes (each < 256). What is mirrored:
     percent_encoding::percent_decode            -> [pct_decode]
     String::from_utf8_lossy (core Utf8Chunks)   -> [utf8_lossy]
     str::is_char_boundary / split_at / slicing  -> [char_boundary]
     str::starts_with / strip_prefix / contains  -> [starts_with] [strip_pfx] [contains]
     str::split(char) / split_once               -> [split_on] [split_once_b] [split_once_s]
     uN::from_str                                -> [parse_uint]
     std::net::{Ipv4Addr,Ipv6Addr}::from_str     -> [parse_v4] [parse_v6]
     inetnum::addr::Prefix::from_str             -> [parse_prefix]
     inetnum::asn::Asn::from_str                 -> [asn_from_str]   (slices at byte 2!)
     url::form_urlencoded::parse                 -> [form_parse]
     http::uri path/query byte acceptance        -> [path_byte_ok] [query_byte_ok]
     http::HeaderValue::{from_bytes,to_str}      -> [hv_byte_ok] [hv_to_str_ok] *)
From Coq Require Import NArith List Bool String Ascii.
Import ListNotations.
Local Open Scope N_scope.
Local Notation length := List.length.

Definition bytes := list N.

(* Coq string literal -> bytes (only used for ASCII constants) *)
Definition bs (s : string) : bytes := map N_of_ascii (list_ascii_of_string s).


(* ASCII constants, normalised so that the extracted code does not depend on Coq strings *)
Definition k_ : bytes := Eval vm_compute in bs ":".
Definition k_0_0 : bytes := Eval vm_compute in bs "0:0".
Definition k_0x : bytes := Eval vm_compute in bs "0x".
Definition k_0xFFFF029A : bytes := Eval vm_compute in bs "0xFFFF029A".
Definition k_0xZZ : bytes := Eval vm_compute in bs "0xZZ".
Definition k_1 : bytes := Eval vm_compute in bs "1:".
Definition k_1_1 : bytes := Eval vm_compute in bs "-1:1".
Definition k_1_2_3 : bytes := Eval vm_compute in bs "1:2:3".
Definition k_1_2_3_4 : bytes := Eval vm_compute in bs "1:2:3:4".
Definition k_1_65536 : bytes := Eval vm_compute in bs "1:65536".
Definition k_65000_100 : bytes := Eval vm_compute in bs "65000:100".
Definition k_65536_1 : bytes := Eval vm_compute in bs "65536:1".
Definition k_AS1_2_3 : bytes := Eval vm_compute in bs "AS1:2:3".
Definition k_AS65000_1 : bytes := Eval vm_compute in bs "AS65000:1".
Definition k_BLACKHOLE : bytes := Eval vm_compute in bs "BLACKHOLE".
Definition k_NO_EXPORT : bytes := Eval vm_compute in bs "NO_EXPORT".
Definition k_accept_encoding : bytes := Eval vm_compute in bs "accept-encoding".
Definition k_addr : bytes := Eval vm_compute in bs "addr".
Definition k_all : bytes := Eval vm_compute in bs "all".
Definition k_any : bytes := Eval vm_compute in bs "any".
Definition k_as : bytes := Eval vm_compute in bs "as".
Definition k_as_path : bytes := Eval vm_compute in bs "as_path".
Definition k_asc : bytes := Eval vm_compute in bs "asc".
Definition k_communities : bytes := Eval vm_compute in bs "communities".
Definition k_community : bytes := Eval vm_compute in bs "community".
Definition k_desc : bytes := Eval vm_compute in bs "desc".
Definition k_details : bytes := Eval vm_compute in bs "details".
Definition k_discard : bytes := Eval vm_compute in bs "discard".
Definition k_dump : bytes := Eval vm_compute in bs "dump".
Definition k_empty : bytes := Eval vm_compute in bs "".
Definition k_filter_op : bytes := Eval vm_compute in bs "filter_op".
Definition k_flags : bytes := Eval vm_compute in bs "/flags/".
Definition k_format : bytes := Eval vm_compute in bs "format".
Definition k_gzip : bytes := Eval vm_compute in bs "gzip".
Definition k_hard_parse_errors : bytes := Eval vm_compute in bs "hard_parse_errors".
Definition k_include : bytes := Eval vm_compute in bs "include".
Definition k_invalid_messages : bytes := Eval vm_compute in bs "invalid_messages".
Definition k_lessSpecifics : bytes := Eval vm_compute in bs "lessSpecifics".
Definition k_metrics : bytes := Eval vm_compute in bs "/metrics".
Definition k_moreSpecifics : bytes := Eval vm_compute in bs "moreSpecifics".
Definition k_peer_as : bytes := Eval vm_compute in bs "peer_as".
Definition k_peers_up : bytes := Eval vm_compute in bs "peers_up".
Definition k_peers_up_dumping : bytes := Eval vm_compute in bs "peers_up_dumping".
Definition k_peers_up_dumping_pc : bytes := Eval vm_compute in bs "peers_up_dumping_pc".
Definition k_peers_up_eor_capable : bytes := Eval vm_compute in bs "peers_up_eor_capable".
Definition k_peers_up_eor_capable_pc : bytes := Eval vm_compute in bs "peers_up_eor_capable_pc".
Definition k_prefixes : bytes := Eval vm_compute in bs "/prefixes/".
Definition k_q : bytes := Eval vm_compute in bs "q".
Definition k_queue : bytes := Eval vm_compute in bs "queue".
Definition k_ro_1_2_3_4_5 : bytes := Eval vm_compute in bs "ro:1.2.3.4:5".
Definition k_rt_1 : bytes := Eval vm_compute in bs "rt:1".
Definition k_rt_65000_1 : bytes := Eval vm_compute in bs "rt:65000:1".
Definition k_select : bytes := Eval vm_compute in bs "select".
Definition k_soft_parse_errors : bytes := Eval vm_compute in bs "soft_parse_errors".
Definition k_sort : bytes := Eval vm_compute in bs "sort".
Definition k_sort_by : bytes := Eval vm_compute in bs "sort_by".
Definition k_sort_order : bytes := Eval vm_compute in bs "sort_order".
Definition k_star : bytes := Eval vm_compute in bs "*".
Definition k_state : bytes := Eval vm_compute in bs "state".
Definition k_status : bytes := Eval vm_compute in bs "/status".
Definition k_status_graph : bytes := Eval vm_compute in bs "/status/graph".
Definition k_status_traces : bytes := Eval vm_compute in bs "/status/traces".
Definition k_sys_desc : bytes := Eval vm_compute in bs "sys_desc".
Definition k_sys_name : bytes := Eval vm_compute in bs "sys_name".
Definition k_traces_seg_ : bytes := Eval vm_compute in bs "/traces/".
Definition k_x : bytes := Eval vm_compute in bs "x".
Definition k_x_gzip : bytes := Eval vm_compute in bs "x-gzip".
Definition k_zz_1_2 : bytes := Eval vm_compute in bs "zz:1:2".

Definition in_rng (lo hi b : N) : bool := (lo <=? b) && (b <=? hi).

Fixpoint beqb (a b : bytes) : bool :=
  match a, b with
  | [], [] => true
  | x :: a', y :: b' => (x =? y) && beqb a' b'
  | _, _ => false
  end.

Fixpoint starts_with (p s : bytes) : bool :=
  match p, s with
  | [], _ => true
  | x :: p', y :: s' => (x =? y) && starts_with p' s'
  | _ :: _, [] => false
  end.

Fixpoint strip_pfx (p s : bytes) : option bytes :=
  match p, s with
  | [], _ => Some s
  | x :: p', y :: s' => if x =? y then strip_pfx p' s' else None
  | _ :: _, [] => None
  end.

Fixpoint contains (needle hay : bytes) : bool :=
  starts_with needle hay ||
  match hay with [] => false | _ :: t => contains needle t end.

(* str::split(pred): always at least one piece *)
Fixpoint split_on (c : N -> bool) (s : bytes) : list bytes :=
  match s with
  | [] => [[]]
  | b :: t =>
      let r := split_on c t in
      if c b then [] :: r
      else match r with [] => [[b]] | p :: ps => (b :: p) :: ps end
  end.

(* splitn(2, byte): first piece, rest after the first separator (if any) *)
Fixpoint split_once_b (c : N) (s : bytes) : bytes * option bytes :=
  match s with
  | [] => ([], None)
  | b :: t => if b =? c then ([], Some t)
              else let '(h, r) := split_once_b c t in (b :: h, r)
  end.

(* str::split_once(&str) *)
Fixpoint split_once_s (sep s : bytes) : option (bytes * bytes) :=
  match strip_pfx sep s with
  | Some r => Some ([], r)
  | None => match s with
            | [] => None
            | b :: t => match split_once_s sep t with
                        | Some (h, r) => Some (b :: h, r)
                        | None => None
                        end
            end
  end.

Definition lower (b : N) : N := if in_rng 65 90 b then b + 32 else b.
Definition beqb_nocase (a b : bytes) : bool := beqb (map lower a) (map lower b).

(* ---------------------------------------------------------------- percent decoding *)
Definition hexval (b : N) : option N :=
  if in_rng 48 57 b then Some (b - 48)
  else if in_rng 65 70 b then Some (b - 55)
  else if in_rng 97 102 b then Some (b - 87)
  else None.

Fixpoint pct_decode (l : bytes) : bytes :=
  match l with
  | [] => []
  | b :: rest =>
      if b =? 37 then
        match rest with
        | h :: lo :: rest2 =>
            match hexval h, hexval lo with
            | Some x, Some y => (16 * x + y) :: pct_decode rest2
            | _, _ => b :: pct_decode rest
            end
        | _ => b :: pct_decode rest
        end
      else b :: pct_decode rest
  end.

(* ---------------------------------------------------------------- lossy UTF-8 *)
Definition is_cont (b : N) : bool := in_rng 128 191 b.
Definition repl : bytes := [239; 191; 189].   (* U+FFFD *)

Definition ok3 (b0 b1 : N) : bool :=
  ((b0 =? 224) && in_rng 160 191 b1) || (in_rng 225 236 b0 && in_rng 128 191 b1) ||
  ((b0 =? 237) && in_rng 128 159 b1) || (in_rng 238 239 b0 && in_rng 128 191 b1).
Definition ok4 (b0 b1 : N) : bool :=
  ((b0 =? 240) && in_rng 144 191 b1) || (in_rng 241 243 b0 && in_rng 128 191 b1) ||
  ((b0 =? 244) && in_rng 128 143 b1).

(* core::str::lossy::Utf8Chunks: every maximal invalid chunk (1..3 bytes)
   becomes one U+FFFD; decoding resumes at the byte that broke the sequence. *)
Fixpoint utf8_lossy (l : bytes) : bytes :=
  match l with
  | [] => []
  | b0 :: r0 =>
      if b0 <? 128 then b0 :: utf8_lossy r0
      else if in_rng 194 223 b0 then
        match r0 with
        | b1 :: r1 => if is_cont b1 then b0 :: b1 :: utf8_lossy r1 else repl ++ utf8_lossy r0
        | [] => repl
        end
      else if in_rng 224 239 b0 then
        match r0 with
        | b1 :: r1 =>
            if ok3 b0 b1 then
              match r1 with
              | b2 :: r2 => if is_cont b2 then b0 :: b1 :: b2 :: utf8_lossy r2
                            else repl ++ utf8_lossy r1
              | [] => repl
              end
            else repl ++ utf8_lossy r0
        | [] => repl
        end
      else if in_rng 240 244 b0 then
        match r0 with
        | b1 :: r1 =>
            if ok4 b0 b1 then
              match r1 with
              | b2 :: r2 =>
                  if is_cont b2 then
                    match r2 with
                    | b3 :: r3 => if is_cont b3 then b0 :: b1 :: b2 :: b3 :: utf8_lossy r3
                                  else repl ++ utf8_lossy r2
                    | [] => repl
                    end
                  else repl ++ utf8_lossy r1
              | [] => repl
              end
            else repl ++ utf8_lossy r0
        | [] => repl
        end
      else repl ++ utf8_lossy r0
  end.

(* PercentDecodedPath::decoded_path and form_urlencoded's decode *)
Definition decode_path (raw : bytes) : bytes := utf8_lossy (pct_decode raw).

(* str::is_char_boundary on the UTF-8 bytes of a (valid) string *)
Definition char_boundary (s : bytes) (i : nat) : bool :=
  match i with
  | O => true
  | _ => match Nat.compare i (length s) with
         | Eq => true
         | Gt => false
         | Lt => negb (is_cont (nth i s 0))
         end
  end.

Definition is_ascii (s : bytes) : bool := forallb (fun b => b <? 128) s.

(* ---------------------------------------------------------------- numbers *)
Definition is_digit (b : N) : bool := in_rng 48 57 b.

Fixpoint parse_digits (acc : N) (l : bytes) : option N :=
  match l with
  | [] => Some acc
  | b :: t => if is_digit b then parse_digits (acc * 10 + (b - 48)) t else None
  end.

(* <unsigned>::from_str: one optional '+', at least one digit, no overflow *)
Definition parse_uint (max : N) (s : bytes) : option N :=
  let ds := match s with b :: t => if b =? 43 then t else s | [] => s end in
  match ds with
  | [] => None
  | _ => match parse_digits 0 ds with
         | Some v => if v <=? max then Some v else None
         | None => None
         end
  end.

Definition u8_max : N := 255.
Definition u32_max : N := 4294967295.

(* ---------------------------------------------------------------- IP addresses *)
(* core::net::parser read_number(10, Some(3), allow_zero_prefix = false) for a u8:
   1..3 digits, no leading zero unless the number is "0", value <= 255.
   Returns the value and the unread rest. *)
Fixpoint take_digits (n : nat) (l : bytes) : bytes * bytes :=
  match n, l with
  | S n', b :: t => if is_digit b then let '(d, r) := take_digits n' t in (b :: d, r) else ([], l)
  | _, _ => ([], l)
  end.

Definition read_octet (l : bytes) : option (N * bytes) :=
  let '(ds, r) := take_digits 4 l in
  match ds with
  | [] => None
  | d0 :: rest =>
      if (3 <? N.of_nat (length ds)) then None
      else if (d0 =? 48) && negb (match rest with [] => true | _ => false end) then None
      else match parse_digits 0 ds with
           | Some v => if v <=? 255 then Some (v, r) else None
           | None => None
           end
  end.

Definition read_char (c : N) (l : bytes) : option bytes :=
  match l with b :: t => if b =? c then Some t else None | [] => None end.

(* read_ipv4_addr: four octets separated by '.', returns the 32-bit value and the rest *)
Definition read_v4 (l : bytes) : option (N * bytes) :=
  match read_octet l with
  | Some (a, r1) =>
    match read_char 46 r1 with
    | Some r1' =>
      match read_octet r1' with
      | Some (b, r2) =>
        match read_char 46 r2 with
        | Some r2' =>
          match read_octet r2' with
          | Some (c, r3) =>
            match read_char 46 r3 with
            | Some r3' =>
              match read_octet r3' with
              | Some (d, r4) => Some (((a * 256 + b) * 256 + c) * 256 + d, r4)
              | None => None
              end
            | None => None
            end
          | None => None
          end
        | None => None
        end
      | None => None
      end
    | None => None
    end
  | None => None
  end.

(* Ipv4Addr::from_str: at most 15 bytes, everything consumed *)
Definition parse_v4 (s : bytes) : option N :=
  if (15 <? N.of_nat (length s)) then None
  else match read_v4 s with
       | Some (v, []) => Some v
       | _ => None
       end.

(* read_number(16, Some(4), allow_zero_prefix = true): 1..4 hex digits *)
Fixpoint take_hex (n : nat) (l : bytes) : list N * bytes :=
  match n, l with
  | S n', b :: t => match hexval b with
                    | Some v => let '(d, r) := take_hex n' t in (v :: d, r)
                    | None => ([], l)
                    end
  | _, _ => ([], l)
  end.

Definition read_group (l : bytes) : option (N * bytes) :=
  let '(ds, r) := take_hex 5 l in
  match ds with
  | [] => None
  | _ => if (4 <? N.of_nat (length ds)) then None
         else Some (fold_left (fun acc d => acc * 16 + d) ds 0, r)
  end.

(* read_separator(':', index, inner) *)
Definition with_sep {A} (index : nat) (inner : bytes -> option (A * bytes)) (l : bytes) : option (A * bytes) :=
  match index with
  | O => inner l
  | _ => match read_char 58 l with Some r => inner r | None => None end
  end.

(* read_groups: reads up to [limit] 16-bit groups starting at group index [i];
   returns the groups read (in order), whether an embedded IPv4 ended them, and the rest.
   [fuel] = limit - i. *)
Fixpoint read_groups (fuel : nat) (i limit : nat) (l : bytes) : list N * bool * bytes :=
  match fuel with
  | O => ([], false, l)
  | S fuel' =>
      let v4 := if Nat.ltb i (limit - 1) then with_sep i read_v4 l else None in
      match v4 with
      | Some (v, r) => ([v / 65536; v mod 65536], true, r)
      | None =>
          match with_sep i read_group l with
          | Some (g, r) => let '(gs, e, r') := read_groups fuel' (S i) limit r in (g :: gs, e, r')
          | None => ([], false, l)
          end
      end
  end.

Definition groups_val (gs : list N) : N := fold_left (fun acc g => acc * 65536 + g) gs 0.

(* read_ipv6_addr, then everything must be consumed. Value = 128-bit number. *)
Definition parse_v6 (s : bytes) : option N :=
  let '(head, head_v4, r) := read_groups 8 0 8 s in
  let hn := length head in
  if Nat.eqb hn 8 then match r with [] => Some (groups_val head) | _ => None end
  else if head_v4 then None
  else match read_char 58 r with
       | Some r1 =>
         match read_char 58 r1 with
         | Some r2 =>
             let limit := (8 - (hn + 1))%nat in
             let '(tail, _, r3) := read_groups limit 0 limit r2 in
             match r3 with
             | [] => Some (groups_val head * 65536 ^ (N.of_nat (8 - hn)) + groups_val tail)
             | _ => None
             end
         | None => None
         end
       | None => None
       end.

(* a parsed prefix: family (true = v4) and length *)
Record pfx := MkPfx { pfx_v4 : bool; pfx_len : N }.

(* inetnum Prefix::from_str: non-empty, first '/', IpAddr::from_str (v4 then v6),
   u8 length, length <= 32 / 128, host bits zero. *)
Definition parse_prefix (s : bytes) : option pfx :=
  match split_once_b 47 s with
  | (a, Some l) =>
      match parse_uint u8_max l with
      | Some len =>
          match parse_v4 a with
          | Some v => if (len <=? 32) && (v mod 2 ^ (32 - len) =? 0) then Some (MkPfx true len) else None
          | None =>
              match parse_v6 a with
              | Some v => if (len <=? 128) && (v mod 2 ^ (128 - len) =? 0) then Some (MkPfx false len) else None
              | None => None
              end
          end
      | None => None
      end
  | (_, None) => None
  end.

(* ---------------------------------------------------------------- leaf parsers with panic sites *)
Inductive leaf := LOk | LErr | LPanic.

(* inetnum Asn::from_str:
     let s = if s.len() > 2 && s[..2].eq_ignore_ascii_case("as") { &s[2..] } else { s };
     u32::from_str(s)
   [s[..2]] panics when byte 2 is not a char boundary. *)
Definition asn_from_str (s : bytes) : leaf :=
  if (2 <? N.of_nat (length s)) then
    if negb (char_boundary s 2) then LPanic
    else
      let d := if beqb_nocase (firstn 2 s) k_as then skipn 2 s else s in
      match parse_uint u32_max d with Some _ => LOk | None => LErr end
  else match parse_uint u32_max s with Some _ => LOk | None => LErr end.

Definition all_hex_u64 (s : bytes) : bool :=
  (* u64::from_str_radix(s, 16) on exactly 16 bytes: optional '+', then hex digits (at least one) *)
  let ds := match s with b :: t => if b =? 43 then t else s | [] => s end in
  match ds with [] => false | _ => forallb (fun b => match hexval b with Some _ => true | None => false end) ds end.

(* routecore Community::from_str reaches Ipv6ExtendedCommunity::from_str when the
   other three parsers fail; that one slices hex[0..16], hex[16..32], hex[32..40]
   of a 40-byte remainder after "0x". Non-ASCII input makes the earlier parsers
   fail, so the slices are reached: panic when 16 (or, after a valid first
   chunk, 32) is not a char boundary. *)
Definition comm_panics (s : bytes) : bool :=
  match strip_pfx k_0x s with
  | Some h =>
      if Nat.eqb (length h) 40 then
        if negb (char_boundary h 16) then true
        else if all_hex_u64 (firstn 16 h) && negb (char_boundary h 32) then true
        else false
      else false
  | None => false
  end.

(* ---------------------------------------------------------------- query strings *)
Definition plus_to_space (s : bytes) : bytes := map (fun b => if b =? 43 then 32 else b) s.
Definition form_decode (s : bytes) : bytes := utf8_lossy (pct_decode (plus_to_space s)).

(* url::form_urlencoded::parse: pieces between '&' (empty ones skipped), each
   split at its first '='; both halves decoded. *)
Definition form_parse (q : bytes) : list (bytes * bytes) :=
  flat_map (fun piece =>
    match piece with
    | [] => []
    | _ => let '(n, v) := split_once_b 61 piece in
           [(form_decode n, form_decode (match v with Some v => v | None => [] end))]
    end) (split_on (fun b => b =? 38) q).

(* ---------------------------------------------------------------- what the http crate lets through *)
Definition path_byte_ok (b : N) : bool :=
  (b =? 33) || in_rng 36 59 b || (b =? 61) || in_rng 64 95 b || in_rng 97 122 b ||
  (b =? 124) || (b =? 126) || (b =? 34) || (b =? 123) || (b =? 125).
Definition query_byte_ok (b : N) : bool :=
  (b =? 33) || in_rng 36 59 b || (b =? 61) || in_rng 63 126 b.
Definition hv_byte_ok (b : N) : bool := (b =? 9) || (in_rng 32 255 b && negb (b =? 127)).
Definition hv_to_str_ok (v : bytes) : bool := forallb (fun b => (b =? 9) || in_rng 32 126 b) v.
