(* C12 - the router list answers every request of its request space whatever the
   states of the monitored routers are; refutation for the unguarded percentage keys. *)
From Coq Require Import NArith List Bool Lia.
From RV Require Import Http.DispatchText Http.DispatchModel Http.RouterListModel.
Import ListNotations.
Local Open Scope N_scope.
Local Notation length := List.length.

Lemma sort_value_guarded : forall key st, exists v, sort_value true key st = Some v.
Proof.
  intros key st. destruct st as [|ps soft hard]; cbn [sort_value]; [eexists; reflexivity|].
  repeat match goal with |- context [if ?b then _ else _] => destruct b end;
    unfold pc_key; eexists; reflexivity.
Qed.

Lemma sort_values_guarded : forall key rs, exists vs, sort_values true key rs = Some vs /\ length vs = length rs.
Proof.
  intros key rs. induction rs as [|st t IH]; [exists []; split; reflexivity|].
  destruct IH as [vs [Hvs Hlen]]. destruct (sort_value_guarded key st) as [v Hv].
  exists (v :: vs). cbn [sort_values]. rewrite Hv, Hvs. split; [reflexivity|]. cbn [length]. now rewrite Hlen.
Qed.

Lemma sort_by_values_split : forall k,
  existsb (beqb k) sort_by_values =
  beqb k k_addr || (beqb k k_sys_name || (beqb k k_sys_desc || existsb (beqb k) numeric_keys)).
Proof. intro k. unfold sort_by_values, numeric_keys. cbn [existsb]. reflexivity. Qed.

(* every sort key is answered whatever the router states: the result is a
   function of the two parameters and of the NUMBER of routers only *)
Theorem sort_routers_total : forall sb so rs,
  sort_routers true sb so rs = expected_result sb so (N.of_nat (length rs)).
Proof.
  intros sb so rs. unfold sort_routers, expected_result.
  destruct sb as [k|].
  - rewrite sort_by_values_split.
    destruct (beqb k k_addr); cbn [orb negb]; [destruct so as [o|]; [destruct (beqb o k_asc || beqb o k_desc)|]; reflexivity|].
    destruct (beqb k k_sys_name); cbn [orb negb]; [destruct so as [o|]; [destruct (beqb o k_asc || beqb o k_desc)|]; reflexivity|].
    destruct (beqb k k_sys_desc); cbn [orb negb]; [destruct so as [o|]; [destruct (beqb o k_asc || beqb o k_desc)|]; reflexivity|].
    destruct (existsb (beqb k) numeric_keys); cbn [negb]; [|reflexivity].
    destruct (sort_values_guarded k rs) as [vs [Hvs Hlen]]. rewrite Hvs, Hlen.
    destruct so as [o|]; [destruct (beqb o k_asc || beqb o k_desc)|]; reflexivity.
  - cbn [negb]. destruct so as [o|]; [destruct (beqb o k_asc || beqb o k_desc)|]; reflexivity.
Qed.

Theorem sort_routers_never_panics : forall sb so rs, sort_routers true sb so rs <> RLPanic.
Proof.
  intros sb so rs. rewrite sort_routers_total. unfold expected_result.
  repeat match goal with |- context [if ?b then _ else _] => destruct b end; discriminate.
Qed.

(* the processor over ANY population answers what DispatchModel.routers_process
   says: every theorem of C12 about [PRouters base] holds whatever routers are
   connected and whatever state each is in *)
Theorem routers_process_st_indep : forall base rs r,
  routers_process_st true base rs r = routers_process base r.
Proof.
  intros base rs r. unfold routers_process_st, routers_request_st, routers_process.
  destruct (beqb (decode_path (rq_path r)) base); [|reflexivity].
  destruct (get_param k_sort_by (params_of (rq_query r))) as [sb ps1].
  destruct (get_param k_sort_order ps1) as [so ps2].
  rewrite sort_routers_total. unfold expected_result.
  destruct sb as [m|]; destruct so as [m'|]; cbn [option_map];
    try destruct (existsb (beqb (m_value m)) sort_by_values);
    try destruct (beqb (m_value m') k_asc || beqb (m_value m') k_desc); reflexivity.
Qed.

(* the request space of the task, swept: 15 sort_by values x 5 sort_order values x 64 populations *)
Lemma rl_space_guarded : rl_space_ok true = true.
Proof. vm_compute. reflexivity. Qed.

(* ---------------------------------------------------------------- the unguarded division (seeded C12-c2) *)
Lemma rl_space_unguarded_refuted : rl_space_ok false = false.
Proof. vm_compute. reflexivity. Qed.

Lemma unguarded_pc_refuted :
  sort_routers false (Some k_peers_up_eor_capable_pc) None [st_no_peers] = RLPanic /\
  sort_routers false (Some k_peers_up_dumping_pc) None [st_none_eor] = RLPanic /\
  sort_routers false (Some k_peers_up_eor_capable_pc) (Some k_bogus) [st_mixed; st_all_down] = RLPanic /\
  sort_routers true (Some k_peers_up_eor_capable_pc) None [st_no_peers] = RLRows 1 /\
  sort_routers true (Some k_peers_up_dumping_pc) None [st_none_eor] = RLRows 1.
Proof. vm_compute. repeat split; reflexivity. Qed.

(* what the unguarded code does satisfy: no router that is past its Initiation is without an EoR-capable peer up *)
Definition has_eor_peer (st : rstate) : bool :=
  match st with RInitiating => true | RUp ps _ _ => negb (n_eor ps =? 0) end.

Lemma filter_length_le : forall (A : Type) (f : A -> bool) l, (length (filter f l) <= length l)%nat.
Proof. intros A f l. induction l as [|x l IH]; cbn; [lia|]. destruct (f x); cbn; lia. Qed.

Lemma sort_value_unguarded : forall key st, has_eor_peer st = true -> exists v, sort_value false key st = Some v.
Proof.
  intros key st H. destruct st as [|ps soft hard]; cbn [sort_value]; [eexists; reflexivity|].
  cbn [has_eor_peer] in H. apply negb_true_iff in H.
  assert (Hup : (n_up ps =? 0) = false).
  { apply N.eqb_neq. apply N.eqb_neq in H. unfold n_up, n_eor in *.
    pose proof (filter_length_le _ pr_eor ps). lia. }
  repeat match goal with |- context [if ?b then _ else _] => destruct b end;
    unfold pc_key; cbn [negb]; rewrite ?H, ?Hup; eexists; reflexivity.
Qed.

Theorem sort_routers_unguarded_partial : forall sb so rs,
  forallb has_eor_peer rs = true ->
  sort_routers false sb so rs = expected_result sb so (N.of_nat (length rs)).
Proof.
  intros sb so rs Hall.
  assert (Hvs : forall k, exists vs, sort_values false k rs = Some vs /\ length vs = length rs).
  { intro k. induction rs as [|st t IH]; [exists []; split; reflexivity|].
    cbn [forallb] in Hall. apply andb_true_iff in Hall. destruct Hall as [H1 H2].
    destruct (IH H2) as [vs [Hv Hl]]. destruct (sort_value_unguarded k st H1) as [v Hv1].
    exists (v :: vs). cbn [sort_values]. rewrite Hv1, Hv. split; [reflexivity|]. cbn [length]. now rewrite Hl. }
  unfold sort_routers, expected_result.
  destruct sb as [k|].
  - rewrite sort_by_values_split.
    destruct (beqb k k_addr); cbn [orb negb]; [destruct so as [o|]; [destruct (beqb o k_asc || beqb o k_desc)|]; reflexivity|].
    destruct (beqb k k_sys_name); cbn [orb negb]; [destruct so as [o|]; [destruct (beqb o k_asc || beqb o k_desc)|]; reflexivity|].
    destruct (beqb k k_sys_desc); cbn [orb negb]; [destruct so as [o|]; [destruct (beqb o k_asc || beqb o k_desc)|]; reflexivity|].
    destruct (existsb (beqb k) numeric_keys); cbn [negb]; [|reflexivity].
    destruct (Hvs k) as [vs [Hv Hlen]]. rewrite Hv, Hlen.
    destruct so as [o|]; [destruct (beqb o k_asc || beqb o k_desc)|]; reflexivity.
  - cbn [negb]. destruct so as [o|]; [destruct (beqb o k_asc || beqb o k_desc)|]; reflexivity.
Qed.

(* ---------------------------------------------------------------- the numbers of a router, over all message histories *)
Definition peers_of (st : rstate) : list rpeer := match st with RInitiating => [] | RUp ps _ _ => ps end.
Definition pending_implies_eor (ps : list rpeer) : Prop := forall p, In p ps -> pr_pending p = true -> pr_eor p = true.

Lemma rl_apply_inv : forall st e, pending_implies_eor (peers_of st) -> pending_implies_eor (peers_of (rl_apply st e)).
Proof.
  intros st e H. destruct st as [|ps s h]; destruct e; cbn [rl_apply peers_of]; try exact H;
    try (intros p []).
  - destruct (has_peer i ps); cbn [peers_of]; [exact H|].
    intros p Hin Hp. apply in_app_or in Hin. destruct Hin as [Hin|[<-|[]]]; [now apply H|discriminate].
  - destruct (has_peer i ps); cbn [peers_of]; [|exact H].
    intros p Hin Hp. apply in_map_iff in Hin. destruct Hin as [q [<- Hq]].
    destruct ((pr_id q =? i) && pr_eor q); [reflexivity|]. now apply H.
  - destruct (has_peer i ps); cbn [peers_of]; [|exact H].
    intros p Hin Hp. apply in_map_iff in Hin. destruct Hin as [q [<- Hq]].
    destruct (pr_id q =? i); [discriminate|]. now apply H.
  - destruct (has_peer i ps); cbn [peers_of]; [|exact H].
    intros p Hin Hp. apply filter_In in Hin. now apply H.
Qed.

Lemma filter_le_filter : forall (f g : rpeer -> bool) l, (forall p, In p l -> f p = true -> g p = true) ->
  (length (filter f l) <= length (filter g l))%nat.
Proof.
  intros f g l H. induction l as [|x l IH]; cbn; [lia|].
  assert (IH' := IH (fun p Hp => H p (or_intror Hp))).
  destruct (f x) eqn:Hf; [rewrite (H x (or_introl eq_refl) Hf); cbn; lia|]. destruct (g x); cbn; lia.
Qed.

(* after ANY sequence of messages: dumping <= EoR capable <= up *)
Theorem rl_counts_ordered : forall evs,
  let ps := peers_of (rl_run evs) in n_dumping ps <= n_eor ps /\ n_eor ps <= n_up ps.
Proof.
  intros evs.
  assert (Hinv : forall st, pending_implies_eor (peers_of st) -> pending_implies_eor (peers_of (fold_left rl_apply evs st))).
  { induction evs as [|e evs IH]; intros st H; [exact H|]. cbn [fold_left]. apply IH. now apply rl_apply_inv. }
  assert (H0 : pending_implies_eor (peers_of (rl_run evs))) by (apply Hinv; intros p []).
  cbn zeta. unfold n_dumping, n_eor, n_up. split.
  - pose proof (filter_le_filter pr_pending pr_eor _ H0). lia.
  - pose proof (filter_length_le _ pr_eor (peers_of (rl_run evs))). lia.
Qed.

(* ---------------------------------------------------------------- the order of the rows *)
From Coq Require Import Permutation.

Lemma bytes_le_total : forall a b, bytes_le a b = false -> bytes_le b a = true.
Proof.
  induction a as [|x a IH]; intros b H; [discriminate|].
  destruct b as [|y b]; [reflexivity|]. cbn [bytes_le] in *.
  destruct (x <? y) eqn:Hxy; [discriminate|]. destruct (y <? x) eqn:Hyx; [reflexivity|]. now apply IH.
Qed.

Lemma skey_le_total : forall a b, skey_le a b = false -> skey_le b a = true.
Proof.
  intros [x|x] [y|y] H; cbn [skey_le] in *; try discriminate.
  - apply N.leb_gt in H. apply N.leb_le. lia.
  - now apply bytes_le_total.
Qed.

Lemma ins_row_perm : forall x l, Permutation (x :: l) (ins_row x l).
Proof.
  intros x l. induction l as [|y t IH]; cbn [ins_row]; [reflexivity|].
  destruct (skey_le (fst x) (fst y)); [reflexivity|].
  transitivity (y :: x :: t); [apply perm_swap|]. now apply perm_skip.
Qed.

Lemma sort_rows_perm : forall l, Permutation l (sort_rows l).
Proof.
  induction l as [|x t IH]; cbn [sort_rows]; [reflexivity|].
  transitivity (x :: sort_rows t); [now apply perm_skip|apply ins_row_perm].
Qed.

Lemma ins_row_sorted : forall x l, sortedb (map fst l) = true -> sortedb (map fst (ins_row x l)) = true.
Proof.
  intros x l. induction l as [|y t IH]; intro H; [reflexivity|].
  cbn [ins_row]. destruct (skey_le (fst x) (fst y)) eqn:Hxy.
  - cbn [map sortedb] in *. rewrite Hxy. exact H.
  - apply skey_le_total in Hxy.
    assert (Ht : sortedb (map fst t) = true).
    { cbn [map sortedb] in H. destruct (map fst t) eqn:E; [reflexivity|]. apply andb_true_iff in H. exact (proj2 H). }
    specialize (IH Ht). destruct t as [|z t'].
    + cbn [ins_row map sortedb]. now rewrite Hxy.
    + cbn [ins_row] in *. destruct (skey_le (fst x) (fst z)) eqn:Hxz.
      * cbn [map sortedb] in *. rewrite Hxy. exact IH.
      * cbn [map sortedb] in *. apply andb_true_iff in H. rewrite (proj1 H). exact IH.
Qed.

Lemma sort_rows_sorted : forall l, sortedb (map fst (sort_rows l)) = true.
Proof. induction l as [|x t IH]; [reflexivity|]. cbn [sort_rows]. now apply ins_row_sorted. Qed.

Lemma row_key_guarded : forall sb r, exists k, row_key true sb r = Some k.
Proof.
  intros [k|] r; [|eexists; reflexivity]. unfold row_key.
  destruct (beqb k k_addr); [eexists; reflexivity|].
  destruct (beqb k k_sys_name); [eexists; reflexivity|].
  destruct (beqb k k_sys_desc); [eexists; reflexivity|].
  destruct (sort_value_guarded k (rr_state r)) as [v ->]. eexists; reflexivity.
Qed.

Lemma keyed_from_guarded : forall sb rs i, exists l, keyed_from true sb i rs = Some l /\ map snd l = map (fun j => i + N.of_nat j) (seq 0 (length rs)).
Proof.
  intros sb rs. induction rs as [|r t IH]; intro i; [exists []; split; reflexivity|].
  destruct (row_key_guarded sb r) as [k Hk]. destruct (IH (i + 1)) as [l [Hl Hs]].
  exists ((k, i) :: l). cbn [keyed_from]. rewrite Hk, Hl. split; [reflexivity|].
  cbn [map snd length seq]. f_equal; [cbn; lia|]. rewrite Hs. rewrite <- seq_shift, map_map. apply map_ext. intro j. lia.
Qed.

(* The rows of the page, for every key (known or not), order and population: a
   permutation of the population's rows (each router once, with ITS key), and the
   keys are non-decreasing down the page - up the page for sort_order=desc. *)
Theorem page_rows_sorted_by_key : forall sb so rs,
  exists keyed rows,
    keyed_from true sb 0 rs = Some keyed /\
    map snd keyed = map N.of_nat (seq 0 (length rs)) /\
    page_rows true sb so rs = Some rows /\
    Permutation keyed rows /\
    sortedb (in_reading_order so (map fst rows)) = true.
Proof.
  intros sb so rs. destruct (keyed_from_guarded sb rs 0) as [l [Hl Hs]].
  exists l. unfold page_rows. rewrite Hl. eexists. split; [reflexivity|]. split; [exact Hs|]. split; [reflexivity|].
  unfold in_reading_order. destruct (is_desc so).
  - split; [transitivity (sort_rows l); [apply sort_rows_perm|apply Permutation_rev]|].
    rewrite map_rev, rev_involutive. apply sort_rows_sorted.
  - split; [apply sort_rows_perm|apply sort_rows_sorted].
Qed.

Lemma discriminating_population : all_keys_disagree rl_discriminating = true.
Proof. vm_compute. reflexivity. Qed.
