(* C19 - proofs about EscapeModel.v *)
From Coq Require Import NArith List Bool String Ascii Lia.
From RV Require Import Http.EscapeModel.
Import ListNotations.
Local Open Scope N_scope.

(* ------------------------------------------------------------------ *)
(* basics *)
Lemma str_eqb_eq : forall a b, str_eqb a b = true <-> a = b.
Proof.
  induction a as [|x a IH]; destruct b as [|y b]; cbn [str_eqb]; split; intro H; try easy.
  - apply andb_true_iff in H as [H1 H2]. apply N.eqb_eq in H1. apply IH in H2. congruence.
  - injection H as -> ->. rewrite N.eqb_refl. cbn. now apply IH.
Qed.

Lemma str_eqb_refl : forall a, str_eqb a a = true.
Proof. intro a. now apply str_eqb_eq. Qed.

Lemma forallb_flat_map : forall (A B : Type) (f : A -> list B) (p : B -> bool) l,
  (forall x, forallb p (f x) = true) -> forallb p (flat_map f l) = true.
Proof.
  intros A B f p l H. induction l as [|x l IH]; cbn; [reflexivity|].
  rewrite forallb_app, H, IH. reflexivity.
Qed.

(* ------------------------------------------------------------------ *)
(* A. encode_safe neutralises every metacharacter *)

Ltac case_eqb c k :=
  let E := fresh "E" in
  destruct (N.eqb c k) eqn:E; [apply N.eqb_eq in E; subst c|].

Lemma esc_safe_char_no_meta : forall c, forallb (fun x => negb (is_meta x)) (esc_safe_char c) = true.
Proof.
  intro c. unfold esc_safe_char, c_amp, c_lt, c_gt, c_dq, c_sq, c_sl.
  case_eqb c 38; [reflexivity|]. case_eqb c 60; [reflexivity|]. case_eqb c 62; [reflexivity|].
  case_eqb c 34; [reflexivity|]. case_eqb c 39; [reflexivity|]. case_eqb c 47; [reflexivity|].
  cbn [forallb]. unfold is_meta, c_lt, c_gt, c_dq, c_sq. rewrite E0, E1, E2, E3. reflexivity.
Qed.

Lemma encode_safe_no_meta : forall s, forallb (fun x => negb (is_meta x)) (encode_safe s) = true.
Proof. intro s. apply forallb_flat_map. apply esc_safe_char_no_meta. Qed.

Lemma amp_ok_esc_safe : forall c rest, amp_ok rest = true -> amp_ok (esc_safe_char c ++ rest) = true.
Proof.
  intros c rest H. unfold esc_safe_char, c_amp, c_lt, c_gt, c_dq, c_sq, c_sl.
  case_eqb c 38; [exact H|]. case_eqb c 60; [exact H|]. case_eqb c 62; [exact H|].
  case_eqb c 34; [exact H|]. case_eqb c 39; [exact H|]. case_eqb c 47; [exact H|].
  cbn [app amp_ok]. unfold c_amp. rewrite E. exact H.
Qed.

Lemma encode_safe_amp_ok : forall s, amp_ok (encode_safe s) = true.
Proof.
  induction s as [|c s IH]; [reflexivity|].
  unfold encode_safe. cbn [flat_map]. now apply amp_ok_esc_safe.
Qed.

Lemma encode_safe_neutral : forall s,
  forallb (fun x => negb (is_meta x)) (encode_safe s) = true /\ amp_ok (encode_safe s) = true.
Proof. intro s. split; [apply encode_safe_no_meta | apply encode_safe_amp_ok]. Qed.

(* the same for the attribute escaper, for the characters that matter inside
   a double-quoted value and in text *)
Definition dq_bad (x : N) : bool := (x =? c_lt) || (x =? c_gt) || (x =? c_dq).

Lemma esc_dq_char_ok : forall c, forallb (fun x => negb (dq_bad x)) (esc_dq_char c) = true.
Proof.
  intro c. unfold esc_dq_char, c_amp, c_lt, c_gt, c_dq.
  case_eqb c 38; [reflexivity|]. case_eqb c 60; [reflexivity|]. case_eqb c 62; [reflexivity|].
  case_eqb c 34; [reflexivity|].
  cbn [forallb]. unfold dq_bad, c_lt, c_gt, c_dq. rewrite E0, E1, E2. reflexivity.
Qed.

Lemma encode_dq_attr_ok : forall s, forallb (fun x => negb (dq_bad x)) (encode_dq_attr s) = true.
Proof. intro s. apply forallb_flat_map. apply esc_dq_char_ok. Qed.

(* ------------------------------------------------------------------ *)
(* A'. escaping is lossless: decoding what was written gives the value back *)

Lemma unesc_esc_safe_char : forall c rest,
  unesc_run None (esc_safe_char c ++ rest) = c :: unesc_run None rest.
Proof.
  intros c rest. unfold esc_safe_char, c_amp, c_lt, c_gt, c_dq, c_sq, c_sl.
  case_eqb c 38; [reflexivity|]. case_eqb c 60; [reflexivity|]. case_eqb c 62; [reflexivity|].
  case_eqb c 34; [reflexivity|]. case_eqb c 39; [reflexivity|]. case_eqb c 47; [reflexivity|].
  cbn [app unesc_run unesc_step]. unfold c_amp. rewrite E. reflexivity.
Qed.

Lemma unescape_encode_safe : forall s, unescape (encode_safe s) = s.
Proof.
  unfold unescape, encode_safe. induction s as [|c s IH]; [reflexivity|].
  cbn [flat_map]. rewrite unesc_esc_safe_char, IH. reflexivity.
Qed.

Lemma unesc_esc_dq_char : forall c rest,
  unesc_run None (esc_dq_char c ++ rest) = c :: unesc_run None rest.
Proof.
  intros c rest. unfold esc_dq_char, c_amp, c_lt, c_gt, c_dq.
  case_eqb c 38; [reflexivity|]. case_eqb c 60; [reflexivity|]. case_eqb c 62; [reflexivity|].
  case_eqb c 34; [reflexivity|].
  cbn [app unesc_run unesc_step]. unfold c_amp. rewrite E. reflexivity.
Qed.

Lemma unescape_encode_dq_attr : forall s, unescape (encode_dq_attr s) = s.
Proof.
  unfold unescape, encode_dq_attr. induction s as [|c s IH]; [reflexivity|].
  cbn [flat_map]. rewrite unesc_esc_dq_char, IH. reflexivity.
Qed.

(* ------------------------------------------------------------------ *)
(* decimal digits *)
Lemma uint_chars_digits : forall u, forallb is_digit (uint_chars u) = true.
Proof. induction u; cbn; auto. Qed.

Lemma dec_digits : forall n, forallb is_digit (dec n) = true.
Proof. intro n. apply uint_chars_digits. Qed.

(* ------------------------------------------------------------------ *)
(* B. the tokenizer *)

Lemma tok_run_app : forall a b st,
  tok_run st (a ++ b) =
  (fst (tok_run (fst (tok_run st a)) b), snd (tok_run st a) ++ snd (tok_run (fst (tok_run st a)) b)).
Proof.
  induction a as [|c a IH]; intros b st.
  - cbn. now destruct (tok_run st b).
  - cbn [app tok_run]. destruct (tok_step st c) as [st1 e1]. rewrite IH.
    destruct (tok_run st1 a) as [st2 e2]. cbn [fst snd].
    destruct (tok_run st2 b) as [st3 e3]. cbn [fst snd]. now rewrite app_assoc.
Qed.

Lemma skeleton_app : forall a b, skeleton (a ++ b) = skeleton a ++ skeleton b.
Proof.
  induction a as [|e a IH]; intro b; [reflexivity|].
  destruct e; cbn; [apply IH | now rewrite IH].
Qed.

(* two tokenizer states that differ only in attribute VALUES *)
Definition sim (a b : tst) : Prop :=
  t_mode a = t_mode b /\ t_nm a = t_nm b /\ map fst (t_attrs a) = map fst (t_attrs b) /\ t_an a = t_an b.

Lemma sim_refl : forall a, sim a a.
Proof. intro a. repeat split. Qed.
Lemma sim_sym : forall a b, sim a b -> sim b a.
Proof. intros a b (H1 & H2 & H3 & H4). repeat split; congruence. Qed.
Lemma sim_trans : forall a b c, sim a b -> sim b c -> sim a c.
Proof. intros a b c (H1 & H2 & H3 & H4) (G1 & G2 & G3 & G4). repeat split; congruence. Qed.

Lemma map_fst_snoc : forall (l1 l2 : list (str * str)) an v1 v2,
  map fst l1 = map fst l2 -> map fst (l1 ++ [(an, v1)]) = map fst (l2 ++ [(an, v2)]).
Proof. intros. rewrite !map_app. cbn. congruence. Qed.

Lemma tok_step_sim : forall a b c, sim a b ->
  sim (fst (tok_step a c)) (fst (tok_step b c)) /\
  skeleton (snd (tok_step a c)) = skeleton (snd (tok_step b c)).
Proof.
  intros [ma na aa ana ava] [mb nb ab anb avb] c (H1 & H2 & H3 & H4). cbn in H1, H2, H3, H4. subst mb nb anb.
  unfold tok_step. cbn [t_mode t_nm t_attrs t_an t_av].
  destruct ma;
    repeat match goal with
           | |- context [if ?x then _ else _] => destruct x
           end;
    cbn [fst snd skeleton]; unfold sim; cbn [t_mode t_nm t_attrs t_an t_av map fst];
    repeat split; try reflexivity; try assumption;
    try (apply map_fst_snoc; assumption);
    try (f_equal; f_equal; try assumption; apply map_fst_snoc; assumption).
Qed.

Lemma tok_run_sim : forall s a b, sim a b ->
  sim (fst (tok_run a s)) (fst (tok_run b s)) /\
  skeleton (snd (tok_run a s)) = skeleton (snd (tok_run b s)).
Proof.
  induction s as [|c s IH]; intros a b H; [cbn; auto|].
  cbn [tok_run]. destruct (tok_step_sim a b c H) as [Hs He].
  destruct (tok_step a c) as [a1 ea]. destruct (tok_step b c) as [b1 eb]. cbn [fst snd] in Hs, He.
  destruct (IH a1 b1 Hs) as [Hs' He'].
  destruct (tok_run a1 s) as [a2 ea2]. destruct (tok_run b1 s) as [b2 eb2]. cbn [fst snd] in *.
  split; [assumption|]. rewrite !skeleton_app. congruence.
Qed.

(* characters that cannot change the mode *)
Definition neutral (m : mode) (c : N) : bool :=
  match m with
  | MData => negb (c =? c_lt)
  | MAttrDQ => negb (c =? c_dq)
  | MAttrSQ => negb (c =? c_sq)
  | _ => false
  end.

Lemma tok_step_neutral : forall st c, neutral (t_mode st) c = true ->
  sim st (fst (tok_step st c)) /\ skeleton (snd (tok_step st c)) = [].
Proof.
  intros [m nm attrs an av] c H. cbn [t_mode] in H. unfold tok_step. cbn [t_mode t_nm t_attrs t_an t_av].
  destruct m; cbn [neutral] in H; try discriminate;
    apply negb_true_iff in H; rewrite H; cbn [fst snd skeleton]; split; try reflexivity;
    repeat split.
Qed.

Lemma tok_run_neutral : forall s st, forallb (neutral (t_mode st)) s = true ->
  sim st (fst (tok_run st s)) /\ skeleton (snd (tok_run st s)) = [].
Proof.
  induction s as [|c s IH]; intros st H; [cbn; split; [apply sim_refl | reflexivity]|].
  cbn [forallb] in H. apply andb_true_iff in H as [Hc Hs].
  cbn [tok_run]. destruct (tok_step_neutral st c Hc) as [S1 E1].
  destruct (tok_step st c) as [st1 e1]. cbn [fst snd] in S1, E1.
  assert (Hm : t_mode st1 = t_mode st) by (destruct S1 as [Hm _]; congruence).
  rewrite <- Hm in Hs. destruct (IH st1 Hs) as [S2 E2].
  destruct (tok_run st1 s) as [st2 e2]. cbn [fst snd] in *.
  split; [eapply sim_trans; eassumption|]. rewrite skeleton_app, E1, E2. reflexivity.
Qed.

Lemma forallb_impl : forall (A : Type) (p q : A -> bool) l,
  (forall x, p x = true -> q x = true) -> forallb p l = true -> forallb q l = true.
Proof.
  intros A p q l H. induction l as [|x l IH]; cbn; [auto|].
  intro G. apply andb_true_iff in G as [G1 G2]. now rewrite (H _ G1), (IH G2).
Qed.

Lemma kind_ok_neutral : forall k m v, kind_ok k m = true -> forallb (neutral m) (apply_kind k v) = true.
Proof.
  intros k m v H. destruct k; cbn [kind_ok] in H; try discriminate.
  - (* KSafe *)
    cbn [apply_kind]. eapply forallb_impl; [|apply encode_safe_no_meta].
    intros x Hx. apply negb_true_iff in Hx. unfold is_meta in Hx.
    apply orb_false_iff in Hx as [Hx Hsq]. apply orb_false_iff in Hx as [Hx Hdq].
    apply orb_false_iff in Hx as [Hlt Hgt].
    destruct m; try discriminate; cbn [neutral]; apply negb_true_iff; assumption.
  - (* KDq *)
    cbn [apply_kind]. eapply forallb_impl; [|apply encode_dq_attr_ok].
    intros x Hx. apply negb_true_iff in Hx. unfold dq_bad in Hx.
    apply orb_false_iff in Hx as [Hx Hdq]. apply orb_false_iff in Hx as [Hlt Hgt].
    destruct m; try discriminate; cbn [neutral]; apply negb_true_iff; assumption.
Qed.

Lemma digit_neutral : forall m c, num_ok m = true -> is_digit c = true -> neutral m c = true.
Proof.
  intros m c Hm Hc. unfold is_digit in Hc. apply andb_true_iff in Hc as [H1 H2].
  apply N.leb_le in H1. apply N.leb_le in H2.
  destruct m; try discriminate; cbn [neutral]; apply negb_true_iff; apply N.eqb_neq;
    unfold c_lt, c_dq, c_sq; lia.
Qed.

Lemma num_neutral : forall m n, num_ok m = true -> forallb (neutral m) (dec n) = true.
Proof.
  intros m n H. eapply forallb_impl; [|apply dec_digits]. intros x Hx. now apply digit_neutral.
Qed.

(* ------------------------------------------------------------------ *)
(* C. structure preservation *)

(* the walk of [tpl_ok_from]: literals only *)
Fixpoint walk (st : tst) (t : template) : tst :=
  match t with
  | [] => st
  | Lit s :: t' => walk (fst (tok_run st s)) t'
  | _ :: t' => walk st t'
  end.

Lemma tpl_ok_from_app : forall a b st,
  tpl_ok_from st (a ++ b) = tpl_ok_from st a && tpl_ok_from (walk st a) b.
Proof.
  induction a as [|s a IH]; intros b st; [reflexivity|].
  destruct s; cbn [app tpl_ok_from walk]; rewrite IH; [reflexivity | |]; now rewrite andb_assoc.
Qed.

Lemma walk_app : forall a b st, walk st (a ++ b) = walk (walk st a) b.
Proof.
  induction a as [|s a IH]; intros b st; [reflexivity|].
  destruct s; cbn [app walk]; apply IH.
Qed.

Lemma render_app : forall a b, render (a ++ b) = render a ++ render b.
Proof. intros. unfold render. apply flat_map_app. Qed.

Lemma same_shape_seg_cases : forall x y, same_shape_seg x y = true ->
  (exists s, x = Lit s /\ y = Lit s) \/ (exists n m, x = Num n /\ y = Num m) \/
  (exists k v w, x = Fld k v /\ y = Fld k w).
Proof.
  intros x y H. destruct x as [s|n|k v], y as [s'|n'|k' v'];
    try destruct k; try destruct k'; cbn in H; try discriminate.
  all: try (left; apply str_eqb_eq in H; subst; eauto; fail).
  all: try (right; left; eauto; fail).
  all: right; right; eauto.
Qed.

Lemma structure_gen : forall t1 t2 w s1 s2,
  same_shape t1 t2 = true -> tpl_ok_from w t1 = true -> sim w s1 -> sim w s2 ->
  sim (fst (tok_run s1 (render t1))) (fst (tok_run s2 (render t2))) /\
  skeleton (snd (tok_run s1 (render t1))) = skeleton (snd (tok_run s2 (render t2))).
Proof.
  induction t1 as [|x t1 IH]; intros t2 w s1 s2 Hsh Hok H1 H2.
  - destruct t2; [|discriminate]. cbn. split; [|reflexivity].
    eapply sim_trans; [apply sim_sym; eassumption | assumption].
  - destruct t2 as [|y t2]; [discriminate|]. cbn [same_shape] in Hsh.
    apply andb_true_iff in Hsh as [Hseg Hsh].
    change (render (x :: t1)) with (render_seg x ++ render t1).
    change (render (y :: t2)) with (render_seg y ++ render t2).
    rewrite !tok_run_app. cbn [fst snd]. rewrite !skeleton_app.
    destruct (same_shape_seg_cases _ _ Hseg) as [(s & -> & ->) | [(n & m & -> & ->) | (k & v & v' & -> & ->)]].
    + (* literal: both runs and the walk read the same characters *)
      cbn [tpl_ok_from] in Hok. cbn [render_seg].
      destruct (tok_run_sim s w s1 H1) as [A1 B1]. destruct (tok_run_sim s w s2 H2) as [A2 B2].
      destruct (IH t2 _ _ _ Hsh Hok A1 A2) as [C D]. split; [exact C|]. congruence.
    + (* number *)
      cbn [tpl_ok_from] in Hok. apply andb_true_iff in Hok as [Hm Hok]. cbn [render_seg].
      assert (M1 : t_mode s1 = t_mode w) by (destruct H1; congruence).
      assert (M2 : t_mode s2 = t_mode w) by (destruct H2; congruence).
      destruct (tok_run_neutral (dec n) s1) as [A1 B1]; [rewrite M1; now apply num_neutral|].
      destruct (tok_run_neutral (dec m) s2) as [A2 B2]; [rewrite M2; now apply num_neutral|].
      destruct (IH t2 w _ _ Hsh Hok (sim_trans _ _ _ H1 A1) (sim_trans _ _ _ H2 A2)) as [C D].
      split; [exact C|]. rewrite B1, B2. cbn. exact D.
    + (* escaped field *)
      cbn [tpl_ok_from] in Hok. apply andb_true_iff in Hok as [Hm Hok]. cbn [render_seg].
      assert (M1 : t_mode s1 = t_mode w) by (destruct H1; congruence).
      assert (M2 : t_mode s2 = t_mode w) by (destruct H2; congruence).
      destruct (tok_run_neutral (apply_kind k v) s1) as [A1 B1]; [rewrite M1; now apply kind_ok_neutral|].
      destruct (tok_run_neutral (apply_kind k v') s2) as [A2 B2]; [rewrite M2; now apply kind_ok_neutral|].
      destruct (IH t2 w _ _ Hsh Hok (sim_trans _ _ _ H1 A1) (sim_trans _ _ _ H2 A2)) as [C D].
      split; [exact C|]. rewrite B1, B2. cbn. exact D.
Qed.

Theorem page_structure_preserved : forall t1 t2,
  same_shape t1 t2 = true -> tpl_ok t1 = true -> page_skeleton t1 = page_skeleton t2.
Proof.
  intros t1 t2 Hsh Hok. unfold page_skeleton, tokenise.
  exact (proj2 (structure_gen t1 t2 t0 t0 t0 Hsh Hok (sim_refl _) (sim_refl _))).
Qed.

(* same_shape is compositional *)
Lemma same_shape_app : forall a1 a2 b1 b2,
  same_shape a1 a2 = true -> same_shape b1 b2 = true -> same_shape (a1 ++ b1) (a2 ++ b2) = true.
Proof.
  induction a1 as [|x a1 IH]; intros [|y a2] b1 b2 Ha Hb; cbn in *; try discriminate; [assumption|].
  apply andb_true_iff in Ha as [H1 H2]. rewrite H1. cbn. now apply IH.
Qed.

Lemma same_shape_refl_lits : forall t, (forall x, In x t -> exists s, x = Lit s) -> same_shape t t = true.
Proof.
  induction t as [|x t IH]; intro H; [reflexivity|]. cbn.
  destruct (H x (or_introl eq_refl)) as [s ->]. cbn. rewrite str_eqb_refl. cbn.
  apply IH. intros y Hy. apply H. now right.
Qed.
