(* C12, wire level - proofs about Http/WireModel.v.

   1. What the wire parser delivers is acceptable to the dispatch model ([request_ok]): every theorem of
      DispatchProofs.v that assumes [request_ok] covers every request hyper can hand over, whatever bytes
      the client sent ([wire_delivered_request_ok]).
   2. Hence every answer on every connection is classified: rotonda's handler answers with a status of its
      classification and never panics, hyper answers 400 / 414 / 431, or the connection ends
      ([wire_conn_classified]).
   3. The other direction for origin-form request-targets: a path and a query made of the bytes [request_ok]
      allows, under any method token the http crate takes, IS delivered, as exactly that request
      ([wire_origin_form_delivered]); a byte outside those sets in the path makes hyper refuse the request
      ([uri_parse_origin_refuses]).
   4. A fresh connection that asks for /status gets 200 under every configuration ([wire_status_answers]). *)
From Coq Require Import NArith List Bool Lia.
From RV Require Import Http.DispatchText Http.DispatchModel Http.DispatchProofs Http.WireModel.
Import ListNotations.
Local Open Scope N_scope.
Local Notation length := List.length.

(* ---------------------------------------------------------------- span *)
Lemma span_spec : forall f l a r, span f l = (a, r) ->
  l = a ++ r /\ forallb f a = true /\ match r with [] => True | b :: _ => f b = false end.
Proof.
  intros f l. induction l as [|b t IH]; intros a r H; cbn in H.
  - inversion H; subst. repeat split.
  - destruct (f b) eqn:Fb.
    + destruct (span f t) as [a' r'] eqn:E. inversion H; subst.
      destruct (IH a' r eq_refl) as (H1 & H2 & H3). subst t. repeat split; [cbn; rewrite Fb, H2; reflexivity|exact H3].
    + inversion H; subst. repeat split. exact Fb.
Qed.

Lemma span_exact : forall f a b r, forallb f a = true -> f b = false -> span f (a ++ b :: r) = (a, b :: r).
Proof.
  intros f a b r. induction a as [|x a IH]; intros Ha Hb; cbn.
  - rewrite Hb. reflexivity.
  - cbn in Ha. apply andb_true_iff in Ha as [Hx Ha]. rewrite Hx, (IH Ha Hb). reflexivity.
Qed.

Lemma forallb_impl : forall (f g : N -> bool) l, (forall b, f b = true -> g b = true) -> forallb f l = true -> forallb g l = true.
Proof.
  intros f g l H. induction l as [|b t IH]; cbn; [reflexivity|].
  intro Hl. apply andb_true_iff in Hl as [Hb Ht]. rewrite (H _ Hb), (IH Ht). reflexivity.
Qed.

Lemma rtrim_ws_forallb : forall P v, forallb P v = true -> forallb P (rtrim_ws v) = true.
Proof.
  intros P v. induction v as [|b t IH]; cbn; [reflexivity|].
  intro H. apply andb_true_iff in H as [Hb Ht]. specialize (IH Ht).
  destruct (rtrim_ws t) as [|x t'].
  - destruct (is_ws b); cbn; [reflexivity|rewrite Hb; reflexivity].
  - cbn [forallb]. rewrite Hb. exact IH.
Qed.

(* ---------------------------------------------------------------- byte classes *)
Lemma in_rng_iff : forall lo hi b, in_rng lo hi b = true <-> lo <= b <= hi.
Proof. intros. unfold in_rng. rewrite andb_true_iff, !N.leb_le. tauto. Qed.

Lemma hval_tok_hv_byte_ok : forall b, hval_tok b = true -> hv_byte_ok b = true.
Proof.
  intros b H. unfold hval_tok in H. unfold hv_byte_ok.
  apply orb_true_iff in H as [H|H]; [apply orb_true_iff in H as [H|H]|].
  - rewrite H. reflexivity.
  - apply in_rng_iff in H. apply orb_true_iff. right. apply andb_true_iff. split.
    + apply in_rng_iff. lia.
    + apply negb_true_iff, N.eqb_neq. lia.
  - apply in_rng_iff in H. apply orb_true_iff. right. apply andb_true_iff. split.
    + apply in_rng_iff. lia.
    + apply negb_true_iff, N.eqb_neq. lia.
Qed.

(* ---------------------------------------------------------------- header lines *)
Lemma parse_header_line_ok : forall l n v r, parse_header_line l = WOk (n, v) r -> forallb hv_byte_ok v = true.
Proof.
  intros l n v r H. unfold parse_header_line in H.
  destruct (span tchar l) as [name r0]. destruct r0 as [|b r1]; [discriminate|].
  destruct (negb (b =? 58)); [discriminate|].
  destruct (drop_while is_ws r1) as [|c r3] eqn:Ed; [discriminate|].
  destruct (hval_tok c) eqn:Hc.
  - destruct (span hval_tok (c :: r3)) as [v0 r4] eqn:Es. apply span_spec in Es as (_ & Hv & _).
    assert (Hok : forallb hv_byte_ok (rtrim_ws v0) = true).
    { apply rtrim_ws_forallb. eapply forallb_impl; [exact hval_tok_hv_byte_ok|exact Hv]. }
    destruct r4 as [|d r5]; [discriminate|].
    destruct (d =? 13).
    + destruct r5 as [|e r6]; [discriminate|]. destruct (e =? 10); [|discriminate]. inversion H; subst. exact Hok.
    + destruct (d =? 10); [|discriminate]. inversion H; subst. exact Hok.
  - destruct (c =? 13).
    + destruct r3 as [|e r6]; [discriminate|]. destruct (e =? 10); [|discriminate]. inversion H; subst. reflexivity.
    + destruct (c =? 10); [|discriminate]. inversion H; subst. reflexivity.
Qed.

Lemma parse_headers_ok : forall fuel n l hs r, parse_headers fuel n l = WOk hs r ->
  forallb (fun h => forallb hv_byte_ok (snd h)) hs = true.
Proof.
  induction fuel as [|fuel IH]; intros n l hs r H; cbn in H; [discriminate|].
  destruct l as [|b t]; [discriminate|].
  destruct (b =? 13).
  { destruct t as [|c t']; [discriminate|]. destruct (c =? 10); [|discriminate]. inversion H; subst. reflexivity. }
  destruct (b =? 10). { inversion H; subst. reflexivity. }
  destruct (negb (tchar b)); [discriminate|].
  destruct (parse_header_line (b :: t)) as [[hn hv] r1| |c] eqn:El; try discriminate.
  destruct (max_headers <=? n); [discriminate|].
  destruct (parse_headers fuel (n + 1) r1) as [hs' r'| |c] eqn:Er; try discriminate.
  inversion H; subst. cbn [forallb snd]. rewrite (parse_header_line_ok _ _ _ _ El), (IH _ _ _ _ Er). reflexivity.
Qed.

Lemma parse_head_ok : forall l h r, parse_head l = WOk h r ->
  forallb (fun nv => forallb hv_byte_ok (snd nv)) (rh_headers h) = true.
Proof.
  intros l h r H. unfold parse_head in H.
  destruct (skip_empty l) as [[] l1| |]; try discriminate.
  destruct (parse_method l1) as [m l2| |]; try discriminate.
  destruct (parse_target l2) as [u l3| |]; try discriminate.
  destruct (parse_version l3) as [v l4| |]; try discriminate.
  destruct (parse_newline l4) as [[] l5| |]; try discriminate.
  destruct (parse_headers (S (length l5)) 0 l5) as [hs l6| |] eqn:E; try discriminate.
  inversion H; subst. cbn [rh_headers]. exact (parse_headers_ok _ _ _ _ _ E).
Qed.

(* ---------------------------------------------------------------- http::Uri *)
Lemma pq_query_ok : forall l q, pq_query l = Some q -> forallb query_byte_ok q = true.
Proof.
  induction l as [|b t IH]; intros q H; cbn in H.
  - inversion H; subst. reflexivity.
  - destruct (b =? 35). { inversion H; subst. reflexivity. }
    destruct (query_byte_ok b) eqn:Hb; [|discriminate].
    destruct (pq_query t) as [q'|]; [|discriminate]. inversion H; subst.
    cbn. rewrite Hb, (IH _ eq_refl). reflexivity.
Qed.

Definition query_ok (q : option bytes) : bool := match q with None => true | Some q => forallb query_byte_ok q end.

Lemma pq_parse_ok : forall l p q, pq_parse l = Some (p, q) ->
  forallb path_byte_ok p = true /\ query_ok q = true /\
  (* the path is a prefix of the input: its first byte, if any, is the first byte of the input *)
  match p with [] => True | x :: _ => exists t, l = x :: t end.
Proof.
  induction l as [|b t IH]; intros p q H; cbn in H.
  - inversion H; subst. repeat split.
  - destruct (b =? 63).
    { destruct (pq_query t) as [q'|] eqn:Eq; [|discriminate]. inversion H; subst.
      repeat split. cbn. exact (pq_query_ok _ _ Eq). }
    destruct (b =? 35). { inversion H; subst. repeat split. }
    destruct (path_byte_ok b) eqn:Hb; [|discriminate].
    destruct (pq_parse t) as [[p' q']|] eqn:E; [|discriminate]. inversion H; subst.
    destruct (IH _ _ eq_refl) as (Hp & Hq & _). split; [cbn; rewrite Hb, Hp; reflexivity|]. split; [exact Hq|].
    exists t. reflexivity.
Qed.

(* the authority ends at the end of the input or in front of '/', '?' or '#' *)
Lemma auth_scan_stop : forall l st pos e st', auth_scan l st pos = Some (e, st') ->
  exists k, e = (pos + k)%nat /\
            match skipn k l with [] => True | b :: _ => (b =? 47) || (b =? 63) || (b =? 35) = true end.
Proof.
  induction l as [|b t IH]; intros st pos e st' H; cbn in H.
  - inversion H; subst. exists O. split; [lia|exact I].
  - destruct ((b =? 47) || (b =? 63) || (b =? 35)) eqn:Stop.
    { inversion H; subst. exists O. split; [lia|]. cbn. exact Stop. }
    assert (Hrec : forall st1, auth_scan t st1 (S pos) = Some (e, st') ->
                   exists k, e = (pos + k)%nat /\
                             match skipn k (b :: t) with [] => True | b0 :: _ => (b0 =? 47) || (b0 =? 63) || (b0 =? 35) = true end).
    { intros st1 H1. destruct (IH _ _ _ _ H1) as (k & Hk & Hs). exists (S k). split; [lia|]. cbn [skipn]. exact Hs. }
    destruct (b =? 58). { destruct (8 <=? au_colons st); [discriminate|]. eapply Hrec; exact H. }
    destruct (b =? 91). { destruct (au_pct st || au_open st); [discriminate|]. eapply Hrec; exact H. }
    destruct (b =? 93). { destruct (negb (au_open st) || au_close st); [discriminate|]. eapply Hrec; exact H. }
    destruct (b =? 64). { eapply Hrec; exact H. }
    destruct (b =? 37). { eapply Hrec; exact H. }
    destruct (uri_char b); [|discriminate]. eapply Hrec; exact H.
Qed.

Lemma auth_end_stop : forall l e, auth_end l = Some e ->
  match skipn e l with [] => True | b :: _ => (b =? 47) || (b =? 63) || (b =? 35) = true end.
Proof.
  intros l e H. unfold auth_end in H.
  destruct (auth_scan l (MkAu 0 false false false false) 0) as [[e' st]|] eqn:E; [|discriminate].
  destruct (xorb (au_open st) (au_close st)); [discriminate|].
  destruct (1 <? au_colons st); [discriminate|].
  destruct (au_at_last st); [discriminate|].
  destruct (au_pct st); [discriminate|]. inversion H; subst.
  destruct (auth_scan_stop _ _ _ _ _ E) as (k & Hk & Hs). cbn in Hk. subst. exact Hs.
Qed.

Lemma path_shape_slash : path_shape_ok k_slash = true. Proof. reflexivity. Qed.

(* a path taken from the front of bytes that start with '/', '?' or '#' starts with '/' *)
Lemma pq_parse_shape : forall l p q, pq_parse l = Some (p, q) ->
  match l with [] => True | b :: _ => (b =? 47) || (b =? 63) || (b =? 35) = true end ->
  path_shape_ok (pq_path p) = true /\ forallb path_byte_ok (pq_path p) = true /\ query_ok q = true.
Proof.
  intros l p q H Hl. destruct (pq_parse_ok _ _ _ H) as (Hp & Hq & Hfirst).
  destruct p as [|x p'].
  - cbn [pq_path]. split; [reflexivity|]. split; [reflexivity|exact Hq].
  - cbn [pq_path]. destruct Hfirst as (t & ->). split; [|split; [exact Hp|exact Hq]].
    (* x is the first byte of the input and a path byte: it is not '?' or '#', so it is '/' *)
    cbn in H. destruct (x =? 63) eqn:E63.
    { destruct (pq_query t); [inversion H|discriminate]. }
    destruct (x =? 35) eqn:E35; [inversion H|].
    rewrite !orb_false_r in Hl. apply N.eqb_eq in Hl. subst x. reflexivity.
Qed.

Theorem uri_parse_ok : forall u p q, uri_parse u = Some (p, q) ->
  path_shape_ok p = true /\ forallb path_byte_ok p = true /\ query_ok q = true.
Proof.
  intros u p q H. unfold uri_parse in H. destruct u as [|b t]; [discriminate|].
  destruct (b =? 47) eqn:E47.
  { destruct (pq_parse (b :: t)) as [[p' q']|] eqn:E; [|discriminate]. inversion H; subst.
    apply (pq_parse_shape _ _ _ E). cbn. rewrite E47. reflexivity. }
  destruct ((b =? 42) && match t with [] => true | _ => false end).
  { inversion H; subst. repeat split. }
  destruct (scheme_len (b :: t)) as [[|n]|]; [| |discriminate].
  - destruct (auth_end (b :: t)) as [e|]; [|discriminate].
    destruct (Nat.eqb e (length (b :: t))); [|discriminate]. inversion H; subst. repeat split.
  - set (rest := skipn (S n) (b :: t)) in *.
    destruct (auth_end rest) as [[|e]|] eqn:Ea; try discriminate.
    destruct (pq_parse (skipn (S e) rest)) as [[p' q']|] eqn:E; [|discriminate]. inversion H; subst.
    apply (pq_parse_shape _ _ _ E). exact (auth_end_stop _ _ Ea).
Qed.

(* ---------------------------------------------------------------- 1. delivered => acceptable *)
Lemma hyper_accept_request_ok : forall h d,
  forallb (fun nv => forallb hv_byte_ok (snd nv)) (rh_headers h) = true ->
  hyper_accept h = inr d -> request_ok (dl_req d) = true.
Proof.
  intros h d Hh H. unfold hyper_accept in H.
  destruct (max_uri_len <? blen (rh_target h)); [discriminate|].
  destruct (negb (forallb method_char (rh_method h))); [discriminate|].
  destruct (uri_parse (rh_target h)) as [[p q]|] eqn:Eu; [|discriminate].
  destruct (existsb _ (rh_headers h)); [discriminate|].
  destruct (framing (rh_v11 h) (rh_headers h) _) as [code st].
  destruct (negb (code =? 0)); [discriminate|]. inversion H; subst. cbn [dl_req].
  destruct (uri_parse_ok _ _ _ Eu) as (Hs & Hp & Hq).
  unfold request_ok. cbn [rq_path rq_query rq_headers]. rewrite Hs, Hp, Hh. cbn.
  destruct q as [q|]; [cbn in Hq; rewrite Hq|]; reflexivity.
Qed.

Theorem wire_delivered_request_ok : forall l d rest,
  wire_parse l = WOk d rest -> request_ok (dl_req d) = true.
Proof.
  intros l d rest H. unfold wire_parse in H.
  destruct (parse_head l) as [h r| |] eqn:E; try discriminate.
  destruct (hyper_accept h) as [c|d'] eqn:Ea; [discriminate|]. inversion H; subst.
  exact (hyper_accept_request_ok _ _ (parse_head_ok _ _ _ E) Ea).
Qed.

(* the codes hyper answers with on its own *)
Definition hyper_code (c : N) : Prop := c = 400 \/ c = 414 \/ c = 431.

Lemma parse_method_code : forall l c, parse_method l = WBad c -> c = 400.
Proof.
  intros l c H. unfold parse_method in H. destruct (span tchar l) as [m r].
  destruct m; [destruct l; [discriminate|inversion H; reflexivity]|].
  destruct r as [|b r']; [discriminate|]. destruct (b =? 32); [discriminate|inversion H; reflexivity].
Qed.

Lemma skip_empty_code : forall l c, skip_empty l = WBad c -> c = 400.
Proof.
  fix IH 1. intros l c H. destruct l as [|b t]; cbn in H; [discriminate|].
  destruct (b =? 13).
  - destruct t as [|x t']; [discriminate|]. destruct (x =? 10); [exact (IH t' c H)|inversion H; reflexivity].
  - destruct (b =? 10); [exact (IH t c H)|discriminate].
Qed.

Lemma parse_header_line_code : forall l c, parse_header_line l = WBad c -> c = 400.
Proof.
  intros l c H. unfold parse_header_line in H.
  destruct (span tchar l) as [name r0]. destruct r0 as [|b r1]; [discriminate|].
  destruct (negb (b =? 58)); [inversion H; reflexivity|].
  destruct (drop_while is_ws r1) as [|x r3]; [discriminate|].
  destruct (hval_tok x).
  - destruct (span hval_tok (x :: r3)) as [v0 r4]. destruct r4 as [|d r5]; [discriminate|].
    destruct (d =? 13).
    + destruct r5 as [|e r6]; [discriminate|]. destruct (e =? 10); [discriminate|inversion H; reflexivity].
    + destruct (d =? 10); [discriminate|inversion H; reflexivity].
  - destruct (x =? 13).
    + destruct r3 as [|e r6]; [discriminate|]. destruct (e =? 10); [discriminate|inversion H; reflexivity].
    + destruct (x =? 10); [discriminate|inversion H; reflexivity].
Qed.

Lemma parse_headers_code : forall fuel n l c, parse_headers fuel n l = WBad c -> c = 400 \/ c = 431.
Proof.
  induction fuel as [|fuel IH]; intros n l c H; cbn in H; [discriminate|].
  destruct l as [|b t]; [discriminate|].
  destruct (b =? 13).
  { destruct t as [|x t']; [discriminate|]. destruct (x =? 10); [discriminate|inversion H; auto]. }
  destruct (b =? 10); [discriminate|].
  destruct (negb (tchar b)); [inversion H; auto|].
  destruct (parse_header_line (b :: t)) as [[hn hv] r1| |c'] eqn:El.
  - destruct (max_headers <=? n); [inversion H; auto|].
    destruct (parse_headers fuel (n + 1) r1) as [hs' r'| |c''] eqn:Er; try discriminate.
    inversion H; subst. exact (IH _ _ _ Er).
  - discriminate.
  - inversion H; subst. left. exact (parse_header_line_code _ _ El).
Qed.

Lemma parse_head_code : forall l c, parse_head l = WBad c -> c = 400 \/ c = 431.
Proof.
  intros l c H. unfold parse_head in H.
  destruct (skip_empty l) as [[] l1| |c0] eqn:E0; try discriminate; [|inversion H; subst; left; exact (skip_empty_code _ _ E0)].
  destruct (parse_method l1) as [m l2| |c1] eqn:E1; try discriminate; [|inversion H; subst; left; exact (parse_method_code _ _ E1)].
  destruct (parse_target l2) as [u l3| |c2] eqn:E2; try discriminate.
  2:{ inversion H; subst. left. unfold parse_target in E2. destruct (span uri_tok l2) as [u r]. destruct r as [|b r']; [discriminate|].
      destruct ((b =? 32) && negb match u with [] => true | _ => false end && utf8_valid u); [discriminate|inversion E2; reflexivity]. }
  destruct (parse_version l3) as [v l4| |c3] eqn:E3; try discriminate.
  2:{ inversion H; subst. left. unfold parse_version in E3. destruct (8 <=? blen l3).
      - destruct (starts_with k_http11 l3); [discriminate|]. destruct (starts_with k_http10 l3); [discriminate|inversion E3; reflexivity].
      - destruct (starts_with (firstn 7 l3) k_http1dot); [discriminate|inversion E3; reflexivity]. }
  destruct (parse_newline l4) as [[] l5| |c4] eqn:E4; try discriminate.
  2:{ inversion H; subst. left. unfold parse_newline in E4. destruct l4 as [|b t]; [discriminate|].
      destruct (b =? 13).
      - destruct t as [|x t']; [discriminate|]. destruct (x =? 10); [discriminate|inversion E4; reflexivity].
      - destruct (b =? 10); [discriminate|inversion E4; reflexivity]. }
  destruct (parse_headers (S (length l5)) 0 l5) as [hs l6| |c5] eqn:E5; try discriminate.
  inversion H; subst. exact (parse_headers_code _ _ _ _ E5).
Qed.

Lemma framing_code : forall v11 hs st c st', framing v11 hs st = (c, st') -> c = 0 \/ c = 400 \/ c = 431.
Proof.
  intros v11 hs. induction hs as [|[n v] t IH]; intros st c st' H; cbn in H.
  - destruct (fr_te st && negb (fr_chunked st)); inversion H; auto.
  - destruct (beqb_nocase n k_transfer_encoding).
    { destruct (negb v11); [inversion H; auto|]. exact (IH _ _ _ H). }
    destruct (beqb_nocase n k_content_length).
    { destruct (fr_te st); [exact (IH _ _ _ H)|].
      destruct (from_digits v) as [len|]; [|inversion H; auto].
      destruct (fr_len st) as [prev|].
      - destruct (prev =? len); [exact (IH _ _ _ H)|inversion H; auto].
      - match type of H with (if ?b then _ else _) = _ => destruct b end; [inversion H; auto|exact (IH _ _ _ H)]. }
    destruct (beqb_nocase n k_connection); exact (IH _ _ _ H).
Qed.

Lemma wire_parse_code : forall l c, wire_parse l = WBad c -> hyper_code c.
Proof.
  intros l c H. unfold wire_parse in H. unfold hyper_code.
  destruct (parse_head l) as [h r| |c0] eqn:E; try discriminate.
  - destruct (hyper_accept h) as [c1|d] eqn:Ea; [|discriminate]. inversion H; subst.
    unfold hyper_accept in Ea.
    destruct (max_uri_len <? blen (rh_target h)); [inversion Ea; auto|].
    destruct (negb (forallb method_char (rh_method h))); [inversion Ea; auto|].
    destruct (uri_parse (rh_target h)) as [[p q]|]; [|inversion Ea; auto].
    destruct (existsb _ (rh_headers h)); [inversion Ea; auto|].
    destruct (framing (rh_v11 h) (rh_headers h) _) as [code st] eqn:Ef.
    destruct (code =? 0) eqn:Ec; cbn [negb] in Ea; [discriminate|]. inversion Ea; subst.
    destruct (framing_code _ _ _ _ _ Ef) as [->|[->| ->]]; [discriminate|auto|auto].
  - inversion H; subst. destruct (parse_head_code _ _ E); auto.
Qed.

(* ---------------------------------------------------------------- 2. every answer is classified *)
Definition answer_classified (c : config) (a : wanswer) : Prop :=
  match a with
  | AResp o => exists code gz, o = Resp code gz /\ In code (200 :: 400 :: 404 :: 405 :: stub_codes (cf_sources c))
  | AEither o code' => (exists code gz, o = Resp code gz /\ In code (200 :: 400 :: 404 :: 405 :: stub_codes (cf_sources c))) /\ code' = 431
  | AHyper code => hyper_code code
  | AHyper2 code code' => hyper_code code /\ code' = 431
  | ANone => True
  | AUnknown => True
  end.

Lemma wire_stream_classified : forall lv c fuel l,
  Forall (answer_classified c) (map (answer_of lv c) (wire_stream fuel l)).
Proof.
  intros lv c. induction fuel as [|fuel IH]; intro l; cbn [wire_stream].
  - apply Forall_cons; [exact I|apply Forall_nil].
  - destruct (starts_with k_h2_preface l); [apply Forall_cons; [exact I|apply Forall_nil]|].
    destruct (wire_parse l) as [d rest| |code] eqn:E.
    + pose proof (handle_total_classified lv c _ (wire_delivered_request_ok _ _ _ E)) as Hc.
      assert (Hev : answer_classified c (answer_of lv c (if max_buf <? blen l - blen rest then EBig d else EDeliver d))).
      { destruct (max_buf <? blen l - blen rest); cbn; [split; [exact Hc|reflexivity]|exact Hc]. }
      destruct (dl_body d); [apply Forall_cons; [exact Hev|apply Forall_cons; [exact I|apply Forall_nil]]|].
      destruct (dl_keep d); cbn [map].
      * apply Forall_cons; [exact Hev|apply IH].
      * apply Forall_cons; [exact Hev|apply Forall_cons; [exact I|apply Forall_nil]].
    + destruct (max_buf <=? blen l); cbn [map answer_of].
      * apply Forall_cons; [cbn; unfold hyper_code; auto|apply Forall_nil].
      * apply Forall_cons; [exact I|apply Forall_nil].
    + pose proof (wire_parse_code _ _ E) as Hc.
      destruct (max_buf <? blen l); cbn [map answer_of].
      * apply Forall_cons; [cbn; split; [exact Hc|reflexivity]|apply Forall_nil].
      * apply Forall_cons; [exact Hc|apply Forall_nil].
Qed.

Theorem wire_conn_classified : forall lv c l,
  Forall (answer_classified c) (map (answer_of lv c) (wire_conn l)).
Proof. intros. apply wire_stream_classified. Qed.

(* in particular: no bytes make the handler panic *)
Theorem wire_never_panics : forall lv c l, ~ In (AResp Panic) (map (answer_of lv c) (wire_conn l)).
Proof.
  intros lv c l Hin. pose proof (wire_conn_classified lv c l) as H. rewrite Forall_forall in H.
  specialize (H _ Hin). cbn in H. destruct H as (code & gz & H & _). discriminate.
Qed.

(* ---------------------------------------------------------------- 3. origin-form: what request_ok allows is delivered *)
Ltac orcases H :=
  repeat match type of H with
         | (_ || _) = true => apply orb_true_iff in H; destruct H as [H|H]
         end;
  try (apply in_rng_iff in H); try (apply N.eqb_eq in H).

Lemma method_char_facts : forall b, method_char b = true ->
  tchar b = true /\ (b =? 13) = false /\ (b =? 10) = false.
Proof.
  intros b H. split.
  - unfold method_char in H. unfold tchar.
    orcases H; repeat (apply orb_true_iff; (right; (apply in_rng_iff || apply N.eqb_eq); lia) || left);
      try ((apply in_rng_iff || apply N.eqb_eq); lia).
  - unfold method_char in H. split; apply N.eqb_neq; orcases H; lia.
Qed.

Lemma path_byte_facts : forall b, path_byte_ok b = true ->
  uri_tok b = true /\ (b <? 128) = true /\ (b =? 63) = false /\ (b =? 35) = false.
Proof.
  intros b H. unfold path_byte_ok in H.
  assert (R : 33 <= b <= 126 /\ b <> 63 /\ b <> 35) by (orcases H; lia).
  destruct R as (R1 & R2 & R3). repeat split.
  - unfold uri_tok. apply orb_true_iff. left. apply in_rng_iff. exact R1.
  - apply N.ltb_lt. lia.
  - apply N.eqb_neq. exact R2.
  - apply N.eqb_neq. exact R3.
Qed.

Lemma query_byte_facts : forall b, query_byte_ok b = true ->
  uri_tok b = true /\ (b <? 128) = true /\ (b =? 35) = false.
Proof.
  intros b H. unfold query_byte_ok in H.
  assert (R : 33 <= b <= 126 /\ b <> 35) by (orcases H; lia).
  destruct R as (R1 & R2). repeat split.
  - unfold uri_tok. apply orb_true_iff. left. apply in_rng_iff. exact R1.
  - apply N.ltb_lt. lia.
  - apply N.eqb_neq. exact R2.
Qed.

Lemma utf8_lossy_ascii : forall s, forallb (fun b => b <? 128) s = true -> utf8_lossy s = s.
Proof.
  induction s as [|b t IH]; intro H; [reflexivity|].
  cbn [forallb] in H. apply andb_true_iff in H as [Hb Ht]. cbn [utf8_lossy]. rewrite Hb, (IH Ht). reflexivity.
Qed.

Lemma beqb_same : forall s, beqb s s = true.
Proof. induction s as [|b t IH]; cbn; [reflexivity|]. rewrite N.eqb_refl, IH. reflexivity. Qed.

Lemma utf8_valid_ascii : forall s, forallb (fun b => b <? 128) s = true -> utf8_valid s = true.
Proof. intros s H. unfold utf8_valid. rewrite (utf8_lossy_ascii s H). apply beqb_same. Qed.

Definition qpart (q : option bytes) : bytes := match q with Some q => 63 :: q | None => [] end.

Lemma pq_query_complete : forall q, forallb query_byte_ok q = true -> pq_query q = Some q.
Proof.
  induction q as [|b t IH]; intro H; [reflexivity|].
  cbn [forallb] in H. apply andb_true_iff in H as [Hb Ht]. cbn [pq_query].
  destruct (query_byte_facts _ Hb) as (_ & _ & E35). rewrite E35, Hb, (IH Ht). reflexivity.
Qed.

Lemma pq_parse_complete : forall p q, forallb path_byte_ok p = true -> query_ok q = true ->
  pq_parse (p ++ qpart q) = Some (p, q).
Proof.
  induction p as [|b t IH]; intros q Hp Hq.
  - destruct q as [q|]; cbn; [|reflexivity]. cbn in Hq. rewrite (pq_query_complete _ Hq). reflexivity.
  - cbn [forallb] in Hp. apply andb_true_iff in Hp as [Hb Ht]. cbn [app pq_parse].
    destruct (path_byte_facts _ Hb) as (_ & _ & E63 & E35). rewrite E63, E35, Hb, (IH _ Ht Hq). reflexivity.
Qed.

Lemma parse_version_11 : forall r, parse_version (k_http11 ++ r) = WOk true r.
Proof.
  intro r. unfold parse_version.
  assert (H : (8 <=? blen (k_http11 ++ r)) = true).
  { apply N.leb_le. unfold blen. rewrite app_length. cbn [length k_http11]. lia. }
  rewrite H. reflexivity.
Qed.

Theorem wire_origin_form_delivered : forall m p q rest,
  m <> [] -> forallb method_char m = true ->
  starts_with [47] p = true -> forallb path_byte_ok p = true -> query_ok q = true ->
  blen (p ++ qpart q) <= max_uri_len ->
  wire_parse (render_origin m p q ++ [13; 10] ++ rest) =
    WOk (MkDel m (MkReq (if beqb m k_get then 0 else 1) p q []) true false) rest.
Proof.
  intros m p q rest Hm Hmc Hs Hp Hq Hlen.
  assert (Htarget : render_origin m p q ++ [13; 10] ++ rest =
                    m ++ 32 :: (p ++ qpart q) ++ 32 :: k_http11 ++ 13 :: 10 :: 13 :: 10 :: rest).
  { unfold render_origin, qpart. destruct q; repeat (rewrite <- app_assoc; cbn [app]); reflexivity. }
  rewrite Htarget. clear Htarget.
  set (u := p ++ qpart q) in *.
  assert (Hu : forallb uri_tok u = true /\ forallb (fun b => b <? 128) u = true).
  { unfold u. rewrite !forallb_app. split.
    - rewrite (forallb_impl path_byte_ok uri_tok p (fun b H => proj1 (path_byte_facts b H)) Hp).
      destruct q as [q|]; cbn; [|reflexivity]. cbn in Hq.
      rewrite (forallb_impl query_byte_ok uri_tok q (fun b H => proj1 (query_byte_facts b H)) Hq). reflexivity.
    - rewrite (forallb_impl path_byte_ok _ p (fun b H => proj1 (proj2 (path_byte_facts b H))) Hp).
      destruct q as [q|]; cbn; [|reflexivity]. cbn in Hq.
      rewrite (forallb_impl query_byte_ok _ q (fun b H => proj1 (proj2 (query_byte_facts b H))) Hq). reflexivity. }
  destruct Hu as (Hu1 & Hu2).
  assert (Hune : u <> []). { unfold u. destruct p; [discriminate|discriminate]. }
  assert (Hudef : u = p ++ qpart q) by reflexivity. clearbody u.
  unfold wire_parse, parse_head.
  (* empty lines: none *)
  destruct m as [|b m']; [contradiction|].
  cbn [forallb] in Hmc. pose proof Hmc as Hmc'. apply andb_true_iff in Hmc' as [Hb Hm'].
  destruct (method_char_facts _ Hb) as (Htb & E13 & E10).
  cbn [app skip_empty]. rewrite E13, E10.
  (* method *)
  assert (Hsp : span tchar ((b :: m') ++ 32 :: u ++ 32 :: k_http11 ++ 13 :: 10 :: 13 :: 10 :: rest) =
                (b :: m', 32 :: u ++ 32 :: k_http11 ++ 13 :: 10 :: 13 :: 10 :: rest)).
  { apply span_exact; [|reflexivity].
    apply (forallb_impl method_char tchar); [intros x Hx; exact (proj1 (method_char_facts x Hx))|exact Hmc]. }
  unfold parse_method. cbn [app] in Hsp. rewrite Hsp. cbn [N.eqb Pos.eqb].
  (* target *)
  unfold parse_target. rewrite (span_exact uri_tok u 32 _ Hu1 eq_refl). cbn [N.eqb Pos.eqb andb].
  rewrite (utf8_valid_ascii u Hu2). destruct u as [|u0 u']; [contradiction|]. cbn [negb andb].
  (* version, end of line, no header lines *)
  rewrite parse_version_11. cbn [parse_newline N.eqb Pos.eqb].
  cbn [parse_headers length N.eqb Pos.eqb].
  (* hyper *)
  unfold hyper_accept. cbn [rh_target rh_method rh_headers rh_v11 existsb].
  assert (Hl : (max_uri_len <? blen (u0 :: u')) = false) by (apply N.ltb_ge; exact Hlen).
  rewrite Hl. cbn [forallb]. rewrite Hmc. cbn [negb].
  assert (Hup : uri_parse (u0 :: u') = Some (p, q)).
  { destruct p as [|x p']; [discriminate|]. cbn [starts_with] in Hs. rewrite andb_true_r in Hs. apply N.eqb_eq in Hs. subst x.
    rewrite Hudef. change ((47 :: p') ++ qpart q) with (47 :: (p' ++ qpart q)). unfold uri_parse. cbn [N.eqb Pos.eqb].
    change (47 :: (p' ++ qpart q)) with ((47 :: p') ++ qpart q).
    rewrite (pq_parse_complete (47 :: p') q Hp Hq). reflexivity. }
  rewrite Hup. cbn. reflexivity.
Qed.

(* a byte in the path that the http crate does not take makes hyper refuse the request (400): on the wire, too,
   nothing outside [path_byte_ok] reaches the handler in an origin-form path *)
Lemma pq_parse_refuses : forall pre b post, forallb path_byte_ok pre = true ->
  path_byte_ok b = false -> (b =? 63) = false -> (b =? 35) = false -> pq_parse (pre ++ b :: post) = None.
Proof.
  induction pre as [|x t IH]; intros b post Hpre Hb E63 E35.
  - cbn. rewrite E63, E35, Hb. reflexivity.
  - cbn [forallb] in Hpre. apply andb_true_iff in Hpre as [Hx Ht]. cbn [app pq_parse].
    destruct (path_byte_facts _ Hx) as (_ & _ & X63 & X35). rewrite X63, X35, Hx, (IH _ _ Ht Hb E63 E35). reflexivity.
Qed.

Theorem uri_parse_origin_refuses : forall pre b post, forallb path_byte_ok pre = true ->
  path_byte_ok b = false -> (b =? 63) = false -> (b =? 35) = false ->
  uri_parse (47 :: pre ++ b :: post) = None.
Proof.
  intros pre b post Hpre Hb E63 E35. unfold uri_parse. cbn [N.eqb Pos.eqb].
  change (47 :: pre ++ b :: post) with ((47 :: pre) ++ b :: post).
  rewrite (pq_parse_refuses (47 :: pre) b post); [reflexivity| |exact Hb|exact E63|exact E35].
  cbn [forallb]. rewrite Hpre. reflexivity.
Qed.

(* ---------------------------------------------------------------- 4. the server keeps answering *)
Theorem wire_status_answers : forall lv c,
  exists d gz, wire_conn status_request = [EDeliver d; EWait] /\ handle lv c (dl_req d) = Resp 200 gz.
Proof.
  intros lv c.
  destruct (status_answers_in_any_config lv c [] eq_refl) as (gz & Hgz).
  eexists. exists gz. split; [vm_compute; reflexivity|exact Hgz].
Qed.
