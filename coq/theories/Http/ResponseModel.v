(* C19 - the RESPONSES of the BMP unit's HTTP endpoints (definitions only):
   status, content type and a body whose fragments are tagged by origin, for
   every answer of the router list (200 page, 400 for a rejected sort_by /
   sort_order value) and of the router info endpoint (200 page; None = the
   processor declines and the server answers its own 404).

   Mirrors (rotonda, src/units/bmp_tcp_in/http/):
     router_list/request.rs  process_request (path test, get_param sort_by / sort_order),
                             sort_routers (the two Err(format!("Unknown value '{}' for query parameter ..")) answers),
                             the hand-built 400 response with `Content-Type: text/plain`
     router_list/response.rs, router_info/response.rs   `Content-Type: text/html` on the pages
     src/http.rs             MatchedParam::parse (name up to the first '[' or ']'), get_param (first match)

   A request is the percent-decoded path and the decoded query pairs, i.e. what
   `Uri::decoded_path` and `form_urlencoded::parse` hand to the processor: lists
   of Unicode scalar values (any byte string decodes to one). *)
From Coq Require Import NArith List Bool String Ascii.
From RV Require Import Http.EscapeModel.
Import ListNotations.
Local Open Scope N_scope.

Inductive origin :=
| FromTemplate   (* text of the program *)
| FromState      (* router-supplied text (TLVs, parse errors), numbers *)
| FromRequest.   (* text taken from the request: path segments, query values *)

Inductive ctype :=
| CtHtml         (* Content-Type: text/html *)
| CtPlain        (* Content-Type: text/plain *)
| CtAbsent       (* no Content-Type header: clients sniff *)
| CtOther.       (* anything else *)

(* may a client render the body as markup? Everything but text/plain is
   treated as "yes" (absent: sniffed; other types: not judged finer). *)
Definition sniffable (c : ctype) : bool := match c with CtPlain => false | _ => true end.

Definition tagged := list (origin * seg).
Record response := MkResp { rs_status : N; rs_ctype : ctype; rs_body : tagged }.

Definition untag (b : tagged) : template := map snd b.
Definition body_text (r : response) : str := render (untag (rs_body r)).

(* the two pages of EscapeModel: the fields written with
   encode_double_quoted_attribute are the path (configured api path = the
   request path for the list; api path ++ requested router segment for the info
   page), every other field is router text *)
Definition tag_seg (s : seg) : origin * seg :=
  match s with
  | Fld KDq _ => (FromRequest, s)
  | Fld _ _ => (FromState, s)
  | Num _ => (FromState, s)
  | Lit _ => (FromTemplate, s)
  end.
Definition tag_page (t : template) : tagged := map tag_seg t.

(* the request-derived fragments of a response *)
Definition reflected (r : response) : list (kind * str) :=
  flat_map (fun f => match f with (FromRequest, Fld k v) => [(k, v)] | _ => [] end) (rs_body r).

(* ---------------------------------------------------------------- query parameters *)
Definition is_bracket (c : N) : bool := (c =? 91) || (c =? 93).
Fixpoint param_key (name : str) : str :=
  match name with
  | [] => []
  | c :: t => if is_bracket c then [] else c :: param_key t
  end.
Fixpoint get_param (needle : str) (ps : list (str * str)) : option str :=
  match ps with
  | [] => None
  | (n, v) :: t => if str_eqb (param_key n) needle then Some v else get_param needle t
  end.

Definition sort_by_keys : list str :=
  [$ "addr"; $ "sys_name"; $ "sys_desc"; $ "state"; $ "peers_up"; $ "peers_up_eor_capable"; $ "peers_up_dumping";
   $ "peers_up_eor_capable_pc"; $ "peers_up_dumping_pc"; $ "invalid_messages"; $ "soft_parse_errors"; $ "hard_parse_errors"].
Definition sort_order_keys : list str := [$ "asc"; $ "desc"].

(* format!("Unknown value '{}' for query parameter 'sort_by'", other): the value as it is *)
Definition err_body (v which : str) : tagged :=
  [(FromTemplate, Lit ($ "Unknown value '")); (FromRequest, Fld KRaw v);
   (FromTemplate, Lit ($ "' for query parameter '")); (FromTemplate, Lit which); (FromTemplate, Lit ($ "'"))].

(* [err_ct]: the content type of the 400 answer. The code as it is: text/plain.
   (Which permutation of the rows a sort key gives is not modelled: rows are compared as a set.) *)
Definition list_response_gen (err_ct : ctype) (api : str) (rs : list router) (path : str) (params : list (str * str))
  : option response :=
  if str_eqb path api then
    let page := MkResp 200 CtHtml (tag_page (list_page api rs)) in
    let bad_by := match get_param ($ "sort_by") params with
                  | Some v => if existsb (str_eqb v) sort_by_keys then None else Some v
                  | None => None
                  end in
    match bad_by with
    | Some v => Some (MkResp 400 err_ct (err_body v ($ "sort_by")))
    | None =>
        match get_param ($ "sort_order") params with
        | Some v => if existsb (str_eqb v) sort_order_keys then Some page
                    else Some (MkResp 400 err_ct (err_body v ($ "sort_order")))
        | None => Some page
        end
    end
  else None.

Definition list_response := list_response_gen CtPlain.
(* seeded change C19-c2: one helper builds all three responses and always says text/html *)
Definition list_response_all_html := list_response_gen CtHtml.

Definition info_response (api tpl req : str) (r : router) : option response :=
  match info_request api tpl req r with
  | Some t => Some (MkResp 200 CtHtml (tag_page t))
  | None => None
  end.

(* ---------------------------------------------------------------- the property on a response *)
(* either the body cannot be taken for markup, or every field of it is escaped
   for the context it stands in (so no field value can change the structure) *)
Definition resp_safe (r : response) : bool := negb (sniffable (rs_ctype r)) || tpl_ok (untag (rs_body r)).

(* the same body with its request-derived fields escaped (what a repaired
   text/html error answer would send): used by the oracle to say what an
   acceptable markup answer looks like *)
Definition escape_reflected (b : tagged) : tagged :=
  map (fun f => match f with (FromRequest, Fld KRaw v) => (FromRequest, Fld KSafe v) | _ => f end) b.

Definition hostile : str := $ "<img src=x onerror=alert(1)>".
