(* C19 - the two status pages of the BMP unit and the Prometheus label
   writer: every field is escaped for the context it is written in, for any
   number of routers / parse errors / peers; refutations for the code as found. *)
From Coq Require Import NArith List Bool String Ascii Lia.
From RV Require Import Http.EscapeModel Http.EscapeProofs.
Import ListNotations.
Local Open Scope N_scope.

(* a piece of template that is entered and left in the Data state *)
Definition data_piece (t : template) : Prop := tpl_ok_from t0 t = true /\ walk t0 t = t0.

Lemma data_piece_app : forall a b, data_piece a -> data_piece b -> data_piece (a ++ b).
Proof.
  intros a b [A1 A2] [B1 B2]. split.
  - rewrite tpl_ok_from_app, A1, A2, B1. reflexivity.
  - rewrite walk_app, A2, B2. reflexivity.
Qed.

Lemma data_piece_nil : data_piece [].
Proof. split; reflexivity. Qed.

Lemma data_piece_flat_map : forall (A : Type) (f : A -> template) l,
  (forall x, data_piece (f x)) -> data_piece (flat_map f l).
Proof.
  intros A f l H. induction l as [|x l IH]; [apply data_piece_nil|].
  cbn [flat_map]. apply data_piece_app; auto.
Qed.

Lemma data_piece_ok : forall t, data_piece t -> tpl_ok t = true.
Proof. intros t [H _]. exact H. Qed.

(* ------------------------------------------------------------------ *)
(* list page *)
Lemma list_header_piece : forall n, data_piece (list_header n).
Proof. intro n. split; vm_compute; reflexivity. Qed.

Lemma list_footer_piece : data_piece list_footer.
Proof. split; vm_compute; reflexivity. Qed.

Lemma list_row_piece : forall path r, data_piece (list_row path r).
Proof.
  intros path [id addr tlvs errs peers]. unfold list_row, list_row_gen. cbn [r_tlvs r_addr r_id].
  destruct tlvs as [[[n d] e]|]; destruct addr as [[[[a b] c] d']|]; split; vm_compute; reflexivity.
Qed.

Theorem list_page_ok : forall path rs, tpl_ok (list_page path rs) = true.
Proof.
  intros path rs. apply data_piece_ok. unfold list_page.
  apply data_piece_app; [apply list_header_piece|].
  apply data_piece_app; [|apply list_footer_piece].
  apply data_piece_flat_map. intro r. apply list_row_piece.
Qed.


Lemma list_row_shape : forall p1 p2 r1 r2, row_alike r1 r2 ->
  same_shape (list_row p1 r1) (list_row p2 r2) = true.
Proof.
  intros p1 p2 [id1 a1 t1 e1 pe1] [id2 a2 t2 e2 pe2] [H1 H2]. cbn [r_tlvs r_addr] in H1, H2.
  unfold list_row, list_row_gen. cbn [r_tlvs r_addr r_id].
  destruct t1 as [[[n1 d1] x1]|], t2 as [[[n2 d2] x2]|]; try discriminate;
    destruct a1 as [[[[? ?] ?] ?]|], a2 as [[[[? ?] ?] ?]|]; try discriminate; vm_compute; reflexivity.
Qed.

Lemma list_rows_shape : forall p1 p2 rs1 rs2, Forall2 row_alike rs1 rs2 ->
  same_shape (flat_map (list_row p1) rs1) (flat_map (list_row p2) rs2) = true.
Proof.
  intros p1 p2 rs1 rs2 H. induction H as [|r1 r2 rs1 rs2 Hr _ IH]; [reflexivity|].
  cbn [flat_map]. apply same_shape_app; [now apply list_row_shape | exact IH].
Qed.

Theorem list_page_structure : forall p1 p2 rs1 rs2, Forall2 row_alike rs1 rs2 ->
  page_skeleton (list_page p1 rs1) = page_skeleton (list_page p2 rs2).
Proof.
  intros p1 p2 rs1 rs2 H. apply page_structure_preserved; [|apply list_page_ok].
  unfold list_page. apply same_shape_app; [vm_compute; reflexivity|].
  apply same_shape_app; [now apply list_rows_shape | vm_compute; reflexivity].
Qed.

(* the repaired truncation: a prefix of at most 60 characters, never a panic *)
Lemma truncate_tlv_prefix : forall s, exists rest, s = truncate_tlv s ++ rest.
Proof. intro s. exists (skipn max_info_tlv_len s). unfold truncate_tlv. now rewrite firstn_skipn. Qed.

Lemma truncate_tlv_len : forall s, (List.length (truncate_tlv s) <= 60)%nat.
Proof. intro s. unfold truncate_tlv. apply firstn_le_length. Qed.

(* the code as found: slicing the ESCAPED string at byte 61 *)
Lemma legacy_trunc_panics : exists s, legacy_trunc s = None.
Proof. exists (repeat 233 31). vm_compute. reflexivity. Qed.

Lemma legacy_trunc_cuts_entity : exists s e, legacy_trunc s = Some e /\ amp_ok e = false.
Proof. exists (repeat 60 16). eexists. split; vm_compute; reflexivity. Qed.

(* ------------------------------------------------------------------ *)
(* info page *)
Lemma info_head_piece : data_piece info_head.
Proof. split; vm_compute; reflexivity. Qed.
Lemma info_footer_piece : data_piece info_footer.
Proof. split; vm_compute; reflexivity. Qed.

Lemma err_seg_piece : forall e, data_piece (err_seg KSafe e).
Proof. intros [[|] m]; split; vm_compute; reflexivity. Qed.

Lemma peer_row_piece : forall base focus p, data_piece (peer_row KDq base focus p).
Proof.
  intros base focus [[[[a b] c] d] asn]. unfold peer_row.
  destruct focus as [k|]; [destruct (str_eqb k _)|]; split; vm_compute; reflexivity.
Qed.

Lemma peers_table_piece : forall base focus r, data_piece (peers_table KDq base focus r).
Proof.
  intros base focus r. unfold peers_table. destruct (r_tlvs r); [|apply data_piece_nil].
  apply data_piece_app; [split; vm_compute; reflexivity|].
  apply data_piece_app; [|split; vm_compute; reflexivity].
  apply data_piece_flat_map. intro pr. apply peer_row_piece.
Qed.

Theorem info_page_ok : forall base focus r, tpl_ok (info_page base focus r) = true.
Proof.
  intros base focus r. apply data_piece_ok. unfold info_page, info_page_gen.
  apply data_piece_app; [apply info_head_piece|].
  apply data_piece_app; [split; vm_compute; reflexivity|].
  apply data_piece_app; [apply data_piece_flat_map; intro e; apply err_seg_piece|].
  apply data_piece_app; [split; vm_compute; reflexivity|].
  apply data_piece_app; [apply peers_table_piece|].
  apply data_piece_app; [split; vm_compute; reflexivity | apply info_footer_piece].
Qed.


Lemma map_fst_skipn : forall (A B : Type) n (l : list (A * B)), map fst (skipn n l) = skipn n (map fst l).
Proof. intros A B n. induction n as [|n IH]; intros [|x l]; cbn; auto. Qed.

Lemma errs_shape : forall l1 l2, map fst l1 = map fst l2 ->
  same_shape (flat_map (err_seg KSafe) l1) (flat_map (err_seg KSafe) l2) = true.
Proof.
  induction l1 as [|[f1 m1] l1 IH]; intros [|[f2 m2] l2] H; cbn in H; try discriminate; [reflexivity|].
  injection H as -> H. cbn [flat_map]. apply same_shape_app; [|now apply IH].
  destruct f2; vm_compute; reflexivity.
Qed.

Lemma peer_row_shape : forall b1 b2 focus p,
  same_shape (peer_row KDq b1 focus p) (peer_row KDq b2 focus p) = true.
Proof.
  intros b1 b2 focus [[[[a b] c] d] asn]. unfold peer_row.
  destruct focus as [k|]; [destruct (str_eqb k _)|]; vm_compute; rewrite ?str_eqb_refl; reflexivity.
Qed.

Lemma peer_rows_shape : forall b1 b2 focus ps,
  same_shape (flat_map (peer_row KDq b1 focus) ps) (flat_map (peer_row KDq b2 focus) ps) = true.
Proof.
  intros b1 b2 focus ps. induction ps as [|p ps IH]; [reflexivity|].
  cbn [flat_map]. apply same_shape_app; [apply peer_row_shape | exact IH].
Qed.

Theorem info_page_structure : forall b1 b2 focus r1 r2, info_alike r1 r2 ->
  page_skeleton (info_page b1 focus r1) = page_skeleton (info_page b2 focus r2).
Proof.
  intros b1 b2 focus r1 r2 (Ht & He & Hp). apply page_structure_preserved; [|apply info_page_ok].
  unfold info_page, info_page_gen.
  apply same_shape_app; [vm_compute; reflexivity|].
  apply same_shape_app; [vm_compute; reflexivity|].
  apply same_shape_app.
  { apply errs_shape. unfold recent_errs. rewrite !map_fst_skipn.
    rewrite <- (map_length fst (r_errs r1)), <- (map_length fst (r_errs r2)), He. reflexivity. }
  apply same_shape_app; [vm_compute; reflexivity|].
  apply same_shape_app.
  { unfold peers_table. rewrite Hp.
    destruct (r_tlvs r1), (r_tlvs r2); try discriminate; [|reflexivity].
    apply same_shape_app; [vm_compute; reflexivity|].
    apply same_shape_app; [apply peer_rows_shape | vm_compute; reflexivity]. }
  apply same_shape_app; vm_compute; reflexivity.
Qed.

(* ... through the request processor: whatever path was requested *)
Theorem info_request_structure : forall api tpl req1 req2 r1 r2 t1 t2,
  info_alike r1 r2 ->
  info_request api tpl req1 r1 = Some t1 -> info_request api tpl req2 r2 = Some t2 ->
  snd (match info_route api tpl req1 r1 with Some x => x | None => ([], None) end) =
  snd (match info_route api tpl req2 r2 with Some x => x | None => ([], None) end) ->
  page_skeleton t1 = page_skeleton t2.
Proof.
  intros api tpl req1 req2 r1 r2 t1 t2 Hal H1 H2 Hf.
  unfold info_request, info_request_gen in H1, H2.
  destruct (info_route api tpl req1 r1) as [[b1 f1]|]; [|discriminate].
  destruct (info_route api tpl req2 r2) as [[b2 f2]|]; [|discriminate].
  cbn [snd] in Hf. subst f2. injection H1 as <-. injection H2 as <-.
  now apply info_page_structure.
Qed.

(* the code as found interpolates raw: a sysName changes the document *)

Lemma info_page_legacy_refuted :
  page_skeleton (info_page_legacy (lit "/routers/1") None (mk_named (lit "<script>alert(1)</script>")))
  <> page_skeleton (info_page_legacy (lit "/routers/1") None (mk_named (lit "r1"))).
Proof. vm_compute. discriminate. Qed.

(* ... and so does the request path, which repeats the sysName *)

Lemma info_page_legacy_base_refuted :
  page_skeleton (info_page_gen KSafe KRaw (lit "/routers/""><img src=x>") None (mk_peered (lit "x")))
  <> page_skeleton (info_page_gen KSafe KRaw (lit "/routers/x") None (mk_peered (lit "x"))).
Proof. vm_compute. discriminate. Qed.

(* ------------------------------------------------------------------ *)
(* metrics *)

(* the router label never depends on text sent by the router *)
Theorem router_label_ignores_router_text : forall tpl n1 n2 id,
  format_source_id tpl n1 id = format_source_id tpl n2 id.
Proof. reflexivity. Qed.

Lemma replace_go_forall : forall (p : N -> bool) pat rep s k,
  forallb p rep = true -> forallb p s = true -> forallb p (replace_go pat rep k s) = true.
Proof.
  intros p pat rep. induction s as [|c s IH]; intros k Hr Hs; [reflexivity|].
  cbn [forallb] in Hs. apply andb_true_iff in Hs as [Hc Hs]. cbn [replace_go].
  destruct k as [|k]; [|now apply IH].
  destruct (starts_with pat (c :: s)).
  - rewrite forallb_app, Hr. cbn. now apply IH.
  - cbn [forallb]. rewrite Hc. cbn. now apply IH.
Qed.

Lemma prom_digit_ok : forall c, is_digit c = true -> negb ((c =? c_dq) || (c =? c_bsl) || (c =? c_nl)) = true.
Proof.
  intros c H. unfold is_digit in H. apply andb_true_iff in H as [H1 H2].
  apply N.leb_le in H1. apply N.leb_le in H2. apply negb_true_iff.
  unfold c_dq, c_bsl, c_nl.
  destruct (N.eqb_spec c 34); [lia|]. destruct (N.eqb_spec c 92); [lia|]. destruct (N.eqb_spec c 10); [lia|].
  reflexivity.
Qed.

(* ... and is as safe as the configured template is *)
Theorem router_label_safe : forall tpl n id,
  prom_value_ok tpl = true -> prom_value_ok (format_source_id tpl n id) = true.
Proof.
  intros tpl n id H. unfold format_source_id, replace_all, prom_value_ok.
  apply replace_go_forall; [reflexivity|].
  apply replace_go_forall; [reflexivity|].
  apply replace_go_forall; [|exact H].
  eapply forallb_impl; [|apply dec_digits]. apply prom_digit_ok.
Qed.

(* the label writer followed by the reader of the exposition format gives the
   labels back, PROVIDED no value contains a quote, backslash or newline (the
   writer does not escape) *)

Definition pfold (s : str) (st : pst) : pst := fold_left prom_step s st.

Lemma pfold_cons : forall c s st, pfold (c :: s) st = pfold s (prom_step st c).
Proof. reflexivity. Qed.

Lemma step_name : forall c nm out, is_name_char c = true ->
  prom_step (MkP PName nm [] out) c = MkP PName (nm ++ [c]) [] out.
Proof. intros c nm out H. unfold prom_step. cbn [p_mode p_name p_val p_out]. now rewrite H. Qed.

Lemma step_val : forall c nm acc out, (c =? c_dq) = false -> (c =? c_bsl) = false -> (c =? c_nl) = false ->
  prom_step (MkP PVal nm acc out) c = MkP PVal nm (acc ++ [c]) out.
Proof. intros c nm acc out H1 H2 H3. unfold prom_step. cbn [p_mode p_name p_val p_out]. now rewrite H1, H2, H3. Qed.

Lemma pfold_name : forall n rest nm out, forallb is_name_char n = true ->
  pfold (n ++ rest) (MkP PName nm [] out) = pfold rest (MkP PName (nm ++ n) [] out).
Proof.
  induction n as [|c n IH]; intros rest nm out H; [now rewrite app_nil_r|].
  cbn [forallb] in H. apply andb_true_iff in H as [Hc Hn].
  cbn [app]. rewrite pfold_cons, step_name by assumption.
  rewrite IH by assumption. now rewrite <- app_assoc.
Qed.

Lemma pfold_val : forall v rest nm acc out, prom_value_ok v = true ->
  pfold (v ++ rest) (MkP PVal nm acc out) = pfold rest (MkP PVal nm (acc ++ v) out).
Proof.
  induction v as [|c v IH]; intros rest nm acc out H; [now rewrite app_nil_r|].
  unfold prom_value_ok in H. cbn [forallb] in H. apply andb_true_iff in H as [Hc Hv].
  apply negb_true_iff in Hc. apply orb_false_iff in Hc as [Hc Hnl]. apply orb_false_iff in Hc as [Hdq Hbs].
  cbn [app]. rewrite pfold_cons, step_val by assumption.
  rewrite IH by assumption. now rewrite <- app_assoc.
Qed.

Lemma pfold_label : forall nv rest out, label_ok nv = true ->
  pfold (prom_label nv ++ rest) (MkP PName [] [] out) = pfold rest (MkP PAfterVal [] [] (out ++ [nv])).
Proof.
  intros [n v] rest out H. unfold label_ok in H. cbn [fst snd] in H. apply andb_true_iff in H as [Hn Hv].
  unfold prom_label. cbn [fst snd]. rewrite <- !app_assoc.
  assert (Hn' : forallb is_name_char n = true) by (unfold prom_name_ok in Hn; now apply andb_true_iff in Hn as [Hn _]).
  rewrite pfold_name by assumption. cbn [app].
  cbn [app]. rewrite !pfold_cons.
  assert (E1 : prom_step (prom_step (MkP PName n [] out) 61) 34 = MkP PVal n [] out) by reflexivity.
  rewrite E1. rewrite pfold_val by assumption. cbn [app]. rewrite pfold_cons.
  reflexivity.
Qed.

Lemma pfold_labels : forall ls nv out, label_ok nv = true -> forallb label_ok ls = true ->
  pfold (join ([44]) (map prom_label (nv :: ls)) ++ [125]) (MkP PName [] [] out)
  = MkP PDone [] [] (out ++ nv :: ls).
Proof.
  induction ls as [|nv2 ls IH]; intros nv out H Hls.
  - cbn [map join]. rewrite pfold_label by assumption. reflexivity.
  - cbn [forallb] in Hls. apply andb_true_iff in Hls as [H2 Hls].
    change (join ([44]) (map prom_label (nv :: nv2 :: ls)))
      with (prom_label nv ++ [44] ++ join ([44]) (map prom_label (nv2 :: ls))).
    rewrite <- !app_assoc. rewrite pfold_label by assumption.
    cbn [app]. rewrite pfold_cons.
    assert (E1 : prom_step (MkP PAfterVal [] [] (out ++ [nv])) 44 = MkP PName [] [] (out ++ [nv])) by reflexivity.
    rewrite E1.
    rewrite IH by assumption. now rewrite <- app_assoc.
Qed.

Theorem prom_labels_roundtrip : forall nv ls, forallb label_ok (nv :: ls) = true ->
  prom_parse (prom_labels (nv :: ls)) = Some (nv :: ls).
Proof.
  intros nv ls H. cbn [forallb] in H. apply andb_true_iff in H as [H Hls].
  unfold prom_parse, prom_labels. cbn [app fold_left].
  assert (E1 : prom_step (MkP PStart [] [] []) 123 = MkP PName [] [] []) by reflexivity.
  rewrite E1. change (fold_left prom_step ?l ?s) with (pfold l s).
  rewrite pfold_labels by assumption. reflexivity.
Qed.

(* without the proviso the structure of the line is lost: the writer does not
   escape (latent: no router text reaches a label on this tree) *)
Lemma prom_writer_unescaped_refuted :
  prom_parse (prom_labels [(lit "router", lit "a"",x=""b")]) <> Some [(lit "router", lit "a"",x=""b")].
Proof. vm_compute. discriminate. Qed.
