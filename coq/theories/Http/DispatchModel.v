(* C12 - model of rotonda's HTTP request handling (definitions only).

   Mirrors, at the level of (status code, gzip?, panicked?):
     src/http.rs      Server::handle_request, encode_response, Resources::{register, process_request}
     src/manager.rs   /status/graph and /status/traces processors (mk_svg_http_processor, mk_tracer_http_processor)
     src/units/rib_unit/http/request.rs        PrefixesApi::process_request + parameter parsing
     src/units/bmp_tcp_in/http/router_list/request.rs   RouterListApi::process_request + sort_routers (parameter part)
     src/units/mrt_file_in/api.rs              Processor::process_request (unit configured without update_path)
   Panic sites of the code are explicit [PPanic]/[Panic] outcomes.
   hyper's own parser is modelled in Http/WireModel.v (bytes on a connection ->
   requests delivered / refused); here [request_ok] states which (path, query,
   header value) byte strings the http crate lets through to the handler. *)
From Coq Require Import NArith List Bool String.
From RV Require Import Http.DispatchText.
Import ListNotations.
Local Open Scope N_scope.
Local Notation length := List.length.

(* method 0 = GET; every other number is some other method *)
Record request := MkReq {
  rq_method : N;
  rq_path : bytes;                      (* raw path as on the request line, starts with '/' *)
  rq_query : option bytes;              (* raw query (after '?'), if any *)
  rq_headers : list (bytes * bytes) }.  (* (name, raw value) in order *)

(* Parsers of external crates that are not re-stated in Gallina are arguments
   of the model; every theorem quantifies over them. *)
Record leaves := MkLeaves {
  lf_comm : bytes -> bool }.   (* routecore Community::from_str succeeds (only consulted when it cannot panic) *)

(* The code as found ([original]) and after the proposed repairs ([repaired]);
   each flag switches one panic site on:
     v_ae_strict     http.rs encode_response: `Accept-Encoding` value `.to_str().unwrap()`
     v_graph_sliced  manager.rs /status/graph: `restant.split_at("/traces/".len())` whenever restant merely contains "/traces/"
     v_graph_empty   manager.rs get_svg: the layout crate asserts on a graph without nodes
     v_filter_raw    rib request.rs extract_filter_kind: non-ASCII values reach Asn::from_str / Community::from_str,
                     which slice at fixed byte offsets *)
Record variant := MkVar { v_ae_strict : bool; v_graph_sliced : bool; v_graph_empty : bool; v_filter_raw : bool }.
Definition original : variant := MkVar true true true true.
Definition repaired : variant := MkVar false false false false.

Inductive presult := PNone | PResp (code : N) | PPanic.

(* ---------------------------------------------------------------- query parameters (src/http.rs) *)
Record param := MkParam { pm_name : bytes; pm_value : bytes; pm_used : bool }.

Definition params_of (q : option bytes) : list param :=
  match q with
  | None => []
  | Some q => map (fun nv => MkParam (fst nv) (snd nv) false) (form_parse q)
  end.

Inductive matched := MExact (v : bytes) | MFamily (fam v : bytes).
Definition m_value (m : matched) : bytes := match m with MExact v => v | MFamily _ v => v end.

(* MatchedParam::parse: name.split(['[', ']']) -> first two pieces *)
Definition mp_parse (needle : bytes) (p : param) : option matched :=
  match split_on (fun b => (b =? 91) || (b =? 93)) (pm_name p) with
  | [k] => if beqb k needle then Some (MExact (pm_value p)) else None
  | k :: fam :: _ => if beqb k needle then Some (MFamily fam (pm_value p)) else None
  | [] => None
  end.

Definition mark (p : param) : param := MkParam (pm_name p) (pm_value p) true.

(* get_param: first match, marked used *)
Fixpoint get_param (needle : bytes) (ps : list param) : option matched * list param :=
  match ps with
  | [] => (None, [])
  | p :: t => match mp_parse needle p with
              | Some m => (Some m, mark p :: t)
              | None => let '(r, t') := get_param needle t in (r, p :: t')
              end
  end.

(* get_all_params: every match, all marked used *)
Fixpoint get_all_params (needle : bytes) (ps : list param) : list matched * list param :=
  match ps with
  | [] => ([], [])
  | p :: t => let '(r, t') := get_all_params needle t in
              match mp_parse needle p with
              | Some m => (m :: r, mark p :: t')
              | None => (r, p :: t')
              end
  end.

(* ---------------------------------------------------------------- rib: PrefixesApi *)
Definition is_comma (b : N) : bool := b =? 44.
Definition is_slash (b : N) : bool := b =? 47.

(* parse_include_param: Ok(more_specifics?) or Err *)
Fixpoint include_items (items : list bytes) (more : bool) : option bool :=
  match items with
  | [] => Some more
  | i :: t => if beqb i k_lessSpecifics then include_items t more
              else if beqb i k_moreSpecifics then include_items t true
              else None
  end.

Definition shortest_v4 : N := 8.
Definition shortest_v6 : N := 19.

Definition include_ok (m : option matched) (pf : pfx) : bool :=
  match (match m with
         | None => Some false
         | Some m => include_items (split_on is_comma (m_value m)) false
         end) with
  | None => false
  | Some false => true
  | Some true => negb (pfx_len pf <? (if pfx_v4 pf then shortest_v4 else shortest_v6))
  end.

Definition details_ok (m : option matched) : bool :=
  match m with
  | None => true
  | Some m => forallb (fun d => beqb d k_communities) (split_on is_comma (m_value m))
  end.

Fixpoint asn_list (items : list bytes) : leaf :=
  match items with
  | [] => LOk
  | i :: t => match asn_from_str i with LOk => asn_list t | x => x end
  end.

Definition comm_from_str (lv : leaves) (v : bytes) : leaf :=
  if comm_panics v then LPanic else if lf_comm lv v then LOk else LErr.

(* extract_filter_kind *)
Definition filter_kind_raw (lv : leaves) (m : matched) : leaf :=
  match m with
  | MFamily fam v =>
      if beqb fam k_as_path then asn_list (split_on is_comma v)
      else if beqb fam k_peer_as then asn_from_str v
      else if beqb fam k_community then comm_from_str lv v
      else LErr
  | MExact _ => LErr
  end.

(* repaired: a value that is not ASCII is refused before any parser sees it *)
Definition filter_kind (vr : variant) (lv : leaves) (m : matched) : leaf :=
  if negb (v_filter_raw vr) && negb (is_ascii (m_value m)) then LErr else filter_kind_raw lv m.

Fixpoint filter_kinds (vr : variant) (lv : leaves) (ms : list matched) : leaf :=
  match ms with
  | [] => LOk
  | m :: t => match filter_kind vr lv m with LOk => filter_kinds vr lv t | x => x end
  end.

Definition filter_op_ok (m : option matched) : bool :=
  match m with
  | None => true
  | Some m => beqb (m_value m) k_any || beqb (m_value m) k_all
  end.

(* handle_prefix_query on a physical RIB whose store exists *)
Definition rib_prefix_query (vr : variant) (lv : leaves) (rest : bytes) (q : option bytes) : presult :=
  match parse_prefix rest with
  | None => PResp 400
  | Some pf =>
      let ps0 := params_of q in
      let '(inc, ps1) := get_param k_include ps0 in
      if negb (include_ok inc pf) then PResp 400 else
      let '(det, ps2) := get_param k_details ps1 in
      if negb (details_ok det) then PResp 400 else
      let '(sel, ps3) := get_all_params k_select ps2 in
      match filter_kinds vr lv sel with
      | LPanic => PPanic
      | LErr => PResp 400
      | LOk =>
          let '(dis, ps4) := get_all_params k_discard ps3 in
          match filter_kinds vr lv dis with
          | LPanic => PPanic
          | LErr => PResp 400
          | LOk =>
              let '(fop, ps5) := get_param k_filter_op ps4 in
              if negb (filter_op_ok fop) then PResp 400 else
              let '(_, ps6) := get_param k_sort ps5 in
              let '(fmt, ps7) := get_param k_format ps6 in
              if existsb (fun p => negb (pm_used p)) ps7 then PResp 400 else
              match fmt with
              | None => PResp 200
              | Some m => if beqb (m_value m) k_dump then PResp 200 else PResp 400
              end
          end
      end
  end.

(* handle_ingress_id_query on a physical RIB *)
Definition rib_ingress_query (rest : bytes) : presult :=
  match parse_uint u32_max rest with
  | None => PResp 400
  | Some _ => PResp 200
  end.

Definition rib_process (vr : variant) (lv : leaves) (base : bytes) (r : request) : presult :=
  let dp := decode_path (rq_path r) in
  match strip_pfx base dp with
  | Some rest =>
      if Nat.eqb (length (split_on is_slash (rq_path r))) 3
      then rib_ingress_query rest
      else rib_prefix_query vr lv rest (rq_query r)
  | None => PNone
  end.

(* ---------------------------------------------------------------- bmp-tcp-in: RouterListApi *)
Definition sort_by_values : list bytes :=
  [k_addr; k_sys_name; k_sys_desc; k_state; k_peers_up; k_peers_up_eor_capable; k_peers_up_dumping; k_peers_up_eor_capable_pc; k_peers_up_dumping_pc; k_invalid_messages; k_soft_parse_errors; k_hard_parse_errors].

Definition routers_process (base : bytes) (r : request) : presult :=
  if beqb (decode_path (rq_path r)) base then
    let ps := params_of (rq_query r) in
    let '(sb, ps1) := get_param k_sort_by ps in
    let '(so, _) := get_param k_sort_order ps1 in
    let sb_ok := match sb with None => true | Some m => existsb (beqb (m_value m)) sort_by_values end in
    let so_ok := match so with
                 | None => true
                 | Some m => beqb (m_value m) k_asc || beqb (m_value m) k_desc
                 end in
    if sb_ok && so_ok then PResp 200 else PResp 400
  else PNone.

(* ---------------------------------------------------------------- mrt-file-in api::Processor (no update_path) *)
Definition mrt_process (base : bytes) (r : request) : presult :=
  match strip_pfx base (decode_path (rq_path r)) with
  | Some action => if starts_with k_queue action then PResp 400 else PNone
  | None => PNone
  end.

(* ---------------------------------------------------------------- bmp-tcp-in: RouterInfoApi (one connected router) *)
(* [names]: the strings the router answers to (ingress id, router id, sysName, address) *)
Definition info_process (base : bytes) (names : list bytes) (r : request) : presult :=
  match strip_pfx base (decode_path (rq_path r)) with
  | Some router =>
      match router with
      | [] => PNone
      | _ =>
          let key := match split_once_s k_prefixes router with
                     | Some (k, _) => k
                     | None => match split_once_s k_flags router with
                               | Some (k, _) => k
                               | None => router
                               end
                     end in
          if existsb (beqb key) names then PResp 200 else PNone
      end
  | None => PNone
  end.

(* ---------------------------------------------------------------- manager: /status/graph, /status/traces *)
Definition graph_base : bytes := k_status_graph.
Definition traces_seg : bytes := k_traces_seg_.

(* [nodes] = number of components in the link report the manager holds
   (0 until the first report has been collected after start-up).
   original: restant.split_at(8) whenever restant contains "/traces/", then
   get_svg, which panics on an empty graph. repaired: restant.strip_prefix
   ("/traces/") - no slicing - and an empty graph renders as an empty SVG. *)
Definition graph_process (vr : variant) (nodes : N) (r : request) : presult :=
  let dp := decode_path (rq_path r) in
  match strip_pfx graph_base dp with
  | Some restant =>
      if v_graph_sliced vr && contains traces_seg restant && negb (char_boundary restant 8) then PPanic
      else if v_graph_empty vr && (nodes =? 0) then PPanic
      else PResp 200
  | None => PNone
  end.

Definition tracer_process (r : request) : presult :=
  if beqb (decode_path (rq_path r)) k_status_traces then PResp 200 else PNone.

(* ---------------------------------------------------------------- Resources *)
Inductive proc :=
| PGraph
| PTracer
| PRib (base : bytes)
| PRouters (base : bytes)
| PMrt (base : bytes)
| PInfo (base : bytes) (names : list bytes)
| PStub (pfx : bytes) (code : N).   (* a processor answering [code] below a path prefix *)

Definition proc_run (vr : variant) (lv : leaves) (nodes : N) (p : proc) (r : request) : presult :=
  match p with
  | PGraph => graph_process vr nodes r
  | PTracer => tracer_process r
  | PRib base => rib_process vr lv base r
  | PRouters base => routers_process base r
  | PMrt base => mrt_process base r
  | PInfo base names => info_process base names r
  | PStub pfx code => if starts_with pfx (decode_path (rq_path r)) then PResp code else PNone
  end.

Record source := MkSrc { src_id : N; src_proc : proc; src_sub : bool; src_alive : bool }.

(* Resources::register: dead entries are pruned, a sub-resource goes first, others last *)
Definition register (srcs : list source) (id : N) (p : proc) (sub : bool) : list source :=
  let live := filter src_alive srcs in
  let n := MkSrc id p sub true in
  if sub then n :: live else live ++ [n].

(* the owner drops its Arc: the Weak no longer upgrades *)
Definition drop_src (srcs : list source) (id : N) : list source :=
  map (fun s => if src_id s =? id then MkSrc (src_id s) (src_proc s) (src_sub s) false else s) srcs.

(* Resources::process_request: first live processor that answers *)
Fixpoint process_all (vr : variant) (lv : leaves) (nodes : N) (srcs : list source) (r : request) : presult :=
  match srcs with
  | [] => PNone
  | s :: t =>
      if src_alive s then
        match proc_run vr lv nodes (src_proc s) r with
        | PNone => process_all vr lv nodes t r
        | x => x
        end
      else process_all vr lv nodes t r
  end.

(* ---------------------------------------------------------------- Server *)
Record config := MkCfg { cf_compress : bool; cf_nodes : N; cf_sources : list source }.

Inductive outcome := Resp (code : N) (gz : bool) | Panic | Rejected.

Definition ae_name : bytes := k_accept_encoding.

(* HeaderMap::get: first value under the (case-insensitive) name *)
Fixpoint header_get (name : bytes) (hs : list (bytes * bytes)) : option bytes :=
  match hs with
  | [] => None
  | (n, v) :: t => if beqb_nocase n name then Some v else header_get name t
  end.

(* encode_response: Some gz, or None where the original code panicked.
   [strict] = the original `to_str().unwrap()`; the repaired code treats a
   value that is not visible ASCII as "does not accept gzip". *)
Definition gzip_decision (strict : bool) (compress : bool) (hs : list (bytes * bytes)) : option bool :=
  if compress then
    match header_get ae_name hs with
    | None => Some false
    | Some v => if hv_to_str_ok v then Some (contains k_gzip v)
                else if strict then None else Some false
    end
  else Some false.

(* [rq_path] is what Uri::path() returns: a path that starts with '/' for an origin-form or absolute-form
   request-target ("/" when an absolute-form target has none), "*" for the asterisk-form, "" for the
   authority-form (`GET localhost:80 HTTP/1.1`, and any target without '/' that parses as an authority, such as
   `GET status HTTP/1.1`). hyper delivers all four forms to the handler whatever the method is (found with the
   engine c12tcp: the definition used to demand the leading '/'; Http/WireProofs.v ties it to the wire parser). *)
Definition path_shape_ok (p : bytes) : bool :=
  starts_with [47] p || beqb p k_star || match p with [] => true | _ => false end.

Definition request_ok (r : request) : bool :=
  path_shape_ok (rq_path r) && forallb path_byte_ok (rq_path r) &&
  match rq_query r with None => true | Some q => forallb query_byte_ok q end &&
  forallb (fun h => forallb hv_byte_ok (snd h)) (rq_headers r).

Definition handle_v (vr : variant) (lv : leaves) (c : config) (r : request) : outcome :=
  if negb (request_ok r) then Rejected
  else if negb (rq_method r =? 0) then Resp 405 false
  else
    let dp := decode_path (rq_path r) in
    let res := if beqb dp k_metrics then PResp 200
               else if beqb dp k_status then PResp 200
               else match process_all vr lv (cf_nodes c) (cf_sources c) r with
                    | PNone => PResp 404
                    | x => x
                    end in
    match res with
    | PResp code =>
        match gzip_decision (v_ae_strict vr) (cf_compress c) (rq_headers r) with
        | Some g => Resp code g
        | None => Panic
        end
    | _ => Panic
    end.

Definition handle := handle_v repaired.

(* ---------------------------------------------------------------- histories *)
Inductive op :=
| OCompress (b : bool)
| OGraph (nodes : N)
| OReg (id : N) (p : proc) (sub : bool)
| ODrop (id : N)
| OReq (r : request).

Definition step (lv : leaves) (c : config) (o : op) : config * option outcome :=
  match o with
  | OCompress b => (MkCfg b (cf_nodes c) (cf_sources c), None)
  | OGraph n => (MkCfg (cf_compress c) n (cf_sources c), None)
  | OReg id p sub => (MkCfg (cf_compress c) (cf_nodes c) (register (cf_sources c) id p sub), None)
  | ODrop id => (MkCfg (cf_compress c) (cf_nodes c) (drop_src (cf_sources c) id), None)
  | OReq r => (c, Some (handle lv c r))
  end.

Fixpoint run (lv : leaves) (c : config) (ops : list op) : config * list outcome :=
  match ops with
  | [] => (c, [])
  | o :: t => let '(c1, x) := step lv c o in
              let '(c2, xs) := run lv c1 t in
              (c2, match x with Some y => y :: xs | None => xs end)
  end.

(* Manager::new registers /status/graph, then /status/traces, both as sub-resources *)
Definition cfg_init : config :=
  MkCfg false 0 (register (register [] 0 PGraph true) 1 PTracer true).

(* ---------------------------------------------------------------- the property's reading of "the client accepts gzip" *)
Definition is_ows (b : N) : bool := (b =? 32) || (b =? 9).
Fixpoint trim_l (s : bytes) : bytes :=
  match s with b :: t => if is_ows b then trim_l t else s | [] => [] end.
Definition trim (s : bytes) : bytes := rev (trim_l (rev (trim_l s))).

(* qvalue is zero: "0", "0.", "0.0", "0.00", "0.000" *)
Definition q_is_zero (v : bytes) : bool :=
  match v with
  | 48 :: [] => true
  | 48 :: 46 :: ds => (N.of_nat (length ds) <=? 3) && forallb (fun b => b =? 48) ds
  | _ => false
  end.

Definition param_q_zero (p : bytes) : bool :=
  match split_once_b 61 (trim p) with
  | (n, Some v) => beqb_nocase (trim n) k_q && q_is_zero (trim v)
  | _ => false
  end.

(* one element of the Accept-Encoding list accepts gzip: coding gzip / x-gzip / *, and not q=0 *)
Definition element_accepts_gzip (e : bytes) : bool :=
  match split_on (fun b => b =? 59) e with
  | coding :: ps =>
      let cd := map lower (trim coding) in
      (beqb cd k_gzip || beqb cd k_x_gzip || beqb cd k_star) && negb (existsb param_q_zero ps)
  | [] => false
  end.

(* RFC 9110 12.5.3 reading of the first Accept-Encoding field value *)
Definition ae_accepts_gzip (hs : list (bytes * bytes)) : bool :=
  match header_get ae_name hs with
  | None => false
  | Some v => existsb element_accepts_gzip (split_on is_comma v)
  end.

(* what the PROPERTY allows for an outcome: gzip only when accepted *)
Definition spec_of (r : request) (o : outcome) : outcome :=
  match o with
  | Resp c true => if ae_accepts_gzip (rq_headers r) then o else Resp c false
  | _ => o
  end.

(* ---------------------------------------------------------------- community vocabulary for the oracle driver *)
(* Community::from_str is not re-stated; on these strings its verdict is known
   (checked against the implementation on every run). Elsewhere the driver
   evaluates the model under both verdicts. *)
Definition comm_vocab (v : bytes) : option bool :=
  if existsb (beqb v) [k_65000_100; k_AS65000_1; k_0xFFFF029A; k_1_2_3; k_AS1_2_3; k_rt_65000_1; k_ro_1_2_3_4_5; k_NO_EXPORT; k_BLACKHOLE; k_0_0] then Some true
  else if existsb (beqb v) [k_empty; k_x; k_65536_1; k_1_65536; k_1_2_3_4; k_rt_1; k_zz_1_2; k_0x; k_0xZZ; k_1_1; k_1; k_; k_gzip] then Some false
  else None.
