(* C19 - model of the HTML status pages and of the Prometheus label writer of
   the BMP unit. Definitions only; proofs are in EscapeProofs.v.

   Mirrors (rotonda, src/):
     html_escape::encode_safe / encode_double_quoted_attribute   (crate html-escape 0.2.13)
     units/bmp_tcp_in/http/router_list/{request,response}.rs     (list page)
     units/bmp_tcp_in/http/router_info/{request,response}.rs     (info page)
     units/bmp_tcp_in/state_machine/machine.rs:358-395           (TLV strings joined with "|")
     units/bmp_tcp_in/state_machine/metrics.rs                   (parse-error ring buffer, counters)
     units/bmp_tcp_in/util.rs:43-66 format_source_id             (router label)
     metrics.rs Records::suffixed_label_value                    (label writer: no escaping)

   A string is a list of Unicode scalar values (N). What
   String::from_utf8_lossy returns for ANY byte string is such a list, so a
   theorem over all [str] covers every byte string a router can send. *)
From Coq Require Import NArith List Bool String Ascii.
From Coq Require Decimal.
Import ListNotations.
Local Open Scope N_scope.

Definition str := list N.

Fixpoint lit (s : string) : str :=
  match s with
  | EmptyString => []
  | String a s' => N_of_ascii a :: lit s'
  end.

(* string literals of the model are evaluated to [list N] when a definition
   is elaborated, so that the extracted code does not depend on Coq's String
   module (whose extraction would shadow OCaml's) *)
Notation "'$' s" := (ltac:(let v := eval vm_compute in (lit s%string) in exact v))
  (at level 0, s at level 0, only parsing).

Fixpoint str_eqb (a b : str) : bool :=
  match a, b with
  | [], [] => true
  | x :: a', y :: b' => (x =? y) && str_eqb a' b'
  | _, _ => false
  end.

Fixpoint join (sep : str) (l : list str) : str :=
  match l with
  | [] => []
  | [x] => x
  | x :: l' => x ++ sep ++ join sep l'
  end.

(* ------------------------------------------------------------------ *)
(* characters *)
Definition c_dq : N := 34.   (* double quote *)
Definition c_hash : N := 35. (* # *)
Definition c_amp : N := 38.  (* & *)
Definition c_sq : N := 39.   (* single quote *)
Definition c_sl : N := 47.   (* / *)
Definition c_semi : N := 59. (* ; *)
Definition c_lt : N := 60.   (* < *)
Definition c_eq : N := 61.   (* = *)
Definition c_gt : N := 62.   (* > *)
Definition c_bsl : N := 92.  (* \ *)
Definition c_nl : N := 10.

Definition is_ws (c : N) : bool :=
  (c =? 32) || (c =? 9) || (c =? 10) || (c =? 12) || (c =? 13).

(* ------------------------------------------------------------------ *)
(* html_escape 0.2.13, escape_safe / escape_double_quote tables *)
Definition esc_safe_char (c : N) : str :=
  if c =? c_amp then $ "&amp;"
  else if c =? c_lt then $ "&lt;"
  else if c =? c_gt then $ "&gt;"
  else if c =? c_dq then $ "&quot;"
  else if c =? c_sq then $ "&#x27;"
  else if c =? c_sl then $ "&#x2F;"
  else [c].

Definition esc_dq_char (c : N) : str :=
  if c =? c_amp then $ "&amp;"
  else if c =? c_lt then $ "&lt;"
  else if c =? c_gt then $ "&gt;"
  else if c =? c_dq then $ "&quot;"
  else [c].

Definition encode_safe (s : str) : str := flat_map esc_safe_char s.
Definition encode_dq_attr (s : str) : str := flat_map esc_dq_char s.

(* the HTML metacharacters of the property *)
Definition is_meta (c : N) : bool :=
  (c =? c_lt) || (c =? c_gt) || (c =? c_dq) || (c =? c_sq).

(* [amp_ok s]: every & in s starts one of the six entities written by
   encode_safe *)
Fixpoint starts_with (p s : str) : bool :=
  match p, s with
  | [], _ => true
  | x :: p', y :: s' => (x =? y) && starts_with p' s'
  | _ :: _, [] => false
  end.

Definition entity_at (s : str) : bool :=
  starts_with ($ "&amp;") s || starts_with ($ "&lt;") s || starts_with ($ "&gt;") s
  || starts_with ($ "&quot;") s || starts_with ($ "&#x27;") s || starts_with ($ "&#x2F;") s.

Fixpoint amp_ok (s : str) : bool :=
  match s with
  | [] => true
  | c :: s' => (if c =? c_amp then entity_at s else true) && amp_ok s'
  end.

(* ------------------------------------------------------------------ *)
(* decoding of character references (what a reader of the page sees).
   A fold with a pending-reference buffer; named references amp lt gt quot
   apos and numeric ones (decimal, hex) are decoded, anything else is kept
   literally. *)
Definition is_digit (c : N) : bool := (48 <=? c) && (c <=? 57).
Definition hex_val (c : N) : option N :=
  if (48 <=? c) && (c <=? 57) then Some (c - 48)
  else if (65 <=? c) && (c <=? 70) then Some (c - 55)
  else if (97 <=? c) && (c <=? 102) then Some (c - 87)
  else None.
Definition is_alnum (c : N) : bool :=
  is_digit c || ((65 <=? c) && (c <=? 90)) || ((97 <=? c) && (c <=? 122)).

Fixpoint parse_num (base : N) (acc : N) (s : str) : option N :=
  match s with
  | [] => Some acc
  | c :: s' =>
      match hex_val c with
      | Some d => if d <? base then parse_num base (acc * base + d) s' else None
      | None => None
      end
  end.

Definition ent_value (buf : str) : option N :=
  if str_eqb buf ($ "amp") then Some c_amp
  else if str_eqb buf ($ "lt") then Some c_lt
  else if str_eqb buf ($ "gt") then Some c_gt
  else if str_eqb buf ($ "quot") then Some c_dq
  else if str_eqb buf ($ "apos") then Some c_sq
  else match buf with
       | 35 :: 120 :: (_ :: _) as h => parse_num 16 0 h
       | 35 :: 88 :: (_ :: _) as h => parse_num 16 0 h
       | 35 :: (_ :: _) as d => parse_num 10 0 d
       | _ => None
       end.

Definition unesc_step (p : option str) (c : N) : option str * str :=
  match p with
  | None => if c =? c_amp then (Some [], []) else (None, [c])
  | Some buf =>
      if c =? c_semi then
        match ent_value buf with
        | Some v => (None, [v])
        | None => (None, c_amp :: buf ++ [c])
        end
      else if c =? c_amp then (Some [], c_amp :: buf)
      else if is_alnum c || (c =? c_hash) then (Some (buf ++ [c]), [])
      else (None, c_amp :: buf ++ [c])
  end.

Fixpoint unesc_run (p : option str) (s : str) : str :=
  match s with
  | [] => match p with Some buf => c_amp :: buf | None => [] end
  | c :: s' => let '(p', out) := unesc_step p c in out ++ unesc_run p' s'
  end.

Definition unescape (s : str) : str := unesc_run None s.

(* ------------------------------------------------------------------ *)
(* decimal rendering of numbers (Display of u32/usize) *)
Fixpoint uint_chars (u : Decimal.uint) : str :=
  match u with
  | Decimal.Nil => []
  | Decimal.D0 u => 48 :: uint_chars u
  | Decimal.D1 u => 49 :: uint_chars u
  | Decimal.D2 u => 50 :: uint_chars u
  | Decimal.D3 u => 51 :: uint_chars u
  | Decimal.D4 u => 52 :: uint_chars u
  | Decimal.D5 u => 53 :: uint_chars u
  | Decimal.D6 u => 54 :: uint_chars u
  | Decimal.D7 u => 55 :: uint_chars u
  | Decimal.D8 u => 56 :: uint_chars u
  | Decimal.D9 u => 57 :: uint_chars u
  end.
Definition dec (n : N) : str := uint_chars (N.to_uint n).

(* ------------------------------------------------------------------ *)
(* page templates *)
Inductive kind :=
| KRaw      (* interpolated as is *)
| KSafe     (* html_escape::encode_safe *)
| KDq.      (* html_escape::encode_double_quoted_attribute *)

Inductive seg :=
| Lit (s : str)            (* text of the template itself *)
| Num (n : N)              (* Display of an integer *)
| Fld (k : kind) (v : str) (* a string value, escaped as [k] says *).

Definition template := list seg.

Definition apply_kind (k : kind) (v : str) : str :=
  match k with KRaw => v | KSafe => encode_safe v | KDq => encode_dq_attr v end.

Definition render_seg (s : seg) : str :=
  match s with Lit s => s | Num n => dec n | Fld k v => apply_kind k v end.

Definition render (t : template) : str := flat_map render_seg t.

(* the same template with every value blanked *)
Definition blank_seg (s : seg) : seg :=
  match s with Lit s => Lit s | Num n => Num 0 | Fld k _ => Fld k [] end.

(* two instances of one template: same literals, same kinds, any values *)
Definition same_shape_seg (a b : seg) : bool :=
  match a, b with
  | Lit x, Lit y => str_eqb x y
  | Num _, Num _ => true
  | Fld KRaw _, Fld KRaw _ | Fld KSafe _, Fld KSafe _ | Fld KDq _, Fld KDq _ => true
  | _, _ => false
  end.
Fixpoint same_shape (a b : template) : bool :=
  match a, b with
  | [], [] => true
  | x :: a', y :: b' => same_shape_seg x y && same_shape a' b'
  | _, _ => false
  end.

(* ------------------------------------------------------------------ *)
(* a small HTML tokenizer: the "structure of the document" of the property.
   Data: '<' opens a tag, everything else is text. In a tag: name, then
   attributes name[=value], value double-quoted, single-quoted or unquoted;
   '>' closes the tag except inside a quoted value. (A simplification of the
   WHATWG tokenizer that agrees with it on the documents rendered here:
   no comments, CDATA, or raw-text elements with markup inside.) *)
Inductive mode := MData | MTagName | MBeforeAttr | MAttrName | MBeforeVal | MAttrDQ | MAttrSQ | MAttrUQ.

Record tst := MkT { t_mode : mode; t_nm : str; t_attrs : list (str * str); t_an : str; t_av : str }.

Inductive ev :=
| EText (c : N)
| ETag (nm : str) (attrs : list (str * str)).

Definition t0 : tst := MkT MData [] [] [] [].

Definition tok_step (st : tst) (c : N) : tst * list ev :=
  let nm := t_nm st in let attrs := t_attrs st in let an := t_an st in let av := t_av st in
  match t_mode st with
  | MData =>
      if c =? c_lt then (MkT MTagName [] [] [] [], []) else (st, [EText c])
  | MTagName =>
      if c =? c_gt then (t0, [ETag nm []])
      else if is_ws c then (MkT MBeforeAttr nm [] [] [], [])
      else (MkT MTagName (nm ++ [c]) [] [] [], [])
  | MBeforeAttr =>
      if c =? c_gt then (t0, [ETag nm attrs])
      else if is_ws c then (st, [])
      else (MkT MAttrName nm attrs [c] [], [])
  | MAttrName =>
      if c =? c_eq then (MkT MBeforeVal nm attrs an [], [])
      else if c =? c_gt then (t0, [ETag nm (attrs ++ [(an, [])])])
      else if is_ws c then (MkT MBeforeAttr nm (attrs ++ [(an, [])]) [] [], [])
      else (MkT MAttrName nm attrs (an ++ [c]) [], [])
  | MBeforeVal =>
      if c =? c_dq then (MkT MAttrDQ nm attrs an [], [])
      else if c =? c_sq then (MkT MAttrSQ nm attrs an [], [])
      else if c =? c_gt then (t0, [ETag nm (attrs ++ [(an, [])])])
      else if is_ws c then (st, [])
      else (MkT MAttrUQ nm attrs an [c], [])
  | MAttrDQ =>
      if c =? c_dq then (MkT MBeforeAttr nm (attrs ++ [(an, av)]) [] [], [])
      else (MkT MAttrDQ nm attrs an (av ++ [c]), [])
  | MAttrSQ =>
      if c =? c_sq then (MkT MBeforeAttr nm (attrs ++ [(an, av)]) [] [], [])
      else (MkT MAttrSQ nm attrs an (av ++ [c]), [])
  | MAttrUQ =>
      if c =? c_gt then (t0, [ETag nm (attrs ++ [(an, av)])])
      else if is_ws c then (MkT MBeforeAttr nm (attrs ++ [(an, av)]) [] [], [])
      else (MkT MAttrUQ nm attrs an (av ++ [c]), [])
  end.

Fixpoint tok_run (st : tst) (s : str) : tst * list ev :=
  match s with
  | [] => (st, [])
  | c :: s' =>
      let '(st1, e1) := tok_step st c in
      let '(st2, e2) := tok_run st1 s' in
      (st2, e1 ++ e2)
  end.

Definition tokenise (s : str) : list ev := snd (tok_run t0 s).

(* the tag skeleton: tags with their attribute names, no text, no values *)
Fixpoint skeleton (evs : list ev) : list (str * list str) :=
  match evs with
  | [] => []
  | EText _ :: r => skeleton r
  | ETag nm attrs :: r => (nm, map fst attrs) :: skeleton r
  end.

Definition page_skeleton (t : template) : list (str * list str) :=
  skeleton (tokenise (render t)).

(* where may a value escaped as [k] be placed? *)
Definition kind_ok (k : kind) (m : mode) : bool :=
  match k, m with
  | KSafe, (MData | MAttrDQ | MAttrSQ) => true
  | KDq, (MData | MAttrDQ) => true
  | _, _ => false
  end.
Definition num_ok (m : mode) : bool :=
  match m with MData | MAttrDQ | MAttrSQ => true | _ => false end.

(* [tpl_ok_from st t]: walking the template with all values blank, every
   field is met in a context its escaping is made for. Decidable, does not
   look at the values. *)
Fixpoint tpl_ok_from (st : tst) (t : template) : bool :=
  match t with
  | [] => true
  | Lit s :: t' => tpl_ok_from (fst (tok_run st s)) t'
  | Num _ :: t' => num_ok (t_mode st) && tpl_ok_from st t'
  | Fld k _ :: t' => kind_ok k (t_mode st) && tpl_ok_from st t'
  end.
Definition tpl_ok (t : template) : bool := tpl_ok_from t0 t.

(* ------------------------------------------------------------------ *)
(* the pages *)

(* one connected router as the pages see it *)
Record router := MkRouter {
  r_id : N;                              (* ingress id *)
  r_addr : option (N * N * N * N);       (* remote address (IPv4), if registered *)
  r_tlvs : option (list str * list str * list str);
      (* Some (sysName TLVs, sysDesc TLVs, string TLVs) once the Initiation
         message was processed (state Dumping/Updating), None before *)
  r_errs : list (bool * str);            (* parse errors pushed so far: (recoverable, text), oldest first *)
  r_peers : list (N * N * N * N * N)     (* peers that are up: IPv4 address, AS number *)
}.

Definition bar : str := $ "|".
Definition sys_name (r : router) : str :=
  match r_tlvs r with Some (n, _, _) => join bar n | None => [] end.
Definition sys_desc (r : router) : str :=
  match r_tlvs r with Some (_, d, _) => join bar d | None => [] end.
Definition sys_extra (r : router) : str :=
  match r_tlvs r with Some (_, _, e) => join bar e | None => [] end.

Definition addr_segs (a : option (N * N * N * N)) : template :=
  match a with
  | Some (a, b, c, d) => [Num a; Lit ($ "."); Num b; Lit ($ "."); Num c; Lit ($ "."); Num d]
  | None => [Lit ($ "0.0.0.0")]
  end.

Definition page_head : str := $
"<!DOCTYPE html>
<html lang=""en"">
    <head>
    <meta charset=""UTF-8"">
    <style>
        table {
        border-collapse: collapse;
        }
        th, td {
        border: 1px solid black;
        padding: 2px 20px 2px 20px;
        }
    </style>
    </head>
    <body>
".

(* router_list/response.rs. MAX_INFO_TLV_LEN = 60. *)
Definition max_info_tlv_len : nat := 60.
Definition truncate_tlv (s : str) : str := firstn max_info_tlv_len s.

Definition list_header (n : N) : template :=
  [Lit page_head; Lit ($ "    <pre>Showing "); Num n; Lit ($ " monitored routers:
    <table>
        <tr>
            <th>Ingress ID</th>
            <th>Router Address</th>
            <th>sysName</th>
            <th>sysDesc</th>
            <th>State</th>
            <th># Peers Up/EoR Capable/Dumping</th>
            <th># Invalid Messages (Soft/Hard Parse Errors)</th>
        </tr>
")].

Definition list_footer : template :=
  [Lit ($ "      </table>
    </pre>
  </body>
</html>
")].

Definition a_open : str := $ "<td><a href=""".
Definition a_mid : str := $ """>".
Definition a_close : str := $ "</a></td>
".

Definition count_soft (r : router) : N := N.of_nat (List.length (filter (fun e => fst e) (r_errs r))).
Definition count_hard (r : router) : N := N.of_nat (List.length (filter (fun e => negb (fst e)) (r_errs r))).
Definition count_peers (r : router) : N := N.of_nat (List.length (r_peers r)).

(* [kname], [kdesc]: how the two TLV strings are interpolated *)
Definition list_row_gen (kname kdesc : kind) (trunc : str -> str) (path : str) (r : router) : template :=
  match r_tlvs r with
  | Some _ =>
      [Lit ($ "<tr>
"); Lit a_open; Fld KDq path; Num (r_id r); Lit a_mid; Num (r_id r); Lit a_close;
       Lit a_open; Fld KDq path] ++ addr_segs (r_addr r) ++ [Lit a_mid] ++ addr_segs (r_addr r) ++ [Lit a_close;
       Lit a_open; Fld KDq path; Fld kname (trunc (sys_name r)); Lit a_mid; Fld kname (trunc (sys_name r)); Lit a_close;
       Lit ($ "<td>"); Fld kdesc (trunc (sys_desc r)); Lit ($ "</td>
<td>Dumping</td>
<td>"); Num (count_peers r); Lit ($ "/0 (0%)/0 (0%)</td>
<td>0 ("); Num (count_soft r); Lit ($ "/"); Num (count_hard r); Lit ($ ")</td>
</tr>
")]
  | None =>
      [Lit ($ "<tr>
"); Lit a_open; Fld KDq path; Num (r_id r); Lit a_mid; Num (r_id r); Lit a_close;
       Lit ($ "<td>-</td>
<td>-</td>
<td>-</td>
<td>-</td>
<td>-</td>
<td>-</td>
</tr>
")]
  end.

Definition list_row := list_row_gen KSafe KSafe truncate_tlv.

Definition list_page (path : str) (rs : list router) : template :=
  list_header (N.of_nat (List.length rs)) ++ flat_map (list_row path) rs ++ list_footer.

(* router_info/response.rs *)
Definition info_head : template := [Lit page_head; Lit ($ "    <pre>
")].
Definition info_footer : template := [Lit ($ "    </pre>
  </body>
</html>
")].

(* the ring buffer of parse errors keeps the 10 most recent *)
Definition max_recent_parse_errors : nat := 10.
Definition recent_errs (r : router) : list (bool * str) :=
  skipn (List.length (r_errs r) - max_recent_parse_errors) (r_errs r).

Definition err_seg (kmsg : kind) (e : bool * str) : template :=
  [Lit ($ "  When: T
  What: "); Fld kmsg (snd e); Lit ($ "
  Soft: "); Lit (if fst e then $ "true" else $ "false"); Lit ($ "
  PCAP: None

")].

(* Display of a PerPeerHeader with the fixed BGP id of the test encoder *)
Definition peer_key (p : N * N * N * N * N) : template :=
  let '(a, b, c, d, asn) := p in
  [Num a; Lit ($ "."); Num b; Lit ($ "."); Num c; Lit ($ "."); Num d; Lit ($ "/AS"); Num asn;
   Lit ($ "/[01, 02, 03, 04]")].

(* [focus]: the peer key of a /flags/<key> request, compared with Display of the peer *)
Definition peer_row (kbase : kind) (base : str) (focus : option str) (p : N * N * N * N * N) : template :=
  [Lit ($ "<tr><td>T</td><td>A</td><td>AS</td><td></td><td>00000000 [<a href="""); Fld kbase base;
   Lit ($ "/flags/")] ++ peer_key p ++ [Lit ($ """>more</a>]</td></tr>
")] ++
  match focus with
  | Some k =>
      if str_eqb k (render (peer_key p)) then
        [Lit ($ "<tr><td colspan=6><pre>
    Peer Details: [<a href="""); Fld kbase base; Lit ($ """>close</a>]
        details
</pre></td></tr>
")]
      else []
  | None => []
  end.

Definition peers_table (kbase : kind) (base : str) (focus : option str) (r : router) : template :=
  match r_tlvs r with
  | Some _ =>
      [Lit ($ "<table>
<tr>
    <th>Timestamp</th>
    <th>IP Address</th>
    <th>ASN</th>
    <th>Prefixes</th>
    <th>Flags</th>
</tr>
")] ++ flat_map (peer_row kbase base focus) (r_peers r) ++ [Lit ($ "</table>
")]
  | None => []
  end.

(* [kf]: how sys_name, sys_desc, sys_extra and the parse-error text are
   interpolated; [kbase]: how the request-derived base path is. *)
Definition info_page_gen (kf kbase : kind) (base : str) (focus : option str) (r : router) : template :=
  info_head ++
  [Lit ($ "Router:
    Ingress      : "); Num (r_id r); Lit ($ "
    State:       : S [Initiating -> Dumping -> Updating -> Terminated, or Aborted]
    SysName      : "); Fld kf (sys_name r); Lit ($ "
    SysDesc      : "); Fld kf (sys_desc r); Lit ($ "
    Extra        : "); Fld kf (sys_extra r); Lit ($ "
Timers:
    Connected at : T
    Last message : T
Counters:
    Problem Msgs : 0 issues (e.g. RFC violation, parsing retried/failed, etc)
    BGP UPDATEs:
        Soft Fail: "); Num (count_soft r); Lit ($ "
        Hard Fail: "); Num (count_hard r); Lit ($ "
    Announce     : 0
    Withdraw     : 0
    Peers Up     : "); Num (count_peers r); Lit ($ "
    EoR Capable  : 0
    Dumping      : 0

Parse Errors: (most recent only)
")] ++ flat_map (err_seg kf) (recent_errs r) ++
  [Lit ($ "

Peers:
")] ++ peers_table kbase base focus r ++ [Lit ($ "
")] ++ info_footer.

(* the code on the current tree (after the C19 repair): the strings with
   encode_safe, the base path with encode_double_quoted_attribute *)
Definition info_page := info_page_gen KSafe KDq.
(* the code as found (e224a89): raw interpolation *)
Definition info_page_legacy := info_page_gen KRaw KRaw.

(* ---- router_info/request.rs: which router string a request path names --- *)
Fixpoint find_sub_go (pat : str) (s : str) (acc : str) : option (str * str) :=
  (* str::split_once: first occurrence *)
  match s with
  | [] => if starts_with pat [] then Some (rev acc, []) else None
  | c :: s' =>
      if starts_with pat s then Some (rev acc, skipn (List.length pat) s)
      else find_sub_go pat s' (c :: acc)
  end.
Definition split_once (pat s : str) : option (str * str) := find_sub_go pat s [].


(* units/bmp_tcp_in/util.rs:43-66 format_source_id. [replace_all] is
   str::replace (non-overlapping, left to right; patterns are non-empty). The
   sysName argument is unused by the code on this tree: {sys_name} expands to
   the ingress id. *)
Fixpoint replace_go (pat rep : str) (skip : nat) (s : str) : str :=
  match s with
  | [] => []
  | c :: s' =>
      match skip with
      | S k => replace_go pat rep k s'
      | O =>
          if starts_with pat s then rep ++ replace_go pat rep (List.length pat - 1) s'
          else c :: replace_go pat rep 0 s'
      end
  end.
Definition replace_all (pat rep s : str) : str := replace_go pat rep 0 s.

Definition format_source_id (tpl : str) (sysname : str) (id : N) : str :=
  replace_all ($ "{router_port}") ($ "PORT")
    (replace_all ($ "{router_ip}") ($ "IP")
       (replace_all ($ "{sys_name}") (dec id) tpl)).

Definition addr_str (r : router) : str :=
  match r_addr r with Some _ => render (addr_segs (r_addr r)) | None => [] end.

(* RouterInfoApi::process_request: [api] = configured http_api_path, [tpl] =
   router id template, [req] = percent-decoded request path. None = the
   processor declines (the server answers 404). *)
Definition info_route (api tpl req : str) (r : router) : option (str * option str) :=
  if starts_with api req then
    let rest := skipn (List.length api) req in
    match rest with
    | [] => None
    | _ =>
        let '(router, focus) :=
          match split_once ($ "/prefixes/") rest with
          | Some (a, b) => (a, Some b)
          | None =>
              match split_once ($ "/flags/") rest with
              | Some (a, b) => (a, Some b)
              | None => (rest, None)
              end
          end in
        if str_eqb router (dec (r_id r)) || str_eqb router (format_source_id tpl (sys_name r) (r_id r))
           || str_eqb router (sys_name r) || str_eqb router (addr_str r)
        then Some (api ++ router, focus) else None
    end
  else None.

Definition info_request_gen (kf kbase : kind) (api tpl req : str) (r : router) : option template :=
  match info_route api tpl req r with
  | Some (base, focus) => Some (info_page_gen kf kbase base focus r)
  | None => None
  end.
Definition info_request := info_request_gen KSafe KDq.
Definition info_request_legacy := info_request_gen KRaw KRaw.

(* ---- the list page as found (e224a89): escape first, then slice the
   escaped string at BYTE 61 (&s[0..=60]); a slice that does not end on a
   char boundary panics. None = panic. *)
Definition utf8_len (c : N) : N :=
  if c <? 128 then 1 else if c <? 2048 then 2 else if c <? 65536 then 3 else 4.
Definition byte_len (s : str) : N := fold_right (fun c a => utf8_len c + a) 0 s.
Fixpoint take_bytes (n : N) (s : str) : option str :=
  match s with
  | [] => Some []
  | c :: s' =>
      if n =? 0 then Some []
      else if n <? utf8_len c then None
      else match take_bytes (n - utf8_len c) s' with Some r => Some (c :: r) | None => None end
  end.
Definition legacy_trunc (s : str) : option str :=
  let e := encode_safe s in
  if 60 <? byte_len e then take_bytes 61 e else Some e.

Definition list_row_legacy (path : str) (r : router) : option template :=
  match r_tlvs r with
  | Some _ =>
      match legacy_trunc (sys_name r), legacy_trunc (sys_desc r) with
      | Some n, Some d =>
          Some (list_row_gen KRaw KRaw (fun s => s) path
                  (MkRouter (r_id r) (r_addr r) (Some ([n], [d], [])) (r_errs r) (r_peers r)))
      | _, _ => None
      end
  | None => Some (list_row path r)
  end.
Fixpoint list_rows_legacy (path : str) (rs : list router) : option template :=
  match rs with
  | [] => Some []
  | r :: rs' =>
      match list_row_legacy path r, list_rows_legacy path rs' with
      | Some a, Some b => Some (a ++ b)
      | _, _ => None
      end
  end.
Definition list_page_legacy (path : str) (rs : list router) : option template :=
  match list_rows_legacy path rs with
  | Some rows => Some (list_header (N.of_nat (List.length rs)) ++ rows ++ list_footer)
  | None => None
  end.

(* ------------------------------------------------------------------ *)
(* what a reader sees: decoded text and decoded attribute values *)
Fixpoint text_of (evs : list ev) : str :=
  match evs with
  | [] => []
  | EText c :: r => c :: text_of r
  | ETag _ _ :: r => text_of r
  end.
Definition page_text (s : str) : str := unescape (text_of (tokenise s)).

Fixpoint contains (pat s : str) : bool :=
  match s with
  | [] => starts_with pat []
  | _ :: s' => starts_with pat s || contains pat s'
  end.

(* ------------------------------------------------------------------ *)
(* Prometheus exposition: metrics.rs Records::suffixed_label_value writes
   name="value" pairs with NO escaping of the value. *)
Definition prom_label (nv : str * str) : str := fst nv ++ $ "=""" ++ snd nv ++ $ """".
Definition prom_labels (ls : list (str * str)) : str :=
  $ "{" ++ join ($ ",") (map prom_label ls) ++ $ "}".
Definition prom_sample (name : str) (ls : list (str * str)) (value : str) : str :=
  name ++ prom_labels ls ++ $ " " ++ value ++ [c_nl].

(* the reader of the exposition format: label set parser with the escapes
   the format defines: backslash-backslash, backslash-quote, backslash-n *)
Inductive pmode := PStart | PName | PAfterEq | PVal | PValEsc | PAfterVal | PDone | PErr.
Record pst := MkP { p_mode : pmode; p_name : str; p_val : str; p_out : list (str * str) }.

Definition is_name_char (c : N) : bool := is_alnum c || (c =? 95).

Definition prom_step (st : pst) (c : N) : pst :=
  let nm := p_name st in let v := p_val st in let out := p_out st in
  match p_mode st with
  | PStart => if c =? 123 then MkP PName [] [] out else MkP PErr nm v out
  | PName =>
      if is_name_char c then MkP PName (nm ++ [c]) [] out
      else if c =? c_eq then MkP PAfterEq nm [] out
      else if (c =? 125) && (match nm with [] => true | _ => false end) then MkP PDone [] [] out
      else MkP PErr nm v out
  | PAfterEq => if c =? c_dq then MkP PVal nm [] out else MkP PErr nm v out
  | PVal =>
      if c =? c_dq then MkP PAfterVal [] [] (out ++ [(nm, v)])
      else if c =? c_bsl then MkP PValEsc nm v out
      else if c =? c_nl then MkP PErr nm v out
      else MkP PVal nm (v ++ [c]) out
  | PValEsc =>
      if c =? 110 then MkP PVal nm (v ++ [c_nl]) out
      else if (c =? c_dq) || (c =? c_bsl) then MkP PVal nm (v ++ [c]) out
      else MkP PErr nm v out
  | PAfterVal =>
      if c =? 44 then MkP PName [] [] out
      else if c =? 125 then MkP PDone [] [] out
      else MkP PErr nm v out
  | PDone => MkP PErr nm v out
  | PErr => st
  end.

Definition prom_parse (s : str) : option (list (str * str)) :=
  let st := fold_left prom_step s (MkP PStart [] [] []) in
  match p_mode st with PDone => Some (p_out st) | _ => None end.

Definition prom_value_ok (v : str) : bool :=
  forallb (fun c => negb ((c =? c_dq) || (c =? c_bsl) || (c =? c_nl))) v.
Definition prom_name_ok (n : str) : bool :=
  forallb is_name_char n && match n with [] => false | _ => true end.

(* ------------------------------------------------------------------ *)
(* vocabulary of the theorem statements *)
(* two routers that differ only in what the routers themselves control
   (the TLV strings) or in numbers *)
Definition is_some {A} (o : option A) : bool := match o with Some _ => true | None => false end.

Definition row_alike (r1 r2 : router) : Prop :=
  is_some (r_tlvs r1) = is_some (r_tlvs r2) /\ is_some (r_addr r1) = is_some (r_addr r2).

(* two routers that differ only in router-controlled text and in numbers:
   same phase, same sequence of soft/hard flags, same peers *)
Definition info_alike (r1 r2 : router) : Prop :=
  is_some (r_tlvs r1) = is_some (r_tlvs r2) /\ map fst (r_errs r1) = map fst (r_errs r2) /\
  r_peers r1 = r_peers r2.

Definition mk_named (n : str) : router := MkRouter 1 None (Some ([n], [$ "d"], [])) [] [].

Definition mk_peered (n : str) : router :=
  MkRouter 1 None (Some ([n], [$ "d"], [])) [] [(10, 0, 0, 1, 65000)].

Definition label_ok (nv : str * str) : bool := prom_name_ok (fst nv) && prom_value_ok (snd nv).
