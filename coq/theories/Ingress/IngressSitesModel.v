(* The registration + lookup discipline of the units that use the ingress
   Register, as DATA. Definitions only; proofs are in IngressSitesProofs.v.

   "Looking up a returning source by its documented identity yields the
   identifier it had before" is a statement about every place that files a
   source in the register and every place that looks one up - not only about the
   register's methods: find_existing_peer compares (parent, address, AS, RIB
   view) EXACTLY, so a site that stores a field its unit's lookup does not
   supply (or the other way round) makes a returning source a stranger.

   A site = one place in a unit: which fields of what the unit knows about the
   source ([src : info]) it puts in its QUERY, which it STORES when it
   registers, which register method it looks up with, and whether it registers
   when the lookup finds nothing. The table [code_sites] is read off the code
   (anchors below) and compared with the code by engine c14u, which runs the
   real registration paths. *)
From stdpp Require Import gmap.
From Coq Require Import NArith.
From RV Require Import Ingress.IngressModel.

Inductive mkind := MPeer | MRouter.

Definition matcher (k : mkind) : info -> info -> bool :=
  match k with MPeer => peer_match | MRouter => router_match end.

(* which of the eight fields a site hands on *)
Record mask := MkMask { k_unit : bool; k_parent : bool; k_addr : bool; k_asn : bool;
                        k_rib : bool; k_file : bool; k_name : bool; k_desc : bool }.

Definition keep {A} (b : bool) (o : option A) : option A := if b then o else None.

Definition proj (k : mask) (s : info) : info :=
  MkInfo (keep (k_unit k) (i_unit s)) (keep (k_parent k) (i_parent s))
         (keep (k_addr k) (i_addr s)) (keep (k_asn k) (i_asn s))
         (keep (k_rib k) (i_rib s)) (keep (k_file k) (i_file s))
         (keep (k_name k) (i_name s)) (keep (k_desc k) (i_desc s)).

Record site := MkSite {
  s_class : N;                 (* which kind of source the site deals with (sites of one class must agree) *)
  s_lookup : option mkind;     (* None: the site never looks (every call files a new id) *)
  s_query : mask;
  s_registers : bool;          (* files the source when the lookup finds nothing *)
  s_store : mask }.

(* what a site does with a source on a register: the id it uses, if any *)
Definition site_register (r : reg) (s : site) (src : info) : reg * option N :=
  let '(id, r') := reg_register r in (reg_update_info r' id (proj (s_store s) src), Some id).

Definition site_step (r : reg) (s : site) (src : info) : reg * option N :=
  match s_lookup s with
  | Some k =>
      match reg_find_all (matcher k) r (proj (s_query s) src) with
      | id :: _ => (r, Some id)
      | [] => if s_registers s then site_register r s src else (r, None)
      end
  | None => if s_registers s then site_register r s src else (r, None)
  end.

(* every candidate the site's lookup has (the code takes the first in hash order) *)
Definition site_candidates (r : reg) (s : site) (src : info) : list N :=
  match s_lookup s with
  | Some k => reg_find_all (matcher k) r (proj (s_query s) src)
  | None => []
  end.

(* does the site file a new id for this source on this register? *)
Definition site_fresh (r : reg) (s : site) (src : info) : bool :=
  s_registers s && match site_candidates r s src with [] => true | _ => false end.

(* ---------- the sites of the code ---------- *)
Definition mk (u p a s rb f n d : bool) : mask := MkMask u p a s rb f n d.
Definition k_none : mask := mk false false false false false false false false.

Definition class_bmp_router : N := 1.
Definition class_bmp_peer : N := 2.
Definition class_bgp_session : N := 3.
Definition class_mrt_peer : N := 4.

(* bmp-tcp-in unit.rs accept loop: query = (parent = the unit's id, remote address),
   find_existing_bmp_router, else register + update_info(query) *)
Definition site_bmp_router : site :=
  MkSite class_bmp_router (Some MRouter) (mk false true true false false false false false) true
         (mk false true true false false false false false).

(* bmp-tcp-in state_machine/machine.rs add_peer_config: query = (parent = the router's id,
   per-peer header address, AS, RIB view), find_existing_peer, else register + update_info(query) *)
Definition site_bmp_peer : site :=
  MkSite class_bmp_peer (Some MPeer) (mk false true true true true false false false) true
         (mk false true true true true false false false).

(* bgp-tcp-in unit.rs accept loop: register() per accepted connection, no lookup;
   router_handler.rs on Established: update_info(name, remote address, remote AS) *)
Definition site_bgp_session : site :=
  MkSite class_bgp_session None k_none true (mk false false true true false false true false).

(* mrt-file-in unit.rs process_file, peer index table: register() per entry, no lookup,
   update_info(parent = the unit's id, address, AS, file name) *)
Definition site_mrt_dump : site :=
  MkSite class_mrt_peer None k_none true (mk false true true true false true false false).

(* mrt-file-in unit.rs process_message (BGP4MP message): query = (parent, address, AS),
   find_existing_peer, else register + update_info(query) *)
Definition site_mrt_update : site :=
  MkSite class_mrt_peer (Some MPeer) (mk false true true true false false false false) true
         (mk false true true true false false false false).

(* mrt-file-in unit.rs process_state_change (Established -> Idle): the same query, never registers *)
Definition site_mrt_state : site :=
  MkSite class_mrt_peer (Some MPeer) (mk false true true true false false false false) false k_none.

Definition code_sites : list site :=
  [site_bmp_router; site_bmp_peer; site_bgp_session; site_mrt_dump; site_mrt_update; site_mrt_state].

(* the refuted counterfactual (seeded change C14-b2): the dump site also stores a RIB view *)
Definition site_mrt_dump_rib : site :=
  MkSite class_mrt_peer None k_none true (mk false true true true true true false false).

(* ---------- agreement of a query with a stored entry, on the masks ---------- *)
Definition compat (k : mkind) (q st : mask) : bool :=
  match k with
  | MPeer => k_parent q && k_parent st && k_addr q && k_addr st && k_asn q && k_asn st
             && Bool.eqb (k_rib q) (k_rib st)
  | MRouter => k_parent q && k_parent st && k_addr q && k_addr st
  end.

(* what the unit must know about the source for a lookup of kind k *)
Definition src_ok (k : mkind) (src : info) : bool :=
  match k with
  | MPeer => is_some (i_parent src) && is_some (i_addr src) && is_some (i_asn src)
  | MRouter => is_some (i_parent src) && is_some (i_addr src)
  end.

(* every registering site of a class is found by every looking site of that class *)
Definition pair_ok (s_look s_reg : site) : bool :=
  match s_lookup s_look with
  | Some k =>
      if N.eqb (s_class s_look) (s_class s_reg) && s_registers s_reg
      then compat k (s_query s_look) (s_store s_reg) else true
  | None => true
  end.
Definition sites_consistent (l : list site) : bool :=
  forallb (fun s_look => forallb (pair_ok s_look) l) l.

(* ---------- histories ---------- *)
Inductive sop :=
| SSite (s : site) (src : info)        (* a site handles a source *)
| SMeta (id : N) (i : info).           (* update_info of an entry *)

Definition sstep (r : reg) (o : sop) : reg * option N :=
  match o with
  | SSite s src => site_step r s src
  | SMeta id i => (reg_update_info r id i, None)
  end.

Fixpoint srun_from (r : reg) (ops : list sop) : reg * list (option N) :=
  match ops with
  | [] => (r, [])
  | o :: ops' => let '(r1, x) := sstep r o in let '(r2, xs) := srun_from r1 ops' in (r2, x :: xs)
  end.
Definition srun (ops : list sop) : reg * list (option N) := srun_from reg_new ops.

(* updates of existing entries supply descriptive fields only (as [disc]) *)
Definition sdisc (o : sop) : bool :=
  match o with SMeta _ i => meta_only i | SSite _ _ => true end.

(* ... and, for "the id it had before is the ONLY candidate": a site is well
   formed if a peer-level site that registers stores what it asks for, and a
   router-level site stores no AS number (so its entries never answer a peer
   query); a site that files ids without looking (a table dump: every peer
   index entry gets a fresh id - known finding C16-1) must not be handed a
   peer that has an id already *)
Definition site_wf (s : site) : bool :=
  match s_lookup s with
  | Some MPeer => if s_registers s then compat MPeer (s_query s) (s_store s) else true
  | Some MRouter => negb (k_asn (s_store s))
  | None => true
  end.

Definition is_nil {A} (l : list A) : bool := match l with [] => true | _ => false end.

Definition sok (r : reg) (o : sop) : bool :=
  match o with
  | SMeta _ i => meta_only i
  | SSite s src =>
      site_wf s &&
      match s_lookup s with
      | Some MPeer => peer_complete (proj (s_query s) src)
      | Some MRouter => true
      | None => if s_registers s && peer_complete (proj (s_store s) src)
                then is_nil (reg_find_peers r (proj (s_store s) src)) else true
      end
  end.

Fixpoint sok_run (r : reg) (ops : list sop) : bool :=
  match ops with
  | [] => true
  | o :: ops' => sok r o && sok_run (fst (sstep r o)) ops'
  end.
