(* Model of src/ingress.rs: Register (serial : AtomicU32, info : RwLock<HashMap>).
   Definitions only; proofs are in IngressProofs.v.
   Every method of the real Register is a single atomic step (one fetch_add, or
   a method body under the RwLock), so a history of method calls in the model
   stands for every interleaving of those calls. *)
From stdpp Require Import gmap.
From Coq Require Import NArith.

Definition two32 : N := 4294967296%N.

(* IngressInfo: every field optional. Strings / addresses / paths are
   represented by numbers (the harness maps number k to a concrete value
   injectively). *)
Record info := MkInfo {
  i_unit : option N; i_parent : option N; i_addr : option N; i_asn : option N;
  i_rib : option N; i_file : option N; i_name : option N; i_desc : option N }.

Definition info_empty : info := MkInfo None None None None None None None None.

Record reg := MkReg { serial : N; infos : gmap N info }.

Definition reg_new : reg := MkReg 1%N ∅.

(* fetch_add(1) on an AtomicU32: returns the old value, wraps at 2^32 *)
Definition reg_register (r : reg) : N * reg :=
  (serial r, MkReg ((serial r + 1) mod two32)%N (infos r)).

Definition upd_field {A} (old new : option A) : option A :=
  match new with Some _ => new | None => old end.

Definition info_merge (old new : info) : info :=
  MkInfo (upd_field (i_unit old) (i_unit new)) (upd_field (i_parent old) (i_parent new))
         (upd_field (i_addr old) (i_addr new)) (upd_field (i_asn old) (i_asn new))
         (upd_field (i_rib old) (i_rib new)) (upd_field (i_file old) (i_file new))
         (upd_field (i_name old) (i_name new)) (upd_field (i_desc old) (i_desc new)).

Definition reg_update_info (r : reg) (id : N) (new : info) : reg :=
  MkReg (serial r)
        (<[ id := match infos r !! id with Some old => info_merge old new | None => new end ]> (infos r)).

Definition reg_get (r : reg) (id : N) : option info := infos r !! id.

Definition optN_eqb (a b : option N) : bool :=
  match a, b with Some x, Some y => N.eqb x y | None, None => true | _, _ => false end.

Definition is_some {A} (o : option A) : bool := match o with Some _ => true | None => false end.

Definition child_of (p : N) (i : info) : bool := optN_eqb (i_parent i) (Some p).

(* ids_for_parent: all ids whose parent is p (the code returns them in hash
   order; the model in key order; compared as sets). *)
Definition reg_ids_for_parent (r : reg) (p : N) : list N :=
  map fst (filter (fun kv => child_of p (snd kv) = true) (map_to_list (infos r))).

Definition peer_match (q i : info) : bool :=
  is_some (i_parent i) && is_some (i_addr i) && is_some (i_asn i)
  && optN_eqb (i_parent i) (i_parent q) && optN_eqb (i_asn i) (i_asn q)
  && optN_eqb (i_addr i) (i_addr q) && optN_eqb (i_rib i) (i_rib q).

Definition router_match (q i : info) : bool :=
  is_some (i_parent i) && is_some (i_addr i)
  && optN_eqb (i_parent i) (i_parent q) && optN_eqb (i_addr i) (i_addr q).

(* find_existing_*: the code returns the first match in hash order; the model
   returns every candidate. *)
Definition reg_find_all (m : info -> info -> bool) (r : reg) (q : info) : list N :=
  map fst (filter (fun kv => m q (snd kv) = true) (map_to_list (infos r))).
Definition reg_find_peers := reg_find_all peer_match.
Definition reg_find_routers := reg_find_all router_match.

(* The callers' composite (machine.rs add_peer_config, bmp unit.rs accept
   loop): reuse a found id, else register + update_info. [choose] picks one
   candidate: any choice function. *)
Definition find_or_register (m : info -> info -> bool) (r : reg) (q : info) : N * reg :=
  match reg_find_all m r q with
  | id :: _ => (id, r)
  | [] => let '(id, r') := reg_register r in (id, reg_update_info r' id q)
  end.

Inductive op :=
| ORegister
| OUpdate (id : N) (i : info)
| OGet (id : N)
| OChildren (p : N)
| OFindPeer (q : info)
| OFindRouter (q : info)
| OForPeer (q : info)
| OForRouter (q : info).

Inductive out :=
| RId (id : N)
| RUnit
| RInfo (o : option info)
| RIds (l : list N).

Definition step (r : reg) (o : op) : reg * out :=
  match o with
  | ORegister => let '(id, r') := reg_register r in (r', RId id)
  | OUpdate id i => (reg_update_info r id i, RUnit)
  | OGet id => (r, RInfo (reg_get r id))
  | OChildren p => (r, RIds (reg_ids_for_parent r p))
  | OFindPeer q => (r, RIds (reg_find_peers r q))
  | OFindRouter q => (r, RIds (reg_find_routers r q))
  | OForPeer q => let '(id, r') := find_or_register peer_match r q in (r', RId id)
  | OForRouter q => let '(id, r') := find_or_register router_match r q in (r', RId id)
  end.

Fixpoint run_from (r : reg) (ops : list op) : reg * list out :=
  match ops with
  | [] => (r, [])
  | o :: ops' => let '(r1, x) := step r o in let '(r2, xs) := run_from r1 ops' in (r2, x :: xs)
  end.

Definition run (ops : list op) : reg * list out := run_from reg_new ops.

(* the id handed out by a fresh registration, if the op performs one *)
Definition fresh (r : reg) (o : op) : option N :=
  match o with
  | ORegister => Some (serial r)
  | OForPeer q => match reg_find_peers r q with [] => Some (serial r) | _ => None end
  | OForRouter q => match reg_find_routers r q with [] => Some (serial r) | _ => None end
  | _ => None
  end.

Fixpoint fresh_ids_from (r : reg) (ops : list op) : list N :=
  match ops with
  | [] => []
  | o :: ops' =>
      let rest := fresh_ids_from (fst (step r o)) ops' in
      match fresh r o with Some id => id :: rest | None => rest end
  end.
Definition fresh_ids (ops : list op) : list N := fresh_ids_from reg_new ops.

(* discipline of the session-level callers: updates of existing entries only
   supply descriptive fields; peer queries are complete; router queries carry
   no AS number. *)
Definition meta_only (i : info) : bool :=
  negb (is_some (i_parent i)) && negb (is_some (i_addr i))
  && negb (is_some (i_asn i)) && negb (is_some (i_rib i)).
Definition peer_complete (q : info) : bool :=
  is_some (i_parent q) && is_some (i_addr q) && is_some (i_asn q).
Definition disc (o : op) : bool :=
  match o with
  | OUpdate _ i => meta_only i
  | OForPeer q => peer_complete q
  | OForRouter q => negb (is_some (i_asn q))
  | _ => true
  end.

(* discipline of the router-level callers (bmp_tcp_in unit.rs accept loop:
   find_existing_bmp_router(parent = the unit's own id, remote address), else
   register + update_info). router_match looks at (parent, address) only, so a
   PEER entry (parent = its router's id, address = the peer's) would answer a
   router query with the same two values. What keeps the two apart in the
   callers is that router queries name a UNIT id as parent and peer queries a
   ROUTER id: [units] is the set of unit ids; router queries are complete and
   have their parent in it, peer queries have their parent outside it. *)
Definition router_complete (q : info) : bool := is_some (i_parent q) && is_some (i_addr q).
Definition parent_in (units : N -> bool) (q : info) : bool :=
  match i_parent q with Some p => units p | None => false end.
Definition disc_r (units : N -> bool) (o : op) : bool :=
  disc o &&
  match o with
  | OForPeer q => negb (parent_in units q)
  | OForRouter q => router_complete q && parent_in units q
  | _ => true
  end.

(* the canonical choice of [units] for a history: the parents its router
   queries name; [disc_hist ops] then says that no peer query uses one of them *)
Definition router_parents (ops : list op) : list N :=
  flat_map (fun o => match o with
                     | OForRouter q => match i_parent q with Some p => [p] | None => [] end
                     | _ => []
                     end) ops.
Definition units_of (ops : list op) : N -> bool := fun p => existsb (N.eqb p) (router_parents ops).
Definition disc_hist (ops : list op) : bool := forallb (disc_r (units_of ops)) ops.
