From stdpp Require Import gmap.
From Coq Require Import NArith Lia.
From RV Require Import Ingress.IngressModel.

Local Open Scope N_scope.
Lemma two32_val : two32 = 4294967296. Proof. reflexivity. Qed.

(* ---------- freshness ---------- *)

Lemma step_serial r o :
  serial (fst (step r o)) =
  match fresh r o with Some _ => (serial r + 1) mod two32 | None => serial r end.
Proof.
  destruct o; cbn; try reflexivity.
  - unfold find_or_register, reg_find_peers. destruct (reg_find_all peer_match r q); reflexivity.
  - unfold find_or_register, reg_find_routers. destruct (reg_find_all router_match r q); reflexivity.
Qed.

Lemma fresh_is_serial r o id : fresh r o = Some id -> id = serial r.
Proof.
  destruct o; cbn; try discriminate.
  - intros [= <-]; reflexivity.
  - destruct (reg_find_peers r q); [intros [= <-]; reflexivity|discriminate].
  - destruct (reg_find_routers r q); [intros [= <-]; reflexivity|discriminate].
Qed.

Lemma fresh_ids_from_bounds ops : forall r,
  serial r + N.of_nat (length ops) < two32 ->
  NoDup (fresh_ids_from r ops) /\
  (forall id, id ∈ fresh_ids_from r ops -> serial r <= id < serial r + N.of_nat (length ops)) /\
  serial r <= serial (fst (run_from r ops)) <= serial r + N.of_nat (length ops).
Proof.
  induction ops as [|o ops IH]; intros r Hb; cbn [length] in Hb; rewrite ?Nat2N.inj_succ in Hb.
  - cbn. split; [constructor|]. split; [intros id Hid; inversion Hid|lia].
  - cbn [fresh_ids_from run_from length]. rewrite ?Nat2N.inj_succ.
    pose proof (step_serial r o) as Hs. pose proof two32_val as H32.
    destruct (step r o) as [r1 x] eqn:Est. cbn [fst] in *.
    assert (Hr1 : serial r <= serial r1 <= serial r + 1).
    { destruct (fresh r o); rewrite Hs; [|lia].
      rewrite N.mod_small by lia. lia. }
    destruct (IH r1) as (Hnd & Hin & Hser); [lia|].
    destruct (run_from r1 ops) as [r2 xs] eqn:Erun. cbn [fst] in *.
    destruct (fresh r o) as [id|] eqn:Ef.
    + apply fresh_is_serial in Ef as ->.
      assert (serial r1 = serial r + 1) as Hr1' by (rewrite Hs, N.mod_small; lia).
      split; [|split].
      * constructor; [|exact Hnd]. intros Hc. apply Hin in Hc. lia.
      * intros id [->|Hid]%elem_of_cons; [lia|]. apply Hin in Hid. lia.
      * lia.
    + split; [exact Hnd|]. split; [|lia].
      intros id Hid. apply Hin in Hid. lia.
Qed.

Lemma fresh_ids_nodup ops :
  N.of_nat (length ops) < two32 - 1 -> NoDup (fresh_ids ops).
Proof.
  intros H. apply (fresh_ids_from_bounds ops reg_new). cbn [serial reg_new]. unfold two32 in *. lia.
Qed.

(* the counter wraps: after 2^32 registrations the same id is handed out again *)
Fixpoint reg_n (n : nat) (r : reg) : reg :=
  match n with O => r | S n' => reg_n n' (snd (reg_register r)) end.

Lemma reg_n_serial n : forall r, serial r < two32 ->
  serial (reg_n n r) = (serial r + N.of_nat n) mod two32.
Proof.
  induction n as [|n IH]; intros r Hr.
  - cbn. rewrite N.add_0_r, N.mod_small; auto.
  - cbn [reg_n]. rewrite IH; cbn [reg_register snd serial].
    + rewrite N.add_mod_idemp_l by (unfold two32; lia). f_equal. lia.
    + apply N.mod_lt. unfold two32; lia.
Qed.

Lemma register_wraps r : serial r < two32 ->
  fst (reg_register (reg_n (N.to_nat two32) r)) = fst (reg_register r).
Proof.
  intros Hr. cbn [reg_register fst]. rewrite reg_n_serial by exact Hr.
  rewrite N2Nat.id. rewrite <- N.add_mod_idemp_r by (unfold two32; lia).
  rewrite N.mod_same by (unfold two32; lia). rewrite N.add_0_r. apply N.mod_small, Hr.
Qed.

(* ---------- lookups ---------- *)

Lemma elem_of_find_all m r q id :
  id ∈ reg_find_all m r q <-> exists i, infos r !! id = Some i /\ m q i = true.
Proof.
  unfold reg_find_all. rewrite elem_of_list_fmap. split.
  - intros ([k i] & -> & Hin). apply elem_of_list_filter in Hin as [Hm Hin].
    apply elem_of_map_to_list in Hin. exists i. split; assumption.
  - intros (i & Hl & Hm). exists (id, i). split; [reflexivity|].
    apply elem_of_list_filter. split; [exact Hm|]. apply elem_of_map_to_list, Hl.
Qed.

Lemma NoDup_find_all m r q : NoDup (reg_find_all m r q).
Proof.
  unfold reg_find_all.
  apply (NoDup_fmap_fst (filter (λ kv, m q kv.2 = true) (map_to_list (infos r)))).
  - intros k a b [_ Ha%elem_of_map_to_list]%elem_of_list_filter [_ Hb%elem_of_map_to_list]%elem_of_list_filter.
    congruence.
  - apply NoDup_filter, NoDup_map_to_list.
Qed.

Lemma optN_eqb_eq a b : optN_eqb a b = true <-> a = b.
Proof.
  destruct a, b; cbn; try (split; congruence).
  rewrite N.eqb_eq. split; congruence.
Qed.

Lemma elem_of_ids_for_parent r p id :
  id ∈ reg_ids_for_parent r p <-> exists i, infos r !! id = Some i /\ i_parent i = Some p.
Proof.
  unfold reg_ids_for_parent. rewrite elem_of_list_fmap. split.
  - intros ([k i] & -> & Hin). apply elem_of_list_filter in Hin as [Hm Hin].
    apply elem_of_map_to_list in Hin. exists i. split; [assumption|].
    unfold child_of in Hm. apply optN_eqb_eq in Hm. exact Hm.
  - intros (i & Hl & Hm). exists (id, i). split; [reflexivity|].
    apply elem_of_list_filter. split; [|apply elem_of_map_to_list, Hl].
    unfold child_of. apply optN_eqb_eq. exact Hm.
Qed.

Lemma NoDup_ids_for_parent r p : NoDup (reg_ids_for_parent r p).
Proof.
  unfold reg_ids_for_parent.
  apply (NoDup_fmap_fst (filter (λ kv, child_of p kv.2 = true) (map_to_list (infos r)))).
  - intros k a b [_ Ha%elem_of_map_to_list]%elem_of_list_filter [_ Hb%elem_of_map_to_list]%elem_of_list_filter.
    congruence.
  - apply NoDup_filter, NoDup_map_to_list.
Qed.

(* ---------- update_info keeps what it is not given ---------- *)

Definition field_updated {A} (old new res : option A) : Prop :=
  match new with Some _ => res = new | None => res = old end.

Lemma upd_field_spec {A} (old new : option A) : field_updated old new (upd_field old new).
Proof. destruct new; reflexivity. Qed.

Lemma update_info_fields r id new old :
  infos r !! id = Some old ->
  exists res, infos (reg_update_info r id new) !! id = Some res /\
    field_updated (i_unit old) (i_unit new) (i_unit res) /\
    field_updated (i_parent old) (i_parent new) (i_parent res) /\
    field_updated (i_addr old) (i_addr new) (i_addr res) /\
    field_updated (i_asn old) (i_asn new) (i_asn res) /\
    field_updated (i_rib old) (i_rib new) (i_rib res) /\
    field_updated (i_file old) (i_file new) (i_file res) /\
    field_updated (i_name old) (i_name new) (i_name res) /\
    field_updated (i_desc old) (i_desc new) (i_desc res).
Proof.
  intros Ho. unfold reg_update_info. cbn [infos]. rewrite Ho, lookup_insert.
  eexists; split; [reflexivity|]. cbn. repeat split; apply upd_field_spec.
Qed.

Lemma update_info_new r id new :
  infos r !! id = None -> infos (reg_update_info r id new) !! id = Some new.
Proof. intros Ho. unfold reg_update_info. cbn [infos]. rewrite Ho, lookup_insert. reflexivity. Qed.

Lemma update_info_others r id new k :
  k <> id -> infos (reg_update_info r id new) !! k = infos r !! k.
Proof. intros Hk. unfold reg_update_info. cbn [infos]. apply lookup_insert_ne. congruence. Qed.

Lemma update_info_serial r id new : serial (reg_update_info r id new) = serial r.
Proof. reflexivity. Qed.

(* ---------- lookup stability ---------- *)

Definition ident (i : info) := (i_parent i, i_addr i, i_asn i, i_rib i).

Lemma is_some_true {A} (o : option A) : is_some o = true <-> exists x, o = Some x.
Proof. destruct o; cbn; split; try congruence; eauto. intros [x Hx]; congruence. Qed.

Lemma peer_match_spec q i :
  peer_match q i = true <->
  (exists p a s, i_parent i = Some p /\ i_addr i = Some a /\ i_asn i = Some s) /\
  i_parent i = i_parent q /\ i_asn i = i_asn q /\ i_addr i = i_addr q /\ i_rib i = i_rib q.
Proof.
  unfold peer_match. rewrite !andb_true_iff, !optN_eqb_eq, !is_some_true. split.
  - intros (((((([p Hp] & [a Ha]) & [s Hs]) & H1) & H2) & H3) & H4). eauto 12.
  - intros ((p & a & s & Hp & Ha & Hs) & H1 & H2 & H3 & H4). eauto 12.
Qed.

Lemma router_match_spec q i :
  router_match q i = true <->
  (exists p a, i_parent i = Some p /\ i_addr i = Some a) /\
  i_parent i = i_parent q /\ i_addr i = i_addr q.
Proof.
  unfold router_match. rewrite !andb_true_iff, !optN_eqb_eq, !is_some_true. split.
  - intros ((([p Hp] & [a Ha]) & H1) & H2). eauto 12.
  - intros ((p & a & Hp & Ha) & H1 & H2). eauto 12.
Qed.

Lemma bool_ext (a b : bool) : (a = true <-> b = true) -> a = b.
Proof. destruct a, b; intros [H1 H2]; try reflexivity; [symmetry; apply H1|apply H2]; reflexivity. Qed.

Lemma peer_match_ident q i j : ident i = ident j -> peer_match q i = peer_match q j.
Proof.
  unfold ident. intros [= H1 H2 H3 H4]. apply bool_ext. rewrite !peer_match_spec, H1, H2, H3, H4. reflexivity.
Qed.

Lemma meta_only_spec i : meta_only i = true <-> ident i = (None, None, None, None).
Proof.
  unfold meta_only, ident. destruct (i_parent i), (i_addr i), (i_asn i), (i_rib i); cbn; split; congruence.
Qed.

Lemma ident_merge_meta_old old new : meta_only old = true -> ident (info_merge old new) = ident new.
Proof.
  rewrite meta_only_spec. unfold ident. intros [= H1 H2 H3 H4]. cbn. rewrite H1, H2, H3, H4.
  destruct (i_parent new), (i_addr new), (i_asn new), (i_rib new); reflexivity.
Qed.

Lemma ident_merge_meta_new old new : meta_only new = true -> ident (info_merge old new) = ident old.
Proof.
  rewrite meta_only_spec. unfold ident. intros [= H1 H2 H3 H4]. cbn. rewrite H1, H2, H3, H4. reflexivity.
Qed.

Lemma peer_match_meta q i : meta_only i = true -> peer_match q i = false.
Proof.
  rewrite meta_only_spec. unfold ident. intros [= H1 H2 H3 H4].
  destruct (peer_match q i) eqn:E; [|reflexivity].
  apply peer_match_spec in E as ((p & a & s & Hp & _) & _). congruence.
Qed.

(* a stored entry that matches q answers exactly the queries q answers *)
Lemma peer_match_trans q v i : peer_match q v = true -> peer_match q i = peer_match v i.
Proof.
  intros Hv. apply peer_match_spec in Hv as (_ & H1 & H2 & H3 & H4).
  apply bool_ext. rewrite !peer_match_spec, H1, H2, H3, H4. reflexivity.
Qed.

Lemma find_all_ext m m' r q q' :
  (forall i, m q i = m' q' i) -> reg_find_all m r q = reg_find_all m' r q'.
Proof.
  intros H. unfold reg_find_all. f_equal. apply list_filter_iff. intros [k i]. cbn. rewrite H. reflexivity.
Qed.

Definition Below (r : reg) : Prop :=
  forall k i, infos r !! k = Some i -> meta_only i = false -> k < serial r.

Lemma not_true_false b : b <> true -> b = false. Proof. destruct b; congruence. Qed.

Lemma Below_serial_meta r : Below r ->
  match infos r !! serial r with Some i => meta_only i = true | None => True end.
Proof.
  intros HB. destruct (infos r !! serial r) as [i|] eqn:E; [|exact I].
  destruct (meta_only i) eqn:Em; [reflexivity|]. specialize (HB _ _ E Em). lia.
Qed.

(* effect of a write on the answer to a query *)
Lemma find_all_write_nomatch m r k v q s' :
  m q v = false ->
  match infos r !! k with Some i => m q i = false | None => True end ->
  forall x, x ∈ reg_find_all m (MkReg s' (<[k := v]> (infos r))) q <-> x ∈ reg_find_all m r q.
Proof.
  intros Hv Hold x. rewrite !elem_of_find_all. cbn [infos].
  destruct (decide (x = k)) as [->|Hne].
  - rewrite lookup_insert. split.
    + intros (i & [= <-] & Hm). congruence.
    + intros (i & Hi & Hm). rewrite Hi in Hold. congruence.
  - rewrite lookup_insert_ne by congruence. reflexivity.
Qed.

Lemma find_all_write_same m r k v q s' old :
  infos r !! k = Some old -> m q v = m q old ->
  forall x, x ∈ reg_find_all m (MkReg s' (<[k := v]> (infos r))) q <-> x ∈ reg_find_all m r q.
Proof.
  intros Hold Hv x. rewrite !elem_of_find_all. cbn [infos].
  destruct (decide (x = k)) as [->|Hne].
  - rewrite lookup_insert, Hold. split; intros (i & [= <-] & Hm); eexists; split; eauto; congruence.
  - rewrite lookup_insert_ne by congruence. reflexivity.
Qed.

Lemma find_all_write_fresh m r k v q s' :
  m q v = true -> reg_find_all m r q = [] ->
  forall x, x ∈ reg_find_all m (MkReg s' (<[k := v]> (infos r))) q <-> x = k.
Proof.
  intros Hv Hnil x. rewrite elem_of_find_all. cbn [infos].
  destruct (decide (x = k)) as [->|Hne].
  - rewrite lookup_insert. split; [reflexivity|]. intros _. eauto.
  - rewrite lookup_insert_ne by congruence. split; [|congruence].
    intros Hx. assert (x ∈ reg_find_all m r q) as Hin by (apply elem_of_find_all, Hx).
    rewrite Hnil in Hin. inversion Hin.
Qed.

(* one disciplined step either leaves the answer to a peer query alone or
   turns an empty answer into the freshly registered id *)
Lemma step_find_peers r o q :
  disc o = true -> Below r ->
  (forall x, x ∈ reg_find_peers (fst (step r o)) q <-> x ∈ reg_find_peers r q) \/
  (reg_find_peers r q = [] /\ fresh r o = Some (serial r) /\
   forall x, x ∈ reg_find_peers (fst (step r o)) q <-> x = serial r).
Proof.
  intros Hd HB. pose proof (Below_serial_meta r HB) as Hser.
  destruct o as [|id i|id|p|q'|q'|q'|q']; cbn [step fst disc fresh] in *; try (left; reflexivity).
  - (* update with descriptive fields only *)
    left. unfold reg_update_info, reg_find_peers.
    destruct (infos r !! id) as [old|] eqn:Eo.
    + apply (find_all_write_same peer_match r id _ q _ old Eo).
      apply peer_match_ident, ident_merge_meta_new, Hd.
    + apply find_all_write_nomatch; [apply peer_match_meta, Hd|rewrite Eo; exact I].
  - (* find-or-register a peer *)
    unfold find_or_register, reg_find_peers in *.
    destruct (reg_find_all peer_match r q') as [|id' rest] eqn:Ef; [|left; reflexivity].
    cbn [reg_register fst snd]. unfold reg_update_info. cbn [infos serial].
    set (v := match infos r !! serial r with Some old => info_merge old q' | None => q' end).
    assert (Hv : ident v = ident q').
    { subst v. destruct (infos r !! serial r); [apply ident_merge_meta_old, Hser|reflexivity]. }
    destruct (peer_match q v) eqn:Em.
    + right. assert (Hnil : reg_find_all peer_match r q = []).
      { rewrite <- Ef. apply find_all_ext. intros i. rewrite (peer_match_trans q v i Em).
        apply bool_ext. rewrite !peer_match_spec. unfold ident in Hv. injection Hv as -> -> -> ->. reflexivity. }
      split; [exact Hnil|]. split; [reflexivity|].
      apply find_all_write_fresh; assumption.
    + left. apply find_all_write_nomatch; [exact Em|].
      destruct (infos r !! serial r); [apply peer_match_meta, Hser|exact I].
  - (* find-or-register a router: never answers a peer query *)
    unfold find_or_register, reg_find_routers, reg_find_peers in *.
    destruct (reg_find_all router_match r q') as [|id' rest] eqn:Ef; [|left; reflexivity].
    left. cbn [reg_register fst snd]. unfold reg_update_info. cbn [infos serial].
    set (v := match infos r !! serial r with Some old => info_merge old q' | None => q' end).
    assert (Hv : ident v = ident q').
    { subst v. destruct (infos r !! serial r); [apply ident_merge_meta_old, Hser|reflexivity]. }
    apply find_all_write_nomatch.
    + apply not_true_false. intros Hm. apply peer_match_spec in Hm as ((p & a & s & _ & _ & Hs) & _).
      unfold ident in Hv. injection Hv as _ _ Hasn _. rewrite Hs in Hasn.
      rewrite <- Hasn in Hd. discriminate.
    + destruct (infos r !! serial r); [apply peer_match_meta, Hser|exact I].
Qed.

Lemma step_Below r o :
  disc o = true -> Below r -> serial r + 1 < two32 -> Below (fst (step r o)).
Proof.
  intros Hd HB Hlt. pose proof two32_val as H32.
  assert (Hgen : forall s' k v, serial r <= s' ->
     (k < s' \/ meta_only v = true) -> Below (MkReg s' (<[k := v]> (infos r)))).
  { intros s' k v Hs Hk k' i'. cbn [infos serial]. destruct (decide (k' = k)) as [->|Hne].
    - rewrite lookup_insert. intros [= <-] Hm. destruct Hk; [assumption|congruence].
    - rewrite lookup_insert_ne by congruence. intros Hl Hm. specialize (HB _ _ Hl Hm). lia. }
  destruct o as [|id i|id|p|q'|q'|q'|q']; cbn [step fst disc] in *; try exact HB.
  - intros k i Hl Hm. cbn [reg_register fst snd serial infos] in *. rewrite N.mod_small by lia.
    specialize (HB _ _ Hl Hm). lia.
  - unfold reg_update_info. destruct (infos r !! id) as [old|] eqn:Eo.
    + apply Hgen; [lia|]. destruct (meta_only old) eqn:Emo.
      * right. apply meta_only_spec. rewrite ident_merge_meta_new by exact Hd. apply meta_only_spec, Emo.
      * left. apply (HB _ _ Eo Emo).
    + apply Hgen; [lia|]. right; exact Hd.
  - unfold find_or_register. destruct (reg_find_all peer_match r q'); [|exact HB].
    cbn [reg_register fst snd]. unfold reg_update_info. cbn [infos serial].
    rewrite N.mod_small by lia. apply Hgen; [lia|]. left; lia.
  - unfold find_or_register. destruct (reg_find_all router_match r q'); [|exact HB].
    cbn [reg_register fst snd]. unfold reg_update_info. cbn [infos serial].
    rewrite N.mod_small by lia. apply Hgen; [lia|]. left; lia.
Qed.

Definition PeerUnique (r : reg) : Prop :=
  forall q x y, x ∈ reg_find_peers r q -> y ∈ reg_find_peers r q -> x = y.

Lemma step_PeerUnique r o :
  disc o = true -> Below r -> PeerUnique r -> PeerUnique (fst (step r o)).
Proof.
  intros Hd HB HU q x y Hx Hy.
  destruct (step_find_peers r o q Hd HB) as [H|(_ & _ & H)].
  - apply (HU q); apply H; assumption.
  - apply H in Hx, Hy. congruence.
Qed.

Definition answers (r : reg) (q : info) (id : N) : Prop :=
  forall x, x ∈ reg_find_peers r q <-> x = id.

Lemma step_answers r o q id :
  disc o = true -> Below r -> answers r q id -> answers (fst (step r o)) q id.
Proof.
  intros Hd HB HA x. destruct (step_find_peers r o q Hd HB) as [H|(Hnil & _ & H)].
  - rewrite H. apply HA.
  - exfalso. assert (id ∈ reg_find_peers r q) as Hin by (apply HA; reflexivity).
    rewrite Hnil in Hin. inversion Hin.
Qed.

Lemma run_from_cons r o ops :
  fst (run_from r (o :: ops)) = fst (run_from (fst (step r o)) ops).
Proof. cbn [run_from]. destruct (step r o) as [r1 x]. cbn [fst]. destruct (run_from r1 ops); reflexivity. Qed.

Lemma run_from_app r ops1 ops2 :
  fst (run_from r (ops1 ++ ops2)) = fst (run_from (fst (run_from r ops1)) ops2).
Proof.
  revert r. induction ops1 as [|o ops1 IH]; intros r; [reflexivity|].
  rewrite <- app_comm_cons, !run_from_cons. apply IH.
Qed.

Lemma run_invariants ops : forall r,
  forallb disc ops = true -> serial r + N.of_nat (length ops) < two32 ->
  Below r -> PeerUnique r ->
  Below (fst (run_from r ops)) /\ PeerUnique (fst (run_from r ops)) /\
  serial (fst (run_from r ops)) <= serial r + N.of_nat (length ops) /\
  forall q id, answers r q id -> answers (fst (run_from r ops)) q id.
Proof.
  induction ops as [|o ops IH]; intros r Hd Hlen HB HU; cbn [length] in Hlen; rewrite ?Nat2N.inj_succ in Hlen.
  - cbn. split; [exact HB|]. split; [exact HU|]. split; [lia|]. intros q id H; exact H.
  - cbn [forallb] in Hd. apply andb_true_iff in Hd as [Hdo Hd].
    rewrite run_from_cons. pose proof two32_val as H32.
    pose proof (step_serial r o) as Hs.
    assert (serial (fst (step r o)) <= serial r + 1) as Hs'.
    { rewrite Hs. destruct (fresh r o); [rewrite N.mod_small by lia|]; lia. }
    destruct (IH (fst (step r o)) Hd) as (B & U & S & A).
    + lia.
    + apply step_Below; [assumption..|lia].
    + apply step_PeerUnique; assumption.
    + cbn [length]. rewrite Nat2N.inj_succ. split; [exact B|]. split; [exact U|]. split; [lia|].
      intros q id Hq. apply A, step_answers; assumption.
Qed.

Lemma Below_new : Below reg_new. Proof. intros k i Hl. cbn in Hl. rewrite lookup_empty in Hl. discriminate. Qed.
Lemma PeerUnique_new : PeerUnique reg_new.
Proof. intros q x y Hx. unfold reg_find_peers in Hx. apply elem_of_find_all in Hx as (i & Hl & _). cbn in Hl. rewrite lookup_empty in Hl. discriminate. Qed.

(* find-or-register of a complete identity gives an id that answers the query *)
Lemma for_peer_answers r q :
  peer_complete q = true -> Below r -> PeerUnique r ->
  answers (snd (find_or_register peer_match r q)) q (fst (find_or_register peer_match r q)).
Proof.
  intros Hc HB HU. pose proof (step_find_peers r (OForPeer q) q Hc HB) as H.
  cbn [step fresh] in H. unfold find_or_register in *. fold (reg_find_peers r q) in *.
  destruct (reg_find_peers r q) as [|id rest] eqn:Ef.
  - cbn [reg_register fst snd] in *. destruct H as [H|(_ & _ & H)]; [|exact H].
    (* the new entry does match its own query *)
    exfalso. pose proof (Below_serial_meta r HB) as Hser.
    assert (serial r ∈ reg_find_peers (reg_update_info (MkReg ((serial r + 1) mod two32) (infos r)) (serial r) q) q) as Hin.
    { unfold reg_find_peers. apply elem_of_find_all. unfold reg_update_info. cbn [infos].
      eexists. rewrite lookup_insert. split; [reflexivity|].
      set (v := match infos r !! serial r with Some old => info_merge old q | None => q end).
      assert (Hv : ident v = ident q).
      { subst v. destruct (infos r !! serial r); [apply ident_merge_meta_old, Hser|reflexivity]. }
      rewrite (peer_match_ident q v q Hv). apply peer_match_spec.
      unfold peer_complete in Hc. rewrite !andb_true_iff, !is_some_true in Hc.
      destruct Hc as (([p Hp] & [a Ha]) & [s Hs]). split; eauto 10. }
    apply H in Hin. inversion Hin.
  - cbn [fst snd]. intros x. split.
    + intros Hx. apply (HU q); [exact Hx|]. rewrite Ef. left.
    + intros ->. rewrite Ef. left.
Qed.

Lemma for_peer_of_answers r q id :
  answers r q id -> find_or_register peer_match r q = (id, r).
Proof.
  intros HA. unfold find_or_register. fold (reg_find_peers r q).
  destruct (reg_find_peers r q) as [|x rest] eqn:Ef.
  - assert (id ∈ reg_find_peers r q) as Hin by (apply HA; reflexivity). rewrite Ef in Hin. inversion Hin.
  - assert (x = id) as -> by (apply HA; rewrite Ef; left). reflexivity.
Qed.

(* The identifier a peer got is the one it gets again after any disciplined history *)
Theorem lookup_stable_peer ops1 q ops2 :
  forallb disc (ops1 ++ OForPeer q :: ops2) = true ->
  N.of_nat (length (ops1 ++ OForPeer q :: ops2)) < two32 - 1 ->
  let r1 := fst (run ops1) in
  let id := fst (find_or_register peer_match r1 q) in
  let r2 := fst (run_from (snd (find_or_register peer_match r1 q)) ops2) in
  find_or_register peer_match r2 q = (id, r2) /\ reg_find_peers r2 q = [id].
Proof.
  intros Hd Hlen r1 id r2. pose proof two32_val as H32.
  rewrite forallb_app in Hd. apply andb_true_iff in Hd as [Hd1 Hd2].
  cbn [forallb] in Hd2. apply andb_true_iff in Hd2 as [Hdq Hd2]. cbn [disc] in Hdq.
  rewrite app_length in Hlen. cbn [length] in Hlen. rewrite Nat2N.inj_add, Nat2N.inj_succ in Hlen.
  destruct (run_invariants ops1 reg_new Hd1) as (B1 & U1 & S1 & _);
    [cbn [serial reg_new]; lia|apply Below_new|apply PeerUnique_new|].
  fold (run ops1) in *. fold r1 in B1, U1, S1. cbn [serial reg_new] in S1.
  pose proof (for_peer_answers r1 q Hdq B1 U1) as HA. fold id in HA.
  set (ra := snd (find_or_register peer_match r1 q)) in *.
  assert (Hra : ra = fst (step r1 (OForPeer q))).
  { subst ra. cbn [step]. destruct (find_or_register peer_match r1 q); reflexivity. }
  assert (Bra : Below ra) by (rewrite Hra; apply step_Below; [exact Hdq|exact B1|lia]).
  assert (Ura : PeerUnique ra) by (rewrite Hra; apply step_PeerUnique; assumption).
  assert (Sra : serial ra <= serial r1 + 1).
  { rewrite Hra, step_serial. destruct (fresh r1 (OForPeer q)); [rewrite N.mod_small by lia|]; lia. }
  destruct (run_invariants ops2 ra Hd2) as (_ & _ & _ & A2); [lia|assumption..|].
  specialize (A2 q id HA). fold r2 in A2.
  split; [apply for_peer_of_answers, A2|].
  pose proof (NoDup_find_all peer_match r2 q) as Hnd. fold (reg_find_peers r2 q) in Hnd.
  assert (Hall : forall x, x ∈ reg_find_peers r2 q -> x = id) by (intros x Hx; apply A2, Hx).
  assert (Hin : id ∈ reg_find_peers r2 q) by (apply A2; reflexivity).
  destruct (reg_find_peers r2 q) as [|x [|y rest]].
  - inversion Hin.
  - f_equal. apply Hall. left.
  - exfalso. assert (x = id) by (apply Hall; left). assert (y = id) by (apply Hall; right; left).
    subst. inversion Hnd as [|? ? Hni _]. apply Hni. left.
Qed.

(* ---------- lookup stability, generic in the matcher ----------
   [StepOK m D Q]: one step of discipline D either leaves the answer to a query
   of class Q alone or turns an empty answer into the freshly registered id.
   Everything downstream (uniqueness of the candidate, an answer once given
   stays, over whole histories) follows from that alone. *)
Definition StepOK (m : info -> info -> bool) (D : op -> bool) (Q : info -> Prop) : Prop :=
  forall r o q, D o = true -> Below r -> Q q ->
  (forall x, x ∈ reg_find_all m (fst (step r o)) q <-> x ∈ reg_find_all m r q) \/
  (reg_find_all m r q = [] /\ forall x, x ∈ reg_find_all m (fst (step r o)) q <-> x = serial r).

Definition UniqueG (m : info -> info -> bool) (Q : info -> Prop) (r : reg) : Prop :=
  forall q x y, Q q -> x ∈ reg_find_all m r q -> y ∈ reg_find_all m r q -> x = y.

Definition answersG (m : info -> info -> bool) (r : reg) (q : info) (id : N) : Prop :=
  forall x, x ∈ reg_find_all m r q <-> x = id.

Lemma step_UniqueG m D Q r o :
  StepOK m D Q -> D o = true -> Below r -> UniqueG m Q r -> UniqueG m Q (fst (step r o)).
Proof.
  intros HS Hd HB HU q x y HQ Hx Hy.
  destruct (HS r o q Hd HB HQ) as [H|(_ & H)].
  - apply (HU q); [exact HQ|apply H; assumption..].
  - apply H in Hx, Hy. congruence.
Qed.

Lemma step_answersG m D Q r o q id :
  StepOK m D Q -> D o = true -> Below r -> Q q -> answersG m r q id -> answersG m (fst (step r o)) q id.
Proof.
  intros HS Hd HB HQ HA x. destruct (HS r o q Hd HB HQ) as [H|(Hnil & H)].
  - rewrite H. apply HA.
  - exfalso. assert (id ∈ reg_find_all m r q) as Hin by (apply HA; reflexivity).
    rewrite Hnil in Hin. inversion Hin.
Qed.

Lemma run_invariants_g m D Q :
  (forall o, D o = true -> disc o = true) -> StepOK m D Q ->
  forall ops r,
  forallb D ops = true -> serial r + N.of_nat (length ops) < two32 ->
  Below r -> UniqueG m Q r ->
  Below (fst (run_from r ops)) /\ UniqueG m Q (fst (run_from r ops)) /\
  serial (fst (run_from r ops)) <= serial r + N.of_nat (length ops) /\
  forall q id, Q q -> answersG m r q id -> answersG m (fst (run_from r ops)) q id.
Proof.
  intros HD HS. induction ops as [|o ops IH]; intros r Hd Hlen HB HU; cbn [length] in Hlen; rewrite ?Nat2N.inj_succ in Hlen.
  - cbn. split; [exact HB|]. split; [exact HU|]. split; [lia|]. intros q id _ H; exact H.
  - cbn [forallb] in Hd. apply andb_true_iff in Hd as [Hdo Hd].
    rewrite run_from_cons. pose proof two32_val as H32.
    pose proof (step_serial r o) as Hs.
    assert (serial (fst (step r o)) <= serial r + 1) as Hs'.
    { rewrite Hs. destruct (fresh r o); [rewrite N.mod_small by lia|]; lia. }
    destruct (IH (fst (step r o)) Hd) as (B & U & S & A).
    + lia.
    + apply step_Below; [apply HD, Hdo|exact HB|lia].
    + eapply step_UniqueG; eassumption.
    + cbn [length]. rewrite Nat2N.inj_succ. split; [exact B|]. split; [exact U|]. split; [lia|].
      intros q id HQ Hq. apply A; [exact HQ|]. eapply step_answersG; eassumption.
Qed.

Lemma UniqueG_new m Q : UniqueG m Q reg_new.
Proof. intros q x y _ Hx. apply elem_of_find_all in Hx as (i & Hl & _). cbn in Hl. rewrite lookup_empty in Hl. discriminate. Qed.

Lemma find_or_register_of_answersG m r q id :
  answersG m r q id -> find_or_register m r q = (id, r) /\ reg_find_all m r q = [id].
Proof.
  intros HA. unfold find_or_register.
  pose proof (NoDup_find_all m r q) as Hnd.
  assert (Hall : forall x, x ∈ reg_find_all m r q -> x = id) by (intros x Hx; apply HA, Hx).
  assert (Hin : id ∈ reg_find_all m r q) by (apply HA; reflexivity).
  destruct (reg_find_all m r q) as [|x [|y rest]].
  - inversion Hin.
  - assert (x = id) as -> by (apply Hall; left). split; reflexivity.
  - exfalso. assert (x = id) by (apply Hall; left). assert (y = id) by (apply Hall; right; left).
    subst. inversion Hnd as [|? ? Hni _]. apply Hni. left.
Qed.

(* ---------- lookup stability, router level ---------- *)
Lemma disc_r_disc units o : disc_r units o = true -> disc o = true.
Proof. unfold disc_r. intros H. apply andb_true_iff in H as [H _]. exact H. Qed.

Lemma router_match_ident q i j : ident i = ident j -> router_match q i = router_match q j.
Proof.
  unfold ident. intros [= H1 H2 H3 H4]. apply bool_ext. rewrite !router_match_spec, H1, H2. reflexivity.
Qed.

Lemma router_match_query q q' i : ident q = ident q' -> router_match q i = router_match q' i.
Proof.
  unfold ident. intros [= H1 H2 H3 H4]. apply bool_ext. rewrite !router_match_spec, H1, H2. reflexivity.
Qed.

Lemma router_match_meta q i : meta_only i = true -> router_match q i = false.
Proof.
  rewrite meta_only_spec. unfold ident. intros [= H1 H2 H3 H4].
  destruct (router_match q i) eqn:E; [|reflexivity].
  apply router_match_spec in E as ((p & a & Hp & _) & _). congruence.
Qed.

Lemma router_match_trans q v i : router_match q v = true -> router_match q i = router_match v i.
Proof.
  intros Hv. apply router_match_spec in Hv as (_ & H1 & H2).
  apply bool_ext. rewrite !router_match_spec, H1, H2. reflexivity.
Qed.

(* one step under the router discipline, seen from a router query whose parent
   is a unit id: a peer registration can never answer it (its parent is not a
   unit id), a router registration answers it exactly when it is the same
   (parent, address) *)
Lemma step_find_routers units :
  StepOK router_match (disc_r units) (fun q => parent_in units q = true).
Proof.
  intros r o q Hd HB HQ. pose proof (Below_serial_meta r HB) as Hser.
  unfold disc_r in Hd. apply andb_true_iff in Hd as [Hd Hd2].
  destruct o as [|id i|id|p|q'|q'|q'|q']; cbn [step fst disc] in *; try (left; reflexivity).
  - (* update with descriptive fields only *)
    left. unfold reg_update_info.
    destruct (infos r !! id) as [old|] eqn:Eo.
    + apply (find_all_write_same router_match r id _ q _ old Eo).
      apply router_match_ident, ident_merge_meta_new, Hd.
    + apply find_all_write_nomatch; [apply router_match_meta, Hd|rewrite Eo; exact I].
  - (* find-or-register a peer: its parent is no unit id *)
    unfold find_or_register in *.
    destruct (reg_find_all peer_match r q') as [|id' rest] eqn:Ef; [|left; reflexivity].
    left. cbn [reg_register fst snd]. unfold reg_update_info. cbn [infos serial].
    set (v := match infos r !! serial r with Some old => info_merge old q' | None => q' end).
    assert (Hv : ident v = ident q').
    { subst v. destruct (infos r !! serial r); [apply ident_merge_meta_old, Hser|reflexivity]. }
    apply find_all_write_nomatch.
    + apply not_true_false. intros Hm. apply router_match_spec in Hm as (_ & Hp & _).
      unfold ident in Hv. injection Hv as Hpar _ _ _.
      unfold parent_in in HQ, Hd2. rewrite <- Hp, Hpar in HQ. rewrite HQ in Hd2. discriminate.
    + destruct (infos r !! serial r); [apply router_match_meta, Hser|exact I].
  - (* find-or-register a router *)
    unfold find_or_register in *.
    destruct (reg_find_all router_match r q') as [|id' rest] eqn:Ef; [|left; reflexivity].
    cbn [reg_register fst snd]. unfold reg_update_info. cbn [infos serial].
    set (v := match infos r !! serial r with Some old => info_merge old q' | None => q' end).
    assert (Hv : ident v = ident q').
    { subst v. destruct (infos r !! serial r); [apply ident_merge_meta_old, Hser|reflexivity]. }
    destruct (router_match q v) eqn:Em.
    + right. assert (Hnil : reg_find_all router_match r q = []).
      { rewrite <- Ef. apply find_all_ext. intros i. rewrite (router_match_trans q v i Em).
        apply router_match_query, Hv. }
      split; [exact Hnil|]. apply find_all_write_fresh; assumption.
    + left. apply find_all_write_nomatch; [exact Em|].
      destruct (infos r !! serial r); [apply router_match_meta, Hser|exact I].
Qed.

(* find-or-register of a complete router identity gives an id that answers the query *)
Lemma for_router_answers units r q :
  disc_r units (OForRouter q) = true -> Below r ->
  UniqueG router_match (fun q => parent_in units q = true) r ->
  answersG router_match (snd (find_or_register router_match r q)) q (fst (find_or_register router_match r q)).
Proof.
  intros Hd HB HU.
  assert (HQ : parent_in units q = true /\ router_complete q = true).
  { unfold disc_r in Hd. apply andb_true_iff in Hd as [_ Hd]. apply andb_true_iff in Hd as [Hc Hp]. split; assumption. }
  destruct HQ as [HQ Hc].
  pose proof (step_find_routers units r (OForRouter q) q Hd HB HQ) as H.
  cbn [step] in H. unfold find_or_register in *.
  destruct (reg_find_all router_match r q) as [|id rest] eqn:Ef.
  - cbn [reg_register fst snd] in *. destruct H as [H|(_ & H)]; [|exact H].
    exfalso. pose proof (Below_serial_meta r HB) as Hser.
    assert (serial r ∈ reg_find_all router_match (reg_update_info (MkReg ((serial r + 1) mod two32) (infos r)) (serial r) q) q) as Hin.
    { apply elem_of_find_all. unfold reg_update_info. cbn [infos].
      eexists. rewrite lookup_insert. split; [reflexivity|].
      set (v := match infos r !! serial r with Some old => info_merge old q | None => q end).
      assert (Hv : ident v = ident q).
      { subst v. destruct (infos r !! serial r); [apply ident_merge_meta_old, Hser|reflexivity]. }
      rewrite (router_match_ident q v q Hv). apply router_match_spec.
      unfold router_complete in Hc. rewrite !andb_true_iff, !is_some_true in Hc.
      destruct Hc as ([p Hp] & [a Ha]). split; eauto 10. }
    apply H in Hin. inversion Hin.
  - cbn [fst snd]. intros x. split.
    + intros Hx. apply (HU q); [exact HQ|exact Hx|]. rewrite Ef. left.
    + intros ->. rewrite Ef. left.
Qed.

(* The identifier a router got under (parent unit, address) is the one it gets
   again after any history that keeps the router discipline, and it is the only
   candidate *)
Theorem lookup_stable_router units ops1 q ops2 :
  forallb (disc_r units) (ops1 ++ OForRouter q :: ops2) = true ->
  N.of_nat (length (ops1 ++ OForRouter q :: ops2)) < two32 - 1 ->
  let r1 := fst (run ops1) in
  let id := fst (find_or_register router_match r1 q) in
  let r2 := fst (run_from (snd (find_or_register router_match r1 q)) ops2) in
  find_or_register router_match r2 q = (id, r2) /\ reg_find_routers r2 q = [id].
Proof.
  intros Hd Hlen r1 id r2. pose proof two32_val as H32.
  rewrite forallb_app in Hd. apply andb_true_iff in Hd as [Hd1 Hd2].
  cbn [forallb] in Hd2. apply andb_true_iff in Hd2 as [Hdq Hd2].
  rewrite app_length in Hlen. cbn [length] in Hlen. rewrite Nat2N.inj_add, Nat2N.inj_succ in Hlen.
  pose proof (run_invariants_g router_match (disc_r units) _ (disc_r_disc units) (step_find_routers units)) as RI.
  destruct (RI ops1 reg_new Hd1) as (B1 & U1 & S1 & _);
    [cbn [serial reg_new]; lia|apply Below_new|apply UniqueG_new|].
  fold (run ops1) in *. fold r1 in B1, U1, S1. cbn [serial reg_new] in S1.
  pose proof (for_router_answers units r1 q Hdq B1 U1) as HA. fold id in HA.
  assert (HQ : parent_in units q = true).
  { unfold disc_r in Hdq. apply andb_true_iff in Hdq as [_ Hx]. apply andb_true_iff in Hx as [_ Hx]. exact Hx. }
  set (ra := snd (find_or_register router_match r1 q)) in *.
  assert (Hra : ra = fst (step r1 (OForRouter q))).
  { subst ra. cbn [step]. destruct (find_or_register router_match r1 q); reflexivity. }
  assert (Bra : Below ra) by (rewrite Hra; apply step_Below; [apply (disc_r_disc units), Hdq|exact B1|lia]).
  assert (Ura : UniqueG router_match (fun q => parent_in units q = true) ra).
  { rewrite Hra. eapply step_UniqueG; [apply step_find_routers|exact Hdq|exact B1|exact U1]. }
  assert (Sra : serial ra <= serial r1 + 1).
  { rewrite Hra, step_serial. destruct (fresh r1 (OForRouter q)); [rewrite N.mod_small by lia|]; lia. }
  destruct (RI ops2 ra Hd2) as (_ & _ & _ & A2); [lia|assumption..|].
  specialize (A2 q id HQ HA). fold r2 in A2.
  unfold reg_find_routers. apply find_or_register_of_answersG, A2.
Qed.

(* the history-level form of the discipline: with the unit ids taken to be the
   parents the history's own router queries name, [disc_hist] is all that is asked *)
Corollary lookup_stable_router_hist ops1 q ops2 :
  disc_hist (ops1 ++ OForRouter q :: ops2) = true ->
  N.of_nat (length (ops1 ++ OForRouter q :: ops2)) < two32 - 1 ->
  let r1 := fst (run ops1) in
  let id := fst (find_or_register router_match r1 q) in
  let r2 := fst (run_from (snd (find_or_register router_match r1 q)) ops2) in
  find_or_register router_match r2 q = (id, r2) /\ reg_find_routers r2 q = [id].
Proof. intros Hd. apply (lookup_stable_router (units_of (ops1 ++ OForRouter q :: ops2))), Hd. Qed.

(* the discipline is needed: a peer entry with the same (parent, address)
   answers a router query - after it, the router query has two candidates *)
Lemma router_lookup_needs_discipline :
  let qr := MkInfo None (Some 1) (Some 9) None None None None None in
  let qp := MkInfo None (Some 1) (Some 9) (Some 65000) (Some 0) None None None in
  let ops := [ORegister; OForRouter qr; OForPeer qp] in
  forallb disc ops = true /\ disc_hist ops = false /\
  length (reg_find_routers (fst (run ops)) qr) = 2%nat.
Proof. vm_compute. repeat split; reflexivity. Qed.
