From stdpp Require Import gmap.
From Coq Require Import NArith Lia.
From RV Require Import Ingress.IngressModel Ingress.IngressProofs Ingress.IngressSitesModel.

Local Open Scope N_scope.

(* ---------- matchers read the identity fields only ---------- *)

Lemma matcher_ident k q i j : ident i = ident j -> matcher k q i = matcher k q j.
Proof. destruct k; [apply peer_match_ident|apply router_match_ident]. Qed.

Lemma matcher_meta k q i : meta_only i = true -> matcher k q i = false.
Proof. destruct k; [apply peer_match_meta|apply router_match_meta]. Qed.

Lemma peer_match_query_ident q q' i : ident q = ident q' -> peer_match q i = peer_match q' i.
Proof.
  unfold ident. intros [= H1 H2 H3 H4]. apply bool_ext. rewrite !peer_match_spec, H1, H2, H3, H4. reflexivity.
Qed.

Lemma optN_eqb_refl a : optN_eqb a a = true.
Proof. apply optN_eqb_eq. reflexivity. Qed.

(* ---------- the check on the masks is exact ---------- *)

(* sound: masks that agree make the site's query match what the other site stored,
   for every source the unit knows enough about *)
Lemma compat_sound k q st src :
  compat k q st = true -> src_ok k src = true -> matcher k (proj q src) (proj st src) = true.
Proof.
  destruct q as [qu qp qa qs qr qf qn qd], st as [su sp sa ss sr sf sn sd].
  destruct src as [u p a s rb f n d].
  destruct k; cbn [compat src_ok matcher k_parent k_addr k_asn k_rib i_parent i_addr i_asn].
  - rewrite !andb_true_iff. intros ((((((-> & ->) & ->) & ->) & ->) & ->) & Hr) ((Hp & Ha) & Hs).
    apply Bool.eqb_prop in Hr as ->.
    destruct p as [p|], a as [a|], s as [s|]; try discriminate.
    unfold peer_match, proj, keep. cbn. rewrite !N.eqb_refl. cbn. apply optN_eqb_refl.
  - rewrite !andb_true_iff. intros (((-> & ->) & ->) & ->) (Hp & Ha).
    destruct p as [p|], a as [a|]; try discriminate.
    unfold router_match, proj, keep. cbn. rewrite !N.eqb_refl. reflexivity.
Qed.

(* complete: masks that do not agree fail on a fully described source *)
Lemma compat_complete k q st :
  compat k q st = false ->
  let src := MkInfo (Some 1) (Some 1) (Some 1) (Some 1) (Some 1) (Some 1) (Some 1) (Some 1) in
  src_ok k src = true /\ matcher k (proj q src) (proj st src) = false.
Proof.
  destruct q as [qu qp qa qs qr qf qn qd], st as [su sp sa ss sr sf sn sd].
  destruct k; cbn [compat k_parent k_addr k_asn k_rib]; intros H; split; try reflexivity.
  - destruct qp, sp, qa, sa, qs, ss, qr, sr; cbn in H; try discriminate; reflexivity.
  - destruct qp, sp, qa, sa; cbn in H; try discriminate; reflexivity.
Qed.

Lemma compat_peer_ident q st src :
  compat MPeer q st = true -> ident (proj q src) = ident (proj st src).
Proof.
  destruct q as [qu qp qa qs qr qf qn qd], st as [su sp sa ss sr sf sn sd].
  cbn [compat k_parent k_addr k_asn k_rib]. rewrite !andb_true_iff.
  intros ((((((-> & ->) & ->) & ->) & ->) & ->) & Hr). apply Bool.eqb_prop in Hr as ->. reflexivity.
Qed.

(* ---------- one step ---------- *)

Lemma Below_write r s' k v :
  Below r -> serial r <= s' -> (k < s' \/ meta_only v = true) ->
  Below (MkReg s' (<[k := v]> (infos r))).
Proof.
  intros HB Hs Hk k' i'. cbn [infos serial]. destruct (decide (k' = k)) as [->|Hne].
  - rewrite lookup_insert. intros [= <-] Hm. destruct Hk; [assumption|congruence].
  - rewrite lookup_insert_ne by congruence. intros Hl Hm. specialize (HB _ _ Hl Hm). lia.
Qed.

Lemma site_register_fst r s src :
  fst (site_register r s src) =
  MkReg ((serial r + 1) mod two32)
        (<[ serial r := match infos r !! serial r with
                        | Some old => info_merge old (proj (s_store s) src)
                        | None => proj (s_store s) src end ]> (infos r)).
Proof. reflexivity. Qed.

Lemma site_register_snd r s src : snd (site_register r s src) = Some (serial r).
Proof. reflexivity. Qed.

(* a site step either leaves the register alone or is the registration *)
Lemma site_step_cases r s src :
  (site_fresh r s src = false /\ fst (site_step r s src) = r /\
   snd (site_step r s src) = head (site_candidates r s src)) \/
  (site_fresh r s src = true /\ site_step r s src = site_register r s src).
Proof.
  unfold site_step, site_fresh, site_candidates.
  destruct (s_lookup s) as [k|].
  - destruct (reg_find_all (matcher k) r (proj (s_query s) src)) as [|id rest].
    + destruct (s_registers s); [right|left]; auto.
    + left. rewrite andb_false_r. auto.
  - destruct (s_registers s); [right|left]; auto.
Qed.

Lemma sstep_serial r o : serial r + 1 < two32 ->
  serial r <= serial (fst (sstep r o)) <= serial r + 1.
Proof.
  intros Hlt. pose proof two32_val as H32. destruct o as [s src|id i]; cbn [sstep fst].
  - destruct (site_step_cases r s src) as [(_ & -> & _)|(_ & ->)]; [lia|].
    rewrite site_register_fst. cbn [serial]. rewrite N.mod_small by lia. lia.
  - cbn. lia.
Qed.

Lemma sstep_Below r o :
  sdisc o = true -> Below r -> serial r + 1 < two32 -> Below (fst (sstep r o)).
Proof.
  intros Hd HB Hlt. pose proof two32_val as H32. destruct o as [s src|id i]; cbn [sstep fst sdisc] in *.
  - destruct (site_step_cases r s src) as [(_ & -> & _)|(_ & ->)]; [exact HB|].
    rewrite site_register_fst. rewrite N.mod_small by lia. apply Below_write; [exact HB|lia|left; lia].
  - unfold reg_update_info. destruct (infos r !! id) as [old|] eqn:Eo.
    + apply Below_write; [exact HB|lia|]. destruct (meta_only old) eqn:Emo.
      * right. apply meta_only_spec. rewrite ident_merge_meta_new by exact Hd. apply meta_only_spec, Emo.
      * left. apply (HB _ _ Eo Emo).
    + apply Below_write; [exact HB|lia|]. right; exact Hd.
Qed.

(* an id that answers a query keeps answering it: no step takes a candidate away *)
Lemma cand_persist_step k r o q x :
  sdisc o = true -> Below r ->
  x ∈ reg_find_all (matcher k) r q -> x ∈ reg_find_all (matcher k) (fst (sstep r o)) q.
Proof.
  intros Hd HB Hx. apply elem_of_find_all in Hx as (i & Hi & Hm).
  assert (Hlt : x < serial r).
  { apply (HB _ _ Hi). destruct (meta_only i) eqn:E; [|reflexivity].
    rewrite (matcher_meta k q i E) in Hm. discriminate. }
  destruct o as [s src|id i']; cbn [sstep fst sdisc] in *.
  - destruct (site_step_cases r s src) as [(_ & -> & _)|(_ & ->)].
    + apply elem_of_find_all. eauto.
    + rewrite site_register_fst. apply elem_of_find_all. cbn [infos]. exists i.
      rewrite lookup_insert_ne by lia. split; assumption.
  - apply elem_of_find_all. unfold reg_update_info. cbn [infos].
    destruct (decide (x = id)) as [->|Hne].
    + rewrite Hi, lookup_insert. eexists. split; [reflexivity|].
      rewrite <- Hm. apply matcher_ident, ident_merge_meta_new, Hd.
    + exists i. rewrite lookup_insert_ne by congruence. split; assumption.
Qed.

(* what a registration files is found by every query that agrees with it *)
Lemma site_register_candidate r s src k q :
  Below r -> compat k q (s_store s) = true -> src_ok k src = true ->
  serial r ∈ reg_find_all (matcher k) (fst (site_register r s src)) (proj q src).
Proof.
  intros HB Hc Hs. pose proof (Below_serial_meta r HB) as Hser.
  rewrite site_register_fst. apply elem_of_find_all. cbn [infos]. rewrite lookup_insert.
  eexists. split; [reflexivity|].
  set (st := proj (s_store s) src) in *.
  set (v := match infos r !! serial r with Some old => info_merge old st | None => st end).
  assert (Hv : ident v = ident st).
  { subst v. destruct (infos r !! serial r); [apply ident_merge_meta_old, Hser|reflexivity]. }
  rewrite (matcher_ident k (proj q src) v st Hv). apply compat_sound; assumption.
Qed.

(* ---------- histories ---------- *)

Lemma srun_from_cons r o ops :
  fst (srun_from r (o :: ops)) = fst (srun_from (fst (sstep r o)) ops).
Proof. cbn [srun_from]. destruct (sstep r o) as [r1 x]. cbn [fst]. destruct (srun_from r1 ops); reflexivity. Qed.

Lemma srun_from_app r ops1 ops2 :
  fst (srun_from r (ops1 ++ ops2)) = fst (srun_from (fst (srun_from r ops1)) ops2).
Proof.
  revert r. induction ops1 as [|o ops1 IH]; intros r; [reflexivity|].
  rewrite <- app_comm_cons, !srun_from_cons. apply IH.
Qed.

Lemma srun_invariants ops : forall r,
  forallb sdisc ops = true -> serial r + N.of_nat (length ops) < two32 -> Below r ->
  Below (fst (srun_from r ops)) /\
  serial r <= serial (fst (srun_from r ops)) <= serial r + N.of_nat (length ops) /\
  forall k q x, x ∈ reg_find_all (matcher k) r q -> x ∈ reg_find_all (matcher k) (fst (srun_from r ops)) q.
Proof.
  induction ops as [|o ops IH]; intros r Hd Hlen HB; cbn [length] in Hlen; rewrite ?Nat2N.inj_succ in Hlen.
  - cbn. split; [exact HB|]. split; [lia|]. auto.
  - cbn [forallb] in Hd. apply andb_true_iff in Hd as [Hdo Hd].
    rewrite srun_from_cons. pose proof (sstep_serial r o) as Hs.
    destruct (IH (fst (sstep r o)) Hd) as (B & S & A).
    + lia.
    + apply sstep_Below; [assumption..|lia].
    + cbn [length]. rewrite Nat2N.inj_succ. split; [exact B|]. split; [lia|].
      intros k q x Hx. apply A, cand_persist_step; assumption.
Qed.

(* ---------- a source a site has filed is found again ---------- *)

Lemma not_fresh_of_candidate r s src id :
  id ∈ site_candidates r s src ->
  site_fresh r s src = false /\ fst (site_step r s src) = r /\
  exists id', snd (site_step r s src) = Some id' /\ id' ∈ site_candidates r s src.
Proof.
  intros Hin. destruct (site_step_cases r s src) as [(Hf & Hr & Hs)|(Hf & _)].
  - split; [exact Hf|]. split; [exact Hr|]. rewrite Hs.
    destruct (site_candidates r s src) as [|x rest]; [inversion Hin|].
    exists x. split; [reflexivity|left].
  - exfalso. unfold site_fresh in Hf. destruct (site_candidates r s src); [inversion Hin|].
    rewrite andb_false_r in Hf. discriminate.
Qed.

(* Site s1 files a source (nobody had it: a fresh id). After ANY history of
   sites handling any sources and of descriptive updates, every site s2 whose
   query agrees with what s1 stored has that id among its candidates for the
   same source, files no second id for it and leaves the register alone. *)
Theorem site_registered_refound ops1 s1 src ops2 s2 k :
  forallb sdisc (ops1 ++ SSite s1 src :: ops2) = true ->
  N.of_nat (length (ops1 ++ SSite s1 src :: ops2)) < two32 - 1 ->
  s_lookup s2 = Some k -> compat k (s_query s2) (s_store s1) = true -> src_ok k src = true ->
  let r1 := fst (srun ops1) in
  site_fresh r1 s1 src = true ->
  let r2 := fst (srun_from (fst (site_step r1 s1 src)) ops2) in
  snd (site_step r1 s1 src) = Some (serial r1) /\
  serial r1 ∈ site_candidates r2 s2 src /\
  site_fresh r2 s2 src = false /\ fst (site_step r2 s2 src) = r2 /\
  exists id', snd (site_step r2 s2 src) = Some id' /\ id' ∈ site_candidates r2 s2 src.
Proof.
  intros Hd Hlen Hk Hc Hs r1 Hfresh r2. pose proof two32_val as H32.
  rewrite forallb_app in Hd. apply andb_true_iff in Hd as [Hd1 Hd2].
  cbn [forallb] in Hd2. apply andb_true_iff in Hd2 as [_ Hd2].
  rewrite app_length in Hlen. cbn [length] in Hlen. rewrite Nat2N.inj_add, Nat2N.inj_succ in Hlen.
  destruct (srun_invariants ops1 reg_new Hd1) as (B1 & S1 & _);
    [cbn [serial reg_new]; lia|apply Below_new|].
  fold (srun ops1) in B1, S1. fold r1 in B1, S1. cbn [serial reg_new] in S1.
  destruct (site_step_cases r1 s1 src) as [(Hf & _)|(_ & Hstep)]; [congruence|].
  assert (Hra : fst (site_step r1 s1 src) = fst (sstep r1 (SSite s1 src))) by reflexivity.
  assert (Bra : Below (fst (site_step r1 s1 src))).
  { rewrite Hra. apply sstep_Below; [reflexivity|exact B1|lia]. }
  pose proof (sstep_serial r1 (SSite s1 src)) as Sra. cbn [sstep] in Sra.
  destruct (srun_invariants ops2 (fst (site_step r1 s1 src)) Hd2) as (_ & _ & A2); [lia|exact Bra|].
  fold r2 in A2.
  assert (Hin : serial r1 ∈ site_candidates r2 s2 src).
  { unfold site_candidates. rewrite Hk. apply A2. rewrite Hstep.
    apply site_register_candidate; assumption. }
  split; [rewrite Hstep; apply site_register_snd|]. split; [exact Hin|].
  apply (not_fresh_of_candidate r2 s2 src _ Hin).
Qed.

(* ... and when the site found the source (it had been filed before), the id it
   used stays a candidate of that site's lookup *)
Theorem site_found_refound ops1 s1 src ops2 id :
  forallb sdisc (ops1 ++ SSite s1 src :: ops2) = true ->
  N.of_nat (length (ops1 ++ SSite s1 src :: ops2)) < two32 - 1 ->
  let r1 := fst (srun ops1) in
  id ∈ site_candidates r1 s1 src ->
  let r2 := fst (srun_from (fst (site_step r1 s1 src)) ops2) in
  fst (site_step r1 s1 src) = r1 /\
  id ∈ site_candidates r2 s1 src /\ site_fresh r2 s1 src = false /\ fst (site_step r2 s1 src) = r2.
Proof.
  intros Hd Hlen r1 Hin r2. pose proof two32_val as H32.
  rewrite forallb_app in Hd. apply andb_true_iff in Hd as [Hd1 Hd2].
  cbn [forallb] in Hd2. apply andb_true_iff in Hd2 as [_ Hd2].
  rewrite app_length in Hlen. cbn [length] in Hlen. rewrite Nat2N.inj_add, Nat2N.inj_succ in Hlen.
  destruct (srun_invariants ops1 reg_new Hd1) as (B1 & S1 & _);
    [cbn [serial reg_new]; lia|apply Below_new|].
  fold (srun ops1) in B1, S1. fold r1 in B1, S1. cbn [serial reg_new] in S1.
  destruct (not_fresh_of_candidate r1 s1 src id Hin) as (_ & Hr & _).
  subst r2. rewrite Hr. split; [reflexivity|].
  destruct (srun_invariants ops2 r1 Hd2) as (_ & _ & A2); [lia|exact B1|].
  assert (Hin2 : id ∈ site_candidates (fst (srun_from r1 ops2)) s1 src).
  { unfold site_candidates in *. destruct (s_lookup s1) as [k|]; [apply A2, Hin|inversion Hin]. }
  split; [exact Hin2|]. destruct (not_fresh_of_candidate _ s1 src id Hin2) as (Hf & Hr2 & _). auto.
Qed.

(* ---------- the table of the code ---------- *)

Lemma code_sites_consistent : sites_consistent code_sites = true.
Proof. vm_compute. reflexivity. Qed.

Lemma sites_consistent_pair l s_look s_reg k :
  sites_consistent l = true -> s_look ∈ l -> s_reg ∈ l ->
  s_lookup s_look = Some k -> s_class s_look = s_class s_reg -> s_registers s_reg = true ->
  compat k (s_query s_look) (s_store s_reg) = true.
Proof.
  intros Hall Hl Hr Hk Hc Hreg. unfold sites_consistent in Hall.
  rewrite forallb_forall in Hall. apply elem_of_list_In in Hl, Hr.
  specialize (Hall _ Hl). rewrite forallb_forall in Hall. specialize (Hall _ Hr).
  unfold pair_ok in Hall. rewrite Hk, Hc, N.eqb_refl, Hreg in Hall. exact Hall.
Qed.

(* For the sites of the code: whichever site of a unit files a source, every
   looking site of the same class finds it, after any history. *)
Theorem code_sites_refound ops1 s1 src ops2 s2 k :
  s1 ∈ code_sites -> s2 ∈ code_sites -> s_class s2 = s_class s1 ->
  s_registers s1 = true -> s_lookup s2 = Some k -> src_ok k src = true ->
  forallb sdisc (ops1 ++ SSite s1 src :: ops2) = true ->
  N.of_nat (length (ops1 ++ SSite s1 src :: ops2)) < two32 - 1 ->
  let r1 := fst (srun ops1) in
  site_fresh r1 s1 src = true ->
  let r2 := fst (srun_from (fst (site_step r1 s1 src)) ops2) in
  serial r1 ∈ site_candidates r2 s2 src /\ site_fresh r2 s2 src = false /\ fst (site_step r2 s2 src) = r2.
Proof.
  intros H1 H2 Hc Hreg Hk Hs Hd Hlen r1 Hf r2.
  pose proof (sites_consistent_pair code_sites s2 s1 k code_sites_consistent H2 H1 Hk Hc Hreg) as Hcompat.
  destruct (site_registered_refound ops1 s1 src ops2 s2 k Hd Hlen Hk Hcompat Hs Hf) as (_ & A & B & C & _).
  auto.
Qed.

(* The seeded variant of the dump site (it also stores a RIB view) is rejected by
   the check on the masks, and for cause: a peer of a table dump that sends an
   update afterwards is not found and gets a second id (with the dump site of
   the code it keeps id 2). Register: the unit has id 1. *)
Lemma dump_rib_refuted :
  let src := MkInfo None (Some 1) (Some 10) (Some 65010) (Some 0) (Some 3) None None in
  let r0 := MkReg 2 ∅ in
  pair_ok site_mrt_update site_mrt_dump_rib = false /\
  sites_consistent (site_mrt_dump_rib :: code_sites) = false /\
  snd (srun_from r0 [SSite site_mrt_dump_rib src; SSite site_mrt_update src; SSite site_mrt_state src])
    = [Some 2; Some 3; Some 3] /\
  length (reg_ids_for_parent (fst (srun_from r0 [SSite site_mrt_dump_rib src; SSite site_mrt_update src])) 1) = 2%nat /\
  snd (srun_from r0 [SSite site_mrt_dump src; SSite site_mrt_update src; SSite site_mrt_state src])
    = [Some 2; Some 2; Some 2] /\
  reg_ids_for_parent (fst (srun_from r0 [SSite site_mrt_dump src; SSite site_mrt_update src])) 1 = [2].
Proof. vm_compute. repeat split; reflexivity. Qed.

(* ---------- ... and it is the only candidate ---------- *)

Lemma sok_sdisc r o : sok r o = true -> sdisc o = true.
Proof. destruct o; cbn; [reflexivity|auto]. Qed.

(* the effect of filing [st] under the next id on the answer to a peer query *)
Lemma fresh_write_peers r st q :
  Below r -> (peer_complete st = false \/ reg_find_peers r st = []) ->
  let r' := reg_update_info (snd (reg_register r)) (serial r) st in
  (forall x, x ∈ reg_find_peers r' q <-> x ∈ reg_find_peers r q) \/
  (reg_find_peers r q = [] /\ forall x, x ∈ reg_find_peers r' q <-> x = serial r).
Proof.
  intros HB Hst. pose proof (Below_serial_meta r HB) as Hser. cbn zeta.
  unfold reg_find_peers in *. cbn [reg_register snd]. unfold reg_update_info. cbn [infos serial].
  set (v := match infos r !! serial r with Some old => info_merge old st | None => st end).
  assert (Hv : ident v = ident st).
  { subst v. destruct (infos r !! serial r); [apply ident_merge_meta_old, Hser|reflexivity]. }
  destruct (peer_match q v) eqn:Em.
  - right.
    assert (Hcomplete : peer_complete st = true).
    { apply peer_match_spec in Em as ((p & a & s & Hp & Ha & Hs) & _).
      unfold ident in Hv. injection Hv as Hp' Ha' Hs' _. unfold peer_complete.
      rewrite <- Hp', <- Ha', <- Hs', Hp, Ha, Hs. reflexivity. }
    destruct Hst as [Hst|Hst]; [congruence|].
    assert (Hnil : reg_find_all peer_match r q = []).
    { rewrite <- Hst. apply find_all_ext. intros i. rewrite (peer_match_trans q v i Em).
      apply peer_match_query_ident, Hv. }
    split; [exact Hnil|]. apply find_all_write_fresh; assumption.
  - left. apply find_all_write_nomatch; [exact Em|].
    destruct (infos r !! serial r); [apply peer_match_meta, Hser|exact I].
Qed.

Lemma is_nil_true {A} (l : list A) : is_nil l = true -> l = [].
Proof. destruct l; [reflexivity|discriminate]. Qed.

(* one well-formed step leaves the answer to a peer query alone or turns an
   empty answer into the freshly filed id *)
Lemma sstep_find_peers r o q :
  sok r o = true -> Below r ->
  (forall x, x ∈ reg_find_peers (fst (sstep r o)) q <-> x ∈ reg_find_peers r q) \/
  (reg_find_peers r q = [] /\ forall x, x ∈ reg_find_peers (fst (sstep r o)) q <-> x = serial r).
Proof.
  intros Hok HB. destruct o as [s src|id i]; cbn [sstep fst sok] in *.
  - apply andb_true_iff in Hok as [Hwf Hok].
    destruct (site_step_cases r s src) as [(_ & -> & _)|(Hfresh & ->)]; [left; reflexivity|].
    unfold site_register. cbn [reg_register]. cbn [fst].
    change (MkReg ((serial r + 1) mod two32) (infos r)) with (snd (reg_register r)).
    apply fresh_write_peers; [exact HB|].
    unfold site_fresh, site_candidates, site_wf in *.
    apply andb_true_iff in Hfresh as [Hreg Hnone]. rewrite Hreg in *.
    destruct (s_lookup s) as [[|]|]; cbn [matcher] in *.
    + (* peer-level lookup found nothing; what is stored has the identity that was asked for *)
      right. destruct (reg_find_all peer_match r (proj (s_query s) src)) eqn:Ef; [|discriminate].
      unfold reg_find_peers. rewrite <- Ef. apply find_all_ext. intros i.
      apply peer_match_query_ident. symmetry. apply compat_peer_ident, Hwf.
    + (* router-level: no AS number is stored *)
      left. unfold peer_complete, proj. cbn [i_asn]. apply negb_true_iff in Hwf. rewrite Hwf.
      cbn [keep is_some]. rewrite andb_false_r. reflexivity.
    + cbn [andb] in Hok. destruct (peer_complete (proj (s_store s) src)); [|left; reflexivity].
      right. apply is_nil_true, Hok.
  - left. unfold reg_update_info, reg_find_peers.
    destruct (infos r !! id) as [old|] eqn:Eo.
    + apply (find_all_write_same peer_match r id _ q _ old Eo).
      apply peer_match_ident, ident_merge_meta_new, Hok.
    + apply find_all_write_nomatch; [apply peer_match_meta, Hok|rewrite Eo; exact I].
Qed.

Lemma sstep_PeerUnique r o :
  sok r o = true -> Below r -> PeerUnique r -> PeerUnique (fst (sstep r o)).
Proof.
  intros Hok HB HU q x y Hx Hy.
  destruct (sstep_find_peers r o q Hok HB) as [H|(_ & H)].
  - apply (HU q); apply H; assumption.
  - apply H in Hx, Hy. congruence.
Qed.

Lemma sok_run_app ops1 : forall r ops2,
  sok_run r (ops1 ++ ops2) = sok_run r ops1 && sok_run (fst (srun_from r ops1)) ops2.
Proof.
  induction ops1 as [|o ops1 IH]; intros r ops2; [reflexivity|].
  rewrite <- app_comm_cons. cbn [sok_run]. rewrite IH, srun_from_cons, andb_assoc. reflexivity.
Qed.

Lemma sok_run_sdisc ops : forall r, sok_run r ops = true -> forallb sdisc ops = true.
Proof.
  induction ops as [|o ops IH]; intros r H; [reflexivity|].
  cbn [sok_run forallb] in *. apply andb_true_iff in H as [Ho H].
  rewrite (sok_sdisc r o Ho). eapply IH, H.
Qed.

Lemma srun_unique ops : forall r,
  sok_run r ops = true -> serial r + N.of_nat (length ops) < two32 -> Below r -> PeerUnique r ->
  PeerUnique (fst (srun_from r ops)).
Proof.
  induction ops as [|o ops IH]; intros r Hok Hlen HB HU; cbn [length] in Hlen; rewrite ?Nat2N.inj_succ in Hlen.
  - exact HU.
  - cbn [sok_run] in Hok. apply andb_true_iff in Hok as [Ho Hok]. rewrite srun_from_cons.
    pose proof (sstep_serial r o) as Hs.
    apply IH; [exact Hok|lia| |].
    + apply sstep_Below; [eapply sok_sdisc, Ho|exact HB|lia].
    + apply sstep_PeerUnique; assumption.
Qed.

(* Peer level, with the discipline [sok_run] along the history (sites well
   formed; a site that files ids without looking is only handed peers that have
   no id): the id a site filed the source under is THE answer of every agreeing
   site's lookup - the only candidate, so the code's first match in hash order
   is determined - and that site uses exactly this id. *)
Theorem site_refound_unique ops1 s1 src ops2 s2 :
  sok_run reg_new (ops1 ++ SSite s1 src :: ops2) = true ->
  N.of_nat (length (ops1 ++ SSite s1 src :: ops2)) < two32 - 1 ->
  s_lookup s2 = Some MPeer -> compat MPeer (s_query s2) (s_store s1) = true -> src_ok MPeer src = true ->
  let r1 := fst (srun ops1) in
  site_fresh r1 s1 src = true ->
  let r2 := fst (srun_from (fst (site_step r1 s1 src)) ops2) in
  site_candidates r2 s2 src = [serial r1] /\ site_step r2 s2 src = (r2, Some (serial r1)).
Proof.
  intros Hok Hlen Hk Hc Hs r1 Hfresh r2. pose proof two32_val as H32.
  pose proof (sok_run_sdisc _ _ Hok) as Hd.
  destruct (site_registered_refound ops1 s1 src ops2 s2 MPeer Hd Hlen Hk Hc Hs Hfresh)
    as (_ & Hin & Hnf & Hr2 & id' & Hsnd & Hin').
  fold r1 r2 in Hin, Hnf, Hr2, Hsnd, Hin'.
  assert (HU : PeerUnique r2).
  { change (ops1 ++ SSite s1 src :: ops2) with (ops1 ++ [SSite s1 src] ++ ops2) in Hok, Hlen.
    rewrite app_assoc in Hok, Hlen.
    rewrite sok_run_app in Hok. apply andb_true_iff in Hok as [Hok1 Hok2].
    rewrite app_length, Nat2N.inj_add in Hlen.
    assert (Hr : fst (srun_from reg_new (ops1 ++ [SSite s1 src])) = fst (site_step r1 s1 src)).
    { rewrite srun_from_app, srun_from_cons. reflexivity. }
    rewrite Hr in Hok2.
    assert (Hlen1 : serial reg_new + N.of_nat (length (ops1 ++ [SSite s1 src])) < two32)
      by (cbn [serial reg_new]; lia).
    pose proof (srun_unique _ reg_new Hok1 Hlen1 Below_new PeerUnique_new) as U1.
    destruct (srun_invariants (ops1 ++ [SSite s1 src]) reg_new (sok_run_sdisc _ _ Hok1) Hlen1 Below_new) as (B1 & S1 & _).
    rewrite Hr in U1, B1, S1. cbn [serial reg_new] in S1.
    apply srun_unique; [exact Hok2|lia|exact B1|exact U1]. }
  assert (Hcands : site_candidates r2 s2 src = [serial r1]).
  { unfold site_candidates in *. rewrite Hk in *.
    pose proof (NoDup_find_all peer_match r2 (proj (s_query s2) src)) as Hnd.
    cbn [matcher] in *.
    assert (Hall : forall x, x ∈ reg_find_all peer_match r2 (proj (s_query s2) src) -> x = serial r1).
    { intros x Hx. apply (HU (proj (s_query s2) src)); [exact Hx|exact Hin]. }
    destruct (reg_find_all peer_match r2 (proj (s_query s2) src)) as [|x [|y rest]].
    - inversion Hin.
    - f_equal. apply Hall. left.
    - exfalso. assert (x = serial r1) by (apply Hall; left). assert (y = serial r1) by (apply Hall; right; left).
      subst. inversion Hnd as [|? ? Hni _]. apply Hni. left. }
  split; [exact Hcands|].
  rewrite Hcands in Hin'. apply elem_of_list_singleton in Hin' as ->.
  rewrite (surjective_pairing (site_step r2 s2 src)), Hr2, Hsnd. reflexivity.
Qed.

(* non-vacuity: the MRT unit (id 1) imports a table dump of two peers, a BMP
   router (parent 5) brings a peer with the same address and AS, a BGP session
   with that address and AS is accepted, descriptions are updated; the update
   file and the state change find the dump's id 2 - as the only candidate *)
Lemma sites_example :
  let p1 := MkInfo None (Some 1) (Some 10) (Some 65010) None (Some 3) None None in
  let p2 := MkInfo None (Some 1) (Some 11) (Some 65010) None (Some 3) None None in
  let bp := MkInfo None (Some 5) (Some 10) (Some 65010) (Some 0) None None None in
  let bg := MkInfo None None (Some 10) (Some 65010) None None (Some 9) None in
  let ops1 := [SSite site_bgp_session bg] in
  let ops2 := [SSite site_mrt_dump p2; SSite site_bmp_peer bp; SSite site_bgp_session bg;
               SMeta 2 (MkInfo None None None None None None (Some 4) None);
               SSite site_mrt_update p2] in
  let ops := ops1 ++ SSite site_mrt_dump p1 :: ops2 in
  sok_run reg_new ops = true /\
  site_fresh (fst (srun ops1)) site_mrt_dump p1 = true /\
  serial (fst (srun ops1)) = 2 /\
  snd (srun (ops ++ [SSite site_mrt_update p1; SSite site_mrt_state p1])) =
    [Some 1; Some 2; Some 3; Some 4; Some 5; None; Some 3; Some 2; Some 2].
Proof. vm_compute. repeat split; reflexivity. Qed.
