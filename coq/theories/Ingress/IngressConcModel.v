(* Small-step model of Register::update_info (src/ingress.rs) under concurrency.
   Definitions only; proofs are in IngressConcProofs.v.

   IngressModel.v takes every method of the Register as one atomic step. For
   update_info this file spells out WHY, and what is lost otherwise: threads run
   programs of update_info calls against one shared map; a schedule (a list of
   thread numbers) says which thread takes the next step.

   * variant [Atomic] = the code as it is: the whole body
       lock = info.write(); old = lock.remove(id); merge the fields; lock.insert(id, old)
     runs under the write lock, so one call is ONE step of the shared map.
   * variant [Split] = the refuted counterfactual (seeded change C14-b1): the
     current entry is fetched with get(id) (read lock, clone, lock released) -
     step 1, the thread keeps the snapshot - and the write lock is only taken for
     remove + insert of the merged snapshot - step 2. *)
From stdpp Require Import gmap.
From Coq Require Import NArith.
From RV Require Import Ingress.IngressModel.

(* the eight fields of IngressInfo, as selectors *)
Inductive fld := FUnit | FParent | FAddr | FAsn | FRib | FFile | FName | FDesc.

Definition fld_get (f : fld) (i : info) : option N :=
  match f with
  | FUnit => i_unit i | FParent => i_parent i | FAddr => i_addr i | FAsn => i_asn i
  | FRib => i_rib i | FFile => i_file i | FName => i_name i | FDesc => i_desc i
  end.

Definition fld_of (o : option info) (f : fld) : option N :=
  match o with Some i => fld_get f i | None => None end.

(* one update_info call *)
Record call := MkCall { c_id : N; c_new : info }.

(* what a call stores for its id, given the entry it merges into *)
Definition merged (cur : option info) (new : info) : info :=
  match cur with Some old => info_merge old new | None => new end.

(* the body of update_info on the shared map, as one step *)
Definition write_of (m : gmap N info) (c : call) : gmap N info :=
  <[ c_id c := merged (m !! c_id c) (c_new c) ]> m.

(* a thread: the calls it still has to make, and - Split variant only - the
   snapshot it took for the call it is in the middle of *)
Record thread := MkThread { t_todo : list call; t_snap : option (option info) }.

Record cstate := MkC { c_infos : gmap N info; c_threads : list thread }.

Inductive variant := Atomic | Split.

(* one step of one thread; the third component is the call that took effect on
   the shared map in this step (its linearisation point), if any *)
Definition tstep (v : variant) (m : gmap N info) (th : thread) : gmap N info * thread * option call :=
  match t_todo th with
  | [] => (m, th, None)
  | c :: rest =>
      match v with
      | Atomic => (write_of m c, MkThread rest None, Some c)
      | Split =>
          match t_snap th with
          | None => (m, MkThread (c :: rest) (Some (m !! c_id c)), None)
          | Some snap => (<[ c_id c := merged snap (c_new c) ]> m, MkThread rest None, Some c)
          end
      end
  end.

(* thread number t takes a step (a number that names no thread: nothing happens) *)
Definition cstep (v : variant) (st : cstate) (t : nat) : cstate * option (nat * call) :=
  match c_threads st !! t with
  | None => (st, None)
  | Some th =>
      let '(m, th', ev) := tstep v (c_infos st) th in
      (MkC m (<[ t := th' ]> (c_threads st)),
       match ev with Some c => Some (t, c) | None => None end)
  end.

(* a schedule; the trace lists (thread, call) in the order the calls took effect *)
Fixpoint crun (v : variant) (st : cstate) (sched : list nat) : cstate * list (nat * call) :=
  match sched with
  | [] => (st, [])
  | t :: sched' =>
      let '(st1, ev) := cstep v st t in
      let '(st2, evs) := crun v st1 sched' in
      (st2, match ev with Some e => e :: evs | None => evs end)
  end.

Definition cinit (m : gmap N info) (progs : list (list call)) : cstate :=
  MkC m (map (fun p => MkThread p None) progs).

(* the sequential reading: calls applied one after another *)
Definition seq_apply (m : gmap N info) (cs : list call) : gmap N info := fold_left write_of cs m.

(* the calls of thread t in a trace, in order *)
Definition calls_of (t : nat) (tr : list (nat * call)) : list call :=
  map snd (filter (fun e => fst e = t) tr).

(* the value of field f of id after the calls cs, if these calls were the only
   ones supplying f for id: the last supplied value, else what was there *)
Definition last_supplied (f : fld) (id : N) (cs : list call) (init : option N) : option N :=
  fold_left (fun acc c => if N.eqb (c_id c) id then upd_field acc (fld_get f (c_new c)) else acc) cs init.

Definition all_done (st : cstate) : bool :=
  forallb (fun th => match t_todo th with [] => true | _ => false end) (c_threads st).
