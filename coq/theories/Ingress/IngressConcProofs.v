From stdpp Require Import gmap.
From Coq Require Import NArith Lia.
From RV Require Import Ingress.IngressModel Ingress.IngressProofs Ingress.IngressConcModel.

Local Open Scope N_scope.

(* ---------- the one-step body is IngressModel's update_info ---------- *)

Lemma write_of_update_info r id new :
  infos (reg_update_info r id new) = write_of (infos r) (MkCall id new).
Proof. reflexivity. Qed.

Lemma fld_get_merge f old new :
  fld_get f (info_merge old new) = upd_field (fld_get f old) (fld_get f new).
Proof. destruct f; reflexivity. Qed.

Lemma fld_of_merged f cur new :
  fld_get f (merged cur new) = upd_field (fld_of cur f) (fld_get f new).
Proof.
  destruct cur as [old|]; cbn [merged fld_of]; [apply fld_get_merge|].
  destruct (fld_get f new); reflexivity.
Qed.

(* ---------- traces ---------- *)

Lemma calls_of_cons_same t c tr : calls_of t ((t, c) :: tr) = c :: calls_of t tr.
Proof. unfold calls_of. rewrite filter_cons_True by reflexivity. reflexivity. Qed.

Lemma calls_of_cons_other t t' c tr : t' <> t -> calls_of t ((t', c) :: tr) = calls_of t tr.
Proof. intros Hne. unfold calls_of. rewrite filter_cons_False by (cbn; congruence). reflexivity. Qed.

Lemma crun_cons v st t sched :
  crun v st (t :: sched) =
  (fst (crun v (fst (cstep v st t)) sched),
   match snd (cstep v st t) with Some e => e :: snd (crun v (fst (cstep v st t)) sched)
                               | None => snd (crun v (fst (cstep v st t)) sched) end).
Proof. cbn [crun]. destruct (cstep v st t) as [st1 ev]. cbn [fst snd]. destruct (crun v st1 sched); reflexivity. Qed.

(* what one atomic step does *)
Lemma cstep_atomic_idle st t :
  (c_threads st !! t = None \/ exists th, c_threads st !! t = Some th /\ t_todo th = []) ->
  cstep Atomic st t = (st, None).
Proof.
  intros [Hn|(th & Hth & Htodo)]; unfold cstep.
  - rewrite Hn. reflexivity.
  - rewrite Hth. unfold tstep. rewrite Htodo. rewrite list_insert_id by exact Hth.
    destruct st; reflexivity.
Qed.

Lemma cstep_atomic_call st t th c rest :
  c_threads st !! t = Some th -> t_todo th = c :: rest ->
  cstep Atomic st t =
  (MkC (write_of (c_infos st) c) (<[ t := MkThread rest None ]> (c_threads st)), Some (t, c)).
Proof. intros Hth Htodo. unfold cstep. rewrite Hth. unfold tstep. rewrite Htodo. reflexivity. Qed.

(* ---------- every schedule of the atomic variant is a sequential history ----------
   The shared map after ANY schedule is the map after applying the calls that
   took effect, one after another, in trace order; and the trace is an
   interleaving of the threads' programs: per thread, exactly the prefix of its
   program it has got through, in program order. *)
Theorem atomic_linearizable sched : forall st,
  let st' := fst (crun Atomic st sched) in
  let tr := snd (crun Atomic st sched) in
  c_infos st' = seq_apply (c_infos st) (map snd tr) /\
  forall t th, c_threads st !! t = Some th ->
    exists th', c_threads st' !! t = Some th' /\ t_todo th = calls_of t tr ++ t_todo th'.
Proof.
  induction sched as [|t sched IH]; intros st.
  - cbn. split; [reflexivity|]. intros t th Hth. exists th. split; [exact Hth|reflexivity].
  - cbn zeta. rewrite crun_cons. cbn [fst snd].
    destruct (c_threads st !! t) as [th|] eqn:Eth.
    + destruct (t_todo th) as [|c rest] eqn:Etodo.
      * rewrite (cstep_atomic_idle st t) by (right; eauto). cbn [fst snd]. apply IH.
      * rewrite (cstep_atomic_call st t th c rest Eth Etodo). cbn [fst snd].
        set (st1 := MkC (write_of (c_infos st) c) (<[ t := MkThread rest None ]> (c_threads st))).
        destruct (IH st1) as [Hm Hthreads]. split.
        -- rewrite Hm. reflexivity.
        -- intros t2 th2 Hth2. destruct (decide (t2 = t)) as [->|Hne].
           ++ assert (th2 = th) as -> by congruence.
              destruct (Hthreads t (MkThread rest None)) as (th' & Hth' & Hrest).
              { subst st1. cbn [c_threads]. apply list_lookup_insert. eapply lookup_lt_Some, Eth. }
              exists th'. split; [exact Hth'|]. rewrite calls_of_cons_same, Etodo.
              cbn [t_todo] in Hrest. rewrite Hrest. reflexivity.
           ++ destruct (Hthreads t2 th2) as (th' & Hth' & Hrest).
              { subst st1. cbn [c_threads]. rewrite list_lookup_insert_ne by congruence. exact Hth2. }
              exists th'. split; [exact Hth'|]. rewrite calls_of_cons_other by congruence. exact Hrest.
    + rewrite (cstep_atomic_idle st t) by (left; exact Eth). cbn [fst snd]. apply IH.
Qed.

(* every call in the trace comes from the program of the thread it is filed under *)
Lemma trace_from_programs sched : forall st t c,
  (t, c) ∈ snd (crun Atomic st sched) ->
  exists th, c_threads st !! t = Some th /\ c ∈ t_todo th.
Proof.
  intros st t c Hin. pose proof (atomic_linearizable sched st) as [_ Hthreads]. cbn zeta in Hthreads.
  destruct (c_threads st !! t) as [th|] eqn:Eth.
  - exists th. split; [reflexivity|]. destruct (Hthreads t th Eth) as (th' & _ & Hsplit).
    rewrite Hsplit. apply elem_of_app. left. unfold calls_of.
    apply elem_of_list_fmap. exists (t, c). split; [reflexivity|].
    apply elem_of_list_filter. split; [reflexivity|exact Hin].
  - exfalso. clear Hthreads. revert st Eth Hin.
    induction sched as [|t2 sched IH]; intros st Eth Hin.
    + cbn in Hin. inversion Hin.
    + rewrite crun_cons in Hin. cbn [snd] in Hin.
      destruct (c_threads st !! t2) as [th2|] eqn:Eth2.
      * destruct (t_todo th2) as [|c2 rest] eqn:Etodo.
        -- rewrite (cstep_atomic_idle st t2) in Hin by (right; eauto). cbn [fst snd] in Hin. eapply IH; eassumption.
        -- rewrite (cstep_atomic_call st t2 th2 c2 rest Eth2 Etodo) in Hin. cbn [fst snd] in Hin.
           apply elem_of_cons in Hin as [Heq|Hin].
           ++ injection Heq as -> ->. congruence.
           ++ eapply IH; [|exact Hin]. cbn [c_threads].
              destruct (decide (t = t2)) as [->|Hne]; [congruence|].
              rewrite list_lookup_insert_ne by congruence. exact Eth.
      * rewrite (cstep_atomic_idle st t2) in Hin by (left; exact Eth2). cbn [fst snd] in Hin. eapply IH; eassumption.
Qed.

(* ---------- field by field ---------- *)

(* sequentially, field f of id is the last value supplied for it *)
Lemma seq_apply_field f id cs : forall m,
  fld_of (seq_apply m cs !! id) f = last_supplied f id cs (fld_of (m !! id) f).
Proof.
  induction cs as [|c cs IH]; intros m; [reflexivity|].
  unfold seq_apply, last_supplied in *. cbn [fold_left]. rewrite IH. f_equal.
  unfold write_of. destruct (N.eqb_spec (c_id c) id) as [Heq|Hne].
  - rewrite Heq, lookup_insert. cbn [fld_of]. apply fld_of_merged.
  - rewrite lookup_insert_ne by exact Hne. reflexivity.
Qed.

(* calls of other threads that do not supply f for id drop out *)
Lemma last_supplied_own f id t tr : forall init,
  (forall t' c, (t', c) ∈ tr -> t' <> t -> c_id c = id -> fld_get f (c_new c) = None) ->
  last_supplied f id (map snd tr) init = last_supplied f id (calls_of t tr) init.
Proof.
  induction tr as [|[t' c] tr IH]; intros init Hothers; [reflexivity|].
  assert (Htl : forall t2 c2, (t2, c2) ∈ tr -> t2 <> t -> c_id c2 = id -> fld_get f (c_new c2) = None).
  { intros t2 c2 Hin. apply Hothers. right. exact Hin. }
  destruct (decide (t' = t)) as [->|Hne].
  - rewrite calls_of_cons_same. cbn [map snd]. unfold last_supplied in *. cbn [fold_left]. apply IH, Htl.
  - rewrite calls_of_cons_other by exact Hne. cbn [map snd]. unfold last_supplied in *. cbn [fold_left].
    destruct (N.eqb_spec (c_id c) id) as [Heq|Hneq].
    + rewrite (Hothers t' c) by (try left; auto). cbn [upd_field]. apply IH, Htl.
    + apply IH, Htl.
Qed.

(* If no other thread ever supplies field f of id, then after ANY schedule -
   in the middle of everything - field f of id is what thread t's own calls
   made it: the value of the last of ITS completed calls that supplied f (or the
   initial value if there is none yet). In particular, when t's update_info(id,
   f := v) has returned and t looks with get(id), it reads f = v, whatever
   the other threads are doing to the other fields of the same id. *)
Theorem atomic_own_field sched st t f id :
  (forall t' th c, t' <> t -> c_threads st !! t' = Some th -> c ∈ t_todo th ->
                   c_id c = id -> fld_get f (c_new c) = None) ->
  let st' := fst (crun Atomic st sched) in
  let tr := snd (crun Atomic st sched) in
  fld_of (c_infos st' !! id) f = last_supplied f id (calls_of t tr) (fld_of (c_infos st !! id) f).
Proof.
  intros Hothers. cbn zeta.
  destruct (atomic_linearizable sched st) as [Hm _]. cbn zeta in Hm. rewrite Hm, seq_apply_field.
  apply last_supplied_own. intros t' c Hin Hne Hid.
  destruct (trace_from_programs sched st t' c Hin) as (th & Hth & Hc).
  eapply Hothers; eassumption.
Qed.

Lemma last_supplied_snoc f id cs c init :
  last_supplied f id (cs ++ [c]) init =
  if N.eqb (c_id c) id then upd_field (last_supplied f id cs init) (fld_get f (c_new c))
  else last_supplied f id cs init.
Proof. unfold last_supplied. rewrite fold_left_app. reflexivity. Qed.

(* ... spelled out: the thread's latest completed call wrote f := v for id *)
Corollary atomic_reads_own_write sched st t f id done c v :
  (forall t' th c, t' <> t -> c_threads st !! t' = Some th -> c ∈ t_todo th ->
                   c_id c = id -> fld_get f (c_new c) = None) ->
  calls_of t (snd (crun Atomic st sched)) = done ++ [c] ->
  c_id c = id -> fld_get f (c_new c) = Some v ->
  fld_of (c_infos (fst (crun Atomic st sched)) !! id) f = Some v.
Proof.
  intros Hothers Hdone Hid Hv. rewrite (atomic_own_field sched st t f id Hothers), Hdone.
  rewrite last_supplied_snoc, Hid, N.eqb_refl, Hv. reflexivity.
Qed.

(* a field that is set never becomes unset: no schedule of update_info calls -
   whatever they supply - makes parent / address / AS / RIB view of an entry
   disappear *)
Lemma seq_apply_keeps_set f id cs : forall m,
  is_some (fld_of (m !! id) f) = true -> is_some (fld_of (seq_apply m cs !! id) f) = true.
Proof.
  induction cs as [|c cs IH]; intros m Hs; [exact Hs|].
  unfold seq_apply in *. cbn [fold_left]. apply IH.
  unfold write_of. destruct (N.eqb_spec (c_id c) id) as [Heq|Hne].
  - rewrite Heq, lookup_insert. cbn [fld_of]. rewrite fld_of_merged.
    destruct (fld_get f (c_new c)); [reflexivity|exact Hs].
  - rewrite lookup_insert_ne by exact Hne. exact Hs.
Qed.

Theorem atomic_keeps_set_fields sched st f id :
  is_some (fld_of (c_infos st !! id) f) = true ->
  is_some (fld_of (c_infos (fst (crun Atomic st sched)) !! id) f) = true.
Proof.
  intros Hs. destruct (atomic_linearizable sched st) as [Hm _]. cbn zeta in Hm. rewrite Hm.
  apply seq_apply_keeps_set, Hs.
Qed.

(* ---------- lookups under concurrent descriptive updates ---------- *)

Definition oident (o : option info) : option N * option N * option N * option N :=
  match o with Some i => ident i | None => (None, None, None, None) end.

Lemma write_of_meta_ident m c k :
  meta_only (c_new c) = true -> oident (write_of m c !! k) = oident (m !! k).
Proof.
  intros Hmeta. unfold write_of. destruct (decide (k = c_id c)) as [->|Hne].
  - rewrite lookup_insert. cbn [oident]. destruct (m !! c_id c) as [old|]; cbn [merged oident].
    + apply ident_merge_meta_new, Hmeta.
    + apply meta_only_spec, Hmeta.
  - rewrite lookup_insert_ne by congruence. reflexivity.
Qed.

Lemma seq_apply_meta_ident cs : forall m k,
  Forall (fun c => meta_only (c_new c) = true) cs -> oident (seq_apply m cs !! k) = oident (m !! k).
Proof.
  induction cs as [|c cs IH]; intros m k Hall; [reflexivity|].
  inversion Hall as [|? ? Hc Hcs]; subst. unfold seq_apply in *. cbn [fold_left].
  rewrite IH by exact Hcs. apply write_of_meta_ident, Hc.
Qed.

(* a matcher that reads the identity fields only, and needs some of them *)
Definition ident_matcher (m : info -> info -> bool) : Prop :=
  (forall q i j, ident i = ident j -> m q i = m q j) /\
  (forall q i, ident i = (None, None, None, None) -> m q i = false).

Lemma peer_match_ident_matcher : ident_matcher peer_match.
Proof. split; [apply peer_match_ident|]. intros q i Hi. apply peer_match_meta, meta_only_spec, Hi. Qed.

Lemma router_match_ident_matcher : ident_matcher router_match.
Proof. split; [apply router_match_ident|]. intros q i Hi. apply router_match_meta, meta_only_spec, Hi. Qed.

Lemma find_all_same_idents m s s' m1 m2 q :
  ident_matcher m -> (forall k, oident (m1 !! k) = oident (m2 !! k)) ->
  forall x, x ∈ reg_find_all m (MkReg s m1) q -> x ∈ reg_find_all m (MkReg s' m2) q.
Proof.
  intros [Hid Hnone] Hsame x. rewrite !elem_of_find_all. cbn [infos].
  intros (i & Hi & Hm). specialize (Hsame x). rewrite Hi in Hsame. cbn [oident] in Hsame.
  destruct (m2 !! x) as [j|] eqn:Ej; cbn [oident] in Hsame.
  - exists j. split; [reflexivity|]. rewrite <- Hm. apply Hid. symmetry. exact Hsame.
  - rewrite (Hnone q i Hsame) in Hm. discriminate.
Qed.

(* While any number of threads update descriptive fields (unit name, file
   name, name, description) of any ids, in any interleaving, every lookup
   answers as before: find_existing_peer, find_existing_bmp_router and
   ids_for_parent have exactly the candidates they had. *)
Theorem atomic_lookups_stable sched st :
  (forall t th c, c_threads st !! t = Some th -> c ∈ t_todo th -> meta_only (c_new c) = true) ->
  let m' := c_infos (fst (crun Atomic st sched)) in
  forall s q x,
    (x ∈ reg_find_peers (MkReg s m') q <-> x ∈ reg_find_peers (MkReg s (c_infos st)) q) /\
    (x ∈ reg_find_routers (MkReg s m') q <-> x ∈ reg_find_routers (MkReg s (c_infos st)) q) /\
    (forall p, x ∈ reg_ids_for_parent (MkReg s m') p <-> x ∈ reg_ids_for_parent (MkReg s (c_infos st)) p).
Proof.
  intros Hmeta m' s q x.
  destruct (atomic_linearizable sched st) as [Hm _]. cbn zeta in Hm. fold m' in Hm.
  assert (Hall : Forall (fun c => meta_only (c_new c) = true) (map snd (snd (crun Atomic st sched)))).
  { apply Forall_forall. intros c Hc. apply elem_of_list_fmap in Hc as ([t c'] & -> & Hin).
    destruct (trace_from_programs sched st t c' Hin) as (th & Hth & Hc'). eapply Hmeta; eassumption. }
  assert (Hsame : forall k, oident (m' !! k) = oident (c_infos st !! k)).
  { intros k. rewrite Hm. apply seq_apply_meta_ident, Hall. }
  assert (Hsame' : forall k, oident (c_infos st !! k) = oident (m' !! k)) by (intros k; symmetry; apply Hsame).
  split; [|split].
  - unfold reg_find_peers. split; apply find_all_same_idents; auto using peer_match_ident_matcher.
  - unfold reg_find_routers. split; apply find_all_same_idents; auto using router_match_ident_matcher.
  - intros p. rewrite !elem_of_ids_for_parent. cbn [infos].
    split; intros (i & Hi & Hp).
    + specialize (Hsame x). rewrite Hi in Hsame. cbn [oident] in Hsame.
      destruct (c_infos st !! x) as [j|]; cbn [oident] in Hsame.
      * exists j. split; [reflexivity|]. unfold ident in Hsame. injection Hsame as <- _ _ _. exact Hp.
      * unfold ident in Hsame. injection Hsame as Hpar _ _ _. congruence.
    + specialize (Hsame x). rewrite Hi in Hsame. cbn [oident] in Hsame.
      destruct (m' !! x) as [j|]; cbn [oident] in Hsame.
      * exists j. split; [reflexivity|]. unfold ident in Hsame. injection Hsame as -> _ _ _. exact Hp.
      * unfold ident in Hsame. injection Hsame as Hpar _ _ _. congruence.
Qed.

(* ---------- the split variant loses updates ---------- *)

(* id 2 is a router entry (parent 1, address 9). Thread 0 sets its name,
   thread 1 its description; nobody else supplies either. Schedule: 0 reads,
   1 reads, 1 writes, 0 writes. Both calls have returned; the description
   thread 1 wrote - and would read back with get(2) - is gone, although in
   every sequential order of the two calls both fields are set. *)
Lemma split_loses_update :
  let i0 := MkInfo None (Some 1) (Some 9) None None None None None in
  let name5 := MkInfo None None None None None None (Some 5) None in
  let desc7 := MkInfo None None None None None None None (Some 7) in
  let progs := [[MkCall 2 name5]; [MkCall 2 desc7]] in
  let st0 := cinit {[ 2 := i0 ]} progs in
  let st' := fst (crun Split st0 [0; 1; 1; 0]%nat) in
  let tr := snd (crun Split st0 [0; 1; 1; 0]%nat) in
  all_done st' = true /\
  tr = [(1%nat, MkCall 2 desc7); (0%nat, MkCall 2 name5)] /\
  fld_of (c_infos st' !! 2) FDesc = None /\
  last_supplied FDesc 2 (calls_of 1 tr) None = Some 7 /\
  fld_of (seq_apply (c_infos st0) [MkCall 2 name5; MkCall 2 desc7] !! 2) FDesc = Some 7 /\
  fld_of (seq_apply (c_infos st0) [MkCall 2 desc7; MkCall 2 name5] !! 2) FDesc = Some 7 /\
  fld_of (c_infos (fst (crun Atomic st0 [0; 1; 1; 0]%nat)) !! 2) FDesc = Some 7.
Proof. vm_compute. repeat split; reflexivity. Qed.

(* ... and it can lose the identity of a source: thread 0 sets a name on the
   freshly allocated id 2 while thread 1 files its registration (parent 1,
   address 9, AS 65000). 0 reads (nothing there yet), 1 reads and writes, 0
   writes its stale copy: the entry has a name and nothing else, the unit has
   no child any more and the peer is not found - a returning peer would be
   given a second id. *)
Lemma split_loses_identity :
  let regi := MkInfo None (Some 1) (Some 9) (Some 65000) None None None None in
  let name5 := MkInfo None None None None None None (Some 5) None in
  let progs := [[MkCall 2 name5]; [MkCall 2 regi]] in
  let st0 := cinit ∅ progs in
  let st' := fst (crun Split st0 [0; 1; 1; 0]%nat) in
  let st_a := fst (crun Atomic st0 [0; 1; 1; 0]%nat) in
  all_done st' = true /\
  reg_ids_for_parent (MkReg 3 (c_infos st')) 1 = [] /\
  reg_find_peers (MkReg 3 (c_infos st')) regi = [] /\
  reg_ids_for_parent (MkReg 3 (c_infos st_a)) 1 = [2] /\
  reg_find_peers (MkReg 3 (c_infos st_a)) regi = [2].
Proof. vm_compute. repeat split; reflexivity. Qed.
