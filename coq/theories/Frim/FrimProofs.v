From stdpp Require Import gmap.
From Coq Require Import NArith Lia.
From RV Require Import Frim.FrimModel.

(* ================================================================== *)
(* Part 1: the vector functions implement a finite map                *)
(* ================================================================== *)

Lemma elem_of_Lfilter {A} (p : A -> bool) (l : list A) (x : A) :
  x ∈ List.filter p l <-> x ∈ l /\ p x = true.
Proof. rewrite !elem_of_list_In. apply List.filter_In. Qed.

Lemma fst_Lfilter_subset (p : N * N -> bool) (l : fvec) k :
  k ∈ (List.filter p l).*1 -> k ∈ l.*1.
Proof.
  rewrite !elem_of_list_fmap. intros (x & -> & Hx). apply elem_of_Lfilter in Hx as [Hx _]. eauto.
Qed.

Lemma NoDup_fst_Lfilter (p : N * N -> bool) (l : fvec) :
  NoDup l.*1 -> NoDup (List.filter p l).*1.
Proof.
  induction l as [|a l IH]; intros Hnd; [constructor|].
  rewrite fmap_cons in Hnd. apply NoDup_cons in Hnd as [Hni Hnd].
  cbn [List.filter]. destruct (p a); [|auto].
  rewrite fmap_cons. apply NoDup_cons. split; [|auto].
  intros Hc. apply Hni. eapply fst_Lfilter_subset, Hc.
Qed.

Lemma abs_lookup_Some (l : fvec) k v :
  NoDup l.*1 -> fv_abs l !! k = Some v <-> (k, v) ∈ l.
Proof. intros Hnd. unfold fv_abs. symmetry. apply elem_of_list_to_map, Hnd. Qed.

Lemma fv_find_lookup k (l : fvec) : fv_find k l = fv_abs l !! k.
Proof.
  unfold fv_abs. induction l as [|[k' v] l IH]; [reflexivity|].
  cbn [fv_find]. rewrite list_to_map_cons.
  destruct (N.eqb_spec k' k) as [->|Hne].
  - rewrite lookup_insert. reflexivity.
  - rewrite lookup_insert_ne by exact Hne. exact IH.
Qed.

(* insert *)
Lemma fv_insert_nodup k v (l : fvec) : NoDup l.*1 -> NoDup (fv_insert k v l).*1.
Proof.
  intros Hnd. unfold fv_insert. rewrite fmap_app. apply NoDup_app. split; [|split].
  - apply NoDup_fst_Lfilter, Hnd.
  - intros x Hx Hk. cbn in Hk. apply elem_of_list_singleton in Hk as ->.
    apply elem_of_list_fmap in Hx as ([k' v'] & Hk' & Hin). cbn in Hk'. subst k'.
    apply elem_of_Lfilter in Hin as [_ Hp]. cbn in Hp. rewrite N.eqb_refl in Hp. discriminate.
  - cbn. apply NoDup_singleton.
Qed.

Lemma fv_insert_abs k v (l : fvec) :
  NoDup l.*1 -> fv_abs (fv_insert k v l) = <[k := v]> (fv_abs l).
Proof.
  intros Hnd. apply map_eq. intros i. apply option_eq. intros x.
  rewrite abs_lookup_Some by (apply fv_insert_nodup, Hnd).
  rewrite lookup_insert_Some, abs_lookup_Some by exact Hnd.
  unfold fv_insert. rewrite elem_of_app, elem_of_Lfilter, elem_of_list_singleton. cbn.
  split.
  - intros [[Hin Hp]|[= -> ->]]; [|left; auto]. right. split; [|exact Hin].
    intros ->. rewrite N.eqb_refl in Hp. discriminate.
  - intros [[-> ->]|[Hne Hin]]; [right; reflexivity|]. left. split; [exact Hin|].
    destruct (N.eqb_spec i k) as [->|_]; [congruence|reflexivity].
Qed.

(* retain *)
Lemma fv_retain_nodup f (l : fvec) : NoDup l.*1 -> NoDup (fv_retain f l).*1.
Proof. apply NoDup_fst_Lfilter. Qed.

Lemma fv_retain_abs f (l : fvec) :
  NoDup l.*1 ->
  fv_abs (fv_retain f l) = filter (fun kv => f (fst kv) (snd kv) = true) (fv_abs l).
Proof.
  intros Hnd. apply map_eq. intros i. apply option_eq. intros x.
  rewrite abs_lookup_Some by (apply fv_retain_nodup, Hnd).
  rewrite map_filter_lookup_Some, abs_lookup_Some by exact Hnd.
  unfold fv_retain. rewrite elem_of_Lfilter. reflexivity.
Qed.

(* remove *)
Lemma fv_remove_keys k (l : fvec) x : x ∈ (fst (fv_remove k l)).*1 -> x ∈ l.*1.
Proof.
  induction l as [|[k' v] l IH]; cbn [fv_remove]; [auto|].
  destruct (N.eqb k' k).
  - cbn [fst]. rewrite fmap_cons. intros H. apply elem_of_cons. right. exact H.
  - destruct (fv_remove k l) as [r o]. cbn [fst] in *. rewrite !fmap_cons, !elem_of_cons.
    intros [->|H]; [left; reflexivity|right; auto].
Qed.

Lemma fv_remove_spec k (l : fvec) :
  NoDup l.*1 ->
  snd (fv_remove k l) = fv_find k l /\
  fv_abs (fst (fv_remove k l)) = delete k (fv_abs l) /\
  NoDup (fst (fv_remove k l)).*1.
Proof.
  induction l as [|[k' v] l IH]; intros Hnd.
  - cbn. split; [reflexivity|]. split; [|constructor].
    unfold fv_abs. cbn. rewrite delete_empty. reflexivity.
  - rewrite fmap_cons in Hnd. apply NoDup_cons in Hnd as [Hni Hnd]. cbn [fst] in Hni.
    cbn [fv_remove fv_find]. destruct (N.eqb_spec k' k) as [->|Hne].
    + cbn [fst snd]. split; [reflexivity|]. split; [|exact Hnd].
      unfold fv_abs. rewrite list_to_map_cons, delete_insert; [reflexivity|].
      apply not_elem_of_list_to_map_1, Hni.
    + destruct (IH Hnd) as (Hr & Ha & Hn).
      pose proof (fv_remove_keys k l) as Hk.
      destruct (fv_remove k l) as [r o]. cbn [fst snd] in *.
      split; [exact Hr|]. split.
      * unfold fv_abs in *. rewrite !list_to_map_cons, Ha, delete_insert_ne by (intros ->; apply Hne; reflexivity). reflexivity.
      * rewrite fmap_cons. apply NoDup_cons. split; [|exact Hn]. intros Hc. apply Hni, Hk, Hc.
Qed.

(* len *)
Lemma fv_len_size (l : fvec) : NoDup l.*1 -> length l = size (fv_abs l).
Proof.
  intros Hnd. unfold fv_abs, size, map_size.
  rewrite <- (Permutation_length (map_to_list_to_map l Hnd)). reflexivity.
Qed.

(* one call *)
Lemma fv_apply_refines o (l : fvec) :
  NoDup l.*1 -> op_wf o ->
  fm_ret_ok o (fv_abs l) (snd (fv_apply o l)) /\
  fv_abs (fst (fv_apply o l)) = fm_next o (fv_abs l) /\
  NoDup (fst (fv_apply o l)).*1.
Proof.
  intros Hnd Hwf. destruct o as [k v|k|f|n|k|k| | | |k v]; cbn [fv_apply fm_ret_ok fm_next fst snd].
  - split; [reflexivity|]. split; [apply fv_insert_abs, Hnd|apply fv_insert_nodup, Hnd].
  - destruct (fv_remove_spec k l Hnd) as (Hr & Ha & Hn).
    destruct (fv_remove k l) as [l' r]. cbn [fst snd] in *.
    split; [rewrite Hr, fv_find_lookup; reflexivity|]. split; [exact Ha|exact Hn].
  - split; [reflexivity|]. split; [apply fv_retain_abs, Hnd|apply fv_retain_nodup, Hnd].
  - split; [reflexivity|]. split; [reflexivity|exact Hwf].
  - split; [rewrite fv_find_lookup; reflexivity|]. split; [reflexivity|exact Hnd].
  - split; [rewrite fv_find_lookup; reflexivity|]. split; [reflexivity|exact Hnd].
  - split; [rewrite fv_len_size by exact Hnd; reflexivity|]. split; [reflexivity|exact Hnd].
  - split; [exists l; auto|]. split; [reflexivity|exact Hnd].
  - split; [rewrite fv_len_size by exact Hnd; reflexivity|]. split; [reflexivity|exact Hnd].
  - rewrite <- fv_find_lookup. destruct (fv_find k l) as [v0|]; cbn [fst snd default].
    + split; [reflexivity|]. split; [reflexivity|exact Hnd].
    + split; [reflexivity|]. split; [apply fv_insert_abs, Hnd|apply fv_insert_nodup, Hnd].
Qed.

(* one thread alone, entry(k).or_insert_with(|| v) is its two parts back to back:
   the lookup, and - if that found nothing - the insert *)
Lemma entry_parts_sequential k v (l : fvec) :
  fv_apply (FEntry k v) l =
  match fv_find k l with
  | Some v0 => (l, RVal v0)
  | None => (fst (fv_apply (FIns k v) (fst (fv_apply (FGet k) l))), RVal v)
  end.
Proof. cbn [fv_apply fst]. destruct (fv_find k l); reflexivity. Qed.

Lemma fv_legal_refines h : forall (l e : fvec),
  NoDup l.*1 -> Forall op_wf h.*1 -> fv_legal h l e ->
  fm_legal h (fv_abs l) (fv_abs e) /\ NoDup e.*1.
Proof.
  induction h as [|[o r] h IH]; intros l e Hnd Hwf Hl; cbn [fv_legal fm_legal] in *.
  - subst e. auto.
  - rewrite fmap_cons in Hwf. apply Forall_cons in Hwf as [Hwo Hwf]. destruct Hl as [-> Hl].
    destruct (fv_apply_refines o l Hnd Hwo) as (Hr & Ha & Hn).
    destruct (IH _ _ Hn Hwf Hl) as [Hm He]. rewrite Ha in Hm. auto.
Qed.

Lemma fv_legal_app h1 : forall h2 (l m e : fvec),
  fv_legal h1 l m -> fv_legal h2 m e -> fv_legal (h1 ++ h2) l e.
Proof.
  induction h1 as [|[o r] h1 IH]; intros h2 l m e H1 H2; cbn [fv_legal app] in *.
  - subst m. exact H2.
  - destruct H1 as [-> H1]. split; [reflexivity|]. eapply IH; eauto.
Qed.

Lemma fm_legal_app_inv h1 : forall h2 (m e : amap),
  fm_legal (h1 ++ h2) m e -> exists mid, fm_legal h1 m mid /\ fm_legal h2 mid e.
Proof.
  induction h1 as [|[o r] h1 IH]; intros h2 m e H; cbn [fm_legal app] in *.
  - exists m. auto.
  - destruct H as [Hr H]. destruct (IH _ _ _ H) as (mid & Ha & Hb). exists mid. auto.
Qed.

(* a single thread: the sequential behaviour *)
Lemma fv_run_legal ops : forall (l : fvec),
  fv_legal (zip ops (snd (fv_run ops l))) l (fst (fv_run ops l)).
Proof.
  induction ops as [|o ops IH]; intros l; cbn [fv_run]; [reflexivity|].
  destruct (fv_apply o l) as [l1 r] eqn:E1. specialize (IH l1).
  destruct (fv_run ops l1) as [l2 rs]. cbn [fst snd zip zip_with fv_legal] in *.
  rewrite E1. cbn [fst snd]. auto.
Qed.

Lemma fv_run_length ops : forall l, length (snd (fv_run ops l)) = length ops.
Proof.
  induction ops as [|o ops IH]; intros l; cbn [fv_run]; [reflexivity|].
  destruct (fv_apply o l) as [l1 r]. specialize (IH l1).
  destruct (fv_run ops l1) as [l2 rs]. cbn [snd length] in *. lia.
Qed.

Lemma sequential_refines ops (l : fvec) :
  NoDup l.*1 -> Forall op_wf ops ->
  fm_legal (zip ops (snd (fv_run ops l))) (fv_abs l) (fv_abs (fst (fv_run ops l))) /\
  NoDup (fst (fv_run ops l)).*1.
Proof.
  intros Hnd Hwf. apply fv_legal_refines; [exact Hnd| |apply fv_run_legal].
  rewrite fst_zip; [exact Hwf|]. rewrite fv_run_length. lia.
Qed.

Lemma fv_build_from_nodup kvs : forall acc : fvec,
  NoDup acc.*1 -> NoDup (fold_left (fun acc kv => fv_insert (fst kv) (snd kv) acc) kvs acc).*1.
Proof.
  induction kvs as [|kv kvs IH]; intros acc Hacc; cbn [fold_left]; [exact Hacc|].
  apply IH, fv_insert_nodup, Hacc.
Qed.

Lemma fv_build_nodup kvs : NoDup (fv_build kvs).*1.
Proof. apply fv_build_from_nodup. constructor. Qed.

(* ================================================================== *)
(* Part 2: exactly one remover per entry (on legal map histories)     *)
(* ================================================================== *)

Definition has_key (m : amap) (k : N) : nat := if m !! k then 1%nat else 0%nat.

Lemma count_if_cons {A} (f : A -> bool) x l :
  count_if f (x :: l) = ((if f x then 1 else 0) + count_if f l)%nat.
Proof. unfold count_if. cbn [List.filter]. destruct (f x); reflexivity. Qed.

Lemma count_if_app {A} (f : A -> bool) l1 l2 :
  count_if f (l1 ++ l2) = (count_if f l1 + count_if f l2)%nat.
Proof. unfold count_if. rewrite List.filter_app, app_length. reflexivity. Qed.

Lemma count_if_perm {A} (f : A -> bool) l1 l2 :
  l1 ≡ₚ l2 -> count_if f l1 = count_if f l2.
Proof.
  induction 1 as [|x l1 l2 _ IH|x y l|l1 l2 l3 _ IH1 _ IH2]; rewrite ?count_if_cons; lia.
Qed.

Lemma takes_le_adds k h : forall (m e : amap),
  fm_legal h m e ->
  (count_if (takes_key k) h <= has_key m k + count_if (adds_key k) h)%nat.
Proof.
  induction h as [|[o r] h IH]; intros m e Hl; [cbn; lia|].
  cbn [fm_legal] in Hl. destruct Hl as [Hr Hl]. specialize (IH _ _ Hl).
  rewrite !count_if_cons. unfold has_key in *.
  destruct o as [k' v|k'|f|n|k'|k'| | | |k' v]; cbn [fm_next fm_ret_ok takes_key adds_key fst] in *.
  - (* insert *) subst r. destruct (N.eqb_spec k' k) as [->|Hne].
    + rewrite lookup_insert in IH. destruct (m !! k); lia.
    + rewrite lookup_insert_ne in IH by exact Hne. lia.
  - (* remove *) subst r. destruct (N.eqb_spec k' k) as [->|Hne].
    + rewrite lookup_delete in IH. destruct (m !! k); lia.
    + rewrite lookup_delete_ne in IH by exact Hne. destruct (m !! k'); lia.
  - (* retain *) subst r.
    destruct (filter _ m !! k) as [x|] eqn:E; [|lia].
    apply map_filter_lookup_Some in E as [E _]. rewrite E. lia.
  - (* replace *) subst r. rewrite fv_find_lookup. destruct (fv_abs n !! k); cbn; lia.
  - subst r. lia.
  - subst r. lia.
  - subst r. lia.
  - destruct Hr as (l & -> & _). lia.
  - subst r. lia.
  - (* entry *) subst r. destruct (N.eqb_spec k' k) as [->|Hne].
    + destruct (m !! k) eqn:E; [rewrite E in IH; lia|]. rewrite lookup_insert in IH. lia.
    + destruct (m !! k'); [lia|]. rewrite lookup_insert_ne in IH by exact Hne. lia.
Qed.

Lemma takes_segment k h1 h2 h3 (m e : amap) :
  fm_legal (h1 ++ h2 ++ h3) m e ->
  (count_if (takes_key k) h2 <= 1 + count_if (adds_key k) h2)%nat.
Proof.
  intros H. apply fm_legal_app_inv in H as (m1 & _ & H).
  apply fm_legal_app_inv in H as (m2 & H & _).
  pose proof (takes_le_adds k _ _ _ H) as Hc. unfold has_key in Hc. destruct (m1 !! k); lia.
Qed.

(* ================================================================== *)
(* Part 3: the scheduler step as a relation on one thread             *)
(* ================================================================== *)

Definition is_reader (o : fop) : bool :=
  match o with FGet _ | FHas _ | FLen | FEmpty => true | _ => false end.

Inductive tstep (cv : variant) (t : nat) (stamp : N) (cur : fvec) :
  thread -> N -> fvec -> thread -> list event -> Prop :=
| ts_call o rest :
    is_writer o = true ->
    tstep cv t stamp cur (MkThread (o :: rest) PIdle)
          stamp cur (MkThread (o :: rest) (PClosure stamp cur None)) [ECall t o]
| ts_guard rest :
    tstep cv t stamp cur (MkThread (FIter :: rest) PIdle)
          stamp cur (MkThread (FIter :: rest) (PIter cur)) [ECall t FIter; ELin t FIter (RList cur)]
| ts_store n rest :
    tstep cv t stamp cur (MkThread (FRepl n :: rest) PIdle)
          (stamp + 1)%N n (MkThread rest PIdle)
          [ECall t (FRepl n); ELin t (FRepl n) RUnit; ERet t (FRepl n) RUnit]
| ts_read o rest :
    is_reader o = true ->
    tstep cv t stamp cur (MkThread (o :: rest) PIdle)
          stamp cur (MkThread rest PIdle)
          [ECall t o; ELin t o (snd (fv_apply o cur)); ERet t o (snd (fv_apply o cur))]
| ts_entry_occ k v v0 rest :
    fv_find k cur = Some v0 ->
    tstep cv t stamp cur (MkThread (FEntry k v :: rest) PIdle)
          stamp cur (MkThread rest PIdle)
          [ECall t (FEntry k v); ELin t (FGet k) (ROpt (Some v0)); ERet t (FEntry k v) (RVal v0)]
| ts_entry_vac k v rest :
    fv_find k cur = None ->
    tstep cv t stamp cur (MkThread (FEntry k v :: rest) PIdle)
          stamp cur (MkThread (FEntry k v :: rest) PVacant)
          [ECall t (FEntry k v); ELin t (FGet k) (ROpt None)]
| ts_vacant o rest :
    tstep cv t stamp cur (MkThread (o :: rest) PVacant)
          stamp cur (MkThread (o :: rest) (PClosure stamp cur None)) []
| ts_cas_ok o rest snap sticky :
    tstep cv t stamp cur (MkThread (o :: rest) (PClosure stamp snap sticky))
          (stamp + 1)%N (fst (closure cv o sticky snap)) (MkThread rest PIdle)
          [ELin t (lin_op o) (lin_ret o (writer_ret o (snd (closure cv o sticky snap))));
           ERet t o (writer_ret o (snd (closure cv o sticky snap)))]
| ts_cas_fail o rest st snap sticky :
    st <> stamp ->
    tstep cv t stamp cur (MkThread (o :: rest) (PClosure st snap sticky))
          stamp cur (MkThread (o :: rest) (PClosure stamp cur (snd (closure cv o sticky snap)))) []
| ts_iterate o rest snap :
    tstep cv t stamp cur (MkThread (o :: rest) (PIter snap))
          stamp cur (MkThread rest PIdle) [ERet t o (RList snap)].

Lemma step_shape cv s t :
  (step cv s t = s /\ thread_done s t = true) \/
  exists th stamp' cur' th' evs nf,
    g_thr s !! t = Some th /\
    tstep cv t (g_stamp s) (g_cur s) th stamp' cur' th' evs /\
    step cv s t = MkG stamp' cur' (<[t := th']> (g_thr s)) (g_log s ++ evs) nf.
Proof.
  unfold step, set_thr, thread_done. destruct (g_thr s !! t) as [[prog p]|] eqn:Et; [|left; split; reflexivity].
  cbn [t_prog t_pc]. destruct prog as [|o rest]; [left; split; reflexivity|]. right.
  destruct p as [|st snap sticky|snap|].
  - destruct (is_writer o) eqn:Ew.
    + eexists _, _, _, _, _, _. split; [reflexivity|]. split; [apply ts_call, Ew|reflexivity].
    + destruct o as [k v|k|f|n|k|k| | | |k v]; try discriminate Ew.
      * eexists _, _, _, _, _, _. split; [reflexivity|]. split; [apply ts_store|reflexivity].
      * eexists _, _, _, _, _, _. split; [reflexivity|]. split; [apply ts_read; reflexivity|reflexivity].
      * eexists _, _, _, _, _, _. split; [reflexivity|]. split; [apply ts_read; reflexivity|reflexivity].
      * eexists _, _, _, _, _, _. split; [reflexivity|]. split; [apply ts_read; reflexivity|reflexivity].
      * eexists _, _, _, _, _, _. split; [reflexivity|]. split; [apply ts_guard|reflexivity].
      * eexists _, _, _, _, _, _. split; [reflexivity|]. split; [apply ts_read; reflexivity|reflexivity].
      * destruct (fv_find k (g_cur s)) as [v0|] eqn:Ef.
        -- eexists _, _, _, _, _, _. split; [reflexivity|]. split; [apply ts_entry_occ, Ef|reflexivity].
        -- eexists _, _, _, _, _, _. split; [reflexivity|]. split; [apply ts_entry_vac, Ef|reflexivity].
  - destruct (closure cv o sticky snap) as [new sticky'] eqn:Ec.
    destruct (N.eqb_spec st (g_stamp s)) as [->|Hne].
    + eexists _, _, _, _, _, _. split; [reflexivity|]. split; [apply ts_cas_ok|].
      rewrite Ec. reflexivity.
    + eexists _, _, _, _, _, _. split; [reflexivity|]. split; [apply ts_cas_fail, Hne|].
      rewrite Ec, app_nil_r. reflexivity.
  - eexists _, _, _, _, _, _. split; [reflexivity|]. split; [apply ts_iterate|reflexivity].
  - eexists _, _, _, _, _, _. split; [reflexivity|]. split; [apply ts_vacant|].
    rewrite app_nil_r. reflexivity.
Qed.

Lemma tstep_evs_thread cv t stamp cur th stamp' cur' th' evs :
  tstep cv t stamp cur th stamp' cur' th' evs -> Forall (fun e => ev_thread e = t) evs.
Proof. destruct 1; repeat constructor. Qed.

Lemma thread_log_app t l1 l2 : thread_log t (l1 ++ l2) = thread_log t l1 ++ thread_log t l2.
Proof. apply List.filter_app. Qed.

Lemma thread_log_own t evs : Forall (fun e => ev_thread e = t) evs -> thread_log t evs = evs.
Proof.
  induction 1 as [|e evs He _ IH]; [reflexivity|]. cbn [thread_log List.filter].
  rewrite He, Nat.eqb_refl. f_equal. exact IH.
Qed.

Lemma thread_log_other t t' evs :
  t' <> t -> Forall (fun e => ev_thread e = t) evs -> thread_log t' evs = [].
Proof.
  intros Hne. induction 1 as [|e evs He _ IH]; [reflexivity|]. cbn [thread_log List.filter].
  rewrite He. destruct (Nat.eqb_spec t t') as [->|_]; [congruence|]. exact IH.
Qed.

Lemma lin_hist_app l1 l2 : lin_hist (l1 ++ l2) = lin_hist l1 ++ lin_hist l2.
Proof. apply omap_app. Qed.

(* ================================================================== *)
(* Part 4: invariants of every interleaving                           *)
(* ================================================================== *)

(* (a) a parked writer's snapshot is current iff its stamp is *)
Definition pc_ok (stamp : N) (cur : fvec) (th : thread) : Prop :=
  match t_pc th with
  | PClosure st snap _ =>
      (st <= stamp)%N /\ (st = stamp -> snap = cur) /\
      exists o rest, t_prog th = o :: rest /\ is_rcu o = true
  | PVacant => exists o rest, t_prog th = o :: rest /\ is_rcu o = true
  | _ => True
  end.
Definition thr_inv (s : gstate) : Prop :=
  forall t th, g_thr s !! t = Some th -> pc_ok (g_stamp s) (g_cur s) th.

Lemma thr_inv_update s t th' stamp' cur' log' nf :
  thr_inv s -> (g_stamp s <= stamp')%N -> (stamp' = g_stamp s -> cur' = g_cur s) ->
  pc_ok stamp' cur' th' ->
  thr_inv (MkG stamp' cur' (<[t := th']> (g_thr s)) log' nf).
Proof.
  intros Hinv Hle Heq Hnew t' th0 Hl. cbn [g_thr g_stamp g_cur] in *.
  apply list_lookup_insert_Some in Hl as [(-> & <- & _)|[_ Hl]]; [exact Hnew|].
  specialize (Hinv _ _ Hl). unfold pc_ok in *. destruct (t_pc th0); try exact I; [|exact Hinv].
  destruct Hinv as (Hst & Hsnap & Hw). split; [lia|]. split; [|exact Hw].
  intros ->. assert (stamp' = g_stamp s) as E by lia. rewrite Heq by exact E. apply Hsnap. lia.
Qed.

Lemma closure_fixed o sticky snap :
  is_rcu o = true ->
  fst (closure VFixed o sticky snap) = fst (fv_apply (lin_op o) snap) /\
  lin_ret o (writer_ret o (snd (closure VFixed o sticky snap))) = snd (fv_apply (lin_op o) snap).
Proof.
  destruct o; cbn; try discriminate; intros _; auto.
  destruct (fv_remove k snap) as [new r]. cbn. destruct r; auto.
Qed.

Definition lin_inv (init : fvec) (s : gstate) : Prop :=
  fv_legal (lin_hist (g_log s)) init (g_cur s) /\ thr_inv s.

Lemma fv_legal_snoc h (l m : fvec) o :
  fv_legal h l m -> fv_legal (h ++ [(o, snd (fv_apply o m))]) l (fst (fv_apply o m)).
Proof. intros H. eapply fv_legal_app; [exact H|]. cbn. auto. Qed.

Lemma lin_inv_step init s t : lin_inv init s -> lin_inv init (step VFixed s t).
Proof.
  intros [Hleg Hthr].
  destruct (step_shape VFixed s t) as [[-> _]|(th & stamp' & cur' & th' & evs & nf & Et & Hts & ->)]; [split; assumption|].
  pose proof (Hthr _ _ Et) as Hpc.
  destruct Hts as [o rest Hw|rest|n rest|o rest Hrd|k v v0 rest Hf|k v rest Hf|o rest
                   |o rest snap sticky|o rest st snap sticky Hne|o rest snap];
    unfold lin_inv; cbn [g_log g_cur]; rewrite ?lin_hist_app; cbn [lin_hist omap lin_of]; rewrite ?app_nil_r.
  - split; [exact Hleg|]. apply thr_inv_update; [exact Hthr|lia|auto|].
    unfold pc_ok. cbn [t_pc t_prog]. split; [lia|]. split; [auto|].
    exists o, rest. split; [reflexivity|]. unfold is_rcu. rewrite Hw. destruct o; reflexivity.
  - split; [apply (fv_legal_snoc _ _ (g_cur s) FIter), Hleg|].
    apply thr_inv_update; [exact Hthr|lia|auto|exact I].
  - split; [apply (fv_legal_snoc _ _ (g_cur s) (FRepl n)), Hleg|].
    apply thr_inv_update; [exact Hthr|lia|lia|exact I].
  - split.
    + assert (Hfst : fst (fv_apply o (g_cur s)) = g_cur s) by (destruct o; try discriminate Hrd; reflexivity).
      pose proof (fv_legal_snoc _ _ _ o Hleg) as H. rewrite Hfst in H. exact H.
    + apply thr_inv_update; [exact Hthr|lia|auto|exact I].
  - (* entry, occupied: the lookup *)
    split.
    + pose proof (fv_legal_snoc _ _ _ (FGet k) Hleg) as H. cbn [fv_apply fst snd] in H.
      rewrite Hf in H. exact H.
    + apply thr_inv_update; [exact Hthr|lia|auto|exact I].
  - (* entry, vacant: the lookup *)
    split.
    + pose proof (fv_legal_snoc _ _ _ (FGet k) Hleg) as H. cbn [fv_apply fst snd] in H.
      rewrite Hf in H. exact H.
    + apply thr_inv_update; [exact Hthr|lia|auto|].
      unfold pc_ok. cbn [t_pc t_prog]. eauto.
  - (* the vacant entry's insert loads *)
    unfold pc_ok in Hpc. cbn [t_pc t_prog] in Hpc.
    split; [exact Hleg|]. apply thr_inv_update; [exact Hthr|lia|auto|].
    unfold pc_ok. cbn [t_pc t_prog]. split; [lia|]. split; [auto|exact Hpc].
  - unfold pc_ok in Hpc. cbn [t_pc t_prog] in Hpc. destruct Hpc as (_ & Hsnap & o' & rest' & [= <- <-] & Hw).
    specialize (Hsnap eq_refl). subst snap.
    destruct (closure_fixed o sticky (g_cur s) Hw) as [-> ->]. split; [apply fv_legal_snoc, Hleg|].
    apply thr_inv_update; [exact Hthr|lia|lia|exact I].
  - unfold pc_ok in Hpc. cbn [t_pc t_prog] in Hpc. destruct Hpc as (_ & _ & Hw).
    split; [exact Hleg|]. apply thr_inv_update; [exact Hthr|lia|auto|].
    unfold pc_ok. cbn. split; [lia|]. split; [auto|exact Hw].
  - split; [exact Hleg|]. apply thr_inv_update; [exact Hthr|lia|auto|exact I].
Qed.

Lemma lin_inv_init init progs : lin_inv init (g_init init progs).
Proof.
  split; [reflexivity|]. intros t th Hl. cbn [g_init g_thr] in Hl.
  rewrite list_lookup_fmap in Hl. destruct (progs !! t); [|discriminate]. injection Hl as <-. exact I.
Qed.

Lemma exec_inv (P : gstate -> Prop) cv :
  (forall s t, P s -> P (step cv s t)) -> forall sched s, P s -> P (exec cv sched s).
Proof.
  intros Hstep. induction sched as [|t sched IH]; intros s Hs; [exact Hs|].
  apply IH, Hstep, Hs.
Qed.

Lemma linearizable_vec init progs sched :
  fv_legal (lin_hist (g_log (run VFixed init progs sched))) init (g_cur (run VFixed init progs sched)).
Proof.
  apply (exec_inv (lin_inv init) VFixed (lin_inv_step init) sched _ (lin_inv_init init progs)).
Qed.

(* (b) operations in the linearisation come from the programs *)
Definition wf_inv (s : gstate) : Prop :=
  (forall t th, g_thr s !! t = Some th -> Forall op_wf (t_prog th)) /\
  Forall op_wf (lin_hist (g_log s)).*1.

Lemma wf_inv_step cv s t : wf_inv s -> wf_inv (step cv s t).
Proof.
  intros [Hth Hlog].
  destruct (step_shape cv s t) as [[-> _]|(th & stamp' & cur' & th' & evs & nf & Et & Hts & ->)]; [split; assumption|].
  pose proof (Hth _ _ Et) as Hwf.
  assert (Hupd : forall th'', Forall op_wf (t_prog th'') ->
            forall t0 th0, <[t := th'']> (g_thr s) !! t0 = Some th0 -> Forall op_wf (t_prog th0)).
  { intros th'' Hw t0 th0 Hl. apply list_lookup_insert_Some in Hl as [(-> & <- & _)|[_ Hl]]; eauto. }
  unfold wf_inv. cbn [g_thr g_log]. rewrite lin_hist_app, fmap_app, Forall_app.
  destruct Hts; cbn [t_prog] in Hwf; cbn [lin_hist omap lin_of fmap list_fmap fst];
    try (apply Forall_cons in Hwf as [Ho Hrest]);
    (split; [eapply Hupd; cbn [t_prog]; eauto|split; [exact Hlog|repeat constructor; auto; try (destruct o; cbn [lin_op op_wf]; auto)]]).
Qed.

Lemma wf_inv_init init progs : Forall (Forall op_wf) progs -> wf_inv (g_init init progs).
Proof.
  intros Hp. split; [|constructor]. intros t th Hl. cbn [g_init g_thr] in Hl.
  rewrite list_lookup_fmap in Hl. destruct (progs !! t) as [p|] eqn:E; [|discriminate].
  injection Hl as <-. cbn. eapply Forall_lookup_1; eauto.
Qed.

(* (c) per-thread shape of the log: Call, Lin, Ret in this order for every
   call, calls in program order *)
(* what a call that is inside rcu (or about to enter it) has logged *)
Definition pend_rcu (t : nat) (o : fop) : list event :=
  match o with
  | FEntry k v => [ECall t o; ELin t (FGet k) (ROpt None)]
  | _ => [ECall t o]
  end.

Definition pend (t : nat) (th : thread) : list event :=
  match t_pc th, t_prog th with
  | PClosure _ _ _, o :: _ => pend_rcu t o
  | PVacant, o :: _ => pend_rcu t o
  | PIter snap, o :: _ => [ECall t o; ELin t o (RList snap)]
  | _, _ => []
  end.

(* only guard() leaves a thread holding an IterGuard *)
Definition iter_ok (th : thread) : Prop :=
  match t_pc th with
  | PIter _ => exists rest, t_prog th = FIter :: rest
  | _ => True
  end.

Definition log_inv (progs : list (list fop)) (s : gstate) : Prop :=
  forall t th, g_thr s !! t = Some th ->
    exists prog done, progs !! t = Some prog /\
      prog = (call_op <$> done) ++ t_prog th /\
      Forall call_ok done /\ iter_ok th /\
      thread_log t (g_log s) = concat (block t <$> done) ++ pend t th.

Lemma blocks_snoc t done c :
  concat (block t <$> (done ++ [c])) = concat (block t <$> done) ++ block t c.
Proof. rewrite fmap_app, concat_app. f_equal. cbn [fmap list_fmap concat]. apply app_nil_r. Qed.

Lemma call_ok_plain o r : (forall k v, o <> FEntry k v) -> call_ok (o, r, [(o, r)]).
Proof. intros Hne. unfold call_ok, call_op. cbn [fst snd]. destruct o; try reflexivity. exfalso. eapply Hne. reflexivity. Qed.

(* the block a call completes with when its compare-and-swap succeeds *)
Definition cas_done (o : fop) (r : fret) : done_call :=
  match o with
  | FEntry k v => (o, r, [(FGet k, ROpt None); (FIns k v, RUnit)])
  | _ => (o, r, [(o, r)])
  end.

Lemma cas_done_op o r : call_op (cas_done o r) = o.
Proof. destruct o; reflexivity. Qed.

Lemma cas_done_block t o r :
  pend_rcu t o ++ [ELin t (lin_op o) (lin_ret o r); ERet t o r] = block t (cas_done o r).
Proof. destruct o; reflexivity. Qed.

Lemma cas_done_ok o sticky :
  call_ok (cas_done o (writer_ret o sticky)).
Proof.
  destruct o; try (apply call_ok_plain; intros ? ?; discriminate).
  unfold call_ok, call_op. cbn. right. auto.
Qed.

Lemma log_inv_step cv progs s t : log_inv progs s -> log_inv progs (step cv s t).
Proof.
  intros Hinv.
  destruct (step_shape cv s t) as [[-> _]|(th & stamp' & cur' & th' & evs & nf & Et & Hts & ->)]; [assumption|].
  pose proof (tstep_evs_thread _ _ _ _ _ _ _ _ _ Hts) as Hevs.
  intros t0 th0 Hl. cbn [g_thr g_log] in *. rewrite thread_log_app.
  apply list_lookup_insert_Some in Hl as [(-> & <- & _)|[Hne Hl]].
  2:{ rewrite (thread_log_other t t0 evs); [|intros ->; apply Hne; reflexivity|exact Hevs].
      rewrite app_nil_r. apply Hinv, Hl. }
  rewrite (thread_log_own t0 evs) by exact Hevs.
  destruct (Hinv _ _ Et) as (prog & done & Hp & Hprog & Hok & Hit & Hlog). rewrite Hlog.
  destruct Hts as [o rest Hw|rest|n rest|o rest Hrd|k v v0 rest Hf|k v rest Hf|o rest
                   |o rest snap sticky|o rest st snap sticky Hne|o rest snap];
    cbn [t_prog t_pc pend] in *.
  - (* a writer calls *)
    exists prog, done. split; [exact Hp|]. split; [exact Hprog|]. split; [exact Hok|]. split; [exact I|].
    rewrite app_nil_r. destruct o; try discriminate Hw; reflexivity.
  - exists prog, done. split; [exact Hp|]. split; [exact Hprog|]. split; [exact Hok|]. split; [unfold iter_ok; cbn; eauto|].
    rewrite app_nil_r. reflexivity.
  - exists prog, (done ++ [(FRepl n, RUnit, [(FRepl n, RUnit)])]).
    split; [exact Hp|]. split; [rewrite fmap_app, <- app_assoc; exact Hprog|].
    split; [apply Forall_app; split; [exact Hok|repeat constructor]|]. split; [exact I|].
    rewrite blocks_snoc, !app_nil_r. reflexivity.
  - exists prog, (done ++ [(o, snd (fv_apply o (g_cur s)), [(o, snd (fv_apply o (g_cur s)))])]).
    split; [exact Hp|]. split; [rewrite fmap_app, <- app_assoc; exact Hprog|].
    split; [apply Forall_app; split; [exact Hok|]; constructor; [|constructor];
            apply call_ok_plain; intros ? ? ->; discriminate Hrd|]. split; [exact I|].
    rewrite blocks_snoc, !app_nil_r. reflexivity.
  - exists prog, (done ++ [(FEntry k v, RVal v0, [(FGet k, ROpt (Some v0))])]).
    split; [exact Hp|]. split; [rewrite fmap_app, <- app_assoc; exact Hprog|].
    split; [apply Forall_app; split; [exact Hok|]; constructor; [|constructor];
            unfold call_ok, call_op; cbn; left; eauto|]. split; [exact I|].
    rewrite blocks_snoc, !app_nil_r. reflexivity.
  - exists prog, done. split; [exact Hp|]. split; [exact Hprog|]. split; [exact Hok|]. split; [exact I|].
    rewrite app_nil_r. reflexivity.
  - exists prog, done. split; [exact Hp|]. split; [exact Hprog|]. split; [exact Hok|]. split; [exact I|].
    rewrite app_nil_r. reflexivity.
  - exists prog, (done ++ [cas_done o (writer_ret o (snd (closure cv o sticky snap)))]).
    split; [exact Hp|]. split; [rewrite fmap_app, <- app_assoc; cbn [fmap list_fmap]; rewrite cas_done_op; exact Hprog|].
    split; [apply Forall_app; split; [exact Hok|]; constructor; [apply cas_done_ok|constructor]|]. split; [exact I|].
    rewrite blocks_snoc, <- app_assoc, cas_done_block, app_nil_r. reflexivity.
  - exists prog, done. split; [exact Hp|]. split; [exact Hprog|]. split; [exact Hok|]. split; [exact I|].
    rewrite app_nil_r. reflexivity.
  - exists prog, (done ++ [(o, RList snap, [(o, RList snap)])]).
    split; [exact Hp|]. split; [rewrite fmap_app, <- app_assoc; exact Hprog|].
    unfold iter_ok in Hit. cbn [t_pc t_prog] in Hit. destruct Hit as (rest' & [= -> ->]).
    split; [apply Forall_app; split; [exact Hok|]; constructor; [reflexivity|constructor]|]. split; [exact I|].
    rewrite blocks_snoc, <- app_assoc, app_nil_r. reflexivity.
Qed.

Lemma log_inv_init init progs : log_inv progs (g_init init progs).
Proof.
  intros t th Hl. cbn [g_init g_thr g_log] in *. rewrite list_lookup_fmap in Hl.
  destruct (progs !! t) as [p|] eqn:E; [|discriminate]. injection Hl as <-.
  exists p, []. split; [reflexivity|]. split; [reflexivity|]. split; [constructor|]. split; [exact I|reflexivity].
Qed.

Lemma exec_length cv sched : forall s, length (g_thr (exec cv sched s)) = length (g_thr s).
Proof.
  induction sched as [|t sched IH]; intros s; [reflexivity|]. cbn [exec fold_left]. 
  fold (exec cv sched (step cv s t)). rewrite IH.
  destruct (step_shape cv s t) as [[-> _]|(th & stamp' & cur' & th' & evs & nf & _ & _ & ->)]; [reflexivity|].
  cbn [g_thr]. apply insert_length.
Qed.

Lemma thread_logs_ok cv init progs sched t prog :
  progs !! t = Some prog ->
  thread_log_ok t prog (thread_log t (g_log (run cv init progs sched))).
Proof.
  intros Hp.
  pose proof (exec_inv (log_inv progs) cv (fun s t => log_inv_step cv progs s t) sched _
                (log_inv_init init progs)) as Hinv.
  fold (run cv init progs sched) in Hinv.
  assert (Hlen : (t < length (g_thr (run cv init progs sched)))%nat).
  { unfold run. rewrite exec_length. cbn [g_init g_thr]. rewrite fmap_length.
    apply lookup_lt_is_Some. eauto. }
  apply lookup_lt_is_Some in Hlen as [th Hth].
  destruct (Hinv _ _ Hth) as (prog' & done & Hp' & Hprog & Hok & _ & Hlog).
  rewrite Hp in Hp'. injection Hp' as <-.
  exists done, (t_prog th), (pend t th). split; [exact Hprog|]. split; [exact Hlog|]. split; [exact Hok|].
  unfold pending_ok, pend. destruct (t_pc th); [left; reflexivity| | |];
    (destruct (t_prog th) as [|o rest']; [left; reflexivity|right; exists o, rest'; split; [reflexivity|]]).
  - destruct o; cbn [pend_rcu]; eauto 6.
  - eauto.
  - destruct o; cbn [pend_rcu]; eauto 6.
Qed.

(* (d) the linearisation refines the abstract map *)
Lemma linearizable_map init progs sched :
  NoDup init.*1 -> Forall (Forall op_wf) progs ->
  let s := run VFixed init progs sched in
  fm_legal (lin_hist (g_log s)) (fv_abs init) (fv_abs (g_cur s)) /\ NoDup (g_cur s).*1.
Proof.
  intros Hnd Hwf s. apply fv_legal_refines; [exact Hnd| |apply linearizable_vec].
  apply (exec_inv wf_inv VFixed (wf_inv_step VFixed) sched _ (wf_inv_init init progs Hwf)).
Qed.

(* ================================================================== *)
(* Part 5: corollaries                                                *)
(* ================================================================== *)

Lemma iteration_snapshot init progs sched l1 t r l2 :
  NoDup init.*1 -> Forall (Forall op_wf) progs ->
  g_log (run VFixed init progs sched) = l1 ++ ELin t FIter r :: l2 ->
  exists snap, r = RList snap /\ NoDup snap.*1 /\
    fm_legal (lin_hist l1) (fv_abs init) (fv_abs snap).
Proof.
  intros Hnd Hwf Hlog. destruct (linearizable_map init progs sched Hnd Hwf) as [Hleg _].
  rewrite Hlog, lin_hist_app in Hleg. apply fm_legal_app_inv in Hleg as (mid & H1 & H2).
  cbn in H2. destruct H2 as [(snap & -> & Hs & <-) _]. eauto.
Qed.

Lemma remove_unique_owner init progs sched k h1 h2 h3 :
  NoDup init.*1 -> Forall (Forall op_wf) progs ->
  lin_hist (g_log (run VFixed init progs sched)) = h1 ++ h2 ++ h3 ->
  (count_if (takes_key k) h2 <= 1 + count_if (adds_key k) h2)%nat.
Proof.
  intros Hnd Hwf Hh. destruct (linearizable_map init progs sched Hnd Hwf) as [Hleg _].
  rewrite Hh in Hleg. eapply takes_segment, Hleg.
Qed.

(* the run-to-completion phase is itself a schedule *)
Lemma exec_app cv s1 s2 s : exec cv (s1 ++ s2) s = exec cv s2 (exec cv s1 s).
Proof. apply fold_left_app. Qed.

Lemma run_thread_exec cv fuel : forall s t,
  exists sched, run_thread cv fuel s t = exec cv sched s.
Proof.
  induction fuel as [|f IH]; intros s t; cbn [run_thread]; [exists []; reflexivity|].
  destruct (thread_done s t); [exists []; reflexivity|].
  destruct (IH (step cv s t) t) as [sc E]. exists (t :: sc). exact E.
Qed.

Lemma drain_exec cv s : exists sched, drain cv s = exec cv sched s.
Proof.
  unfold drain. generalize (seq 0 (length (g_thr s))). intros ts. revert s.
  induction ts as [|t ts IH]; intros s; cbn [fold_left]; [exists []; reflexivity|].
  destruct (run_thread_exec cv (3 * ops_left s + 3) s t) as [sc1 E1]. rewrite E1.
  destruct (IH (exec cv sc1 s)) as [sc2 E2]. rewrite E2.
  exists (sc1 ++ sc2). rewrite exec_app. reflexivity.
Qed.

Lemma full_run_is_run cv init progs sched :
  exists sched', full_run cv init progs sched = run cv init progs sched'.
Proof.
  unfold full_run. destruct (drain_exec cv (run cv init progs sched)) as [sc E].
  exists (sched ++ sc). rewrite E. unfold run. rewrite exec_app. reflexivity.
Qed.

(* the code as originally written: two racing removes both get the value *)
Lemma double_remove_refuted :
  let s := run VAsWas [] bad_progs bad_sched in
  thread_rets 1 (g_log s) = [ROpt (Some 7%N)] /\
  thread_rets 2 (g_log s) = [ROpt (Some 7%N)] /\
  forallb (thread_done s) [0; 1; 2]%nat = true /\
  forall h e, h ≡ₚ lin_hist (g_log s) -> ~ fm_legal h ∅ e.
Proof.
  split; [vm_compute; reflexivity|]. split; [vm_compute; reflexivity|].
  split; [vm_compute; reflexivity|].
  intros h e Hp Hl. pose proof (takes_le_adds 1%N h ∅ e Hl) as Hc.
  rewrite !(count_if_perm _ _ _ Hp) in Hc. vm_compute in Hc. lia.
Qed.

Lemma double_remove_fixed :
  let s := run VFixed [] bad_progs bad_sched in
  thread_rets 1 (g_log s) = [ROpt None] /\ thread_rets 2 (g_log s) = [ROpt (Some 7%N)].
Proof. vm_compute. split; reflexivity. Qed.

Lemma linearizable_all (init : fvec) (progs : list (list fop)) (sched : list nat) :
  NoDup init.*1 -> Forall (Forall op_wf) progs ->
  let s := run VFixed init progs sched in
  fm_legal (lin_hist (g_log s)) (fv_abs init) (fv_abs (g_cur s)) /\
  NoDup (g_cur s).*1 /\
  forall t prog, progs !! t = Some prog -> thread_log_ok t prog (thread_log t (g_log s)).
Proof.
  intros Hnd Hwf s.
  destruct (linearizable_map init progs sched Hnd Hwf) as [H1 H2].
  split; [exact H1|]. split; [exact H2|]. intros t prog. exact (thread_logs_ok VFixed init progs sched t prog).
Qed.

(* a thread that is scheduled twice in a row completes its current call:
   after its own failed compare-and-swap its snapshot is current *)
Lemma step_thread cv s t th o rest :
  g_thr s !! t = Some th -> t_prog th = o :: rest ->
  exists stamp' cur' th' evs nf,
    tstep cv t (g_stamp s) (g_cur s) th stamp' cur' th' evs /\
    step cv s t = MkG stamp' cur' (<[t := th']> (g_thr s)) (g_log s ++ evs) nf /\
    g_thr (step cv s t) !! t = Some th'.
Proof.
  intros Hth Hprog.
  destruct (step_shape cv s t) as [[_ Hd]|(th0 & stamp' & cur' & th' & evs & nf & Et & Hts & E)].
  - unfold thread_done in Hd. rewrite Hth, Hprog in Hd. discriminate.
  - rewrite Hth in Et. injection Et as <-. exists stamp', cur', th', evs, nf.
    split; [exact Hts|]. split; [exact E|]. rewrite E. cbn [g_thr].
    apply list_lookup_insert. eapply lookup_lt_Some, Hth.
Qed.

(* a parked writer whose snapshot is current completes with its next step *)
Lemma cas_current cv s t o rest snap sticky :
  g_thr s !! t = Some (MkThread (o :: rest) (PClosure (g_stamp s) snap sticky)) ->
  g_thr (step cv s t) !! t = Some (MkThread rest PIdle).
Proof.
  intros Hth.
  destruct (step_thread cv s t _ o rest Hth eq_refl) as (st2 & cur2 & th2 & evs2 & nf2 & Hts2 & _ & Hl2).
  inversion Hts2; subst; [exact Hl2|congruence].
Qed.

(* a thread that is scheduled three times in a row completes its current call
   (an entry call on a vacant key: lookup, rcu load, compare-and-swap; a writer
   after its own failed compare-and-swap works on the current vector) *)
Lemma solo_progress cv s t o rest p :
  g_thr s !! t = Some (MkThread (o :: rest) p) ->
  g_thr (step cv s t) !! t = Some (MkThread rest PIdle) \/
  g_thr (step cv (step cv s t) t) !! t = Some (MkThread rest PIdle) \/
  g_thr (step cv (step cv (step cv s t) t) t) !! t = Some (MkThread rest PIdle).
Proof.
  intros Hth.
  destruct (step_thread cv s t _ o rest Hth eq_refl) as (st1 & cur1 & th1 & evs1 & nf1 & Hts1 & E1 & Hl1).
  inversion Hts1; subst; try (left; exact Hl1); right.
  - (* call of a writer: the next compare-and-swap succeeds *)
    left. eapply cas_current. rewrite Hl1, E1. reflexivity.
  - (* guard taken: iterate *)
    left.
    destruct (step_thread cv _ t _ FIter rest Hl1 eq_refl) as (st2 & cur2 & th2 & evs2 & nf2 & Hts2 & _ & Hl2).
    inversion Hts2; subst. exact Hl2.
  - (* vacant entry: insert's rcu loads, then its compare-and-swap succeeds *)
    right.
    destruct (step_thread cv _ t _ _ rest Hl1 eq_refl) as (st2 & cur2 & th2 & evs2 & nf2 & Hts2 & E2 & Hl2).
    inversion Hts2; subst. eapply cas_current. rewrite Hl2, E2. reflexivity.
  - (* insert's rcu loads, then its compare-and-swap succeeds *)
    left. eapply cas_current. rewrite Hl1, E1. reflexivity.
  - (* failed compare-and-swap: the retry succeeds *)
    left. eapply cas_current. rewrite Hl1, E1. reflexivity.
Qed.

(* ================================================================== *)
(* Part 6: entry(k).or_insert_with(f)                                 *)
(* ================================================================== *)

(* What the insert of a vacant entry call does to the CONTENT at its
   compare-and-swap, next to what an atomic "get, else insert" would do there:
   the same if the key is still absent; if another task filled the key in the
   meantime, the insert overwrites that value with its own (the later writer
   wins, and each caller got its own value back), where the atomic call would
   have kept and returned the earlier one. Either way: one entry for the key. *)
Lemma entry_cas_effect k v (m : amap) :
  (m !! k = None ->
     fm_next (FIns k v) m = fm_next (FEntry k v) m /\ fm_ret_ok (FEntry k v) m (RVal v)) /\
  (forall v1, m !! k = Some v1 ->
     fm_next (FIns k v) m = <[k := v]> m /\ fm_next (FEntry k v) m = m /\
     fm_ret_ok (FEntry k v) m (RVal v1)).
Proof.
  split.
  - intros E. cbn [fm_next fm_ret_ok]. rewrite E. split; reflexivity.
  - intros v1 E. cbn [fm_next fm_ret_ok]. rewrite E. repeat split; reflexivity.
Qed.

(* the race of two entry calls for one absent key, on the code as it is:
   both find it vacant, both get their own value back, the later insert wins,
   and the map holds the key once *)
Lemma entry_race_fixed :
  let s := run VFixed [] race_progs race_sched_all in
  g_cur (run VFixed [] race_progs race_sched) = [(1, 8)]%N /\
  thread_rets 0 (g_log s) = [RVal 7%N] /\
  thread_rets 1 (g_log s) = [RVal 8%N] /\
  thread_rets 2 (g_log s) = [RNum 1%N; ROpt (Some 8%N); ROpt None] /\
  forallb (thread_done s) [0; 1; 2]%nat = true /\
  g_cur s = [].
Proof. vm_compute. repeat split; reflexivity. Qed.

(* the variant that fills a vacant entry by appending without filtering the key
   out: on the same schedule the key is in the vector twice; len() says 2,
   remove(1) hands out 7 and get(1) still finds 8 afterwards - the calls, in the
   order in which they took effect, are not a history of any sequential map *)
Lemma entry_append_refuted :
  let s := run VAppend [] race_progs race_sched_all in
  g_cur (run VAppend [] race_progs race_sched) = [(1, 7); (1, 8)]%N /\
  ~ NoDup (g_cur (run VAppend [] race_progs race_sched)).*1 /\
  thread_rets 2 (g_log s) = [RNum 2%N; ROpt (Some 7%N); ROpt (Some 8%N)] /\
  forallb (thread_done s) [0; 1; 2]%nat = true /\
  forall e, ~ fm_legal (lin_hist (g_log s)) ∅ e.
Proof.
  split; [vm_compute; reflexivity|]. split.
  - assert (E : (g_cur (run VAppend [] race_progs race_sched)).*1 = [1; 1]%N) by (vm_compute; reflexivity).
    rewrite E. intros Hnd. apply NoDup_cons in Hnd as [Hni _]. apply Hni. left.
  - split; [vm_compute; reflexivity|]. split; [vm_compute; reflexivity|].
    intros e Hl.
    assert (E : lin_hist (g_log (run VAppend [] race_progs race_sched_all)) =
                [(FGet 1, ROpt None); (FGet 1, ROpt None); (FIns 1 7, RUnit); (FIns 1 8, RUnit);
                 (FLen, RNum 2); (FRem 1, ROpt (Some 7)); (FGet 1, ROpt (Some 8))]%N)
      by (vm_compute; reflexivity).
    rewrite E in Hl. cbn [fm_legal fm_next fm_ret_ok] in Hl.
    destruct Hl as (_ & _ & _ & _ & Hlen & _).
    rewrite insert_insert, insert_empty, map_size_singleton in Hlen. discriminate Hlen.
Qed.
