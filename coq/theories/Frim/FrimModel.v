(* Model of src/common/frim.rs: FrimMap<K,V> { inner: ArcSwap<SmallVec<[(K,V);8]>> }.
   Definitions only; proofs are in FrimProofs.v.

   Part 1 (sequential): the vector functions the methods compute, exactly as
   coded (filter + append for insert, filter for retain, position + remove for
   remove, first match for get).

   Part 2 (concurrent): the shared cell is a stamped vector. A stamp stands for
   the identity of the Arc allocation that ArcSwap::compare_and_swap compares
   with ptr_eq (the loaded Guard keeps the old allocation alive, so pointer
   equality = same allocation = same stamp).
     readers  (get / contains_key / len / is_empty / guard) : one atomic load
     replace                                        : one atomic store
     writers  (insert / retain / remove) = ArcSwap::rcu:
         cur = load();                       -- step "call"  (thread then parks
         loop { new = f(&cur);                  at the pause point inside f)
                prev = compare_and_swap(cur, new);      -- step "cas"
                if ptr_eq(cur, prev) { return } else { cur = prev } }
     entry(k).or_insert_with(f)  (the only method of Entry):
         entry(k) = get(k): one atomic load that decides Occupied(v0) / Vacant;
         Occupied: or_insert_with returns v0, nothing else happens;
         Vacant:   v = f()    -- the thread can be parked here (f is the caller's)
                   insert(k, v) -- an ordinary rcu writer with its own load,
                                   closure executions and compare-and-swaps
                   returns v
   One scheduler step of a thread = everything it does up to and including its
   next access to the shared cell, and the thread-local code after it up to
   the next pause point (thread-local code commutes with other threads).
   The model has a parameter [cv : variant] for the code it stands for:
     VAsWas  remove() keeps its result in a variable [found] declared OUTSIDE
             the closure and only ever sets it (the code as originally written);
     VFixed  the repaired code: [found] is reset at the start of every closure
             execution (the code that exists now; all theorems are about it);
     VAppend VFixed, except that a vacant entry is filled by appending to the
             copy WITHOUT filtering the key out (a tempting "optimisation":
             entry() has just seen that the key is absent); kept only for the
             refutation lemma entry_append_refuted. *)
From stdpp Require Import gmap.
From Coq Require Import NArith.

Definition fvec := list (N * N).

(* ---------- Part 1: the vector functions ---------- *)

(* get(): inner.iter().find(|(k,_)| k == key).map(|(_,v)| v.clone()) *)
Fixpoint fv_find (k : N) (l : fvec) : option N :=
  match l with
  | [] => None
  | (k', v) :: l' => if N.eqb k' k then Some v else fv_find k l'
  end.

(* insert(): iter().filter(|(k,_)| k != &key).chain(&[(key, value)]).collect() *)
Definition fv_insert (k v : N) (l : fvec) : fvec :=
  List.filter (fun kv => negb (N.eqb (fst kv) k)) l ++ [(k, v)].

(* retain(): iter().filter(|(k,v)| f(k,v)).collect() *)
Definition fv_retain (f : N -> N -> bool) (l : fvec) : fvec :=
  List.filter (fun kv => f (fst kv) (snd kv)) l.

(* remove(): position of the first match, new.remove(pos), found = Some(v) *)
Fixpoint fv_remove (k : N) (l : fvec) : fvec * option N :=
  match l with
  | [] => ([], None)
  | (k', v) :: l' =>
      if N.eqb k' k then (l', Some v)
      else let '(r, o) := fv_remove k l' in ((k', v) :: r, o)
  end.

Definition opt_is_some {A} (o : option A) : bool := match o with Some _ => true | None => false end.

Inductive fop :=
| FIns (k v : N)
| FRem (k : N)
| FRetain (f : N -> N -> bool)
| FRepl (l : fvec)
| FGet (k : N)
| FHas (k : N)
| FLen
| FIter
| FEmpty                 (* is_empty() *)
| FEntry (k v : N).      (* entry(k).or_insert_with(|| v) *)

Inductive fret :=
| RUnit
| ROpt (o : option N)
| RBool (b : bool)
| RNum (n : N)
| RList (l : fvec)
| RVal (v : N).          (* the V that or_insert_with returns *)

(* the sequential behaviour of one call on the vector *)
Definition fv_apply (o : fop) (l : fvec) : fvec * fret :=
  match o with
  | FIns k v => (fv_insert k v l, RUnit)
  | FRem k => let '(l', r) := fv_remove k l in (l', ROpt r)
  | FRetain f => (fv_retain f l, RUnit)
  | FRepl n => (n, RUnit)
  | FGet k => (l, ROpt (fv_find k l))
  | FHas k => (l, RBool (opt_is_some (fv_find k l)))
  | FLen => (l, RNum (N.of_nat (length l)))
  | FIter => (l, RList l)
  | FEmpty => (l, RBool (N.eqb (N.of_nat (length l)) 0))
  | FEntry k v =>
      (* one thread alone: get, else insert *)
      match fv_find k l with
      | Some v0 => (l, RVal v0)
      | None => (fv_insert k v l, RVal v)
      end
  end.

Fixpoint fv_run (ops : list fop) (l : fvec) : fvec * list fret :=
  match ops with
  | [] => (l, [])
  | o :: ops' => let '(l1, r) := fv_apply o l in let '(l2, rs) := fv_run ops' l1 in (l2, r :: rs)
  end.

(* a FrimMap built through its own API (what replace() is given) *)
Definition fv_build (kvs : list (N * N)) : fvec :=
  fold_left (fun acc kv => fv_insert (fst kv) (snd kv) acc) kvs [].

(* ---------- Part 2: threads ---------- *)

Definition is_writer (o : fop) : bool :=
  match o with FIns _ _ | FRem _ | FRetain _ => true | _ => false end.

Inductive variant := VAsWas | VFixed | VAppend.
Definition resets_found (cv : variant) : bool := match cv with VAsWas => false | _ => true end.
Definition entry_filters (cv : variant) : bool := match cv with VAppend => false | _ => true end.

(* calls that end in ArcSwap::rcu: the writers, and a vacant entry's insert *)
Definition is_rcu (o : fop) : bool :=
  match o with FEntry _ _ => true | _ => is_writer o end.

(* One execution of the closure given to rcu. [sticky] is remove()'s captured
   variable [found]; insert/retain capture nothing that changes. A vacant
   entry's closure is insert()'s. *)
Definition closure (cv : variant) (o : fop) (sticky : option N) (snap : fvec) : fvec * option N :=
  match o with
  | FRem k =>
      let sticky0 := if resets_found cv then None else sticky in
      let '(new, r) := fv_remove k snap in
      (new, match r with Some v => Some v | None => sticky0 end)
  | FEntry k v =>
      ((if entry_filters cv then fv_insert k v snap else snap ++ [(k, v)]), sticky)
  | _ => (fst (fv_apply o snap), sticky)
  end.

Definition writer_ret (o : fop) (sticky : option N) : fret :=
  match o with FRem _ => ROpt sticky | FEntry _ v => RVal v | _ => RUnit end.

(* what the successful compare-and-swap of a call is in the linearisation: the
   call itself, except that a vacant entry's swap is the insert of its value *)
Definition lin_op (o : fop) : fop := match o with FEntry k v => FIns k v | _ => o end.
Definition lin_ret (o : fop) (r : fret) : fret := match o with FEntry _ _ => RUnit | _ => r end.

Inductive pc :=
| PIdle                                              (* about to call the head of its program *)
| PClosure (stamp : N) (snap : fvec) (sticky : option N)   (* inside rcu, parked in the closure *)
| PIter (snap : fvec)                                (* holds an IterGuard, has not iterated yet *)
| PVacant.                                           (* holds Entry::Vacant, parked in the default function *)

Record thread := MkThread { t_prog : list fop; t_pc : pc }.

Inductive event :=
| ECall (t : nat) (o : fop)
| ELin (t : nat) (o : fop) (r : fret)      (* an access at which the call takes effect; a vacant
                                              entry has two: its lookup (FGet k, None) and its insert (FIns k v) *)
| ERet (t : nat) (o : fop) (r : fret).

(* g_fail: how many compare_and_swap attempts failed so far (bookkeeping for the
   correspondence check only; nothing reads it) *)
Record gstate := MkG { g_stamp : N; g_cur : fvec; g_thr : list thread; g_log : list event; g_fail : N }.

Definition g_init (init : fvec) (progs : list (list fop)) : gstate :=
  MkG 0%N init ((fun p => MkThread p PIdle) <$> progs) [] 0%N.

Definition set_thr (s : gstate) (t : nat) (th : thread) : list thread := <[t := th]> (g_thr s).

Definition step (cv : variant) (s : gstate) (t : nat) : gstate :=
  match g_thr s !! t with
  | None => s
  | Some th =>
      match t_prog th with
      | [] => s
      | o :: rest =>
          match t_pc th with
          | PIdle =>
              if is_writer o then
                (* rcu: cur = load(); the closure is entered and parks *)
                MkG (g_stamp s) (g_cur s)
                    (set_thr s t (MkThread (o :: rest) (PClosure (g_stamp s) (g_cur s) None)))
                    (g_log s ++ [ECall t o]) (g_fail s)
              else match o with
              | FIter =>
                  (* guard(): load; the snapshot is pinned, iteration comes later *)
                  MkG (g_stamp s) (g_cur s)
                      (set_thr s t (MkThread (o :: rest) (PIter (g_cur s))))
                      (g_log s ++ [ECall t o; ELin t o (RList (g_cur s))]) (g_fail s)
              | FRepl n =>
                  (* store(new) *)
                  MkG (g_stamp s + 1)%N n (set_thr s t (MkThread rest PIdle))
                      (g_log s ++ [ECall t o; ELin t o RUnit; ERet t o RUnit]) (g_fail s)
              | FEntry k v =>
                  (* entry(k): get(k), one load *)
                  match fv_find k (g_cur s) with
                  | Some v0 =>
                      (* Occupied(v0): or_insert_with returns it *)
                      MkG (g_stamp s) (g_cur s) (set_thr s t (MkThread rest PIdle))
                          (g_log s ++ [ECall t o; ELin t (FGet k) (ROpt (Some v0)); ERet t o (RVal v0)])
                          (g_fail s)
                  | None =>
                      (* Vacant: the default function is entered and parks *)
                      MkG (g_stamp s) (g_cur s) (set_thr s t (MkThread (o :: rest) PVacant))
                          (g_log s ++ [ECall t o; ELin t (FGet k) (ROpt None)]) (g_fail s)
                  end
              | _ =>
                  let r := snd (fv_apply o (g_cur s)) in
                  MkG (g_stamp s) (g_cur s) (set_thr s t (MkThread rest PIdle))
                      (g_log s ++ [ECall t o; ELin t o r; ERet t o r]) (g_fail s)
              end
          | PClosure st snap sticky =>
              let '(new, sticky') := closure cv o sticky snap in
              if N.eqb st (g_stamp s) then
                (* compare_and_swap succeeds *)
                let r := writer_ret o sticky' in
                MkG (g_stamp s + 1)%N new (set_thr s t (MkThread rest PIdle))
                    (g_log s ++ [ELin t (lin_op o) (lin_ret o r); ERet t o r]) (g_fail s)
              else
                (* it fails: cur = prev, the closure runs again and parks *)
                MkG (g_stamp s) (g_cur s)
                    (set_thr s t (MkThread (o :: rest) (PClosure (g_stamp s) (g_cur s) sticky')))
                    (g_log s) (g_fail s + 1)%N
          | PIter snap =>
              MkG (g_stamp s) (g_cur s) (set_thr s t (MkThread rest PIdle))
                  (g_log s ++ [ERet t o (RList snap)]) (g_fail s)
          | PVacant =>
              (* map.insert(key, v): rcu's load; the closure is entered and parks *)
              MkG (g_stamp s) (g_cur s)
                  (set_thr s t (MkThread (o :: rest) (PClosure (g_stamp s) (g_cur s) None)))
                  (g_log s) (g_fail s)
          end
      end
  end.

Definition exec (cv : variant) (sched : list nat) (s : gstate) : gstate :=
  fold_left (step cv) sched s.

Definition run (cv : variant) (init : fvec) (progs : list (list fop)) (sched : list nat) : gstate :=
  exec cv sched (g_init init progs).

(* After the schedule of a case is used up the harness lets thread 0 run to
   completion, then thread 1, ... ; so does the model. *)
Definition thread_done (s : gstate) (t : nat) : bool :=
  match g_thr s !! t with
  | Some th => match t_prog th with [] => true | _ => false end
  | None => true
  end.

Fixpoint run_thread (cv : variant) (fuel : nat) (s : gstate) (t : nat) : gstate :=
  match fuel with
  | O => s
  | S f => if thread_done s t then s else run_thread cv f (step cv s t) t
  end.

Definition ops_left (s : gstate) : nat :=
  fold_right (fun th n => (length (t_prog th) + n)%nat) O (g_thr s).

Definition drain (cv : variant) (s : gstate) : gstate :=
  fold_left (fun s t => run_thread cv (3 * ops_left s + 3) s t) (seq 0 (length (g_thr s))) s.

Definition full_run (cv : variant) (init : fvec) (progs : list (list fop)) (sched : list nat) : gstate :=
  drain cv (run cv init progs sched).

(* the schedule on which remove() as originally written hands one entry to two removers *)
Definition bad_progs : list (list fop) := [[FIns 1 7]; [FRem 1]; [FRem 1]]%N.
Definition bad_sched : list nat := [0; 0; 1; 2; 2; 1; 1]%nat.

(* two tasks ask for the entry of the same absent key before either writes;
   a third one then looks at the map *)
Definition race_progs : list (list fop) := [[FEntry 1 7]; [FEntry 1 8]; [FLen; FRem 1; FGet 1]]%N.
Definition race_sched : list nat := [0; 1; 0; 0; 1; 1]%nat.
Definition race_sched_all : list nat := (race_sched ++ [2; 2; 2; 2])%nat.

(* ---------- what is observed ---------- *)

Definition lin_of (e : event) : option (fop * fret) :=
  match e with ELin _ o r => Some (o, r) | _ => None end.
(* the linearisation: calls in the order in which they took effect *)
Definition lin_hist (log : list event) : list (fop * fret) := omap lin_of log.

Definition ev_thread (e : event) : nat :=
  match e with ECall t _ | ELin t _ _ | ERet t _ _ => t end.
Definition thread_log (t : nat) (log : list event) : list event :=
  List.filter (fun e => Nat.eqb (ev_thread e) t) log.

Definition ret_of (t : nat) (e : event) : option fret :=
  match e with ERet t' _ r => if Nat.eqb t' t then Some r else None | _ => None end.
(* the values thread t got back from its calls, in program order *)
Definition thread_rets (t : nat) (log : list event) : list fret := omap (ret_of t) log.

(* ---------- the abstract sequential map the property compares with ---------- *)

Notation amap := (gmap N N).
Definition fv_abs (l : fvec) : amap := list_to_map l.

Definition fm_next (o : fop) (m : amap) : amap :=
  match o with
  | FIns k v => <[k := v]> m
  | FRem k => delete k m
  | FRetain f => filter (fun kv => f (fst kv) (snd kv) = true) m
  | FRepl n => fv_abs n
  | FEntry k v => match m !! k with Some _ => m | None => <[k := v]> m end
  | _ => m
  end.

(* what a sequential map may answer *)
Definition fm_ret_ok (o : fop) (m : amap) (r : fret) : Prop :=
  match o with
  | FIns _ _ | FRetain _ | FRepl _ => r = RUnit
  | FRem k | FGet k => r = ROpt (m !! k)
  | FHas k => r = RBool (opt_is_some (m !! k))
  | FLen => r = RNum (N.of_nat (size m))
  | FEmpty => r = RBool (N.eqb (N.of_nat (size m)) 0)
  | FEntry k v => r = RVal (default v (m !! k))
  | FIter => exists l, r = RList l /\ NoDup (fst <$> l) /\ fv_abs l = m
  end.

(* a legal sequential history of the abstract map from m to m_end *)
Fixpoint fm_legal (h : list (fop * fret)) (m m_end : amap) : Prop :=
  match h with
  | [] => m = m_end
  | (o, r) :: h' => fm_ret_ok o m r /\ fm_legal h' (fm_next o m) m_end
  end.

(* a legal sequential history of the vector functions *)
Fixpoint fv_legal (h : list (fop * fret)) (l l_end : fvec) : Prop :=
  match h with
  | [] => l = l_end
  | (o, r) :: h' => r = snd (fv_apply o l) /\ fv_legal h' (fst (fv_apply o l)) l_end
  end.

(* replace() is given a FrimMap, whose keys are distinct *)
Definition op_wf (o : fop) : Prop :=
  match o with FRepl n => NoDup (fst <$> n) | _ => True end.

(* per-thread shape of the log: completed calls in program order, each one as
   its call event, its linearisation point(s), its return event; then what the
   pending call has logged so far *)
Definition done_call : Type := fop * fret * list (fop * fret).   (* call, result, linearisation points *)
Definition call_op (c : done_call) : fop := fst (fst c).
Definition elin (t : nat) (c : fop * fret) : event := ELin t (fst c) (snd c).
Definition block (t : nat) (c : done_call) : list event :=
  ECall t (call_op c) :: (elin t <$> snd c) ++ [ERet t (call_op c) (snd (fst c))].

(* every call takes effect at ONE access of the cell, with the result it
   returns - except entry(k).or_insert_with(|| v): on an occupied entry it is
   the lookup that found v0 (returned); on a vacant one it is the lookup that
   found nothing and, later, the insert of its own value v (returned) *)
Definition call_ok (c : done_call) : Prop :=
  match call_op c with
  | FEntry k v =>
      (exists v0, snd (fst c) = RVal v0 /\ snd c = [(FGet k, ROpt (Some v0))]) \/
      (snd (fst c) = RVal v /\ snd c = [(FGet k, ROpt None); (FIns k v, RUnit)])
  | o => snd c = [(o, snd (fst c))]
  end.

Definition pending_ok (t : nat) (rest : list fop) (p : list event) : Prop :=
  p = [] \/
  exists o rest', rest = o :: rest' /\
    (p = [ECall t o] \/ (exists r, p = [ECall t o; ELin t o r]) \/
     (exists k v, o = FEntry k v /\ p = [ECall t o; ELin t (FGet k) (ROpt None)])).

Definition thread_log_ok (t : nat) (prog : list fop) (evs : list event) : Prop :=
  exists (done : list done_call) (rest : list fop) (p : list event),
    prog = (call_op <$> done) ++ rest /\
    evs = concat (block t <$> done) ++ p /\
    Forall call_ok done /\
    pending_ok t rest p.

(* counting form of "an entry that is removed is handed to exactly one remover" *)
Definition adds_key (k : N) (c : fop * fret) : bool :=
  match fst c with
  | FIns k' _ | FEntry k' _ => N.eqb k' k
  | FRepl n => opt_is_some (fv_find k n)
  | _ => false
  end.
Definition takes_key (k : N) (c : fop * fret) : bool :=
  match c with
  | (FRem k', ROpt (Some _)) => N.eqb k' k
  | _ => false
  end.
Definition count_if {A} (f : A -> bool) (l : list A) : nat := length (List.filter f l).
