(* C10 - proofs about FilterFetch.v *)
From stdpp Require Import list.
From Coq Require Import NArith Bool Lia.
From RV Require Import Filter.FilterFetch.

(* ---- safety: whoever has finished holds the function of its name ---- *)

Definition unit_ok {F} (look : N -> option F) (u : ust F) : Prop :=
  match u with UDone n f => f = look n | _ => True end.

Lemma unit_step_ok {F} (look : N -> option F) free u :
  unit_ok look u -> unit_ok look (unit_step false look free u).
Proof. destruct u as [n|n|n f]; cbn; intros H; try exact H; [destruct free; exact I | reflexivity]. Qed.

Lemma unit_step_name {F} tl (look : N -> option F) free u : uname (unit_step tl look free u) = uname u.
Proof. destruct u as [n|n|n f]; cbn; try reflexivity. destruct free; [reflexivity|]. destruct tl; reflexivity. Qed.

Lemma fstep_ok {F} (look : N -> option F) s x :
  Forall (unit_ok look) (fs_units s) -> Forall (unit_ok look) (fs_units (fstep false look s x)).
Proof.
  intros H. destruct x as [i| |]; cbn.
  - destruct (fs_units s !! i) as [u|] eqn:Hu; [|exact H]. cbn.
    apply Forall_insert; [exact H|]. apply unit_step_ok. exact (Forall_lookup_1 _ _ _ _ H Hu).
  - destruct (mutex_free s); exact H.
  - exact H.
Qed.

Lemma fstep_names {F} tl (look : N -> option F) s x :
  map uname (fs_units (fstep tl look s x)) = map uname (fs_units s).
Proof.
  destruct x as [i| |]; cbn.
  - destruct (fs_units s !! i) as [u|] eqn:Hu; [|reflexivity]. cbn.
    rewrite list_fmap_insert, unit_step_name. apply list_insert_id. rewrite list_lookup_fmap, Hu. reflexivity.
  - destruct (mutex_free s); reflexivity.
  - reflexivity.
Qed.

Lemma frun_ok {F} (look : N -> option F) sched : forall s,
  Forall (unit_ok look) (fs_units s) -> Forall (unit_ok look) (fs_units (frun false look s sched)).
Proof. induction sched as [|x sched IH]; intros s H; [exact H|]. unfold frun in *. cbn [fold_left]. apply IH, fstep_ok, H. Qed.

Lemma frun_names {F} tl (look : N -> option F) sched : forall s,
  map uname (fs_units (frun tl look s sched)) = map uname (fs_units s).
Proof. induction sched as [|x sched IH]; intros s; [reflexivity|]. unfold frun in *. cbn [fold_left]. rewrite IH. apply fstep_names. Qed.

Lemma uname_want_id {F} (names : list N) : map (uname ∘ @UWant F) names = names.
Proof. induction names as [|a l IH]; cbn; [reflexivity|f_equal; exact IH]. Qed.

(* every unit ends up with the filter its configuration names, whatever the interleaving *)
Lemma fetch_safe {F} (look : N -> option F) names sched i n f :
  fs_units (frun false look (finit names) sched) !! i = Some (UDone n f) ->
  names !! i = Some n /\ f = look n.
Proof.
  intros H. split.
  - pose proof (frun_names false look sched (finit names)) as Hn. cbn in Hn.
    rewrite <- list_fmap_compose in Hn. cbn in Hn.
    rewrite uname_want_id in Hn. rewrite <- Hn, list_lookup_fmap, H. reflexivity.
  - assert (H0 : Forall (unit_ok look) (fs_units (finit (F := F) names))).
    { cbn. apply Forall_fmap, Forall_true. intros x. exact I. }
    exact (Forall_lookup_1 _ _ _ _ (frun_ok look sched _ H0) H).
Qed.

(* ---- progress: no deadlock, and every move brings the load closer to its end ---- *)

Lemma sum_insert {F} (l : list (ust F)) : forall i u u',
  l !! i = Some u -> (list_sum (map uw (<[ i := u' ]> l)) + uw u = list_sum (map uw l) + uw u')%nat.
Proof.
  induction l as [|a l IH]; intros i u u' H; [discriminate|].
  destruct i as [|i]; simpl in *.
  - injection H as ->. lia.
  - specialize (IH i u u' H). lia.
Qed.

Lemma unit_step_le {F} (look : N -> option F) free u : (uw (unit_step false look free u) <= uw u)%nat.
Proof. destruct u as [n|n|n f]; [destruct free|..]; simpl; lia. Qed.

Lemma fstep_le {F} (look : N -> option F) s x : (fmeasure (fstep false look s x) <= fmeasure s)%nat.
Proof.
  unfold fmeasure, fstep. destruct x as [i| |].
  - destruct (fs_units s !! i) as [u|] eqn:Hu; [|lia]. cbn [fs_units].
    pose proof (sum_insert (fs_units s) i u (unit_step false look (mutex_free s) u) Hu) as E.
    pose proof (unit_step_le look (mutex_free s) u). lia.
  - destruct (mutex_free s); cbn [fs_units]; lia.
  - cbn [fs_units]. lia.
Qed.

Lemma find_hold {F} (l : list (ust F)) :
  forallb (fun u => negb (holds u)) l = false -> exists i n, l !! i = Some (UHold n).
Proof.
  induction l as [|a l IH]; cbn; [discriminate|]. intros H.
  destruct a as [n|n|n f]; cbn in H.
  - destruct (IH H) as (i & n' & Hi). exists (S i), n'. exact Hi.
  - exists 0%nat, n. reflexivity.
  - destruct (IH H) as (i & n' & Hi). exists (S i), n'. exact Hi.
Qed.

Lemma find_want {F} (l : list (ust F)) :
  forallb (fun u => negb (holds u)) l = true -> ~ Forall (fun u => uw u = 0%nat) l -> exists i n, l !! i = Some (UWant n).
Proof.
  induction l as [|a l IH]; cbn; intros H Hn; [exfalso; apply Hn; constructor|].
  apply andb_true_iff in H as [Ha Hl]. destruct a as [n|n|n f]; cbn in Ha; try discriminate.
  - exists 0%nat, n. reflexivity.
  - destruct (IH Hl) as (i & n' & Hi).
    + intros Hall. apply Hn. constructor; [reflexivity|exact Hall].
    + exists (S i), n'. exact Hi.
Qed.

(* unless everybody has finished or the environment holds the mutex, some unit
   can move and its move strictly shortens what is left *)
Lemma fetch_progress {F} (look : N -> option F) (s : fetchst F) :
  fs_ext s = false -> ~ all_done s ->
  exists i, (fmeasure (fstep false look s (SUnit i)) < fmeasure s)%nat.
Proof.
  intros He Hnd. unfold fmeasure, fstep.
  destruct (forallb (fun u => negb (holds u)) (fs_units s)) eqn:Hf.
  - destruct (find_want _ Hf Hnd) as (i & n & Hi). exists i. rewrite Hi. cbn [fs_units].
    assert (Hfree : mutex_free s = true) by (unfold mutex_free; rewrite He, Hf; reflexivity).
    rewrite Hfree. cbn [unit_step].
    pose proof (sum_insert (fs_units s) i (UWant n) (UHold n) Hi) as E. cbn [uw] in E. lia.
  - destruct (find_hold _ Hf) as (i & n & Hi). exists i. rewrite Hi. cbn [fs_units unit_step].
    pose proof (sum_insert (fs_units s) i (UHold n) (UDone n (look n)) Hi) as E. cbn [uw] in E. lia.
Qed.

Lemma measure_done {F} (s : fetchst F) : fmeasure s = 0%nat -> all_done s.
Proof.
  unfold fmeasure, all_done. induction (fs_units s) as [|a l IH]; simpl; intros H; [constructor|].
  constructor; [lia|apply IH; lia].
Qed.

(* ---- the try_lock variant ---- *)

(* two units whose script has both functions; the second looks while the first holds the mutex *)
Lemma try_lock_refuted :
  let look : N -> option N := fun n => Some (n + 100)%N in
  let s := frun true look (finit [1%N; 2%N]) [SUnit 0; SUnit 1; SUnit 0; SUnit 1] in
  fs_units s = [UDone 1%N (Some 101%N); UDone 2%N None] /\
  fs_units (frun false look (finit [1%N; 2%N]) [SUnit 0; SUnit 1; SUnit 0; SUnit 1; SUnit 1]) =
    [UDone 1%N (Some 101%N); UDone 2%N (Some 102%N)].
Proof. vm_compute. split; reflexivity. Qed.

(* ... and the same when anything else holds the mutex while the unit starts (what the e2e engine does) *)
Lemma try_lock_refuted_ext :
  let look : N -> option N := fun n => Some (n + 100)%N in
  fs_units (frun true look (finit [3%N]) [SExtTake; SUnit 0; SExtRelease; SUnit 0]) = [UDone 3%N None] /\
  fs_units (frun false look (finit [3%N]) [SExtTake; SUnit 0; SExtRelease; SUnit 0; SUnit 0]) = [UDone 3%N (Some 103%N)].
Proof. vm_compute. split; reflexivity. Qed.

(* without contention try_lock is indistinguishable (why every single-unit test passes) *)
Lemma try_lock_alone {F} (look : N -> option F) n :
  fs_units (frun true look (finit [n]) [SUnit 0; SUnit 0]) = [UDone n (look n)].
Proof. reflexivity. Qed.
