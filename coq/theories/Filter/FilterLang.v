(* C10 - a deep embedding of the fragment of Roto (roto 0.4.0) that filter
   scripts for rotonda are written in, with a total evaluator.

   Programs: nested if/else, && / || / not, let-bound constants, the predicate
   methods that src/roto_runtime/runtime.rs:create_runtime registers on Route,
   BgpMsg, BmpMsg and Provenance, the output ("log") methods, accept / reject.
   Inputs: what those methods look at.  Definitions only; proofs are in
   FilterProofs.v. *)
From stdpp Require Import list.
From Coq Require Import NArith Bool.
Local Open Scope N_scope.

(* ------------------------------------------------------------------ inputs *)

(* routecore's Hop: an AS number of an AS_SEQUENCE, or a whole AS_SET segment *)
Inductive hop := HAsn (a : N) | HSet (l : list N).

(* path attributes of an UPDATE, as the case generator describes them *)
Record fattrs := MkAttrs {
  fa_path : option (list (bool * list N));   (* AS_PATH segments (is_set, AS numbers); None = no AS_PATH attribute *)
  fa_comms : list N;                         (* COMMUNITIES, 32-bit values *)
  fa_lcomms : list (N * N * N);              (* LARGE_COMMUNITIES *)
  fa_extra : list N }.                       (* type codes of further attributes *)

Definition hops_of_seg (s : bool * list N) : list hop :=
  if s.1 then [HSet s.2] else map HAsn s.2.
Definition hops_of (a : fattrs) : list hop :=
  match fa_path a with Some segs => flat_map hops_of_seg segs | None => [] end.

(* type codes present in the message the harness builds from the description:
   ORIGIN, AS_PATH, NEXT_HOP, the extra ones, COMMUNITIES, LARGE_COMMUNITIES *)
Definition attr_types (a : fattrs) : list N :=
  [1] ++ (match fa_path a with Some _ => [2] | None => [] end) ++ [3] ++ fa_extra a
  ++ (match fa_comms a with [] => [] | _ => [8] end)
  ++ (match fa_lcomms a with [] => [] | _ => [32] end).

(* BMP message kinds *)
Definition K_RM : N := 0.      (* Route Monitoring; routes and BGP UPDATEs also use 0 *)
Definition K_STATS : N := 1.
Definition K_PEERDOWN : N := 2.
Definition K_PEERUP : N := 3.
Definition K_INIT : N := 4.
Definition K_TERM : N := 5.
Definition K_MIRROR : N := 6.  (* Route Mirroring (RFC 7854 4.7); the numbers are the RFC's type codes *)

Record input := MkIn {
  in_kind : N;
  in_pfx : N;                   (* the route's prefix (rib-in-pre) *)
  in_attrs : option fattrs;     (* None: no path attributes (withdrawal-only UPDATE, non-RM BMP message, withdrawn route) *)
  in_nann : N;                  (* NLRI announced / withdrawn by the message *)
  in_nwd : N;
  in_pph_asn : option N;        (* AS in the per-peer header, for BMP messages that have one *)
  in_peer_asn : N;              (* Provenance.peer_asn handed to the filter *)
  in_ingress : N;               (* the ingress id the call site attaches to output messages *)
  in_legacy_as : bool }.        (* the UPDATE (inside a BMP message / of a BGP session) uses 2-octet AS numbers in AS_PATH *)

(* which filter a program is: decides the receiver of the predicate methods *)
Inductive fkind := FRib | FBgp | FBmp.

(* ------------------------------------------------------------------ programs *)

Inductive arg := ALit (n : N) | AVar (i : nat).   (* literal, or the i-th let in scope *)

Inductive cmp := CEq | CNe | CLt | CLe | CGt | CGe.

Inductive pred :=
| PAspathContains (a : arg)     (* x.aspath_contains(AS) *)
| PAspathOrigin (a : arg)       (* x.match_aspath_origin(AS) *)
| PCommunity (a : arg)          (* x.contains_community(Community(n)) *)
| PHasAttr (a : arg)            (* x.has_attribute(code) *)
| PPrefixIs (a : arg)           (* route.prefix_matches(prefix) *)
| PIsIbgp (a : arg)             (* bmp_msg.is_ibgp(AS) *)
| PIsRouteMon                   (* bmp_msg.is_route_monitoring() *)
| PIsPeerDown                   (* bmp_msg.is_peer_down() *)
| PPeerAsn (a : arg)            (* prov.peer_asn() == AS *)
| PAnnCount (c : cmp) (n : N)   (* x.announcements_count() <cmp> n *)
| PWdCount (c : cmp) (n : N).   (* x.withdrawals_count() <cmp> n *)

Inductive cond :=
| CTrue | CFalse
| CPred (p : pred)
| CNot (c : cond)
| CAnd (c1 c2 : cond)
| COr (c1 c2 : cond).

Inductive ocall :=
| OPrefix (a : arg)             (* output.log_prefix(p) *)
| OAsn (a : arg)                (* output.log_matched_asn(AS) *)
| OOrigin (a : arg)             (* output.log_matched_origin(AS) *)
| OCommunity (a : arg)          (* output.log_matched_community(c) *)
| OPeerDown                     (* output.log_peer_down() *)
| OCustom (a b : arg).          (* output.log_custom(id, value) *)

(* a block: statements ending in a verdict or falling off the end *)
Inductive prog :=
| PEnd
| POut (o : ocall) (k : prog)
| PLet (ty : N) (n : N) (k : prog)           (* let v = <constant of type ty>; visible to the rest of the block *)
| PIf (c : cond) (th el : prog) (k : prog)   (* if c { th } else { el } k *)
| PRet (accept : bool).                      (* accept / reject *)

(* Output entries (roto_runtime/types.rs Output) *)
Inductive out :=
| EPrefix (p : N) | EAsn (a : N) | EOrigin (a : N) | ECommunity (c : N) | EPeerDown | ECustom (a b : N).

(* ------------------------------------------------------------------ evaluation *)

Definition env := list N.
Definition eval_arg (e : env) (a : arg) : N :=
  match a with ALit n => n | AVar i => nth i e 0 end.

Definition eval_cmp (c : cmp) (x y : N) : bool :=
  match c with
  | CEq => N.eqb x y | CNe => negb (N.eqb x y)
  | CLt => N.ltb x y | CLe => N.leb x y
  | CGt => N.ltb y x | CGe => N.leb y x
  end.

Definition hop_is (a : N) (h : hop) : bool :=
  match h with HAsn b => N.eqb a b | HSet _ => false end.

Definition lcomm_eqb (x y : N * N * N) : bool :=
  N.eqb x.1.1 y.1.1 && N.eqb x.1.2 y.1.2 && N.eqb x.2 y.2.

(* what the methods see of the attributes. A BMP filter re-parses the UPDATE
   with SessionConfig::modern() (4-octet AS numbers) whatever the peer uses;
   at bgp-in the UPDATE was parsed by routecore's session (fsm/session.rs
   Connection: session_config = SessionConfig::modern(), never updated from
   the OPENs) - again 4-octet AS numbers whatever was negotiated.
   [legacy_blind] says whether an AS_PATH written with 2-octet AS numbers is
   unreadable to them (true = the code as it is). The RIB unit's filter sees
   the route as it was stored. *)
Definition seen_hops (legacy_blind : bool) (k : fkind) (i : input) : list hop :=
  match in_attrs i with
  | None => []
  | Some a =>
      match k with
      | FBmp | FBgp => if in_legacy_as i && legacy_blind then [] else hops_of a
      | FRib => hops_of a
      end
  end.
Definition seen_comms (i : input) : list N :=
  match in_attrs i with Some a => fa_comms a | None => [] end.
Definition seen_types (i : input) : list N :=
  match in_attrs i with Some a => attr_types a | None => [] end.

Definition is_rm (k : fkind) (i : input) : bool :=
  match k with FBmp => N.eqb (in_kind i) K_RM | _ => true end.

Definition eval_pred (lb : bool) (k : fkind) (e : env) (i : input) (p : pred) : bool :=
  match p with
  | PAspathContains a => is_rm k i && existsb (hop_is (eval_arg e a)) (seen_hops lb k i)
  | PAspathOrigin a =>
      is_rm k i && match last (seen_hops lb k i) with Some h => hop_is (eval_arg e a) h | None => false end
  | PCommunity a => is_rm k i && existsb (N.eqb (eval_arg e a)) (seen_comms i)
  | PHasAttr a => is_rm k i && existsb (N.eqb (eval_arg e a)) (seen_types i)
  | PPrefixIs a => N.eqb (in_pfx i) (eval_arg e a)
  | PIsIbgp a => match in_pph_asn i with Some s => N.eqb (eval_arg e a) s | None => false end
  | PIsRouteMon => N.eqb (in_kind i) K_RM
  | PIsPeerDown => N.eqb (in_kind i) K_PEERDOWN
  | PPeerAsn a => N.eqb (in_peer_asn i) (eval_arg e a)
  | PAnnCount c n => eval_cmp c (if is_rm k i then in_nann i else 0) n
  | PWdCount c n => eval_cmp c (if is_rm k i then in_nwd i else 0) n
  end.

Fixpoint eval_cond (lb : bool) (k : fkind) (e : env) (i : input) (c : cond) : bool :=
  match c with
  | CTrue => true
  | CFalse => false
  | CPred p => eval_pred lb k e i p
  | CNot c => negb (eval_cond lb k e i c)
  | CAnd a b => eval_cond lb k e i a && eval_cond lb k e i b
  | COr a b => eval_cond lb k e i a || eval_cond lb k e i b
  end.

Definition eval_out (e : env) (o : ocall) : out :=
  match o with
  | OPrefix a => EPrefix (eval_arg e a)
  | OAsn a => EAsn (eval_arg e a)
  | OOrigin a => EOrigin (eval_arg e a)
  | OCommunity a => ECommunity (eval_arg e a)
  | OPeerDown => EPeerDown
  | OCustom a b => ECustom (eval_arg e a) (eval_arg e b)
  end.

(* a block: Some verdict if it returned, None if control fell off its end;
   plus the output entries in call order *)
Fixpoint exec (lb : bool) (k : fkind) (e : env) (i : input) (p : prog) : option bool * list out :=
  match p with
  | PEnd => (None, [])
  | POut o r => let '(v, os) := exec lb k e i r in (v, eval_out e o :: os)
  | PLet _ n r => exec lb k (e ++ [n]) i r
  | PIf c th el r =>
      let '(v, os) := exec lb k e i (if eval_cond lb k e i c then th else el) in
      match v with
      | Some b => (Some b, os)
      | None => let '(v', os') := exec lb k e i r in (v', os ++ os')
      end
  | PRet b => (Some b, [])
  end.

(* every path through the block ends in accept or reject (what Roto's type
   checker demands of a filter body) *)
Fixpoint returns (p : prog) : bool :=
  match p with
  | PEnd => false
  | POut _ r => returns r
  | PLet _ _ r => returns r
  | PIf _ th el r => (returns th && returns el) || returns r
  | PRet _ => true
  end.

(* a filter function: verdict (true = accept) and the output entries. A body
   that does not return on every path is not a filter (Roto rejects it); the
   model maps it to reject-without-output so that [eval] is total. *)
Definition eval_gen (lb : bool) (k : fkind) (p : prog) (i : input) : bool * list out :=
  match exec lb k [] i p with
  | (Some b, os) => (b, os)
  | (None, os) => (false, os)
  end.

(* the code as it is *)
Definition eval : fkind -> prog -> input -> bool * list out := eval_gen true.
(* the property's reading: predicates mean what they say for every peer *)
Definition eval_spec : fkind -> prog -> input -> bool * list out := eval_gen false.

(* ------------------------------------------------------------------ documented meaning *)

(* does the program call an output method that a call site may drop? *)
Fixpoint calls_peer_down (p : prog) : bool :=
  match p with
  | PEnd | PRet _ => false
  | POut OPeerDown _ => true
  | POut _ r => calls_peer_down r
  | PLet _ _ r => calls_peer_down r
  | PIf _ th el r => calls_peer_down th || calls_peer_down el || calls_peer_down r
  end.

(* all output calls of a program, in source order (an upper bound of what one run emits) *)
Fixpoint out_calls (p : prog) : nat :=
  match p with
  | PEnd | PRet _ => 0
  | POut _ r => S (out_calls r)
  | PLet _ _ r => out_calls r
  | PIf _ th el r => out_calls th + out_calls el + out_calls r
  end%nat.

(* ------------------------------------------------------------------ provenance-only scripts *)

(* does a condition / a program read nothing of its input but the provenance
   (prov.peer_asn())?  Such a filter is "about a peer", not about a message. *)
Definition pred_prov_only (p : pred) : bool :=
  match p with PPeerAsn _ => true | _ => false end.
Fixpoint cond_prov_only (c : cond) : bool :=
  match c with
  | CTrue | CFalse => true
  | CPred p => pred_prov_only p
  | CNot c => cond_prov_only c
  | CAnd a b | COr a b => cond_prov_only a && cond_prov_only b
  end.
Fixpoint prov_only (p : prog) : bool :=
  match p with
  | PEnd | PRet _ => true
  | POut _ r | PLet _ _ r => prov_only r
  | PIf c th el r => cond_prov_only c && prov_only th && prov_only el && prov_only r
  end.
