(* C10 - how a unit gets its filter: the manager compiles the configured Roto
   script once per load and hands every component the same
   Arc<Mutex<roto::Compiled>>; each unit fetches its function by fixed name
   under that mutex when it starts (bgp_tcp_in/unit.rs and bmp_tcp_in/unit.rs
   `run`, rib_unit/unit.rs `RibUnitRunner::new`):

       let mut c = c.lock().unwrap();  c.get_function("rib-in-pre") ... .ok()

   Units of one load start together, so their fetches interleave. The model:
   k units, one mutex, an environment that may hold the mutex too (anything
   else with a clone of the Arc), and a schedule that says who moves next.
   [tl] = the fetch uses try_lock().ok()? instead (NOT the code; the variant
   a review remark about blocking a runtime worker would produce).
   Definitions only; proofs in FilterFetchProofs.v. *)
From stdpp Require Import list.
From Coq Require Import NArith Bool.

(* a unit: wants the mutex, holds it, or has finished with the function it got *)
Inductive ust (F : Type) : Type :=
| UWant (n : N)                    (* n = the fixed name it will ask for *)
| UHold (n : N)
| UDone (n : N) (f : option F).    (* None = runs without a filter: accepts everything *)
Arguments UWant {F} n.
Arguments UHold {F} n.
Arguments UDone {F} n f.

Record fetchst (F : Type) := MkFst { fs_units : list (ust F); fs_ext : bool }.
Arguments MkFst {F} fs_units fs_ext.
Arguments fs_units {F} f.
Arguments fs_ext {F} f.

Definition holds {F} (u : ust F) : bool := match u with UHold _ => true | _ => false end.
Definition uname {F} (u : ust F) : N := match u with UWant n | UHold n | UDone n _ => n end.
Definition mutex_free {F} (s : fetchst F) : bool :=
  negb (fs_ext s) && forallb (fun u => negb (holds u)) (fs_units s).

Inductive sitem := SUnit (i : nat) | SExtTake | SExtRelease.

(* one move of a unit. lock(): a unit that finds the mutex taken stays where
   it is (it is parked; it moves when it is scheduled again and the mutex is
   free). try_lock().ok()?: it goes on at once, without a function. *)
Definition unit_step {F} (tl : bool) (look : N -> option F) (free : bool) (u : ust F) : ust F :=
  match u with
  | UWant n => if free then UHold n else if tl then UDone n None else UWant n
  | UHold n => UDone n (look n)        (* get_function(name).ok(), guard dropped *)
  | UDone n f => UDone n f
  end.

Definition fstep {F} (tl : bool) (look : N -> option F) (s : fetchst F) (x : sitem) : fetchst F :=
  match x with
  | SUnit i =>
      match fs_units s !! i with
      | Some u => MkFst (<[ i := unit_step tl look (mutex_free s) u ]> (fs_units s)) (fs_ext s)
      | None => s
      end
  | SExtTake => if mutex_free s then MkFst (fs_units s) true else s
  | SExtRelease => MkFst (fs_units s) false
  end.

Definition frun {F} (tl : bool) (look : N -> option F) (s : fetchst F) (sched : list sitem) : fetchst F :=
  fold_left (fstep tl look) sched s.

(* the units of one load, each about to fetch the function of its name *)
Definition finit {F} (names : list N) : fetchst F := MkFst (map UWant names) false.

(* how far a unit is from having finished *)
Definition uw {F} (u : ust F) : nat := match u with UWant _ => 2 | UHold _ => 1 | UDone _ _ => 0 end.
Definition fmeasure {F} (s : fetchst F) : nat := list_sum (map uw (fs_units s)).
Definition all_done {F} (s : fetchst F) : Prop := Forall (fun u => uw u = 0%nat) (fs_units s).
