(* C10 - proofs about FilterLang (the evaluator) and FilterGlue (the call sites). *)
From stdpp Require Import list.
From Coq Require Import NArith Bool Lia.
From RV Require Import Filter.FilterLang Filter.FilterGlue.
Local Open Scope N_scope.

(* ------------------------------------------------------------------ small facts *)

Lemma existsb_eqb_In (x : N) (l : list N) : existsb (N.eqb x) l = true <-> In x l.
Proof.
  rewrite existsb_exists. split.
  - intros (y & Hin & Heq). apply N.eqb_eq in Heq. subst. exact Hin.
  - intros Hin. exists x. split; [exact Hin | apply N.eqb_refl].
Qed.

Lemma hop_is_true a h : hop_is a h = true <-> h = HAsn a.
Proof.
  destruct h as [b|l]; cbn [hop_is].
  - rewrite N.eqb_eq. split; [intros ->; reflexivity | intros [= ->]; reflexivity].
  - split; [discriminate | discriminate].
Qed.

Lemma existsb_hop_is a l : existsb (hop_is a) l = true <-> In (HAsn a) l.
Proof.
  rewrite existsb_exists. split.
  - intros (h & Hin & Hh). apply hop_is_true in Hh. subst. exact Hin.
  - intros Hin. exists (HAsn a). split; [exact Hin | apply hop_is_true; reflexivity].
Qed.

(* ------------------------------------------------------------------ predicates mean what they say *)

Lemma pred_aspath_contains lb k e i a :
  eval_pred lb k e i (PAspathContains a) = true <->
  is_rm k i = true /\ In (HAsn (eval_arg e a)) (seen_hops lb k i).
Proof. cbn [eval_pred]. rewrite andb_true_iff, existsb_hop_is. reflexivity. Qed.

Lemma pred_aspath_origin lb k e i a :
  eval_pred lb k e i (PAspathOrigin a) = true <->
  is_rm k i = true /\ last (seen_hops lb k i) = Some (HAsn (eval_arg e a)).
Proof.
  cbn [eval_pred]. rewrite andb_true_iff.
  destruct (last (seen_hops lb k i)) as [h|].
  - rewrite hop_is_true. split; intros [H1 H2]; (split; [exact H1|]); congruence.
  - split; intros [_ H]; discriminate.
Qed.

Lemma pred_community lb k e i a :
  eval_pred lb k e i (PCommunity a) = true <-> is_rm k i = true /\ In (eval_arg e a) (seen_comms i).
Proof. cbn [eval_pred]. rewrite andb_true_iff, existsb_eqb_In. reflexivity. Qed.

Lemma pred_has_attr lb k e i a :
  eval_pred lb k e i (PHasAttr a) = true <-> is_rm k i = true /\ In (eval_arg e a) (seen_types i).
Proof. cbn [eval_pred]. rewrite andb_true_iff, existsb_eqb_In. reflexivity. Qed.

Lemma pred_prefix lb k e i a :
  eval_pred lb k e i (PPrefixIs a) = true <-> in_pfx i = eval_arg e a.
Proof. cbn [eval_pred]. apply N.eqb_eq. Qed.

Lemma pred_msg_type lb k e i :
  (eval_pred lb k e i PIsRouteMon = true <-> in_kind i = K_RM) /\
  (eval_pred lb k e i PIsPeerDown = true <-> in_kind i = K_PEERDOWN).
Proof. cbn [eval_pred]. split; apply N.eqb_eq. Qed.

Lemma pred_peer_as lb k e i a :
  (eval_pred lb k e i (PPeerAsn a) = true <-> in_peer_asn i = eval_arg e a) /\
  (eval_pred lb k e i (PIsIbgp a) = true <-> in_pph_asn i = Some (eval_arg e a)).
Proof.
  cbn [eval_pred]. split; [apply N.eqb_eq|].
  destruct (in_pph_asn i) as [s|].
  - rewrite N.eqb_eq. split; [intros ->; reflexivity | intros [= ->]; reflexivity].
  - split; discriminate.
Qed.

Lemma cmp_meaning c x y :
  eval_cmp c x y = true <->
  match c with CEq => x = y | CNe => x <> y | CLt => x < y | CLe => x <= y | CGt => y < x | CGe => y <= x end.
Proof.
  destruct c; cbn [eval_cmp].
  - apply N.eqb_eq.
  - rewrite negb_true_iff. apply N.eqb_neq.
  - apply N.ltb_lt.
  - apply N.leb_le.
  - apply N.ltb_lt.
  - apply N.leb_le.
Qed.

Lemma cond_connectives lb k e i c1 c2 :
  eval_cond lb k e i (CNot c1) = negb (eval_cond lb k e i c1) /\
  eval_cond lb k e i (CAnd c1 c2) = (eval_cond lb k e i c1 && eval_cond lb k e i c2) /\
  eval_cond lb k e i (COr c1 c2) = (eval_cond lb k e i c1 || eval_cond lb k e i c2).
Proof. repeat split. Qed.

(* the AS_PATH the predicates talk about: hops in wire order, origin = last *)
Lemma hops_single_sequence (l : list N) a :
  hops_of (MkAttrs (Some [(false, l)]) [] [] []) = map HAsn l /\
  (In (HAsn a) (map HAsn l) <-> In a l).
Proof.
  split.
  - unfold hops_of, hops_of_seg. cbn. apply app_nil_r.
  - rewrite in_map_iff. split.
    + intros (x & [= ->] & Hin). exact Hin.
    + intros Hin. exists a. split; [reflexivity | exact Hin].
Qed.

(* a let-bound constant stands for its value *)
Lemma let_binds lb k e i ty n r :
  exec lb k e i (PLet ty n r) = exec lb k (e ++ [n]) i r /\
  eval_arg (e ++ [n]) (AVar (length e)) = n /\
  (forall j, (j < length e)%nat -> eval_arg (e ++ [n]) (AVar j) = eval_arg e (AVar j)).
Proof.
  split; [reflexivity|]. split.
  - cbn [eval_arg]. rewrite app_nth2 by lia. rewrite Nat.sub_diag. reflexivity.
  - intros j Hj. cbn [eval_arg]. apply app_nth1. exact Hj.
Qed.

(* ------------------------------------------------------------------ the evaluator *)

Lemma exec_returns lb k p : forall e i, returns p = true -> exists b, fst (exec lb k e i p) = Some b.
Proof.
  induction p as [|o r IH|ty n r IH|c th IHth el IHel r IHr|b]; intros e i Hr; cbn [returns] in Hr.
  - discriminate.
  - cbn [exec]. destruct (IH e i Hr) as [b Hb]. destruct (exec lb k e i r) as [v os]. exists b. exact Hb.
  - cbn [exec]. apply IH. exact Hr.
  - cbn [exec].
    destruct (exec lb k e i (if eval_cond lb k e i c then th else el)) as [v os] eqn:E.
    destruct v as [b|]; [exists b; reflexivity|].
    apply orb_true_iff in Hr as [Hr|Hr].
    + apply andb_true_iff in Hr as [Hth Hel]. exfalso.
      destruct (eval_cond lb k e i c).
      * destruct (IHth e i Hth) as [b Hb]. rewrite E in Hb. discriminate.
      * destruct (IHel e i Hel) as [b Hb]. rewrite E in Hb. discriminate.
    + destruct (IHr e i Hr) as [b Hb]. destruct (exec lb k e i r) as [v' os']. exists b. exact Hb.
  - exists b. reflexivity.
Qed.

(* a filter body always gives the verdict of the accept/reject it reaches *)
Lemma eval_verdict lb k p i :
  returns p = true -> exec lb k [] i p = (Some (fst (eval_gen lb k p i)), snd (eval_gen lb k p i)).
Proof.
  intros Hr. unfold eval_gen. destruct (exec_returns lb k p [] i Hr) as [b Hb].
  destruct (exec lb k [] i p) as [v os]. cbn [fst] in Hb. subst v. reflexivity.
Qed.

(* no output call runs twice: a run emits at most the calls the program text has *)
Lemma exec_out_bound lb k p : forall e i, (length (snd (exec lb k e i p)) <= out_calls p)%nat.
Proof.
  induction p as [|o r IH|ty n r IH|c th IHth el IHel r IHr|b]; intros e i; cbn [exec out_calls].
  - cbn. lia.
  - specialize (IH e i). destruct (exec lb k e i r) as [v os]. cbn [snd length] in *. lia.
  - apply IH.
  - assert (Hb : (length (snd (exec lb k e i (if eval_cond lb k e i c then th else el))) <= out_calls th + out_calls el)%nat).
    { destruct (eval_cond lb k e i c); [specialize (IHth e i)|specialize (IHel e i)]; lia. }
    destruct (exec lb k e i (if eval_cond lb k e i c then th else el)) as [v os]. cbn [snd] in Hb.
    destruct v as [b|]; cbn [snd]; [lia|].
    specialize (IHr e i). destruct (exec lb k e i r) as [v' os']. cbn [snd] in *.
    rewrite app_length. lia.
  - cbn. lia.
Qed.

(* straight-line code: the entries are the calls, in call order *)
Fixpoint straight (os : list ocall) (b : bool) : prog :=
  match os with [] => PRet b | o :: r => POut o (straight r b) end.
Lemma exec_straight lb k e i os b : exec lb k e i (straight os b) = (Some b, map (eval_out e) os).
Proof. induction os as [|o r IH]; cbn [straight exec map]; [reflexivity|]. rewrite IH. reflexivity. Qed.

(* sequencing: what ran before an if comes before what the taken branch emits,
   which comes before what follows the if *)
Lemma exec_if_order lb k e i c th el r :
  let br := if eval_cond lb k e i c then th else el in
  snd (exec lb k e i (PIf c th el r)) =
  snd (exec lb k e i br) ++ match fst (exec lb k e i br) with Some _ => [] | None => snd (exec lb k e i r) end.
Proof.
  cbn zeta. cbn [exec]. destruct (exec lb k e i (if eval_cond lb k e i c then th else el)) as [v os].
  destruct v as [b|]; cbn [fst snd]; [rewrite app_nil_r; reflexivity|].
  destruct (exec lb k e i r) as [v' os']. reflexivity.
Qed.

Lemma no_peer_down lb k p : forall e i, calls_peer_down p = false -> ~ In EPeerDown (snd (exec lb k e i p)).
Proof.
  induction p as [|o r IH|ty n r IH|c th IHth el IHel r IHr|b]; intros e i Hc; cbn [calls_peer_down] in Hc.
  - cbn. tauto.
  - cbn [exec]. assert (Hr : calls_peer_down r = false) by (destruct o; try exact Hc; discriminate).
    specialize (IH e i Hr). destruct (exec lb k e i r) as [v os]. cbn [snd] in *.
    intros [Heq|Hin]; [|exact (IH Hin)]. destruct o; cbn in Heq; try discriminate Heq; discriminate Hc.
  - cbn [exec]. apply IH. exact Hc.
  - apply orb_false_iff in Hc as [Hc Hr]. apply orb_false_iff in Hc as [Hth Hel].
    rewrite exec_if_order. cbn zeta. intros Hin. apply in_app_or in Hin as [Hin|Hin].
    + destruct (eval_cond lb k e i c); [exact (IHth e i Hth Hin)|exact (IHel e i Hel Hin)].
    + destruct (fst (exec lb k e i (if eval_cond lb k e i c then th else el))); [destruct Hin|].
      exact (IHr e i Hr Hin).
  - cbn. tauto.
Qed.

(* ------------------------------------------------------------------ code vs documented meaning *)

Lemma seen_hops_agree k i :
  k = FRib \/ in_legacy_as i = false -> seen_hops true k i = seen_hops false k i.
Proof.
  intros H. unfold seen_hops. destruct (in_attrs i) as [a|]; [|reflexivity].
  destruct k; try reflexivity; (destruct H as [H|H]; [congruence|]; rewrite H; reflexivity).
Qed.

Lemma eval_pred_agree k e i p :
  k = FRib \/ in_legacy_as i = false -> eval_pred true k e i p = eval_pred false k e i p.
Proof. intros H. destruct p; cbn [eval_pred]; rewrite ?(seen_hops_agree k i H); reflexivity. Qed.

Lemma eval_cond_agree k e i c :
  k = FRib \/ in_legacy_as i = false -> eval_cond true k e i c = eval_cond false k e i c.
Proof.
  intros H. induction c as [| |p|c IH|a IHa b IHb|a IHa b IHb]; cbn [eval_cond];
    rewrite ?IH, ?IHa, ?IHb; try reflexivity. apply eval_pred_agree. exact H.
Qed.

Lemma exec_agree k i p : forall e,
  k = FRib \/ in_legacy_as i = false -> exec true k e i p = exec false k e i p.
Proof.
  intros e H. revert e.
  induction p as [|o r IH|ty n r IH|c th IHth el IHel r IHr|b]; intros e; cbn [exec].
  - reflexivity.
  - rewrite IH. reflexivity.
  - apply IH.
  - rewrite (eval_cond_agree k e i c H). destruct (eval_cond false k e i c); rewrite ?IHth, ?IHel, IHr; reflexivity.
  - reflexivity.
Qed.

Lemma eval_meets_spec_partial k p i :
  k = FRib \/ in_legacy_as i = false -> eval k p i = eval_spec k p i.
Proof. intros H. unfold eval, eval_spec, eval_gen. rewrite (exec_agree k i p [] H). reflexivity. Qed.

(* the witness: a peer without the 4-octet capability announces a path through
   AS 65001; "reject what passes AS 65001" lets it through *)
Definition legacy_witness_prog : prog := PIf (CPred (PAspathContains (ALit 65001))) (PRet false) PEnd (PRet true).
Definition legacy_witness_input : input :=
  MkIn K_RM 0 (Some (MkAttrs (Some [(false, [65001; 65002])]) [] [] [])) 1 0 (Some 65002) 65002 3 true.
Lemma eval_legacy_refuted :
  eval FBmp legacy_witness_prog legacy_witness_input = (true, []) /\
  eval_spec FBmp legacy_witness_prog legacy_witness_input = (false, []).
Proof. split; vm_compute; reflexivity. Qed.

(* the same at bgp-in: a session with a peer that did not send the 4-octet
   capability (AS65002, ingress id 7) *)
Definition bgp_legacy_witness_input : input :=
  MkIn K_RM 0 (Some (MkAttrs (Some [(false, [65001; 65002])]) [] [] [])) 1 0 None 65002 7 true.
Lemma eval_bgp_legacy_refuted :
  eval FBgp legacy_witness_prog bgp_legacy_witness_input = (true, []) /\
  eval_spec FBgp legacy_witness_prog bgp_legacy_witness_input = (false, []).
Proof. split; vm_compute; reflexivity. Qed.

(* ------------------------------------------------------------------ call sites *)

Lemma outs_of_app {U O} (a b : list (down U O)) : outs_of (a ++ b) = outs_of a ++ outs_of b.
Proof. unfold outs_of. apply flat_map_app. Qed.
Lemma upds_of_app {U O} (a b : list (down U O)) : upds_of (a ++ b) = upds_of a ++ upds_of b.
Proof. unfold upds_of. apply flat_map_app. Qed.
Lemma outs_of_upds {U O} (us : list U) : outs_of (map (@DUpd U O) us) = [].
Proof. induction us as [|u us IH]; [reflexivity|exact IH]. Qed.
Lemma upds_of_upds {U O} (us : list U) : upds_of (map (@DUpd U O) us) = us.
Proof. induction us as [|u us IH]; [reflexivity|]. cbn. f_equal. exact IH. Qed.
Lemma outs_of_drain {M U O} (render : M -> out -> option O) m os :
  outs_of (@drain M U O render m os) = omap (render m) os.
Proof. destruct os as [|o os]; [reflexivity|]. unfold drain, outs_of. cbn [flat_map]. apply app_nil_r. Qed.
Lemma upds_of_drain {M U O} (render : M -> out -> option O) m os : upds_of (@drain M U O render m os) = [].
Proof. destruct os; reflexivity. Qed.


  Lemma msg_no_filter {S M U O : Type} (render : M -> out -> option O) (process : S -> M -> S * list U) s m :
    msg_site None render process s m = (fst (process s m), map DUpd (snd (process s m))).
  Proof. unfold msg_site. destruct (process s m). reflexivity. Qed.

  Lemma msg_reject {S M U O : Type} (f : M -> bool * list out) (render : M -> out -> option O) (process : S -> M -> S * list U) s m :
    fst (f m) = false ->
    fst (msg_site (Some f) render process s m) = s /\
    upds_of (snd (msg_site (Some f) render process s m)) = [].
  Proof.
    intros H. unfold msg_site. destruct (f m) as [acc os]. cbn [fst] in H. subst acc. cbn [fst snd].
    split; [reflexivity|]. apply upds_of_drain.
  Qed.

  Lemma msg_accept {S M U O : Type} (f : M -> bool * list out) (render : M -> out -> option O) (process : S -> M -> S * list U) s m :
    fst (f m) = true ->
    fst (msg_site (Some f) render process s m) = fst (process s m) /\
    upds_of (snd (msg_site (Some f) render process s m)) = snd (process s m) /\
    fst (msg_site (Some f) render process s m) = fst (msg_site None render process s m) /\
    upds_of (snd (msg_site (Some f) render process s m)) = upds_of (snd (msg_site None render process s m)).
  Proof.
    intros H. rewrite msg_no_filter. unfold msg_site. destruct (f m) as [acc os]. cbn [fst] in H. subst acc.
    destruct (process s m) as [s' us]. cbn [fst snd].
    rewrite upds_of_app, upds_of_drain, upds_of_upds. repeat split; reflexivity.
  Qed.

  (* whatever the verdict: the messages are the rendered entries, once, in call
     order, and they leave the unit before anything the message itself causes *)
  Lemma msg_outputs {S M U O : Type} (f : M -> bool * list out) (render : M -> out -> option O) (process : S -> M -> S * list U) s m :
    outs_of (snd (msg_site (Some f) render process s m)) = omap (render m) (snd (f m)) /\
    exists us, snd (msg_site (Some f) render process s m) = drain render m (snd (f m)) ++ map DUpd us.
  Proof.
    unfold msg_site. destruct (f m) as [acc os]. cbn [snd]. destruct acc.
    - destruct (process s m) as [s' us]. cbn [snd]. split.
      + rewrite outs_of_app, outs_of_drain, outs_of_upds. apply app_nil_r.
      + exists us. reflexivity.
    - cbn [snd]. split; [apply outs_of_drain|]. exists []. cbn [map]. rewrite app_nil_r. reflexivity.
  Qed.



  Definition verdict_of {P : Type} (flt : option (P -> bool * list out)) (p : P) : bool :=
    match flt with Some f => fst (f p) | None => true end.
  Definition entries_of {P : Type} (flt : option (P -> bool * list out)) (p : P) : list out :=
    match flt with Some f => snd (f p) | None => [] end.

  Lemma rib_loop_spec {R P O : Type} (flt : option (P -> bool * list out)) (render : P -> out -> option O) (insert : R -> P -> R) : forall ps r,
    rib_loop flt render insert r ps =
    (fold_left insert (List.filter (verdict_of flt) ps) r,
     List.filter (verdict_of flt) ps,
     flat_map (fun p => drain render p (entries_of flt p)) ps).
  Proof.
    induction ps as [|p ps IH]; intros r; [reflexivity|].
    cbn [rib_loop List.filter flat_map]. destruct flt as [f|]; cbn [verdict_of entries_of].
    - destruct (f p) as [acc os]. cbn [fst snd]. rewrite IH. cbn [verdict_of entries_of]. destruct acc; reflexivity.
    - rewrite IH. reflexivity.
  Qed.

  Lemma filter_true_id {P : Type} (ps : list P) : List.filter (fun _ : P => true) ps = ps.
  Proof. induction ps as [|p ps IH]; [reflexivity|]. cbn [List.filter]. f_equal. exact IH. Qed.

  Lemma flat_map_nil {A B} (l : list A) : flat_map (fun _ : A => @nil B) l = [].
  Proof. induction l; [reflexivity|assumption]. Qed.

  Lemma rib_no_filter {R P O : Type} (render : P -> out -> option O) (insert : R -> P -> R) r ps :
    rib_site None render insert r ps =
    (fold_left insert ps r, match ps with [] => [] | _ => [DUpd ps] end).
  Proof.
    unfold rib_site. rewrite rib_loop_spec. unfold verdict_of, entries_of. rewrite filter_true_id.
    unfold drain. rewrite flat_map_nil. reflexivity.
  Qed.

  (* the RIB and what is forwarded are those of the unfiltered unit fed with
     the accepted payloads only: a rejected payload leaves no trace, an
     accepted one is handled exactly as without a filter *)
  Lemma rib_filtered_is_unfiltered_on_accepted {R P O : Type} (f : P -> bool * list out) (render : P -> out -> option O) (insert : R -> P -> R) r ps :
    let acc := List.filter (fun p => fst (f p)) ps in
    fst (rib_site (Some f) render insert r ps) = fst (rib_site None render insert r acc) /\
    upds_of (snd (rib_site (Some f) render insert r ps)) = upds_of (snd (rib_site None render insert r acc)).
  Proof.
    cbn zeta. rewrite rib_no_filter. unfold rib_site. rewrite rib_loop_spec. unfold verdict_of, entries_of.
    cbn [fst snd]. split; [reflexivity|].
    rewrite upds_of_app.
    assert (H : upds_of (flat_map (fun p => @drain P (list P) O render p (snd (f p))) ps) = []).
    { induction ps as [|p ps IH]; [reflexivity|]. cbn [flat_map]. rewrite upds_of_app, upds_of_drain. exact IH. }
    rewrite H. reflexivity.
  Qed.

  Lemma rib_all_rejected {R P O : Type} (f : P -> bool * list out) (render : P -> out -> option O) (insert : R -> P -> R) r ps :
    Forall (fun p => fst (f p) = false) ps ->
    fst (rib_site (Some f) render insert r ps) = r /\
    upds_of (snd (rib_site (Some f) render insert r ps)) = [].
  Proof.
    intros H.
    assert (Hn : List.filter (fun p => fst (f p)) ps = []).
    { induction H as [|p ps Hp _ IH]; [reflexivity|]. cbn [List.filter]. rewrite Hp. exact IH. }
    destruct (rib_filtered_is_unfiltered_on_accepted f render insert r ps) as [H1 H2].
    cbn zeta in H1, H2. rewrite H1, H2.
    rewrite Hn. rewrite rib_no_filter. split; reflexivity.
  Qed.

  Lemma rib_all_accepted {R P O : Type} (f : P -> bool * list out) (render : P -> out -> option O) (insert : R -> P -> R) r ps :
    Forall (fun p => fst (f p) = true) ps ->
    fst (rib_site (Some f) render insert r ps) = fst (rib_site None render insert r ps) /\
    upds_of (snd (rib_site (Some f) render insert r ps)) = upds_of (snd (rib_site None render insert r ps)).
  Proof.
    intros H.
    assert (Hn : List.filter (fun p => fst (f p)) ps = ps).
    { induction H as [|p ps Hp _ IH]; [reflexivity|]. cbn [List.filter]. rewrite Hp. f_equal. exact IH. }
    destruct (rib_filtered_is_unfiltered_on_accepted f render insert r ps) as [H1 H2].
    cbn zeta in H1, H2. rewrite H1, H2.
    rewrite Hn. split; reflexivity.
  Qed.

  Lemma rib_outputs {R P O : Type} (f : P -> bool * list out) (render : P -> out -> option O) (insert : R -> P -> R) r ps :
    outs_of (snd (rib_site (Some f) render insert r ps)) = flat_map (fun p => omap (render p) (snd (f p))) ps.
  Proof.
    unfold rib_site. rewrite rib_loop_spec. unfold entries_of. cbn [snd].
    rewrite outs_of_app.
    assert (Ht : outs_of (match List.filter (verdict_of (Some f)) ps with
                          | [] => [] | _ :: _ => [@DUpd (list P) O (List.filter (verdict_of (Some f)) ps)] end) = []).
    { destruct (List.filter (verdict_of (Some f)) ps); reflexivity. }
    rewrite Ht, app_nil_r. clear Ht.
    induction ps as [|p ps IH]; [reflexivity|]. cbn [flat_map]. rewrite outs_of_app, outs_of_drain, IH. reflexivity.
  Qed.

(* ------------------------------------------------------------------ whole histories *)

Lemma msg_run_history {S M U O} (f : M -> bool * list out) (render : M -> out -> option O)
    (process : S -> M -> S * list U) : forall ms s,
  let acc := List.filter (fun m => fst (f m)) ms in
  fst (msg_run (Some f) render process s ms) = fst (msg_run None render process s acc) /\
  upds_of (snd (msg_run (Some f) render process s ms)) = upds_of (snd (msg_run None render process s acc)) /\
  outs_of (snd (msg_run (Some f) render process s ms)) = flat_map (fun m => omap (render m) (snd (f m))) ms /\
  outs_of (snd (msg_run None render process s acc)) = [].
Proof.
  induction ms as [|m ms IH]; intros s; cbn zeta; [repeat split; reflexivity|].
  cbn [msg_run List.filter flat_map].
  destruct (msg_outputs f render process s m) as [Ho _].
  destruct (fst (f m)) eqn:Ev.
  - destruct (msg_accept f render process s m Ev) as (H1 & H2 & _ & _).
    cbn [msg_run]. rewrite (msg_no_filter render process s m).
    destruct (msg_site (Some f) render process s m) as [s1 ds] eqn:E1. cbn [fst snd] in *.
    destruct (process s m) as [s1' us] eqn:Ep. cbn [fst snd] in *. subst s1'.
    specialize (IH s1). cbn zeta in IH. destruct IH as (I1 & I2 & I3 & I4).
    destruct (msg_run (Some f) render process s1 ms) as [s2 ds2].
    destruct (msg_run None render process s1 (List.filter (fun m => fst (f m)) ms)) as [s2' ds2'].
    cbn [fst snd] in *. repeat split.
    + exact I1.
    + rewrite !upds_of_app, H2, I2, upds_of_upds. reflexivity.
    + rewrite outs_of_app, Ho, I3. reflexivity.
    + rewrite outs_of_app, outs_of_upds, I4. reflexivity.
  - destruct (msg_reject f render process s m Ev) as (H1 & H2).
    destruct (msg_site (Some f) render process s m) as [s1 ds] eqn:E1. cbn [fst snd] in *. subst s1.
    specialize (IH s). cbn zeta in IH. destruct IH as (I1 & I2 & I3 & I4).
    destruct (msg_run (Some f) render process s ms) as [s2 ds2].
    cbn [fst snd] in *. repeat split.
    + exact I1.
    + rewrite upds_of_app, H2, I2. reflexivity.
    + rewrite outs_of_app, Ho, I3. reflexivity.
    + exact I4.
Qed.

Lemma rib_run_history {R P O} (f : P -> bool * list out) (render : P -> out -> option O)
    (insert : R -> P -> R) : forall us r,
  let acc := map (List.filter (fun p => fst (f p))) us in
  fst (rib_run_site (Some f) render insert r us) = fst (rib_run_site None render insert r acc) /\
  upds_of (snd (rib_run_site (Some f) render insert r us)) = upds_of (snd (rib_run_site None render insert r acc)) /\
  outs_of (snd (rib_run_site (Some f) render insert r us)) =
    flat_map (fun ps => flat_map (fun p => omap (render p) (snd (f p))) ps) us.
Proof.
  induction us as [|ps us IH]; intros r; cbn zeta; [repeat split; reflexivity|].
  cbn [rib_run_site map flat_map].
  destruct (rib_filtered_is_unfiltered_on_accepted f render insert r ps) as [H1 H2]. cbn zeta in H1, H2.
  pose proof (rib_outputs f render insert r ps) as Ho.
  destruct (rib_site (Some f) render insert r ps) as [r1 ds].
  destruct (rib_site None render insert r (List.filter (fun p => fst (f p)) ps)) as [r1' ds1'].
  cbn [fst snd] in *. subst r1'.
  specialize (IH r1). cbn zeta in IH. destruct IH as (I1 & I2 & I3).
  destruct (rib_run_site (Some f) render insert r1 us) as [r2 ds2].
  destruct (rib_run_site None render insert r1 (map (List.filter (fun p => fst (f p))) us)) as [r2' ds2'].
  cbn [fst snd] in *. repeat split.
  - exact I1.
  - rewrite !upds_of_app, H2, I2. reflexivity.
  - rewrite outs_of_app, Ho, I3. reflexivity.
Qed.

(* ------------------------------------------------------------------ the renderers of the code *)

Lemma render_spec_total route i o : is_Some (render_spec route i o).
Proof. destruct o; cbn; eauto. Qed.

Lemma render_rib_agrees i o : o <> EPeerDown -> render_rib i o = render_spec (Some (in_pfx i)) i o.
Proof. destruct o; intros H; try reflexivity. congruence. Qed.
Lemma render_bgp_agrees i o : o <> EPeerDown -> render_bgp i o = render_spec None i o.
Proof. destruct o; intros H; try reflexivity. congruence. Qed.
Lemma render_bmp_agrees i o :
  o <> EPeerDown \/ (in_kind i = K_PEERDOWN /\ is_Some (in_pph_asn i)) -> render_bmp i o = render_spec None i o.
Proof.
  destruct o; intros H; try reflexivity. destruct H as [H|[Hk [a Ha]]]; [congruence|].
  cbn. rewrite Hk, Ha. reflexivity.
Qed.

Lemma omap_ext_in {A B} (g h : A -> option B) (l : list A) :
  (forall x, In x l -> g x = h x) -> omap g l = omap h l.
Proof.
  induction l as [|x l IH]; intros H; [reflexivity|].
  change (omap g (x :: l)) with (match g x with Some y => y :: omap g l | None => omap g l end).
  change (omap h (x :: l)) with (match h x with Some y => y :: omap h l | None => omap h l end).
  rewrite (H x) by (left; reflexivity).
  rewrite IH; [reflexivity|]. intros y Hy. apply H. right. exact Hy.
Qed.

Lemma omap_length_total {A B} (g : A -> option B) (l : list A) :
  (forall x, is_Some (g x)) -> length (omap g l) = length l.
Proof.
  intros H. induction l as [|x l IH]; [reflexivity|].
  change (omap g (x :: l)) with (match g x with Some y => y :: omap g l | None => omap g l end).
  destruct (H x) as [y Hy]. rewrite Hy. cbn [length]. f_equal. exact IH.
Qed.

(* a program without log_peer_down: every entry of every run becomes a message
   at each of the three call sites, as the property demands *)
Lemma rendered_as_spec_without_peer_down lb k p i :
  calls_peer_down p = false ->
  omap (render_rib i) (snd (eval_gen lb k p i)) = omap (render_spec (Some (in_pfx i)) i) (snd (eval_gen lb k p i)) /\
  omap (render_bgp i) (snd (eval_gen lb k p i)) = omap (render_spec None i) (snd (eval_gen lb k p i)) /\
  omap (render_bmp i) (snd (eval_gen lb k p i)) = omap (render_spec None i) (snd (eval_gen lb k p i)) /\
  length (omap (render_spec None i) (snd (eval_gen lb k p i))) = length (snd (eval_gen lb k p i)).
Proof.
  intros Hc.
  assert (Hn : ~ In EPeerDown (snd (eval_gen lb k p i))).
  { unfold eval_gen. pose proof (no_peer_down lb k p [] i Hc) as H.
    destruct (exec lb k [] i p) as [[b|] os]; exact H. }
  repeat split.
  - apply omap_ext_in. intros o Ho. apply render_rib_agrees. intros ->. exact (Hn Ho).
  - apply omap_ext_in. intros o Ho. apply render_bgp_agrees. intros ->. exact (Hn Ho).
  - apply omap_ext_in. intros o Ho. apply render_bmp_agrees. left. intros ->. exact (Hn Ho).
  - apply omap_length_total. intros o. apply render_spec_total.
Qed.

(* ... and with it, the rib unit loses an entry *)
Definition peer_down_witness_prog : prog := POut OPeerDown (POut (OCustom (ALit 1) (ALit 2)) (PRet true)).
Definition peer_down_witness_input : input := MkIn K_RM 42 None 0 0 None 65000 7 false.
Lemma peer_down_dropped_refuted :
  let f := eval FRib peer_down_witness_prog in
  let i := peer_down_witness_input in
  snd (f i) = [EPeerDown; ECustom 1 2] /\
  outs_of (snd (rib_site (Some f) render_rib (fun (r : list input) p => r ++ [p]) [] [i])) = [OsmCustom 1 2 7] /\
  outs_of (snd (rib_site (Some f) (render_spec (Some 42)) (fun (r : list input) p => r ++ [p]) [] [i]))
    = [OsmPeerDown 65000 7; OsmCustom 1 2 7].
Proof. vm_compute. repeat split; reflexivity. Qed.

(* ------------------------------------------------------------------ the units *)
From RV Require Import Ingress.IngressModel Rib.RibModel Bmp.BmpModel Filter.FilterUnits.

Definition accepts (lb : bool) (k : fkind) (p : prog) (i : input) : bool := fst (eval_gen lb k p i).

Lemma rib_unit_filtered lb render p r ps :
  let acc := List.filter (fun fp => accepts lb FRib p (fp_in fp)) ps in
  fst (rib_unit lb render (Some p) r ps) = fst (rib_unit lb render None r acc) /\
  upds_of (snd (rib_unit lb render (Some p) r ps)) = upds_of (snd (rib_unit lb render None r acc)) /\
  fst (rib_unit lb render None r acc) = fold_left rib_insert_payload (map fp_pay acc) r /\
  upds_of (snd (rib_unit lb render None r acc)) = match acc with [] => [] | _ => [acc] end.
Proof.
  cbn zeta. unfold rib_unit, filter_fn.
  destruct (rib_filtered_is_unfiltered_on_accepted (fun x => eval_gen lb FRib p (fp_in x))
              (fun fp => render (fp_in fp)) (fun r fp => rib_insert_payload r (fp_pay fp)) r ps) as [H1 H2].
  cbn zeta in H1, H2. unfold accepts. split; [exact H1|]. split; [exact H2|].
  rewrite rib_no_filter. cbn [fst snd]. split.
  - clear H1 H2. generalize (List.filter (fun fp => fst (eval_gen lb FRib p (fp_in fp))) ps). intros l. revert r.
    induction l as [|x l IH]; intros r; [reflexivity|]. cbn [fold_left map]. apply IH.
  - destruct (List.filter (fun fp => fst (eval_gen lb FRib p (fp_in fp))) ps); reflexivity.
Qed.

Lemma rib_unit_reject lb render p r ps :
  Forall (fun fp => accepts lb FRib p (fp_in fp) = false) ps ->
  fst (rib_unit lb render (Some p) r ps) = r /\ upds_of (snd (rib_unit lb render (Some p) r ps)) = [].
Proof. intros H. unfold rib_unit, filter_fn. apply rib_all_rejected. exact H. Qed.

Lemma rib_unit_no_filter lb render r ps :
  rib_unit lb render None r ps =
  (fold_left rib_insert_payload (map fp_pay ps) r, match ps with [] => [] | _ => [DUpd ps] end).
Proof.
  unfold rib_unit, filter_fn. rewrite rib_no_filter. f_equal. revert r.
  induction ps as [|x l IH]; intros r; [reflexivity|]. cbn [fold_left map]. apply IH.
Qed.

Lemma rib_unit_outputs lb render p r ps :
  outs_of (snd (rib_unit lb render (Some p) r ps)) =
  flat_map (fun fp => omap (render (fp_in fp)) (snd (eval_gen lb FRib p (fp_in fp)))) ps.
Proof. unfold rib_unit, filter_fn. apply rib_outputs. Qed.

Lemma bmp_unit_reject lb render p rid st m :
  accepts lb FBmp p (snd m) = false ->
  fst (bmp_unit lb render (Some p) rid st m) = st /\ upds_of (snd (bmp_unit lb render (Some p) rid st m)) = [].
Proof. intros H. unfold bmp_unit, filter_fn. apply msg_reject. exact H. Qed.

Lemma bmp_unit_accept lb render p rid st m :
  accepts lb FBmp p (snd m) = true ->
  fst (bmp_unit lb render (Some p) rid st m) = fst (bmp_unit lb render None rid st m) /\
  upds_of (snd (bmp_unit lb render (Some p) rid st m)) = upds_of (snd (bmp_unit lb render None rid st m)).
Proof.
  intros H. unfold bmp_unit, filter_fn.
  destruct (msg_accept (fun x : bmsg * input => eval_gen lb FBmp p (snd x)) (fun mi : bmsg * input => render (snd mi))
              (bmp_process rid) st m H) as (_ & _ & H3 & H4).
  split; assumption.
Qed.

Lemma bmp_unit_no_filter lb render rid st m :
  bmp_unit lb render None rid st m = (fst (bmp_process rid st m), map DUpd (snd (bmp_process rid st m))).
Proof. unfold bmp_unit, filter_fn. apply msg_no_filter. Qed.

Lemma bmp_unit_outputs lb render p rid st m :
  outs_of (snd (bmp_unit lb render (Some p) rid st m)) = omap (render (snd m)) (snd (eval_gen lb FBmp p (snd m))) /\
  exists us, snd (bmp_unit lb render (Some p) rid st m) =
             drain (fun mi : bmsg * input => render (snd mi)) m (snd (eval_gen lb FBmp p (snd m))) ++ map DUpd us.
Proof.
  unfold bmp_unit, filter_fn.
  exact (msg_outputs (fun x : bmsg * input => eval_gen lb FBmp p (snd x)) (fun mi : bmsg * input => render (snd mi))
           (bmp_process rid) st m).
Qed.

Lemma bgp_unit_verdict lb render p id m :
  upds_of (bgp_unit lb render (Some p) id m) =
    (if accepts lb FBgp p (snd m) then [UBulk (payloads_of id (fst m))] else []) /\
  upds_of (bgp_unit lb render None id m) = [UBulk (payloads_of id (fst m))] /\
  outs_of (bgp_unit lb render (Some p) id m) = omap (render (snd m)) (snd (eval_gen lb FBgp p (snd m))).
Proof.
  unfold bgp_unit, filter_fn, accepts. split; [|split].
  - unfold msg_site. destruct (eval_gen lb FBgp p (snd m)) as [acc os]. cbn [fst snd]. destruct acc; cbn [bgp_process snd].
    + rewrite upds_of_app, upds_of_drain. reflexivity.
    + apply upds_of_drain.
  - reflexivity.
  - exact (proj1 (msg_outputs (fun x : upd * input => eval_gen lb FBgp p (snd x)) (fun mi : upd * input => render (snd mi))
                    (bgp_process id) tt m)).
Qed.

(* ------------------------------------------------------------------ *)
(* The provenance a filter is handed (round 4).                        *)

(* which BMP messages carry a per-peer header: all but Initiation and Termination *)
Lemma bmsg_pph_kinds b :
  (bmsg_pph b = None <-> bmsg_kind b = K_INIT \/ bmsg_kind b = K_TERM) /\
  (is_Some (bmsg_pph b) <->
   bmsg_kind b = K_RM \/ bmsg_kind b = K_STATS \/ bmsg_kind b = K_PEERDOWN \/ bmsg_kind b = K_PEERUP \/ bmsg_kind b = K_MIRROR) /\
  bmsg_kind b < 7.
Proof.
  destruct b as [[]|]; cbn; unfold K_INIT, K_TERM, K_RM, K_STATS, K_PEERDOWN, K_PEERUP, K_MIRROR.
  all: split; [|split]; [| |lia].
  all: split; intros H.
  all: try discriminate; try (left; reflexivity); try (right; reflexivity); try reflexivity; try (eexists; reflexivity).
  all: try (destruct H as [H|H]; discriminate H).
  all: try (exfalso; destruct H as [y Hy]; discriminate Hy).
  all: try (destruct H as [H|[H|[H|[H|H]]]]; discriminate H).
  all: try (right; left; reflexivity); try (right; right; left; reflexivity); try (right; right; right; left; reflexivity);
       try (right; right; right; right; reflexivity).
Qed.

Lemma bmp_prov_header c b p :
  bmsg_pph b = Some p -> bmp_prov c b = MkProv (pv_ingress c) (ph_addr p) (ph_asn p).
Proof. unfold bmp_prov. intros ->. reflexivity. Qed.

Lemma bmp_prov_conn c b : bmsg_pph b = None -> bmp_prov c b = c.
Proof. unfold bmp_prov. intros ->. reflexivity. Qed.

Lemma bmp_view_fields c b a lg :
  in_peer_asn (bmp_view c b a lg) = pv_asn (bmp_prov c b) /\
  in_pph_asn (bmp_view c b a lg) = option_map ph_asn (bmsg_pph b) /\
  in_kind (bmp_view c b a lg) = bmsg_kind b /\
  in_ingress (bmp_view c b a lg) = pv_ingress c.
Proof. unfold bmp_view. cbn. repeat split. Qed.

(* the statement of the property for this call site *)
Lemma bmp_filter_sees_header_provenance rid addr b a lg :
  let i := bmp_view (conn_prov rid addr) b a lg in
  (forall p, bmsg_pph b = Some p ->
     bmp_prov (conn_prov rid addr) b = MkProv rid (ph_addr p) (ph_asn p) /\ in_peer_asn i = ph_asn p) /\
  (bmsg_pph b = None -> bmp_prov (conn_prov rid addr) b = conn_prov rid addr /\ in_peer_asn i = 0) /\
  in_ingress i = rid.
Proof.
  cbn zeta. destruct (bmp_view_fields (conn_prov rid addr) b a lg) as (Ha & _ & _ & Hi).
  split; [|split].
  - intros p Hp. rewrite Ha, (bmp_prov_header _ _ _ Hp). split; reflexivity.
  - intros Hn. rewrite Ha, (bmp_prov_conn _ _ Hn). split; reflexivity.
  - exact Hi.
Qed.

(* a condition / program that reads only the provenance cannot tell two inputs
   with the same peer AS apart - whatever kind of message they are *)
Lemma eval_cond_prov_only lb k e i1 i2 c :
  cond_prov_only c = true -> in_peer_asn i1 = in_peer_asn i2 ->
  eval_cond lb k e i1 c = eval_cond lb k e i2 c.
Proof.
  intros Hc Hi. induction c as [| |p|c IH|c1 IH1 c2 IH2|c1 IH1 c2 IH2]; cbn in *; try reflexivity.
  - destruct p; try discriminate. cbn. rewrite Hi. reflexivity.
  - rewrite IH by exact Hc. reflexivity.
  - apply andb_true_iff in Hc as [H1 H2]. rewrite IH1, IH2 by assumption. reflexivity.
  - apply andb_true_iff in Hc as [H1 H2]. rewrite IH1, IH2 by assumption. reflexivity.
Qed.

Lemma exec_prov_only lb k i1 i2 p :
  in_peer_asn i1 = in_peer_asn i2 ->
  forall e, prov_only p = true -> exec lb k e i1 p = exec lb k e i2 p.
Proof.
  intros Hi. induction p as [|o r IH|ty n r IH|c th IHt el IHe r IHr|b]; intros e Hp; cbn in *; try reflexivity.
  - rewrite (IH e Hp). reflexivity.
  - apply IH. exact Hp.
  - apply andb_true_iff in Hp as [Hp Hr]. apply andb_true_iff in Hp as [Hp He]. apply andb_true_iff in Hp as [Hc Ht].
    rewrite (eval_cond_prov_only lb k e i1 i2 c Hc Hi).
    destruct (eval_cond lb k e i2 c).
    + rewrite (IHt e Ht), (IHr e Hr). reflexivity.
    + rewrite (IHe e He), (IHr e Hr). reflexivity.
Qed.

Lemma eval_prov_only lb k p i1 i2 :
  prov_only p = true -> in_peer_asn i1 = in_peer_asn i2 -> eval_gen lb k p i1 = eval_gen lb k p i2.
Proof. intros Hp Hi. unfold eval_gen. rewrite (exec_prov_only lb k i1 i2 p Hi [] Hp). reflexivity. Qed.

(* bmp-in: a filter on the peer AS gives the same verdict and the same output
   entries to every message - of whatever type - about the same peer *)
Lemma bmp_peer_filter_uniform lb p c b1 b2 q1 q2 a1 a2 l1 l2 :
  prov_only p = true ->
  bmsg_pph b1 = Some q1 -> bmsg_pph b2 = Some q2 -> ph_asn q1 = ph_asn q2 ->
  eval_gen lb FBmp p (bmp_view c b1 a1 l1) = eval_gen lb FBmp p (bmp_view c b2 a2 l2).
Proof.
  intros Hp H1 H2 Hq. apply eval_prov_only; [exact Hp|].
  destruct (bmp_view_fields c b1 a1 l1) as (-> & _). destruct (bmp_view_fields c b2 a2 l2) as (-> & _).
  rewrite (bmp_prov_header _ _ _ H1), (bmp_prov_header _ _ _ H2). cbn. exact Hq.
Qed.

(* ... and to the messages without a per-peer header the verdict it gives to AS0 *)
Lemma bmp_peer_filter_headerless lb p rid addr b1 b2 a1 a2 l1 l2 :
  prov_only p = true -> bmsg_pph b1 = None -> bmsg_pph b2 = None ->
  eval_gen lb FBmp p (bmp_view (conn_prov rid addr) b1 a1 l1) = eval_gen lb FBmp p (bmp_view (conn_prov rid addr) b2 a2 l2).
Proof.
  intros Hp H1 H2. apply eval_prov_only; [exact Hp|].
  destruct (bmp_view_fields (conn_prov rid addr) b1 a1 l1) as (-> & _).
  destruct (bmp_view_fields (conn_prov rid addr) b2 a2 l2) as (-> & _).
  rewrite (bmp_prov_conn _ _ H1), (bmp_prov_conn _ _ H2). reflexivity.
Qed.

(* bgp-in: every UPDATE of a session is judged with the session's provenance *)
Lemma bgp_view_fields pv u a lg :
  in_peer_asn (bgp_view pv u a lg) = pv_asn pv /\ in_ingress (bgp_view pv u a lg) = pv_ingress pv.
Proof. split; reflexivity. Qed.

Lemma bgp_peer_filter_uniform lb p pv u1 u2 a1 a2 l1 l2 :
  prov_only p = true -> eval_gen lb FBgp p (bgp_view pv u1 a1 l1) = eval_gen lb FBgp p (bgp_view pv u2 a2 l2).
Proof. intros Hp. apply eval_prov_only; [exact Hp|reflexivity]. Qed.

(* rib-in-pre: the id on an output message is the one of the payload's provenance, for both context classes *)
Lemma rib_view_ingress c k a : in_ingress (rib_view_ctx c k a) = k_mui k /\ in_peer_asn (rib_view_ctx c k a) = 0.
Proof. destruct c; split; reflexivity. Qed.

(* ---- the counters of the connection handler ---- *)

Definition count_kind (k : N) (ms : list (bmsg * input)) : N :=
  N.of_nat (length (List.filter (fun m : bmsg * input => N.eqb (bmsg_kind (fst m)) k) ms)).
Definition count_invalid (os : list outcome) : N :=
  N.of_nat (length (List.filter (fun o => match o with OInvalid => true | _ => false end) os)).

(* one message: the counters do not influence anything else (erasure), received
   is counted whatever the verdict, processed iff the filter lets it through *)
Lemma bmp_unit_cnt_step lb render flt rid st c m :
  let res := bmp_unit_cnt lb render flt rid (st, c) m in
  let plain := bmp_unit lb render flt rid st m in
  fst (fst res) = fst plain /\ snd res = snd plain /\
  (forall j, bc_recv (snd (fst res)) j = if N.eqb j (bmsg_kind (fst m)) then N.succ (bc_recv c j) else bc_recv c j) /\
  bc_proc (snd (fst res)) = (if bmp_lets_through lb flt m then N.succ (bc_proc c) else bc_proc c) /\
  bc_inval (snd (fst res)) =
    (if bmp_lets_through lb flt m
     then match snd (sm_step (fst st) rid (snd st) (bmsg_sm (fst m))) with OInvalid => N.succ (bc_inval c) | _ => bc_inval c end
     else bc_inval c).
Proof.
  cbn zeta. unfold bmp_unit_cnt, bmp_unit, bmp_lets_through, msg_site, filter_fn.
  destruct flt as [p|]; cbn [fst snd].
  - destruct (eval_gen lb FBmp p (snd m)) as [acc os]. cbn [fst snd]. destruct acc.
    + unfold bmp_process_cnt, bmp_process. cbn [fst snd].
      destruct (sm_step (fst st) rid (snd st) (bmsg_sm (fst m))) as [[r' s'] o]. cbn [fst snd].
      repeat split; destruct o; reflexivity.
    + cbn. repeat split.
  - unfold bmp_process_cnt, bmp_process. cbn [fst snd].
    destruct (sm_step (fst st) rid (snd st) (bmsg_sm (fst m))) as [[r' s'] o]. cbn [fst snd].
    repeat split; destruct o; reflexivity.
Qed.

Lemma bmp_unit_cnt_state lb render flt rid st c m :
  fst (fst (bmp_unit_cnt lb render flt rid (st, c) m)) =
  if bmp_lets_through lb flt m
  then (fst (fst (sm_step (fst st) rid (snd st) (bmsg_sm (fst m)))), snd (fst (sm_step (fst st) rid (snd st) (bmsg_sm (fst m)))))
  else st.
Proof.
  unfold bmp_unit_cnt, bmp_lets_through, msg_site, filter_fn.
  destruct flt as [p|]; cbn [fst snd].
  - destruct (eval_gen lb FBmp p (snd m)) as [acc os]. cbn [fst snd]. destruct acc; [|reflexivity].
    unfold bmp_process_cnt. cbn [fst snd].
    destruct (sm_step (fst st) rid (snd st) (bmsg_sm (fst m))) as [[r' s'] o]. reflexivity.
  - unfold bmp_process_cnt. cbn [fst snd].
    destruct (sm_step (fst st) rid (snd st) (bmsg_sm (fst m))) as [[r' s'] o]. reflexivity.
Qed.

(* a whole connection, any length: the state machine has seen exactly the
   messages the filter let through, in order; processed = their number;
   invalid = those of them the state machine refused; received = all, by type *)
Lemma bmp_run_cnt_counts lb render flt rid : forall ms st c,
  let res := bmp_run_cnt lb render flt rid (st, c) ms in
  let acc := List.filter (bmp_lets_through lb flt) ms in
  let smr := sm_run (fst st) rid (snd st) (map (fun m : bmsg * input => bmsg_sm (fst m)) acc) in
  fst (fst res) = (fst (fst smr), snd (fst smr)) /\
  bc_proc (snd (fst res)) = bc_proc c + N.of_nat (length acc) /\
  bc_inval (snd (fst res)) = bc_inval c + count_invalid (snd smr) /\
  (forall j, bc_recv (snd (fst res)) j = bc_recv c j + count_kind j ms).
Proof.
  induction ms as [|m ms IH]; intros st c; cbn zeta.
  - cbn. destruct st. repeat split; unfold count_invalid, count_kind; cbn; lia.
  - cbn [bmp_run_cnt].
    pose proof (bmp_unit_cnt_state lb render flt rid st c m) as Hst.
    destruct (bmp_unit_cnt_step lb render flt rid st c m) as (_ & _ & H3 & H4 & H5). cbn zeta in H3, H4, H5.
    destruct (bmp_unit_cnt lb render flt rid (st, c) m) as [[st1 c1] ds]. cbn [fst snd] in Hst, H3, H4, H5.
    specialize (IH st1 c1). cbn zeta in IH.
    destruct (bmp_run_cnt lb render flt rid (st1, c1) ms) as [[st2 c2] ds']. cbn [fst snd] in IH |- *.
    destruct IH as (I1 & I2 & I3 & I4).
    cbn [List.filter].
    destruct (bmp_lets_through lb flt m) eqn:Hl.
    + cbn [map sm_run length].
      destruct (sm_step (fst st) rid (snd st) (bmsg_sm (fst m))) as [[r' s'] o] eqn:Hs. cbn [fst snd] in Hst, H5.
      subst st1. cbn [fst snd] in I1, I3.
      destruct (sm_run r' rid s' (map (fun m0 : bmsg * input => bmsg_sm (fst m0)) (List.filter (bmp_lets_through lb flt) ms)))
        as [[r2 s2] os] eqn:Hr. cbn [fst snd] in I1, I3 |- *.
      split; [exact I1|]. split; [rewrite I2, H4; lia|]. split.
      * rewrite I3, H5. unfold count_invalid. cbn [List.filter]. destruct o; cbn [length]; lia.
      * intros j. rewrite I4, H3. unfold count_kind. cbn [List.filter fst].
        rewrite (N.eqb_sym j). destruct (N.eqb (bmsg_kind (fst m)) j); cbn [length]; lia.
    + subst st1. split; [exact I1|]. split; [rewrite I2, H4; lia|]. split; [rewrite I3, H5; lia|].
      intros j. rewrite I4, H3. unfold count_kind. cbn [List.filter fst].
      rewrite (N.eqb_sym j). destruct (N.eqb (bmsg_kind (fst m)) j); cbn [length]; lia.
Qed.

(* what a filter on the peer AS does to a connection's counters: if it rejects
   one message about a peer, no message about that peer - Statistics Report and
   Route Mirroring included - reaches the state machine or is counted as processed *)
Lemma bmp_peer_filter_rejects_all lb render p rid st c cn b0 b q0 q a0 a l0 l :
  prov_only p = true ->
  bmsg_pph b0 = Some q0 -> bmsg_pph b = Some q -> ph_asn q0 = ph_asn q ->
  fst (eval_gen lb FBmp p (bmp_view cn b0 a0 l0)) = false ->
  let m := (b, bmp_view cn b a l) in
  let res := bmp_unit_cnt lb render (Some p) rid (st, c) m in
  fst (fst res) = st /\ bc_proc (snd (fst res)) = bc_proc c /\ bc_inval (snd (fst res)) = bc_inval c /\
  upds_of (snd res) = [] /\
  outs_of (snd res) = omap (render (snd m)) (snd (eval_gen lb FBmp p (bmp_view cn b0 a0 l0))).
Proof.
  intros Hp H0 H1 Hq Hrej. cbn zeta.
  pose proof (bmp_peer_filter_uniform lb p cn b0 b q0 q a0 a l0 l Hp H0 H1 Hq) as Heq.
  destruct (bmp_unit_cnt_step lb render (Some p) rid st c (b, bmp_view cn b a l)) as (S1 & S2 & _ & S4 & S5).
  cbn zeta in *. unfold bmp_lets_through in S4, S5. cbn [snd fst] in S4, S5.
  rewrite <- Heq, Hrej in S4, S5.
  assert (Hacc : accepts lb FBmp p (snd (b, bmp_view cn b a l)) = false).
  { unfold accepts. cbn [snd]. rewrite <- Heq. exact Hrej. }
  destruct (bmp_unit_reject lb render p rid st (b, bmp_view cn b a l) Hacc) as [R1 R2].
  destruct (bmp_unit_outputs lb render p rid st (b, bmp_view cn b a l)) as [O1 _].
  rewrite S1, S2, S4, S5, R1, R2, O1. cbn [snd]. rewrite <- Heq. repeat split.
Qed.

(* non-vacuity: "reject and log everything about AS12345" on a connection - the
   peer's Peer Down, Statistics Report and Route Mirroring are rejected and
   logged, the Statistics Report about another peer and the Initiation pass *)
Definition prov_witness_prog : prog :=
  PLet 1 12345 (PIf (CPred (PPeerAsn (AVar 0))) (POut (OAsn (AVar 0)) (PRet false)) (PRet true) PEnd).
Lemma prov_witness :
  let q : pph := (0, 0, 0, 0, 1, 12345, 1) in
  let q' : pph := (0, 0, 0, 0, 2, 54321, 2) in
  let cn := conn_prov 1 99 in
  let na := MkAttrs None [] [] [] in
  let v b := bmp_view cn b na false in
  let ms := [(BMsg MInit, v (BMsg MInit)); (BMsg (MPeerDown q), v (BMsg (MPeerDown q)));
             (BMsg (MStats q), v (BMsg (MStats q))); (BMirror q, v (BMirror q)); (BMsg (MStats q'), v (BMsg (MStats q')))] in
  let res := bmp_run_cnt true render_bmp (Some prov_witness_prog) 1 ((IngressModel.reg_new, sm_init), cnt0) ms in
  prov_only prov_witness_prog = true /\ returns prov_witness_prog = true /\
  map (bmp_lets_through true (Some prov_witness_prog)) ms = [true; false; false; false; true] /\
  bc_proc (snd (fst res)) = 2 /\ map (bc_recv (snd (fst res))) [0; 1; 2; 3; 4; 5; 6] = [0; 2; 1; 0; 1; 0; 1] /\
  outs_of (snd res) = [OsmTopic 2 None 1; OsmTopic 2 None 1; OsmTopic 2 None 1].
Proof. vm_compute. repeat split; reflexivity. Qed.
