(* C10 - the three places where rotonda calls a Roto filter, as functions of
   the filter, of what the unit does with an accepted item, and of how the
   unit turns Output entries into messages for its gate.

     bmp-in   src/units/bmp_tcp_in/router_handler.rs process_msg
     bgp-in   src/units/bgp_tcp_in/router_handler.rs Processor::process (UpdateMessage arm)
     rib-in-pre  src/units/rib_unit/unit.rs filter_payload

   Definitions only. *)
From stdpp Require Import list.
From Coq Require Import NArith Bool.
From RV Require Import Filter.FilterLang.

(* what leaves the unit through its gate, in order *)
Inductive down (U O : Type) :=
| DOut (ms : list O)        (* Update::OutputStream(msgs) *)
| DUpd (u : U).             (* any other Update the unit sends *)
Arguments DOut {U O} ms.
Arguments DUpd {U O} u.

Definition outs_of {U O} (ds : list (down U O)) : list O :=
  flat_map (fun d => match d with DOut ms => ms | DUpd _ => [] end) ds.
Definition upds_of {U O} (ds : list (down U O)) : list U :=
  flat_map (fun d => match d with DOut _ => [] | DUpd u => [u] end) ds.

(* the output stream is only sent when the filter pushed something *)
Definition drain {M U O} (render : M -> out -> option O) (m : M) (os : list out) : list (down U O) :=
  match os with [] => [] | _ => [DOut (omap (render m) os)] end.

(* bmp-in and bgp-in: one message. [filter = None]: no script, or the script
   has no function of that name. The output stream is drained before the
   verdict is looked at. *)
Definition msg_site {S M U O} (filter : option (M -> bool * list out))
    (render : M -> out -> option O) (process : S -> M -> S * list U) (s : S) (m : M)
    : S * list (down U O) :=
  match filter with
  | None => let '(s', us) := process s m in (s', map DUpd us)
  | Some f =>
      let '(acc, os) := f m in
      if acc then let '(s', us) := process s m in (s', drain render m os ++ map DUpd us)
      else (s, drain render m os)
  end.

(* rib-in-pre: the payloads of one Update::Bulk / Update::Single, one filter
   call each; an accepted payload is inserted at once, the output stream is
   drained after each payload, the accepted payloads are forwarded together at
   the end. *)
Fixpoint rib_loop {R P O} (filter : option (P -> bool * list out))
    (render : P -> out -> option O) (insert : R -> P -> R) (r : R) (ps : list P)
    : R * list P * list (down (list P) O) :=
  match ps with
  | [] => (r, [], [])
  | p :: ps' =>
      let '(acc, os) := match filter with Some f => f p | None => (true, []) end in
      let r1 := if acc then insert r p else r in
      let '(r2, res, ds) := rib_loop filter render insert r1 ps' in
      (r2, (if acc then [p] else []) ++ res, drain render p os ++ ds)
  end.

Definition rib_site {R P O} (filter : option (P -> bool * list out))
    (render : P -> out -> option O) (insert : R -> P -> R) (r : R) (ps : list P)
    : R * list (down (list P) O) :=
  let '(r', res, ds) := rib_loop filter render insert r ps in
  (r', ds ++ match res with [] => [] | _ => [DUpd res] end).

(* a whole session / a whole stream of updates: the call site applied to every
   item in turn *)
Fixpoint msg_run {S M U O} (flt : option (M -> bool * list out)) (render : M -> out -> option O)
    (process : S -> M -> S * list U) (s : S) (ms : list M) : S * list (down U O) :=
  match ms with
  | [] => (s, [])
  | m :: ms' =>
      let '(s1, ds) := msg_site flt render process s m in
      let '(s2, ds') := msg_run flt render process s1 ms' in
      (s2, ds ++ ds')
  end.

Fixpoint rib_run_site {R P O} (flt : option (P -> bool * list out)) (render : P -> out -> option O)
    (insert : R -> P -> R) (r : R) (us : list (list P)) : R * list (down (list P) O) :=
  match us with
  | [] => (r, [])
  | ps :: us' =>
      let '(r1, ds) := rib_site flt render insert r ps in
      let '(r2, ds') := rib_run_site flt render insert r1 us' in
      (r2, ds ++ ds')
  end.

(* ------------------------------------------------------------------ *)
(* How each call site turns an Output entry into an OutputStreamMessage.
   topic: 0 prefix, 1 community, 2 asn, 3 origin, 4 peerdown, 5 custom. *)
Inductive osm :=
| OsmTopic (topic : N) (route : option N) (ingress : N)   (* record = the route (rib unit) or nothing *)
| OsmPeerDown (peer_asn : N) (ingress : N)
| OsmCustom (a b : N) (ingress : N).

Definition render_common (route : option N) (ing : N) (o : out) : option osm :=
  match o with
  | EPrefix _ => Some (OsmTopic 0 route ing)
  | ECommunity _ => Some (OsmTopic 1 route ing)
  | EAsn _ => Some (OsmTopic 2 route ing)
  | EOrigin _ => Some (OsmTopic 3 route ing)
  | ECustom a b => Some (OsmCustom a b ing)
  | EPeerDown => None
  end.

(* rib unit and bgp-in: "Logged PeerDown from Rib unit, ignoring" *)
Definition render_rib (i : input) (o : out) : option osm := render_common (Some (in_pfx i)) (in_ingress i) o.
Definition render_bgp (i : input) (o : out) : option osm := render_common None (in_ingress i) o.
(* bmp-in: a PeerDown entry becomes a message only on a Peer Down Notification *)
Definition render_bmp (i : input) (o : out) : option osm :=
  match o with
  | EPeerDown =>
      if N.eqb (in_kind i) K_PEERDOWN
      then Some (OsmPeerDown (match in_pph_asn i with Some a => a | None => 0%N end) (in_ingress i))
      else None
  | _ => render_common None (in_ingress i) o
  end.

(* THE PROPERTY's reading: every entry becomes a message *)
Definition render_spec (route : option N) (i : input) (o : out) : option osm :=
  match o with
  | EPeerDown => Some (OsmPeerDown (match in_pph_asn i with Some a => a | None => in_peer_asn i end) (in_ingress i))
  | _ => render_common route (in_ingress i) o
  end.
Definition render_rib_spec (i : input) (o : out) : option osm := render_spec (Some (in_pfx i)) i o.
Definition render_msg_spec (i : input) (o : out) : option osm := render_spec None i o.

Definition renders_all {M O} (render : M -> out -> option O) (m : M) (os : list out) : Prop :=
  Forall (fun o => is_Some (render m o)) os.
