(* C10 - the call sites instantiated with the models of the units behind them:
   the RIB (Rib/RibModel.v) for rib-in-pre, the BMP session state machine
   (Bmp/BmpModel.v) for bmp-in, the explosion of an UPDATE for bgp-in.
   Definitions only. *)
From stdpp Require Import gmap.
From Coq Require Import NArith.
From RV Require Import Ingress.IngressModel Rib.RibModel Bmp.BmpModel Filter.FilterLang Filter.FilterGlue.

(* one exploded route as it reaches the RIB unit, with what a filter sees of it *)
Record fpay := MkFPay { fp_pay : payload; fp_in : input }.

Definition filter_fn {X} (lb : bool) (k : fkind) (view : X -> input) (flt : option prog)
  : option (X -> bool * list out) :=
  match flt with Some p => Some (fun x => eval_gen lb k p (view x)) | None => None end.

(* RibUnitRunner::process_update on Update::Bulk / Update::Single *)
Definition rib_unit (lb : bool) (render : input -> out -> option osm) (flt : option prog)
    (r : rib) (ps : list fpay) : rib * list (down (list fpay) osm) :=
  rib_site (filter_fn lb FRib fp_in flt) (fun fp => render (fp_in fp))
           (fun r fp => rib_insert_payload r (fp_pay fp)) r ps.

(* ---- the BMP messages a router can send (RFC 7854 section 4): the six the session state machine model knows
   and Route Mirroring (type 6), which the state machine ignores exactly as it ignores a Statistics Report
   (Dumping / Updating: `_ => mk_other_result()`; Initiating / Terminated: invalid) ---- *)
Inductive bmsg :=
| BMsg (m : msg)
| BMirror (p : pph).

Definition bmsg_sm (b : bmsg) : msg :=
  match b with BMsg m => m | BMirror p => MStats p end.

(* the per-peer header: every message type but Initiation and Termination has one *)
Definition msg_pph (m : msg) : option pph :=
  match m with MStats p | MPeerUp p _ | MPeerDown p | MRoute p _ => Some p | MInit | MTerm => None end.
Definition bmsg_pph (b : bmsg) : option pph :=
  match b with BMsg m => msg_pph m | BMirror p => Some p end.

Definition msg_kind (m : msg) : N :=
  match m with MRoute _ _ => K_RM | MStats _ => K_STATS | MPeerDown _ => K_PEERDOWN | MPeerUp _ _ => K_PEERUP
             | MInit => K_INIT | MTerm => K_TERM end.
Definition bmsg_kind (b : bmsg) : N :=
  match b with BMsg m => msg_kind m | BMirror _ => K_MIRROR end.

(* ---- Provenance (roto_runtime/types.rs): where an item came from. A script can read peer_asn; the ingress id
   goes onto the output messages; peer_ip is carried along. ---- *)
Record prov := MkProv { pv_ingress : N; pv_ip : N; pv_asn : N }.

(* bmp-in, read_from_router: one Provenance per TCP connection - the router's ingress id and address, AS0 *)
Definition conn_prov (rid addr : N) : prov := MkProv rid addr 0.
(* bgp-in, Processor::process: Provenance::for_bgp(session ingress id, negotiated remote address and AS), per UPDATE *)
Definition sess_prov (id addr asn : N) : prov := MkProv id addr asn.

(* bmp-in, process_msg: THE PROVENANCE THE FILTER IS HANDED. The connection's provenance, with peer address and
   peer AS overwritten from the per-peer header of the message if the message has one. *)
Definition bmp_prov (c : prov) (b : bmsg) : prov :=
  match bmsg_pph b with
  | Some p => MkProv (pv_ingress c) (ph_addr p) (ph_asn p)
  | None => c
  end.

(* RouterHandler::process_msg: the state machine step, and the routing update
   (if the step produced one) sent to the gate *)
Definition bmp_process (rid : N) (st : reg * sm) (m : bmsg * input) : (reg * sm) * list update :=
  let '(r', s', o) := sm_step st.1 rid st.2 (bmsg_sm m.1) in
  ((r', s'), match o with OUpdate u => [u] | _ => [] end).

Definition bmp_unit (lb : bool) (render : input -> out -> option osm) (flt : option prog) (rid : N)
    (st : reg * sm) (m : bmsg * input) : (reg * sm) * list (down update osm) :=
  msg_site (filter_fn lb FBmp snd flt) (fun mi => render mi.2) (bmp_process rid) st m.

(* ---- the same with the per-router counters of the connection handler (bmp_tcp_in/metrics.rs RouterMetrics):
   a message is counted as received (by RFC 7854 type) before the filter is called, as processed when the filter
   let it through to the state machine, as invalid when the state machine then refused it ---- *)
Record bcnt := MkCnt { bc_recv : N -> N; bc_proc : N; bc_inval : N }.
Definition cnt0 : bcnt := MkCnt (fun _ => 0%N) 0 0.
Definition cnt_recv (k : N) (c : bcnt) : bcnt :=
  MkCnt (fun j => if N.eqb j k then N.succ (bc_recv c j) else bc_recv c j) (bc_proc c) (bc_inval c).
Definition cnt_step (o : outcome) (c : bcnt) : bcnt :=
  MkCnt (bc_recv c) (N.succ (bc_proc c)) (match o with OInvalid => N.succ (bc_inval c) | _ => bc_inval c end).

Definition bmp_process_cnt (rid : N) (st : (reg * sm) * bcnt) (m : bmsg * input) : ((reg * sm) * bcnt) * list update :=
  let '(r', s', o) := sm_step st.1.1 rid st.1.2 (bmsg_sm m.1) in
  (((r', s'), cnt_step o st.2), match o with OUpdate u => [u] | _ => [] end).

Definition bmp_unit_cnt (lb : bool) (render : input -> out -> option osm) (flt : option prog) (rid : N)
    (st : (reg * sm) * bcnt) (m : bmsg * input) : ((reg * sm) * bcnt) * list (down update osm) :=
  msg_site (filter_fn lb FBmp snd flt) (fun mi => render mi.2) (bmp_process_cnt rid)
           (st.1, cnt_recv (bmsg_kind m.1) st.2) m.

(* a whole connection *)
Fixpoint bmp_run_cnt (lb : bool) (render : input -> out -> option osm) (flt : option prog) (rid : N)
    (st : (reg * sm) * bcnt) (ms : list (bmsg * input)) : ((reg * sm) * bcnt) * list (down update osm) :=
  match ms with
  | [] => (st, [])
  | m :: ms' =>
      let '(st1, ds) := bmp_unit_cnt lb render flt rid st m in
      let '(st2, ds') := bmp_run_cnt lb render flt rid st1 ms' in
      (st2, ds ++ ds')
  end.

(* does the filter (none = accept) let this message through? *)
Definition bmp_lets_through (lb : bool) (flt : option prog) (m : bmsg * input) : bool :=
  match flt with Some p => (eval_gen lb FBmp p m.2).1 | None => true end.

(* bgp-in: Processor::process, UpdateMessage arm: the explosion of the UPDATE
   into one Update::Bulk is the only effect (stateless) *)
Definition bgp_process (id : N) (_ : unit) (m : upd * input) : unit * list update :=
  (tt, [UBulk (payloads_of id m.1)]).
Definition bgp_unit (lb : bool) (render : input -> out -> option osm) (flt : option prog) (id : N)
    (m : upd * input) : list (down update osm) :=
  (msg_site (filter_fn lb FBgp snd flt) (fun mi => render mi.2) (bgp_process id) tt m).2.

(* ---- what the filter at each call site is handed (the input of FilterLang) ---- *)

(* rib-in-pre: the route only (the filter has no provenance argument); the ingress id on the output messages is
   the one of the provenance carried in the payload's context (RouteContext::Fresh and ::Mrt alike). A withdrawn
   route carries no attributes *)
Inductive pctx := CtxFresh | CtxMrt.     (* RouteContext::Reprocess is never built *)
Definition ctx_ingress (c : pctx) (k : rkey) : N :=
  match c with CtxFresh => k_mui k | CtxMrt => k_mui k end.
Definition rib_view_ctx (c : pctx) (k : rkey) (a : option fattrs) : input :=
  MkIn K_RM (k_pfx k) a 0 0 None 0 (ctx_ingress c k) false.
Definition rib_view (k : rkey) (a : option fattrs) : input := rib_view_ctx CtxFresh k a.

(* bgp-in: the UPDATE - whatever it carries - and the session's provenance; [legacy]: the peer did not send the
   4-octet AS number capability, its AS_PATHs are written with 2-octet AS numbers *)
Definition bgp_view (pv : prov) (u : upd) (a : fattrs) (legacy : bool) : input :=
  MkIn K_RM 0 (match n_ann u with 0%N => None | _ => Some a end) (n_ann u) (n_wd u) None (pv_asn pv) (pv_ingress pv) legacy.

(* bmp-in: the message and [bmp_prov]; the ingress id on output messages is the router connection's *)
Definition bmp_view (c : prov) (b : bmsg) (a : fattrs) (legacy : bool) : input :=
  let u := match b with BMsg (MRoute _ (Some u)) => Some u | _ => None end in
  let na := match u with Some u => n_ann u | None => 0%N end in
  let nw := match u with Some u => n_wd u | None => 0%N end in
  MkIn (bmsg_kind b) 0 (match na with 0%N => None | _ => Some a end) na nw
       (option_map ph_asn (bmsg_pph b))
       (pv_asn (bmp_prov c b)) (pv_ingress c) legacy.
