(* C10 - the call sites instantiated with the models of the units behind them:
   the RIB (Rib/RibModel.v) for rib-in-pre, the BMP session state machine
   (Bmp/BmpModel.v) for bmp-in, the explosion of an UPDATE for bgp-in.
   Definitions only. *)
From stdpp Require Import gmap.
From Coq Require Import NArith.
From RV Require Import Ingress.IngressModel Rib.RibModel Bmp.BmpModel Filter.FilterLang Filter.FilterGlue.

(* one exploded route as it reaches the RIB unit, with what a filter sees of it *)
Record fpay := MkFPay { fp_pay : payload; fp_in : input }.

Definition filter_fn {X} (lb : bool) (k : fkind) (view : X -> input) (flt : option prog)
  : option (X -> bool * list out) :=
  match flt with Some p => Some (fun x => eval_gen lb k p (view x)) | None => None end.

(* RibUnitRunner::process_update on Update::Bulk / Update::Single *)
Definition rib_unit (lb : bool) (render : input -> out -> option osm) (flt : option prog)
    (r : rib) (ps : list fpay) : rib * list (down (list fpay) osm) :=
  rib_site (filter_fn lb FRib fp_in flt) (fun fp => render (fp_in fp))
           (fun r fp => rib_insert_payload r (fp_pay fp)) r ps.

(* RouterHandler::process_msg: the state machine step, and the routing update
   (if the step produced one) sent to the gate *)
Definition bmp_process (rid : N) (st : reg * sm) (m : msg * input) : (reg * sm) * list update :=
  let '(r', s', o) := sm_step st.1 rid st.2 m.1 in
  ((r', s'), match o with OUpdate u => [u] | _ => [] end).

Definition bmp_unit (lb : bool) (render : input -> out -> option osm) (flt : option prog) (rid : N)
    (st : reg * sm) (m : msg * input) : (reg * sm) * list (down update osm) :=
  msg_site (filter_fn lb FBmp snd flt) (fun mi => render mi.2) (bmp_process rid) st m.

(* bgp-in: Processor::process, UpdateMessage arm: the explosion of the UPDATE
   into one Update::Bulk is the only effect (stateless) *)
Definition bgp_process (id : N) (_ : unit) (m : upd * input) : unit * list update :=
  (tt, [UBulk (payloads_of id m.1)]).
Definition bgp_unit (lb : bool) (render : input -> out -> option osm) (flt : option prog) (id : N)
    (m : upd * input) : list (down update osm) :=
  (msg_site (filter_fn lb FBgp snd flt) (fun mi => render mi.2) (bgp_process id) tt m).2.

(* ---- what the filter at each call site is handed (the input of FilterLang) ---- *)

(* rib-in-pre: the route; a withdrawn route carries no attributes *)
Definition rib_view (k : rkey) (a : option fattrs) : input :=
  MkIn K_RM (k_pfx k) a 0 0 None 0 (k_mui k) false.

(* bgp-in: the UPDATE and the session's provenance *)
Definition bgp_view (id peer_asn : N) (u : upd) (a : fattrs) : input :=
  MkIn K_RM 0 (match n_ann u with 0%N => None | _ => Some a end) (n_ann u) (n_wd u) None peer_asn id false.

(* bmp-in: the message; process_msg overwrites the peer AS of the connection
   level provenance (AS0) with the one of the per-peer header, if any; the
   ingress id on output messages is the router connection's *)
Definition msg_pph (m : msg) : option pph :=
  match m with MStats p | MPeerUp p _ | MPeerDown p | MRoute p _ => Some p | MInit | MTerm => None end.
Definition msg_kind (m : msg) : N :=
  match m with MRoute _ _ => K_RM | MStats _ => K_STATS | MPeerDown _ => K_PEERDOWN | MPeerUp _ _ => K_PEERUP
             | MInit => K_INIT | MTerm => K_TERM end.
Definition bmp_view (rid : N) (m : msg) (a : fattrs) (legacy : bool) : input :=
  let u := match m with MRoute _ (Some u) => Some u | _ => None end in
  let na := match u with Some u => n_ann u | None => 0%N end in
  let nw := match u with Some u => n_wd u | None => 0%N end in
  MkIn (msg_kind m) 0 (match na with 0%N => None | _ => Some a end) na nw
       (option_map ph_asn (msg_pph m))
       (match msg_pph m with Some p => ph_asn p | None => 0%N end) rid legacy.
