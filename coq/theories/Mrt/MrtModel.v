(* Model of the mrt-file-in unit (src/units/mrt_file_in/unit.rs): process_file
   (peer index table -> one fresh ingress id per entry; RIB records -> one
   Update::Single per entry; then the BGP4MP records: UPDATE -> find-or-register
   the peer under the unit's id, Update::Bulk; Established->Idle state change ->
   Update::Withdraw of the found id), the sequential queue loop of
   MrtInRunner::run, composed with the RIB model. Next to it the PROPERTY's
   reading of a queue of files: an ideal RIB keyed by the peer as it is named in
   the file (address, AS). Definitions only. *)
From stdpp Require Import gmap.
From Coq Require Import NArith.
From RV Require Import Ingress.IngressModel Rib.RibModel Bmp.BmpModel.

(* a peer as MRT names it: (address, AS). BGP4MP MESSAGE and MESSAGE_AS4 (and the
   _ET forms) are converted to one form by the code (msg.into()), so the model
   has one record kind for them; likewise STATE_CHANGE / STATE_CHANGE_AS4. *)
Definition mpeer := (N * N)%type.

Inductive bgpmsg :=
| BUpdate (u : upd)    (* a BGP UPDATE, exploded by explode_withdrawals / explode_announcements *)
| BSkip                (* OPEN / KEEPALIVE / NOTIFICATION / ROUTE-REFRESH, or bytes bgp_msg() rejects: logged, skipped *)
| BBad.                (* an UPDATE that cannot be taken apart: bgp_msg() lets the octets through (routecore checks the
                          framing and the conventional fields there), but explode_announcements or explode_withdrawals
                          returns an error (an NLRI inside MP_REACH_NLRI / MP_UNREACH_NLRI that does not parse, path
                          attributes that do not parse). Both are called before anything is looked up, registered or
                          sent; process_message returns the error and - since the repair of process_file - that record
                          is logged and skipped like BSkip: nothing of it is applied, the file goes on. *)

Inductive mrec :=
| RPit (peers : list mpeer)                 (* TABLE_DUMP_V2 PEER_INDEX_TABLE *)
| RRib (fam pfx : N) (es : list (N * N))    (* RIB_IPV4_UNICAST (fam 0) / RIB_IPV6_UNICAST (fam 1): (peer index, attributes) *)
| RMsg (p : mpeer) (m : bgpmsg)             (* BGP4MP(_ET) MESSAGE / MESSAGE_AS4 *)
| RState (p : mpeer) (old new : N)          (* BGP4MP(_ET) STATE_CHANGE / STATE_CHANGE_AS4; states as in RFC 4271: 1 Idle .. 6 Established *)
| ROther.                                   (* a TABLE_DUMP_V2 record of another subtype (multicast, generic) *)

Inductive mfile :=
| FGood (name : N) (recs : list mrec)       (* a readable file (plain, gzip or bzip2: decoded before parsing) *)
| FBad.                                     (* cannot be opened / mapped / decompressed: process_file returns the error *)

(* the ingress queries of the unit *)
Definition mrt_query (parent : N) (p : mpeer) : info :=
  MkInfo None (Some parent) (Some p.1) (Some p.2) None None None None.
Definition dump_info (parent file : N) (p : mpeer) : info :=
  MkInfo None (Some parent) (Some p.1) (Some p.2) None (Some file) None None.

(* unit.rs:357-369: one FRESH id per peer index entry, per file *)
Fixpoint reg_peers (r : reg) (parent file : N) (ps : list mpeer) : reg * list N :=
  match ps with
  | [] => (r, [])
  | p :: ps' =>
      let '(id, r1) := reg_register r in
      let r2 := reg_update_info r1 id (dump_info parent file p) in
      let '(r3, ids) := reg_peers r2 parent file ps' in
      (r3, id :: ids)
  end.

(* SStop: routecore's iterator panics (unwrap / todo!()); since the repair of the
   queue loop this ends the file like an error does *)
Inductive fstatus := SOk | SStop.

Definition single (fam pfx id a : N) : update := UBulk [MkPay (fam, pfx, id) true a].

(* the entries of one RIB record; an index beyond the table stops the file *)
Fixpoint rib_singles (ids : list N) (fam pfx : N) (es : list (N * N)) : list update * fstatus :=
  match es with
  | [] => ([], SOk)
  | e :: es' =>
      match ids !! N.to_nat e.1 with
      | Some id => let '(us, st) := rib_singles ids fam pfx es' in (single fam pfx id e.2 :: us, st)
      | None => ([], SStop)
      end
  end.

(* RibEntryIterator over the records after the table: only non-empty unicast RIB
   records are survived *)
Fixpoint dump_walk (ids : list N) (recs : list mrec) : list update * fstatus :=
  match recs with
  | [] => ([], SOk)
  | RRib fam pfx (e :: es) :: rest =>
      if (fam <? 2)%N then
        let '(us, st) := rib_singles ids fam pfx (e :: es) in
        match st with
        | SOk => let '(us', st') := dump_walk ids rest in (us ++ us', st')
        | SStop => (us, SStop)
        end
      else ([], SStop)
  | _ :: _ => ([], SStop)
  end.

(* process_message / process_state_change for one record of mrt_file.messages();
   table-dump records are skipped by that iterator *)
Definition msg_step (parent : N) (r : reg) (rc : mrec) : reg * list update :=
  match rc with
  | RMsg p (BUpdate u) =>
      let '(id, r') := find_or_register peer_match r (mrt_query parent p) in
      (r', [UBulk (payloads_of id u)])
  | RState p old new =>
      if (N.eqb old 6 && N.eqb new 1)%bool then
        match reg_find_peers r (mrt_query parent p) with
        | id :: _ => (r, [UWithdraw id None])
        | [] => (r, [])
        end
      else (r, [])
  | _ => (r, [])
  end.

Fixpoint msgs_walk (parent : N) (r : reg) (recs : list mrec) : reg * list update :=
  match recs with
  | [] => (r, [])
  | rc :: rest =>
      let '(r1, us) := msg_step parent r rc in
      let '(r2, us') := msgs_walk parent r1 rest in
      (r2, us ++ us')
  end.

(* The messages part as it was before the repair: `process_message(..).await?` in process_file handed the error of
   an UPDATE that cannot be taken apart on, so the file ended there - what was applied stayed, what lay behind the
   record was never looked at (the queue went on with the next file). Kept for the statement of the repaired defect. *)
Fixpoint msgs_walk_old (parent : N) (r : reg) (recs : list mrec) : reg * list update * fstatus :=
  match recs with
  | [] => (r, [], SOk)
  | RMsg _ BBad :: _ => (r, [], SStop)
  | rc :: rest =>
      let '(r1, us) := msg_step parent r rc in
      let '(r2, us', st) := msgs_walk_old parent r1 rest in
      (r2, us ++ us', st)
  end.
Definition rec_bad (rc : mrec) : bool := match rc with RMsg _ BBad => true | _ => false end.

(* process_file: the dump part runs iff the first record is a peer index table *)
Definition process_file (parent : N) (r : reg) (f : mfile) : reg * list update * fstatus :=
  match f with
  | FBad => (r, [], SStop)
  | FGood name recs =>
      match recs with
      | RPit ps :: rest =>
          let '(r1, ids) := reg_peers r parent name ps in
          let '(us, st) := dump_walk ids rest in
          match st with
          | SStop => (r1, us, SStop)
          | SOk => let '(r2, us') := msgs_walk parent r1 recs in (r2, us ++ us', SOk)
          end
      | _ => let '(r2, us) := msgs_walk parent r recs in (r2, us, SOk)
      end
  end.

(* MrtInRunner::run: the queue is consumed one file after another *)
Fixpoint queue_run (parent : N) (r : reg) (fs : list mfile) : reg * list update :=
  match fs with
  | [] => (r, [])
  | f :: fs' =>
      let '(r1, us, _) := process_file parent r f in
      let '(r2, us') := queue_run parent r1 fs' in
      (r2, us ++ us')
  end.

(* MrtFileIn::run: the unit registers itself (name, description) *)
Definition unit_info : info := MkInfo (Some 0%N) None None None None None None (Some 0%N).
Definition unit_start : N * reg :=
  let '(id, r) := reg_register reg_new in (id, reg_update_info r id unit_info).

Definition import_updates (fs : list mfile) : list update :=
  (queue_run unit_start.1 unit_start.2 fs).2.
(* the RIB unit behind the gate *)
Definition import (fs : list mfile) : rib := rib_run (import_updates fs).

(* what a query shows, per peer as the file names it: an entry under ingress id i
   is shown for the (address, AS) the register holds for i *)
Definition peer_of (r : reg) (id : N) : option mpeer :=
  match infos r !! id with
  | Some i => match i_addr i, i_asn i with Some a, Some s => Some (a, s) | _, _ => None end
  | None => None
  end.

(* ------------------------------------------------------------------ *)
(* The queue holds NAMES, not contents. An entry is the path of a file: the paths of the configured `filename`
   list as they are (MrtFileIn::run sends them to the queue before the loop starts), and for the HTTP endpoint
   update_path joined with the relative path of the request, canonicalised (api.rs, Processor::queue) - a path of
   plain components below update_path names itself, every component of it, not its last one. When an entry's turn
   comes the loop opens whatever the path holds THEN and imports it - whether or not the same path, or the same
   octets under another path, went through the queue before (the loop keeps nothing about the files it has taken;
   `processed` in the outer loop is a log). fstore = the directory tree as the unit sees it: the binding written
   last for a path is what the path holds; a path that holds nothing readable is FBad. *)
Definition mpath := list N.
Definition fstore := list (mpath * mfile).
Definition store_write (fsys : fstore) (p : mpath) (f : mfile) : fstore := (p, f) :: fsys.
Fixpoint resolve (fsys : fstore) (p : mpath) : mfile :=
  match fsys with
  | [] => FBad
  | e :: rest => if bool_decide (e.1 = p) then e.2 else resolve rest p
  end.
Definition queue_files (fsys : fstore) (ps : list mpath) : list mfile := map (resolve fsys) ps.

(* the unit's register and the RIB behind its gate; one queue entry's effect on them *)
Definition qstate := (reg * rib)%type.
Definition entry_step (parent : N) (fsys : fstore) (s : qstate) (p : mpath) : qstate :=
  let '(r1, us, _) := process_file parent s.1 (resolve fsys p) in
  (r1, fold_left rib_apply us s.2).

(* ------------------------------------------------------------------ *)
(* The property's reading: routes belong to the peer the file names. *)
Definition irib := gmap (N * N * mpeer) (bool * N).     (* (family, prefix, peer) -> (active, attributes) *)

Definition i_ann (rb : irib) (p : mpeer) (f x a : N) : irib := <[ (f, x, p) := (true, a) ]> rb.
Definition i_wd (rb : irib) (p : mpeer) (f x : N) : irib :=
  match rb !! (f, x, p) with Some (_, a) => <[ (f, x, p) := (false, a) ]> rb | None => rb end.
Definition i_down (rb : irib) (p : mpeer) : irib :=
  map_imap (fun k v => if bool_decide (k.2 = p) then Some (false, v.2) else Some v) rb.
(* RFC 4271 4.3: withdrawn routes first, then the NLRI *)
Definition i_update (rb : irib) (p : mpeer) (u : upd) : irib :=
  match u with
  | UEor _ => rb
  | URoutes af ann a wf wd =>
      fold_left (fun rb x => i_ann rb p af x a) ann (fold_left (fun rb x => i_wd rb p wf x) wd rb)
  | UGen _ _ _ ann a wd =>
      fold_left (fun rb (x : N * N) => i_ann rb p x.1 x.2 a) ann (fold_left (fun rb (x : N * N) => i_wd rb p x.1 x.2) wd rb)
  end.

Definition i_rec (pit : list mpeer) (rb : irib) (rc : mrec) : irib :=
  match rc with
  | RRib fam pfx es =>
      if (fam <? 2)%N then
        fold_left (fun rb (e : N * N) => match pit !! N.to_nat e.1 with Some p => i_ann rb p fam pfx e.2 | None => rb end) es rb
      else rb
  | RMsg p (BUpdate u) => i_update rb p u
  | RState p old new => if (N.eqb old 6 && N.eqb new 1)%bool then i_down rb p else rb
  | _ => rb
  end.

Definition pit_of (recs : list mrec) : list mpeer :=
  match recs with RPit ps :: _ => ps | _ => [] end.

Definition i_file (rb : irib) (f : mfile) : irib :=
  match f with
  | FBad => rb
  | FGood _ recs => fold_left (i_rec (pit_of recs)) recs rb
  end.

Definition i_import (fs : list mfile) : irib := fold_left i_file fs ∅.

Definition i_entries (rb : irib) (fam pfx : N) : list (mpeer * bool * N) :=
  omap (fun kv : (N * N * mpeer) * (bool * N) =>
          if bool_decide (kv.1.1.1 = fam /\ kv.1.1.2 = pfx) then Some (kv.1.2, kv.2.1, kv.2.2) else None)
       (map_to_list rb).

(* Rib::match_prefix consults the multicast store only when the unicast answer is empty (RibModel.rib_query, the
   semantics of the query as C11 records it); the property's reading is asked the same way *)
Definition i_query (rb : irib) (af pfx : N) : list (mpeer * bool * N) :=
  match i_entries rb af pfx with [] => i_entries rb (af + 2)%N pfx | l => l end.

(* ------------------------------------------------------------------ *)
(* shapes of files used in the statements *)

(* a dump as bview files are: table first, then only non-empty v4/v6 unicast RIB
   records whose entries index into the table *)
Definition entry_ok (n : nat) (e : N * N) : bool := bool_decide (N.to_nat e.1 < n)%nat.
Definition rib_rec_ok (n : nat) (rc : mrec) : bool :=
  match rc with
  | RRib fam pfx (e :: es) => (fam <? 2)%N && forallb (entry_ok n) (e :: es)
  | _ => false
  end.
Definition dump_ok (recs : list mrec) : bool :=
  match recs with RPit ps :: rest => forallb (rib_rec_ok (length ps)) rest | _ => false end.

(* an update file: no table in front *)
Definition update_file (f : mfile) : bool :=
  match f with FGood _ (RPit _ :: _) => false | _ => true end.

(* the Singles a dump's records stand for, given the ids of the table's entries *)
Definition dump_singles (ids : list N) (rc : mrec) : list update :=
  match rc with
  | RRib fam pfx es => omap (fun e : N * N => match ids !! N.to_nat e.1 with Some id => Some (single fam pfx id e.2) | None => None end) es
  | _ => []
  end.

(* register operations (IngressModel.op) an update file performs *)
Definition rec_ops (parent : N) (rc : mrec) : list op :=
  match rc with RMsg p (BUpdate _) => [OForPeer (mrt_query parent p)] | _ => [] end.
Definition file_ops (parent : N) (f : mfile) : list op :=
  match f with FGood _ recs => flat_map (rec_ops parent) recs | FBad => [] end.

(* the ids a peer index table of n entries gets when the counter stands at s *)
Fixpoint nseq (s : N) (n : nat) : list N :=
  match n with O => [] | S n' => s :: nseq (s + 1)%N n' end.

(* ---- queues in which every peer-index entry names a peer that has no id yet ---- *)
Definition dump_op (parent file : N) (p : mpeer) : op := OForPeer (dump_info parent file p).
(* freshness of the table's peers, entry after entry *)
Fixpoint peers_fresh (parent file : N) (r : reg) (ps : list mpeer) : Prop :=
  match ps with
  | [] => True
  | p :: ps' => reg_find_peers r (mrt_query parent p) = [] /\
                peers_fresh parent file (step r (dump_op parent file p)).1 ps'
  end.
Definition file_fresh (parent : N) (r : reg) (f : mfile) : Prop :=
  match f with FGood name (RPit ps :: _) => peers_fresh parent name r ps | _ => True end.
Fixpoint queue_fresh (parent : N) (r : reg) (fs : list mfile) : Prop :=
  match fs with
  | [] => True
  | f :: fs' => file_fresh parent r f /\ queue_fresh parent (process_file parent r f).1.1 fs'
  end.
(* the register operations of any file *)
Definition all_ops (parent : N) (f : mfile) : list op :=
  match f with
  | FGood name (RPit ps :: _) => map (dump_op parent name) ps
  | _ => file_ops parent f
  end.

(* ------------------------------------------------------------------ *)
(* C06: a hostile file. Whatever its octets are, routecore's MrtFile iterators present
   process_file with one of two things: nothing at all (the file cannot be opened, mapped or
   decompressed: the error is returned before a record is looked at), or the records up to the
   point where the parser stops - a truncated or unsupported header makes CommonHeader::parse
   fail (UpdateIterator fuses, RibEntryIterator unwraps and panics inside the per-file task), an
   unknown BGP4MP subtype reaches todo!(). What lies behind that point is never looked at. *)
Inductive hfile :=
| HUnreadable
| HStops (name : N) (recs : list mrec) (k : nat).    (* the parser gets through the first k records of recs *)

Definition file_of_hfile (h : hfile) : mfile :=
  match h with HUnreadable => FBad | HStops name recs k => FGood name (take k recs) end.
(* the file the parser would have read had it not stopped *)
Definition whole_of_hfile (h : hfile) : mfile :=
  match h with HUnreadable => FBad | HStops name recs _ => FGood name recs end.
