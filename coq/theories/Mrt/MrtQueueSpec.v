(* C16, whole queues: the class predicates of the recorded findings read off the FILES of a queue, and the
   example queue of Props_C16. Definitions only (nothing here is extracted); proofs are in MrtQueueRefine.v. *)
From stdpp Require Import gmap.
From Coq Require Import NArith.
From RV Require Import Ingress.IngressModel Rib.RibModel Bmp.BmpModel Mrt.MrtModel.
Local Open Scope N_scope.

(* ---- known finding C16-2 (class KP): a file with a peer index table in front in which routecore's
   RibEntryIterator stops. file_ok = the file is not of that kind: it has no table in front (update file,
   unreadable file, empty file), or what follows the table is what the iterator gets through (dump_ok:
   non-empty IPv4/IPv6 unicast RIB records whose entries index into the table). ---- *)
Definition file_ok (f : mfile) : bool :=
  match f with FGood _ (RPit ps :: rest) => dump_ok (RPit ps :: rest) | _ => true end.

(* ---- known finding C16-1 (class KD): a peer-index entry names a peer (address, AS) that was named before - by an
   earlier entry of the same table, by the table of an earlier queue entry (the same dump file again included), or
   by a BGP4MP UPDATE of an earlier update file - and so gets a second ingress id. names_once = no such entry. ---- *)
Definition rec_peer (rc : mrec) : list mpeer := match rc with RMsg p (BUpdate _) => [p] | _ => [] end.
(* the peers a file makes the unit look up or register *)
Definition file_names (f : mfile) : list mpeer :=
  match f with
  | FGood _ (RPit ps :: _) => ps
  | FGood _ recs => flat_map rec_peer recs
  | FBad => []
  end.
Fixpoint fresh_peers (seen ps : list mpeer) : bool :=
  match ps with
  | [] => true
  | p :: ps' => negb (bool_decide (p ∈ seen)) && fresh_peers (p :: seen) ps'
  end.
Definition table_fresh (seen : list mpeer) (f : mfile) : bool :=
  match f with FGood _ (RPit ps :: _) => fresh_peers seen ps | _ => true end.
Fixpoint names_once (seen : list mpeer) (fs : list mfile) : bool :=
  match fs with
  | [] => true
  | f :: fs' => table_fresh seen f && names_once (file_names f ++ seen) fs'
  end.

(* ---- known finding C16-3 = C03-1 (class K3), for peer x holding id i: a session-wide withdrawal hit (family, i)
   at some time (Established->Idle in the MRT stream) and the ideal RIB reports the route active. ---- *)
Definition k3_class (fs : list mfile) (x : mpeer) (i f p : N) : bool :=
  downed (evs_of (import_updates fs)) (f, p, i) &&
  match i_import fs !! (f, p, x) with Some (true, _) => true | _ => false end.

(* ---- the example queue: a dump of two peers (v4 and v6 entries), an update file (replacement, an
   Established->Idle of the other peer, a withdrawal, a peer the dump does not know, an announcement of the peer
   that went down), an unreadable entry, and the update file AGAIN ---- *)
Definition ex_p1 : mpeer := (1, 65001).
Definition ex_p2 : mpeer := (101, 65003).
Definition ex_p3 : mpeer := (7, 65007).
Definition ex_dump : mfile := FGood 0 [RPit [ex_p1; ex_p2]; RRib 0 5 [(0, 3); (1, 4)]; RRib 1 7 [(1, 9)]].
Definition ex_upd : mfile :=
  FGood 1 [RMsg ex_p1 (BUpdate (URoutes 0 [5; 6] 8 0 [])); RState ex_p2 6 1;
           RMsg ex_p1 (BUpdate (URoutes 0 [] 0 0 [6])); RMsg ex_p3 (BUpdate (URoutes 0 [5] 2 0 []));
           RMsg ex_p2 (BUpdate (URoutes 1 [8] 6 0 []))].
Definition ex_store : fstore := [([1], ex_dump); ([2; 0], ex_upd)].
Definition ex_queue : list mpath := [[1]; [2; 0]; [9]; [2; 0]].
