(* Proofs about the wire-level feeding of the MRT unit (MrtRaw.v). *)
From stdpp Require Import gmap.
From Coq Require Import NArith Lia.
From RV Require Import Ingress.IngressModel Ingress.IngressProofs Rib.RibModel Bmp.BmpModel Pipe.PipeRaw
  Mrt.MrtModel Mrt.MrtProofs Mrt.MrtRaw.
From RV Require Bgp.BgpModel.

Local Open Scope N_scope.

(* the Bulk of a decoded UPDATE = its route events, withdrawals first (as Pipe/PipeRawProofs.v has it for the
   BMP / BGP paths; proved again here so that this file does not pull in the pipeline's simulation proof) *)
Lemma filter_map_true {A B} (f : A -> B) (P : B -> bool) l : (forall x, P (f x) = true) -> List.filter P (map f l) = map f l.
Proof. intros H. induction l as [|x l IH]; [reflexivity|]. cbn [map List.filter]. rewrite H, IH. reflexivity. Qed.
Lemma filter_map_false {A B} (f : A -> B) (P : B -> bool) l : (forall x, P (f x) = false) -> List.filter P (map f l) = [].
Proof. intros H. induction l as [|x l IH]; [reflexivity|]. cbn [map List.filter]. rewrite H, IH. reflexivity. Qed.

Lemma events_split u :
  List.filter is_evw (BgpModel.events u) = map (fun fp => BgpModel.EvW fp.1 fp.2) (wd_routes u) /\
  List.filter (fun e => negb (is_evw e)) (BgpModel.events u) = map (fun fp => BgpModel.EvA fp.1 fp.2 (BgpModel.u_attrs u)) (ann_routes u).
Proof.
  unfold BgpModel.events. fold (ann_routes u). fold (wd_routes u). rewrite !List.filter_app. split.
  - rewrite filter_map_false, filter_map_true by reflexivity. reflexivity.
  - rewrite filter_map_true, filter_map_false by reflexivity. rewrite app_nil_r. reflexivity.
Qed.

Lemma raw_bulk id u : payloads_of id (upd_of_update u) = bulk_of_events id (BgpModel.events u).
Proof.
  unfold bulk_of_events. destruct (events_split u) as [-> ->]. unfold upd_of_update. cbn [payloads_of].
  rewrite map_app, !map_map. reflexivity.
Qed.

(* every route event is in the Bulk exactly as often as the UPDATE has it, and nothing else is *)
Lemma bulk_perm id evs : bulk_of_events id evs ≡ₚ map (pay_of_ev id) evs.
Proof.
  unfold bulk_of_events. apply fmap_Permutation.
  induction evs as [|e l IH]; [reflexivity|]. cbn [List.filter].
  destruct (is_evw e); cbn [negb app].
  - apply Permutation_skip, IH.
  - rewrite <- Permutation_middle. apply Permutation_skip, IH.
Qed.

Lemma bulk_mui id evs x : x ∈ bulk_of_events id evs -> k_mui (p_key x) = id.
Proof.
  unfold bulk_of_events. intros Hx. apply elem_of_list_fmap in Hx as (e & -> & _). destruct e; reflexivity.
Qed.

(* All or nothing, on the octets of the file: an UPDATE that C04's decoder does not take apart contributes
   nothing at all - no update leaves the gate, the register is as it was; one that decodes leaves as ONE Bulk
   that holds every route event of the UPDATE (withdrawals first), all under the id that from then on is the
   only answer for the peer. There is no third case. *)
Theorem raw_all_or_nothing parent r p bytes :
  Below r -> PeerUnique r ->
  match BgpModel.decode BgpModel.Code bytes with
  | None => msg_step parent r (raw_rec p bytes) = (r, [])
  | Some u =>
      exists id r', msg_step parent r (raw_rec p bytes) = (r', [UBulk (bulk_of_events id (BgpModel.events u))]) /\
        bulk_of_events id (BgpModel.events u) ≡ₚ map (pay_of_ev id) (BgpModel.events u) /\
        answers r' (mrt_query parent p) id /\
        (forall x, x ∈ bulk_of_events id (BgpModel.events u) -> k_mui (p_key x) = id)
  end.
Proof.
  intros HB HU. unfold raw_rec, raw_msg, raw_upd.
  destruct (BgpModel.decode BgpModel.Code bytes) as [u|]; [|reflexivity].
  destruct (msg_update_attributed parent r p (upd_of_update u) HB HU) as (id & r' & Hs & Ha & _).
  exists id, r'. rewrite Hs, raw_bulk. split; [reflexivity|]. split; [apply bulk_perm|]. split; [exact Ha|].
  intros x. apply bulk_mui.
Qed.

(* the record of an UPDATE that does not decode is as if it were not in the file: same update stream, same
   register, same RIB, same reading of the property - for any queue around the file *)
Theorem raw_undecodable_changes_nothing bytes fs1 name rc recs1 p recs2 fs2 :
  BgpModel.decode BgpModel.Code bytes = None ->
  update_file (FGood name (rc :: recs1 ++ recs2)) = true ->
  queue_run unit_start.1 unit_start.2 (fs1 ++ FGood name (rc :: recs1 ++ raw_rec p bytes :: recs2) :: fs2) =
    queue_run unit_start.1 unit_start.2 (fs1 ++ FGood name (rc :: recs1 ++ recs2) :: fs2) /\
  import (fs1 ++ FGood name (rc :: recs1 ++ raw_rec p bytes :: recs2) :: fs2) =
    import (fs1 ++ FGood name (rc :: recs1 ++ recs2) :: fs2) /\
  i_import (fs1 ++ FGood name (rc :: recs1 ++ raw_rec p bytes :: recs2) :: fs2) =
    i_import (fs1 ++ FGood name (rc :: recs1 ++ recs2) :: fs2).
Proof.
  intros Hd Hu. unfold raw_rec, raw_msg, raw_upd. rewrite Hd.
  split; [apply bad_update_queue, Hu|].
  destruct (bad_update_changes_nothing fs1 name rc recs1 p recs2 fs2 Hu) as (_ & H2 & H3). split; assumption.
Qed.

(* the half-malformed UPDATEs: C04's decoder rejects both; a file that holds them between two good UPDATEs
   imports exactly the two good ones *)
Definition half_file : mfile :=
  FGood 0 [raw_rec pA raw_good; raw_rec pA raw_half_unreach; raw_rec pA raw_half_reach; raw_rec pA raw_good].

Lemma half_example :
  BgpModel.decode BgpModel.Code raw_half_unreach = None /\
  BgpModel.decode BgpModel.Code raw_half_reach = None /\
  (exists a, raw_upd raw_good = Some (UGen None true 0 [(0, pfx_10_9_8)] a [(0, pfx_10_9_9)]) /\
     import_updates [half_file] =
       [UBulk [MkPay (0, pfx_10_9_9, 2) false 0; MkPay (0, pfx_10_9_8, 2) true a];
        UBulk [MkPay (0, pfx_10_9_9, 2) false 0; MkPay (0, pfx_10_9_8, 2) true a]] /\
     rib_entries (import [half_file]) 0 pfx_10_9_8 = [(2, true, a)] /\
     i_entries (i_import [half_file]) 0 pfx_10_9_8 = [(pA, true, a)]) /\
  rib_entries (import [half_file]) 0 pfx_10_9_9 = [] /\
  i_entries (i_import [half_file]) 0 pfx_10_9_9 = [].
Proof. vm_compute. repeat split; try reflexivity. eexists. repeat split; reflexivity. Qed.
