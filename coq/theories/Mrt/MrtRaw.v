(* The mrt-file-in unit fed with UPDATEs as they are in the file: the octets of the BGP message inside a
   BGP4MP MESSAGE / MESSAGE_AS4 record are interpreted through the independent codec of C04
   (Bgp/BgpModel.v, by way of Pipe/PipeRaw.v: decode, injective numbering of wire prefixes and
   attribute lists) and become an ordinary record of MrtModel. Definitions only.

   - An UPDATE that decodes is [BUpdate] of the general form [UGen]: process_message sends every
     route event of it as one payload of ONE Bulk, withdrawals first.
   - An UPDATE that does not decode is [BBad]: whichever of bgp_msg(), explode_announcements,
     explode_withdrawals reports it, nothing of it is applied - all or nothing. (Which of the three
     it is cannot be seen since the repair of process_file: each is logged and the file goes on.) *)
From stdpp Require Import gmap.
From Coq Require Import NArith.
From RV Require Import Ingress.IngressModel Rib.RibModel Bmp.BmpModel Pipe.PipeRaw Mrt.MrtModel.
From RV Require Bgp.BgpModel.

Local Open Scope N_scope.

Definition raw_msg (bytes : list N) : bgpmsg :=
  match raw_upd bytes with Some u => BUpdate u | None => BBad end.
Definition raw_rec (p : mpeer) (bytes : list N) : mrec := RMsg p (raw_msg bytes).

(* the Bulk process_message builds from the route events of an UPDATE: explode_withdrawals first,
   then explode_announcements (RFC 4271 4.3), in the order routecore walks them *)
Definition bulk_of_events (id : N) (evs : list BgpModel.ev) : list payload :=
  map (pay_of_ev id) (List.filter is_evw evs ++ List.filter (fun e => negb (is_evw e)) evs).

(* named values of the statements: UPDATEs that are malformed in exactly one half.
   10.9.8.0/24 in the conventional NLRI field next to an MP_UNREACH_NLRI (IPv6 unicast) that holds
   2001:db8:0:1::/64 and then a prefix of 200 bits *)
Definition raw_attrs_v4 : list N := [64;1;1;0; 64;2;6;2;1;0;0;253;233; 64;3;4;192;0;2;1].
Definition raw_good_v6 : list N := [64; 32;1;13;184;0;0;0;1].
Definition raw_half_unreach : list N :=
  BgpModel.hex_pdu ([0;0; 0;36] ++ raw_attrs_v4 ++ [128;15;13; 0;2;1] ++ raw_good_v6 ++ [200] ++ [24;10;9;8]).
(* 10.9.9.0/24 in the withdrawn routes field next to an MP_REACH_NLRI (IPv6 unicast) whose second NLRI has 200 bits *)
Definition raw_half_reach : list N :=
  BgpModel.hex_pdu ([0;4; 24;10;9;9; 0;47] ++ [64;1;1;0; 64;2;6;2;1;0;0;253;233] ++
                    [128;14;31; 0;2;1; 16; 32;1;13;184;0;0;0;0;0;0;0;0;0;0;0;1; 0] ++ raw_good_v6 ++ [200]).
(* a good one: withdraws 10.9.9.0/24, announces 10.9.8.0/24 *)
Definition raw_good : list N :=
  BgpModel.hex_pdu ([0;4; 24;10;9;9; 0;20] ++ raw_attrs_v4 ++ [24;10;9;8]).
Definition pfx_10_9_8 : N := pfx_code (BgpModel.MkPfx 24 [10;9;8]).
Definition pfx_10_9_9 : N := pfx_code (BgpModel.MkPfx 24 [10;9;9]).
