(* C16: refinement of the WHOLE QUEUE to the property's per-peer ideal RIB.
   For every file store and every queue of entries (dump files, update files, unreadable files, in any
   order, repeats included) the RIB the model of the code ends with answers every (peer, prefix) query
   like `i_import` - the fold of `i_file` over the entries - under hypotheses that exclude the recorded
   finding classes and nothing else (class predicates: MrtQueueSpec.v):
     C16-1 / class KD - a peer-index entry names a peer that has an id already: `queue_fresh` (MrtModel.v, a
       statement about the register) = `names_once` (a statement about the files; `names_once_is_fresh`);
     C16-2 / class KP - a file with a table in front in which the RibEntryIterator stops: `file_ok`;
   and UP TO C16-3 = C03-1 / class K3 (the sticky session-wide marker: the factor `negb (downed ..)`, as in
   Pipe/PipeCompose.v for the BMP pipeline; `k3_class`).
   Method: a coupling invariant (`Coupled`) between the register, the last-event reading of what left the gate
   (RibModel.spec_lookup, per ingress id) and the ideal RIB (per peer), kept by every elementary step
   (announce / withdraw / Established->Idle / find-or-register), lifted to records, files, queues; the RIB itself
   comes in at the end through RibProofs.rib_lookup_spec. Proofs only. *)
From stdpp Require Import gmap.
From Coq Require Import NArith Lia.
From RV Require Import Ingress.IngressModel Ingress.IngressProofs Rib.RibModel Rib.RibProofs
  Bmp.BmpModel Bmp.BmpProofs Mrt.MrtModel Mrt.MrtProofs Mrt.MrtQueueSpec.
Local Open Scope N_scope.
Arguments N.add : simpl never.
Arguments N.sub : simpl never.
Arguments N.eqb : simpl never.
Arguments N.ltb : simpl never.
Arguments N.leb : simpl never.

(* ------------------------------------------------------------------ *)
(* who owns an id *)

Definition owns (parent : N) (r : reg) (x : mpeer) (i : N) : Prop :=
  i ∈ reg_find_peers r (mrt_query parent x).

Lemma owner_unique parent r x y i : owns parent r x i -> owns parent r y i -> x = y.
Proof.
  unfold owns, reg_find_peers. rewrite !elem_of_find_all.
  intros (inf & Hl & Hm) (inf' & Hl' & Hm'). rewrite Hl in Hl'. injection Hl' as <-.
  apply peer_match_spec in Hm as (_ & _ & Ha & Hb & _).
  apply peer_match_spec in Hm' as (_ & _ & Ha' & Hb' & _).
  cbn [mrt_query i_asn i_addr] in *. destruct x as [x1 x2], y as [y1 y2]. cbn [fst snd] in *. congruence.
Qed.

Lemma owned_below parent r x i : Below r -> owns parent r x i -> i < serial r.
Proof.
  intros HB. unfold owns, reg_find_peers. rewrite elem_of_find_all. intros (inf & Hl & Hm).
  apply (HB _ _ Hl). destruct (meta_only inf) eqn:E; [|reflexivity].
  rewrite (peer_match_meta _ _ E) in Hm. discriminate.
Qed.

Lemma answers_owns parent r x i : answers r (mrt_query parent x) i -> owns parent r x i.
Proof. intros HA. apply HA. reflexivity. Qed.

Lemma answers_fun r q i j : answers r q i -> answers r q j -> i = j.
Proof. intros Hi Hj. apply Hj, Hi. reflexivity. Qed.

Lemma nil_no_elem {A} (l : list A) : (forall x, x ∉ l) -> l = [].
Proof. destruct l as [|a l]; [reflexivity|]. intros H. exfalso. apply (H a). left. Qed.

Lemma spec_lookup_app h1 h2 k : spec_lookup (h1 ++ h2) k = fold_left (spec_step k) h2 (spec_lookup h1 k).
Proof. unfold spec_lookup. apply fold_left_app. Qed.

Lemma evs_of_app us1 us2 : evs_of (us1 ++ us2) = evs_of us1 ++ evs_of us2.
Proof. unfold evs_of. rewrite map_app, concat_app. reflexivity. Qed.

(* ------------------------------------------------------------------ *)
(* the coupling: the last-event reading of what left the gate, per id, IS the ideal RIB, per peer *)

Definition Coupled (parent : N) (r : reg) (h : list ev) (ib : irib) : Prop :=
  (forall x i f p, answers r (mrt_query parent x) i -> f < 4 -> spec_lookup h (f, p, i) = ib !! (f, p, x)) /\
  (forall x f p, reg_find_peers r (mrt_query parent x) = [] -> ib !! (f, p, x) = None) /\
  (forall i f p, (forall x, ~ owns parent r x i) -> spec_lookup h (f, p, i) = None).

(* lookups in the ideal RIB (irib is an alias: state them once) *)
Lemma i_ann_same (ib : irib) x f p a : i_ann ib x f p a !! (f, p, x) = Some (true, a).
Proof. apply lookup_insert. Qed.
Lemma i_ann_other (ib : irib) x f p a k : k <> (f, p, x) -> i_ann ib x f p a !! k = ib !! k.
Proof. intros H. apply lookup_insert_ne. congruence. Qed.
Lemma i_wd_same (ib : irib) x f p :
  i_wd ib x f p !! (f, p, x) = match ib !! (f, p, x) with Some (_, a) => Some (false, a) | None => None end.
Proof.
  unfold i_wd. destruct (ib !! (f, p, x)) as [[s a]|] eqn:E; [apply lookup_insert|exact E].
Qed.
Lemma i_wd_other (ib : irib) x f p k : k <> (f, p, x) -> i_wd ib x f p !! k = ib !! k.
Proof.
  intros H. unfold i_wd. destruct (ib !! (f, p, x)) as [[s a]|]; [|reflexivity]. apply lookup_insert_ne. congruence.
Qed.

(* an announcement under the id that answers for x *)
Lemma coupled_ann parent r h ib x id f0 p0 a :
  answers r (mrt_query parent x) id -> Coupled parent r h ib ->
  Coupled parent r (h ++ [EAnn (f0, p0, id) a]) (i_ann ib x f0 p0 a).
Proof.
  intros HA (Hb & Hc & Hd). pose proof (answers_owns _ _ _ _ HA) as Hown.
  split; [|split].
  - intros y i f p Hy Hf. rewrite spec_lookup_app. cbn [fold_left spec_step].
    destruct (decide (y = x)) as [->|Hne].
    + assert (i = id) as -> by (apply (answers_fun _ _ _ _ Hy HA)).
      destruct (decide ((f0, p0) = (f, p))) as [E|E].
      * injection E as -> ->. rewrite bool_decide_true by reflexivity. rewrite i_ann_same. reflexivity.
      * rewrite bool_decide_false by congruence. rewrite i_ann_other by congruence. apply Hb; assumption.
    + assert (i <> id) as Hi.
      { intros ->. apply Hne. apply (owner_unique parent r y x id); [apply answers_owns, Hy|exact Hown]. }
      rewrite bool_decide_false by congruence. rewrite i_ann_other by congruence. apply Hb; assumption.
  - intros y f p Hnil. rewrite i_ann_other; [apply Hc, Hnil|].
    intros [= _ _ ->]. unfold owns in Hown. rewrite Hnil in Hown. inversion Hown.
  - intros i f p Hun. rewrite spec_lookup_app. cbn [fold_left spec_step].
    rewrite bool_decide_false; [apply Hd, Hun|]. intros [= _ _ ->]. apply (Hun x), Hown.
Qed.

(* a withdrawal *)
Lemma coupled_wd parent r h ib x id f0 p0 :
  answers r (mrt_query parent x) id -> Coupled parent r h ib ->
  Coupled parent r (h ++ [EWdr (f0, p0, id)]) (i_wd ib x f0 p0).
Proof.
  intros HA (Hb & Hc & Hd). pose proof (answers_owns _ _ _ _ HA) as Hown.
  pose proof (i_wd_other ib x f0 p0) as Hwd.
  split; [|split].
  - intros y i f p Hy Hf. rewrite spec_lookup_app. cbn [fold_left spec_step].
    destruct (decide (y = x)) as [->|Hne].
    + assert (i = id) as -> by (apply (answers_fun _ _ _ _ Hy HA)).
      destruct (decide ((f0, p0) = (f, p))) as [E|E].
      * injection E as -> ->. rewrite bool_decide_true by reflexivity.
        rewrite (Hb x id f p HA Hf), i_wd_same. reflexivity.
      * rewrite bool_decide_false by congruence. rewrite Hwd by congruence. apply Hb; assumption.
    + assert (i <> id) as Hi.
      { intros ->. apply Hne. apply (owner_unique parent r y x id); [apply answers_owns, Hy|exact Hown]. }
      rewrite bool_decide_false by congruence. rewrite Hwd by congruence. apply Hb; assumption.
  - intros y f p Hnil. rewrite Hwd; [apply Hc, Hnil|].
    intros [= _ _ ->]. unfold owns in Hown. rewrite Hnil in Hown. inversion Hown.
  - intros i f p Hun. rewrite spec_lookup_app. cbn [fold_left spec_step].
    rewrite bool_decide_false; [apply Hd, Hun|]. intros [= _ _ ->]. apply (Hun x), Hown.
Qed.

Lemma i_down_lookup (ib : irib) x f p y :
  i_down ib x !! (f, p, y) =
  if bool_decide (y = x) then match ib !! (f, p, y) with Some (_, a) => Some (false, a) | None => None end
  else ib !! (f, p, y).
Proof.
  unfold i_down. etrans; [apply map_lookup_imap|]. unfold irib in *.
  destruct (ib !! (f, p, y)) as [[s a]|]; cbn; destruct (bool_decide (y = x)); reflexivity.
Qed.

(* a session-wide withdrawal of the id that answers for x *)
Lemma coupled_down parent r h ib x id :
  answers r (mrt_query parent x) id -> Coupled parent r h ib ->
  Coupled parent r (h ++ [EDown id None]) (i_down ib x).
Proof.
  intros HA (Hb & Hc & Hd). pose proof (answers_owns _ _ _ _ HA) as Hown.
  split; [|split].
  - intros y i f p Hy Hf. rewrite spec_lookup_app. cbn [fold_left spec_step]. rewrite i_down_lookup.
    unfold down_hits, k_mui, k_fam. cbn [fst snd].
    destruct (decide (y = x)) as [->|Hne].
    + assert (i = id) as -> by (apply (answers_fun _ _ _ _ Hy HA)).
      rewrite !bool_decide_true by (reflexivity || exact Hf). cbn [andb].
      rewrite (Hb x id f p HA Hf). reflexivity.
    + assert (i <> id) as Hi.
      { intros ->. apply Hne. apply (owner_unique parent r y x id); [apply answers_owns, Hy|exact Hown]. }
      rewrite (bool_decide_false (i = id)) by exact Hi. rewrite (bool_decide_false (y = x)) by exact Hne.
      cbn [andb]. apply Hb; assumption.
  - intros y f p Hnil. rewrite i_down_lookup, (Hc y f p Hnil). destruct (bool_decide (y = x)); reflexivity.
  - intros i f p Hun. rewrite spec_lookup_app. cbn [fold_left spec_step].
    unfold down_hits, k_mui. cbn [fst snd]. rewrite (bool_decide_false (i = id)); [cbn [andb]; apply Hd, Hun|].
    intros ->. apply (Hun x), Hown.
Qed.

(* Established->Idle of a peer that has no id: nothing leaves the gate, and the ideal RIB has nothing of it *)
Lemma coupled_down_noid parent r h ib x :
  reg_find_peers r (mrt_query parent x) = [] -> Coupled parent r h ib -> Coupled parent r h (i_down ib x).
Proof.
  intros Hnil (Hb & Hc & Hd). split; [|split].
  - intros y i f p Hy Hf. rewrite i_down_lookup. rewrite bool_decide_false; [apply Hb; assumption|].
    intros ->. pose proof (answers_owns _ _ _ _ Hy) as Ho. unfold owns in Ho. rewrite Hnil in Ho. inversion Ho.
  - intros y f p Hy. rewrite i_down_lookup, (Hc y f p Hy). destruct (bool_decide (y = x)); reflexivity.
  - exact Hd.
Qed.

(* one disciplined register operation: what is there stays; a fresh id has no routes, its peer had none *)
Lemma coupled_step parent r h ib o :
  disc o = true -> Below r -> Coupled parent r h ib -> Coupled parent (step r o).1 h ib.
Proof.
  intros Hd HB (Hb & Hc & Hdd).
  assert (Hser : forall y, ~ owns parent r y (serial r)).
  { intros y Ho. apply (owned_below _ _ _ _ HB) in Ho. lia. }
  split; [|split].
  - intros y i f p Hy Hf.
    destruct (step_find_peers r o (mrt_query parent y) Hd HB) as [H|(Hnil & _ & H)].
    + apply Hb; [|exact Hf]. intros z. rewrite <- H. apply Hy.
    + assert (i = serial r) as -> by (apply H, Hy; reflexivity).
      rewrite (Hdd (serial r) f p Hser), (Hc y f p Hnil). reflexivity.
  - intros y f p Hnil'.
    destruct (step_find_peers r o (mrt_query parent y) Hd HB) as [H|(_ & _ & H)].
    + apply Hc. apply nil_no_elem. intros z Hz. apply H in Hz. rewrite Hnil' in Hz. inversion Hz.
    + exfalso. assert (Hin : serial r ∈ reg_find_peers (step r o).1 (mrt_query parent y)) by (apply H; reflexivity).
      rewrite Hnil' in Hin. inversion Hin.
  - intros i f p Hun. apply Hdd. intros y Ho. apply (Hun y). unfold owns in *.
    destruct (step_find_peers r o (mrt_query parent y) Hd HB) as [H|(Hnil & _ & H)].
    + apply H, Ho.
    + rewrite Hnil in Ho. inversion Ho.
Qed.

(* ------------------------------------------------------------------ *)
(* the register invariants along one operation, with a budget n for what is still to come *)

Lemma inv_step r o n :
  disc o = true -> Below r -> PeerUnique r -> serial r + 1 + n < two32 ->
  Below (step r o).1 /\ PeerUnique (step r o).1 /\ serial (step r o).1 + n < two32 /\
  serial r <= serial (step r o).1.
Proof.
  intros Hd HB HU Hlen. pose proof two32_val as H32.
  split; [apply step_Below; [assumption..|lia]|]. split; [apply step_PeerUnique; assumption|].
  rewrite step_serial. destruct (fresh r o); [rewrite N.mod_small by lia|]; lia.
Qed.

Lemma answers_of_head r q id l : PeerUnique r -> reg_find_peers r q = id :: l -> answers r q id.
Proof.
  intros HU E z. split.
  - intros Hz. apply (HU q); [exact Hz|]. rewrite E. left.
  - intros ->. rewrite E. left.
Qed.

Lemma mrt_query_complete parent x : disc (OForPeer (mrt_query parent x)) = true.
Proof. reflexivity. Qed.
Lemma dump_op_disc parent file x : disc (dump_op parent file x) = true.
Proof. reflexivity. Qed.

(* ------------------------------------------------------------------ *)
(* one UPDATE: withdrawals first, then announcements, on both sides *)

Lemma coupled_wds {A} (g : A -> N * N) parent r x id l :
  answers r (mrt_query parent x) id -> forall h ib, Coupled parent r h ib ->
  Coupled parent r (h ++ map ev_of_payload (map (fun z => MkPay ((g z).1, (g z).2, id) false 0) l))
          (fold_left (fun rb z => i_wd rb x (g z).1 (g z).2) l ib).
Proof.
  intros HA. induction l as [|z l IH]; intros h ib HC; cbn [map fold_left]; [rewrite app_nil_r; exact HC|].
  change (ev_of_payload (MkPay ((g z).1, (g z).2, id) false 0)) with (EWdr ((g z).1, (g z).2, id)).
  rewrite cons_middle, (app_assoc h). apply IH. apply coupled_wd; assumption.
Qed.

Lemma coupled_anns {A} (g : A -> N * N) parent r x id a l :
  answers r (mrt_query parent x) id -> forall h ib, Coupled parent r h ib ->
  Coupled parent r (h ++ map ev_of_payload (map (fun z => MkPay ((g z).1, (g z).2, id) true a) l))
          (fold_left (fun rb z => i_ann rb x (g z).1 (g z).2 a) l ib).
Proof.
  intros HA. induction l as [|z l IH]; intros h ib HC; cbn [map fold_left]; [rewrite app_nil_r; exact HC|].
  change (ev_of_payload (MkPay ((g z).1, (g z).2, id) true a)) with (EAnn ((g z).1, (g z).2, id) a).
  rewrite cons_middle, (app_assoc h). apply IH. apply coupled_ann; assumption.
Qed.

Lemma coupled_update parent r x id u h ib :
  answers r (mrt_query parent x) id -> Coupled parent r h ib ->
  Coupled parent r (h ++ evs_of [UBulk (payloads_of id u)]) (i_update ib x u).
Proof.
  intros HA HC. unfold evs_of. cbn [map concat evs_of_update]. rewrite app_nil_r.
  destruct u as [f|af ann a wf wd|lax c ff ann a wd]; cbn [payloads_of i_update map].
  - rewrite app_nil_r. exact HC.
  - rewrite map_app, app_assoc.
    apply (coupled_anns (fun p => (af, p)) parent r x id a ann HA).
    apply (coupled_wds (fun p => (wf, p)) parent r x id wd HA). exact HC.
  - rewrite map_app, app_assoc.
    apply (coupled_anns (fun z : N * N => z) parent r x id a ann HA).
    apply (coupled_wds (fun z : N * N => z) parent r x id wd HA). exact HC.
Qed.

(* ------------------------------------------------------------------ *)
(* one record of the messages part; [] = the peer index table of a file that has none in front *)

Lemma i_rib_nopit fam pfx es : forall ib : irib,
  fold_left (fun rb (e : N * N) => match @nil mpeer !! N.to_nat e.1 with Some p => i_ann rb p fam pfx e.2 | None => rb end) es ib = ib.
Proof. induction es as [|e es IH]; intros ib; [reflexivity|]. cbn [fold_left]. rewrite lookup_nil. apply IH. Qed.

Lemma coupled_msg_step parent r rc h ib n :
  Below r -> PeerUnique r -> serial r + N.of_nat (length (rec_ops parent rc)) + n < two32 ->
  Coupled parent r h ib ->
  Below (msg_step parent r rc).1 /\ PeerUnique (msg_step parent r rc).1 /\
  serial (msg_step parent r rc).1 + n < two32 /\
  Coupled parent (msg_step parent r rc).1 (h ++ evs_of (msg_step parent r rc).2) (i_rec [] ib rc).
Proof.
  intros HB HU Hlen HC.
  assert (Hnone : forall ib', ib' = ib ->
     Below r /\ PeerUnique r /\ serial r + n < two32 /\ Coupled parent r (h ++ evs_of []) ib').
  { intros ib' ->. split; [exact HB|]. split; [exact HU|]. split; [lia|]. cbn. rewrite app_nil_r. exact HC. }
  destruct rc as [ps|fam pfx es|x [u| |]|x old new|]; cbn [msg_step i_rec fst snd rec_ops length] in *;
    try (apply Hnone; reflexivity).
  - apply Hnone. destruct (fam <? 2); [apply i_rib_nopit|reflexivity].
  - pose proof (inv_step r (OForPeer (mrt_query parent x)) n eq_refl HB HU ltac:(lia)) as (B' & U' & S' & _).
    pose proof (coupled_step parent r h ib (OForPeer (mrt_query parent x)) eq_refl HB HC) as HC'.
    pose proof (for_peer_answers r (mrt_query parent x) eq_refl HB HU) as HA.
    cbn [step] in *. destruct (find_or_register peer_match r (mrt_query parent x)) as [id r'].
    cbn [fst snd] in *. split; [exact B'|]. split; [exact U'|]. split; [exact S'|].
    apply coupled_update; assumption.
  - destruct ((old =? 6) && (new =? 1)); [|apply Hnone; reflexivity].
    destruct (reg_find_peers r (mrt_query parent x)) as [|id l] eqn:E; cbn [fst snd].
    + split; [exact HB|]. split; [exact HU|]. split; [lia|]. cbn. rewrite app_nil_r.
      apply coupled_down_noid; assumption.
    + split; [exact HB|]. split; [exact HU|]. split; [lia|].
      apply (coupled_down parent r h ib x id); [apply (answers_of_head r _ id l HU E)|exact HC].
Qed.

Lemma coupled_msgs_walk parent recs : forall r h ib n,
  Below r -> PeerUnique r -> serial r + N.of_nat (length (flat_map (rec_ops parent) recs)) + n < two32 ->
  Coupled parent r h ib ->
  Below (msgs_walk parent r recs).1 /\ PeerUnique (msgs_walk parent r recs).1 /\
  serial (msgs_walk parent r recs).1 + n < two32 /\
  Coupled parent (msgs_walk parent r recs).1 (h ++ evs_of (msgs_walk parent r recs).2) (fold_left (i_rec []) recs ib).
Proof.
  induction recs as [|rc recs IH]; intros r h ib n HB HU Hlen HC.
  - cbn. rewrite app_nil_r. split; [exact HB|]. split; [exact HU|]. split; [cbn in Hlen; lia|exact HC].
  - cbn [flat_map] in Hlen. rewrite app_length, Nat2N.inj_add in Hlen.
    destruct (coupled_msg_step parent r rc h ib (N.of_nat (length (flat_map (rec_ops parent) recs)) + n) HB HU
                ltac:(lia) HC) as (B1 & U1 & S1 & C1).
    cbn [msgs_walk fold_left]. destruct (msg_step parent r rc) as [r1 us1]. cbn [fst snd] in *.
    destruct (IH r1 (h ++ evs_of us1) (i_rec [] ib rc) n B1 U1 ltac:(lia) C1) as (B2 & U2 & S2 & C2).
    destruct (msgs_walk parent r1 recs) as [r2 us2]. cbn [fst snd] in *.
    split; [exact B2|]. split; [exact U2|]. split; [exact S2|].
    rewrite evs_of_app, app_assoc. exact C2.
Qed.

(* ------------------------------------------------------------------ *)
(* a peer index table whose entries name peers without an id: entry k gets the id serial r + k,
   and that id answers for it from then on *)

Lemma answers_dump_query parent file x r id :
  answers r (dump_info parent file x) id <-> answers r (mrt_query parent x) id.
Proof. unfold answers. rewrite dump_query_same. reflexivity. Qed.

Lemma dump_ops_disc parent file ps : forallb disc (map (dump_op parent file) ps) = true.
Proof. induction ps as [|p ps IH]; [reflexivity|]. cbn [map forallb]. rewrite IH. reflexivity. Qed.

Lemma table_reg parent file ps : forall r h ib n,
  peers_fresh parent file r ps -> Below r -> PeerUnique r -> serial r + N.of_nat (length ps) + n < two32 ->
  Coupled parent r h ib ->
  let r1 := (run_from r (map (dump_op parent file) ps)).1 in
  Below r1 /\ PeerUnique r1 /\ serial r1 + n < two32 /\ Coupled parent r1 h ib /\
  (forall k x, ps !! k = Some x -> answers r1 (mrt_query parent x) (serial r + N.of_nat k)).
Proof.
  induction ps as [|p ps IH]; intros r h ib n Hf HB HU Hlen HC r1; subst r1.
  - cbn. split; [exact HB|]. split; [exact HU|]. split; [cbn in Hlen; lia|]. split; [exact HC|].
    intros k x Hk. inversion Hk.
  - cbn [peers_fresh] in Hf. destruct Hf as [Hnil Hf].
    cbn [length] in Hlen. rewrite Nat2N.inj_succ in Hlen. pose proof two32_val as H32.
    cbn [map]. rewrite run_from_cons.
    set (o := dump_op parent file p) in *.
    pose proof (inv_step r o (N.of_nat (length ps) + n) eq_refl HB HU ltac:(lia)) as (B' & U' & S' & _).
    pose proof (coupled_step parent r h ib o eq_refl HB HC) as HC'.
    assert (Hser : serial (step r o).1 = serial r + 1).
    { rewrite step_serial. subst o. unfold dump_op. cbn [fresh]. rewrite dump_query_same, Hnil.
      apply N.mod_small. lia. }
    assert (HA : answers (step r o).1 (mrt_query parent p) (serial r)).
    { pose proof (for_peer_answers r (dump_info parent file p) eq_refl HB HU) as HA.
      subst o. unfold dump_op. cbn [step]. unfold find_or_register in *.
      fold (reg_find_peers r (dump_info parent file p)) in *. rewrite dump_query_same, Hnil in *.
      cbn [reg_register fst snd] in *. apply answers_dump_query in HA. exact HA. }
    destruct (IH (step r o).1 h ib n Hf B' U' ltac:(lia) HC') as (B1 & U1 & S1 & C1 & A1).
    split; [exact B1|]. split; [exact U1|]. split; [exact S1|]. split; [exact C1|].
    intros k x Hk. destruct k as [|k]; cbn in Hk.
    + injection Hk as <-. rewrite N.add_0_r.
      destruct (run_invariants (map (dump_op parent file) ps) (step r o).1) as (_ & _ & _ & A);
        [apply dump_ops_disc|rewrite map_length; lia|exact B'|exact U'|].
      apply A, HA.
    + specialize (A1 k x Hk). rewrite Hser in A1. rewrite Nat2N.inj_succ.
      replace (serial r + N.succ (N.of_nat k)) with (serial r + 1 + N.of_nat k) by lia. exact A1.
Qed.

(* the RIB records of a dump at the register the table left *)
Lemma evs_of_cons u us : evs_of (u :: us) = evs_of_update u ++ evs_of us.
Proof. reflexivity. Qed.

Lemma coupled_rib_entries parent r1 ps s fam pfx es :
  (forall k x, ps !! k = Some x -> answers r1 (mrt_query parent x) (s + N.of_nat k)) ->
  forallb (entry_ok (length ps)) es = true ->
  forall h ib, Coupled parent r1 h ib ->
  Coupled parent r1 (h ++ evs_of (dump_singles (nseq s (length ps)) (RRib fam pfx es)))
    (fold_left (fun rb (e : N * N) => match ps !! N.to_nat e.1 with Some p => i_ann rb p fam pfx e.2 | None => rb end) es ib).
Proof.
  intros HA. induction es as [|e es IH]; intros Hok h ib HC.
  - cbn. rewrite app_nil_r. exact HC.
  - cbn [forallb] in Hok. apply andb_true_iff in Hok as [He Hes].
    unfold entry_ok in He. apply bool_decide_eq_true in He.
    destruct (lookup_lt_is_Some_2 ps (N.to_nat e.1) He) as [x Hx].
    cbn [dump_singles omap list_omap fold_left]. rewrite (nseq_lookup _ s _ He), Hx.
    fold (dump_singles (nseq s (length ps)) (RRib fam pfx es)).
    rewrite evs_of_cons. change (evs_of_update (single fam pfx (s + N.of_nat (N.to_nat e.1)) e.2))
      with [EAnn (fam, pfx, s + N.of_nat (N.to_nat e.1)) e.2].
    rewrite app_assoc. apply (IH Hes). apply coupled_ann; [apply HA, Hx|exact HC].
Qed.

Lemma coupled_dump_rest parent r1 ps s rest :
  (forall k x, ps !! k = Some x -> answers r1 (mrt_query parent x) (s + N.of_nat k)) ->
  forallb (rib_rec_ok (length ps)) rest = true ->
  forall h ib, Coupled parent r1 h ib ->
  Coupled parent r1 (h ++ evs_of (flat_map (dump_singles (nseq s (length ps))) rest)) (fold_left (i_rec ps) rest ib).
Proof.
  intros HA. induction rest as [|rc rest IH]; intros Hok h ib HC.
  - cbn. rewrite app_nil_r. exact HC.
  - cbn [forallb] in Hok. apply andb_true_iff in Hok as [Hrc Hrest].
    destruct rc as [ps'|fam pfx [|e es]|x m|x old new|]; try discriminate Hrc.
    cbn [rib_rec_ok] in Hrc. apply andb_true_iff in Hrc as [Hfam Hes].
    cbn [flat_map fold_left]. rewrite evs_of_app, app_assoc. apply (IH Hrest).
    cbn [i_rec]. rewrite Hfam. apply coupled_rib_entries; assumption.
Qed.

(* ------------------------------------------------------------------ *)
(* one file. file_ok: a file with a table in front is one the RibEntryIterator gets through
   (excludes known finding C16-2, class KP - and nothing else: any other file is fine) *)


Lemma coupled_file parent f r h ib n :
  file_fresh parent r f -> file_ok f = true -> Below r -> PeerUnique r ->
  serial r + N.of_nat (length (all_ops parent f)) + n < two32 ->
  Coupled parent r h ib ->
  Below (process_file parent r f).1.1 /\ PeerUnique (process_file parent r f).1.1 /\
  serial (process_file parent r f).1.1 + n < two32 /\
  Coupled parent (process_file parent r f).1.1 (h ++ evs_of (process_file parent r f).1.2) (i_file ib f).
Proof.
  intros Hf Hok HB HU Hlen HC.
  assert (Hupd : forall name recs, pit_of recs = [] ->
     process_file parent r (FGood name recs) = (let '(r2, us) := msgs_walk parent r recs in (r2, us, SOk)) ->
     all_ops parent (FGood name recs) = flat_map (rec_ops parent) recs ->
     serial r + N.of_nat (length (all_ops parent (FGood name recs))) + n < two32 ->
     Below (process_file parent r (FGood name recs)).1.1 /\ PeerUnique (process_file parent r (FGood name recs)).1.1 /\
     serial (process_file parent r (FGood name recs)).1.1 + n < two32 /\
     Coupled parent (process_file parent r (FGood name recs)).1.1
       (h ++ evs_of (process_file parent r (FGood name recs)).1.2) (i_file ib (FGood name recs))).
  { intros name recs Hpit Hpf Hops Hl. rewrite Hops in Hl.
    pose proof (coupled_msgs_walk parent recs r h ib n HB HU Hl HC) as H.
    rewrite Hpf. cbn [i_file]. rewrite Hpit. destruct (msgs_walk parent r recs) as [r2 us]. exact H. }
  destruct f as [name recs|].
  2:{ cbn. rewrite app_nil_r. split; [exact HB|]. split; [exact HU|]. split; [cbn in Hlen; lia|exact HC]. }
  destruct recs as [|[ps|fam pfx es|x m|x old new|] rest]; try (apply Hupd; [reflexivity..|exact Hlen]).
  cbn [file_fresh] in Hf. cbn [file_ok] in Hok. cbn [all_ops] in Hlen. rewrite map_length in Hlen.
  destruct (dump_attribution parent r name ps rest Hok ltac:(lia)) as (Hpf & _).
  rewrite Hpf. cbn [fst snd]. rewrite (reg_peers_as_ops parent name ps r Hf).
  destruct (table_reg parent name ps r h ib n Hf HB HU Hlen HC) as (B1 & U1 & S1 & C1 & A1).
  split; [exact B1|]. split; [exact U1|]. split; [exact S1|].
  cbn [i_file pit_of fold_left i_rec]. cbn [dump_ok] in Hok.
  apply coupled_dump_rest; assumption.
Qed.

(* ------------------------------------------------------------------ *)
(* the queue *)

Lemma coupled_queue parent fs : forall r h ib,
  queue_fresh parent r fs -> forallb file_ok fs = true -> Below r -> PeerUnique r ->
  serial r + N.of_nat (length (flat_map (all_ops parent) fs)) < two32 ->
  Coupled parent r h ib ->
  Below (queue_run parent r fs).1 /\ PeerUnique (queue_run parent r fs).1 /\
  Coupled parent (queue_run parent r fs).1 (h ++ evs_of (queue_run parent r fs).2) (fold_left i_file fs ib).
Proof.
  induction fs as [|f fs IH]; intros r h ib Hq Hok HB HU Hlen HC.
  - cbn. rewrite app_nil_r. auto.
  - cbn [queue_fresh] in Hq. destruct Hq as [Hf Hq].
    cbn [forallb] in Hok. apply andb_true_iff in Hok as [Hokf Hok].
    cbn [flat_map] in Hlen. rewrite app_length, Nat2N.inj_add in Hlen.
    destruct (coupled_file parent f r h ib (N.of_nat (length (flat_map (all_ops parent) fs))) Hf Hokf HB HU
                ltac:(lia) HC) as (B1 & U1 & S1 & C1).
    cbn [queue_run fold_left]. destruct (process_file parent r f) as [[r1 us1] st]. cbn [fst snd] in *.
    destruct (IH r1 (h ++ evs_of us1) (i_file ib f) Hq Hok B1 U1 S1 C1) as (B2 & U2 & C2).
    destruct (queue_run parent r1 fs) as [r2 us2]. cbn [fst snd] in *.
    split; [exact B2|]. split; [exact U2|]. rewrite evs_of_app, app_assoc. exact C2.
Qed.

Lemma unit_start_no_peers q : reg_find_peers unit_start.2 q = [].
Proof.
  apply nil_no_elem. intros id Hin. unfold reg_find_peers in Hin. apply elem_of_find_all in Hin as (i & Hl & Hm).
  assert (Hi : i = unit_info).
  { change (infos unit_start.2) with (<[1 := unit_info]> (∅ : gmap N info)) in Hl.
    apply lookup_insert_Some in Hl as [[_ <-]|[_ Hl]]; [reflexivity|]. rewrite lookup_empty in Hl. discriminate. }
  subst i. discriminate Hm.
Qed.

Lemma coupled_start : Coupled unit_start.1 unit_start.2 [] ∅.
Proof.
  split; [|split].
  - intros x i f p HA _. pose proof (answers_owns _ _ _ _ HA) as Ho. unfold owns in Ho.
    rewrite unit_start_no_peers in Ho. inversion Ho.
  - intros x f p _. apply lookup_empty.
  - reflexivity.
Qed.

(* ------------------------------------------------------------------ *)
(* MAIN: what the RIB behind the gate answers after the whole queue, per (peer, prefix) *)

Definition RefinesIdeal (fs : list mfile) : Prop :=
  let r' := (queue_run unit_start.1 unit_start.2 fs).1 in
  (forall x, (length (reg_find_peers r' (mrt_query unit_start.1 x)) <= 1)%nat) /\
  (forall x i f p, f < 4 -> reg_find_peers r' (mrt_query unit_start.1 x) = [i] ->
     rib_lookup (import fs) (f, p, i) =
     match i_import fs !! (f, p, x) with
     | Some (s, a) => Some (s && negb (downed (evs_of (import_updates fs)) (f, p, i)), a)
     | None => None
     end) /\
  (forall x f p, reg_find_peers r' (mrt_query unit_start.1 x) = [] -> i_import fs !! (f, p, x) = None) /\
  (forall i f p, (forall x, i ∉ reg_find_peers r' (mrt_query unit_start.1 x)) ->
     rib_lookup (import fs) (f, p, i) = None).

Lemma unique_short r q : PeerUnique r -> (length (reg_find_peers r q) <= 1)%nat.
Proof.
  intros HU. pose proof (NoDup_find_all peer_match r q) as Hnd. fold (reg_find_peers r q) in Hnd.
  destruct (reg_find_peers r q) as [|a [|b l]] eqn:E; cbn; [lia..|exfalso].
  assert (a = b) as ->. { apply (HU q); rewrite E; [left|right; left]. }
  inversion Hnd as [|? ? Hni _]. apply Hni. left.
Qed.

Lemma answers_single r q i : reg_find_peers r q = [i] -> answers r q i.
Proof. intros E z. rewrite E. rewrite elem_of_list_singleton. reflexivity. Qed.

Theorem files_refine_ideal fs :
  queue_fresh unit_start.1 unit_start.2 fs ->
  forallb file_ok fs = true ->
  2 + N.of_nat (length (flat_map (all_ops unit_start.1) fs)) < two32 ->
  RefinesIdeal fs.
Proof.
  intros Hq Hok Hlen. destruct unit_start_ok as (B0 & U0 & S0 & _).
  destruct (coupled_queue unit_start.1 fs unit_start.2 [] ∅ Hq Hok B0 U0 ltac:(rewrite S0; exact Hlen) coupled_start)
    as (_ & U & (Hb & Hc & Hd)).
  cbn [app] in *. fold (import_updates fs) in *. fold (i_import fs) in *.
  unfold RefinesIdeal. cbv zeta.
  split; [intros x; apply unique_short, U|]. split; [|split].
  - intros x i f p Hf E. rewrite import_reads_history.
    rewrite (Hb x i f p (answers_single _ _ _ E) Hf). reflexivity.
  - exact Hc.
  - intros i f p Hun. rewrite import_reads_history, (Hd i f p Hun). reflexivity.
Qed.

(* for every file store and every queue of entries *)
Theorem queue_refines_ideal fsys ps :
  queue_fresh unit_start.1 unit_start.2 (queue_files fsys ps) ->
  forallb file_ok (queue_files fsys ps) = true ->
  2 + N.of_nat (length (flat_map (all_ops unit_start.1) (queue_files fsys ps))) < two32 ->
  RefinesIdeal (queue_files fsys ps).
Proof. apply files_refine_ideal. Qed.

(* off class K3 (MrtQueueSpec.k3_class: a session-wide withdrawal hit the peer's (family, id) at some time and the
   ideal RIB reports the route active) the answer is the ideal one *)
Corollary refines_exact_off_k3 fs x i f p :
  RefinesIdeal fs -> f < 4 ->
  reg_find_peers (queue_run unit_start.1 unit_start.2 fs).1 (mrt_query unit_start.1 x) = [i] ->
  k3_class fs x i f p = false ->
  rib_lookup (import fs) (f, p, i) = i_import fs !! (f, p, x).
Proof.
  intros (_ & Hb & _) Hf E Hk. rewrite (Hb x i f p Hf E). unfold k3_class in Hk.
  destruct (i_import fs !! (f, p, x)) as [[s a]|]; [|reflexivity].
  destruct (downed (evs_of (import_updates fs)) (f, p, i)); cbn [andb negb] in *.
  - destruct s; [discriminate Hk|reflexivity].
  - rewrite andb_true_r. reflexivity.
Qed.

(* ... and inside the class the difference is exactly the recorded one: active in the ideal RIB, withdrawn with the
   same attributes in the RIB *)
Corollary refines_k3_shape fs x i f p :
  RefinesIdeal fs -> f < 4 ->
  reg_find_peers (queue_run unit_start.1 unit_start.2 fs).1 (mrt_query unit_start.1 x) = [i] ->
  k3_class fs x i f p = true ->
  exists a, i_import fs !! (f, p, x) = Some (true, a) /\ rib_lookup (import fs) (f, p, i) = Some (false, a).
Proof.
  intros (_ & Hb & _) Hf E Hk. rewrite (Hb x i f p Hf E). unfold k3_class in Hk.
  apply andb_true_iff in Hk as [Hd Hs]. rewrite Hd.
  destruct (i_import fs !! (f, p, x)) as [[[] a]|]; try discriminate Hs. exists a. split; reflexivity.
Qed.

(* ------------------------------------------------------------------ *)
(* The finding class C16-1 (KD) read off the FILES: a peer-index entry names a peer (address, AS) that was named
   before - by an earlier entry of the same table, by the table of an earlier queue entry (the same dump file
   again included), or by a BGP4MP UPDATE of an earlier update file. names_once = no such entry. *)


(* seen = exactly the peers that have an id *)
Definition Seen (parent : N) (r : reg) (seen : list mpeer) : Prop :=
  forall y, reg_find_peers r (mrt_query parent y) <> [] <-> y ∈ seen.

Lemma Seen_equiv parent r s s' : Seen parent r s -> (forall y, y ∈ s <-> y ∈ s') -> Seen parent r s'.
Proof. intros H Hs y. rewrite <- Hs. apply H. Qed.

Lemma step_forpeer_reg r q : (step r (OForPeer q)).1 = (find_or_register peer_match r q).2.
Proof. cbn [step]. destruct (find_or_register peer_match r q); reflexivity. Qed.

(* find-or-register of x: x has an id afterwards, nobody else gains or loses one *)
Lemma seen_step parent r seen x q :
  (forall r0, reg_find_peers r0 q = reg_find_peers r0 (mrt_query parent x)) -> peer_complete q = true ->
  Below r -> PeerUnique r -> Seen parent r seen -> Seen parent (step r (OForPeer q)).1 (x :: seen).
Proof.
  intros Hq Hc HB HU HS y.
  pose proof (for_peer_answers r q Hc HB HU) as HA. rewrite <- step_forpeer_reg in HA.
  assert (Hid : reg_find_peers r q = [] -> (find_or_register peer_match r q).1 = serial r).
  { intros E. unfold find_or_register. fold (reg_find_peers r q). rewrite E. reflexivity. }
  set (r' := (step r (OForPeer q)).1) in *. set (id := (find_or_register peer_match r q).1) in *.
  assert (Hx : owns parent r' x id). { unfold owns. rewrite <- Hq. apply HA. reflexivity. }
  assert (Hxne : reg_find_peers r' (mrt_query parent x) <> []).
  { intros Hnil. unfold owns in Hx. rewrite Hnil in Hx. inversion Hx. }
  destruct (step_find_peers r (OForPeer q) (mrt_query parent y) Hc HB) as [H|(Hnil & Hfr & H)]; fold r' in H.
  - assert (Hsame : reg_find_peers r' (mrt_query parent y) <> [] <-> reg_find_peers r (mrt_query parent y) <> []).
    { split; intros Hne Hnil; apply Hne, nil_no_elem; intros z Hz; apply H in Hz; rewrite Hnil in Hz; inversion Hz. }
    rewrite elem_of_cons, <- (HS y), Hsame. split; [intros Hne; right; exact Hne|].
    intros [->|Hne]; [apply Hsame, Hxne|exact Hne].
  - assert (y = x) as ->.
    { apply (owner_unique parent r' y x (serial r)); [apply H; reflexivity|].
      cbn [fresh] in Hfr. destruct (reg_find_peers r q) as [|z l] eqn:E; [|discriminate Hfr].
      rewrite <- (Hid eq_refl). exact Hx. }
    split; [intros _; apply elem_of_cons; left; reflexivity|intros _; exact Hxne].
Qed.

Lemma seen_run parent (mk : mpeer -> info) xs :
  (forall x r0, reg_find_peers r0 (mk x) = reg_find_peers r0 (mrt_query parent x)) ->
  (forall x, peer_complete (mk x) = true) ->
  forall r seen n,
  Below r -> PeerUnique r -> serial r + N.of_nat (length xs) + n < two32 -> Seen parent r seen ->
  let r1 := (run_from r (map (fun x => OForPeer (mk x)) xs)).1 in
  Below r1 /\ PeerUnique r1 /\ serial r1 + n < two32 /\ Seen parent r1 (xs ++ seen).
Proof.
  intros Hmk Hc. induction xs as [|x xs IH]; intros r seen n HB HU Hlen HS r1; subst r1.
  - cbn. split; [exact HB|]. split; [exact HU|]. split; [cbn in Hlen; lia|exact HS].
  - cbn [length] in Hlen. rewrite Nat2N.inj_succ in Hlen.
    pose proof (inv_step r (OForPeer (mk x)) (N.of_nat (length xs) + n) (Hc x) HB HU ltac:(lia)) as (B' & U' & S' & _).
    pose proof (seen_step parent r seen x (mk x) (Hmk x) (Hc x) HB HU HS) as HS'.
    destruct (IH (step r (OForPeer (mk x))).1 (x :: seen) n B' U' ltac:(lia) HS') as (B1 & U1 & S1 & HS1).
    cbn [map]. rewrite run_from_cons.
    split; [exact B1|]. split; [exact U1|]. split; [exact S1|].
    apply (Seen_equiv _ _ _ _ HS1). intros y. rewrite ?elem_of_app, ?elem_of_cons, ?elem_of_app. tauto.
Qed.

(* the freshness of a table's entries (a statement about the register) is fresh_peers (a statement about names) *)
Lemma table_fresh_iff parent file ps : forall r seen n,
  Below r -> PeerUnique r -> serial r + N.of_nat (length ps) + n < two32 -> Seen parent r seen ->
  (peers_fresh parent file r ps <-> fresh_peers seen ps = true).
Proof.
  induction ps as [|p ps IH]; intros r seen n HB HU Hlen HS; cbn [peers_fresh fresh_peers]; [tauto|].
  cbn [length] in Hlen. rewrite Nat2N.inj_succ in Hlen.
  pose proof (inv_step r (dump_op parent file p) (N.of_nat (length ps) + n) eq_refl HB HU ltac:(lia)) as (B' & U' & S' & _).
  pose proof (seen_step parent r seen p (dump_info parent file p)
                (fun r0 => dump_query_same parent file p r0) eq_refl HB HU HS) as HS'.
  fold (dump_op parent file p) in HS'.
  rewrite andb_true_iff, negb_true_iff, bool_decide_eq_false.
  rewrite <- (IH (step r (dump_op parent file p)).1 (p :: seen) n B' U' ltac:(lia) HS').
  assert (Hh : reg_find_peers r (mrt_query parent p) = [] <-> p ∉ seen).
  { rewrite <- (HS p). destruct (reg_find_peers r (mrt_query parent p)); split; intros H; try reflexivity; try discriminate H.
    - intros H'. apply H'. reflexivity.
    - exfalso. apply H. discriminate. }
  rewrite Hh. reflexivity.
Qed.

Lemma rec_ops_peers parent recs :
  flat_map (rec_ops parent) recs = map (fun x => OForPeer (mrt_query parent x)) (flat_map rec_peer recs).
Proof.
  induction recs as [|rc recs IH]; [reflexivity|]. cbn [flat_map]. rewrite map_app, IH. f_equal.
  destruct rc as [ps|fam pfx es|x [u| |]|x old new|]; reflexivity.
Qed.

Lemma seen_file parent f r seen n :
  Below r -> PeerUnique r -> serial r + N.of_nat (length (all_ops parent f)) + n < two32 -> Seen parent r seen ->
  (file_fresh parent r f <-> table_fresh seen f = true) /\
  (file_fresh parent r f ->
   Below (process_file parent r f).1.1 /\ PeerUnique (process_file parent r f).1.1 /\
   serial (process_file parent r f).1.1 + n < two32 /\
   Seen parent (process_file parent r f).1.1 (file_names f ++ seen)).
Proof.
  intros HB HU Hlen HS.
  assert (Hupd : forall name recs, file_fresh parent r (FGood name recs) -> table_fresh seen (FGood name recs) = true ->
     all_ops parent (FGood name recs) = flat_map (rec_ops parent) recs ->
     file_names (FGood name recs) = flat_map rec_peer recs ->
     serial r + N.of_nat (length (all_ops parent (FGood name recs))) + n < two32 ->
     (file_fresh parent r (FGood name recs) <-> table_fresh seen (FGood name recs) = true) /\
     (file_fresh parent r (FGood name recs) ->
      Below (process_file parent r (FGood name recs)).1.1 /\ PeerUnique (process_file parent r (FGood name recs)).1.1 /\
      serial (process_file parent r (FGood name recs)).1.1 + n < two32 /\
      Seen parent (process_file parent r (FGood name recs)).1.1 (file_names (FGood name recs) ++ seen))).
  { intros name recs Hff Htf Hops Hnames Hl. split; [tauto|]. intros _.
    rewrite (file_reg parent r _ Hff), Hops, Hnames, rec_ops_peers in *.
    rewrite map_length in Hl.
    apply (seen_run parent (mrt_query parent) (flat_map rec_peer recs) (fun x r0 => eq_refl) (fun x => eq_refl)); assumption. }
  destruct f as [name recs|].
  2:{ cbn. split; [tauto|]. intros _. split; [exact HB|]. split; [exact HU|]. split; [cbn in Hlen; lia|exact HS]. }
  destruct recs as [|[ps|fam pfx es|x m|x old new|] rest]; try (apply Hupd; [exact I|reflexivity|reflexivity|reflexivity|exact Hlen]).
  cbn [table_fresh file_fresh]. cbn [all_ops] in Hlen. rewrite map_length in Hlen.
  split; [apply (table_fresh_iff parent name ps r seen n); assumption|].
  intros F1. rewrite (file_reg parent r (FGood name (RPit ps :: rest)) F1). cbn [all_ops file_names].
  apply (seen_run parent (dump_info parent name) ps (fun x r0 => dump_query_same parent name x r0) (fun x => eq_refl));
    assumption.
Qed.

(* queue_fresh (every table entry names a peer that has no id at that moment) IS names_once *)
Lemma names_once_iff parent fs : forall r seen,
  Below r -> PeerUnique r -> serial r + N.of_nat (length (flat_map (all_ops parent) fs)) < two32 ->
  Seen parent r seen -> (queue_fresh parent r fs <-> names_once seen fs = true).
Proof.
  induction fs as [|f fs IH]; intros r seen HB HU Hlen HS; cbn [queue_fresh names_once]; [tauto|].
  cbn [flat_map] in Hlen. rewrite app_length, Nat2N.inj_add in Hlen.
  destruct (seen_file parent f r seen (N.of_nat (length (flat_map (all_ops parent) fs))) HB HU ltac:(lia) HS)
    as [Hiff Hres].
  rewrite andb_true_iff, <- Hiff. split.
  - intros [Hf Hq]. split; [exact Hf|]. destruct (Hres Hf) as (B1 & U1 & S1 & HS1).
    apply (IH _ _ B1 U1 S1 HS1), Hq.
  - intros [Hf Hn]. split; [exact Hf|]. destruct (Hres Hf) as (B1 & U1 & S1 & HS1).
    apply (IH _ _ B1 U1 S1 HS1), Hn.
Qed.

Lemma seen_start : Seen unit_start.1 unit_start.2 [].
Proof.
  intros y. split; [intros Hne; exfalso; apply Hne, unit_start_no_peers|intros H; inversion H].
Qed.

Theorem names_once_is_fresh fs :
  2 + N.of_nat (length (flat_map (all_ops unit_start.1) fs)) < two32 ->
  (queue_fresh unit_start.1 unit_start.2 fs <-> names_once [] fs = true).
Proof.
  intros Hlen. destruct unit_start_ok as (B0 & U0 & S0 & _).
  apply names_once_iff; [exact B0|exact U0|rewrite S0; exact Hlen|exact seen_start].
Qed.

(* the main theorem with the class read off the files *)
Theorem files_refine_ideal_syntactic fs :
  names_once [] fs = true ->
  forallb file_ok fs = true ->
  2 + N.of_nat (length (flat_map (all_ops unit_start.1) fs)) < two32 ->
  RefinesIdeal fs.
Proof.
  intros Hn Hok Hlen. apply files_refine_ideal; [|exact Hok|exact Hlen].
  apply names_once_is_fresh; assumption.
Qed.

Theorem queue_refines_ideal_syntactic fsys ps :
  names_once [] (queue_files fsys ps) = true ->
  forallb file_ok (queue_files fsys ps) = true ->
  2 + N.of_nat (length (flat_map (all_ops unit_start.1) (queue_files fsys ps))) < two32 ->
  RefinesIdeal (queue_files fsys ps).
Proof. apply files_refine_ideal_syntactic. Qed.

(* ---- corollaries: queues that meet the class hypotheses by their shape ---- *)

Lemma update_file_table_fresh seen f : update_file f = true -> table_fresh seen f = true /\ file_ok f = true.
Proof. destruct f as [name [|[ps|? ? ?|? ?|? ? ?|] rest]|]; cbn; intros H; try discriminate H; auto. Qed.

Lemma update_files_once fs : forall seen, forallb update_file fs = true -> names_once seen fs = true /\ forallb file_ok fs = true.
Proof.
  induction fs as [|f fs IH]; intros seen Hu; [auto|].
  cbn [forallb] in Hu. apply andb_true_iff in Hu as [Hf Hu].
  destruct (update_file_table_fresh seen f Hf) as [H1 H2]. destruct (IH (file_names f ++ seen) Hu) as [H3 H4].
  cbn [names_once forallb]. rewrite H1, H2, H3, H4. auto.
Qed.

(* update files only (any number, any order, repeats, unreadable entries): no class hypothesis is left *)
Corollary updates_only_refine_ideal fsys ps :
  forallb update_file (queue_files fsys ps) = true ->
  2 + N.of_nat (length (flat_map (all_ops unit_start.1) (queue_files fsys ps))) < two32 ->
  RefinesIdeal (queue_files fsys ps).
Proof.
  intros Hu Hlen. destruct (update_files_once (queue_files fsys ps) [] Hu) as [H1 H2].
  apply files_refine_ideal_syntactic; assumption.
Qed.

(* one dump (a table without a repeated peer, then records the iterator gets through), then update files *)
Corollary dump_then_updates_refine_ideal fsys d ps name pit rest :
  resolve fsys d = FGood name (RPit pit :: rest) ->
  fresh_peers [] pit = true -> dump_ok (RPit pit :: rest) = true ->
  forallb update_file (queue_files fsys ps) = true ->
  2 + N.of_nat (length (flat_map (all_ops unit_start.1) (queue_files fsys (d :: ps)))) < two32 ->
  RefinesIdeal (queue_files fsys (d :: ps)).
Proof.
  intros Hd Hfp Hok Hu Hlen. destruct (update_files_once (queue_files fsys ps) (pit ++ []) Hu) as [H1 H2].
  apply files_refine_ideal_syntactic; [| |exact Hlen].
  - cbn [queue_files map names_once]. rewrite Hd. cbn [table_fresh file_names]. rewrite Hfp. exact H1.
  - cbn [queue_files map forallb]. rewrite Hd. cbn [file_ok]. rewrite Hok. exact H2.
Qed.

(* ------------------------------------------------------------------ *)
(* a queue that meets the hypotheses: a dump of two peers (v4 and v6 entries), an update file (replacement, an
   Established->Idle of the other peer, a withdrawal, a peer the dump does not know), an unreadable entry, and
   the update file AGAIN *)

Lemma refine_example :
  names_once [] (queue_files ex_store ex_queue) = true /\
  forallb file_ok (queue_files ex_store ex_queue) = true /\
  2 + N.of_nat (length (flat_map (all_ops unit_start.1) (queue_files ex_store ex_queue))) < two32 /\
  (let r' := (queue_run unit_start.1 unit_start.2 (queue_files ex_store ex_queue)).1 in
   reg_find_peers r' (mrt_query unit_start.1 ex_p1) = [2] /\
   reg_find_peers r' (mrt_query unit_start.1 ex_p2) = [3] /\
   reg_find_peers r' (mrt_query unit_start.1 ex_p3) = [4]) /\
  (let rb := import (queue_files ex_store ex_queue) in
   let ib := i_import (queue_files ex_store ex_queue) in
   rib_lookup rb (0, 5, 2) = Some (true, 8) /\ ib !! (0, 5, ex_p1) = Some (true, 8) /\
   rib_lookup rb (0, 6, 2) = Some (false, 8) /\ ib !! (0, 6, ex_p1) = Some (false, 8) /\
   rib_lookup rb (0, 5, 4) = Some (true, 2) /\ ib !! (0, 5, ex_p3) = Some (true, 2) /\
   rib_lookup rb (0, 5, 3) = Some (false, 4) /\ ib !! (0, 5, ex_p2) = Some (false, 4) /\
   (* class K3: announced again after the Established->Idle *)
   rib_lookup rb (1, 8, 3) = Some (false, 6) /\ ib !! (1, 8, ex_p2) = Some (true, 6) /\
   k3_class (queue_files ex_store ex_queue) ex_p2 3 1 8 = true /\
   k3_class (queue_files ex_store ex_queue) ex_p1 2 0 5 = false).
Proof. vm_compute. repeat split; reflexivity. Qed.

(* ------------------------------------------------------------------ *)
(* the same at the level of the LISTS a query returns: Rib::match_prefix on the code side (rib_query: one entry per
   ingress id), the ideal RIB's listing on the other (i_query: one entry per peer) *)

Lemma elem_of_i_entries (ib : irib) fam pfx x s a :
  (x, s, a) ∈ i_entries ib fam pfx <-> ib !! (fam, pfx, x) = Some (s, a).
Proof.
  unfold i_entries. rewrite elem_of_list_omap. split.
  - intros ([k v] & Hin & Hx). cbn [fst snd] in Hx.
    destruct (bool_decide (k.1.1 = fam /\ k.1.2 = pfx)) eqn:Hb; [|discriminate Hx].
    apply bool_decide_eq_true in Hb as [Hf Hp]. apply elem_of_map_to_list in Hin.
    destruct k as [[f p] y], v as [s' a']. cbn [fst snd] in *. injection Hx as -> -> ->. subst. exact Hin.
  - intros Hl. exists ((fam, pfx, x), (s, a)). split; [apply elem_of_map_to_list, Hl|].
    cbn [fst snd]. rewrite bool_decide_true by (split; reflexivity). reflexivity.
Qed.

Lemma owned_dec parent r i :
  (exists x, owns parent r x i) \/ (forall x, ~ owns parent r x i).
Proof.
  unfold owns, reg_find_peers.
  destruct (infos r !! i) as [inf|] eqn:E.
  2:{ right. intros x Hx. apply elem_of_find_all in Hx as (inf & Hl & _). congruence. }
  destruct (i_addr inf) as [a|] eqn:Ea, (i_asn inf) as [s|] eqn:Es.
  2-4: right; intros x Hx; apply elem_of_find_all in Hx as (inf' & Hl & Hm); rewrite E in Hl; injection Hl as <-;
       apply peer_match_spec in Hm as ((? & ? & ? & _ & Ha' & Hs') & _); congruence.
  destruct (peer_match (mrt_query parent (a, s)) inf) eqn:Hm.
  - left. exists (a, s). apply elem_of_find_all. eauto.
  - right. intros x Hx. apply elem_of_find_all in Hx as (inf' & Hl & Hm'). rewrite E in Hl. injection Hl as <-.
    assert (x = (a, s)) as ->; [|congruence].
    apply peer_match_spec in Hm' as (_ & _ & Hs' & Ha' & _). cbn [mrt_query i_asn i_addr] in *.
    destruct x as [x1 x2]. cbn [fst snd] in *. congruence.
Qed.

Definition QueriesRefine (fs : list mfile) : Prop :=
  let r' := (queue_run unit_start.1 unit_start.2 fs).1 in
  let h := evs_of (import_updates fs) in
  (* every entry the RIB lists for (family, prefix) is the entry of the ONE peer that has its id, up to K3 *)
  (forall f p i s a, f < 4 -> (i, s, a) ∈ rib_entries (import fs) f p ->
     exists x s0, reg_find_peers r' (mrt_query unit_start.1 x) = [i] /\
       (x, s0, a) ∈ i_entries (i_import fs) f p /\ s = s0 && negb (downed h (f, p, i))) /\
  (* every entry of the ideal RIB is listed by the RIB under the one id of its peer, up to K3 *)
  (forall f p x s0 a, f < 4 -> (x, s0, a) ∈ i_entries (i_import fs) f p ->
     exists i, reg_find_peers r' (mrt_query unit_start.1 x) = [i] /\
       (i, s0 && negb (downed h (f, p, i)), a) ∈ rib_entries (import fs) f p) /\
  (* so the multicast fall-back of Rib::match_prefix is taken for the same queries on both sides *)
  (forall af p, af < 2 -> exists f, f < 4 /\
     rib_query (import fs) af p = rib_entries (import fs) f p /\
     i_query (i_import fs) af p = i_entries (i_import fs) f p).

Lemma short_cases {A} (l : list A) : (length l <= 1)%nat -> l = [] \/ exists a, l = [a].
Proof. destruct l as [|a [|b l]]; cbn; intros H; [left; reflexivity|right; eauto|lia]. Qed.

Theorem refines_queries fs : RefinesIdeal fs -> QueriesRefine fs.
Proof.
  intros (Hone & Hb & Hc & Hd). cbv zeta in *.
  assert (H1 : forall f p i s a, f < 4 -> (i, s, a) ∈ rib_entries (import fs) f p ->
     exists x s0, reg_find_peers (queue_run unit_start.1 unit_start.2 fs).1 (mrt_query unit_start.1 x) = [i] /\
       (x, s0, a) ∈ i_entries (i_import fs) f p /\ s = s0 && negb (downed (evs_of (import_updates fs)) (f, p, i))).
  { intros f p i s a Hf Hin. apply elem_of_rib_entries in Hin.
    destruct (owned_dec unit_start.1 (queue_run unit_start.1 unit_start.2 fs).1 i) as [[x Hx]|Hun].
    - unfold owns in Hx. destruct (short_cases _ (Hone x)) as [E|[j E]]; rewrite E in Hx; [inversion Hx|].
      apply elem_of_list_singleton in Hx as ->. rewrite (Hb x j f p Hf E) in Hin.
      destruct (i_import fs !! (f, p, x)) as [[s0 a0]|] eqn:Ei; [|discriminate Hin].
      injection Hin as <- <-. exists x, s0. split; [exact E|]. split; [apply elem_of_i_entries, Ei|reflexivity].
    - rewrite (Hd i f p Hun) in Hin. discriminate Hin. }
  assert (H2 : forall f p x s0 a, f < 4 -> (x, s0, a) ∈ i_entries (i_import fs) f p ->
     exists i, reg_find_peers (queue_run unit_start.1 unit_start.2 fs).1 (mrt_query unit_start.1 x) = [i] /\
       (i, s0 && negb (downed (evs_of (import_updates fs)) (f, p, i)), a) ∈ rib_entries (import fs) f p).
  { intros f p x s0 a Hf Hin. apply elem_of_i_entries in Hin.
    destruct (short_cases _ (Hone x)) as [E|[i E]].
    - rewrite (Hc x f p E) in Hin. discriminate Hin.
    - exists i. split; [exact E|]. apply elem_of_rib_entries. rewrite (Hb x i f p Hf E), Hin. reflexivity. }
  split; [exact H1|]. split; [exact H2|].
  intros af p Haf. unfold rib_query, i_query.
  destruct (rib_entries (import fs) af p) as [|[[i s] a] l] eqn:Er.
  - destruct (i_entries (i_import fs) af p) as [|[[x s0] a] l'] eqn:Ei.
    + exists (af + 2). split; [lia|]. split; reflexivity.
    + exfalso. destruct (H2 af p x s0 a ltac:(lia)) as (i & _ & Hin); [rewrite Ei; left|].
      rewrite Er in Hin. inversion Hin.
  - destruct (i_entries (i_import fs) af p) as [|e l'] eqn:Ei.
    + exfalso. destruct (H1 af p i s a ltac:(lia)) as (x & s0 & _ & Hin & _); [rewrite Er; left|].
      rewrite Ei in Hin. inversion Hin.
    + exists af. split; [lia|]. rewrite Er, Ei. split; reflexivity.
Qed.

Theorem queue_queries_refine_ideal fsys ps :
  names_once [] (queue_files fsys ps) = true ->
  forallb file_ok (queue_files fsys ps) = true ->
  2 + N.of_nat (length (flat_map (all_ops unit_start.1) (queue_files fsys ps))) < two32 ->
  QueriesRefine (queue_files fsys ps).
Proof. intros H1 H2 H3. apply refines_queries, files_refine_ideal_syntactic; assumption. Qed.

(* the per-key theorem off / inside class K3, for every file store and queue *)
Theorem queue_exact_off_k3 fsys ps x i f p :
  names_once [] (queue_files fsys ps) = true ->
  forallb file_ok (queue_files fsys ps) = true ->
  2 + N.of_nat (length (flat_map (all_ops unit_start.1) (queue_files fsys ps))) < two32 ->
  f < 4 ->
  reg_find_peers (queue_run unit_start.1 unit_start.2 (queue_files fsys ps)).1 (mrt_query unit_start.1 x) = [i] ->
  if k3_class (queue_files fsys ps) x i f p
  then exists a, i_import (queue_files fsys ps) !! (f, p, x) = Some (true, a) /\
                 rib_lookup (import (queue_files fsys ps)) (f, p, i) = Some (false, a)
  else rib_lookup (import (queue_files fsys ps)) (f, p, i) = i_import (queue_files fsys ps) !! (f, p, x).
Proof.
  intros H1 H2 H3 Hf E. pose proof (files_refine_ideal_syntactic _ H1 H2 H3) as HR.
  destruct (k3_class (queue_files fsys ps) x i f p) eqn:Hk.
  - apply refines_k3_shape; assumption.
  - apply refines_exact_off_k3; assumption.
Qed.

(* each class hypothesis is needed: the recorded witnesses of C16-1 and C16-2 violate exactly one of them *)
Lemma class_witnesses :
  names_once [] two_dumps = false /\ forallb file_ok two_dumps = true /\
  names_once [] [mixed_file] = true /\ file_ok mixed_file = false.
Proof. vm_compute. repeat split; reflexivity. Qed.
